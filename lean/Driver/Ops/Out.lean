import Driver.Codec
import TacklerModel.Model.Output
/-! ops `out` and `bufw` (C14): the output protocol of `Model/Output.lean`.

`out`  – a plan (report and export destinations, each with the lengths of its write chunks and two reporter flags),
         the pre-existing files (name, length), per-destination byte limits, buffer capacity, variant flag
         ⇒ exit status, announced names, and for every named path its final state.
         The implementation side of this op is the python CLI runner of gen/c14.py (real `tackler` binary under
         `RLIMIT_FSIZE`), not tk_impl.
`bufw` – one buffered writer over a limited sink: capacity, limit, chunk lengths, variant ⇒ verdict and file length
         (the implementation side is `std::io::BufWriter` itself, harness op `bufw`).

Content bytes are synthesised from the lengths: byte at offset `i` of a destination is `i % 251`; pre-existing
files hold `0xFF` bytes, so the three states "untouched marker", "prefix of the content", "something else" are
distinguishable. -/
open Lean Tackler Codec

namespace Ops

def patBytes (off n : Nat) : Output.Bytes := (List.range n).map (fun i => UInt8.ofNat ((off + i) % 251))

def mkChunks : Nat → List Nat → List Output.Bytes
  | _, [] => []
  | off, n :: t => patBytes off n :: mkChunks (off + n) t

def markerBytes (n : Nat) : Output.Bytes := List.replicate n 0xFF

def natList (j : Json) : R (List Nat) := do (← arr j).mapM nat

def optBool (j : Json) (k : String) (d : Bool) : R Bool :=
  match optField j k with
  | none => pure d
  | some v => bool v

def optNat (j : Json) (k : String) : R (Option Nat) :=
  match optField j k with
  | none => pure none
  | some v => do pure (some (← nat v))

def dest (j : Json) : R Output.Dest := do
  let name ← str (← field j "name")
  let lens ← natList (← field j "chunks")
  pure ⟨name, mkChunks 0 lens, ← optBool j "setup_ok" true, ← optBool j "body_ok" true⟩

def dests (j : Json) (k : String) : R (List Output.Dest) :=
  match optField j k with
  | none => pure []
  | some v => do (← arr v).mapM dest

def jNat (n : Nat) : Json := .num (JsonNumber.fromNat n)

/-- state of a path after the run, relative to what the case says about it -/
def fileState (existing : List (String × Nat)) (ds : List Output.Dest) (fs : Output.FS) (name : String) : Json :=
  match fs.file name with
  | none => Json.mkObj [("name", name), ("state", "absent")]
  | some bytes =>
    let isMarker := match existing.lookup name with
      | some n => decide (bytes = markerBytes n)
      | none => false
    let isPrefix := ds.any (fun d => d.path == name && decide (bytes = d.content.take bytes.length))
    let isFull := ds.any (fun d => d.path == name && decide (bytes = d.content))
    Json.mkObj [("name", name), ("len", jNat bytes.length),
      ("state", if isMarker then "existing" else if isFull then "complete" else if isPrefix then "prefix" else "other")]

def opOut (j : Json) : R Json := do
  let cap ← match ← optNat j "cap" with
    | some c => pure c
    | none => pure Output.defaultCap
  let fc ← optBool j "flush_checked" true
  let reports ← dests j "reports"
  let exports ← dests j "exports"
  let existing ← match optField j "existing" with
    | none => pure []
    | some v => do (← arr v).mapM (fun e => do pure (← str (← field e "name"), ← nat (← field e "len")))
  let limits ← match optField j "limits" with
    | none => pure []
    | some v => do (← arr v).mapM (fun e => do pure (← str (← field e "name"), ← nat (← field e "k")))
  let fs0 : Output.FS := existing.foldl (fun fs (e : String × Nat) => fs.set e.1 (markerBytes e.2)) ⟨fun _ => none⟩
  let faults : Output.FaultPlan := fun p => limits.lookup p
  let plan : Output.Plan := ⟨reports, exports⟩
  let r := Output.runV fc cap plan fs0 faults
  let names := (plan.dests.map (·.path) ++ existing.map (·.1)).eraseDups
  pure (Json.mkObj [("r", "OK"), ("exit", jNat r.exit),
    ("announced", Json.arr (r.announced.map Json.str).toArray),
    ("files", Json.arr (names.map (fileState existing plan.dests r.fs)).toArray)])

def opBufw (j : Json) : R Json := do
  let cap ← nat (← field j "cap")
  let fc ← optBool j "flush_checked" true
  let limit ← optNat j "limit"
  let lens ← natList (← field j "chunks")
  let d : Output.Dest := ⟨"f", mkChunks 0 lens, true, true⟩
  let r := Output.writeDestV fc cap ⟨fun _ => none⟩ limit d
  match r.fs.file "f" with
  | none => throw "no file"
  | some bytes =>
    pure (Json.mkObj [("r", "OK"), ("ok", Json.bool r.ok), ("len", jNat bytes.length),
      ("prefix", Json.bool (decide (bytes = d.content.take bytes.length)))])

end Ops

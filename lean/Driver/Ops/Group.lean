import Driver.Ops.Balance
import Driver.Ops.Ts
import TacklerModel.Model.Group
/-! output kind `balgrp` of op `run`: the ordered list of printed groups `(title, rows, deltas)` of
    `Tackler.balanceGroups`.
    Case fields: `mgroup_by` ("year" | "month" | "date" | "iso-week" | "iso-week-date"), `mreport_tz`
    (`{"off": seconds}` or `{"table": {lo, hi, init, trans}}`, as op `tsfmt`; absent = UTC), `msel_balgrp` =
    list of exact account names (absent or empty = all accounts). -/
open Lean Tackler Codec

namespace Ops

def groupBy (s : String) : R GroupBy :=
  match s with
  | "year" => pure .year
  | "month" => pure .month
  | "date" => pure .date
  | "iso-week" => pure .isoWeek
  | "iso-week-date" => pure .isoWeekDate
  | _ => throw s!"unknown group-by {s}"

def jBalGroup (g : BalGroup) : Json :=
  Json.mkObj [("title", .str g.title), ("rows", .arr (g.bal.rows.map jBalRow).toArray),
    ("deltas", .arr (g.bal.deltas.map (fun (c, d) => Json.arr #[.str c, jDec d])).toArray)]

def outBalGrp : OutputFn := fun j st ts => do
  let names ← selNames j "msel_balgrp"
  let g ← match optField j "mgroup_by" with
    | some v => groupBy (← str v)
    | none => pure .month
  let tz ← match optField j "mreport_tz" with
    | some v => journalTz v
    | none => pure (.fixed 0)
  pure (outcome (balanceGroups st (exactSel names) g tz ts) (fun gs => .arr (gs.map jBalGroup).toArray))

end Ops

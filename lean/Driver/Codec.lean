import Lean.Data.Json
import TacklerModel.Model.Order
/-! JSON decoding of generated cases and encoding of canonical observables (driver only). -/
open Lean Tackler

namespace Codec

abbrev R := Except String

def field (j : Json) (k : String) : R Json := j.getObjVal? k
def optField (j : Json) (k : String) : Option Json :=
  match j.getObjVal? k with
  | .ok .null => none
  | .ok v => some v
  | .error _ => none

def str (j : Json) : R String := j.getStr?
def bool (j : Json) : R Bool := j.getBool?
def arr (j : Json) : R (List Json) := do return (← j.getArr?).toList

def int (j : Json) : R Int :=
  match j with
  | .str s => match s.toInt? with
    | some i => pure i
    | none => throw s!"bad int {s}"
  | _ => j.getInt?

def nat (j : Json) : R Nat := do
  let i ← int j
  if i < 0 then throw "negative nat" else pure i.toNat

def dec (j : Json) : R Dec := do
  let s ← str j
  match Dec.ofString? s with
  | some d => pure d
  | none =>
    -- a well-formed number token that `Decimal::from_str_exact` cannot represent (more than 28 fraction digits or a
    -- coefficient above 2^96-1): the grammar's number rule fails on it (`Dec.ofToken = none`), see `Ops.loadCase`
    let cs := match s.toList with | '-' :: r => r | r => r
    let ip := cs.takeWhile Char.isDigit
    let wf := !ip.isEmpty && (match cs.dropWhile Char.isDigit with
      | [] => true
      | '.' :: fp => !fp.isEmpty && fp.all Char.isDigit
      | _ => false)
    if wf then throw s!"unrepresentable decimal {s}" else throw s!"bad decimal {s}"

def path (j : Json) : R Path := do
  let s ← str j
  pure (s.splitOn ":")

def optStr (j : Json) (k : String) : R (Option String) :=
  match optField j k with
  | none => pure none
  | some v => do pure (some (← str v))

def strList (j : Json) : R (List String) := do (← arr j).mapM str

def val (j : Json) : R Val := do
  pure ⟨← dec (← field j "v"), ← str (← field j "c")⟩

def closing (j : Json) : R Closing := do
  let k ← str (← field j "k")
  let v ← val j
  if k == "@" then pure (.unitPrice v) else if k == "=" then pure (.total v) else throw "bad closing kind"

def unit (j : Json) : R PostUnit := do
  let comm ← str (← field j "comm")
  let opening ← match optField j "opening" with
    | none => pure none
    | some o => do pure (some (← val o))
  let cl ← match optField j "closing" with
    | none => pure none
    | some c => do pure (some (← closing c))
  pure ⟨comm, opening, cl⟩

def rawPosting (j : Json) : R RawPosting := do
  let acct ← path (← field j "acct")
  let amount ← dec (← field j "amount")
  let u ← match optField j "unit" with
    | none => pure none
    | some u => do pure (some (← unit u))
  pure ⟨acct, amount, u, ← optStr j "comment"⟩

def geo (j : Json) : R Geo := do
  let alt ← match optField j "alt" with
    | none => pure none
    | some a => do pure (some (← dec a))
  pure ⟨← dec (← field j "lat"), ← dec (← field j "lon"), alt⟩

def ts (j : Json) : R Ts := do
  pure ⟨← int (← field j "ns"), ← int (← field j "off")⟩

def header (j : Json) : R Header := do
  let loc ← match optField j "loc" with
    | none => pure none
    | some g => do pure (some (← geo g))
  let tags ← match optField j "tags" with
    | none => pure none
    | some t => do pure (some (← strList t))
  let comments ← match optField j "comments" with
    | none => pure none
    | some t => do pure (some (← strList t))
  pure ⟨← ts (← field j "ts"), ← optStr j "code", ← optStr j "desc", ← optStr j "uuid", loc, tags, comments⟩

def rawTxn (j : Json) : R RawTxn := do
  let h ← header j
  let posts ← (← arr (← field j "posts")).mapM rawPosting
  let last ← match optField j "last" with
    | none => pure none
    | some l => do pure (some (← path (← field l "acct"), ← optStr l "comment"))
  pure ⟨h, posts, last⟩

def rawTxns (j : Json) : R (List RawTxn) := do (← arr j).mapM rawTxn

def settings (j : Json) : R Settings := do
  let strict ← bool (← field j "strict")
  let audit ← bool (← field j "audit")
  let pe ← bool (← field j "permit_empty")
  let accounts ← (← arr (← field j "accounts")).mapM path
  let comms ← strList (← field j "commodities")
  let tags ← strList (← field j "tags")
  pure (Settings.ofConfig strict audit pe accounts comms tags)

/-! ### encoding -/

def jOptStr : Option String → Json
  | some s => .str s
  | none => .null

def jDec (d : Dec) : Json := .str d.toString

def jPath (p : Path) : Json := .str (acctName p)

def jGeo (g : Geo) : Json :=
  Json.mkObj [("lat", jDec g.lat), ("lon", jDec g.lon),
    ("alt", match g.alt with | some a => jDec a | none => .null)]

def jStrList (l : List String) : Json := .arr (l.map Json.str).toArray

def jPosting (p : Posting) : Json :=
  Json.mkObj [("acct", jPath p.acct), ("comm", .str p.comm), ("amount", jDec p.amount),
    ("txn_amount", jDec p.txnAmount), ("txn_comm", .str p.txnComm), ("is_total", .bool p.isTotal),
    ("comment", jOptStr p.comment)]

def jHeader (h : Header) : List (String × Json) :=
  [("ts", Json.mkObj [("ns", .str (toString h.ts.ns)), ("off", .num (JsonNumber.fromInt h.ts.offset))]),
   ("code", jOptStr h.code), ("desc", jOptStr h.desc), ("uuid", jOptStr h.uuid),
   ("loc", match h.location with | some g => jGeo g | none => .null),
   ("tags", match h.tags with | some t => jStrList t | none => .null),
   ("comments", match h.comments with | some t => jStrList t | none => .null)]

def jTxn (t : Txn) : Json :=
  Json.mkObj (jHeader t.header ++ [("posts", .arr (t.posts.map jPosting).toArray)])

def jTxns (ts : List Txn) : Json := .arr (ts.map jTxn).toArray

def outcome {α} (o : Outcome α) (f : α → Json) : Json :=
  match o with
  | .ok a => Json.mkObj [("r", "OK"), ("v", f a)]
  | .err => Json.mkObj [("r", "ERR")]
  | .undef => Json.mkObj [("r", "UNDEF")]

end Codec

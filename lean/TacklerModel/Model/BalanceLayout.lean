import TacklerModel.Model.Scale
/-!
# Column layout of the balance text report (`report/balance_reporter.rs` `BalanceReporter::txt_report`)

`Model/Scale` gives the *figures* of the report; this module gives the *lines*: the widths the reporter derives
from the whole balance and the text of every row, of the ruler and of every delta line, character for character.

| here | `txt_report` |
|---|---|
| `sumLen`, `maxSumLen` | closure `get_max_sum_len` (length of `format_with_precision(&d, prec)` of the **unrounded** figure, plus one for a non-negative sign flag) |
| `maxDeltaLen` | `get_max_delta_len` (`format!("{}", d)` of the unrounded delta) |
| `maxCommLen` | `get_max_commodity_len` |
| `widths` | `left_sum_len`, `sub_acc_tree_sum_len`, `comm_max_len` |
| `fillerLen` | `filler_field_len` |
| `commField` | `make_commodity_field` |
| `rowLine`, `rulerLine`, `deltaLine`, `bodyLines` | the `writeln!`s after the title and its underline |

`{:>w$}` / `{: <w$}` pad to `w` *characters* and never shorten (`padL`, `padR`).  A commodity "none" is `""`.
-/
namespace Tackler
namespace BalLayout

def spaces (n : Nat) : List Char := List.replicate n ' '

/-- `{:>w$}`: right-aligned, padded with blanks on the left, never shortened -/
def padL (w : Nat) (s : List Char) : List Char := spaces (w - s.length) ++ s

/-- `{: <w$}`: left-aligned, padded with blanks on the right, never shortened -/
def padR (w : Nat) (s : List Char) : List Char := s ++ spaces (w - s.length)

/-- `.fold(0, max)` -/
def maxOf (l : List Nat) : Nat := l.foldl max 0

/-- one term of `get_max_sum_len` -/
def sumLen (sc : Scale) (d : Dec) : Nat :=
  (d.fmtFixedChars (sc.getPrecision d)).length + (if d.isPos then 1 else 0)

def maxSumLen (sc : Scale) (ds : List Dec) : Nat := maxOf (ds.map (sumLen sc))

def maxDeltaLen (deltas : List (String × Dec)) : Nat := maxOf (deltas.map (fun cd => cd.2.toChars.length))

def maxCommLen (deltas : List (String × Dec)) : Nat := maxOf (deltas.map (fun cd => cd.1.toList.length))

structure Widths where
  left : Nat      -- `left_sum_len`
  tree : Nat      -- `sub_acc_tree_sum_len`
  comm : Nat      -- `comm_max_len`
deriving Repr, DecidableEq

def widths (sc : Scale) (b : Balance) : Widths :=
  { left := max 12 (max (maxSumLen sc (b.rows.map (·.own))) (maxDeltaLen b.deltas)),
    tree := maxSumLen sc (b.rows.map (·.tree)),
    comm := maxCommLen b.deltas }

/-- `filler_field_len` -/
def fillerLen (cl : Nat) : Nat := if cl = 0 then 3 else 4 + cl

/-- `make_commodity_field` -/
def commField (cl : Nat) (comm : String) : List Char :=
  if cl = 0 then spaces 2
  else if comm = "" then ' ' :: (spaces cl ++ spaces 2)
  else ' ' :: (padR cl comm.toList ++ spaces 2)

/-- one account row: `"{left_ruler}{:>asl$}{:>width$}{:>satsl$}{}{}"` -/
def rowLine (sc : Scale) (w : Widths) (r : BalRow) : List Char :=
  spaces 9 ++ padL w.left (shownChars sc r.own) ++ padL (fillerLen w.comm) [] ++ padL w.tree (shownChars sc r.tree)
    ++ commField w.comm r.comm ++ (acctName r.acct).toList

/-- the `=` ruler between rows and deltas -/
def rulerLine (w : Widths) : List Char :=
  List.replicate (9 + w.left + (if w.comm = 0 then 0 else w.comm + 1)) '='

/-- one delta line: `"{left_ruler}{:>width$}{}"` -/
def deltaLine (sc : Scale) (w : Widths) (cd : String × Dec) : List Char :=
  spaces 9 ++ padL w.left (shownChars sc cd.2) ++ (if cd.1 = "" then [] else ' ' :: cd.1.toList)

/-- everything `txt_report` writes after the title and its underline (nothing for an empty balance) -/
def bodyLines (sc : Scale) (b : Balance) : List (List Char) :=
  if b.rows.isEmpty then []
  else b.rows.map (rowLine sc (widths sc b)) ++ [rulerLine (widths sc b)] ++ b.deltas.map (deltaLine sc (widths sc b))

end BalLayout
end Tackler

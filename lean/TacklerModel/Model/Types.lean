import TacklerModel.Model.Dec
/-!
# Types: journal AST (what the grammar yields), accepted transactions, settings

Accounts are component lists (`a:b:c` ↦ `["a","b","c"]`); the account *name* used for ordering and
printing is the `:`-joined string (`acctName`), because tackler orders and matches on the string.
-/
namespace Tackler

abbrev Path := List String

def acctName (p : Path) : String := ":".intercalate p

/-- `AccountTreeNode.parent` as a path -/
def parentPath (p : Path) : Path := p.dropLast

structure Val where
  value : Dec
  comm : String
deriving Repr, DecidableEq

inductive Closing where
  | unitPrice (v : Val)     -- `@`
  | total (v : Val)         -- `=`
deriving Repr, DecidableEq

/-- `p_unit`: commodity with optional opening `{..}` and closing `@`/`=` positions -/
structure PostUnit where
  comm : String
  opening : Option Val
  closing : Option Closing
deriving Repr, DecidableEq

structure RawPosting where
  acct : Path
  amount : Dec
  unit : Option PostUnit
  comment : Option String
deriving Repr, DecidableEq

structure Geo where
  lat : Dec
  lon : Dec
  alt : Option Dec
deriving Repr, DecidableEq

/-- instant in nanoseconds since the Unix epoch and the UTC offset (seconds) it was written with -/
structure Ts where
  ns : Int
  offset : Int
deriving Repr, DecidableEq

structure Header where
  ts : Ts
  code : Option String
  desc : Option String
  uuid : Option String          -- canonical lower-case text
  location : Option Geo
  tags : Option (List String)   -- tag names (`:`-joined)
  comments : Option (List String)
deriving Repr, DecidableEq

/-- parse tree of one transaction -/
structure RawTxn where
  header : Header
  posts : List RawPosting
  last : Option (Path × Option String)     -- amount-less last posting: account, comment
deriving Repr, DecidableEq

/-- `model::Posting` -/
structure Posting where
  acct : Path
  comm : String            -- `acctn.comm.name`
  amount : Dec
  txnAmount : Dec
  isTotal : Bool
  txnComm : String
  comment : Option String
deriving Repr, DecidableEq

structure Txn where
  header : Header
  posts : List Posting
deriving Repr, DecidableEq

/-- the part of `kernel::Settings` the load path reads and mutates -/
structure Settings where
  strict : Bool
  audit : Bool
  permitEmpty : Bool
  accounts : List Path          -- `accounts.defined_accounts` (keys)
  synthetic : List Path         -- `accounts.synthetic_parents` (keys; strict mode only)
  commodities : List String     -- `commodities.names` (keys)
  tags : List String
deriving Repr, DecidableEq

end Tackler

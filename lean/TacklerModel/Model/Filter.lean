import TacklerModel.Model.Order
/-!
# Filter: transaction filters (`tackler-core/src/filter/**`, `TxnData::filter`)

`eval m f t` transliterates `impl Predicate<Transaction> for TxnFilter` and the per-variant
predicates.  `m pattern haystack` is the whole-string regular expression match the filters use
(`new_full_haystack_regex(pattern).is_match(haystack)`), a parameter here; `Model/Regex.lean`
instantiates it for the modelled regex subset.
Bounding boxes are as in the tree after the fix of F3: the wrapping branch is taken only when
west is *greater* than east.
-/
namespace Tackler

inductive Filter where
  | tt                                     -- NullaryTRUE
  | ff                                     -- NullaryFALSE
  | and (fs : List Filter)
  | or (fs : List Filter)
  | not (f : Filter)
  | tsBegin (ns : Int)
  | tsEnd (ns : Int)
  | code (re : String)
  | desc (re : String)
  | uuid (u : String)
  | bbox (south west north east : Dec)
  | bbox3 (south west depth north east height : Dec)
  | tags (re : String)
  | comments (re : String)
  | postAccount (re : String)
  | postComment (re : String)
  | postAmountEq (re : String) (x : Dec)
  | postAmountLess (re : String) (x : Dec)
  | postAmountGreater (re : String) (x : Dec)
  | postCommodity (re : String)
deriving Repr

/-- 2-D part of both bounding-box filters -/
def inBox2 (south west north east : Dec) (g : Geo) : Bool :=
  if Dec.leVal west east then
    Dec.leVal south g.lat && Dec.leVal g.lat north && Dec.leVal west g.lon && Dec.leVal g.lon east
  else
    Dec.leVal south g.lat && Dec.leVal g.lat north && (Dec.leVal west g.lon || Dec.leVal g.lon east)

def optAny {α} (o : Option α) (p : α → Bool) : Bool :=
  match o with
  | some a => p a
  | none => false

mutual
/-- `impl Predicate<Transaction> for TxnFilter` -/
def Filter.eval (m : String → String → Bool) : Filter → Txn → Bool
  | .tt, _ => true
  | .ff, _ => false
  | .and fs, t => Filter.evalAll m fs t
  | .or fs, t => Filter.evalAny m fs t
  | .not f, t => !(Filter.eval m f t)
  | .tsBegin b, t => decide (b ≤ t.header.ts.ns)
  | .tsEnd e, t => decide (t.header.ts.ns < e)
  | .code re, t => optAny t.header.code (m re)
  | .desc re, t => optAny t.header.desc (m re)
  | .uuid u, t => optAny t.header.uuid (fun x => x == u)
  | .bbox s w n e, t => optAny t.header.location (inBox2 s w n e)
  | .bbox3 s w d n e h, t =>
      optAny t.header.location (fun g => inBox2 s w n e g && optAny g.alt (fun z => Dec.leVal d z && Dec.leVal z h))
  | .tags re, t => optAny t.header.tags (fun ts => ts.any (m re))
  | .comments re, t => optAny t.header.comments (fun cs => cs.any (m re))
  | .postAccount re, t => t.posts.any (fun p => m re (acctName p.acct))
  | .postComment re, t => t.posts.any (fun p => optAny p.comment (m re))
  | .postAmountEq re x, t => t.posts.any (fun p => Dec.eqVal p.amount x && m re (acctName p.acct))
  | .postAmountLess re x, t => t.posts.any (fun p => Dec.ltVal p.amount x && m re (acctName p.acct))
  | .postAmountGreater re x, t => t.posts.any (fun p => Dec.ltVal x p.amount && m re (acctName p.acct))
  | .postCommodity re, t => t.posts.any (fun p => m re p.comm)
def Filter.evalAll (m : String → String → Bool) : List Filter → Txn → Bool
  | [], _ => true
  | f :: fs, t => Filter.eval m f t && Filter.evalAll m fs t
def Filter.evalAny (m : String → String → Bool) : List Filter → Txn → Bool
  | [], _ => false
  | f :: fs, t => Filter.eval m f t || Filter.evalAny m fs t
end

/-- `TxnData::filter`: keep the transactions the predicate accepts, in unchanged order -/
def filterTxns (m : String → String → Bool) (f : Filter) (ts : List Txn) : List Txn :=
  ts.filter (Filter.eval m f)

end Tackler

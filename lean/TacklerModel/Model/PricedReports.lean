import TacklerModel.Model.Price
import TacklerModel.Model.Register
import TacklerModel.Model.Group
/-!
# PricedReports: the balance, register and balance-group reports *with* price conversion

How the three reporters plug `PriceLookupCtx::convert_prices` (Model/Price.lean) into the kernels of
Model/Balance.lean, Model/Register.lean and Model/Group.lean.

| Lean                     | Rust                                                                                     |
|--------------------------|------------------------------------------------------------------------------------------|
| `toBPost`                | the `(TxnAccount, Decimal, Option<Decimal>)` item of `convert_prices` as the balance kernel reads it (`acctn`, `amount`; the rate is dropped) |
| `convertedAll`, `convertedPosts` | `txns.flat_map(|txn| price_lookup_ctx.convert_prices(txn))` at the top of `Balance::balance` |
| `balanceOfConv`          | `Balance::from_iter(title, txns, price_lookup_ctx, accounts, settings)`                   |
| `zipItems`               | `price_lookup_ctx.convert_prices(txn).zip(&txn.posts)` of `register_engine`: the converted account key is `(conv_acctn.comm, orig_p account)`, amount and rate are the converted ones, `post` is `orig_p` |
| `convertedStream`        | that zip for every transaction, in order (the input of `Tackler.registerEngine`, which sorts by the *original* key `orig_p.acctn` and accumulates under the *converted* key) |
| `reportCtx`              | the `self.report_settings.price_lookup.make_ctx(&txn_data.txns, report_commodity, &cfg.price.price_db)` every reporter's `write_txt_report` starts with: **one context, built from all transactions of the report**, used for the figures *and* for the metadata block (`write_price_metadata(cfg, writer, &price_lookup_ctx)`) |
| `registerCommodities`, `reportSettings` | the commodity side of `Settings::try_from` (`report.commodity`, then `parse_price_entry` per price-file line): `inner_get_or_create_commodity` |
| `balanceConv`, `PricedBalance`, `balanceReport` | `BalanceReporter::write_txt_report`: `Balance::from(title, txn_data, &price_lookup_ctx, …)` and the metadata of the same context |
| `registerConv`, `PricedRegister`, `registerReport` | `RegisterReporter::write_txt_report`: `accumulator::register_engine(&txn_data.txns, &price_lookup_ctx, …)` |
| `groupBalancesConv`, `balgrpConvBy`, `balgrpConv`, `PricedGroups`, `balgrpReport` | `BalanceGroupReporter::write_txt_report`: the context is built **once, from all transactions** (before `accumulator::balance_groups`), and handed to `Balance::from_iter` of every group — not one context per group |

`convert_prices` is lazy in the Rust code; a multiplication outside the exact domain panics or rounds wherever
it is forced, so the model answers `.undef` for the whole report as soon as one posting of the stream is outside.
-/
namespace Tackler
namespace Priced
open Tackler.Price

/-- what the balance kernel reads of an item of `convert_prices` -/
def toBPost (c : Converted) : BPost := ⟨c.acct, c.comm, c.amount⟩

/-- every item of `txns.flat_map(|txn| ctx.convert_prices(txn))`, in transaction order (with the rate) -/
def convertedAll (ctx : Ctx) (txns : List Txn) : Outcome (List Converted) :=
  (mapO (convertPrices ctx) txns).map List.flatten

/-- the posting stream `Balance::balance` sums -/
def convertedPosts (ctx : Ctx) (txns : List Txn) : Outcome (List BPost) :=
  (convertedAll ctx txns).map (fun cs => cs.map toBPost)

/-- `Balance::from_iter` with a price context -/
def balanceOfConv (st : Settings) (sel : BalRow → Bool) (ctx : Ctx) (txns : List Txn) : Outcome Balance :=
  (convertedPosts ctx txns).bind (fromIter st sel)

/-- `convert_prices(txn).zip(&txn.posts)` -/
def zipItems (cs : List Converted) (posts : List Posting) : List RItem :=
  (cs.zip posts).map (fun cp => ⟨cp.2, cp.1.comm, cp.1.amount, cp.1.rate⟩)

/-- the stream `register_engine` walks: per transaction the zipped items -/
def convertedStream (ctx : Ctx) (txns : List Txn) : Outcome (List (Txn × List RItem)) :=
  mapO (fun t => (convertPrices ctx t).map (fun cs => (t, zipItems cs t.posts))) txns

/-- the price context of a report: built once from all transactions of the report -/
def reportCtx (lk : PriceLookup) (rc : Option String) (db : List PriceEntry) (txns : List Txn) : Ctx :=
  makeCtx lk txns rc db

/-! ### balance report -/

/-- the figures of `BalanceReporter::write_txt_report` -/
def balanceConv (st : Settings) (sel : BalRow → Bool) (lk : PriceLookup) (rc : Option String)
    (db : List PriceEntry) (txns : List Txn) : Outcome Balance :=
  balanceOfConv st sel (reportCtx lk rc db txns) txns

/-- metadata block and figures of the balance report (same context) -/
structure PricedBalance where
  records : List PriceRecord
  bal : Balance
deriving Repr, DecidableEq

def balanceReport (st : Settings) (sel : BalRow → Bool) (lk : PriceLookup) (rc : Option String)
    (db : List PriceEntry) (txns : List Txn) : Outcome PricedBalance :=
  (balanceConv st sel lk rc db txns).map (fun b => ⟨metadata (reportCtx lk rc db txns), b⟩)

/-! ### register report -/

/-- the entries of `RegisterReporter::write_txt_report` (before `reg_entry_txt_writer` drops the empty ones) -/
def registerConv (sel : RegRow → Bool) (lk : PriceLookup) (rc : Option String)
    (db : List PriceEntry) (txns : List Txn) : Outcome (List RegEntry) :=
  (convertedStream (reportCtx lk rc db txns) txns).bind (registerEngine sel)

structure PricedRegister where
  records : List PriceRecord
  entries : List RegEntry
deriving Repr, DecidableEq

def registerReport (sel : RegRow → Bool) (lk : PriceLookup) (rc : Option String)
    (db : List PriceEntry) (txns : List Txn) : Outcome PricedRegister :=
  (registerConv sel lk rc db txns).map (fun es => ⟨metadata (reportCtx lk rc db txns), es⟩)

/-! ### balance-group report -/

/-- `Balance::from_iter(&key, group_txns, price_lookup_ctx, …)` of every candidate, in order, all with the
    context of the whole report -/
def groupBalancesConv (st : Settings) (sel : BalRow → Bool) (ctx : Ctx) :
    List (String × List Txn) → Outcome (List BalGroup)
  | [] => .ok []
  | (k, g) :: rest =>
    match balanceOfConv st sel ctx g with
    | .err => .err
    | .undef => .undef
    | .ok b =>
      match groupBalancesConv st sel ctx rest with
      | .err => .err
      | .undef => .undef
      | .ok r => .ok (⟨k, b⟩ :: r)

/-- `accumulator::balance_groups` with a price context, for an arbitrary key function -/
def balgrpConvBy (st : Settings) (sel : BalRow → Bool) (ctx : Ctx) (key : Txn → String) (txns : List Txn) :
    Outcome (List BalGroup) :=
  (groupBalancesConv st sel ctx (groupCandidates key txns)).map (fun gs => gs.filter (fun g => !g.isEmpty))

/-- the groups of `BalanceGroupReporter::write_txt_report` -/
def balgrpConv (st : Settings) (sel : BalRow → Bool) (g : GroupBy) (tz : Time.JournalTz)
    (lk : PriceLookup) (rc : Option String) (db : List PriceEntry) (txns : List Txn) : Outcome (List BalGroup) :=
  if zoneCovers tz txns then balgrpConvBy st sel (reportCtx lk rc db txns) (groupKey g tz) txns else .undef

structure PricedGroups where
  records : List PriceRecord
  groups : List BalGroup
deriving Repr, DecidableEq

def balgrpReport (st : Settings) (sel : BalRow → Bool) (g : GroupBy) (tz : Time.JournalTz)
    (lk : PriceLookup) (rc : Option String) (db : List PriceEntry) (txns : List Txn) : Outcome PricedGroups :=
  (balgrpConv st sel g tz lk rc db txns).map (fun gs => ⟨metadata (reportCtx lk rc db txns), gs⟩)

/-! ### the settings the reports run with

`Settings::try_from` resolves `report.commodity` through `inner_get_or_create_commodity` and, when a price lookup is
set, `parse_price_entry` does the same for base and target commodity of every price-file entry, in file order.  So the
report commodity is a known commodity when `Balance::bubble_up_acctn` asks `get_txn_account(parent, comm)` for a
missing parent of a *converted* account (whose commodity is the report commodity).  In strict mode an undeclared
commodity fails the configuration. -/

def registerCommodities (st : Settings) : List String → Outcome Settings
  | [] => .ok st
  | c :: rest =>
    match st.getOrCreateCommodity (some c) with
    | .ok (_, st') => registerCommodities st' rest
    | .err => .err
    | .undef => .undef

/-- the commodity part of `Settings::try_from` for the price configuration (`es`: price-file entries in file order) -/
def reportSettings (st : Settings) (lk : PriceLookup) (rc : Option String) (es : List PriceEntry) : Outcome Settings :=
  registerCommodities st
    ((match rc with | some c => [c] | none => []) ++
     (if lk = .none then [] else es.flatMap (fun e => [e.base, e.target])))

end Priced
end Tackler

import TacklerModel.Model.Order
import TacklerModel.Model.Hash
/-!
# Audit: transaction-set checksum, set metadata, account-selector checksum

| Lean                              | mirrors                                                                       |
|-----------------------------------|-------------------------------------------------------------------------------|
| `strLe`, `sortStrings`            | `impl Ord for str` (byte-wise), `Vec<String>::sort()`                          |
| `uuidToString`                    | `Uuid::to_string()` (lower-case hyphenated `Display`)                          |
| `duplicates`                      | `itertools::Itertools::duplicates`                                             |
| `txnUuids`, `calcTxnChecksum`     | `calc_txn_checksum` (model/txn_data.rs)                                        |
| `getHash`                         | `Settings::get_hash` (kernel/settings.rs): a hasher exists iff audit mode is on |
| `makeMetadata`                    | `TxnData::make_metadata` (only the `TxnSetChecksum` item is kept)              |
| `TxnData.filter`, `TxnData.getAll`| `TxnData::filter`, `TxnData::get_all`                                          |
| `intoFullHaystackPattern`, `peelFullHaystackPattern` | the two private functions of tackler-rs/src/regex.rs        |
| `regexSetPatterns`, `peeledPatterns` | `new_full_haystack_regex_set(..).patterns()`, `peeled_patterns`             |
| `selectorChecksum`                | `ReportItemSelector::checksum` of the selector chosen by `BalanceReporter::acc_selector`, `RegisterReporter::get_acc_selector`, `EquityExporter::get_acc_selector` |
| `accSelChecksum`                  | `write_acc_sel_checksum` (report.rs) / the `acc_sel_checksum` of the equity exporter |

The audit-mode UUID requirement at parse time is `acceptHeader` in `Model/Accept.lean`.
A filter is any predicate `Txn → Bool` here (`tf.eval(txn)`); the filter language is `Model/Filter`'s business.
-/
namespace Tackler
open Hash

/-! ## strings: order, sort, duplicates -/

/-- `impl Ord for str`: lexicographic on the UTF-8 bytes -/
def strLe (a b : String) : Bool := decide (strBytes a ≤ strBytes b)

/-- `Vec<String>::sort()` -/
def sortStrings (l : List String) : List String := l.mergeSort strLe

/-- `Uuid::to_string()`: the canonical text is lower-case.  `Header.uuid` holds the text of the UUID;
    when it was produced from a parsed `Uuid` it is canonical already and this is the identity. -/
def uuidToString (u : String) : String := String.ofList (u.toList.map Char.toLower)

/-- `Itertools::duplicates`: the elements that occur more than once, each reported once, at its second
    occurrence (`seen` = the elements already consumed) -/
def duplicatesAux : List String → List String → List String
  | _, [] => []
  | seen, x :: t =>
    if seen.count x = 1 then x :: duplicatesAux (x :: seen) t else duplicatesAux (x :: seen) t

def duplicates (l : List String) : List String := duplicatesAux [] l

/-! ## transaction-set checksum -/

/-- `txns.iter().map(|txn| match txn.header.uuid { Some(u) => Ok(u.to_string()), None => Err(..) }).collect()` -/
def txnUuids : List Txn → Outcome (List String)
  | [] => .ok []
  | t :: ts =>
    match t.header.uuid with
    | none => .err
    | some u =>
      match txnUuids ts with
      | .ok us => .ok (uuidToString u :: us)
      | .err => .err
      | .undef => .undef

/-- `calc_txn_checksum`: UUID texts, sorted, no duplicates, hashed each followed by `"\n"` -/
def calcTxnChecksum (txns : List Txn) (alg : Algo) : Outcome Checksum :=
  match txnUuids txns with
  | .err => .err
  | .undef => .undef
  | .ok uuids =>
    if (duplicates (sortStrings uuids)).isEmpty then .ok (Hash.checksum alg (sortStrings uuids) [0x0a])
    else .err

/-- `Settings::get_hash`: `alg` is `kernel.audit.hash` of the configuration -/
def getHash (st : Settings) (alg : Algo) : Option Algo := if st.audit then some alg else none

/-- `metadata::items::TxnSetChecksum` -/
structure TxnSetChecksum where
  size : Nat
  hash : Checksum
deriving Repr, DecidableEq

/-- `TxnSet`: the selected transactions and, of the metadata, the `TxnSetChecksum` item -/
structure TxnSet where
  checksum : Option TxnSetChecksum
  txns : List Txn
deriving Repr, DecidableEq

/-- `TxnData::make_metadata` -/
def makeMetadata (hash : Option Algo) (txns : List Txn) : Outcome (Option TxnSetChecksum) :=
  match hash with
  | none => .ok none
  | some alg =>
    match calcTxnChecksum txns alg with
    | .ok cs => .ok (some ⟨txns.length, cs⟩)
    | .err => .err
    | .undef => .undef

namespace TxnData

/-- `TxnData::filter` (`txns` is `self.txns`, sorted at load) -/
def filter (hash : Option Algo) (tf : Txn → Bool) (txns : List Txn) : Outcome TxnSet :=
  match makeMetadata hash (txns.filter tf) with
  | .ok md => .ok ⟨md, txns.filter tf⟩
  | .err => .err
  | .undef => .undef

/-- `TxnData::get_all` (string / file-system input: no other metadata item exists, so without a hasher
    the metadata is `None`) -/
def getAll (hash : Option Algo) (txns : List Txn) : Outcome TxnSet :=
  match makeMetadata hash txns with
  | .ok md => .ok ⟨md, txns⟩
  | .err => .err
  | .undef => .undef

end TxnData

/-! ## account-selector checksum

`into_full_haystack_pattern` / `peel_full_haystack_pattern` are written here on character lists;
they are to be unified with `Model/Regex.lean` (C11/C18) once that exists. -/

def hayPre : List Char := "^(?:".toList
def haySuf : List Char := ")$".toList

/-- `format!("^(?:{})$", re)` -/
def intoFullHaystackPattern (re : String) : String := String.ofList (hayPre ++ re.toList ++ haySuf)

/-- `str::strip_prefix` -/
def stripPrefix (x s : List Char) : Option (List Char) :=
  if x.isPrefixOf s then some (s.drop x.length) else none

/-- `str::strip_suffix` -/
def stripSuffix (x s : List Char) : Option (List Char) :=
  if x.isSuffixOf s then some (s.take (s.length - x.length)) else none

/-- `match re.strip_prefix("^(?:") { Some(c) => c.strip_suffix(")$").unwrap_or(re), None => re }` -/
def peelFullHaystackPattern (re : String) : String :=
  match stripPrefix hayPre re.toList with
  | none => re
  | some c =>
    match stripSuffix haySuf c with
    | some p => String.ofList p
    | none => re

/-- `new_full_haystack_regex_set(patterns)?.patterns()`: the wrapped texts.  Regex compilation (and its
    failure on an invalid pattern) is not modelled. -/
def regexSetPatterns (ras : List String) : List String := ras.map intoFullHaystackPattern

/-- `peeled_patterns` -/
def peeledPatterns (set : List String) : List String := set.map peelFullHaystackPattern

/-- which "no selector given" default a report/export has -/
inductive SelectorKind where
  | balance      -- balance, balance-group: `BalanceAllSelector`
  | register     -- `RegisterAllSelector`
  | equity       -- `BalanceNonZeroSelector`
deriving Repr, DecidableEq

/-- `acc_selector(ras)?.checksum(hash)`: an empty selector list selects everything and has a constant
    pseudo checksum; otherwise the sorted peeled patterns are hashed, each followed by `"\n"` -/
def selectorChecksum (kind : SelectorKind) (alg : Algo) (ras : List String) : Checksum :=
  match ras with
  | [] =>
    match kind with
    | .equity => ⟨"None", "select all non-zero"⟩
    | .balance => ⟨"None", "select all"⟩
    | .register => ⟨"None", "select all"⟩
  | _ :: _ => Hash.checksum alg (sortStrings (peeledPatterns (regexSetPatterns ras))) [0x0a]

/-- `write_acc_sel_checksum`: printed only when a hasher exists (audit mode) -/
def accSelChecksum (st : Settings) (alg : Algo) (kind : SelectorKind) (ras : List String) : Option Checksum :=
  match getHash st alg with
  | none => none
  | some h => some (selectorChecksum kind h ras)

end Tackler

import TacklerModel.Model.Balance
import TacklerModel.Model.Time
/-!
# Equity: the equity exporter (`tackler-core/src/export/equity_exporter.rs`)

`nonZeroSel`   = `BalanceNonZeroSelector` / `BalanceNonZeroByAccountSelector` (`get_acc_selector`),
`eqDesc`       = the `hdr_str` closure (description part of the header line),
`eqTxn`        = the body of the `flat_map` closure of `write_export` (one transaction per commodity chunk),
`eqTxns`       = the `chunk_by(commodity) … flat_map` pipeline,
`equityExport` = `EquityExporter::write_export`, as a list of generated transactions,
`EqTxn.toRaw`  = the parse tree the generated text denotes (what the journal grammar yields for it),
`equityText`   = the exact text that `write_export` writes (local renderer for exactly these shapes).

Not modelled here (parameters): the account pattern matcher (`Path → Bool`, the regex set of C11) and the
texts of the metadata items printed as comments in audit mode / with a transaction filter (`md`: hashes and
filter descriptions, C09's and C05's business).  No price conversion: the export always uses
`PriceLookupCtx::default()`, hence the posting stream is `postsOf`.
-/
namespace Tackler

/-- `get_acc_selector`: no patterns ⇒ `BalanceNonZeroSelector`, else `BalanceNonZeroByAccountSelector`
    (`acc` is the compiled pattern set as a predicate on the account) -/
def nonZeroSel (acc : Option (Path → Bool)) (r : BalRow) : Bool :=
  match acc with
  | none => !r.own.isZero
  | some f => !r.own.isZero && f r.acct

/-- one posting line of the export: account, amount as stored, commodity ("" = none) -/
structure EqPosting where
  acct : Path
  amount : Dec
  comm : String
deriving Repr, DecidableEq

/-- one generated equity transaction -/
structure EqTxn where
  ts : Ts
  desc : String
  comments : List String
  posts : List EqPosting
deriving Repr, DecidableEq

/-- the WARNING comment block of a commodity whose selected sums cancel -/
def warningLines : List String := [
  "WARNING:",
  "WARNING: The sum of equity transaction is zero without equity account.",
  "WARNING: Therefore there is no equity posting row, and this is probably not right.",
  "WARNING: Is the account selector correct for this Equity export?",
  "WARNING:"]

/-- `comm_str` of `hdr_str` -/
def commStr (c : String) : String := if c = "" then "" else " for " ++ c

/-- `txn_uuid_str` of `hdr_str` -/
def uuidStr (uuid : Option String) : String :=
  match uuid with
  | some u => ": last txn (uuid): " ++ u
  | none => ""

/-- description of the generated transaction (`hdr_str` without the timestamp and the `'`) -/
def eqDesc (c : String) (uuid : Option String) : String := "Equity" ++ commStr c ++ uuidStr uuid

/-- the balancing posting when the chunk sum is not zero (`if !dsum.is_zero() { push(bal_posting) }`) -/
def balancing (eqa : Path) (c : String) (dsum : Dec) : List EqPosting :=
  if dsum.isZero then [] else [⟨eqa, dsum.negate, c⟩]

/-- the WARNING block when the chunk sum is zero -/
def warning (dsum : Dec) : List String := if dsum.isZero then warningLines else []

/-- body of the `flat_map` closure: the transaction of commodity chunk `(c, rows)` -/
def eqTxn (eqa : Path) (last : Header) (md : List String) (c : String) (rows : List BalRow) : Option EqTxn :=
  match Dec.sum (rows.map (·.own)) with
  | none => none
  | some dsum =>
    some ⟨last.ts, eqDesc c last.uuid, md ++ warning dsum,
          rows.map (fun b => ⟨b.acct, b.own, b.comm⟩) ++ balancing eqa c dsum⟩

/-- the `flat_map` over the commodity chunks -/
def eqTxns (eqa : Path) (last : Header) (md : List String) : List (String × List BalRow) → Option (List EqTxn)
  | [] => some []
  | (c, g) :: rest =>
    match eqTxn eqa last md c g with
    | none => none
    | some t => match eqTxns eqa last md rest with
      | none => none
      | some ts => some (t :: ts)

/-- `EquityExporter::write_export` over the selected transactions `txns` (in `TxnSet` order).
    `acc`: account patterns (none = no patterns configured), `eqa`: the configured equity account,
    `md`: comment texts of the metadata items (empty when the set carries no metadata).
    The `None` arm of `last_txn` ("Internal logic error") is unreachable (`Props/C10.lean: last_exists`). -/
def equityExport (st : Settings) (acc : Option (Path → Bool)) (eqa : Path) (md : List String)
    (txns : List Txn) : Outcome (List EqTxn) :=
  match fromIter st (nonZeroSel acc) (postsOf txns) with
  | .err => .err
  | .undef => .undef
  | .ok bal =>
    if bal.rows.isEmpty then .ok []           -- `if bal.is_empty() { return Ok(()) }`: nothing is written
    else
      match txns.getLast? with
      | none => .undef
      | some last =>
        match eqTxns eqa last.header md (chunkBy (·.comm) bal.rows) with
        | none => .undef
        | some out => .ok out

/-! ### the parse tree of a generated transaction -/

def EqPosting.toRaw (p : EqPosting) : RawPosting :=
  ⟨p.acct, p.amount, if p.comm = "" then none else some ⟨p.comm, none, none⟩, none⟩

def optList {α} (l : List α) : Option (List α) := if l.isEmpty then none else some l

/-- what the journal grammar yields for the text of one generated transaction: timestamp, description,
    comment lines, value postings; no code, no uuid/location/tags metadata, no amount-less posting -/
def EqTxn.toRaw (t : EqTxn) : RawTxn :=
  ⟨⟨t.ts, none, some t.desc, none, none, none, optList t.comments⟩, t.posts.map EqPosting.toRaw, none⟩

/-! ### exact text -/

def pad2 (n : Nat) : String := String.ofList (Dec.padLeft 2 (Nat.toDigits 10 n))
def pad4 (n : Nat) : String := String.ofList (Dec.padLeft 4 (Nat.toDigits 10 n))

def dropTrailingZeros (l : List Char) : List Char := (l.reverse.dropWhile (· == '0')).reverse

/-- jiff `%.f`: nothing for a whole second, else `.` and the nanoseconds without trailing zeros -/
def fracStr (ns : Nat) : String :=
  if ns = 0 then "" else "." ++ String.ofList (dropTrailingZeros (Dec.padLeft 9 (Nat.toDigits 10 ns)))

/-- jiff `%:z`: `±HH:MM`, with `:SS` only when the offset has seconds -/
def offsetStr (off : Int) : String :=
  let a := off.natAbs
  (if off < 0 then "-" else "+") ++ pad2 (a / 3600) ++ ":" ++ pad2 (a % 3600 / 60) ++
    (if a % 60 = 0 then "" else ":" ++ pad2 (a % 60))

/-- `txn_ts::rfc_3339` (`%Y-%m-%dT%H:%M:%S%.f%:z`) for years 0…9999 -/
def rfc3339 (ts : Ts) : Option String :=
  match Time.civilAt ts.ns ts.offset with
  | (y, m, d, h, mi, s, ns) =>
    if y < 0 ∨ y > 9999 then none
    else some (pad4 y.toNat ++ "-" ++ pad2 m ++ "-" ++ pad2 d ++ "T" ++ pad2 h ++ ":" ++ pad2 mi ++ ":" ++ pad2 s ++
               fracStr ns ++ offsetStr ts.offset)

def eqIndent : String := "   "

def postingLine (p : EqPosting) : String :=
  eqIndent ++ acctName p.acct ++ "  " ++ p.amount.toString ++ (if p.comm = "" then "" else " " ++ p.comm)

/-- the lines of one transaction (header, comments, postings, empty line) -/
def txnLines (t : EqTxn) : Option (List String) :=
  match rfc3339 t.ts with
  | none => none
  | some tss =>
    some ([tss ++ " '" ++ t.desc] ++ t.comments.map (fun c => eqIndent ++ "; " ++ c) ++ t.posts.map postingLine ++ [""])

def allLines : List EqTxn → Option (List String)
  | [] => some []
  | t :: rest =>
    match txnLines t with
    | none => none
    | some l => match allLines rest with
      | none => none
      | some ls => some (l ++ ls)

/-- the text `write_export` writes: every line followed by a newline -/
def equityText (ts : List EqTxn) : Option String :=
  match allLines ts with
  | none => none
  | some ls => some (String.join (ls.map (· ++ "\n")))

end Tackler

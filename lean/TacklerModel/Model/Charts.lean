import TacklerModel.Model.Order
/-!
# Charts: what `Settings::try_from` does with the charts before any journal is read

Mirrors the chart-related part of `Settings::try_from` (kernel/settings.rs), `parse_price_entry`
(parser/parts/pricedb.rs) and `pricedb_from_str` (parser/pricedb_parser.rs):

1. `AccountTrees::from`, `Commodities::from`, tags  (`Settings.ofConfig`; the *lexical* validity of the
   chart entries — `AccountTreeNode::from`, `Commodity::from` — is not modelled: the model is only asked
   about charts whose entries are valid names, the tie classifies the others as configuration errors),
2. strict mode + equity export selected + equity account not in the chart ⇒ error,
3. the report commodity goes through `inner_get_or_create_commodity` (strict: must be declared),
4. price conversion selected (lookup type ≠ none) without a report commodity ⇒ error,
5. the price file is read with the half-built settings: both commodities of every price entry go through
   `get_or_create_commodity` (strict: must be declared); an empty price file is an error (`repeat_till(1.., …)`).

Only the commodity pair of a price entry is kept here (timestamps and rates belong to C07).
The report commodity given on the command line (`overlaps.report.commodity`) is not modelled (the
harness never sets it).
-/
namespace Tackler

/-- the chart-related part of `Config` that `Settings::try_from` reads -/
structure ChartCfg where
  strict : Bool
  audit : Bool
  permitEmpty : Bool
  accounts : List Path
  commodities : List String
  tags : List String
  /-- `exports.contains(&ExportType::Equity)` -/
  equityTarget : Bool
  /-- `cfg.export.equity.equity_account` -/
  equityAccount : Path
  /-- `cfg.report.commodity` -/
  reportCommodity : Option String
  /-- `none`: price lookup type `none` (the price file is not read); otherwise the
      (base commodity, equivalent commodity) of every entry of the price file, in file order -/
  priceDb : Option (List (String × String))
deriving Repr, DecidableEq

/-- the two registrations of `parse_price_entry` -/
def registerPriceEntry (st : Settings) (e : String × String) : Outcome (Unit × Settings) :=
  match st.getOrCreateCommodity (some e.1) with
  | .err => .err
  | .undef => .undef
  | .ok (_, st1) =>
    match st1.getOrCreateCommodity (some e.2) with
    | .err => .err
    | .undef => .undef
    | .ok (_, st2) => .ok ((), st2)

/-- `pricedb_from_str` (commodity registrations only) -/
def loadPriceDb (st : Settings) (es : List (String × String)) : Outcome Settings :=
  match es with
  | [] => .err                                     -- `repeat_till(1.., parse_price_entry, eof)`
  | _ :: _ =>
    match mapMS registerPriceEntry st es with
    | .err => .err
    | .undef => .undef
    | .ok (_, st1) => .ok st1

/-- report commodity and price file: the registrations `Settings::try_from` makes on the half-built settings -/
def registerCfg (st : Settings) (a : Option String × Option (List (String × String))) : Outcome Settings :=
  match a.1 with
  | none =>
    (match a.2 with
     | none => .ok st
     | some _ => .err)                              -- price conversion without `report.commodity`
  | some rc =>
    match st.getOrCreateCommodity (some rc) with
    | .err => .err
    | .undef => .undef
    | .ok (_, st1) =>
      (match a.2 with
       | none => .ok st1
       | some es => loadPriceDb st1 es)

/-- `Settings::try_from`, chart-related part -/
def settingsTryFrom (c : ChartCfg) : Outcome Settings :=
  if c.strict = true ∧ c.equityTarget = true ∧
      c.equityAccount ∉ (Settings.ofConfig c.strict c.audit c.permitEmpty c.accounts c.commodities c.tags).accounts then .err
  else
    registerCfg (Settings.ofConfig c.strict c.audit c.permitEmpty c.accounts c.commodities c.tags)
      (c.reportCommodity, c.priceDb)

/-- settings construction followed by `parse_txns` -/
def acceptWithCfg (c : ChartCfg) (rs : List RawTxn) : Outcome (List Txn × Settings) :=
  match settingsTryFrom c with
  | .err => .err
  | .undef => .undef
  | .ok st => acceptJournal st rs

end Tackler

/-!
# Regex: a subset of the `regex` crate's syntax and its (search) semantics

Used by the account selectors (C11) and by the regex leaves of transaction filters (C05, C18).

| Lean                                   | mirrors                                                              |
|----------------------------------------|----------------------------------------------------------------------|
| `Regex.parse`                          | `regex::Regex::new` on the modelled subset (`none` = outside subset)  |
| `Regex.Matches`, `Regex.isMatch`       | meaning of `Regex::is_match` (unanchored search, no flags)           |
| `Regex.search`, `Regex.full`           | executable matcher (theorems `C11.matcher_sound`, `C11.full_sound`)  |
| `Regex.wrapStr` / `wrapChars`          | `tackler_rs::regex::into_full_haystack_pattern`                      |
| `Regex.peelStr` / `peelChars`          | `tackler_rs::regex::peel_full_haystack_pattern`                      |
| `Regex.peeledPatterns`                 | `peeled_patterns` (and `peeled_pattern`) over the stored wrapped texts |
| `Regex.wrapAst`                        | what `^(?:p)$` means when `p` means `r` (theorem `C11.parse_wrap`)   |
| `Regex.newFullHaystack`, `newFullHaystackSet`, `setIsMatch` | `new_full_haystack_regex`, `new_full_haystack_regex_set`, `RegexSet::is_match` |

## The subset

literal characters; `\` + ASCII punctuation (literal); `\n \t \r`; `.` (any character except `\n`);
`\d \w \s \D \W \S`; bracketed classes `[abc] [a-z] [^…]` with literal `]` in first position,
literal `-` in first/last position, escapes and `\d \w \s` as items; concatenation; alternation `|`
(empty branches allowed); groups `( )` and `(?: )` (captures are irrelevant for a Boolean match);
quantifiers `* + ?` and their lazy forms `*? +? ??` (laziness is irrelevant for a Boolean match),
also stacked (`a**`); anchors `^ $` (no multi-line mode: start / end of the haystack only).

Everything else makes `Regex.parse` answer `none` ("outside the modelled subset"): `{m,n}`, flags
`(?i)`, `(?x)`, named groups, `\b \A \z \x.. \u.. \p..`, escapes of letters/digits, nested classes,
POSIX classes, class set operations (`&&`, `--`, `~~`; a bare `&` or `~` in a class is rejected too),
`-` in the middle of a class other than as a range operator.  `none` also covers everything the
crate rejects.

Two limits of fidelity that the *driver* turns into UNDEF (they are not visible in `parse`):
* `\d \w \s` are modelled with their ASCII meaning; the crate's are Unicode aware.  `Regex.inDomain`
  is false when the pattern uses one of them and the haystack has a non-ASCII character.
* the crate's nest limit (250) and compiled-size limit are not modelled (`Regex.patternSizeOk`).

## The parser

Two state machines, each a left fold, so that `parse (a ++ p ++ b)` can be related to `parse p`:
a character-level lexer (`lexStep`, modes for escapes, `(?:`, bracketed classes) producing tokens, and
a token-level stack machine (`pStep`) that mirrors `regex_syntax::ast::parse::ParserI::parse_with_comments`
(stack of open groups, the alternation branches and the concatenation under construction).
-/
namespace Tackler

/-! ### character predicates -/

/-- ASCII `\d` -/
def isDigitA (c : Char) : Bool := 48 ≤ c.toNat && c.toNat ≤ 57

/-- ASCII `\w` = `[0-9A-Za-z_]` -/
def isWordA (c : Char) : Bool :=
  isDigitA c || (65 ≤ c.toNat && c.toNat ≤ 90) || (97 ≤ c.toNat && c.toNat ≤ 122) || c.toNat == 95

/-- ASCII `\s` = `[\t\n\v\f\r ]` -/
def isSpaceA (c : Char) : Bool := (9 ≤ c.toNat && c.toNat ≤ 13) || c.toNat == 32

/-- an item of a bracketed class -/
inductive CItem where
  | chr (c : Char)
  | range (lo hi : Char)
  | digit (neg : Bool)
  | word (neg : Bool)
  | space (neg : Bool)
deriving Repr, DecidableEq

def CItem.test : CItem → Char → Bool
  | .chr x, c => c == x
  | .range lo hi, c => lo.toNat ≤ c.toNat && c.toNat ≤ hi.toNat
  | .digit n, c => isDigitA c != n
  | .word n, c => isWordA c != n
  | .space n, c => isSpaceA c != n

def CItem.isPerl : CItem → Bool
  | .digit _ => true
  | .word _ => true
  | .space _ => true
  | _ => false

/-- a one-character matcher -/
inductive CPred where
  | lit (c : Char)
  | dot
  | cls (neg : Bool) (items : List CItem)
deriving Repr, DecidableEq

def CPred.test : CPred → Char → Bool
  | .lit x, c => c == x
  | .dot, c => c != '\n'
  | .cls neg items, c => items.any (fun it => it.test c) != neg

def CPred.usesPerl : CPred → Bool
  | .cls _ items => items.any CItem.isPerl
  | _ => false

/-! ### abstract syntax -/

inductive Regex where
  | eps
  | chr (p : CPred)
  | seq (a b : Regex)
  | alt (a b : Regex)
  | star (a : Regex)
  | group (a : Regex)
  | bol
  | eol
deriving Repr, DecidableEq

namespace Regex

/-- `a+` -/
def plus (a : Regex) : Regex := .seq a (.star a)
/-- `a?` -/
def opt (a : Regex) : Regex := .alt a .eps

/-- concatenation of a list (right nested; `[]` is the empty regex) -/
def mkSeq : List Regex → Regex
  | [] => .eps
  | [x] => x
  | x :: y :: xs => .seq x (mkSeq (y :: xs))

/-- alternation of a list (right nested) -/
def mkAlt : List Regex → Regex
  | [] => .eps
  | [x] => x
  | x :: y :: xs => .alt x (mkAlt (y :: xs))

/-- the literal string pattern -/
def lits (cs : List Char) : Regex := mkSeq (cs.map (fun c => .chr (.lit c)))

def usesPerl : Regex → Bool
  | .eps => false
  | .chr p => p.usesPerl
  | .seq a b => usesPerl a || usesPerl b
  | .alt a b => usesPerl a || usesPerl b
  | .star a => usesPerl a
  | .group a => usesPerl a
  | .bol => false
  | .eol => false

/-! ### declarative semantics -/

/-- `Matches s r i j`: `r` matches the haystack `s` from position `i` to position `j`
    (positions count characters; `^` holds only at 0, `$` only at `s.length`). -/
inductive Matches (s : List Char) : Regex → Nat → Nat → Prop where
  | eps (i : Nat) : i ≤ s.length → Matches s .eps i i
  | chr (p : CPred) (i : Nat) (c : Char) : s[i]? = some c → p.test c = true → Matches s (.chr p) i (i + 1)
  | seq {a b : Regex} {i k j : Nat} : Matches s a i k → Matches s b k j → Matches s (.seq a b) i j
  | altL {a b : Regex} {i j : Nat} : Matches s a i j → Matches s (.alt a b) i j
  | altR {a b : Regex} {i j : Nat} : Matches s b i j → Matches s (.alt a b) i j
  | star0 {a : Regex} (i : Nat) : i ≤ s.length → Matches s (.star a) i i
  | starS {a : Regex} {i k j : Nat} : Matches s a i k → Matches s (.star a) k j → Matches s (.star a) i j
  | group {a : Regex} {i j : Nat} : Matches s a i j → Matches s (.group a) i j
  | bol : Matches s .bol 0 0
  | eol : Matches s .eol s.length s.length

/-- `Regex::is_match`: the pattern matches somewhere in the haystack (unanchored search) -/
def isMatch (r : Regex) (s : List Char) : Prop := ∃ i j, Matches s r i j

/-- the pattern matches the whole haystack -/
def FullMatch (r : Regex) (s : List Char) : Prop := Matches s r 0 s.length

/-! ### executable matcher: sets of end positions -/

/-- union of two position sets (no new duplicates) -/
def uni (a b : List Nat) : List Nat := a ++ b.filter (fun x => !a.contains x)

/-- one character: every `i ∈ S` whose character satisfies `p` moves to `i+1` -/
def stepChr (p : CPred) (s : List Char) (S : List Nat) : List Nat :=
  S.filterMap (fun i => match s[i]? with
    | some c => if p.test c then some (i + 1) else none
    | none => none)

/-- closure of `acc` under `step`, sweeping the positions `pos, pos+1, …` in increasing order;
    only steps that make progress are followed (an iteration that consumes nothing adds nothing). -/
def starLoop (step : Nat → List Nat) : Nat → Nat → List Nat → List Nat
  | 0, _, acc => acc
  | f + 1, pos, acc =>
    starLoop step f (pos + 1)
      (if acc.contains pos then uni acc ((step pos).filter (fun x => decide (pos < x))) else acc)

/-- `run s r S`: all positions `j` such that `r` matches from some `i ∈ S` to `j` -/
def run (s : List Char) : Regex → List Nat → List Nat
  | .eps, S => S.filter (fun i => decide (i ≤ s.length))
  | .chr p, S => stepChr p s S
  | .seq a b, S => run s b (run s a S)
  | .alt a b, S => uni (run s a S) (run s b S)
  | .star a, S => starLoop (fun k => run s a [k]) (s.length + 1) 0 (S.filter (fun i => decide (i ≤ s.length)))
  | .group a, S => run s a S
  | .bol, S => if S.contains 0 then [0] else []
  | .eol, S => if S.contains s.length then [s.length] else []

/-- unanchored search: `Regex::is_match` -/
def search (r : Regex) (s : List Char) : Bool := !(run s r (List.range (s.length + 1))).isEmpty

/-- whole-haystack match -/
def full (r : Regex) (s : List Char) : Bool := (run s r [0]).contains s.length

/-! ### lexer -/

inductive Tok where
  | atom (p : CPred)
  | star | plus | quest | bar | lpar | rpar | bol | eol
deriving Repr, DecidableEq

inductive LexMode where
  | normal
  | esc                                                   -- after `\`
  | lpar                                                  -- after `(`
  | lparQ                                                 -- after `(?`
  | cls0                                                  -- after `[`
  | cls1 (neg : Bool)                                     -- at the first item of a class
  | clsN (neg : Bool) (items : List CItem) (pend : Option Char)   -- inside a class; `pend` may start a range
  | clsEsc (neg : Bool) (items : List CItem) (lo : Option Char)   -- after `\` in a class (`lo`: after `lo-`)
  | clsDash (neg : Bool) (items : List CItem) (lo : Char)         -- after `lo-`
  | clsDashLit (neg : Bool) (items : List CItem)                  -- after a `-` that can only be a final literal
  | bad
deriving Repr, DecidableEq

/-- characters that `\` turns into themselves: printable ASCII (incl. the space) that is neither a letter nor
    a digit nor `<` `>` (`regex_syntax::is_escapeable_character`, restricted to printable characters) -/
def escapable (c : Char) : Bool :=
  32 ≤ c.toNat && c.toNat ≤ 126 && !isDigitA c && !(65 ≤ c.toNat && c.toNat ≤ 90) && !(97 ≤ c.toNat && c.toNat ≤ 122)
    && c != '<' && c != '>'

/-- `\d \w \s \D \W \S` -/
def perlItem (c : Char) : Option CItem :=
  if c = 'd' then some (.digit false) else if c = 'D' then some (.digit true)
  else if c = 'w' then some (.word false) else if c = 'W' then some (.word true)
  else if c = 's' then some (.space false) else if c = 'S' then some (.space true)
  else none

/-- the literal an escape stands for -/
def escLit (c : Char) : Option Char :=
  if c = 'n' then some '\n' else if c = 't' then some '\t' else if c = 'r' then some '\r'
  else if escapable c then some c else none

def flushPend (items : List CItem) : Option Char → List CItem
  | some c => items ++ [.chr c]
  | none => items

def stepNormal (c : Char) : LexMode × List Tok :=
  if c = '\\' then (.esc, [])
  else if c = '(' then (.lpar, [])
  else if c = ')' then (.normal, [.rpar])
  else if c = '[' then (.cls0, [])
  else if c = '.' then (.normal, [.atom .dot])
  else if c = '*' then (.normal, [.star])
  else if c = '+' then (.normal, [.plus])
  else if c = '?' then (.normal, [.quest])
  else if c = '|' then (.normal, [.bar])
  else if c = '^' then (.normal, [.bol])
  else if c = '$' then (.normal, [.eol])
  else if c = '{' then (.bad, [])
  else (.normal, [.atom (.lit c)])

def stepEsc (c : Char) : LexMode × List Tok :=
  match perlItem c with
  | some it => (.normal, [.atom (.cls false [it])])
  | none =>
    match escLit c with
    | some x => (.normal, [.atom (.lit x)])
    | none => (.bad, [])

def stepClsN (neg : Bool) (items : List CItem) (pend : Option Char) (c : Char) : LexMode × List Tok :=
  if c = ']' then
    (if (flushPend items pend).isEmpty then (.bad, []) else (.normal, [.atom (.cls neg (flushPend items pend))]))
  else if c = '[' then (.bad, [])
  else if c = '&' then (.bad, [])
  else if c = '~' then (.bad, [])
  else if c = '\\' then (.clsEsc neg (flushPend items pend) none, [])
  else if c = '-' then
    (match pend with
     | some lo => (.clsDash neg items lo, [])
     | none => (.clsDashLit neg items, []))
  else (.clsN neg (flushPend items pend) (some c), [])

def stepCls1 (neg : Bool) (c : Char) : LexMode × List Tok :=
  if c = ']' then (.clsN neg [.chr ']'] none, [])
  else if c = '-' then (.clsN neg [.chr '-'] none, [])
  else stepClsN neg [] none c

def stepClsEsc (neg : Bool) (items : List CItem) (lo : Option Char) (c : Char) : LexMode × List Tok :=
  match perlItem c with
  | some it =>
    (match lo with
     | none => (.clsN neg (items ++ [it]) none, [])
     | some _ => (.bad, []))
  | none =>
    match escLit c with
    | some x =>
      (match lo with
       | none => (.clsN neg items (some x), [])
       | some l => if l.toNat ≤ x.toNat then (.clsN neg (items ++ [.range l x]) none, []) else (.bad, []))
    | none => (.bad, [])

def stepClsDash (neg : Bool) (items : List CItem) (lo : Char) (c : Char) : LexMode × List Tok :=
  if c = ']' then (.normal, [.atom (.cls neg (items ++ [.chr lo, .chr '-']))])
  else if c = '-' then (.bad, [])
  else if c = '[' then (.bad, [])
  else if c = '&' then (.bad, [])
  else if c = '~' then (.bad, [])
  else if c = '\\' then (.clsEsc neg items (some lo), [])
  else if lo.toNat ≤ c.toNat then (.clsN neg (items ++ [.range lo c]) none, [])
  else (.bad, [])

/-- one character of the pattern: next mode and the tokens completed by this character -/
def lexStep : LexMode → Char → LexMode × List Tok
  | .normal, c => stepNormal c
  | .esc, c => stepEsc c
  | .lpar, c => if c = '?' then (.lparQ, []) else ((stepNormal c).1, Tok.lpar :: (stepNormal c).2)
  | .lparQ, c => if c = ':' then (.normal, [.lpar]) else (.bad, [])
  | .cls0, c => if c = '^' then (.cls1 true, []) else stepCls1 false c
  | .cls1 neg, c => stepCls1 neg c
  | .clsN neg items pend, c => stepClsN neg items pend c
  | .clsEsc neg items lo, c => stepClsEsc neg items lo c
  | .clsDash neg items lo, c => stepClsDash neg items lo c
  | .clsDashLit neg items, c => if c = ']' then (.normal, [.atom (.cls neg (items ++ [.chr '-']))]) else (.bad, [])
  | .bad, _ => (.bad, [])

def lexRun : LexMode → List Char → LexMode × List Tok
  | m, [] => (m, [])
  | m, c :: cs => ((lexRun (lexStep m c).1 cs).1, (lexStep m c).2 ++ (lexRun (lexStep m c).1 cs).2)

/-- tokens of a pattern; `none` unless the pattern ends between two tokens -/
def lex (cs : List Char) : Option (List Tok) :=
  match lexRun .normal cs with
  | (.normal, toks) => some toks
  | _ => none

/-! ### parser (stack machine over tokens) -/

/-- an open group: the alternation branches and the concatenation that were under construction -/
structure Frame where
  alts : List Regex
  cat : List Regex
deriving Repr, DecidableEq

/-- `alts`: finished branches of the current alternation, last first; `cat`: items of the current
    concatenation, last first; `lastQ`: the previous token was a repetition operator (so `?` = lazy) -/
structure PState where
  stack : List Frame
  alts : List Regex
  cat : List Regex
  lastQ : Bool
deriving Repr, DecidableEq

def PState.init : PState := ⟨[], [], [], false⟩

/-- close the current alternation -/
def finish (alts cat : List Regex) : Regex := mkAlt ((mkSeq cat.reverse :: alts).reverse)

def pushItem (st : PState) (r : Regex) : PState := { st with cat := r :: st.cat, lastQ := false }

/-- apply a repetition operator to the last item (`RepetitionMissing` if there is none) -/
def repeatLast (st : PState) (f : Regex → Regex) : Option PState :=
  match st.cat with
  | [] => none
  | x :: xs => some { st with cat := f x :: xs, lastQ := true }

def pStep (st : PState) : Tok → Option PState
  | .atom p => some (pushItem st (.chr p))
  | .bol => some (pushItem st .bol)
  | .eol => some (pushItem st .eol)
  | .star => repeatLast st .star
  | .plus => repeatLast st plus
  | .quest => if st.lastQ then some { st with lastQ := false } else repeatLast st opt
  | .bar => some { st with alts := mkSeq st.cat.reverse :: st.alts, cat := [], lastQ := false }
  | .lpar => some ⟨⟨st.alts, st.cat⟩ :: st.stack, [], [], false⟩
  | .rpar =>
    match st.stack with
    | [] => none
    | f :: fs => some ⟨fs, f.alts, .group (finish st.alts st.cat) :: f.cat, false⟩

def pRun : PState → List Tok → Option PState
  | st, [] => some st
  | st, t :: ts =>
    match pStep st t with
    | some st' => pRun st' ts
    | none => none

def pFinish (st : PState) : Option Regex :=
  match st.stack with
  | [] => some (finish st.alts st.cat)
  | _ :: _ => none

def parseToks (toks : List Tok) : Option Regex :=
  match pRun .init toks with
  | some st => pFinish st
  | none => none

def parseChars (cs : List Char) : Option Regex :=
  match lex cs with
  | some toks => parseToks toks
  | none => none

/-- `regex::Regex::new` on the modelled subset; `none` = outside the subset (or invalid) -/
def parse (p : String) : Option Regex := parseChars p.toList

/-! ### the full-haystack wrapper of `tackler-rs/src/regex.rs` -/

def wrapPre : List Char := ['^', '(', '?', ':']
def wrapSuf : List Char := [')', '$']

/-- `into_full_haystack_pattern`: `format!("^(?:{})$", re)` -/
def wrapChars (p : List Char) : List Char := wrapPre ++ p ++ wrapSuf

def wrapStr (p : String) : String := "^(?:" ++ p ++ ")$"

/-- `str::strip_prefix` -/
def stripPrefix (x s : List Char) : Option (List Char) :=
  if x.isPrefixOf s then some (s.drop x.length) else none

/-- `str::strip_suffix` -/
def stripSuffix (x s : List Char) : Option (List Char) :=
  if x.isSuffixOf s then some (s.take (s.length - x.length)) else none

/-- `peel_full_haystack_pattern`:
    `match re.strip_prefix("^(?:") { Some(c) => c.strip_suffix(")$").unwrap_or(re), None => re }` -/
def peelChars (re : List Char) : List Char :=
  match stripPrefix wrapPre re with
  | some c => (stripSuffix wrapSuf c).getD re
  | none => re

def peelStr (re : String) : String := String.ofList (peelChars re.toList)

/-- `peeled_patterns(&RegexSet)` / `peeled_pattern(&Regex)`: a compiled full-haystack regex keeps the wrapped
    text (`as_str`, `patterns()`), which is peeled on the way out -/
def peeledPatterns (wrapped : List String) : List String := wrapped.map peelStr

/-- the meaning of `^(?:p)$` when `p` means `r` -/
def wrapAst (r : Regex) : Regex := .seq .bol (.seq (.group r) .eol)

/-- `new_full_haystack_regex`: `Regex::new(into_full_haystack_pattern(re))` -/
def newFullHaystack (p : String) : Option Regex := parse (wrapStr p)

/-- `new_full_haystack_regex_set`: `RegexSet::new(exprs.map(into_full_haystack_pattern))`;
    fails when one member fails -/
def newFullHaystackSet : List String → Option (List Regex)
  | [] => some []
  | p :: ps =>
    match newFullHaystack p with
    | none => none
    | some r =>
      match newFullHaystackSet ps with
      | none => none
      | some rs => some (r :: rs)

/-- `RegexSet::is_match`: some member matches somewhere in the haystack -/
def setIsMatch (rs : List Regex) (h : String) : Bool := rs.any (fun r => search r h.toList)

/-! ### limits of fidelity (used by the driver to answer UNDEF) -/

/-- the ASCII reading of `\d \w \s` is faithful for this haystack -/
def inDomain (r : Regex) (s : List Char) : Bool := !r.usesPerl || s.all (fun c => decide (c.toNat < 128))

/-- far below the crate's nest limit (250) and size limit -/
def patternSizeOk (p : String) : Bool := p.length ≤ 200

end Regex
end Tackler

import TacklerModel.Model.Basic
/-!
# Comb: the winnow 0.7.4 combinators tackler uses, over `List Char`

A parser is a plain function `List Char → Res α`.  `Res` is winnow's three-valued result on a
complete `&str` stream (`Incomplete` cannot occur):

* `ok a rest` – `Ok(a)`, the stream now points at `rest`
* `bt`        – `Err(ErrMode::Backtrack(_))`: `alt`, `opt`, `repeat` reset the stream and go on
* `cut`       – `Err(ErrMode::Cut(_))`: propagates to the top, the whole parse fails

Sequencing (`seq!`, tuples, `preceded`) is `Res.bind`: left to right, first error wins.  A failing
winnow parser does not rewind the stream itself; the combinators that recover (`alt`, `opt`,
`repeat`, `repeat_till`, `peek`) take a checkpoint and reset to it — which is what applying the
alternative to the *same* `s` does here.  Error payloads (`context`, messages) are not modelled.

| here                      | winnow                                                        |
|---------------------------|---------------------------------------------------------------|
| `Res.bind`, `Res.map`     | `seq!` / tuple / `preceded` / `.map`                          |
| `alt`, `opt`, `cutErr`    | `alt((p, q))`, `opt`, `cut_err`                               |
| `peek`, `fail`, `eof`     | `peek`, `fail`, `eof`                                         |
| `oneOf`, `chr`, `lit`     | `one_of(pred)`, `'c'`, `"literal"`                            |
| `takeWhile0/1`, `takeMN`  | `take_while(0.., p)`, `take_while(1.., p)`, `take_while(m..=n, p)` |
| `space0`, `space1`        | `ascii::space0/space1` (`' '`, `'\t'` only)                   |
| `lineEnding`              | `ascii::line_ending` (`"\n"` or `"\r\n"`)                     |
| `tillLineEnding`          | `ascii::till_line_ending`                                     |
| `repeat0`, `repeat1`      | `repeat(0.., p)`, `repeat(1.., p)` (also the `.fold` forms)   |
| `repeatTill1`             | `repeat_till(1.., f, g)`                                      |

Loops take fuel = input length + 1.  winnow's loops assert that every iteration consumes
("`repeat` parsers must always consume": a panic in debug builds, a `Cut` error in release builds).
`repeat0G`/`repeatTillG` take the outcome of that assertion (and of fuel exhaustion) as a parameter
`stall`; `repeat0_stall_irrelevant` shows that for a consuming parser the result does not depend on
it, i.e. the assertion site is dead (used by C15).
-/
namespace Tackler
namespace Comb

inductive Res (α : Type) where
  | ok (a : α) (rest : List Char)
  | bt
  | cut
deriving Repr, DecidableEq

abbrev P (α : Type) := List Char → Res α

namespace Res

def bind {α β} (r : Res α) (f : α → List Char → Res β) : Res β :=
  match r with
  | .ok a s => f a s
  | .bt => .bt
  | .cut => .cut

def map {α β} (f : α → β) (r : Res α) : Res β :=
  match r with
  | .ok a s => .ok (f a) s
  | .bt => .bt
  | .cut => .cut

def isOk {α} : Res α → Bool
  | .ok _ _ => true
  | _ => false

@[simp] theorem bind_ok' {α β} (a : α) (s : List Char) (f : α → List Char → Res β) :
    (Res.ok a s).bind f = f a s := rfl
@[simp] theorem bind_bt {α β} (f : α → List Char → Res β) : (Res.bt : Res α).bind f = .bt := rfl
@[simp] theorem bind_cut {α β} (f : α → List Char → Res β) : (Res.cut : Res α).bind f = .cut := rfl
@[simp] theorem map_ok' {α β} (a : α) (s : List Char) (f : α → β) : (Res.ok a s).map f = .ok (f a) s := rfl
@[simp] theorem map_bt {α β} (f : α → β) : (Res.bt : Res α).map f = .bt := rfl
@[simp] theorem map_cut {α β} (f : α → β) : (Res.cut : Res α).map f = .cut := rfl

theorem bind_ok {α β} (r : Res α) (f : α → List Char → Res β) (b : β) (t : List Char) :
    r.bind f = .ok b t ↔ ∃ a s, r = .ok a s ∧ f a s = .ok b t := by
  cases r with
  | ok a s =>
    constructor
    · intro h; exact ⟨a, s, rfl, h⟩
    · rintro ⟨a', s', e, h⟩; cases e; exact h
  | bt => simp [bind]
  | cut => simp [bind]

theorem map_ok {α β} (r : Res α) (f : α → β) (b : β) (t : List Char) :
    r.map f = .ok b t ↔ ∃ a, r = .ok a t ∧ f a = b := by
  cases r with
  | ok a s =>
    constructor
    · intro h; simp only [map] at h; cases h; exact ⟨a, rfl, rfl⟩
    · rintro ⟨a', e, h⟩; cases e; subst h; rfl
  | bt => simp [map]
  | cut => simp [map]

end Res

/-! ### choice and control -/

/-- `alt((p, q))`: on `Backtrack` reset and try the next alternative; `Cut` is returned at once -/
def alt {α} (p q : P α) : P α := fun s =>
  match p s with
  | .ok a r => .ok a r
  | .bt => q s
  | .cut => .cut

/-- `opt(p)`: `Backtrack` ⇒ reset, `None`; `Cut` propagates -/
def opt {α} (p : P α) : P (Option α) := fun s =>
  match p s with
  | .ok a r => .ok (some a) r
  | .bt => .ok none s
  | .cut => .cut

/-- `cut_err(p)`: `Backtrack` ⇒ `Cut` -/
def cutErr {α} (p : P α) : P α := fun s =>
  match p s with
  | .ok a r => .ok a r
  | .bt => .cut
  | .cut => .cut

/-- `peek(p)`: no consumption -/
def peek {α} (p : P α) : P α := fun s =>
  match p s with
  | .ok a _ => .ok a s
  | .bt => .bt
  | .cut => .cut

/-- `fail` -/
def fail {α} : P α := fun _ => .bt

/-- `eof` -/
def eof : P Unit := fun s =>
  match s with
  | [] => .ok () []
  | _ :: _ => .bt

/-! ### tokens -/

/-- `one_of(pred)` -/
def oneOf (pred : Char → Bool) : P Char := fun s =>
  match s with
  | c :: t => if pred c then .ok c t else .bt
  | [] => .bt

/-- a `char` literal used as a parser -/
def chr (c : Char) : P Char := oneOf (fun d => d == c)

/-- remainder after the literal prefix `l`, if `s` starts with it -/
def stripPrefix : List Char → List Char → Option (List Char)
  | [], s => some s
  | _ :: _, [] => none
  | c :: l, d :: s => if c = d then stripPrefix l s else none

/-- a `&str` literal used as a parser (compares exactly) -/
def lit (l : List Char) : P Unit := fun s =>
  match stripPrefix l s with
  | some r => .ok () r
  | none => .bt

/-- `take_while(0.., pred)`: the longest prefix -/
def takeWhile0 (pred : Char → Bool) : P (List Char) := fun s =>
  .ok (s.takeWhile pred) (s.dropWhile pred)

/-- `take_while(1.., pred)` -/
def takeWhile1 (pred : Char → Bool) : P (List Char) := fun s =>
  match s.takeWhile pred with
  | [] => .bt
  | c :: t => .ok (c :: t) (s.dropWhile pred)

/-- longest prefix of at most `n` characters satisfying `pred`, and the remainder -/
def spanN (pred : Char → Bool) : Nat → List Char → List Char × List Char
  | 0, s => ([], s)
  | _ + 1, [] => ([], [])
  | n + 1, c :: t => if pred c then (c :: (spanN pred n t).1, (spanN pred n t).2) else ([], c :: t)

/-- `take_while(m..=n, pred)`: longest prefix of at most `n` matching chars; fewer than `m` ⇒ `Backtrack` -/
def takeMN (m n : Nat) (pred : Char → Bool) : P (List Char) := fun s =>
  if (spanN pred n s).1.length < m then .bt else .ok (spanN pred n s).1 (spanN pred n s).2

/-- `AsChar::is_space` for `char` -/
def isSpace (c : Char) : Bool := c == ' ' || c == '\t'

def space0 : P (List Char) := takeWhile0 isSpace
def space1 : P (List Char) := takeWhile1 isSpace

/-- `line_ending`: `"\n"` or `"\r\n"` -/
def lineEnding : P Unit := fun s =>
  match s with
  | '\n' :: t => .ok () t
  | '\r' :: '\n' :: t => .ok () t
  | _ => .bt

def notEol (c : Char) : Bool := c != '\r' && c != '\n'

/-- `till_line_ending`: up to (not including) the first `\r` or `\n`, or the end of input; a `\r` that is
    not followed by `\n` ⇒ `Backtrack` -/
def tillLineEnding : P (List Char) := fun s =>
  match s.dropWhile notEol with
  | '\r' :: '\n' :: t => .ok (s.takeWhile notEol) ('\r' :: '\n' :: t)
  | '\r' :: _ => .bt
  | r => .ok (s.takeWhile notEol) r

/-! ### repetition -/

/-- loop of `repeat(0.., p)` with explicit fuel; `stall` is the outcome of winnow's
    "parsers must always consume" assertion (and of running out of fuel) -/
def repeat0G {α} (stall : Res (List α)) (p : P α) : Nat → List Char → Res (List α)
  | 0, _ => stall
  | fuel + 1, s =>
    match p s with
    | .ok a r => if r.length < s.length then (repeat0G stall p fuel r).map (a :: ·) else stall
    | .bt => .ok [] s
    | .cut => .cut

/-- `repeat(0.., p)` (release build: the assertion is a `Cut` error) -/
def repeat0 {α} (p : P α) : P (List α) := fun s => repeat0G .cut p (s.length + 1) s

/-- `repeat(1.., p)`: one mandatory `p` (its error is returned as it is), then `repeat(0.., p)` -/
def repeat1 {α} (p : P α) : P (List α) := fun s =>
  (p s).bind fun a r => (repeat0 p r).map (a :: ·)

/-- loop of `repeat_till`: try the terminator `g`; on `Backtrack` reset and run `f`, whose every error
    (also `Backtrack`) ends the whole -/
def repeatTillG {α β} (stall : Res (List α)) (f : P α) (g : P β) : Nat → List Char → Res (List α)
  | 0, _ => stall
  | fuel + 1, s =>
    match g s with
    | .ok _ r => .ok [] r
    | .cut => .cut
    | .bt =>
      match f s with
      | .ok a r => if r.length < s.length then (repeatTillG stall f g fuel r).map (a :: ·) else stall
      | .bt => .bt
      | .cut => .cut

/-- `repeat_till(1.., f, g)`: one mandatory `f`, then the loop -/
def repeatTill1 {α β} (f : P α) (g : P β) : P (List α) := fun s =>
  (f s).bind fun a r => (repeatTillG .cut f g (r.length + 1) r).map (a :: ·)

/-! ## Lemmas: one per combinator

`Suff r s` – if `r` is `ok _ rest` then `rest` is a suffix of `s` (nothing is invented, nothing re-read);
`Cons r s` – … and strictly shorter (the parser consumed).
-/

def Suff {α} (r : Res α) (s : List Char) : Prop := ∀ a t, r = .ok a t → t <:+ s
def Cons {α} (r : Res α) (s : List Char) : Prop := ∀ a t, r = .ok a t → t <:+ s ∧ t.length < s.length

theorem Cons.suff {α} {r : Res α} {s : List Char} (h : Cons r s) : Suff r s :=
  fun a t e => (h a t e).1

theorem Suff.mono {α} {r : Res α} {s s' : List Char} (h : Suff r s) (hs : s <:+ s') : Suff r s' :=
  fun a t e => (h a t e).trans hs

theorem Cons.mono {α} {r : Res α} {s s' : List Char} (h : Cons r s) (hs : s <:+ s') : Cons r s' :=
  fun a t e => ⟨(h a t e).1.trans hs, Nat.lt_of_lt_of_le (h a t e).2 hs.length_le⟩

theorem Suff.bind {α β} {r : Res α} {f : α → List Char → Res β} {s : List Char}
    (hr : Suff r s) (hf : ∀ a s', s' <:+ s → Suff (f a s') s) : Suff (r.bind f) s := by
  intro b t e
  obtain ⟨a, s', e1, e2⟩ := (Res.bind_ok _ _ _ _).mp e
  exact hf a s' (hr a s' e1) b t e2

/-- a sequence consumes as soon as its first part does -/
theorem Cons.bind {α β} {r : Res α} {f : α → List Char → Res β} {s : List Char}
    (hr : Cons r s) (hf : ∀ a s', Suff (f a s') s') : Cons (r.bind f) s := by
  intro b t e
  obtain ⟨a, s', e1, e2⟩ := (Res.bind_ok _ _ _ _).mp e
  have h1 := hr a s' e1
  have h2 := hf a s' b t e2
  exact ⟨h2.trans h1.1, Nat.lt_of_le_of_lt h2.length_le h1.2⟩

/-- … or its remainder does -/
theorem Cons.bind_right {α β} {r : Res α} {f : α → List Char → Res β} {s : List Char}
    (hr : Suff r s) (hf : ∀ a s', Cons (f a s') s') : Cons (r.bind f) s := by
  intro b t e
  obtain ⟨a, s', e1, e2⟩ := (Res.bind_ok _ _ _ _).mp e
  have h1 := hr a s' e1
  have h2 := hf a s' b t e2
  exact ⟨h2.1.trans h1, Nat.lt_of_lt_of_le h2.2 h1.length_le⟩

theorem Suff.map {α β} {r : Res α} {g : α → β} {s : List Char} (hr : Suff r s) : Suff (r.map g) s := by
  intro b t e
  obtain ⟨a, e1, _⟩ := (Res.map_ok _ _ _ _).mp e
  exact hr a t e1

theorem Cons.map {α β} {r : Res α} {g : α → β} {s : List Char} (hr : Cons r s) : Cons (r.map g) s := by
  intro b t e
  obtain ⟨a, e1, _⟩ := (Res.map_ok _ _ _ _).mp e
  exact hr a t e1

theorem suff_ok {α} (a : α) (s : List Char) : Suff (Res.ok a s) s := by
  intro b t e; cases e; exact List.suffix_refl _

theorem suff_bt {α} (s : List Char) : Suff (Res.bt : Res α) s := by intro b t e; cases e
theorem suff_cut {α} (s : List Char) : Suff (Res.cut : Res α) s := by intro b t e; cases e
theorem cons_bt {α} (s : List Char) : Cons (Res.bt : Res α) s := by intro b t e; cases e
theorem cons_cut {α} (s : List Char) : Cons (Res.cut : Res α) s := by intro b t e; cases e

theorem alt_suff {α} {p q : P α} {s : List Char} (hp : Suff (p s) s) (hq : Suff (q s) s) :
    Suff (alt p q s) s := by
  intro a t e
  unfold alt at e
  split at e
  · rename_i a' r' hps; cases e; exact hp _ _ hps
  · exact hq a t e
  · cases e

theorem alt_cons {α} {p q : P α} {s : List Char} (hp : Cons (p s) s) (hq : Cons (q s) s) :
    Cons (alt p q s) s := by
  intro a t e
  unfold alt at e
  split at e
  · rename_i a' r' hps; cases e; exact hp _ _ hps
  · exact hq a t e
  · cases e

theorem opt_suff {α} {p : P α} {s : List Char} (hp : Suff (p s) s) : Suff (opt p s) s := by
  intro a t e
  unfold opt at e
  split at e
  · rename_i a' r' hps; cases e; exact hp _ _ hps
  · cases e; exact List.suffix_refl _
  · cases e

theorem cutErr_suff {α} {p : P α} {s : List Char} (hp : Suff (p s) s) : Suff (cutErr p s) s := by
  intro a t e
  unfold cutErr at e
  split at e
  · rename_i a' r' hps; cases e; exact hp _ _ hps
  · cases e
  · cases e

theorem cutErr_cons {α} {p : P α} {s : List Char} (hp : Cons (p s) s) : Cons (cutErr p s) s := by
  intro a t e
  unfold cutErr at e
  split at e
  · rename_i a' r' hps; cases e; exact hp _ _ hps
  · cases e
  · cases e

theorem peek_suff {α} (p : P α) (s : List Char) : Suff (peek p s) s := by
  intro a t e
  unfold peek at e
  split at e
  · cases e; exact List.suffix_refl _
  · cases e
  · cases e

theorem eof_suff (s : List Char) : Suff (eof s) s := by
  intro a t e
  unfold eof at e
  split at e
  · cases e; exact List.suffix_refl _
  · cases e

/-- `eof` succeeds only on the empty input -/
theorem eof_ok (s : List Char) (a : Unit) (t : List Char) (h : eof s = .ok a t) : s = [] ∧ t = [] := by
  unfold eof at h
  split at h
  · cases h; exact ⟨rfl, rfl⟩
  · cases h

theorem oneOf_cons (pred : Char → Bool) (s : List Char) : Cons (oneOf pred s) s := by
  intro a t e
  unfold oneOf at e
  split at e
  · split at e
    · cases e; exact ⟨List.suffix_cons _ _, by simp⟩
    · cases e
  · cases e

/-- `one_of` returns the first character, which satisfies the predicate -/
theorem oneOf_ok (pred : Char → Bool) (s : List Char) (c : Char) (t : List Char)
    (h : oneOf pred s = .ok c t) : s = c :: t ∧ pred c = true := by
  unfold oneOf at h
  split at h
  · split at h
    · rename_i hp; cases h; exact ⟨rfl, hp⟩
    · cases h
  · cases h

theorem chr_cons (c : Char) (s : List Char) : Cons (chr c s) s := oneOf_cons _ s

theorem chr_ok (c : Char) (s : List Char) (d : Char) (t : List Char) (h : chr c s = .ok d t) :
    s = c :: t ∧ d = c := by
  obtain ⟨h1, h2⟩ := oneOf_ok _ _ _ _ h
  have : d = c := by simpa using h2
  subst this; exact ⟨h1, rfl⟩

theorem stripPrefix_some : ∀ (l s r : List Char), stripPrefix l s = some r → s = l ++ r := by
  intro l
  induction l with
  | nil => intro s r h; simp [stripPrefix] at h; simp [h]
  | cons c l ih =>
    intro s r h
    cases s with
    | nil => simp [stripPrefix] at h
    | cons d s =>
      simp only [stripPrefix] at h
      split at h
      · rename_i hcd; subst hcd; rw [ih s r h]; rfl
      · cases h

theorem stripPrefix_append : ∀ (l r : List Char), stripPrefix l (l ++ r) = some r := by
  intro l
  induction l with
  | nil => intro r; rfl
  | cons c l ih => intro r; simp [stripPrefix, ih]

/-- a literal matches exactly its text -/
theorem lit_ok (l s : List Char) (a : Unit) (t : List Char) (h : lit l s = .ok a t) : s = l ++ t := by
  unfold lit at h
  split at h
  · rename_i r hr; cases h; exact stripPrefix_some _ _ _ hr
  · cases h

theorem lit_suff (l s : List Char) : Suff (lit l s) s := by
  intro a t e; rw [lit_ok l s a t e]; exact List.suffix_append _ _

theorem lit_cons (l s : List Char) (hl : l ≠ []) : Cons (lit l s) s := by
  intro a t e
  have := lit_ok l s a t e
  subst this
  refine ⟨List.suffix_append _ _, ?_⟩
  have : 0 < l.length := List.length_pos_iff.mpr hl
  simp; omega

theorem lit_append (l r : List Char) : lit l (l ++ r) = .ok () r := by
  simp [lit, stripPrefix_append]

theorem mem_takeWhile_pred (pred : Char → Bool) : ∀ (l : List Char), ∀ c ∈ l.takeWhile pred, pred c = true := by
  intro l
  induction l with
  | nil => intro c hc; simp at hc
  | cons d t ih =>
    intro c hc
    by_cases hd : pred d = true
    · rw [List.takeWhile_cons_of_pos hd] at hc
      rcases List.mem_cons.mp hc with h | h
      · subst h; exact hd
      · exact ih c h
    · rw [List.takeWhile_cons_of_neg hd] at hc; simp at hc

theorem takeWhile0_suff (pred : Char → Bool) (s : List Char) : Suff (takeWhile0 pred s) s := by
  intro a t e; unfold takeWhile0 at e; cases e; exact List.dropWhile_suffix _

/-- `take_while(0..)` returns the longest prefix: input = taken ++ rest, all taken chars match, the
    rest does not start with a matching char -/
theorem takeWhile0_ok (pred : Char → Bool) (s a t : List Char) (h : takeWhile0 pred s = .ok a t) :
    s = a ++ t ∧ (∀ c ∈ a, pred c = true) ∧ (∀ c r, t = c :: r → pred c = false) := by
  unfold takeWhile0 at h
  cases h
  refine ⟨List.takeWhile_append_dropWhile.symm, fun c hc => mem_takeWhile_pred _ _ c hc, ?_⟩
  intro c r hr
  have := List.head_dropWhile_not pred (l := s) (by rw [hr]; simp)
  simpa [hr] using this

theorem takeWhile1_cons (pred : Char → Bool) (s : List Char) : Cons (takeWhile1 pred s) s := by
  intro a t e
  unfold takeWhile1 at e
  split at e
  · cases e
  · rename_i c r hr
    cases e
    refine ⟨List.dropWhile_suffix _, ?_⟩
    have h := congrArg List.length (@List.takeWhile_append_dropWhile _ pred s)
    rw [hr] at h
    simp at h; omega

theorem takeWhile1_ok (pred : Char → Bool) (s a t : List Char) (h : takeWhile1 pred s = .ok a t) :
    s = a ++ t ∧ a ≠ [] ∧ (∀ c ∈ a, pred c = true) ∧ (∀ c r, t = c :: r → pred c = false) := by
  unfold takeWhile1 at h
  split at h
  · cases h
  · rename_i c r hr
    cases h
    have h0 := takeWhile0_ok pred s (s.takeWhile pred) (s.dropWhile pred) rfl
    rw [hr] at h0
    exact ⟨h0.1, by simp, h0.2.1, h0.2.2⟩

/-- forward form: a non-empty run of matching chars followed by a non-matching rest is taken whole -/
theorem takeWhile0_append (pred : Char → Bool) (a t : List Char) (ha : ∀ c ∈ a, pred c = true)
    (ht : ∀ c r, t = c :: r → pred c = false) : takeWhile0 pred (a ++ t) = .ok a t := by
  unfold takeWhile0
  rw [List.takeWhile_append_of_pos ha, List.dropWhile_append_of_pos ha]
  cases t with
  | nil => simp
  | cons c r => simp [List.takeWhile, List.dropWhile, ht c r rfl]

theorem takeWhile1_append (pred : Char → Bool) (a t : List Char) (hne : a ≠ [])
    (ha : ∀ c ∈ a, pred c = true) (ht : ∀ c r, t = c :: r → pred c = false) :
    takeWhile1 pred (a ++ t) = .ok a t := by
  have h0 := takeWhile0_append pred a t ha ht
  unfold takeWhile0 at h0
  injection h0 with h1 h2
  unfold takeWhile1
  rw [h1, h2]
  cases a with
  | nil => exact absurd rfl hne
  | cons c r => rfl

theorem spanN_append (pred : Char → Bool) : ∀ (n : Nat) (s : List Char),
    (spanN pred n s).1 ++ (spanN pred n s).2 = s := by
  intro n
  induction n with
  | zero => intro s; rfl
  | succ n ih =>
    intro s
    cases s with
    | nil => rfl
    | cons c t =>
      simp only [spanN]
      split
      · simp [ih t]
      · rfl

theorem spanN_length (pred : Char → Bool) : ∀ (n : Nat) (s : List Char), (spanN pred n s).1.length ≤ n := by
  intro n
  induction n with
  | zero => intro s; simp [spanN]
  | succ n ih =>
    intro s
    cases s with
    | nil => simp [spanN]
    | cons c t =>
      simp only [spanN]
      split
      · simp; exact ih t
      · simp

theorem spanN_all (pred : Char → Bool) : ∀ (n : Nat) (s : List Char), ∀ c ∈ (spanN pred n s).1, pred c = true := by
  intro n
  induction n with
  | zero => intro s c hc; simp [spanN] at hc
  | succ n ih =>
    intro s c hc
    cases s with
    | nil => simp [spanN] at hc
    | cons d t =>
      simp only [spanN] at hc
      split at hc
      · rename_i hd
        rcases List.mem_cons.mp hc with h | h
        · subst h; exact hd
        · exact ih t c h
      · simp at hc

/-- `take_while(m..=n)`: input = taken ++ rest, `m ≤ |taken| ≤ n`, all taken chars match -/
theorem takeMN_ok (m n : Nat) (pred : Char → Bool) (s a t : List Char) (h : takeMN m n pred s = .ok a t) :
    s = a ++ t ∧ m ≤ a.length ∧ a.length ≤ n ∧ (∀ c ∈ a, pred c = true) := by
  unfold takeMN at h
  split at h
  · cases h
  · rename_i hm
    cases h
    exact ⟨(spanN_append pred n s).symm, by omega, spanN_length pred n s, spanN_all pred n s⟩

theorem takeMN_suff (m n : Nat) (pred : Char → Bool) (s : List Char) : Suff (takeMN m n pred s) s := by
  intro a t e; rw [(takeMN_ok m n pred s a t e).1]; exact List.suffix_append _ _

theorem takeMN_cons (m n : Nat) (pred : Char → Bool) (s : List Char) (hm : 0 < m) :
    Cons (takeMN m n pred s) s := by
  intro a t e
  obtain ⟨h1, h2, _, _⟩ := takeMN_ok m n pred s a t e
  subst h1
  exact ⟨List.suffix_append _ _, by simp; omega⟩

theorem space0_suff (s : List Char) : Suff (space0 s) s := takeWhile0_suff _ s
theorem space1_cons (s : List Char) : Cons (space1 s) s := takeWhile1_cons _ s

theorem lineEnding_cons (s : List Char) : Cons (lineEnding s) s := by
  intro a t e
  unfold lineEnding at e
  split at e
  · cases e; exact ⟨List.suffix_cons _ _, by simp⟩
  · cases e; exact ⟨(List.suffix_cons _ _).trans (List.suffix_cons _ _), by simp; omega⟩
  · cases e

/-- `line_ending` consumes exactly `"\n"` or `"\r\n"` -/
theorem lineEnding_ok (s : List Char) (a : Unit) (t : List Char) (h : lineEnding s = .ok a t) :
    s = '\n' :: t ∨ s = '\r' :: '\n' :: t := by
  unfold lineEnding at h
  split at h
  · cases h; exact Or.inl rfl
  · cases h; exact Or.inr rfl
  · cases h

theorem tillLineEnding_suff (s : List Char) : Suff (tillLineEnding s) s := by
  intro a t e
  unfold tillLineEnding at e
  split at e
  · rename_i r hr; cases e; rw [← hr]; exact List.dropWhile_suffix _
  · cases e
  · cases e; exact List.dropWhile_suffix _

/-- `till_line_ending`: input = taken ++ rest, the taken text contains no `\r`/`\n`, the rest is empty or
    starts with a line ending -/
theorem tillLineEnding_ok (s a t : List Char) (h : tillLineEnding s = .ok a t) :
    s = a ++ t ∧ (∀ c ∈ a, notEol c = true) ∧
      (t = [] ∨ (∃ r, t = '\n' :: r) ∨ (∃ r, t = '\r' :: '\n' :: r)) := by
  have hall : ∀ c ∈ s.takeWhile notEol, notEol c = true := fun c hc => mem_takeWhile_pred _ _ c hc
  have happ : s = s.takeWhile notEol ++ s.dropWhile notEol := List.takeWhile_append_dropWhile.symm
  unfold tillLineEnding at h
  split at h
  · rename_i r hr
    cases h
    refine ⟨by rw [← hr]; exact happ, hall, Or.inr (Or.inr ⟨r, rfl⟩)⟩
  · cases h
  · rename_i r h1 h2
    cases h
    refine ⟨happ, hall, ?_⟩
    cases hd : s.dropWhile notEol with
    | nil => exact Or.inl rfl
    | cons c r' =>
      have hc : notEol c = false := by
        have := List.head_dropWhile_not notEol (l := s) (by rw [hd]; simp)
        simpa [hd] using this
      have : c = '\r' ∨ c = '\n' := by
        simp [notEol] at hc
        by_cases h : c = '\r'
        · exact Or.inl h
        · exact Or.inr (hc h)
      rcases this with rfl | rfl
      · exfalso
        cases r' with
        | nil => exact h2 [] hd
        | cons d r'' =>
          by_cases hdn : d = '\n'
          · subst hdn; exact h1 r'' hd
          · exact h2 (d :: r'') hd
      · exact Or.inr (Or.inl ⟨r', rfl⟩)

/-! #### repetition -/

theorem repeat0G_suff {α} (stall : Res (List α)) (p : P α) (hp : ∀ s, Suff (p s) s)
    (hst : ∀ s, Suff stall s) :
    ∀ (fuel : Nat) (s : List Char), Suff (repeat0G stall p fuel s) s := by
  intro fuel
  induction fuel with
  | zero => intro s; exact hst s
  | succ n ih =>
    intro s a t e
    simp only [repeat0G] at e
    split at e
    · rename_i a' r hps
      split at e
      · obtain ⟨l, e1, _⟩ := (Res.map_ok _ _ _ _).mp e
        exact (ih r l t e1).trans (hp s a' r hps)
      · exact hst s a t e
    · cases e; exact List.suffix_refl _
    · cases e

theorem repeat0_suff {α} (p : P α) (hp : ∀ s, Suff (p s) s) (s : List Char) : Suff (repeat0 p s) s :=
  repeat0G_suff .cut p hp (fun s => suff_cut s) _ s

theorem repeat1_cons {α} (p : P α) (hp : ∀ s, Cons (p s) s) (s : List Char) : Cons (repeat1 p s) s := by
  unfold repeat1
  exact Cons.bind (hp s) (fun a s' => Suff.map (repeat0_suff p (fun s => (hp s).suff) s'))

/-- the assertion site of `repeat` is dead for a parser that always consumes: the result does not depend
    on what the assertion (or fuel exhaustion) would yield, provided the fuel exceeds the input length -/
theorem repeat0G_stall_irrelevant {α} (x y : Res (List α)) (p : P α) (hp : ∀ s, Cons (p s) s) :
    ∀ (fuel : Nat) (s : List Char), s.length < fuel → repeat0G x p fuel s = repeat0G y p fuel s := by
  intro fuel
  induction fuel with
  | zero => intro s h; omega
  | succ n ih =>
    intro s h
    simp only [repeat0G]
    split
    · rename_i a r hps
      have hc := hp s a r hps
      simp only [hc.2, if_true]
      rw [ih r (by omega)]
    · rfl
    · rfl

theorem repeat0_stall_irrelevant {α} (x : Res (List α)) (p : P α) (hp : ∀ s, Cons (p s) s) (s : List Char) :
    repeat0 p s = repeat0G x p (s.length + 1) s :=
  repeat0G_stall_irrelevant _ _ p hp _ s (by omega)

theorem repeatTillG_suff {α β} (stall : Res (List α)) (f : P α) (g : P β)
    (hf : ∀ s, Suff (f s) s) (hg : ∀ s, Suff (g s) s) (hst : ∀ s, Suff stall s) :
    ∀ (fuel : Nat) (s : List Char), Suff (repeatTillG stall f g fuel s) s := by
  intro fuel
  induction fuel with
  | zero => intro s; exact hst s
  | succ n ih =>
    intro s a t e
    simp only [repeatTillG] at e
    split at e
    · rename_i b r hgs; cases e; exact hg s b _ hgs
    · cases e
    · split at e
      · rename_i a' r hfs
        split at e
        · obtain ⟨l, e1, _⟩ := (Res.map_ok _ _ _ _).mp e
          exact (ih r l t e1).trans (hf s a' r hfs)
        · exact hst s a t e
      · cases e
      · cases e

theorem repeatTill1_suff {α β} (f : P α) (g : P β) (hf : ∀ s, Suff (f s) s) (hg : ∀ s, Suff (g s) s)
    (s : List Char) : Suff (repeatTill1 f g s) s := by
  unfold repeatTill1
  exact Suff.bind (hf s) (fun a s' hs' =>
    (Suff.map (repeatTillG_suff .cut f g hf hg (fun s => suff_cut s) _ s')).mono hs')

theorem repeatTillG_stall_irrelevant {α β} (x y : Res (List α)) (f : P α) (g : P β) (hf : ∀ s, Cons (f s) s) :
    ∀ (fuel : Nat) (s : List Char), s.length < fuel → repeatTillG x f g fuel s = repeatTillG y f g fuel s := by
  intro fuel
  induction fuel with
  | zero => intro s h; omega
  | succ n ih =>
    intro s h
    simp only [repeatTillG]
    split
    · rfl
    · rfl
    · split
      · rename_i a r hfs
        have hc := hf s a r hfs
        simp only [hc.2, if_true]
        rw [ih r (by omega)]
      · rfl
      · rfl

end Comb
end Tackler

import TacklerModel.Model.Filter
import TacklerModel.Model.Regex
import TacklerModel.Model.Time
/-!
# FilterDef: transaction filter definitions as JSON, as base64 armor, and as text

| Lean                                   | mirrors                                                                                  |
|----------------------------------------|------------------------------------------------------------------------------------------|
| `JVal`                                 | a JSON value as `serde_json` hands it to serde (numbers keep their source text: feature `arbitrary_precision`) |
| `toJsonF`, `toJson`                    | `#[derive(Serialize)]` of `TxnFilter` (externally tagged) and of `FilterDefinition`       |
| `fromJsonF`, `fromJson`                | `#[derive(Deserialize)]` of the same types (`tackler-api/src/filters.rs`, `filters/**`)    |
| `struct0` … `struct6`                  | what a derived struct visitor accepts: a map (unknown keys ignored, duplicate key = error) or a sequence |
| `compileFull`, `reField`               | `tackler_rs::regex::serde::full_haystack_matcher::deserialize` (`new_full_haystack_regex`) |
| `decFromStr`, `decFromSci`, `decOfText`, `decField` | `rust_decimal` 1.37.1: `Decimal::from_str`, `from_scientific`, `DecimalVisitor` |
| `tsJsonChars`, `parseTsJson`, `tsField`| `jiff` 0.2.5: `Display for Timestamp`, `Timestamp::from_str` (the RFC 3339 spellings)      |
| `uuidParse`, `uuidField`               | `uuid` 1.16.0 `Uuid::parse_str`, hyphenated lower-case `Display`                           |
| `b64decode`, `b64encode`               | `base64` 0.22.1 `general_purpose::STANDARD` (`PAD`: canonical padding required, no trailing bits) |
| `utf8decode`, `utf8encode`             | `core::str::from_utf8`, `str::as_bytes`                                                    |
| `isArmored`, `fromArmor`, `fromJsonStr`, `parseDefinition` | `FilterDefinition::{is_armored, from_armor, from_json_str}` and the dispatch of `tackler-cli/src/main.rs` |
| `descF`, `describe`                    | `IndentDisplay::i_fmt` of every filter, `Display for FilterDefZoned`                        |

## The regex fields: *stored* view

A Rust filter struct holds a compiled `regex::Regex`; what it remembers of the pattern is `Regex::as_str()`.
In this file a `Filter`'s `re` fields hold **that stored text**.  Deserialisation stores `wrapStr s`
(`new_full_haystack_regex(s)` compiles `^(?:s)$`), serialisation and the description print `peelStr` of the stored
text (`peeled_pattern`), matching is the plain search of the stored text (`storedMatch`, `Regex::is_match`).
`Model/Filter.lean`/C05 use the *pattern* view (`re` = what the user wrote, matcher `new_full_haystack_regex(re)`);
`Filter.mapRe wrapStr` goes from that view to this one (`Props/C18.lean`: `eval_stored`).

## Outside the model (`Outcome.undef`)

* patterns outside the regex subset of `Model/Regex.lean` (`Regex.lex` = `none`) or longer than `patternSizeOk`;
* decimal texts on which `rust_decimal` rounds (more than 28 decimals, or a coefficient that exceeds 96 bits
  only because of its decimals) — from there on `parse_str_radix_10` even ignores trailing garbage (finding F26);
* timestamp spellings other than `[±00]YYYY-MM-DDTHH:MM:SS[.d{1,9}](Z|±HH:MM)` (jiff accepts many more: a space or
  lower-case `t`/`z`, `,` as decimal separator, basic format, offsets `±HH`, `±HHMM`, `±HH:MM:SS`, `[zone]`
  annotations, second 60);
* JSON *text* ⇄ `JVal` is `serde_json`'s business: `fromJsonStr`/`fromArmor` take the text parser as a parameter.

After the fix of F7 `from_armor` removes the armor prefix with `strip_prefix` (once); `fromArmorTrimAll` is the
behaviour before the fix (`trim_start_matches`), kept for the witness theorem.
-/
namespace Tackler

/-- a JSON value; object fields in document order, duplicates kept; numbers as their source text -/
inductive JVal where
  | null
  | bool (b : Bool)
  | num (text : String)
  | str (s : String)
  | arr (items : List JVal)
  | obj (fields : List (String × JVal))
deriving Repr

namespace Outcome

def isErr {α} : Outcome α → Bool
  | .err => true
  | _ => false

end Outcome

namespace FilterDef

open Regex (wrapStr peelStr)

/-! ## generic pieces of serde's derived deserialisers -/

/-- exactly one candidate: a field that is absent is an error (`missing field`), so is one given twice (`duplicate field`) -/
def pick1 {α} : List (Outcome α) → Outcome α
  | [x] => x
  | _ => .err

/-- the values given for key `k`, in document order -/
def fieldVals (k : String) : List (String × JVal) → List JVal
  | [] => []
  | (k', v) :: rest => if k' = k then v :: fieldVals k rest else fieldVals k rest

/-- one named field of a map -/
def getField (k : String) (fields : List (String × JVal)) : Outcome JVal :=
  match fieldVals k fields with
  | [v] => .ok v
  | _ => .err

/-- a struct without fields (`NullaryTRUE {}`): any map, or the empty sequence -/
def struct0 : JVal → Outcome Unit
  | .obj _ => .ok ()
  | .arr [] => .ok ()
  | _ => .err

def struct1 (k : String) : JVal → Outcome JVal
  | .obj fields => getField k fields
  | .arr [v] => .ok v
  | _ => .err

def struct2 (k1 k2 : String) : JVal → Outcome (JVal × JVal)
  | .obj fields => (getField k1 fields).bind fun a => (getField k2 fields).map fun b => (a, b)
  | .arr [a, b] => .ok (a, b)
  | _ => .err

def struct4 (k1 k2 k3 k4 : String) : JVal → Outcome (JVal × JVal × JVal × JVal)
  | .obj fields =>
    (getField k1 fields).bind fun a => (getField k2 fields).bind fun b =>
    (getField k3 fields).bind fun c => (getField k4 fields).map fun d => (a, b, c, d)
  | .arr [a, b, c, d] => .ok (a, b, c, d)
  | _ => .err

def struct6 (k1 k2 k3 k4 k5 k6 : String) : JVal → Outcome (JVal × JVal × JVal × JVal × JVal × JVal)
  | .obj fields =>
    (getField k1 fields).bind fun a => (getField k2 fields).bind fun b =>
    (getField k3 fields).bind fun c => (getField k4 fields).bind fun d =>
    (getField k5 fields).bind fun e => (getField k6 fields).map fun f => (a, b, c, d, e, f)
  | .arr [a, b, c, d, e, f] => .ok (a, b, c, d, e, f)
  | _ => .err

/-! ## regular expression fields -/

/-- `new_full_haystack_regex(s)`: the text the compiled regex keeps (`^(?:s)$`) | rejected by the crate | outside the
    modelled subset.  Inside the token language of the subset the only errors are structural (a group that is not
    closed or not opened, a repetition operator with nothing to repeat), and the crate reports exactly those. -/
def compileFull (s : String) : Outcome String :=
  if Regex.patternSizeOk s then
    match Regex.lex (Regex.wrapChars s.toList) with
    | none => .undef
    | some toks =>
      match Regex.parseToks toks with
      | some _ => .ok (wrapStr s)
      | none => .err
  else .undef

/-- `#[serde(with = "full_haystack_matcher")] regex: Regex` -/
def reField : JVal → Outcome String
  | .str s => compileFull s
  | _ => .err

/-- `Regex::is_match` of a stored pattern text (plain unanchored search; `false` outside the subset) -/
def storedMatch (src hay : String) : Bool :=
  match Regex.parse src with
  | some r => Regex.search r hay.toList
  | none => false

/-! ## decimals -/

/-- `crate::str::parse_str_radix_10` after the optional sign, as long as it stays on its exact paths.
    `seen`: a digit has been seen (`HAS`); `point`: the decimal point has been seen (`POINT`).
    Once 28 decimals have been read, or the coefficient no longer fits 96 bits, the crate rounds (and stops
    looking at the rest of the input): outside the model — except that an integer part which alone exceeds 96 bits is
    an error for certain. -/
def scanDec (neg : Bool) : Bool → Bool → List Char → List Char → List Char → Outcome Dec
  | seen, _, ip, fp, [] =>
    if Dec.digitsVal ip > max96 then .err
    else if fp.length > 28 ∨ Dec.digitsVal (ip ++ fp) > max96 then .undef
    else if seen then
      .ok ⟨neg && Dec.digitsVal (ip ++ fp) != 0, Dec.digitsVal (ip ++ fp), fp.length⟩
    else .err
  | seen, point, ip, fp, c :: cs =>
    if Dec.digitsVal ip > max96 then .err
    else if fp.length ≥ 28 ∨ Dec.digitsVal (ip ++ fp) > max96 then .undef
    else if Time.isDig c then
      (if point then scanDec neg true point ip (fp ++ [c]) cs else scanDec neg true point (ip ++ [c]) fp cs)
    else if c = '.' ∧ point = false then scanDec neg seen true ip fp cs
    else if c = '_' ∧ seen = true then scanDec neg seen point ip fp cs
    else .err

/-- `Decimal::from_str` (`parse_str_radix_10`): optional `+`/`-`, digits with `_` separators, at most one point
    (`.5` and `5.` are accepted); a zero is positive -/
def decFromStr (cs : List Char) : Outcome Dec :=
  match cs with
  | [] => .err
  | c :: rest =>
    if c = '-' then scanDec true false false [] [] rest
    else if c = '+' then scanDec false false false [] [] rest
    else scanDec false false false [] [] cs

/-- `value.splitn(2, ['e', 'E'])`: the text before and after the first `e`/`E` -/
def splitE : List Char → Option (List Char × List Char)
  | [] => none
  | c :: cs =>
    if c = 'e' ∨ c = 'E' then some ([], cs)
    else match splitE cs with
      | some (a, b) => some (c :: a, b)
      | none => none

/-- `str::parse::<u32>` as far as its value matters here (every caller rejects values above 28, so the overflow of
    `u32` needs no separate case): optional `+`, then at least one ASCII digit -/
def parseU32 (cs : List Char) : Option Nat :=
  match cs with
  | [] => none
  | c :: rest =>
    if c = '+' then (if rest.isEmpty || !rest.all Time.isDig then none else some (Dec.digitsVal rest))
    else if cs.all Time.isDig then some (Dec.digitsVal cs) else none

def pow10 (n : Nat) : Dec := ⟨false, 10 ^ n, 0⟩

/-- the exponent part of `Decimal::from_scientific`, applied to the parsed base -/
def applyExp (ret : Dec) (ex : List Char) : Outcome Dec :=
  match ex with
  | '-' :: r =>
    (match parseU32 r with
     | none => .err
     | some n =>
       if n > 28 then .err
       else if ret.scale + n > 28 then .err
       else .ok { ret with scale := ret.scale + n })
  | _ =>
    (match parseU32 ex with
     | none => .err
     | some n =>
       if n ≤ ret.scale then .ok { ret with scale := ret.scale - n }
       else if n > 28 then .err
       else
         match Dec.mul ret (pow10 n) with
         | some r => .ok r.normalize
         | none => Outcome.inexact (Dec.mulOverflows ret (pow10 n)))

/-- `Decimal::from_scientific` -/
def decFromSci (cs : List Char) : Outcome Dec :=
  match splitE cs with
  | none => .err
  | some (base, ex) => (decFromStr base).bind fun ret => applyExp ret ex

/-- `DecimalVisitor::visit_str`: `Decimal::from_str(v).or_else(|_| Decimal::from_scientific(v))` -/
def decOfText (cs : List Char) : Outcome Dec :=
  match decFromStr cs with
  | .ok d => .ok d
  | .err => decFromSci cs
  | .undef => .undef

/-- the key under which `serde_json` (feature `arbitrary_precision`) presents a number to a visitor -/
def numberToken : String := "$serde_json::private::Number"

/-- `deserializer.deserialize_any(DecimalVisitor)`: a JSON number (its text; the `visit_u64`/`visit_i64` short cuts for
    small integers give the same decimal), a string, or the one-entry map `serde_json` uses for numbers -/
def decField : JVal → Outcome Dec
  | .num t => decOfText t.toList
  | .str s => decOfText s.toList
  | .obj [(k, .str s)] => if k = numberToken then decOfText s.toList else .err
  | _ => .err

/-- what `fromJson` can produce: the representation invariant, and no negative zero -/
def DecNormal (d : Dec) : Prop := d.WF ∧ (d.coeff = 0 → d.neg = false)

/-! ## timestamps -/

/-- exactly `k` decimal digits of `n` (the low-order ones) -/
def digitsW : Nat → Nat → List Char
  | 0, _ => []
  | k + 1, n => digitsW k (n / 10) ++ [Char.ofNat (48 + n % 10)]

/-- drop trailing `0`s -/
def trimZeros (l : List Char) : List Char := (l.reverse.dropWhile (· == '0')).reverse

/-- jiff's temporal printer: four digits, negative years as `-` and six digits -/
def yearJ (y : Int) : List Char := if y < 0 then '-' :: digitsW 6 y.natAbs else digitsW 4 y.toNat

def fracJ (sub : Nat) : List Char := if sub = 0 then [] else '.' :: trimZeros (digitsW 9 sub)

/-- `impl Display for Timestamp` (what serde writes): the instant in UTC, fraction without trailing zeros, `Z` -/
def tsJsonChars (ns : Int) : List Char :=
  match Time.civilAt ns 0 with
  | (y, m, d, h, mi, s, sub) =>
    yearJ y ++ ['-'] ++ digitsW 2 m ++ ['-'] ++ digitsW 2 d ++ ['T'] ++ digitsW 2 h ++ [':'] ++ digitsW 2 mi
      ++ [':'] ++ digitsW 2 s ++ fracJ sub ++ ['Z']

def civilNsI (y : Int) (m d h mi s ns : Nat) : Int :=
  ((Time.daysFromCivil y m d * 86400 + (h * 3600 + mi * 60 + s : Nat)) * 1000000000) + ns

/-- a lexed timestamp (`Time.lexTs`; `negYear`: it was written `-00YYYY-…`) → instant, as `Timestamp::from_str` does -/
def resolveJ (negYear : Bool) (t : Time.TsToken) : Outcome Int :=
  if negYear = true ∧ t.year = 0 then .undef else
  match t.time with
  | none => .err                                   -- "failed to find time component"
  | some (h, mi, s, frac) =>
    match t.zone with
    | none => .err                                 -- "failed to find offset component"
    | some z =>
      if !(decide (1 ≤ t.month ∧ t.month ≤ 12) &&
           decide (1 ≤ t.day ∧ t.day ≤ Time.daysInMonth (if negYear then -(t.year : Int) else t.year) t.month)) then .err
      else if h > 23 ∨ mi > 59 ∨ s > 60 then .err
      else if s = 60 then .undef                   -- a leap second is accepted and clamped
      else
        match z with
        | none =>
          if Time.instantOk (civilNsI (if negYear then -(t.year : Int) else t.year) t.month t.day h mi s
              (match frac with | some ds => Time.fracNs ds | none => 0))
          then .ok (civilNsI (if negYear then -(t.year : Int) else t.year) t.month t.day h mi s
              (match frac with | some ds => Time.fracNs ds | none => 0))
          else .err
        | some (neg, hh, mm) =>
          if hh > 25 ∨ mm > 59 then .err
          else if Time.instantOk (civilNsI (if negYear then -(t.year : Int) else t.year) t.month t.day h mi s
              (match frac with | some ds => Time.fracNs ds | none => 0)
              - (if neg then -1 else 1) * ((hh * 3600 + mm * 60 : Nat) : Int) * 1000000000)
          then .ok (civilNsI (if negYear then -(t.year : Int) else t.year) t.month t.day h mi s
              (match frac with | some ds => Time.fracNs ds | none => 0)
              - (if neg then -1 else 1) * ((hh * 3600 + mm * 60 : Nat) : Int) * 1000000000)
          else .err

/-- `Timestamp::from_str` on the spellings `[±00]YYYY-MM-DDTHH:MM:SS[.d{1,9}](Z|±HH:MM)` (also without time or
    zone, which are errors); everything else is outside the model -/
def parseTsJson (cs : List Char) : Outcome Int :=
  match Regex.stripPrefix ['-', '0', '0'] cs with
  | some rest =>
    (match Time.lexTs rest with
     | some t => resolveJ true t
     | none => .undef)
  | none =>
    match Regex.stripPrefix ['+', '0', '0'] cs with
    | some rest =>
      (match Time.lexTs rest with
       | some t => resolveJ false t
       | none => .undef)
    | none =>
      (match Time.lexTs cs with
       | some t => resolveJ false t
       | none => .undef)

/-- `begin: Timestamp` / `end: Timestamp` -/
def tsField : JVal → Outcome Int
  | .str s => parseTsJson s.toList
  | _ => .err

/-! ## UUIDs -/

/-- a hexadecimal digit, lower-cased -/
def hexLower (c : Char) : Option Char :=
  if ('0' ≤ c ∧ c ≤ '9') ∨ ('a' ≤ c ∧ c ≤ 'f') then some c
  else if 'A' ≤ c ∧ c ≤ 'F' then some (Char.ofNat (c.toNat + 32))
  else none

/-- exactly `n` hexadecimal digits (lower-cased) and the rest of the input -/
def hexN : Nat → List Char → Option (List Char × List Char)
  | 0, cs => some ([], cs)
  | n + 1, c :: cs =>
    (match hexLower c, hexN n cs with
     | some x, some (xs, rest) => some (x :: xs, rest)
     | _, _ => none)
  | _ + 1, [] => none

/-- a hyphen and the rest of the input -/
def dash : List Char → Option (List Char)
  | c :: cs => if c = '-' then some cs else none
  | [] => none

/-- `parse_hyphenated`: 8-4-4-4-12 hexadecimal digits and nothing else → canonical text -/
def uuidHyph (cs : List Char) : Option (List Char) :=
  match hexN 8 cs with
  | none => none
  | some (a, r1) =>
    match dash r1 with
    | none => none
    | some r2 =>
      match hexN 4 r2 with
      | none => none
      | some (b, r3) =>
        match dash r3 with
        | none => none
        | some r4 =>
          match hexN 4 r4 with
          | none => none
          | some (c, r5) =>
            match dash r5 with
            | none => none
            | some r6 =>
              match hexN 4 r6 with
              | none => none
              | some (d, r7) =>
                match dash r7 with
                | none => none
                | some r8 =>
                  match hexN 12 r8 with
                  | none => none
                  | some (e, r9) =>
                    if r9.isEmpty then some (a ++ '-' :: (b ++ '-' :: (c ++ '-' :: (d ++ '-' :: e)))) else none

/-- `parse_simple`: 32 hexadecimal digits and nothing else -/
def uuidSimple (cs : List Char) : Option (List Char) :=
  match hexN 32 cs with
  | none => none
  | some (x, r) =>
    if r.isEmpty then
      some (x.take 8 ++ '-' :: ((x.drop 8).take 4 ++ '-' :: ((x.drop 12).take 4 ++ '-' :: ((x.drop 16).take 4 ++ '-' :: x.drop 20))))
    else none

def urnPrefix : List Char := ['u', 'r', 'n', ':', 'u', 'u', 'i', 'd', ':']

/-- `Uuid::parse_str` (`try_parse` dispatches on the length in bytes; a non-ASCII character makes every branch fail) →
    the hyphenated lower-case text (`Display for Uuid`) -/
def uuidParse (cs : List Char) : Option (List Char) :=
  if cs.all (fun c => decide (c.toNat < 128)) then
    if cs.length = 32 then uuidSimple cs
    else if cs.length = 36 then uuidHyph cs
    else if cs.length = 38 then
      (if cs.head? = some '{' ∧ cs.getLast? = some '}' then uuidHyph (cs.drop 1).dropLast else none)
    else if cs.length = 45 then
      (match Regex.stripPrefix urnPrefix cs with
       | some r => uuidHyph r
       | none => none)
    else none
  else none

/-- `uuid: Uuid` -/
def uuidField : JVal → Outcome String
  | .str s =>
    (match uuidParse s.toList with
     | some u => .ok (String.ofList u)
     | none => .err)
  | _ => .err

/-! ## `Serialize` -/

def reObj (re : String) : JVal := .obj [("regex", .str (peelStr re))]

def amountObj (re : String) (x : Dec) : JVal := .obj [("regex", .str (peelStr re)), ("amount", .num x.toString)]

def tsText (ns : Int) : String := String.ofList (tsJsonChars ns)

mutual
/-- `#[derive(Serialize)] enum TxnFilter` (externally tagged; field names as renamed in the structs).
    Decimals: plain `Decimal` fields (bounding boxes) are strings, `arbitrary_precision` fields (amounts) are numbers,
    both with the `Display` text; timestamps: `Display for Timestamp`; regexes: `peeled_pattern`. -/
def toJsonF : Filter → JVal
  | .tt => .obj [("NullaryTRUE", .obj [])]
  | .ff => .obj [("NullaryFALSE", .obj [])]
  | .and fs => .obj [("TxnFilterAND", .obj [("txnFilters", .arr (toJsonList fs))])]
  | .or fs => .obj [("TxnFilterOR", .obj [("txnFilters", .arr (toJsonList fs))])]
  | .not f => .obj [("TxnFilterNOT", .obj [("txnFilter", toJsonF f)])]
  | .tsBegin ns => .obj [("TxnFilterTxnTSBegin", .obj [("begin", .str (tsText ns))])]
  | .tsEnd ns => .obj [("TxnFilterTxnTSEnd", .obj [("end", .str (tsText ns))])]
  | .code re => .obj [("TxnFilterTxnCode", reObj re)]
  | .desc re => .obj [("TxnFilterTxnDescription", reObj re)]
  | .uuid u => .obj [("TxnFilterTxnUUID", .obj [("uuid", .str u)])]
  | .bbox s w n e => .obj [("TxnFilterBBoxLatLon",
      .obj [("south", .str s.toString), ("west", .str w.toString), ("north", .str n.toString), ("east", .str e.toString)])]
  | .bbox3 s w d n e h => .obj [("TxnFilterBBoxLatLonAlt",
      .obj [("south", .str s.toString), ("west", .str w.toString), ("depth", .str d.toString),
            ("north", .str n.toString), ("east", .str e.toString), ("height", .str h.toString)])]
  | .tags re => .obj [("TxnFilterTxnTags", reObj re)]
  | .comments re => .obj [("TxnFilterTxnComments", reObj re)]
  | .postAccount re => .obj [("TxnFilterPostingAccount", reObj re)]
  | .postComment re => .obj [("TxnFilterPostingComment", reObj re)]
  | .postAmountEq re x => .obj [("TxnFilterPostingAmountEqual", amountObj re x)]
  | .postAmountLess re x => .obj [("TxnFilterPostingAmountLess", amountObj re x)]
  | .postAmountGreater re x => .obj [("TxnFilterPostingAmountGreater", amountObj re x)]
  | .postCommodity re => .obj [("TxnFilterPostingCommodity", reObj re)]
def toJsonList : List Filter → List JVal
  | [] => []
  | f :: fs => toJsonF f :: toJsonList fs
end

/-- `#[derive(Serialize)] struct FilterDefinition { #[serde(rename = "txnFilter")] txn_filter }` -/
def toJson (f : Filter) : JVal := .obj [("txnFilter", toJsonF f)]

/-! ## `Deserialize` -/

def reLeaf (mk : String → Filter) (content : JVal) : Outcome Filter :=
  (struct1 "regex" content).bind fun v => (reField v).map mk

def amountLeaf (mk : String → Dec → Filter) (content : JVal) : Outcome Filter :=
  (struct2 "regex" "amount" content).bind fun p =>
    (reField p.1).bind fun re => (decField p.2).map fun x => mk re x

/-- the 17 variants without sub-filters; an unknown variant name is an error -/
def leafOf (tag : String) (content : JVal) : Outcome Filter :=
  if tag = "NullaryTRUE" then (struct0 content).map fun _ => .tt
  else if tag = "NullaryFALSE" then (struct0 content).map fun _ => .ff
  else if tag = "TxnFilterTxnTSBegin" then (struct1 "begin" content).bind fun v => (tsField v).map .tsBegin
  else if tag = "TxnFilterTxnTSEnd" then (struct1 "end" content).bind fun v => (tsField v).map .tsEnd
  else if tag = "TxnFilterTxnCode" then reLeaf .code content
  else if tag = "TxnFilterTxnDescription" then reLeaf .desc content
  else if tag = "TxnFilterTxnUUID" then (struct1 "uuid" content).bind fun v => (uuidField v).map .uuid
  else if tag = "TxnFilterBBoxLatLon" then
    (struct4 "south" "west" "north" "east" content).bind fun p =>
      (decField p.1).bind fun s => (decField p.2.1).bind fun w =>
      (decField p.2.2.1).bind fun n => (decField p.2.2.2).map fun e => .bbox s w n e
  else if tag = "TxnFilterBBoxLatLonAlt" then
    (struct6 "south" "west" "depth" "north" "east" "height" content).bind fun p =>
      (decField p.1).bind fun s => (decField p.2.1).bind fun w => (decField p.2.2.1).bind fun d =>
      (decField p.2.2.2.1).bind fun n => (decField p.2.2.2.2.1).bind fun e =>
      (decField p.2.2.2.2.2).map fun h => .bbox3 s w d n e h
  else if tag = "TxnFilterTxnTags" then reLeaf .tags content
  else if tag = "TxnFilterTxnComments" then reLeaf .comments content
  else if tag = "TxnFilterPostingAccount" then reLeaf .postAccount content
  else if tag = "TxnFilterPostingComment" then reLeaf .postComment content
  else if tag = "TxnFilterPostingAmountEqual" then amountLeaf .postAmountEq content
  else if tag = "TxnFilterPostingAmountLess" then amountLeaf .postAmountLess content
  else if tag = "TxnFilterPostingAmountGreater" then amountLeaf .postAmountGreater content
  else if tag = "TxnFilterPostingCommodity" then reLeaf .postCommodity content
  else .err

mutual
/-- `#[derive(Deserialize)] enum TxnFilter` from `serde_json`: a map with exactly one entry `variant: content`
    (a bare string names a unit variant, which none of these is) -/
def fromJsonF : JVal → Outcome Filter
  | .obj [(tag, content)] =>
    if tag = "TxnFilterAND" then (contentFilters content).map .and
    else if tag = "TxnFilterOR" then (contentFilters content).map .or
    else if tag = "TxnFilterNOT" then (contentFilter content).map .not
    else leafOf tag content
  | _ => .err
/-- `struct { txnFilters: Vec<TxnFilter> }` (= `(struct1 "txnFilters" j).bind` "array of filters") -/
def contentFilters : JVal → Outcome (List Filter)
  | .obj fields => pick1 (fieldsFilters fields)
  | .arr [v] => valFilters v
  | _ => .err
/-- `struct { txnFilter: Box<TxnFilter> }` -/
def contentFilter : JVal → Outcome Filter
  | .obj fields => pick1 (fieldsFilter fields)
  | .arr [v] => fromJsonF v
  | _ => .err
def fieldsFilters : List (String × JVal) → List (Outcome (List Filter))
  | [] => []
  | (k, v) :: rest => if k = "txnFilters" then valFilters v :: fieldsFilters rest else fieldsFilters rest
def fieldsFilter : List (String × JVal) → List (Outcome Filter)
  | [] => []
  | (k, v) :: rest => if k = "txnFilter" then fromJsonF v :: fieldsFilter rest else fieldsFilter rest
/-- `Vec<TxnFilter>` -/
def valFilters : JVal → Outcome (List Filter)
  | .arr items => fromJsonArr items
  | _ => .err
def fromJsonArr : List JVal → Outcome (List Filter)
  | [] => .ok []
  | v :: vs => (fromJsonF v).bind fun f => (fromJsonArr vs).map fun fs => f :: fs
end

/-- `#[derive(Deserialize)] struct FilterDefinition` -/
def fromJson : JVal → Outcome Filter
  | .obj fields => pick1 (fieldsFilter fields)
  | .arr [v] => fromJsonF v
  | _ => .err

/-! ## base64 (`general_purpose::STANDARD`) and UTF-8 -/

/-- value of a symbol of the standard alphabet -/
def b64val (c : Char) : Option Nat :=
  if 'A' ≤ c ∧ c ≤ 'Z' then some (c.toNat - 65)
  else if 'a' ≤ c ∧ c ≤ 'z' then some (c.toNat - 97 + 26)
  else if '0' ≤ c ∧ c ≤ '9' then some (c.toNat - 48 + 52)
  else if c = '+' then some 62
  else if c = '/' then some 63
  else none

/-- symbol of a value below 64 -/
def b64chr (v : Nat) : Char :=
  if v < 26 then Char.ofNat (65 + v)
  else if v < 52 then Char.ofNat (97 + (v - 26))
  else if v < 62 then Char.ofNat (48 + (v - 52))
  else if v = 62 then '+' else '/'

def byte (n : Nat) : UInt8 := UInt8.ofNat n

/-- a complete quad of symbols → three bytes -/
def quad3 (a b c d : Char) : Option (List UInt8) :=
  match b64val a, b64val b, b64val c, b64val d with
  | some x, some y, some z, some w => some [byte (x * 4 + y / 16), byte (y % 16 * 16 + z / 4), byte (z % 4 * 64 + w)]
  | _, _, _, _ => none

/-- the last quad: complete, or padded canonically (`xx==` one byte, `xxx=` two bytes; the bits that are not part of a
    byte must be zero: `decode_allow_trailing_bits = false`) -/
def quadLast (a b c d : Char) : Option (List UInt8) :=
  if c = '=' then
    (if d = '=' then
      match b64val a, b64val b with
      | some x, some y => if y % 16 = 0 then some [byte (x * 4 + y / 16)] else none
      | _, _ => none
     else none)
  else if d = '=' then
    match b64val a, b64val b, b64val c with
    | some x, some y, some z => if z % 4 = 0 then some [byte (x * 4 + y / 16), byte (y % 16 * 16 + z / 4)] else none
    | _, _, _ => none
  else quad3 a b c d

/-- `general_purpose::STANDARD.decode`: quads of symbols; padding only in the last quad and required there
    (`DecodePaddingMode::RequireCanonical`); nothing else — no white space, no line breaks; the empty text is the empty
    byte string -/
def b64decode : List Char → Option (List UInt8)
  | [] => some []
  | [a, b, c, d] => quadLast a b c d
  | a :: b :: c :: d :: e :: rest =>
    (match quad3 a b c d, b64decode (e :: rest) with
     | some x, some y => some (x ++ y)
     | _, _ => none)
  | _ => none

/-- `general_purpose::STANDARD.encode` -/
def b64encode : List UInt8 → List Char
  | [] => []
  | [x] => [b64chr (x.toNat / 4), b64chr (x.toNat % 4 * 16), '=', '=']
  | [x, y] => [b64chr (x.toNat / 4), b64chr (x.toNat % 4 * 16 + y.toNat / 16), b64chr (y.toNat % 16 * 4), '=']
  | x :: y :: z :: rest =>
    [b64chr (x.toNat / 4), b64chr (x.toNat % 4 * 16 + y.toNat / 16), b64chr (y.toNat % 16 * 4 + z.toNat / 64),
     b64chr (z.toNat % 64)] ++ b64encode rest

def isCont (b : UInt8) : Bool := 128 ≤ b.toNat && b.toNat < 192

/-- `core::str::from_utf8`: shortest form only, no surrogates, at most U+10FFFF -/
def utf8decode : List UInt8 → Option (List Char)
  | [] => some []
  | b0 :: rest =>
    if b0.toNat < 128 then
      (match utf8decode rest with
       | some cs => some (Char.ofNat b0.toNat :: cs)
       | none => none)
    else if 194 ≤ b0.toNat ∧ b0.toNat < 224 then
      (match rest with
       | b1 :: rest1 =>
         if isCont b1 then
           (match utf8decode rest1 with
            | some cs => some (Char.ofNat ((b0.toNat - 192) * 64 + (b1.toNat - 128)) :: cs)
            | none => none)
         else none
       | _ => none)
    else if 224 ≤ b0.toNat ∧ b0.toNat < 240 then
      (match rest with
       | b1 :: b2 :: rest2 =>
         if isCont b1 && isCont b2
            && decide (2048 ≤ (b0.toNat - 224) * 4096 + (b1.toNat - 128) * 64 + (b2.toNat - 128))
            && !(decide (55296 ≤ (b0.toNat - 224) * 4096 + (b1.toNat - 128) * 64 + (b2.toNat - 128))
                 && decide ((b0.toNat - 224) * 4096 + (b1.toNat - 128) * 64 + (b2.toNat - 128) ≤ 57343)) then
           (match utf8decode rest2 with
            | some cs => some (Char.ofNat ((b0.toNat - 224) * 4096 + (b1.toNat - 128) * 64 + (b2.toNat - 128)) :: cs)
            | none => none)
         else none
       | _ => none)
    else if 240 ≤ b0.toNat ∧ b0.toNat < 245 then
      (match rest with
       | b1 :: b2 :: b3 :: rest3 =>
         if isCont b1 && isCont b2 && isCont b3
            && decide (65536 ≤ (b0.toNat - 240) * 262144 + (b1.toNat - 128) * 4096 + (b2.toNat - 128) * 64 + (b3.toNat - 128))
            && decide ((b0.toNat - 240) * 262144 + (b1.toNat - 128) * 4096 + (b2.toNat - 128) * 64 + (b3.toNat - 128) ≤ 1114111) then
           (match utf8decode rest3 with
            | some cs => some (Char.ofNat ((b0.toNat - 240) * 262144 + (b1.toNat - 128) * 4096 + (b2.toNat - 128) * 64
                + (b3.toNat - 128)) :: cs)
            | none => none)
         else none
       | _ => none)
    else none

/-- `str::as_bytes` of one character -/
def utf8encodeChar (c : Char) : List UInt8 :=
  if c.toNat < 128 then [byte c.toNat]
  else if c.toNat < 2048 then [byte (192 + c.toNat / 64), byte (128 + c.toNat % 64)]
  else if c.toNat < 65536 then [byte (224 + c.toNat / 4096), byte (128 + c.toNat / 64 % 64), byte (128 + c.toNat % 64)]
  else [byte (240 + c.toNat / 262144), byte (128 + c.toNat / 4096 % 64), byte (128 + c.toNat / 64 % 64), byte (128 + c.toNat % 64)]

def utf8encode : List Char → List UInt8
  | [] => []
  | c :: cs => utf8encodeChar c ++ utf8encode cs

/-! ## the armor layer (`filter_definition.rs`) -/

def armorPrefix : List Char := ['b', 'a', 's', 'e', '6', '4', ':']

/-- `FilterDefinition::is_armored`: `filt.starts_with("base64:")` -/
def isArmored (s : String) : Bool := armorPrefix.isPrefixOf s.toList

/-- `FilterDefinition::from_json_str`; `P` is `serde_json`'s text → value layer (`none`: not JSON) -/
def fromJsonStr (P : String → Option JVal) (s : String) : Outcome Filter :=
  match P s with
  | some j => fromJson j
  | none => .err

/-- what `from_armor` does with the text after the prefix -/
def fromPayload (P : String → Option JVal) (payload : List Char) : Outcome Filter :=
  match b64decode payload with
  | none => .err                                   -- "Ascii Armor decoding failure"
  | some bytes =>
    match utf8decode bytes with
    | none => .err                                 -- `from_utf8(..)?`
    | some cs => fromJsonStr P (String.ofList cs)

/-- `FilterDefinition::from_armor` (after the fix of F7): the prefix is removed with `strip_prefix`, exactly once -/
def fromArmor (P : String → Option JVal) (s : String) : Outcome Filter :=
  match Regex.stripPrefix armorPrefix s.toList with
  | none => .err                                   -- "Unknown filter encoding"
  | some payload => fromPayload P payload

/-- `str::trim_start_matches(prefix)`: remove the prefix as often as it is there (fuel: the length) -/
def trimStartMatches (pre : List Char) : Nat → List Char → List Char
  | 0, s => s
  | n + 1, s =>
    match Regex.stripPrefix pre s with
    | some r => if pre.isEmpty then s else trimStartMatches pre n r
    | none => s

/-- `from_armor` before the fix of F7 -/
def fromArmorTrimAll (P : String → Option JVal) (s : String) : Outcome Filter :=
  if isArmored s then fromPayload P (trimStartMatches armorPrefix s.length s.toList) else .err

/-- the armor of a text as a user makes it: the prefix and the standard base64 of its UTF-8 bytes -/
def armorOf (s : String) : String := String.ofList (armorPrefix ++ b64encode (utf8encode s.toList))

/-- how `tackler-cli` reads `--api-filter-def`: armor if it looks armored, JSON otherwise -/
def parseDefinition (P : String → Option JVal) (s : String) : Outcome Filter :=
  if isArmored s then fromArmor P s else fromJsonStr P s

/-! ## the textual description -/

def q (re : String) : String := "\"" ++ peelStr re ++ "\""

def amountText (ind : String) (re : String) (op : String) (x : Dec) : String :=
  ind ++ "Posting Amount\n" ++ ind ++ "  account: " ++ q re ++ "\n" ++ ind ++ "  amount " ++ op ++ " " ++ x.toString ++ "\n"

mutual
/-- `IndentDisplay::i_fmt`; `off`: the offset (seconds) of the zone timestamps are shown in -/
def descF (off : Int) (ind : String) : Filter → String
  | .tt => ind ++ "All pass\n"
  | .ff => ind ++ "None pass\n"
  | .and fs => ind ++ "AND\n" ++ descList off (ind ++ "  ") fs
  | .or fs => ind ++ "OR\n" ++ descList off (ind ++ "  ") fs
  | .not f => ind ++ "NOT\n" ++ descF off (ind ++ "  ") f
  | .tsBegin ns => ind ++ "Txn TS: begin " ++ Time.rfc3339 ns off ++ "\n"
  | .tsEnd ns => ind ++ "Txn TS: end   " ++ Time.rfc3339 ns off ++ "\n"
  | .code re => ind ++ "Txn Code: " ++ q re ++ "\n"
  | .desc re => ind ++ "Txn Description: " ++ q re ++ "\n"
  | .uuid u => ind ++ "Txn UUID: " ++ u ++ "\n"
  | .bbox s w n e => ind ++ "Txn Bounding Box 2D\n" ++
      ind ++ "  North, East: geo:" ++ n.toString ++ "," ++ e.toString ++ "\n" ++
      ind ++ "  South, West: geo:" ++ s.toString ++ "," ++ w.toString ++ "\n"
  | .bbox3 s w d n e h => ind ++ "Txn Bounding Box 3D\n" ++
      ind ++ "  North, East, Height: geo:" ++ n.toString ++ "," ++ e.toString ++ "," ++ h.toString ++ "\n" ++
      ind ++ "  South, West, Depth:  geo:" ++ s.toString ++ "," ++ w.toString ++ "," ++ d.toString ++ "\n"
  | .tags re => ind ++ "Txn Tags: " ++ q re ++ "\n"
  | .comments re => ind ++ "Txn Comments: " ++ q re ++ "\n"
  | .postAccount re => ind ++ "Posting Account: " ++ q re ++ "\n"
  | .postComment re => ind ++ "Posting Comment: " ++ q re ++ "\n"
  | .postAmountEq re x => amountText ind re "==" x
  | .postAmountLess re x => amountText ind re "<" x
  | .postAmountGreater re x => amountText ind re ">" x
  | .postCommodity re => ind ++ "Posting Commodity: " ++ q re ++ "\n"
def descList (off : Int) (ind : String) : List Filter → String
  | [] => ""
  | f :: fs => descF off ind f ++ descList off ind fs
end

/-- `impl Display for FilterDefZoned` -/
def describe (off : Int) (f : Filter) : String := "Filter\n" ++ descF off "  " f

/-! ## views of the regex fields -/

mutual
/-- apply `g` to every regex field -/
def mapRe (g : String → String) : Filter → Filter
  | .and fs => .and (mapReList g fs)
  | .or fs => .or (mapReList g fs)
  | .not f => .not (mapRe g f)
  | .code re => .code (g re)
  | .desc re => .desc (g re)
  | .tags re => .tags (g re)
  | .comments re => .comments (g re)
  | .postAccount re => .postAccount (g re)
  | .postComment re => .postComment (g re)
  | .postAmountEq re x => .postAmountEq (g re) x
  | .postAmountLess re x => .postAmountLess (g re) x
  | .postAmountGreater re x => .postAmountGreater (g re) x
  | .postCommodity re => .postCommodity (g re)
  | .tt => .tt
  | .ff => .ff
  | .tsBegin ns => .tsBegin ns
  | .tsEnd ns => .tsEnd ns
  | .uuid u => .uuid u
  | .bbox s w n e => .bbox s w n e
  | .bbox3 s w d n e h => .bbox3 s w d n e h
def mapReList (g : String → String) : List Filter → List Filter
  | [] => []
  | f :: fs => mapRe g f :: mapReList g fs
end

/-- from the pattern view (`Model/Filter.lean`) to the stored view of this file -/
def stored (f : Filter) : Filter := mapRe wrapStr f

mutual
/-- the stored pattern texts of a filter, left to right -/
def patterns : Filter → List String
  | .and fs => patternsList fs
  | .or fs => patternsList fs
  | .not f => patterns f
  | .code re => [re]
  | .desc re => [re]
  | .tags re => [re]
  | .comments re => [re]
  | .postAccount re => [re]
  | .postComment re => [re]
  | .postAmountEq re _ => [re]
  | .postAmountLess re _ => [re]
  | .postAmountGreater re _ => [re]
  | .postCommodity re => [re]
  | _ => []
def patternsList : List Filter → List String
  | [] => []
  | f :: fs => patterns f ++ patternsList fs
end

/-! ## the normal form `fromJson` produces -/

/-- a stored pattern text that deserialisation can have produced -/
def ReNormal (re : String) : Prop := ∃ p, re = wrapStr p ∧ compileFull p = .ok (wrapStr p)

/-- canonical text of a UUID -/
def UuidNormal (u : String) : Prop := uuidParse u.toList = some u.toList

mutual
def Normal : Filter → Prop
  | .and fs => NormalList fs
  | .or fs => NormalList fs
  | .not f => Normal f
  | .tsBegin ns => Time.instantOk ns = true
  | .tsEnd ns => Time.instantOk ns = true
  | .code re => ReNormal re
  | .desc re => ReNormal re
  | .tags re => ReNormal re
  | .comments re => ReNormal re
  | .postAccount re => ReNormal re
  | .postComment re => ReNormal re
  | .postCommodity re => ReNormal re
  | .postAmountEq re x => ReNormal re ∧ DecNormal x
  | .postAmountLess re x => ReNormal re ∧ DecNormal x
  | .postAmountGreater re x => ReNormal re ∧ DecNormal x
  | .uuid u => UuidNormal u
  | .bbox s w n e => DecNormal s ∧ DecNormal w ∧ DecNormal n ∧ DecNormal e
  | .bbox3 s w d n e h => DecNormal s ∧ DecNormal w ∧ DecNormal d ∧ DecNormal n ∧ DecNormal e ∧ DecNormal h
  | .tt => True
  | .ff => True
def NormalList : List Filter → Prop
  | [] => True
  | f :: fs => Normal f ∧ NormalList fs
end

/-! ## canonical rendering of a JSON value (`serde_json::to_string`: compact, keys in struct order) -/

def hexDigit (n : Nat) : Char := if n < 10 then Char.ofNat (48 + n) else Char.ofNat (87 + n)

/-- `serde_json`'s string escaping: `"` `\\`, the short escapes `\b \t \n \f \r`, other control characters as `\u00XX`;
    everything else (also non-ASCII) verbatim -/
def escChar (c : Char) : List Char :=
  if c = '"' then ['\\', '"']
  else if c = '\\' then ['\\', '\\']
  else if c = '\n' then ['\\', 'n']
  else if c = '\r' then ['\\', 'r']
  else if c = '\t' then ['\\', 't']
  else if c.toNat = 8 then ['\\', 'b']
  else if c.toNat = 12 then ['\\', 'f']
  else if c.toNat < 32 then ['\\', 'u', '0', '0', hexDigit (c.toNat / 16), hexDigit (c.toNat % 16)]
  else [c]

def renderStr (s : String) : List Char := ['"'] ++ (s.toList.map escChar).flatten ++ ['"']

mutual
def renderChars : JVal → List Char
  | .null => ['n', 'u', 'l', 'l']
  | .bool b => if b then ['t', 'r', 'u', 'e'] else ['f', 'a', 'l', 's', 'e']
  | .num t => t.toList
  | .str s => renderStr s
  | .arr items => ['['] ++ renderItems items ++ [']']
  | .obj fields => ['{'] ++ renderFields fields ++ ['}']
def renderItems : List JVal → List Char
  | [] => []
  | [v] => renderChars v
  | v :: w :: rest => renderChars v ++ [','] ++ renderItems (w :: rest)
def renderFields : List (String × JVal) → List Char
  | [] => []
  | [(k, v)] => renderStr k ++ [':'] ++ renderChars v
  | (k, v) :: p :: rest => renderStr k ++ [':'] ++ renderChars v ++ [','] ++ renderFields (p :: rest)
end

def render (j : JVal) : String := String.ofList (renderChars j)

end FilterDef
end Tackler

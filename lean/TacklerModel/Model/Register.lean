import TacklerModel.Model.Balance
/-!
# Register: the register kernel (`tackler-core/src/kernel/accumulator.rs`, `register_engine`)

One definition per piece of the Rust function:

| Lean | Rust |
|---|---|
| `RItem` | one element of `price_lookup_ctx.convert_prices(txn).zip(&txn.posts)` |
| `itemLe` | `.sorted_by(|a, b| Ord::cmp(&a.1.acctn, &b.1.acctn))` (stable; key = the *original* posting's `TxnAccount`: commodity, then account name) |
| `RegMap`, `RegMap.set` | `HashMap<TxnAccount, Decimal>` (only `entry` is used, never iterated) |
| `accPosting` | the closure of `.map(..)`: `entry(conv_acctn).and_modify(|v| *v += conv_amount).or_insert(conv_amount)` |
| `accPostings` | `.map(..).collect()` over the sorted items of one transaction |
| `rowLe` | `Ord for RegisterPosting` (`post.acctn`), used by `filt_postings.sort()` (stable) |
| `registerTxn` | the body of `for txn in txns` |
| `registerLoop`, `registerEngine` | the loop, the map threaded through |
| `printedEntries` | `reg_entry_txt_writer`: `if !re.posts.is_empty()` |
| `noConv`, `plainStream`, `register` | `convert_prices` with `in_commodity = None` |

The stream of converted items is a parameter (`List (Txn × List RItem)`), so price conversion
(C07) can plug in its own `convert_prices`; `register` is the engine on the unconverted stream.
`Decimal` `+=` outside the exact domain rounds or panics: the engine answers `.undef` there.
-/
namespace Tackler

/-- `((conv_acctn, conv_amount, rate), orig_p)`; conversion only replaces the commodity of the
    account key, the account node is the posting's own -/
structure RItem where
  post : Posting           -- `orig_p`
  comm : String            -- `conv_acctn.comm`
  amount : Dec             -- `conv_amount`
  rate : Option Dec
deriving Repr, DecidableEq

/-- `orig_p.acctn` -/
def Posting.acctnKey (p : Posting) : AKey := (p.comm, p.acct)

/-- `conv_acctn`: the key of the running-total map -/
def RItem.key (it : RItem) : AKey := (it.comm, it.post.acct)

/-- `Ord::cmp(&a.1.acctn, &b.1.acctn) != Greater` -/
def itemLe (a b : RItem) : Bool := keyLe a.post.acctnKey b.post.acctnKey

/-- `RegisterPosting`: `amount` is the running total -/
structure RegRow where
  post : Posting
  total : Dec              -- `amount`
  comm : String            -- `target_commodity`
  rate : Option Dec
deriving Repr, DecidableEq

def RegRow.key (r : RegRow) : AKey := (r.comm, r.post.acct)

/-- `Ord for RegisterPosting`: `self.post.acctn.cmp(&other.post.acctn) != Greater` -/
def rowLe (a b : RegRow) : Bool := keyLe a.post.acctnKey b.post.acctnKey

/-- `HashMap<TxnAccount, Decimal>`; the engine only looks keys up and overwrites them -/
abbrev RegMap := AKey → Option Dec

def RegMap.empty : RegMap := fun _ => none

def RegMap.set (m : RegMap) (k : AKey) (v : Dec) : RegMap := fun k' => if k' = k then some v else m k'

/-- `entry(k).and_modify(|v| *v += amount).or_insert(amount)`, and the row built from the result -/
def accPosting (m : RegMap) (it : RItem) : Option (RegMap × RegRow) :=
  match m it.key with
  | none => some (m.set it.key it.amount, ⟨it.post, it.amount, it.comm, it.rate⟩)
  | some v =>
    match Dec.add v it.amount with
    | none => none
    | some s => some (m.set it.key s, ⟨it.post, s, it.comm, it.rate⟩)

/-- the `.map(..).collect()` over the (sorted) items of one transaction -/
def accPostings : RegMap → List RItem → Option (RegMap × List RegRow)
  | m, [] => some (m, [])
  | m, it :: rest =>
    match accPosting m it with
    | none => none
    | some (m', r) =>
      match accPostings m' rest with
      | none => none
      | some (m'', rs) => some (m'', r :: rs)

/-- `RegisterEntry` -/
structure RegEntry where
  txn : Txn
  rows : List RegRow
deriving Repr, DecidableEq

/-- body of `for txn in txns`: sort the items by the original account key, accumulate every one of
    them, then filter by the selector, then `sort()` what is left -/
def registerTxn (sel : RegRow → Bool) (m : RegMap) (t : Txn) (items : List RItem) : Option (RegMap × RegEntry) :=
  match accPostings m (items.mergeSort itemLe) with
  | none => none
  | some (m', rows) => some (m', ⟨t, (rows.filter sel).mergeSort rowLe⟩)

def registerLoop (sel : RegRow → Bool) : RegMap → List (Txn × List RItem) → Option (List RegEntry)
  | _, [] => some []
  | m, (t, items) :: rest =>
    match registerTxn sel m t items with
    | none => none
    | some (m', e) =>
      match registerLoop sel m' rest with
      | none => none
      | some es => some (e :: es)

/-- `register_engine`: one entry per transaction, in the order given -/
def registerEngine (sel : RegRow → Bool) (stream : List (Txn × List RItem)) : Outcome (List RegEntry) :=
  Outcome.ofOption (registerLoop sel RegMap.empty stream)

/-- `reg_entry_txt_writer`: an entry without a listed posting is not written -/
def printedEntries (es : List RegEntry) : List RegEntry := es.filter (fun e => !e.rows.isEmpty)

/-- `convert_prices` without a report commodity: `(p.acctn.clone(), p.amount, None)` -/
def noConv (t : Txn) : List RItem := t.posts.map (fun p => ⟨p, p.comm, p.amount, none⟩)

def plainStream (txns : List Txn) : List (Txn × List RItem) := txns.map (fun t => (t, noConv t))

/-- the register report's entries without price conversion -/
def register (sel : RegRow → Bool) (txns : List Txn) : Outcome (List RegEntry) :=
  registerEngine sel (plainStream txns)

/-- `RegisterAllSelector` -/
def selAll : RegRow → Bool := fun _ => true

end Tackler

/-!
# Basic: three-valued outcome and list traversal

`Outcome` mirrors what a tackler library call can do on the modelled path:
* `ok a`   – the Rust function returns `Ok(a)`
* `err`    – the Rust function returns `Err(_)` (message text is not modelled)
* `undef`  – the input is outside the domain in which the model predicts the code
             (e.g. decimal arithmetic that `rust_decimal` would round or overflow);
             the correspondence check skips such cases, the oracles still apply.
-/
namespace Tackler

inductive Outcome (α : Type) where
  | ok (a : α)
  | err
  | undef
deriving Repr, DecidableEq

namespace Outcome

def bind {α β} (x : Outcome α) (f : α → Outcome β) : Outcome β :=
  match x with
  | .ok a => f a
  | .err => .err
  | .undef => .undef

def map {α β} (f : α → β) (x : Outcome α) : Outcome β :=
  match x with
  | .ok a => .ok (f a)
  | .err => .err
  | .undef => .undef

def isOk {α} : Outcome α → Bool
  | .ok _ => true
  | _ => false

def ofOption {α} : Option α → Outcome α
  | some a => .ok a
  | none => .undef

/-- outcome of an arithmetic step whose exact result is not representable: an error if the
    implementation reports an overflow for certain (checked arithmetic, fix of F6), otherwise outside
    the modelled domain (silent rounding, F17) -/
def inexact {α} (overflow : Bool) : Outcome α := if overflow then .err else .undef

theorem inexact_ne_ok {α} (b : Bool) (a : α) : (inexact b : Outcome α) ≠ .ok a := by
  unfold inexact; split <;> simp

theorem bind_ok {α β} (x : Outcome α) (f : α → Outcome β) (b : β) :
    x.bind f = .ok b ↔ ∃ a, x = .ok a ∧ f a = .ok b := by
  cases x <;> simp [bind]

theorem map_ok {α β} (x : Outcome α) (f : α → β) (b : β) :
    x.map f = .ok b ↔ ∃ a, x = .ok a ∧ f a = b := by
  cases x <;> simp [map]

end Outcome

/-- `Iterator::map(f).collect::<Result<Vec<_>,_>>()` with a state threaded through
    (the `&mut Settings` of the parser stream). -/
def mapMS {σ α β} (f : σ → α → Outcome (β × σ)) : σ → List α → Outcome (List β × σ)
  | s, [] => .ok ([], s)
  | s, a :: t =>
    match f s a with
    | .ok (b, s') =>
      (match mapMS f s' t with
       | .ok (bs, s'') => .ok (b :: bs, s'')
       | .err => .err
       | .undef => .undef)
    | .err => .err
    | .undef => .undef

theorem mapMS_ok {σ α β} (f : σ → α → Outcome (β × σ)) :
    ∀ (l : List α) (s s' : σ) (bs : List β), mapMS f s l = .ok (bs, s') →
      ∀ b ∈ bs, ∃ a ∈ l, ∃ s₁ s₂, f s₁ a = .ok (b, s₂) := by
  intro l
  induction l with
  | nil => intro s s' bs h; simp [mapMS] at h; obtain ⟨rfl, _⟩ := h; intro b hb; cases hb
  | cons a t ih =>
    intro s s' bs h b hb
    simp only [mapMS] at h
    split at h
    · rename_i b0 s1 hb0
      split at h
      · rename_i bs' s2 hbs'
        simp at h
        obtain ⟨rfl, rfl⟩ := h
        rcases List.mem_cons.mp hb with rfl | hb'
        · exact ⟨a, List.mem_cons_self, s, s1, hb0⟩
        · obtain ⟨a', ha', hf⟩ := ih s1 _ bs' hbs' b hb'
          exact ⟨a', List.mem_cons_of_mem _ ha', hf⟩
      · cases h
      · cases h
    · cases h
    · cases h

theorem mapMS_length {σ α β} (f : σ → α → Outcome (β × σ)) :
    ∀ (l : List α) (s s' : σ) (bs : List β), mapMS f s l = .ok (bs, s') → bs.length = l.length := by
  intro l
  induction l with
  | nil => intro s s' bs h; simp [mapMS] at h; simp [h.1]
  | cons a t ih =>
    intro s s' bs h
    simp only [mapMS] at h
    split at h
    · split at h
      · rename_i bs' s2 hbs'
        simp at h
        obtain ⟨rfl, rfl⟩ := h
        simp [ih _ _ _ hbs']
      · cases h
      · cases h
    · cases h
    · cases h

end Tackler

import TacklerModel.Model.Syntax
/-!
# Print: the identity export text

| here                         | Rust                                                                     |
|------------------------------|--------------------------------------------------------------------------|
| `rfc3339`                    | tackler-api/src/txn_ts.rs `rfc_3339` (`strtime` `%Y-%m-%dT%H:%M:%S%.f%:z`)  |
| `geoChars`                   | tackler-api/src/location.rs `Display for GeoPoint`                        |
| `headerL`                    | tackler-api/src/txn_header.rs `to_string_with_indent`                     |
| `postingCore`, `postingL`    | tackler-core/src/model/posting.rs `Display for Posting`                   |
| `txnL`                       | tackler-core/src/model/transaction.rs `Display for Transaction`           |
| `printL`, `identityExport`   | tackler-core/src/export/identity_exporter.rs `write_export`               |

The printers take a `Layout`; `Layout.identity` is what the Rust code prints (indent of three blanks, two
blanks before the amount, metadata in the order uuid / location / tags, no trailing blanks, `\n`, one
empty line after every transaction).  The other members of the family are used by C06 to state that the
parse result does not depend on the layout.

`Display for Posting` prints the unit price of an `@` posting as `txn_amount / amount`, a `rust_decimal`
division, which is not transliterated (650 lines): it is the parameter `div`, with the contract `DivExact`
(DESIGN.md §3.3).  The driver supplies `Dec.divQuot`, which implements the one case the identity path
needs — the divisor's coefficient divides the dividend's and the scale difference is not negative, where
`ops::div::div_impl` returns the integer quotient with the scale difference and does not re-scale — and
answers `none` (UNDEF) otherwise.
-/
namespace Tackler

namespace Dec

/-- `Decimal::div` where it is an exact integer division of the coefficients (`div_impl`: remainder 0 and
    non-negative scale difference ⇒ no scaling loop, no `unscale`); a zero dividend gives `ZERO` -/
def divQuot (t a : Dec) : Option Dec :=
  if a.coeff = 0 then none
  else if t.coeff = 0 then some zero
  else if a.scale ≤ t.scale ∧ t.coeff % a.coeff = 0 then
    some { neg := t.neg != a.neg, coeff := t.coeff / a.coeff, scale := t.scale - a.scale }
  else none

end Dec

namespace Print
open Syntax

/-- line layout of a printed journal -/
structure Layout where
  /-- indentation of metadata, comment and posting lines -/
  indent : List Char
  /-- between account and amount -/
  sep : List Char
  /-- blanks before the line ending of header, metadata and comment-less posting lines -/
  trail : List Char
  /-- line ending -/
  eol : List Char
  /-- order of the metadata lines: a permutation of `[0, 1, 2]` = uuid, location, tags -/
  metaOrder : List Nat
  /-- blank lines before the first transaction (each a run of blanks) -/
  lead : List (List Char)
  /-- blank lines after every transaction -/
  gap : List (List Char)

/-- what tackler prints -/
def Layout.identity : Layout :=
  { indent := [' ', ' ', ' '], sep := [' ', ' '], trail := [], eol := ['\n'], metaOrder := [0, 1, 2],
    lead := [], gap := [[]] }

/-! ### numbers and timestamps -/

/-- decimal digits of `n`, left-padded with `0` to width `w` -/
def pad (w n : Nat) : List Char := Dec.padLeft w (Nat.toDigits 10 n)

/-- remove a trailing run of characters satisfying `pred` -/
def dropEndWhile (pred : Char → Bool) : List Char → List Char
  | [] => []
  | c :: t =>
    match dropEndWhile pred t with
    | [] => if pred c then [] else [c]
    | d :: r => c :: d :: r

/-- `%.f`: nothing for a whole second, else `.` and the nanoseconds without trailing zeros -/
def fracChars (ns : Nat) : List Char :=
  if ns = 0 then [] else '.' :: dropEndWhile (fun c => c == '0') (pad 9 ns)

/-- `%:z`: `±HH:MM`, and `:SS` only for an offset with seconds (not re-parsable: F13) -/
def offsetChars (off : Int) : List Char :=
  (if off < 0 then ['-'] else ['+']) ++ pad 2 (off.natAbs / 3600) ++ [':'] ++ pad 2 (off.natAbs % 3600 / 60)
  ++ (if off.natAbs % 60 = 0 then [] else ':' :: pad 2 (off.natAbs % 60))

/-- `txn_ts::rfc_3339` of the instant at its own offset (years 0…9999) -/
def rfc3339 (ts : Ts) : List Char :=
  pad 4 (Time.civilAt ts.ns ts.offset).1.toNat ++ ['-'] ++ pad 2 (Time.civilAt ts.ns ts.offset).2.1 ++ ['-']
  ++ pad 2 (Time.civilAt ts.ns ts.offset).2.2.1 ++ ['T']
  ++ pad 2 (Time.civilAt ts.ns ts.offset).2.2.2.1 ++ [':'] ++ pad 2 (Time.civilAt ts.ns ts.offset).2.2.2.2.1 ++ [':']
  ++ pad 2 (Time.civilAt ts.ns ts.offset).2.2.2.2.2.1 ++ fracChars (Time.civilAt ts.ns ts.offset).2.2.2.2.2.2
  ++ offsetChars ts.offset

/-- `Display for GeoPoint` -/
def geoChars (g : Geo) : List Char :=
  "geo:".toList ++ g.lat.toChars ++ [','] ++ g.lon.toChars ++
  (match g.alt with
   | some a => ',' :: a.toChars
   | none => [])

/-! ### header -/

def codeChars : Option String → List Char
  | some c => " (".toList ++ c.toList ++ [')']
  | none => []

def descChars : Option String → List Char
  | some d => " '".toList ++ d.toList
  | none => []

/-- `t_to_s`: tags separated by `", "` -/
def tagsChars (tags : List String) : List Char := ", ".toList.intercalate (tags.map String.toList)

def metaLineChars (L : Layout) (key value : List Char) : List Char :=
  L.indent ++ "# ".toList ++ key ++ [' '] ++ value ++ L.trail ++ L.eol

def uuidLine (L : Layout) : Option String → List Char
  | some u => metaLineChars L "uuid:".toList u.toList
  | none => []

def locationLine (L : Layout) : Option Geo → List Char
  | some g => metaLineChars L "location:".toList (geoChars g)
  | none => []

def tagsLine (L : Layout) : Option (List String) → List Char
  | some t => metaLineChars L "tags:".toList (tagsChars t)
  | none => []

def metaItem (L : Layout) (h : Header) (i : Nat) : List Char :=
  if i = 0 then uuidLine L h.uuid else if i = 1 then locationLine L h.location else tagsLine L h.tags

def commentLine (L : Layout) (c : String) : List Char := L.indent ++ "; ".toList ++ c.toList ++ L.eol

def commentLines (L : Layout) : Option (List String) → List Char
  | some cs => (cs.map (commentLine L)).flatten
  | none => []

/-- `TxnHeader::to_string_with_indent` -/
def headerL (L : Layout) (h : Header) : List Char :=
  rfc3339 h.ts ++ codeChars h.code ++ descChars h.desc ++ L.trail ++ L.eol
  ++ (L.metaOrder.map (metaItem L h)).flatten
  ++ commentLines L h.comments

/-! ### postings -/

def acctChars (p : Path) : List Char := joinParts (p.map String.toList)

def commChars (c : String) : List Char := if c = "" then [] else ' ' :: c.toList

/-- the value position: nothing in the transaction's own commodity, `= total` or `@ txn_amount / amount` -/
def priceChars (div : Dec → Dec → Dec) (p : Posting) : List Char :=
  if p.txnComm = "" then []
  else if p.txnComm = p.comm then []
  else if p.isTotal then " = ".toList ++ p.txnAmount.toChars ++ [' '] ++ p.txnComm.toList
  else " @ ".toList ++ (div p.txnAmount p.amount).toChars ++ [' '] ++ p.txnComm.toList

def postCommentChars : Option String → List Char
  | some c => " ; ".toList ++ c.toList
  | none => []

/-- `Display for Posting` after the account -/
def postingValueChars (div : Dec → Dec → Dec) (p : Posting) : List Char :=
  (if p.amount.isNeg then [] else [' ']) ++ p.amount.toChars ++ commChars p.comm ++ priceChars div p

def trailFor (L : Layout) : Option String → List Char
  | some _ => []
  | none => L.trail

/-- one posting line -/
def postingL (L : Layout) (div : Dec → Dec → Dec) (p : Posting) : List Char :=
  L.indent ++ acctChars p.acct ++ L.sep ++ postingValueChars div p ++ postCommentChars p.comment
  ++ trailFor L p.comment ++ L.eol

def blankLines (L : Layout) (ls : List (List Char)) : List Char := (ls.map (· ++ L.eol)).flatten

/-- `Display for Transaction`, followed by the blank lines of the layout -/
def txnL (L : Layout) (div : Dec → Dec → Dec) (t : Txn) : List Char :=
  headerL L t.header ++ (t.posts.map (postingL L div)).flatten ++ blankLines L L.gap

/-- a journal in layout `L` -/
def printL (L : Layout) (div : Dec → Dec → Dec) (ts : List Txn) : List Char :=
  blankLines L L.lead ++ (ts.map (txnL L div)).flatten

/-- `IdentityExporter::write_export`: `writeln!("{txn}")` for every transaction -/
def identityExport (div : Dec → Dec → Dec) (ts : List Txn) : List Char := printL Layout.identity div ts

/-- the identity export with the driver's division; `none` when a unit price is outside `Dec.divQuot` -/
def identityExport? (ts : List Txn) : Option (List Char) :=
  if ts.all (fun t => t.posts.all (fun p =>
      p.txnComm = "" || p.txnComm = p.comm || p.isTotal || (Dec.divQuot p.txnAmount p.amount).isSome))
  then some (identityExport (fun t a => (Dec.divQuot t a).getD Dec.zero) ts)
  else none

end Print
end Tackler

import TacklerModel.Model.Basic
/-!
# Config: configuration file ⊕ command-line overlay

Transliteration of the configuration path of the `tackler` binary (`tackler-cli/src/main.rs`, `run`):

| Lean                          | Rust                                                                      |
|-------------------------------|---------------------------------------------------------------------------|
| `clapAccepts`                 | the `#[arg(..)]` attributes of `DefaultModeArgs` (cli_args.rs): possible values, `conflicts_with_all`, `requires`, `GitInputGroup` (`multiple = false`) |
| `getOverlaps`                 | `DefaultModeArgs::get_overlaps` (cli_args.rs)                              |
| `Lookup.parse` …              | `PriceLookupType::try_from`, `StorageType::from`, `ReportType::from`, `ExportType::from` (items.rs), `GroupBy::from` (txn_ts.rs) |
| `toReportTargets`/`toExportTargets` | `config::to_report_targets` / `to_export_targets` (config.rs)        |
| `getAbsPath`                  | `tackler_rs::get_abs_path`                                                 |
| `fsFrom`, `gitFrom`, `priceFrom`, `selFrom`, `configFrom` | `FS::from`, `Git::from`, `Price::try_from`, `get_account_selector`, `Config::from` (items.rs) |
| `innerGetOrCreateCommodity`   | `Settings::inner_get_or_create_commodity` (settings.rs)                    |
| `priceLookupFrom`             | the `match lookup_type` with `check_given_time_usage` in `Settings::try_from` |
| `settingsFrom`                | `Settings::try_from` (settings.rs)                                         |
| `getAccountSelector`          | `Settings::get_account_selector` and `get_{balance,balance_group,register,equity}_ras` |
| `getInputSettings`            | `Settings::get_input_settings`                                             |
| `getGitSelector`, `getInputType` | `DefaultModeArgs::get_git_selector`, `get_input_type` (cli_args.rs)     |
| `effective`                   | `run` up to and including `cli.get_input_type(&settings)?`                 |
| `selectsAll`                  | `ras.is_empty()` in `BalanceReporter::acc_selector`, `RegisterReporter::get_acc_selector`, `EquityExporter::get_acc_selector` |

The model is the tree **with the proposed fixes F15, F23, F24, F25 applied** (see `fixes/`):
* F15  – `get_overlaps` drops empty patterns from `--accounts` (so `--accounts ""` is "all accounts");
* F23 – the file's `report.commodity` is resolved only when `--report.commodity` is absent;
* F24 – `--input.fs.ext` strips one leading `.` exactly as `kernel.input.fs.suffix` does;
* F25 – `--input.fs.ext` conflicts with the `--input.git.*` options (as `--input.fs.dir` does). On the
  pinned tree clap waives "`ext` requires `dir`" when the missing `dir` conflicts with a present option
  (`Validator::is_missing_required_ok`), so `--input.fs.ext x --input.git.ref r` was accepted and `x` ignored.

What is *not* modelled (library code or other properties): TOML and clap decoding themselves, the
timestamp grammar (`Env.tsOk`), the price-db parser (`Env.dbOk`), identifier validity
(`Commodity::from`, `AccountTreeNode::from`: the model answers `undef` outside plain ASCII-letter names),
everything after the input has been chosen.
-/
namespace Tackler
namespace Config

/-! ### enumerations and their parsers -/

inductive Lookup where
  | none | lastPrice | txnTime | givenTime
deriving Repr, DecidableEq

/-- `PriceLookupType::try_from` -/
def Lookup.parse (s : String) : Option Lookup :=
  if s = "none" then some .none
  else if s = "last-price" then some .lastPrice
  else if s = "txn-time" then some .txnTime
  else if s = "given-time" then some .givenTime
  else Option.none

inductive Storage where
  | fs | git
deriving Repr, DecidableEq

/-- `StorageType::from` -/
def Storage.parse (s : String) : Option Storage :=
  if s = "fs" then some .fs else if s = "git" then some .git else none

inductive ReportT where
  | balance | balanceGroup | register
deriving Repr, DecidableEq

/-- `ReportType::from` -/
def ReportT.parse (s : String) : Option ReportT :=
  if s = "balance" then some .balance
  else if s = "balance-group" then some .balanceGroup
  else if s = "register" then some .register
  else none

inductive ExportT where
  | equity | identity
deriving Repr, DecidableEq

/-- `ExportType::from` -/
def ExportT.parse (s : String) : Option ExportT :=
  if s = "equity" then some .equity else if s = "identity" then some .identity else none

inductive GroupBy where
  | year | month | date | isoWeek | isoWeekDate
deriving Repr, DecidableEq

/-- `GroupBy::from` -/
def GroupBy.parse (s : String) : Option GroupBy :=
  if s = "iso-week-date" then some .isoWeekDate
  else if s = "iso-week" then some .isoWeek
  else if s = "date" then some .date
  else if s = "month" then some .month
  else if s = "year" then some .year
  else none

/-- `try_fold` over a target list: the first unknown name is an error -/
def mapParse {α} (p : String → Option α) : List String → Outcome (List α)
  | [] => .ok []
  | s :: t =>
    match p s with
    | none => .err
    | some a =>
      match mapParse p t with
      | .ok l => .ok (a :: l)
      | .err => .err
      | .undef => .undef

/-- `config::to_report_targets` -/
def toReportTargets (l : List String) : Outcome (List ReportT) := mapParse ReportT.parse l
/-- `config::to_export_targets` -/
def toExportTargets (l : List String) : Outcome (List ExportT) := mapParse ExportT.parse l

/-! ### the environment of a run -/

/-- What the run sees of the outside world. `cwd` and `cfgDir` are absolute directory names;
    `tsOk` = "`Settings::parse_timestamp` accepts this text" (grammar: not modelled here);
    `dbOk path strict` = "`parser::pricedb_from_file(path)` succeeds under this strict flag". -/
structure Env where
  cwd : String
  cfgDir : String
  tsOk : String → Bool
  dbOk : String → Bool → Bool

/-- `Path::is_absolute` (unix) -/
def isAbs (s : String) : Bool := s.toList.head? == some '/'

/-- `Path::join` with a relative right-hand side, textually -/
def joinPath (d p : String) : String := String.ofList (d.toList ++ '/' :: p.toList)

/-- `tackler_rs::get_abs_path(conf_path, p)`: absolute paths as they are, others relative to the
    directory of the (canonicalised) configuration file -/
def getAbsPath (env : Env) (p : String) : String := if isAbs p then p else joinPath env.cfgDir p

/-- a path given on the command line is handed to the OS as it is: relative to the working directory -/
def atCwd (env : Env) (p : String) : String := if isAbs p then p else joinPath env.cwd p

/-- `suffix.strip_prefix('.').unwrap_or(suffix)` -/
def stripDot (s : String) : String :=
  match s.toList with
  | '.' :: t => String.ofList t
  | _ => s

/-! ### the configuration file (raw values of the overridable keys, plus the context they are checked against) -/

structure FsCfg where
  path : Option String
  dir : String
  suffix : String
deriving Repr, DecidableEq

structure GitCfg where
  repo : Option String          -- new key
  repository : Option String    -- old key
  ref : String
  dir : String
  suffix : String
deriving Repr, DecidableEq

structure PriceCfg where
  dbPath : String
  lookupType : String
deriving Repr, DecidableEq

structure FileCfg where
  strict : Bool                               -- kernel.strict
  audit : Bool                                -- kernel.audit.mode
  storage : String                            -- kernel.input.storage
  fs : Option FsCfg                           -- kernel.input.fs
  git : Option GitCfg                         -- kernel.input.git
  price : Option PriceCfg                     -- [price]
  accounts : List String                      -- chart of accounts ([] for path = "none")
  commodities : List String                   -- chart of commodities
  permitEmpty : Bool                          -- path "none" ⇒ true, else the flag (default false)
  targets : List String                       -- report.targets
  selGlobal : Option (List String)            -- report.accounts
  commodity : Option String                   -- report.commodity
  selBalance : Option (List String)           -- report.balance.accounts
  selBalGrp : Option (List String)            -- report.balance-group.accounts
  selRegister : Option (List String)          -- report.register.accounts
  groupBy : String                            -- report.balance-group.group-by
  exportTargets : List String                 -- export.targets
  equityAccount : String                      -- export.equity.equity-account
  selEquity : Option (List String)            -- export.equity.accounts
deriving Repr, DecidableEq

/-- `DefaultModeArgs`: each option absent (`none`) or present with its value(s) -/
structure CliOpts where
  strict : Option Bool := none                 -- --strict.mode
  audit : Option Bool := none                  -- --audit.mode
  inputFile : Option String := none            -- --input.file
  inputStorage : Option String := none         -- --input.storage
  inputFsDir : Option String := none           -- --input.fs.dir
  inputFsExt : Option String := none           -- --input.fs.ext
  inputGitRepo : Option String := none         -- --input.git.repository
  inputGitRef : Option String := none          -- --input.git.ref
  inputGitCommit : Option String := none       -- --input.git.commit
  inputGitDir : Option String := none          -- --input.git.dir
  accounts : Option (List String) := none      -- --accounts
  reports : Option (List String) := none       -- --reports
  pricedb : Option String := none              -- --pricedb
  reportCommodity : Option String := none      -- --report.commodity
  lookupType : Option String := none           -- --price.lookup-type
  priceBefore : Option String := none          -- --price.before
  groupBy : Option String := none              -- --group-by
  exports : Option (List String) := none       -- --exports
deriving Repr, DecidableEq

/-! ### clap: what the declared attributes reject before `main` runs -/

def inSet (vals : List String) (o : Option String) : Bool :=
  match o with
  | none => true
  | some s => vals.contains s

/-- `num_args(1..)` + possible values -/
def listIn (vals : List String) (o : Option (List String)) : Bool :=
  match o with
  | none => true
  | some l => !l.isEmpty && l.all vals.contains

def gitAny (c : CliOpts) : Bool :=
  c.inputGitRepo.isSome || c.inputGitRef.isSome || c.inputGitCommit.isSome || c.inputGitDir.isSome

def fsAny (c : CliOpts) : Bool := c.inputFsDir.isSome || c.inputFsExt.isSome

/-- value parsers of the options -/
def clapValues (c : CliOpts) : Bool :=
  inSet ["fs", "git"] c.inputStorage &&
  listIn ["register", "balance", "balance-group"] c.reports &&
  listIn ["identity", "equity"] c.exports &&
  inSet ["year", "month", "date", "iso-week", "iso-week-date"] c.groupBy &&
  (match c.lookupType with | none => true | some s => (Lookup.parse s).isSome) &&
  (match c.accounts with | none => true | some l => !l.isEmpty)

/-- `conflicts_with_all` -/
def clapConflicts (c : CliOpts) : Bool :=
  (c.inputFile.isSome && (c.inputStorage.isSome || fsAny c || gitAny c)) ||
  (c.inputStorage.isSome && (fsAny c || gitAny c)) ||
  (c.inputFsDir.isSome && gitAny c) ||
  (c.inputFsExt.isSome && gitAny c) ||
  (c.inputGitRef.isSome && c.inputGitCommit.isSome)

/-- `requires`. (Clap does not report a missing required argument that conflicts with a present one; with
    the conflicts above every such case is a conflict error anyway, so the plain reading is exact.) -/
def clapRequires (c : CliOpts) : Bool :=
  (!c.inputFsDir.isSome || c.inputFsExt.isSome) &&
  (!c.inputFsExt.isSome || c.inputFsDir.isSome) &&
  (!c.inputGitRepo.isSome || (c.inputGitDir.isSome && (c.inputGitRef.isSome || c.inputGitCommit.isSome))) &&
  (!c.inputGitDir.isSome || c.inputGitRepo.isSome)

def clapAccepts (c : CliOpts) : Bool := clapValues c && !clapConflicts c && clapRequires c

/-! ### `get_overlaps` -/

structure Overlaps where
  auditMode : Option Bool
  strictMode : Option Bool
  dbPath : Option String
  lookupType : Option String      -- the clap value parser has already applied `PriceLookupType::try_from`
  beforeTime : Option String
  commodity : Option String
  accountOverlap : Option (List String)
  groupBy : Option String
  reports : Option (List String)
  exports : Option (List String)
deriving Repr, DecidableEq

/-- F15 (fixed): empty patterns are dropped, so `--accounts ""` is the empty selector list -/
def accountOverlapOf (a : Option (List String)) : Option (List String) :=
  match a with
  | none => none
  | some l => some (l.filter (fun s => s ≠ ""))

/-- `DefaultModeArgs::get_overlaps` -/
def getOverlaps (c : CliOpts) : Overlaps :=
  { auditMode := c.audit, strictMode := c.strict, dbPath := c.pricedb, lookupType := c.lookupType,
    beforeTime := c.priceBefore, commodity := c.reportCommodity,
    accountOverlap := accountOverlapOf c.accounts, groupBy := c.groupBy,
    reports := c.reports, exports := c.exports }

/-! ### `Config::from` -/

structure GitC where
  repo : String
  ref : String
  dir : String
  suffix : String
deriving Repr, DecidableEq

/-- `config::Config`, the part read on this path -/
structure Cfg where
  strict : Bool
  audit : Bool
  storage : Storage
  fs : Option (String × String)               -- dir, suffix
  git : Option GitC
  dbPath : String
  lookup : Lookup
  accounts : List String
  commodities : List String
  permitEmpty : Bool
  targets : List ReportT
  commodity : Option String
  selBalance : List String
  selBalGrp : List String
  selRegister : List String
  groupBy : GroupBy
  exportTargets : List ExportT
  equityAccount : String
  selEquity : List String
deriving Repr, DecidableEq

/-- `FS::from` -/
def fsFrom (r : FsCfg) : String × String :=
  match r.path with
  | some p => (String.ofList (p.toList ++ '/' :: r.dir.toList), r.suffix)
  | none => (r.dir, r.suffix)

/-- `Git::from` -/
def gitFrom (r : GitCfg) : Outcome GitC :=
  match r.repo with
  | some x => .ok ⟨x, r.ref, r.dir, r.suffix⟩
  | none =>
    match r.repository with
    | some x => .ok ⟨x, r.ref, r.dir, r.suffix⟩
    | none => .err

def gitOptFrom (g : Option GitCfg) : Outcome (Option GitC) :=
  match g with
  | none => .ok none
  | some r =>
    match gitFrom r with
    | .ok x => .ok (some x)
    | .err => .err
    | .undef => .undef

/-- `Price::try_from` (and `Price::default()` when the section is absent) -/
def priceFrom (env : Env) (p : Option PriceCfg) : Outcome (String × Lookup) :=
  match p with
  | none => .ok ("", .none)
  | some r =>
    match Lookup.parse r.lookupType with
    | none => .err
    | some lt =>
      if r.dbPath = "none" then (if lt = .none then .ok ("", .none) else .err)
      else .ok (getAbsPath env r.dbPath, lt)

/-- items.rs `get_account_selector`: the per-report list, else `report.accounts`, else empty -/
def selFrom (own : Option (List String)) (global : Option (List String)) : List String :=
  match own with
  | some av => av
  | none =>
    match global with
    | some av => av
    | none => []

/-- `Config::from` -/
def configFrom (env : Env) (f : FileCfg) : Outcome Cfg :=
  match Storage.parse f.storage, gitOptFrom f.git, priceFrom env f.price, toReportTargets f.targets,
        GroupBy.parse f.groupBy, toExportTargets f.exportTargets with
  | some st, .ok g, .ok (db, lt), .ok rts, some gb, .ok ets =>
    .ok { strict := f.strict, audit := f.audit, storage := st, fs := f.fs.map fsFrom, git := g,
          dbPath := db, lookup := lt, accounts := f.accounts, commodities := f.commodities,
          permitEmpty := f.permitEmpty, targets := rts, commodity := f.commodity,
          selBalance := selFrom f.selBalance f.selGlobal, selBalGrp := selFrom f.selBalGrp f.selGlobal,
          selRegister := selFrom f.selRegister f.selGlobal, groupBy := gb, exportTargets := ets,
          equityAccount := f.equityAccount, selEquity := selFrom f.selEquity f.selGlobal }
  | _, _, _, _, _, _ => .err

/-! ### `Settings::try_from` -/

inductive PriceLookup where
  | none | lastPriceDbEntry | atTheTimeOfTxn | givenTime (ts : String)
deriving Repr, DecidableEq

/-- `kernel::Settings`, the part this property is about -/
structure Sett where
  strict : Bool
  audit : Bool
  reports : List ReportT
  exports : List ExportT
  commodity : Option String
  lookup : Lookup
  priceLookup : PriceLookup
  priceDb : Option String                 -- the file that was loaded (`None`: `Price::default()`)
  groupBy : GroupBy
  globalAccSel : Option (List String)
deriving Repr, DecidableEq

/-- `inner_get_or_create_commodity(commodities, strict, Some(n))`, on names for which
    `Commodity::from` is known to succeed (checked by `namesSimple`); returns the chart afterwards -/
def innerGetOrCreateCommodity (comms : List String) (permitEmpty strict : Bool) (n : String) :
    Outcome (String × List String) :=
  if n = "" then
    if permitEmpty then (if comms.contains n then .ok (n, comms) else .ok (n, comms ++ [n]))
    else .err
  else if comms.contains n then .ok (n, comms)
  else if strict then .err
  else .ok (n, comms ++ [n])

/-- `cfg_rpt_commodity` then `report_commodity` of `try_from`. F23 (fixed): the file's commodity is
    resolved only when there is no overlap value. -/
def reportCommodityOf (cfg : Cfg) (strict : Bool) (ov : Option String) : Outcome (Option String) :=
  match ov with
  | some c =>
    match innerGetOrCreateCommodity cfg.commodities cfg.permitEmpty strict c with
    | .ok (n, _) => .ok (some n)
    | .err => .err
    | .undef => .undef
  | none =>
    match cfg.commodity with
    | none => .ok none
    | some c =>
      match innerGetOrCreateCommodity cfg.commodities cfg.permitEmpty strict c with
      | .ok (n, _) => .ok (some n)
      | .err => .err
      | .undef => .undef

/-- the `match lookup_type` of `try_from` with `check_given_time_usage` -/
def priceLookupFrom (env : Env) (lt : Lookup) (given : Option String) : Outcome PriceLookup :=
  match lt, given with
  | .lastPrice, none => .ok .lastPriceDbEntry
  | .lastPrice, some _ => .err
  | .txnTime, none => .ok .atTheTimeOfTxn
  | .txnTime, some _ => .err
  | .givenTime, some ts => if env.tsOk ts then .ok (.givenTime ts) else .err
  | .givenTime, none => .err
  | .none, none => .ok .none
  | .none, some _ => .err

/-- `overlaps.target.reports` / `cfg.report.targets` -/
def reportsOf (cfg : Cfg) (ov : Option (List String)) : Outcome (List ReportT) :=
  match ov with
  | some l => toReportTargets l
  | none => .ok cfg.targets

def exportsOf (cfg : Cfg) (ov : Option (List String)) : Outcome (List ExportT) :=
  match ov with
  | some l => toExportTargets l
  | none => .ok cfg.exportTargets

/-- `overlaps.price.lookup_type.unwrap_or(cfg.price.lookup_type)`; the overlap value was typed by clap -/
def lookupOf (cfg : Cfg) (ov : Option String) : Outcome Lookup :=
  match ov with
  | some s =>
    match Lookup.parse s with
    | some lt => .ok lt
    | none => .err
  | none => .ok cfg.lookup

def groupByOf (cfg : Cfg) (ov : Option String) : Outcome GroupBy :=
  match ov with
  | some s =>
    match GroupBy.parse s with
    | some g => .ok g
    | none => .err
  | none => .ok cfg.groupBy

/-- `overlaps.price.db_path.unwrap_or(cfg.price.db_path)` -/
def dbPathOf (env : Env) (cfg : Cfg) (ov : Option String) : String :=
  match ov with
  | some p => atCwd env p
  | none => cfg.dbPath

/-- `Settings::try_from(cfg, overlaps)` -/
def settingsFrom (env : Env) (cfg : Cfg) (ov : Overlaps) : Outcome Sett :=
  match reportsOf cfg ov.reports, exportsOf cfg ov.exports, lookupOf cfg ov.lookupType,
        reportCommodityOf cfg (ov.strictMode.getD cfg.strict) ov.commodity, groupByOf cfg ov.groupBy with
  | .ok reports, .ok exports, .ok lt, .ok rc, .ok gb =>
    if (ov.strictMode.getD cfg.strict) && exports.contains .equity && !cfg.accounts.contains cfg.equityAccount then .err
    else if rc.isNone && lt != .none then .err
    else
      match priceLookupFrom env lt ov.beforeTime with
      | .ok pl =>
        if lt = .none then
          .ok { strict := ov.strictMode.getD cfg.strict, audit := ov.auditMode.getD cfg.audit,
                reports := reports, exports := exports, commodity := rc, lookup := lt, priceLookup := pl,
                priceDb := none, groupBy := gb, globalAccSel := ov.accountOverlap }
        else if env.dbOk (dbPathOf env cfg ov.dbPath) (ov.strictMode.getD cfg.strict) then
          .ok { strict := ov.strictMode.getD cfg.strict, audit := ov.auditMode.getD cfg.audit,
                reports := reports, exports := exports, commodity := rc, lookup := lt, priceLookup := pl,
                priceDb := some (dbPathOf env cfg ov.dbPath), groupBy := gb, globalAccSel := ov.accountOverlap }
        else .err
      | .err => .err
      | .undef => .undef
  | _, _, _, _, _ => .err

/-- `Settings::get_account_selector` -/
def getAccountSelector (s : Sett) (accSel : List String) : List String :=
  match s.globalAccSel with
  | some g => g
  | none => accSel

/-- `ras.is_empty()` ⇒ the select-all selector (`BalanceReporter::acc_selector` and siblings) -/
def selectsAll (ras : List String) : Bool := ras.isEmpty

/-! ### which input -/

inductive GitSel where
  | commitId (id : String)
  | reference (r : String)
deriving Repr, DecidableEq

/-- `InputSettings` with the paths as the OS will resolve them -/
inductive Input where
  | file (path : String)
  | fs (dir : String) (suffix : String)
  | git (repo : String) (dir : String) (sel : GitSel) (ext : String)
deriving Repr, DecidableEq

def storageTypeOf (cfg : Cfg) (storage : Option String) : Option Storage :=
  match storage with
  | some s => Storage.parse s
  | none => some cfg.storage

/-- the `match storage_type` of `get_input_settings` -/
def inputOfStorage (env : Env) (cfg : Cfg) : Storage → Outcome Input
  | .fs =>
    match cfg.fs with
    | some (dir, suffix) => .ok (.fs (getAbsPath env dir) (stripDot suffix))
    | none => .err
  | .git =>
    match cfg.git with
    | some g => .ok (.git (getAbsPath env g.repo) g.dir (.reference g.ref) (stripDot g.suffix))
    | none => .err

/-- `Settings::get_input_settings(storage, Some(conf_path))` -/
def getInputSettings (env : Env) (cfg : Cfg) (storage : Option String) : Outcome Input :=
  match storageTypeOf cfg storage with
  | none => .err
  | some st => inputOfStorage env cfg st

/-- `get_git_selector`; both present is a `panic!` that clap's group excludes: outside the model -/
def getGitSelector (c : CliOpts) : Outcome (Option GitSel) :=
  match c.inputGitCommit, c.inputGitRef with
  | some commit, none => .ok (some (.commitId commit))
  | none, some r => .ok (some (.reference r))
  | none, none => .ok none
  | some _, some _ => .undef

/-- `DefaultModeArgs::get_input_type`. The `expect`s on clap's `requires` are `undef` (excluded by
    `clapAccepts`). F24 (fixed): the extension given on the command line is normalised like the file's. -/
def getInputType (env : Env) (cfg : Cfg) (c : CliOpts) : Outcome Input :=
  match getGitSelector c with
  | .err => .err
  | .undef => .undef
  | .ok gitSelector =>
    match c.inputFile with
    | some filename => .ok (.file (atCwd env filename))
    | none =>
      match c.inputFsDir with
      | some dir =>
        match c.inputFsExt with
        | some ext => .ok (.fs (atCwd env dir) (stripDot ext))
        | none => .undef
      | none =>
        match c.inputGitRepo with
        | some repo =>
          match gitSelector, c.inputGitDir with
          | some sel, some dir => .ok (.git (atCwd env repo) dir sel "txn")
          | _, _ => .undef
        | none =>
          match gitSelector with
          | some sel =>
            match getInputSettings env cfg (some "git") with
            | .ok (.git repo dir _ ext) => .ok (.git repo dir sel ext)
            | .ok _ => .err
            | .err => .err
            | .undef => .undef
          | none => getInputSettings env cfg c.inputStorage

/-! ### the whole path -/

/-- the effective configuration of a run: what every later stage reads -/
structure Effective where
  strict : Bool
  audit : Bool
  reports : List ReportT
  exports : List ExportT
  selBalance : List String
  selBalGrp : List String
  selRegister : List String
  selEquity : List String
  commodity : Option String
  lookup : Lookup
  priceLookup : PriceLookup
  priceDb : Option String
  groupBy : GroupBy
  input : Input
deriving Repr, DecidableEq

def isSimpleId (s : String) : Bool := !s.toList.isEmpty && s.toList.all Char.isAlpha

/-- `atStart`: the current `:`-separated component is still empty -/
def acctCharsOk : List Char → Bool → Bool
  | [], atStart => !atStart
  | ch :: t, atStart =>
    if ch = ':' then !atStart && acctCharsOk t true
    else ch.isAlpha && acctCharsOk t false

/-- non-empty components of ASCII letters separated by `:` -/
def isSimpleAccount (s : String) : Bool := acctCharsOk s.toList true

/-- the domain in which identifier validity (`Commodity::from`, `AccountTreeNode::from`) is known -/
def namesSimple (f : FileCfg) (c : CliOpts) : Bool :=
  f.accounts.all isSimpleAccount && f.commodities.all isSimpleId &&
  (match f.commodity with | none => true | some n => isSimpleId n) &&
  (match c.reportCommodity with | none => true | some n => isSimpleId n)

def mkEffective (cfg : Cfg) (s : Sett) (i : Input) : Effective :=
  { strict := s.strict, audit := s.audit, reports := s.reports, exports := s.exports,
    selBalance := getAccountSelector s cfg.selBalance, selBalGrp := getAccountSelector s cfg.selBalGrp,
    selRegister := getAccountSelector s cfg.selRegister, selEquity := getAccountSelector s cfg.selEquity,
    commodity := s.commodity, lookup := s.lookup, priceLookup := s.priceLookup, priceDb := s.priceDb,
    groupBy := s.groupBy, input := i }

/-- `run`: clap, `Config::from`, `Settings::try_from(cfg, cli.get_overlaps())`, `cli.get_input_type(&settings)` -/
def effective (env : Env) (f : FileCfg) (c : CliOpts) : Outcome Effective :=
  if !namesSimple f c then .undef
  else if !clapAccepts c then .err
  else
    match configFrom env f with
    | .err => .err
    | .undef => .undef
    | .ok cfg =>
      match settingsFrom env cfg (getOverlaps c) with
      | .err => .err
      | .undef => .undef
      | .ok s =>
        match getInputType env cfg c with
        | .err => .err
        | .undef => .undef
        | .ok i => .ok (mkEffective cfg s i)

/-! ### "the option's value written into the file" -/

/-- the options that have no configuration key: they stay on the command line -/
def CliOpts.residual (c : CliOpts) : CliOpts :=
  { inputFile := c.inputFile, inputGitCommit := c.inputGitCommit, priceBefore := c.priceBefore }

/-- the `[price]` section after writing `--pricedb` / `--price.lookup-type` into it -/
def priceWith (env : Env) (p : Option PriceCfg) (db : Option String) (lt : Option String) : Option PriceCfg :=
  match p, db, lt with
  | p, none, none => p
  | some r, db, lt => some ⟨(db.map (atCwd env)).getD r.dbPath, lt.getD r.lookupType⟩
  | none, db, lt => some ⟨(db.map (atCwd env)).getD "none", lt.getD "none"⟩

/-- `kernel.input.git` after writing `--input.git.repository/dir/ref` or a lone `--input.git.ref` into it -/
def gitWith (env : Env) (g : Option GitCfg) (c : CliOpts) : Option GitCfg :=
  match c.inputGitRepo, c.inputGitDir with
  | some repo, some dir =>
    some ⟨some (atCwd env repo), none, c.inputGitRef.getD ((g.map (·.ref)).getD "HEAD"), dir, "txn"⟩
  | _, _ =>
    match g, c.inputGitRef with
    | some r, some ref => some { r with ref := ref }
    | g, _ => g

def fsWith (env : Env) (fs : Option FsCfg) (c : CliOpts) : Option FsCfg :=
  match c.inputFsDir, c.inputFsExt with
  | some dir, some ext => some ⟨none, atCwd env dir, ext⟩
  | _, _ => fs

def storageWith (f : FileCfg) (c : CliOpts) : String :=
  match c.inputStorage with
  | some s => s
  | none =>
    if c.inputFsDir.isSome then "fs"
    else if c.inputGitRepo.isSome || c.inputGitRef.isSome || c.inputGitCommit.isSome then "git"
    else f.storage

/-- the configuration file with the value of every present option written into its key
    (a command-line selector list replaces the global list and removes the per-report ones;
    the documented empty selector is the empty list; command-line paths are written as the OS resolves them) -/
def FileCfg.withCli (env : Env) (f : FileCfg) (c : CliOpts) : FileCfg :=
  { f with
    strict := c.strict.getD f.strict
    audit := c.audit.getD f.audit
    storage := storageWith f c
    fs := fsWith env f.fs c
    git := gitWith env f.git c
    price := priceWith env f.price c.pricedb c.lookupType
    targets := c.reports.getD f.targets
    exportTargets := c.exports.getD f.exportTargets
    commodity := match c.reportCommodity with | some n => some n | none => f.commodity
    groupBy := c.groupBy.getD f.groupBy
    selGlobal := match accountOverlapOf c.accounts with | some l => some l | none => f.selGlobal
    selBalance := match c.accounts with | some _ => none | none => f.selBalance
    selBalGrp := match c.accounts with | some _ => none | none => f.selBalGrp
    selRegister := match c.accounts with | some _ => none | none => f.selRegister
    selEquity := match c.accounts with | some _ => none | none => f.selEquity }

end Config
end Tackler

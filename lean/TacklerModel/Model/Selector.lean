import TacklerModel.Model.Basic
import TacklerModel.Model.Regex
/-!
# Selector: account selectors of the balance / register reports and the equity export

| Lean                         | mirrors                                                                                   |
|------------------------------|-------------------------------------------------------------------------------------------|
| `effectiveSel`               | `get_account_selector` (tackler-core/src/config/items.rs): report's own list, else `report.accounts`, else `[]` |
| `accSelector`                | `BalanceReporter::acc_selector`, `RegisterReporter::get_acc_selector`, `EquityExporter::get_acc_selector` (the account part) |
| `AccSelector.eval`           | `BalanceAllSelector::eval`, `RegisterAllSelector::eval` (`true`); `BalanceByAccountSelector::eval`, `RegisterByAccountSelector::eval` (`self.regexs.is_match(account)`) |
| `equitySelEval`              | `BalanceNonZeroSelector::eval` (`!sum.is_zero()`), `BalanceNonZeroByAccountSelector::eval` (`!sum.is_zero() && acc_sel.eval`) |
| `selects`                    | the same predicate over the *meanings* of the configured patterns (specification level)   |

In all three places an **empty** pattern list does not build a regex set at all: balance and register
use the select-all selector, the equity export the select-all-non-zero selector.
When the regex crate rejects a wrapped pattern the Rust constructor fails; the model cannot tell
"rejected" from "outside the modelled subset", so `accSelector` answers `undef` in both cases.
-/
namespace Tackler

/-- `get_account_selector(acc_sel, report)` of the configuration layer -/
def effectiveSel (own global : Option (List String)) : List String :=
  match own with
  | some v => v
  | none =>
    match global with
    | some v => v
    | none => []

inductive AccSelector where
  | all
  | byAccount (set : List Regex)
deriving Repr, DecidableEq

/-- `if ras.is_empty() { All } else { ByAccount { regexs: new_full_haystack_regex_set(ras)? } }` -/
def accSelector (ras : List String) : Outcome AccSelector :=
  if ras.isEmpty then .ok .all
  else
    match Regex.newFullHaystackSet ras with
    | some set => .ok (.byAccount set)
    | none => .undef

def AccSelector.eval : AccSelector → String → Bool
  | .all, _ => true
  | .byAccount set, account => Regex.setIsMatch set account

/-- equity export: `BalanceNonZeroSelector` / `BalanceNonZeroByAccountSelector` -/
def equitySelEval (sel : AccSelector) (account : String) (sumIsZero : Bool) : Bool :=
  !sumIsZero && sel.eval account

/-- the selector predicate over pattern meanings: no pattern ⇒ everything; otherwise some pattern,
    wrapped as `^(?:r)$`, is found in the account name -/
def selects (rs : List Regex) (name : String) : Bool :=
  if rs.isEmpty then true else Regex.setIsMatch (rs.map Regex.wrapAst) name

end Tackler

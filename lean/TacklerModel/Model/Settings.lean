import TacklerModel.Model.Types
/-!
# Settings: charts of accounts / commodities / tags and the lookup-or-create functions

Mirrors `tackler-core/src/kernel/settings.rs`:
`AccountTrees::build_account_tree`, `AccountTrees::from`, `get_txn_account`,
`get_or_create_txn_account`, `inner_get_or_create_commodity`, `get_commodity`, `get_or_create_tag`.
Hash maps are modelled as duplicate-free key lists (only membership is ever observed).
-/
namespace Tackler

def insertNew {α} [DecidableEq α] (l : List α) (a : α) : List α := if a ∈ l then l else l ++ [a]

/-- `AccountTrees::build_account_tree(target, atn, other)`: add the missing ancestors of `p`
    to `target`, stopping at the first ancestor present in `target` or `other` (fuel = depth). -/
def buildAccountTree (other : List Path) : Nat → List Path → Path → List Path
  | 0, target, _ => target
  | fuel + 1, target, p =>
    if p.length ≤ 1 then target                       -- `atn.is_root()`
    else if parentPath p ∈ other ∨ parentPath p ∈ target then target
    else buildAccountTree other fuel (target ++ [parentPath p]) (parentPath p)

def buildParents (other : List Path) (target : List Path) (p : Path) : List Path :=
  buildAccountTree other p.length target p

/-- `AccountTrees::from(names, strict)`; in lax mode the missing parents of the declared accounts
    are created in the chart itself (fix of F9), in strict mode they are the synthetic parents. -/
def accountTreesFrom (names : List Path) (strict : Bool) : List Path × List Path :=
  let defined := names.foldl insertNew []
  if strict then
    (defined, defined.foldl (fun sap p => buildParents defined sap p) [])
  else
    (defined.foldl (fun acc p => buildParents [] acc p) defined, [])

namespace Settings

def ofConfig (strict audit permitEmpty : Bool) (accounts : List Path) (commodities tags : List String) :
    Settings :=
  let (defined, synth) := accountTreesFrom accounts strict
  { strict, audit, permitEmpty, accounts := defined, synthetic := synth,
    commodities := commodities.foldl insertNew [], tags := tags.foldl insertNew [] }

/-- `inner_get_or_create_commodity` -/
def getOrCreateCommodity (st : Settings) (name : Option String) : Outcome (String × Settings) :=
  match name with
  | none => .ok ("", st)
  | some n =>
    if n = "" then
      if st.permitEmpty then .ok ("", { st with commodities := insertNew st.commodities "" })
      else .err
    else if n ∈ st.commodities then .ok (n, st)
    else if st.strict then .err
    else .ok (n, { st with commodities := st.commodities ++ [n] })

/-- `get_commodity` -/
def getCommodity (st : Settings) (name : String) : Outcome String :=
  if name ∈ st.commodities then .ok name else .err

/-- `get_txn_account` (used by the balance kernel for gap parents) -/
def getTxnAccount (st : Settings) (p : Path) (comm : String) : Outcome (Path × String) :=
  if comm ∈ st.commodities then
    if p ∈ st.accounts then .ok (p, comm)
    else if p ∈ st.synthetic then .ok (p, comm)
    else .err
  else .err

/-- `get_or_create_txn_account` -/
def getOrCreateTxnAccount (st : Settings) (p : Path) (comm : String) : Outcome (Path × Settings) :=
  match getOrCreateCommodity st (some comm) with
  | .err => .err
  | .undef => .undef
  | .ok (_, st1) =>
    if p ∈ st1.accounts then
      if st1.strict then .ok (p, st1)
      else .ok (p, { st1 with accounts := buildParents [] st1.accounts p })
    else if st1.strict then .err
    else .ok (p, { st1 with accounts := buildParents [] (st1.accounts ++ [p]) p })

/-- `get_or_create_tag` -/
def getOrCreateTag (st : Settings) (name : String) : Outcome (String × Settings) :=
  if name = "" then .err
  else if name ∈ st.tags then .ok (name, st)
  else if st.strict then .err
  else .ok (name, { st with tags := st.tags ++ [name] })

end Settings
end Tackler

/-!
# Hash: the five digests of `kernel/hash.rs` and `Hash::checksum`

| Lean                      | mirrors                                                                  |
|---------------------------|--------------------------------------------------------------------------|
| `sha256`                  | `sha2::Sha256`      (FIPS 180-4 §6.2)                                    |
| `sha512`, `sha512_256`    | `sha2::Sha512`, `sha2::Sha512_256` (FIPS 180-4 §6.4, §6.7, IV §5.3.6.2)  |
| `sha3_256`, `sha3_512`    | `sha3::Sha3_256`, `sha3::Sha3_512` (FIPS 202: Keccak-f[1600], pad `01‖10*1`) |
| `Algo.ofName`             | `Hash::from` (five names, everything else is an error)                   |
| `checksum`                | `Hash::checksum` (every item is fed followed by the separator)           |

The digests are executable (`UInt32`/`UInt64` arithmetic) and carry no theorem of their own: they are
compared with `sha2`/`sha3` (through the implementation) and with python's `hashlib` on every run, and
with the FIPS example vectors at build time (`Props/C09.lean`).  `DynDigest::update` is taken to be
what its contract says: hashing the concatenation of everything fed.
-/
namespace Tackler
namespace Hash

abbrev Bytes := List UInt8

/-! ## helpers -/

/-- split into consecutive pieces of `n` elements (fuel = length) -/
def chunksAux {α} (n : Nat) : Nat → List α → List (List α)
  | 0, _ => []
  | fuel + 1, l =>
    match l with
    | [] => []
    | _ :: _ => l.take n :: chunksAux n fuel (l.drop n)

def chunks {α} (n : Nat) (l : List α) : List (List α) := chunksAux n l.length l

/-- big-endian `n`-byte encoding of `v` -/
def beBytes (n : Nat) (v : Nat) : Bytes :=
  (List.range n).map (fun i => UInt8.ofNat (v >>> (8 * (n - 1 - i))))

/-- Merkle–Damgård padding of SHA-2: `0x80`, zeros, message bit length in `lenBytes` bytes -/
def padMD (blockLen lenBytes : Nat) (msg : Bytes) : Bytes :=
  let l := msg.length
  let k := (blockLen - (l + 1 + lenBytes) % blockLen) % blockLen
  msg ++ [0x80] ++ List.replicate k 0 ++ beBytes lenBytes (l * 8)

/-! ## SHA-256 -/

def k256 : Array UInt32 := #[
  0x428a2f98, 0x71374491, 0xb5c0fbcf, 0xe9b5dba5, 0x3956c25b, 0x59f111f1, 0x923f82a4, 0xab1c5ed5,
  0xd807aa98, 0x12835b01, 0x243185be, 0x550c7dc3, 0x72be5d74, 0x80deb1fe, 0x9bdc06a7, 0xc19bf174,
  0xe49b69c1, 0xefbe4786, 0x0fc19dc6, 0x240ca1cc, 0x2de92c6f, 0x4a7484aa, 0x5cb0a9dc, 0x76f988da,
  0x983e5152, 0xa831c66d, 0xb00327c8, 0xbf597fc7, 0xc6e00bf3, 0xd5a79147, 0x06ca6351, 0x14292967,
  0x27b70a85, 0x2e1b2138, 0x4d2c6dfc, 0x53380d13, 0x650a7354, 0x766a0abb, 0x81c2c92e, 0x92722c85,
  0xa2bfe8a1, 0xa81a664b, 0xc24b8b70, 0xc76c51a3, 0xd192e819, 0xd6990624, 0xf40e3585, 0x106aa070,
  0x19a4c116, 0x1e376c08, 0x2748774c, 0x34b0bcb5, 0x391c0cb3, 0x4ed8aa4a, 0x5b9cca4f, 0x682e6ff3,
  0x748f82ee, 0x78a5636f, 0x84c87814, 0x8cc70208, 0x90befffa, 0xa4506ceb, 0xbef9a3f7, 0xc67178f2]

structure S256 where
  a : UInt32
  b : UInt32
  c : UInt32
  d : UInt32
  e : UInt32
  f : UInt32
  g : UInt32
  h : UInt32

def iv256 : S256 :=
  ⟨0x6a09e667, 0xbb67ae85, 0x3c6ef372, 0xa54ff53a, 0x510e527f, 0x9b05688c, 0x1f83d9ab, 0x5be0cd19⟩

def rotr32 (x : UInt32) (n : UInt32) : UInt32 := (x >>> n) ||| (x <<< (32 - n))

def be32 (b0 b1 b2 b3 : UInt8) : UInt32 :=
  (b0.toUInt32 <<< 24) ||| (b1.toUInt32 <<< 16) ||| (b2.toUInt32 <<< 8) ||| b3.toUInt32

def words32 : Bytes → List UInt32
  | b0 :: b1 :: b2 :: b3 :: t => be32 b0 b1 b2 b3 :: words32 t
  | _ => []

def bytes32 (w : UInt32) : Bytes :=
  [(w >>> 24).toUInt8, (w >>> 16).toUInt8, (w >>> 8).toUInt8, w.toUInt8]

def ssig0_32 (x : UInt32) : UInt32 := rotr32 x 7 ^^^ rotr32 x 18 ^^^ (x >>> 3)
def ssig1_32 (x : UInt32) : UInt32 := rotr32 x 17 ^^^ rotr32 x 19 ^^^ (x >>> 10)
def bsig0_32 (x : UInt32) : UInt32 := rotr32 x 2 ^^^ rotr32 x 13 ^^^ rotr32 x 22
def bsig1_32 (x : UInt32) : UInt32 := rotr32 x 6 ^^^ rotr32 x 11 ^^^ rotr32 x 25

/-- message schedule `W₀ … W₆₃` -/
def schedule256 (blk : List UInt32) : Array UInt32 :=
  (List.range 48).foldl (fun w j =>
    let i := j + 16
    w.push (ssig1_32 (w.getD (i - 2) 0) + w.getD (i - 7) 0 + ssig0_32 (w.getD (i - 15) 0) + w.getD (i - 16) 0))
    blk.toArray

def round256 (w : Array UInt32) (s : S256) (i : Nat) : S256 :=
  let t1 := s.h + bsig1_32 s.e + ((s.e &&& s.f) ^^^ (~~~s.e &&& s.g)) + k256.getD i 0 + w.getD i 0
  let t2 := bsig0_32 s.a + ((s.a &&& s.b) ^^^ (s.a &&& s.c) ^^^ (s.b &&& s.c))
  ⟨t1 + t2, s.a, s.b, s.c, s.d + t1, s.e, s.f, s.g⟩

def compress256 (h : S256) (blk : Bytes) : S256 :=
  let w := schedule256 (words32 blk)
  let s := (List.range 64).foldl (round256 w) h
  ⟨h.a + s.a, h.b + s.b, h.c + s.c, h.d + s.d, h.e + s.e, h.f + s.f, h.g + s.g, h.h + s.h⟩

def sha256 (msg : Bytes) : Bytes :=
  let s := (chunks 64 (padMD 64 8 msg)).foldl compress256 iv256
  [s.a, s.b, s.c, s.d, s.e, s.f, s.g, s.h].flatMap bytes32

/-! ## SHA-512 and SHA-512/256 -/

def k512 : Array UInt64 := #[
  0x428a2f98d728ae22, 0x7137449123ef65cd, 0xb5c0fbcfec4d3b2f, 0xe9b5dba58189dbbc,
  0x3956c25bf348b538, 0x59f111f1b605d019, 0x923f82a4af194f9b, 0xab1c5ed5da6d8118,
  0xd807aa98a3030242, 0x12835b0145706fbe, 0x243185be4ee4b28c, 0x550c7dc3d5ffb4e2,
  0x72be5d74f27b896f, 0x80deb1fe3b1696b1, 0x9bdc06a725c71235, 0xc19bf174cf692694,
  0xe49b69c19ef14ad2, 0xefbe4786384f25e3, 0x0fc19dc68b8cd5b5, 0x240ca1cc77ac9c65,
  0x2de92c6f592b0275, 0x4a7484aa6ea6e483, 0x5cb0a9dcbd41fbd4, 0x76f988da831153b5,
  0x983e5152ee66dfab, 0xa831c66d2db43210, 0xb00327c898fb213f, 0xbf597fc7beef0ee4,
  0xc6e00bf33da88fc2, 0xd5a79147930aa725, 0x06ca6351e003826f, 0x142929670a0e6e70,
  0x27b70a8546d22ffc, 0x2e1b21385c26c926, 0x4d2c6dfc5ac42aed, 0x53380d139d95b3df,
  0x650a73548baf63de, 0x766a0abb3c77b2a8, 0x81c2c92e47edaee6, 0x92722c851482353b,
  0xa2bfe8a14cf10364, 0xa81a664bbc423001, 0xc24b8b70d0f89791, 0xc76c51a30654be30,
  0xd192e819d6ef5218, 0xd69906245565a910, 0xf40e35855771202a, 0x106aa07032bbd1b8,
  0x19a4c116b8d2d0c8, 0x1e376c085141ab53, 0x2748774cdf8eeb99, 0x34b0bcb5e19b48a8,
  0x391c0cb3c5c95a63, 0x4ed8aa4ae3418acb, 0x5b9cca4f7763e373, 0x682e6ff3d6b2b8a3,
  0x748f82ee5defb2fc, 0x78a5636f43172f60, 0x84c87814a1f0ab72, 0x8cc702081a6439ec,
  0x90befffa23631e28, 0xa4506cebde82bde9, 0xbef9a3f7b2c67915, 0xc67178f2e372532b,
  0xca273eceea26619c, 0xd186b8c721c0c207, 0xeada7dd6cde0eb1e, 0xf57d4f7fee6ed178,
  0x06f067aa72176fba, 0x0a637dc5a2c898a6, 0x113f9804bef90dae, 0x1b710b35131c471b,
  0x28db77f523047d84, 0x32caab7b40c72493, 0x3c9ebe0a15c9bebc, 0x431d67c49c100d4c,
  0x4cc5d4becb3e42b6, 0x597f299cfc657e2a, 0x5fcb6fab3ad6faec, 0x6c44198c4a475817]

structure S512 where
  a : UInt64
  b : UInt64
  c : UInt64
  d : UInt64
  e : UInt64
  f : UInt64
  g : UInt64
  h : UInt64

def iv512 : S512 :=
  ⟨0x6a09e667f3bcc908, 0xbb67ae8584caa73b, 0x3c6ef372fe94f82b, 0xa54ff53a5f1d36f1,
   0x510e527fade682d1, 0x9b05688c2b3e6c1f, 0x1f83d9abfb41bd6b, 0x5be0cd19137e2179⟩

/-- FIPS 180-4 §5.3.6.2 -/
def iv512_256 : S512 :=
  ⟨0x22312194fc2bf72c, 0x9f555fa3c84c64c2, 0x2393b86b6f53b151, 0x963877195940eabd,
   0x96283ee2a88effe3, 0xbe5e1e2553863992, 0x2b0199fc2c85b8aa, 0x0eb72ddc81c52ca2⟩

def rotr64 (x : UInt64) (n : UInt64) : UInt64 := (x >>> n) ||| (x <<< (64 - n))
def rotl64 (x : UInt64) (n : UInt64) : UInt64 := (x <<< n) ||| (x >>> (64 - n))

def be64 (b0 b1 b2 b3 b4 b5 b6 b7 : UInt8) : UInt64 :=
  (b0.toUInt64 <<< 56) ||| (b1.toUInt64 <<< 48) ||| (b2.toUInt64 <<< 40) ||| (b3.toUInt64 <<< 32) |||
  (b4.toUInt64 <<< 24) ||| (b5.toUInt64 <<< 16) ||| (b6.toUInt64 <<< 8) ||| b7.toUInt64

def words64 : Bytes → List UInt64
  | b0 :: b1 :: b2 :: b3 :: b4 :: b5 :: b6 :: b7 :: t => be64 b0 b1 b2 b3 b4 b5 b6 b7 :: words64 t
  | _ => []

def bytes64 (w : UInt64) : Bytes :=
  [(w >>> 56).toUInt8, (w >>> 48).toUInt8, (w >>> 40).toUInt8, (w >>> 32).toUInt8,
   (w >>> 24).toUInt8, (w >>> 16).toUInt8, (w >>> 8).toUInt8, w.toUInt8]

def ssig0_64 (x : UInt64) : UInt64 := rotr64 x 1 ^^^ rotr64 x 8 ^^^ (x >>> 7)
def ssig1_64 (x : UInt64) : UInt64 := rotr64 x 19 ^^^ rotr64 x 61 ^^^ (x >>> 6)
def bsig0_64 (x : UInt64) : UInt64 := rotr64 x 28 ^^^ rotr64 x 34 ^^^ rotr64 x 39
def bsig1_64 (x : UInt64) : UInt64 := rotr64 x 14 ^^^ rotr64 x 18 ^^^ rotr64 x 41

def schedule512 (blk : List UInt64) : Array UInt64 :=
  (List.range 64).foldl (fun w j =>
    let i := j + 16
    w.push (ssig1_64 (w.getD (i - 2) 0) + w.getD (i - 7) 0 + ssig0_64 (w.getD (i - 15) 0) + w.getD (i - 16) 0))
    blk.toArray

def round512 (w : Array UInt64) (s : S512) (i : Nat) : S512 :=
  let t1 := s.h + bsig1_64 s.e + ((s.e &&& s.f) ^^^ (~~~s.e &&& s.g)) + k512.getD i 0 + w.getD i 0
  let t2 := bsig0_64 s.a + ((s.a &&& s.b) ^^^ (s.a &&& s.c) ^^^ (s.b &&& s.c))
  ⟨t1 + t2, s.a, s.b, s.c, s.d + t1, s.e, s.f, s.g⟩

def compress512 (h : S512) (blk : Bytes) : S512 :=
  let w := schedule512 (words64 blk)
  let s := (List.range 80).foldl (round512 w) h
  ⟨h.a + s.a, h.b + s.b, h.c + s.c, h.d + s.d, h.e + s.e, h.f + s.f, h.g + s.g, h.h + s.h⟩

def sha512With (iv : S512) (msg : Bytes) : Bytes :=
  let s := (chunks 128 (padMD 128 16 msg)).foldl compress512 iv
  [s.a, s.b, s.c, s.d, s.e, s.f, s.g, s.h].flatMap bytes64

def sha512 (msg : Bytes) : Bytes := sha512With iv512 msg

/-- SHA-512/256: its own initial value, output truncated to 256 bits -/
def sha512_256 (msg : Bytes) : Bytes := (sha512With iv512_256 msg).take 32

/-! ## SHA-3 (Keccak-f[1600]); lane `(x, y)` is at index `x + 5·y` -/

def keccakRC : Array UInt64 := #[
  0x0000000000000001, 0x0000000000008082, 0x800000000000808a, 0x8000000080008000,
  0x000000000000808b, 0x0000000080000001, 0x8000000080008081, 0x8000000000008009,
  0x000000000000008a, 0x0000000000000088, 0x0000000080008009, 0x000000008000000a,
  0x000000008000808b, 0x800000000000008b, 0x8000000000008089, 0x8000000000008003,
  0x8000000000008002, 0x8000000000000080, 0x000000000000800a, 0x800000008000000a,
  0x8000000080008081, 0x8000000000008080, 0x0000000080000001, 0x8000000080008008]

/-- rotation offsets of ρ -/
def keccakRot : Array UInt64 := #[
  0, 1, 62, 28, 27,
  36, 44, 6, 55, 20,
  3, 10, 43, 25, 39,
  41, 45, 15, 21, 8,
  18, 2, 61, 56, 14]

def lane (a : Array UInt64) (x y : Nat) : UInt64 := a.getD (x % 5 + 5 * (y % 5)) 0

def keccakRound (a : Array UInt64) (rc : UInt64) : Array UInt64 :=
  -- θ
  let c := (Array.range 5).map (fun x => lane a x 0 ^^^ lane a x 1 ^^^ lane a x 2 ^^^ lane a x 3 ^^^ lane a x 4)
  let d := (Array.range 5).map (fun x => c.getD ((x + 4) % 5) 0 ^^^ rotl64 (c.getD ((x + 1) % 5) 0) 1)
  let a1 := (Array.range 25).map (fun i => a.getD i 0 ^^^ d.getD (i % 5) 0)
  -- ρ and π: B[y, 2x+3y] = rot(A[x, y]);  read backwards: B[X, Y] comes from x = (X + 3Y) mod 5, y = X
  let b := (Array.range 25).map (fun i =>
    let bx := i % 5
    let by' := i / 5
    let x := (bx + 3 * by') % 5
    let y := bx
    rotl64 (lane a1 x y) (keccakRot.getD (x + 5 * y) 0))
  -- χ
  let a2 := (Array.range 25).map (fun i =>
    let x := i % 5
    let y := i / 5
    lane b x y ^^^ (~~~(lane b (x + 1) y) &&& lane b (x + 2) y))
  -- ι
  a2.set! 0 (a2.getD 0 0 ^^^ rc)

def keccakF (a : Array UInt64) : Array UInt64 := keccakRC.foldl keccakRound a

def le64 (b0 b1 b2 b3 b4 b5 b6 b7 : UInt8) : UInt64 := be64 b7 b6 b5 b4 b3 b2 b1 b0

def lanesLE : Bytes → List UInt64
  | b0 :: b1 :: b2 :: b3 :: b4 :: b5 :: b6 :: b7 :: t => le64 b0 b1 b2 b3 b4 b5 b6 b7 :: lanesLE t
  | _ => []

def bytesLE (w : UInt64) : Bytes := (bytes64 w).reverse

/-- SHA-3 padding: domain bits `01`, then `10*1`, to a multiple of the rate -/
def padSha3 (rate : Nat) (msg : Bytes) : Bytes :=
  let k := rate - msg.length % rate          -- 1 ≤ k ≤ rate bytes of padding
  if k = 1 then msg ++ [0x86]
  else msg ++ [0x06] ++ List.replicate (k - 2) 0 ++ [0x80]

def absorb (st : Array UInt64) (blk : Bytes) : Array UInt64 :=
  let ls := (lanesLE blk).toArray
  keccakF ((Array.range 25).map (fun i => st.getD i 0 ^^^ ls.getD i 0))

def sha3 (rate outLen : Nat) (msg : Bytes) : Bytes :=
  let st := (chunks rate (padSha3 rate msg)).foldl absorb (Array.replicate 25 0)
  (st.toList.flatMap bytesLE).take outLen

def sha3_256 (msg : Bytes) : Bytes := sha3 136 32 msg
def sha3_512 (msg : Bytes) : Bytes := sha3 72 64 msg

/-! ## hex text, algorithm selection, `Hash::checksum` -/

def hexDigit (n : UInt8) : Char :=
  if n < 10 then Char.ofNat (48 + n.toNat) else Char.ofNat (87 + n.toNat)

/-- `{b:02x}` -/
def hexByte (b : UInt8) : List Char := [hexDigit (b >>> 4), hexDigit (b &&& 15)]

def hexChars (bs : Bytes) : List Char := bs.flatMap hexByte

def hex (bs : Bytes) : String := String.ofList (hexChars bs)

inductive Algo where
  | sha256
  | sha512
  | sha512_256
  | sha3_256
  | sha3_512
deriving Repr, DecidableEq

namespace Algo

def name : Algo → String
  | sha256 => "SHA-256"
  | sha512 => "SHA-512"
  | sha512_256 => "SHA-512/256"
  | sha3_256 => "SHA3-256"
  | sha3_512 => "SHA3-512"

/-- `Hash::from`: `None` stands for `Err("Unsupported hash algorithm")` -/
def ofName (s : String) : Option Algo :=
  if s = "SHA-256" then some sha256
  else if s = "SHA-512" then some sha512
  else if s = "SHA-512/256" then some sha512_256
  else if s = "SHA3-256" then some sha3_256
  else if s = "SHA3-512" then some sha3_512
  else none

def digest : Algo → Bytes → Bytes
  | sha256 => Hash.sha256
  | sha512 => Hash.sha512
  | sha512_256 => Hash.sha512_256
  | sha3_256 => Hash.sha3_256
  | sha3_512 => Hash.sha3_512

end Algo

/-- `tackler_api::metadata::Checksum` -/
structure Checksum where
  algorithm : String
  value : String
deriving Repr, DecidableEq

/-- `str::as_bytes` -/
def strBytes (s : String) : Bytes := s.toUTF8.data.toList

/-- what `Hash::checksum` feeds to the hasher: `for i in items { update(i); update(separator) }` –
    the separator follows **every** item (also the last one) -/
def fed (items : List String) (sep : Bytes) : Bytes := items.flatMap (fun i => strBytes i ++ sep)

/-- `Hash::checksum` (its `Result` is always `Ok`) -/
def checksum (alg : Algo) (items : List String) (sep : Bytes) : Checksum :=
  ⟨alg.name, hex (alg.digest (fed items sep))⟩

end Hash
end Tackler

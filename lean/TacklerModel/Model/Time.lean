import TacklerModel.Model.Types
/-!
# Time: civil calendar arithmetic and the timestamp token → instant resolution

Mirrors what tackler uses of `jiff`: proleptic Gregorian civil dates (years −9999…9999),
`civil::Time` (00:00:00 … 23:59:59.999999999), fixed UTC offsets, and
`parse_timestamp` (timestamp.rs) + `get_offset_datetime` / `get_offset_date` (settings.rs):
the three notations `date`, `date T time[.frac]`, `date T time[.frac] (Z | ±HH:MM)`.
Named zones are data (transition tables) and are not in this file.
-/
namespace Tackler
namespace Time

def isLeap (y : Int) : Bool := (y % 4 == 0 && y % 100 != 0) || y % 400 == 0

def daysInMonth (y : Int) (m : Nat) : Nat :=
  match m with
  | 1 => 31 | 2 => if isLeap y then 29 else 28 | 3 => 31 | 4 => 30 | 5 => 31 | 6 => 30
  | 7 => 31 | 8 => 31 | 9 => 30 | 10 => 31 | 11 => 30 | 12 => 31
  | _ => 0

/-- days since 1970-01-01 of a proleptic Gregorian civil date (H. Hinnant's `days_from_civil`) -/
def daysFromCivil (y : Int) (m d : Nat) : Int :=
  let y' : Int := if m ≤ 2 then y - 1 else y
  let era : Int := (if y' ≥ 0 then y' else y' - 399) / 400
  let yoe : Int := y' - era * 400
  let mp : Int := if m > 2 then (m : Int) - 3 else (m : Int) + 9
  let doy : Int := (153 * mp + 2) / 5 + (d : Int) - 1
  let doe : Int := yoe * 365 + yoe / 4 - yoe / 100 + doy
  era * 146097 + doe - 719468

/-- inverse: civil date (y, m, d) of a day number (Hinnant's `civil_from_days`) -/
def civilFromDays (z0 : Int) : Int × Nat × Nat :=
  let z := z0 + 719468
  let era : Int := (if z ≥ 0 then z else z - 146096) / 146097
  let doe : Int := z - era * 146097
  let yoe : Int := (doe - doe / 1460 + doe / 36524 - doe / 146096) / 365
  let y : Int := yoe + era * 400
  let doy : Int := doe - (365 * yoe + yoe / 4 - yoe / 100)
  let mp : Int := (5 * doy + 2) / 153
  let d : Int := doy - (153 * mp + 2) / 5 + 1
  let m : Int := if mp < 10 then mp + 3 else mp - 9
  (if m ≤ 2 then y + 1 else y, m.toNat, d.toNat)

/-- the lexical content of a timestamp (all fields are digit runs of the fixed widths of the grammar) -/
structure TsToken where
  year : Nat
  month : Nat
  day : Nat
  /-- hour, minute, second, fraction digits (1–9 of them) -/
  time : Option (Nat × Nat × Nat × Option (List Char))
  /-- `none`: no zone; `some none`: `Z`; `some (some (neg, hh, mm))`: `±hh:mm` -/
  zone : Option (Option (Bool × Nat × Nat))
deriving Repr, DecidableEq

/-- `kernel.timestamp` of the configuration, for a fixed-offset journal zone -/
structure TsCfg where
  offset : Int                       -- seconds east of UTC
  defaultTime : Nat × Nat × Nat × Nat   -- h, m, s, ns
deriving Repr, DecidableEq

def utcCfg : TsCfg := ⟨0, (0, 0, 0, 0)⟩

/-- `jiff::civil::Date::new` -/
def dateOk (y m d : Nat) : Bool := decide (y ≤ 9999) && decide (1 ≤ m ∧ m ≤ 12) && decide (1 ≤ d ∧ d ≤ daysInMonth y m)

/-- `jiff::civil::Time::new` (no leap second) -/
def timeOk (h mi s : Nat) : Bool := decide (h ≤ 23 ∧ mi ≤ 59 ∧ s ≤ 59)

/-- `handle_time`: `k` fraction digits scale to nanoseconds -/
def fracNs (digits : List Char) : Nat := Dec.digitsVal digits * 10 ^ (9 - digits.length)

/-- `jiff::tz::Offset::from_seconds`: |offset| ≤ 25:59:59 -/
def offsetOk (secs : Int) : Bool := decide (-93599 ≤ secs ∧ secs ≤ 93599)

def civilNs (y m d h mi s ns : Nat) : Int :=
  ((daysFromCivil y m d * 86400 + (h * 3600 + mi * 60 + s : Nat)) * 1000000000) + ns

/-- jiff's `Timestamp` range (−9999-01-01T00:00:00Z … 9999-12-31T23:59:59.999999999Z, minus the offset slack
    jiff keeps): instants outside are errors of `to_zoned` -/
def instantOk (ns : Int) : Bool :=
  decide (-377705023201 * 1000000000 ≤ ns ∧ ns ≤ 253402207200 * 1000000000 + 999999999)

/-- `parse_timestamp` after lexing: token → instant + written offset -/
def resolveTs (cfg : TsCfg) (t : TsToken) : Outcome Ts :=
  if !dateOk t.year t.month t.day then .err else
  match t.time with
  | none =>
    match t.zone with
    | some _ => .err       -- the grammar has no `date zone`
    | none =>
      let (h, mi, s, ns) := cfg.defaultTime
      let inst := civilNs t.year t.month t.day h mi s ns - cfg.offset * 1000000000
      if instantOk inst then .ok ⟨inst, cfg.offset⟩ else .err
  | some (h, mi, s, frac) =>
    if !timeOk h mi s then .err else
    let ns := match frac with
      | some ds => fracNs ds
      | none => 0
    match t.zone with
    | none =>
      let inst := civilNs t.year t.month t.day h mi s ns - cfg.offset * 1000000000
      if instantOk inst then .ok ⟨inst, cfg.offset⟩ else .err
    | some none =>
      let inst := civilNs t.year t.month t.day h mi s ns
      if instantOk inst then .ok ⟨inst, 0⟩ else .err
    | some (some (neg, hh, mm)) =>
      let off : Int := (if neg then -1 else 1) * ((hh * 3600 + mm * 60 : Nat) : Int)
      if !offsetOk off then .err else
      let inst := civilNs t.year t.month t.day h mi s ns - off * 1000000000
      if instantOk inst then .ok ⟨inst, off⟩ else .err

/-- civil fields of an instant seen at a fixed offset: (year, month, day, hour, minute, second, ns) -/
def civilAt (ns : Int) (offset : Int) : Int × Nat × Nat × Nat × Nat × Nat × Nat :=
  let loc : Int := ns + offset * 1000000000
  let secs : Int := loc / 1000000000          -- `Int./` rounds toward −∞ for a positive divisor
  let sub : Int := loc - secs * 1000000000
  let days : Int := secs / 86400
  let sod : Int := secs - days * 86400
  let (y, m, d) := civilFromDays days
  (y, m, d, (sod / 3600).toNat, ((sod % 3600) / 60).toNat, (sod % 60).toNat, sub.toNat)

end Time
end Tackler

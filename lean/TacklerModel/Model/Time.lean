import TacklerModel.Model.Types
/-!
# Time: civil calendar arithmetic, timestamp token → instant resolution, display texts

Mirrors what tackler uses of `jiff` 0.2.5: proleptic Gregorian civil dates (years −9999…9999),
`civil::Time` (00:00:00 … 23:59:59.999999999), fixed UTC offsets (|offset| ≤ 25:59:59), and

| Lean                         | Rust                                                                              |
|------------------------------|-----------------------------------------------------------------------------------|
| `lexTs`                      | the three-way grammar of `parser/parts/timestamp.rs` (`p_date`, `p_datetime`, `p_offset`, `p_zulu_or_offset`) under `Settings::parse_timestamp` (whole input must be consumed) |
| `dateOk`, `timeOk`, `offsetOk`, `instantOk` | `civil::Date::new`, `civil::Time::new`, `tz::Offset::from_seconds`, the range of `jiff::Timestamp` |
| `fracNs`                     | `handle_time` (k fraction digits scale to nanoseconds)                            |
| `resolveTs`                  | `parse_datetime_tz`, `parse_datetime` + `Settings::get_offset_datetime`, `parse_date` + `Settings::get_offset_date` for a fixed-offset journal zone |
| `resolveTsZ`, `resolveLocal` | the same for a named journal zone given as *data* (`ZoneTable`, exported from jiff), with jiff's "compatible" disambiguation of `DateTime::to_zoned` |
| `civilAt`                    | `Zoned::with_time_zone` followed by reading the civil fields                      |
| `fmtDate` … `rfc3339`        | `tackler_api::txn_ts`: `fmt_date`, `fmt_month`, `fmt_year`, `fmt_week`, `fmt_week_date`, `fmt_seconds`, `fmt_full`, `rfc_3339`, `seconds_tz`, `full_tz` (the `as_tz_*`/`as_utc_*` functions are these at the report zone's offset) |
| `isoWeekDate`                | `civil::Date::iso_week_date`                                                      |

All integer divisions below are `Int./` and `Int.%` of core Lean (`Int.ediv`/`Int.emod`): for a positive divisor they
round toward −∞ and the remainder is non-negative.
-/
namespace Tackler
namespace Time

def isLeap (y : Int) : Bool := (y % 4 == 0 && y % 100 != 0) || y % 400 == 0

def daysInMonth (y : Int) (m : Nat) : Nat :=
  match m with
  | 1 => 31 | 2 => if isLeap y then 29 else 28 | 3 => 31 | 4 => 30 | 5 => 31 | 6 => 30
  | 7 => 31 | 8 => 31 | 9 => 30 | 10 => 31 | 11 => 30 | 12 => 31
  | _ => 0

/-- days since 1970-01-01 of a proleptic Gregorian civil date (H. Hinnant's `days_from_civil`, written with
    floor division, so it is right for every year, also negative ones) -/
def daysFromCivil (y : Int) (m d : Nat) : Int :=
  let y' : Int := if m ≤ 2 then y - 1 else y
  let era : Int := y' / 400
  let yoe : Int := y' - era * 400
  let mp : Int := if m > 2 then (m : Int) - 3 else (m : Int) + 9
  let doy : Int := (153 * mp + 2) / 5 + (d : Int) - 1
  let doe : Int := yoe * 365 + yoe / 4 - yoe / 100 + doy
  era * 146097 + doe - 719468

/-- inverse: civil date (y, m, d) of a day number (Hinnant's `civil_from_days`, floor division) -/
def civilFromDays (z0 : Int) : Int × Nat × Nat :=
  let z := z0 + 719468
  let era : Int := z / 146097
  let doe : Int := z - era * 146097
  let yoe : Int := (doe - doe / 1460 + doe / 36524 - doe / 146096) / 365
  let y : Int := yoe + era * 400
  let doy : Int := doe - (365 * yoe + yoe / 4 - yoe / 100)
  let mp : Int := (5 * doy + 2) / 153
  let d : Int := doy - (153 * mp + 2) / 5 + 1
  let m : Int := if mp < 10 then mp + 3 else mp - 9
  (if m ≤ 2 then y + 1 else y, m.toNat, d.toNat)

/-- the lexical content of a timestamp (all fields are digit runs of the fixed widths of the grammar) -/
structure TsToken where
  year : Nat
  month : Nat
  day : Nat
  /-- hour, minute, second, fraction digits (1–9 of them) -/
  time : Option (Nat × Nat × Nat × Option (List Char))
  /-- `none`: no zone; `some none`: `Z`; `some (some (neg, hh, mm))`: `±hh:mm` -/
  zone : Option (Option (Bool × Nat × Nat))
deriving Repr, DecidableEq

/-- `kernel.timestamp` of the configuration, for a fixed-offset journal zone -/
structure TsCfg where
  offset : Int                       -- seconds east of UTC
  defaultTime : Nat × Nat × Nat × Nat   -- h, m, s, ns
deriving Repr, DecidableEq

def utcCfg : TsCfg := ⟨0, (0, 0, 0, 0)⟩

/-- `jiff::civil::Date::new` -/
def dateOk (y m d : Nat) : Bool := decide (y ≤ 9999) && decide (1 ≤ m ∧ m ≤ 12) && decide (1 ≤ d ∧ d ≤ daysInMonth y m)

/-- `jiff::civil::Time::new` (no leap second) -/
def timeOk (h mi s : Nat) : Bool := decide (h ≤ 23 ∧ mi ≤ 59 ∧ s ≤ 59)

/-- `handle_time`: `k` fraction digits scale to nanoseconds -/
def fracNs (digits : List Char) : Nat := Dec.digitsVal digits * 10 ^ (9 - digits.length)

/-- `jiff::tz::Offset::from_seconds`: |offset| ≤ 25:59:59 -/
def offsetOk (secs : Int) : Bool := decide (-93599 ≤ secs ∧ secs ≤ 93599)

def civilNs (y m d h mi s ns : Nat) : Int :=
  ((daysFromCivil y m d * 86400 + (h * 3600 + mi * 60 + s : Nat)) * 1000000000) + ns

/-- jiff's `Timestamp` range: −9999-01-02T01:59:59Z … 9999-12-30T22:00:00.999999999Z (the civil range
    −9999-01-01T00:00:00 … 9999-12-31T23:59:59.999999999 shrunk by the largest offset 25:59:59 on either side, so
    that every instant has a civil time at every offset); instants outside are errors of `to_zoned`.
    Probed on the real code through op `ts`/`tsfmt` (gen/c16.py, class `range`). -/
def instantOk (ns : Int) : Bool :=
  decide (-377705023201 * 1000000000 ≤ ns ∧ ns ≤ 253402207200 * 1000000000 + 999999999)

/-- `parse_timestamp` after lexing: token → instant + written offset -/
def resolveTs (cfg : TsCfg) (t : TsToken) : Outcome Ts :=
  if !dateOk t.year t.month t.day then .err else
  match t.time with
  | none =>
    match t.zone with
    | some _ => .err       -- the grammar has no `date zone`
    | none =>
      let (h, mi, s, ns) := cfg.defaultTime
      let inst := civilNs t.year t.month t.day h mi s ns - cfg.offset * 1000000000
      if instantOk inst then .ok ⟨inst, cfg.offset⟩ else .err
  | some (h, mi, s, frac) =>
    if !timeOk h mi s then .err else
    let ns := match frac with
      | some ds => fracNs ds
      | none => 0
    match t.zone with
    | none =>
      let inst := civilNs t.year t.month t.day h mi s ns - cfg.offset * 1000000000
      if instantOk inst then .ok ⟨inst, cfg.offset⟩ else .err
    | some none =>
      let inst := civilNs t.year t.month t.day h mi s ns
      if instantOk inst then .ok ⟨inst, 0⟩ else .err
    | some (some (neg, hh, mm)) =>
      let off : Int := (if neg then -1 else 1) * ((hh * 3600 + mm * 60 : Nat) : Int)
      if !offsetOk off then .err else
      let inst := civilNs t.year t.month t.day h mi s ns - off * 1000000000
      if instantOk inst then .ok ⟨inst, off⟩ else .err

/-- civil fields of an instant seen at a fixed offset: (year, month, day, hour, minute, second, ns) -/
def civilAt (ns : Int) (offset : Int) : Int × Nat × Nat × Nat × Nat × Nat × Nat :=
  let loc : Int := ns + offset * 1000000000
  let secs : Int := loc / 1000000000          -- `Int./` rounds toward −∞ for a positive divisor
  let sub : Int := loc - secs * 1000000000
  let days : Int := secs / 86400
  let sod : Int := secs - days * 86400
  let (y, m, d) := civilFromDays days
  (y, m, d, (sod / 3600).toNat, ((sod % 3600) / 60).toNat, (sod % 60).toNat, sub.toNat)

/-! ## Lexing one timestamp text

`Settings::parse_timestamp` runs `alt((parse_datetime_tz, parse_datetime, parse_date, fail))` and then demands the end
of the input.  Every alternative starts with the same `p_date`/`p_datetime`; an alternative that stops early leaves
input behind and fails the end-of-input test, and errors raised after a successful lexical match (`from_error`) are
cuts.  Hence the accepted language is exactly: `YYYY-MM-DD`, `YYYY-MM-DDTHH:MM:SS[.d{1,9}]`, the same followed by `Z`,
the same followed by `(+|-)HH:MM`; ASCII digits only. -/

def isDig (c : Char) : Bool := decide ('0' ≤ c ∧ c ≤ '9')

def num2 (a b : Char) : Nat := Dec.digitVal a * 10 + Dec.digitVal b

/-- `p_date` (lexical part): `YYYY-MM-DD`, returns the rest -/
def lexDate (cs : List Char) : Option (Nat × Nat × Nat × List Char) :=
  match cs with
  | y1 :: y2 :: y3 :: y4 :: s1 :: m1 :: m2 :: s2 :: d1 :: d2 :: rest =>
    if isDig y1 && isDig y2 && isDig y3 && isDig y4 && s1 == '-' && isDig m1 && isDig m2 && s2 == '-'
        && isDig d1 && isDig d2
    then some (Dec.digitsVal [y1, y2, y3, y4], num2 m1 m2, num2 d1 d2, rest)
    else none
  | _ => none

/-- `HH:MM:SS` of `p_datetime`, returns the rest -/
def lexClock (cs : List Char) : Option (Nat × Nat × Nat × List Char) :=
  match cs with
  | h1 :: h2 :: c1 :: m1 :: m2 :: c2 :: s1 :: s2 :: rest =>
    if isDig h1 && isDig h2 && c1 == ':' && isDig m1 && isDig m2 && c2 == ':' && isDig s1 && isDig s2
    then some (num2 h1 h2, num2 m1 m2, num2 s1 s2, rest)
    else none
  | _ => none

/-- `opt(('.', cut_err(take_while(1..=9, digit))))`: at most nine digits are taken; a `.` without a digit is an error -/
def lexFrac (cs : List Char) : Option (Option (List Char) × List Char) :=
  match cs with
  | c :: rest =>
    if c == '.' then
      let ds := (rest.takeWhile isDig).take 9
      if ds.isEmpty then none else some (some ds, rest.drop ds.length)
    else some (none, cs)
  | [] => some (none, [])

/-- what may follow the time: nothing, `Z`, or `(+|-)HH:MM`; then the end of the input -/
def lexZone (cs : List Char) : Option (Option (Option (Bool × Nat × Nat))) :=
  match cs with
  | [] => some none
  | [z] => if z == 'Z' then some (some none) else none
  | [sg, h1, h2, c, m1, m2] =>
    if (sg == '+' || sg == '-') && isDig h1 && isDig h2 && c == ':' && isDig m1 && isDig m2
    then some (some (some (sg == '-', num2 h1 h2, num2 m1 m2)))
    else none
  | _ => none

/-- the lexical structure of `parse_timestamp` on a complete input -/
def lexTs (cs : List Char) : Option TsToken :=
  match lexDate cs with
  | none => none
  | some (y, m, d, rest) =>
    match rest with
    | [] => some ⟨y, m, d, none, none⟩
    | t :: rest1 =>
      if t != 'T' then none else
      match lexClock rest1 with
      | none => none
      | some (h, mi, s, rest2) =>
        match lexFrac rest2 with
        | none => none
        | some (frac, rest3) =>
          match lexZone rest3 with
          | none => none
          | some z => some ⟨y, m, d, some (h, mi, s, frac), z⟩

/-- `Settings::parse_timestamp` for a fixed-offset journal zone: text → instant + written offset -/
def parseTs (cfg : TsCfg) (text : String) : Outcome Ts :=
  match lexTs text.toList with
  | none => .err
  | some t => resolveTs cfg t

/-! ## Named zones as data -/

/-- the transitions of a zone inside a window of instants, exported from jiff (`TimeZone::following`):
    `init` is the offset (seconds) in force at `lo`, `trans` the ascending list of
    (instant in ns, offset in seconds from that instant on) with `lo < instant ≤ hi` -/
structure ZoneTable where
  lo : Int
  hi : Int
  init : Int
  trans : List (Int × Int)
deriving Repr, DecidableEq

/-- offset in force at instant `ns`, starting from offset `cur` before the first listed transition -/
def offsetAtFrom (cur : Int) : List (Int × Int) → Int → Int
  | [], _ => cur
  | (t, o) :: rest, ns => if ns < t then cur else offsetAtFrom o rest ns

/-- jiff 0.2.5 looks an instant up by `Timestamp::as_second()`, which truncates toward zero: an instant with a
    non-zero fraction inside the last second before a transition *before 1970* already gets the offset after the
    transition (finding F22, upstream).  Transitions are at whole seconds, so for every other instant this is the
    plain lookup. -/
def lookupNs (ns : Int) : Int := Int.tdiv ns 1000000000 * 1000000000

/-- `TimeZone::to_offset` inside the window -/
def offsetAt (z : ZoneTable) (ns : Int) : Int := offsetAtFrom z.init z.trans (lookupNs ns)

def inWindow (z : ZoneTable) (ns : Int) : Bool := decide (z.lo ≤ ns ∧ ns ≤ z.hi)

/-- `DateTime::to_zoned` ("compatible" disambiguation) on a wall-clock time `loc` (ns of the civil time read as if UTC):
    walk the transitions; transition `(t, o)` after offset `prev` owns the wall-clock interval
    `[t + min prev o, t + max prev o)` — a gap when `o > prev`, a fold when `o < prev`.
    * before that interval: unambiguous, the instant is `loc − prev` and the offset `prev`;
    * inside it: the instant is `loc − prev` too (gap: the time shifted forward by the gap; fold: the earlier of the
      two readings), and the offset is looked up again at that instant (`tz.to_offset(ts)`);
    * after it: go on with the next transition.
    Returns (instant, offset). -/
def resolveLocalFrom (z : ZoneTable) (prev : Int) : List (Int × Int) → Int → Int × Int
  | [], loc => (loc - prev * 1000000000, prev)
  | (t, o) :: rest, loc =>
    if loc < t + (min prev o) * 1000000000 then (loc - prev * 1000000000, prev)
    else if loc < t + (max prev o) * 1000000000 then
      (loc - prev * 1000000000, offsetAt z (loc - prev * 1000000000))
    else resolveLocalFrom z o rest loc

def resolveLocal (z : ZoneTable) (loc : Int) : Int × Int := resolveLocalFrom z z.init z.trans loc

/-- the journal zone: a fixed offset, or a table -/
inductive JournalTz where
  | fixed (offset : Int)
  | table (z : ZoneTable)
deriving Repr, DecidableEq

structure TsCfgZ where
  tz : JournalTz
  defaultTime : Nat × Nat × Nat × Nat
deriving Repr, DecidableEq

/-- margin (ns) kept from the window's ends when a wall-clock time is resolved through a table: more than the
    largest offset, so that every candidate instant lies inside the window -/
def windowMargin : Int := 100000 * 1000000000

/-- wall-clock time → instant through a table; `.undef` when the table does not cover it -/
def zonedInstant (z : ZoneTable) (loc : Int) : Outcome Ts :=
  if z.lo + windowMargin ≤ loc ∧ loc ≤ z.hi - windowMargin then
    let r := resolveLocal z loc
    if instantOk r.1 then .ok ⟨r.1, r.2⟩ else .err
  else .undef

/-- `parse_timestamp` after lexing, any journal zone -/
def resolveTsZ (cfg : TsCfgZ) (t : TsToken) : Outcome Ts :=
  match cfg.tz with
  | .fixed off => resolveTs ⟨off, cfg.defaultTime⟩ t
  | .table z =>
    if !dateOk t.year t.month t.day then .err else
    match t.time with
    | none =>
      match t.zone with
      | some _ => .err
      | none =>
        let (h, mi, s, ns) := cfg.defaultTime
        zonedInstant z (civilNs t.year t.month t.day h mi s ns)
    | some (h, mi, s, frac) =>
      if !timeOk h mi s then .err else
      let ns := match frac with
        | some ds => fracNs ds
        | none => 0
      match t.zone with
      | none => zonedInstant z (civilNs t.year t.month t.day h mi s ns)
      | some _ => resolveTs ⟨0, cfg.defaultTime⟩ t      -- an explicit zone: the journal zone is not consulted

def parseTsZ (cfg : TsCfgZ) (text : String) : Outcome Ts :=
  match lexTs text.toList with
  | none => .err
  | some t => resolveTsZ cfg t

/-! ## ISO-8601 week dates (`civil::Date::iso_week_date`) -/

/-- days since Monday of a day number (1970-01-01 was a Thursday): 0 = Monday … 6 = Sunday -/
def weekdayIdx (days : Int) : Int := (days + 3) % 7

/-- `iso_week_start_from_year`: the Monday of the week that contains January 4th -/
def isoWeekStart (year : Int) : Int :=
  let j4 := daysFromCivil year 1 4
  j4 - weekdayIdx j4

/-- (ISO week-year, week 1–53, weekday 1 = Monday … 7 = Sunday) of a day number whose civil year is `year` -/
def isoWeekOfDays (year : Int) (days : Int) : Int × Int × Int :=
  let ws := isoWeekStart year
  let ws' := if days < ws then isoWeekStart (year - 1)
             else if days ≥ isoWeekStart (year + 1) then isoWeekStart (year + 1) else ws
  let week := (days - ws') / 7 + 1
  ((civilFromDays (ws' + 3)).1, week, weekdayIdx days + 1)

def isoWeekDate (y : Int) (m d : Nat) : Int × Int × Int := isoWeekOfDays y (daysFromCivil y m d)

/-! ## Display texts (`tackler_api::txn_ts`) -/

/-- decimal digits of `n`, left-padded with `0` to at least `w` characters (`DecimalFormatter::padding(w)`) -/
def padNat (w n : Nat) : List Char := Dec.padLeft w (Nat.toDigits 10 n)

/-- `%Y`: sign, then at least four digits -/
def yearText (y : Int) : List Char := if y < 0 then '-' :: padNat 4 y.natAbs else padNat 4 y.toNat

/-- `{}` of an `i16` -/
def intText (y : Int) : List Char := if y < 0 then '-' :: Nat.toDigits 10 y.natAbs else Nat.toDigits 10 y.toNat

/-- drop trailing `0`s -/
def trimZeros (l : List Char) : List Char := (l.reverse.dropWhile (· == '0')).reverse

/-- `%.f`: nothing for a zero fraction, else `.` and the nine digits without trailing zeros -/
def fracText (ns : Nat) : List Char := if ns = 0 then [] else '.' :: trimZeros (padNat 9 ns)

/-- `%:z`: `±HH:MM`, and `:SS` when the offset has seconds -/
def offsetText (off : Int) : List Char :=
  let a := off.natAbs
  (if off < 0 then ['-'] else ['+']) ++ padNat 2 (a / 3600) ++ [':'] ++ padNat 2 (a % 3600 / 60) ++
    (if a % 60 = 0 then [] else ':' :: padNat 2 (a % 60))

def dateChars (y : Int) (m d : Nat) : List Char := yearText y ++ ['-'] ++ padNat 2 m ++ ['-'] ++ padNat 2 d
def clockChars (h mi s : Nat) : List Char := padNat 2 h ++ [':'] ++ padNat 2 mi ++ [':'] ++ padNat 2 s

/-- `fmt_date` at a fixed offset: `%Y-%m-%d` -/
def fmtDate (ns off : Int) : String :=
  match civilAt ns off with
  | (y, m, d, _, _, _, _) => String.ofList (dateChars y m d)

/-- `fmt_month`: `%Y-%m` -/
def fmtMonth (ns off : Int) : String :=
  match civilAt ns off with
  | (y, m, _, _, _, _, _) => String.ofList (yearText y ++ ['-'] ++ padNat 2 m)

/-- `fmt_year`: `%Y` -/
def fmtYear (ns off : Int) : String :=
  match civilAt ns off with
  | (y, _, _, _, _, _, _) => String.ofList (yearText y)

/-- `fmt_seconds`: `%Y-%m-%d %H:%M:%S` -/
def fmtSeconds (ns off : Int) : String :=
  match civilAt ns off with
  | (y, m, d, h, mi, s, _) => String.ofList (dateChars y m d ++ [' '] ++ clockChars h mi s)

/-- `fmt_full`: `%Y-%m-%d %H:%M:%S%.f` -/
def fmtFull (ns off : Int) : String :=
  match civilAt ns off with
  | (y, m, d, h, mi, s, sub) => String.ofList (dateChars y m d ++ [' '] ++ clockChars h mi s ++ fracText sub)

/-- `rfc_3339`: `%Y-%m-%dT%H:%M:%S%.f%:z` (at the timestamp's own offset) -/
def rfc3339 (ns off : Int) : String :=
  match civilAt ns off with
  | (y, m, d, h, mi, s, sub) =>
    String.ofList (dateChars y m d ++ ['T'] ++ clockChars h mi s ++ fracText sub ++ offsetText off)

/-- `seconds_tz`: `%Y-%m-%d %H:%M:%S %:z` -/
def fmtSecondsTz (ns off : Int) : String :=
  match civilAt ns off with
  | (y, m, d, h, mi, s, _) => String.ofList (dateChars y m d ++ [' '] ++ clockChars h mi s ++ [' '] ++ offsetText off)

/-- `full_tz`: `%Y-%m-%d %H:%M:%S%.f %:z` -/
def fmtFullTz (ns off : Int) : String :=
  match civilAt ns off with
  | (y, m, d, h, mi, s, sub) =>
    String.ofList (dateChars y m d ++ [' '] ++ clockChars h mi s ++ fracText sub ++ [' '] ++ offsetText off)

/-- `fmt_week`: `format!("{}-W{:02}", y, w)` of the ISO week date -/
def fmtIsoWeek (ns off : Int) : String :=
  match civilAt ns off with
  | (y, m, d, _, _, _, _) =>
    match isoWeekDate y m d with
    | (wy, w, _) => String.ofList (intText wy ++ ['-', 'W'] ++ padNat 2 w.toNat)

/-- `fmt_week_date`: `format!("{}-W{:02}-{}", y, w, wd)` -/
def fmtIsoWeekDate (ns off : Int) : String :=
  match civilAt ns off with
  | (y, m, d, _, _, _, _) =>
    match isoWeekDate y m d with
    | (wy, w, wd) => String.ofList (intText wy ++ ['-', 'W'] ++ padNat 2 w.toNat ++ ['-'] ++ intText wd)

/-- `TimestampStyle` of the register report -/
inductive TsStyle where
  | date | seconds | full
deriving Repr, DecidableEq

/-- the register report's timestamp text: a function of the instant and the report zone's offset only -/
def fmtStyle (st : TsStyle) (ns reportOff : Int) : String :=
  match st with
  | .date => fmtDate ns reportOff
  | .seconds => fmtSeconds ns reportOff
  | .full => fmtFull ns reportOff

end Time
end Tackler

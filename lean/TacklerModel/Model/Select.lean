import TacklerModel.Model.Order
/-!
# Select: which files of a commit (git storage) / of a directory (filesystem storage) are loaded

| Lean                              | Rust                                                                        |
|-----------------------------------|-----------------------------------------------------------------------------|
| `splitSlash`, `componentsL`, `components` | `std::path::Path::components` (Unix)                                 |
| `startsWith`                      | `Path::starts_with` (whole components)                                      |
| `fileName`, `rsplitDot`, `extensionL`, `hasExt` | `Path::file_name`, `rsplit_file_at_dot`, `Path::extension` + `==` |
| `isTxnPath`                       | `is_txn_path` in `tackler-core/src/parser/tackler_txns.rs` (after fix F5)   |
| `isTxnPathOld`, `gitEntryOld`     | the blob filter of `git_to_txns` *before* fix F5 (byte prefix / byte suffix, `Blob` only) |
| `gitEntry`, `gitSelect`           | the `match EntryKind::from(entry.mode)` closure of `git_to_txns` + `collect::<Result<..>>` |
| `gitStep`, `gitCollect`, `gitLoad`| the same closure with the parse of the selected blobs, `flatten_ok`, `TxnData::from` (sort) |
| `gitToTxns`, `refShown`           | `git_to_txns`: selector resolution (a parameter: `gix`), metadata, load     |
| `isTxnFile`, `walk`, `fsSelect`   | `tackler_rs::get_paths_by_ext` (`walkdir` is a parameter: "every entry at or below the base") |
| `checkout`                        | what `git archive | tar x` / `git checkout` puts on disk for a tree          |
| `normSuffix`                      | `suffix.strip_prefix('.').unwrap_or(suffix)` in `Settings::get_input_settings` |

A commit's tree is the list of records of `tree.traverse().breadthfirst.files()`: every entry of every
(sub)tree with its full `/`-joined path — trees themselves included.  Paths are kept as the raw string and
are decomposed by `components`, exactly as the patched code does with `Path`.
-/
namespace Tackler.Select

/-! ## `std::path` on Unix -/

/-- `std::path::Component` (no `Prefix` on Unix) -/
inductive Comp where
  | root
  | cur
  | parent
  | normal (s : String)
deriving DecidableEq, Repr

/-- the segments between `/` separators (possibly empty ones) -/
def splitSlash : List Char → List (List Char)
  | [] => [[]]
  | c :: cs =>
    if c = '/' then [] :: splitSlash cs
    else match splitSlash cs with
      | [] => [[c]]
      | s :: r => (c :: s) :: r

/-- one segment as a component: empty segments and `.` are dropped by `Components` -/
def segComp (seg : List Char) : Option Comp :=
  if seg = [] then none
  else if seg = ['.'] then none
  else if seg = ['.', '.'] then some .parent
  else some (.normal (String.ofList seg))

/-- `Path::components`: `RootDir` for a leading `/`, `CurDir` only for a leading `.` segment of a relative
    path, then the non-empty, non-`.` segments -/
def componentsL (cs : List Char) : List Comp :=
  (if cs.head? = some '/' then [Comp.root]
   else if (splitSlash cs).head? = some ['.'] then [Comp.cur]
   else [])
  ++ (splitSlash cs).filterMap segComp

def components (s : String) : List Comp := componentsL s.toList

/-- `Path::starts_with`: `base`'s components are a prefix of `p`'s components -/
def startsWith (p base : List Comp) : Bool := base.isPrefixOf p

/-- `Path::file_name`: the last component if it is a normal one -/
def fileName (p : List Comp) : Option String :=
  match p.getLast? with
  | some (.normal s) => some s
  | _ => none

/-- `rsplitn(2, '.')`: (before, after) of the last dot; `none` when there is no dot -/
def rsplitDot : List Char → Option (List Char × List Char)
  | [] => none
  | c :: cs =>
    match rsplitDot cs with
    | some (b, a) => some (c :: b, a)
    | none => if c = '.' then some ([], cs) else none

/-- `Path::extension` of a file name (`rsplit_file_at_dot`, then `before.and(after)`): the part after the
    last dot; none without a dot, for `..`, and when the only dot is the first character -/
def extensionL (name : List Char) : Option (List Char) :=
  if name = ['.', '.'] then none
  else match rsplitDot name with
    | none => none
    | some (before, after) => if before = [] then none else some after

/-- `path.extension().is_some_and(|e| e == ext)` -/
def hasExt (p : List Comp) (ext : String) : Bool :=
  match fileName p with
  | some n => extensionL n.toList == some ext.toList
  | none => false

/-! ## git storage -/

/-- `gix::objs::tree::EntryKind` -/
inductive Kind where
  | tree
  | blob
  | blobExe
  | link
  | commit
deriving DecidableEq, Repr

/-- one record of `tree.traverse().breadthfirst.files()` -/
structure Entry where
  kind : Kind
  path : String      -- `entry.filepath`
  oid : String       -- `entry.oid`: stands for the content
deriving DecidableEq, Repr

/-- `is_txn_path` (fix F5): whole-component directory test and real extension test -/
def isTxnPath (path dir ext : String) : Bool :=
  startsWith (components path) (components dir) && hasExt (components path) ext

/-- the filter before fix F5: `filepath.starts_with(dir.as_bytes()) && filepath.ends_with(ext.as_bytes())` -/
def isTxnPathOld (path dir ext : String) : Bool :=
  dir.toList.isPrefixOf path.toList && ext.toList.isSuffixOf path.toList

def isBlobKind : Kind → Bool
  | .blob => true
  | .blobExe => true
  | _ => false

/-- the closure inside `git_to_txns`, without the parse: is the entry loaded? (`Link` ⇒ the whole load fails) -/
def gitEntry (dir ext : String) (e : Entry) : Outcome Bool :=
  match e.kind with
  | .blob => .ok (isTxnPath e.path dir ext)
  | .blobExe => .ok (isTxnPath e.path dir ext)
  | .link => .err
  | .tree => .ok false
  | .commit => .ok false

/-- the same closure before fix F5 -/
def gitEntryOld (dir ext : String) (e : Entry) : Outcome Bool :=
  match e.kind with
  | .blob => .ok (isTxnPathOld e.path dir ext)
  | .link => .err
  | _ => .ok false

/-- entries whose blobs are parsed, in traversal order (`map(..).collect::<Result<_,_>>()`) -/
def selectWith (f : Entry → Outcome Bool) : List Entry → Outcome (List Entry)
  | [] => .ok []
  | e :: t =>
    match f e with
    | .ok b =>
      (match selectWith f t with
       | .ok l => .ok (if b then e :: l else l)
       | .err => .err
       | .undef => .undef)
    | .err => .err
    | .undef => .undef

def gitSelect (dir ext : String) (tree : List Entry) : Outcome (List Entry) :=
  selectWith (gitEntry dir ext) tree

def gitSelectOld (dir ext : String) (tree : List Entry) : Outcome (List Entry) :=
  selectWith (gitEntryOld dir ext) tree

def hasLink (tree : List Entry) : Bool := tree.any (fun e => e.kind == .link)

/-- the closure inside `git_to_txns` with the parse (`parse st oid` = `txns_text` on the blob's text with the
    `&mut Settings` state `st`) -/
def gitStep {σ : Type} (parse : σ → String → Outcome (List Txn × σ)) (dir ext : String) (st : σ) (e : Entry) :
    Outcome (List Txn × σ) :=
  match e.kind with
  | .blob => if isTxnPath e.path dir ext then parse st e.oid else .ok ([], st)
  | .blobExe => if isTxnPath e.path dir ext then parse st e.oid else .ok ([], st)
  | .link => .err
  | .tree => .ok ([], st)
  | .commit => .ok ([], st)

/-- `.map(closure).flatten_ok().collect::<Result<Txns, _>>()` -/
def gitCollect {σ : Type} (parse : σ → String → Outcome (List Txn × σ)) (dir ext : String) :
    σ → List Entry → Outcome (List Txn × σ)
  | st, [] => .ok ([], st)
  | st, e :: t =>
    match gitStep parse dir ext st e with
    | .ok (ts, st1) =>
      (match gitCollect parse dir ext st1 t with
       | .ok (ts', st2) => .ok (ts ++ ts', st2)
       | .err => .err
       | .undef => .undef)
    | .err => .err
    | .undef => .undef

/-- the data part of `git_to_txns`: collect, then `TxnData::from` (stable sort by header) -/
def gitLoad {σ : Type} (parse : σ → String → Outcome (List Txn × σ)) (dir ext : String) (st : σ)
    (tree : List Entry) : Outcome (List Txn × σ) :=
  (gitCollect parse dir ext st tree).map (fun r => (sortTxns r.1, r.2))

/-- parse the given entries in order and concatenate (what `paths_to_txns` does with files) -/
def parseAll {σ : Type} (parse : σ → String → Outcome (List Txn × σ)) : σ → List Entry → Outcome (List Txn × σ)
  | st, [] => .ok ([], st)
  | st, e :: t =>
    match parse st e.oid with
    | .ok (ts, st1) =>
      (match parseAll parse st1 t with
       | .ok (ts', st2) => .ok (ts ++ ts', st2)
       | .err => .err
       | .undef => .undef)
    | .err => .err
    | .undef => .undef

/-! ### selector, metadata -/

/-- `GitInputSelector` -/
inductive Selector where
  | commitId (id : String)
  | reference (r : String)
deriving DecidableEq, Repr

/-- what selector resolution yields (`gix`: `lookup_prefix`/`rev_parse_single`, `peel_to_commit`, `tree()`,
    `message()?.title`) -/
structure Commit where
  id : String
  message : String
  tree : List Entry
deriving Repr

/-- `GitInputReference` -/
structure GitMeta where
  commit : String
  reference : Option String
  dir : String
  suffix : String
  message : String
deriving DecidableEq, Repr

/-- the `reference` field: none for a commit id selector, and none for a reference that is a prefix of the
    resolved id ("don't show ref if it's plain commit id") -/
def refShown : Selector → String → Option String
  | .commitId _, _ => none
  | .reference r, id => if r.toList.isPrefixOf id.toList then none else some r

/-- `git_to_txns` with selector resolution as a parameter -/
def gitToTxns {σ : Type} (resolve : Selector → Outcome Commit) (parse : σ → String → Outcome (List Txn × σ))
    (dir ext : String) (sel : Selector) (st : σ) : Outcome ((GitMeta × List Txn) × σ) :=
  match resolve sel with
  | .ok c =>
    (gitLoad parse dir ext st c.tree).map
      (fun r => ((⟨c.id, refShown sel c.id, dir, ext, c.message⟩, r.1), r.2))
  | .err => .err
  | .undef => .undef

/-! ## filesystem storage on a checkout -/

inductive FType where
  | file
  | dir
  | symlink
deriving DecidableEq, Repr

/-- an entry of the checkout; `path` is relative to the checkout root -/
structure FsEntry where
  ftype : FType
  path : String
  content : String
deriving DecidableEq, Repr

/-- what a checkout / `git archive` of the tree puts on disk: blobs (executable or not) are regular files
    with the blob's content, trees and submodule commits are directories, links are symbolic links -/
def toFs (e : Entry) : FsEntry :=
  match e.kind with
  | .blob => ⟨.file, e.path, e.oid⟩
  | .blobExe => ⟨.file, e.path, e.oid⟩
  | .tree => ⟨.dir, e.path, e.oid⟩
  | .commit => ⟨.dir, e.path, e.oid⟩
  | .link => ⟨.symlink, e.path, e.oid⟩

def checkout (tree : List Entry) : List FsEntry := tree.map toFs

/-- `is_txn_file` of `get_paths_by_ext` -/
def isTxnFile (ext : String) (f : FsEntry) : Bool :=
  (f.ftype == .file || f.ftype == .symlink) && hasExt (components f.path) ext

def isNormal : Comp → Bool
  | .normal _ => true
  | _ => false

/-- a directory setting made of normal components only (`txns`, `txns/`, `a//b/./c`): for these the path
    `<checkout>/<dir>` names the tree entry with the same components; with a leading `./`, with `..` or with
    a leading `/` the operating system's path resolution decides, which is not modelled -/
def cleanDir (dir : String) : Bool := (components dir).all isNormal

/-- `WalkDir::new(base).follow_links(true)`: every entry at or below the base -/
def walk (base : List Comp) (co : List FsEntry) : List FsEntry :=
  co.filter (fun f => startsWith (components f.path) base)

/-- is a symbolic link on the way to or below the base?  Then what `walkdir` sees depends on the link's
    target, which is not modelled. -/
def linkNear (base : List Comp) (co : List FsEntry) : Bool :=
  co.any (fun f => f.ftype == .symlink &&
    (startsWith (components f.path) base || startsWith base (components f.path)))

/-- `get_paths_by_ext(<checkout>/dir, ext)`: error when the base does not exist (the checkout root always
    exists), otherwise the walked entries that are files with the extension -/
def fsSelect (dir ext : String) (co : List FsEntry) : Outcome (List FsEntry) :=
  if !cleanDir dir then .undef
  else if linkNear (components dir) co then .undef
  else if components dir != [] && (walk (components dir) co).isEmpty then .err
  else .ok ((walk (components dir) co).filter (isTxnFile ext))

/-! ## configuration -/

/-- `suffix.strip_prefix('.').unwrap_or(suffix)` in `Settings::get_input_settings` (fs and git) -/
def normSuffix (s : String) : String :=
  match s.toList with
  | '.' :: r => String.ofList r
  | _ => s

end Tackler.Select

import TacklerModel.Model.Types
/-!
# Price: price db load, price lookup context, conversion of postings, price metadata

| Lean                      | Rust                                                                      |
|---------------------------|---------------------------------------------------------------------------|
| `PriceEntry`, `entryLe`, `entryEq` | `model/price_entry.rs` (`impl Ord`, `impl PartialEq`: timestamp, base, eq commodity; `jiff::Zoned` compares by instant) |
| `dedup`, `loadDb`, `pricedbFromEntries` | `parser/pricedb_parser.rs` `pricedb_from_str` after parsing: `.sorted().dedup()`, `repeat_till(1.., …)` |
| `mapInsert`, `mapGet`     | `HashMap::insert` (overwrites), `HashMap::get`                            |
| `btreeSet`                | `collect::<BTreeSet<_>>()` (only `contains` and iteration are used)       |
| `usedCommodities`, `fixedCache`, `timedCache`, `makeCtx` | `kernel/price_lookup.rs` `PriceLookup::make_ctx`   |
| `bsLoop`, `binarySearch`, `searchIdx` | `core::slice::binary_search_by` (Rust 1.95) as used by `binary_search_by_key` in `convert_prices_inner`; `Ok(i) => Some(i)`, `Err(i) => i.checked_sub(1)` |
| `convertPosting`, `convertPrices` | `convert_prices_inner`, `convert_prices`                          |
| `metadata`                | `PriceLookupCtx::metadata`                                                |

The model is of the tree *with* the fix proposals `fixes/F10-never-convert-report-commodity.diff`
(the report commodity is left out of `used_commodities`) and `fixes/F19-last-price-unbounded.diff`
(`LastPriceDbEntry` has no upper bound instead of the exclusive bound `Timestamp::MAX`).
The instant of an entry is nanoseconds since the epoch; the zone it was written with is display only.
Decimal multiplication outside the exact domain (`Dec.mul = none`: `rust_decimal` rounds or panics)
is `Outcome.undef`.
-/
namespace Tackler
namespace Price

structure PriceEntry where
  ns : Int            -- `timestamp` as an instant
  base : String       -- `base_commodity.name`
  rate : Dec          -- `eq_amount`
  target : String     -- `eq_commodity.name`
deriving Repr, DecidableEq, Inhabited

/-- `impl Ord for PriceEntry` as `a ≤ b`: timestamp, then base commodity, then eq commodity -/
def entryLe (a b : PriceEntry) : Bool :=
  if a.ns < b.ns then true else if b.ns < a.ns then false
  else if a.base < b.base then true else if b.base < a.base then false
  else !(b.target < a.target)

/-- `impl PartialEq for PriceEntry` -/
def entryEq (a b : PriceEntry) : Bool := a.ns == b.ns && a.base == b.base && a.target == b.target

/-- itertools `dedup()` (`CoalesceBy` with `DedupEq`): of a run of equal neighbours the first is kept -/
def dedupFrom (a : PriceEntry) : List PriceEntry → List PriceEntry
  | [] => [a]
  | b :: t => if entryEq a b then dedupFrom a t else a :: dedupFrom b t

def dedup : List PriceEntry → List PriceEntry
  | [] => []
  | a :: t => dedupFrom a t

/-- `price_entries.into_iter().sorted().dedup().collect()` (`sorted` is the stable `slice::sort`) -/
def loadDb (es : List PriceEntry) : List PriceEntry := dedup (es.mergeSort entryLe)

/-- `pricedb_from_str` on the parsed entries: at least one entry (`repeat_till(1.., …)`) -/
def pricedbFromEntries (es : List PriceEntry) : Outcome (List PriceEntry) :=
  match es with
  | [] => .err
  | _ :: _ => .ok (loadDb es)

/-! ### containers -/

/-- `HashMap::insert`: an existing binding of the key is replaced -/
def mapInsert {β} (m : List (String × β)) (k : String) (v : β) : List (String × β) :=
  (k, v) :: m.filter (fun kv => kv.1 != k)

/-- `HashMap::get` -/
def mapGet {β} (m : List (String × β)) (k : String) : Option β :=
  match m with
  | [] => none
  | (k', v) :: t => if k' == k then some v else mapGet t k

/-- `collect::<BTreeSet<_>>()`: sorted, each element once -/
def btreeSet (l : List String) : List String := (l.mergeSort (fun a b => decide (a ≤ b))).eraseDups

/-! ### lookup context -/

inductive PriceLookup where
  | none
  | txnTime                 -- `AtTheTimeOfTxn`
  | lastPrice               -- `LastPriceDbEntry`
  | givenTime (ns : Int)    -- `GivenTime(t)`
deriving Repr, DecidableEq

inductive Cache where
  | fixed (m : List (String × (Int × Dec)))        -- commodity ↦ (time, rate)
  | timed (m : List (String × List PriceEntry))    -- commodity ↦ entries sorted by time
deriving Repr

structure Ctx where
  cache : Cache
  inCommodity : Option String
deriving Repr

/-- `PriceLookupCtx::default()` -/
def Ctx.default : Ctx := ⟨.fixed [], none⟩

/-- `used_commodities`: commodities of all postings (`acctn.comm`) of the transaction set,
    without the report commodity (F10 fix) -/
def usedCommodities (txns : List Txn) (tgt : String) : List String :=
  btreeSet (((txns.flatMap (·.posts)).map (·.comm)).filter (fun c => c != tgt))

/-- the time condition of the fixed cache: `e.timestamp < lookup_timestamp`; none for last-price (F19 fix) -/
def beforeBound (bound : Option Int) (ns : Int) : Bool :=
  match bound with
  | some b => decide (ns < b)
  | none => true

/-- `Cache::Fixed(price_db.iter().filter(…).map(…).collect())`: later entries overwrite earlier ones -/
def fixedCache (used : List String) (tgt : String) (bound : Option Int) (db : List PriceEntry) :
    List (String × (Int × Dec)) :=
  (db.filter (fun e => used.contains e.base && e.target == tgt && beforeBound bound e.ns)).foldl
    (fun m e => mapInsert m e.base (e.ns, e.rate)) []

/-- the per-commodity vector of the timed cache -/
def commCache (comm tgt : String) (db : List PriceEntry) : List PriceEntry :=
  (db.filter (fun e => comm == e.base && e.target == tgt)).mergeSort (fun a b => decide (a.ns ≤ b.ns))

/-- `for comm in used_commodities { … if !comm_cache.is_empty() { cache.insert(comm, comm_cache) } }` -/
def timedCache (used : List String) (tgt : String) (db : List PriceEntry) : List (String × List PriceEntry) :=
  used.foldl (fun m comm => if (commCache comm tgt db).isEmpty then m else mapInsert m comm (commCache comm tgt db)) []

/-- `PriceLookup::make_ctx` -/
def makeCtx (lk : PriceLookup) (txns : List Txn) (inCommodity : Option String) (db : List PriceEntry) : Ctx :=
  match inCommodity with
  | none => Ctx.default
  | some tgt =>
    match lk with
    | .none => Ctx.default
    | .txnTime => ⟨.timed (timedCache (usedCommodities txns tgt) tgt db), some tgt⟩
    | .lastPrice => ⟨.fixed (fixedCache (usedCommodities txns tgt) tgt none db), some tgt⟩
    | .givenTime g => ⟨.fixed (fixedCache (usedCommodities txns tgt) tgt (some g) db), some tgt⟩

/-! ### binary search (`core::slice::binary_search_by`, Rust 1.95) -/

/-- the comparator of `binary_search_by_key(&(&txn.header.timestamp, &p.acctn.comm), |e| (&e.timestamp, &e.base_commodity))`:
    `(e.timestamp, e.base_commodity).cmp(&(k, comm))` -/
def cmpKey (e : PriceEntry) (k : Int) (comm : String) : Ordering :=
  if e.ns < k then .lt else if k < e.ns then .gt
  else if e.base < comm then .lt else if comm < e.base then .gt else .eq

/-- `while size > 1 { half = size / 2; mid = base + half; base = if cmp(mid) == Greater { base } else { mid }; size -= half }` -/
def bsLoop (l : List PriceEntry) (k : Int) (comm : String) : Nat → Nat → Nat → Nat
  | 0, base, _ => base
  | fuel + 1, base, size =>
    if size ≤ 1 then base
    else if cmpKey l[base + size / 2]! k comm = .gt then bsLoop l k comm fuel base (size - size / 2)
    else bsLoop l k comm fuel (base + size / 2) (size - size / 2)

/-- `Result<usize, usize>` of `binary_search_by` -/
inductive Found where
  | ok (i : Nat)
  | err (i : Nat)
deriving Repr, DecidableEq

def binarySearch (l : List PriceEntry) (k : Int) (comm : String) : Found :=
  if l.length = 0 then .err 0
  else if cmpKey l[bsLoop l k comm l.length 0 l.length]! k comm = .eq then .ok (bsLoop l k comm l.length 0 l.length)
  else if cmpKey l[bsLoop l k comm l.length 0 l.length]! k comm = .lt then .err (bsLoop l k comm l.length 0 l.length + 1)
  else .err (bsLoop l k comm l.length 0 l.length)

/-- `match … { Ok(i) => Some(i), Err(i) => i.checked_sub(1) }` -/
def searchIdx (l : List PriceEntry) (k : Int) (comm : String) : Option Nat :=
  match binarySearch l k comm with
  | .ok i => some i
  | .err i => if i = 0 then none else some (i - 1)

/-! ### conversion -/

/-- item of `convert_prices`: `(TxnAccount, Decimal, Option<Decimal>)` -/
structure Converted where
  acct : Path
  comm : String
  amount : Dec
  rate : Option Dec
deriving Repr, DecidableEq

def unchanged (p : Posting) : Converted := ⟨p.acct, p.comm, p.amount, none⟩

/-- the closure of `convert_prices_inner` for one posting (uses `p.amount` and `p.acctn.comm`) -/
def convertPosting (cache : Cache) (tgt : String) (t : Txn) (p : Posting) : Outcome Converted :=
  if p.comm == "" then .ok (unchanged p)          -- `!p.acctn.comm.is_any()`
  else
    match cache with
    | .fixed m =>
      match mapGet m p.comm with
      | some c => (Outcome.ofOption (Dec.mul p.amount c.2)).map (fun a => ⟨p.acct, tgt, a, none⟩)
      | none => .ok (unchanged p)
    | .timed m =>
      match mapGet m p.comm with
      | some cc =>
        match searchIdx cc t.header.ts.ns p.comm with
        | some i => (Outcome.ofOption (Dec.mul p.amount cc[i]!.rate)).map (fun a => ⟨p.acct, tgt, a, some cc[i]!.rate⟩)
        | none => .ok (unchanged p)
      | none => .ok (unchanged p)

/-- `Iterator::map(f)` over an `Outcome` -/
def mapO {α β} (f : α → Outcome β) : List α → Outcome (List β)
  | [] => .ok []
  | a :: t =>
    match f a with
    | .ok b =>
      (match mapO f t with
       | .ok bs => .ok (b :: bs)
       | .err => .err
       | .undef => .undef)
    | .err => .err
    | .undef => .undef

/-- `PriceLookupCtx::convert_prices` -/
def convertPrices (ctx : Ctx) (t : Txn) : Outcome (List Converted) :=
  match ctx.inCommodity with
  | some tgt => mapO (convertPosting ctx.cache tgt t) t.posts
  | none => .ok (t.posts.map unchanged)

/-! ### metadata -/

/-- `tackler_api::metadata::items::PriceRecord` (the rate is text in the API: `format!("{}", rate)`) -/
structure PriceRecord where
  ns : Option Int
  source : String
  rate : Option Dec
  target : String
deriving Repr, DecidableEq

/-- `map.iter().sorted_by_key(|k| *k)`: keys of a map are distinct, so the order is by commodity name -/
def sortByKey {β} (m : List (String × β)) : List (String × β) := m.mergeSort (fun a b => decide (a.1 ≤ b.1))

/-- `PriceLookupCtx::metadata` -/
def metadata (ctx : Ctx) : List PriceRecord :=
  match ctx.inCommodity with
  | none => []
  | some tgt =>
    match ctx.cache with
    | .fixed m => (sortByKey m).map (fun kv => ⟨some kv.2.1, kv.1, some kv.2.2, tgt⟩)
    | .timed m => (sortByKey m).map (fun kv => ⟨none, kv.1, none, tgt⟩)

end Price
end Tackler

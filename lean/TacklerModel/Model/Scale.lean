import TacklerModel.Model.Balance
/-!
# Scale: report number formatting (`tackler-core/src/config/items.rs` `Scale`, the number positions of
`report/balance_reporter.rs` `txt_report` and `model/register.rs` `amount_to_string`)

Every figure of a text report is printed by the same composition
`format!("{:.prec$}", x.round_dp_with_strategy(prec, MidpointAwayFromZero))` with
`prec = scale.get_precision(&x)`.  `rust_decimal`'s `{:.p}` pads or *truncates*; the rounding is done by
`round_dp_with_strategy` (both in `Model/Dec`).  Field widths and alignment of the balance report are in `Model/BalanceLayout`; here a figure is the
blank-free token of its column.
-/
namespace Tackler

/-- `config::Scale` -/
structure Scale where
  min : Nat
  max : Nat
deriving Repr, DecidableEq

namespace Scale

/-- `Scale::from`: both ≤ 28, `min ≤ max` (the raw fields are `u32`) -/
def ofRaw (min max : Nat) : Outcome Scale :=
  if min > 28 ∨ max > 28 then .err
  else if max < min then .err
  else .ok ⟨min, max⟩

/-- what `Scale::from` guarantees -/
def WF (sc : Scale) : Prop := sc.min ≤ sc.max ∧ sc.max ≤ 28

instance (sc : Scale) : Decidable sc.WF := by unfold WF; exact inferInstance

/-- `Default for Scale` -/
def default : Scale := ⟨2, 7⟩

/-- `Scale::get_precision`: `max(min(d.scale(), self.max), self.min)` -/
def getPrecision (sc : Scale) (d : Dec) : Nat := Max.max (Min.min d.scale sc.max) sc.min

end Scale

/-- the figure as the reporters print it (without padding):
    `format!("{:.prec$}", d.round_dp_with_strategy(prec, MidpointAwayFromZero))`, `prec = get_precision(d)` -/
def shownChars (sc : Scale) (d : Dec) : List Char :=
  (d.roundHA (sc.getPrecision d)).fmtFixedChars (sc.getPrecision d)

def shown (sc : Scale) (d : Dec) : String :=
  (d.roundHA (sc.getPrecision d)).fmtFixed (sc.getPrecision d)

/-- `amount_to_string` of `RegisterEntry::fmt_with_cfg`: the shown figure, with one blank in front when it is
    non-negative and fills the column (so that it never touches the preceding column) -/
def amountToString (sc : Scale) (d : Dec) (width : Nat) : List Char :=
  if d.isPos && decide ((shownChars sc d).length ≥ width) then ' ' :: shownChars sc d else shownChars sc d

/-- one printed row of the balance report: the two figure columns as text -/
structure ShownRow where
  acct : Path
  comm : String
  own : String
  tree : String
deriving Repr, DecidableEq

/-- the figures of `BalanceReporter::txt_report` (titles, rulers, padding left out) -/
structure BalanceText where
  rows : List ShownRow
  deltas : List (String × String)
deriving Repr, DecidableEq

/-- `BalanceReporter::txt_report`: every row prints `account_sum` and `sub_acc_tree_sum`, every delta line its
    sum, each through `shown`; the `Balance` it is given is the kernel's (`fromIter`), unrounded -/
def balanceTxt (sc : Scale) (b : Balance) : BalanceText :=
  { rows := b.rows.map (fun r => ⟨r.acct, r.comm, shown sc r.own, shown sc r.tree⟩),
    deltas := b.deltas.map (fun cd => (cd.1, shown sc cd.2)) }

/-- `BalanceReporter::write_txt_report` (no price conversion): `Balance::from` then `txt_report`.
    The scale enters only in the second step. -/
def balanceReport (st : Settings) (sel : BalRow → Bool) (sc : Scale) (posts : List BPost) : Outcome BalanceText :=
  (fromIter st sel posts).map (balanceTxt sc)

end Tackler

import TacklerModel.Model.Scale
import TacklerModel.Model.Register
import TacklerModel.Model.Group
/-!
# ReportText: the figures of the register and balance-group text reports

| Lean | Rust |
|---|---|
| `regRowTxt` | one posting line of `RegisterEntry::fmt_with_cfg` (`model/register.rs`): `amount_to_string(&p.post.amount, scale, 18)` and `amount_to_string(&p.amount, scale, 18)`, each with the precision of *its own* figure |
| `regRowCols` | the same two columns before the blank-separated tokenisation (with the leading blank of `amount_to_string`) |
| `regEntryTxt` | `fmt_with_cfg`: one line per listed posting, in the entry's order |
| `registerTxt` | `reg_entry_txt_writer` over the entries of `register_engine` (an entry without a listed posting is not written) |
| `registerReport` | `RegisterReporter::write_txt_report` without price conversion: `register_engine`, then the writer |
| `balgrpTxt` | the loop `for bal in &bal_groups { BalanceReporter::txt_report(writer, bal, &bal_settings)? }` of `BalanceGroupReporter::write_txt_report` (`bal_settings.scale` = the report's scale) |
| `balgrpReportBy`, `balgrpReport` | `BalanceGroupReporter::write_txt_report`: `balance_groups`, then the loop |

As in `Model/Scale`, titles, headers, rulers, padding and alignment are left out: a figure is the blank-free token of
its column.  The engines (`register`, `balanceGroups`) take no scale; it enters only in the `…Txt` step.
-/
namespace Tackler

/-- one posting line of the register report: account, the two figure columns as text, printed commodity -/
structure ShownRegRow where
  acct : Path
  comm : String
  amount : String
  total : String
deriving Repr, DecidableEq

/-- one printed register entry: the transaction of its header and its posting lines -/
structure ShownRegEntry where
  txn : Txn
  rows : List ShownRegRow
deriving Repr, DecidableEq

/-- the two figure columns of a posting line as `format!` receives them: `amount_to_string` of the posting's own
    amount and of the running total (`RegisterPosting::amount`), both for column width 18 -/
def regRowCols (sc : Scale) (r : RegRow) : List Char × List Char :=
  (amountToString sc r.post.amount 18, amountToString sc r.total 18)

/-- the figures of a posting line (blank-free tokens): `shown` of the posting's amount and of the running total;
    each figure has its own precision `getPrecision sc` (inside `shown`) -/
def regRowTxt (sc : Scale) (r : RegRow) : ShownRegRow :=
  ⟨r.post.acct, r.comm, shown sc r.post.amount, shown sc r.total⟩

/-- `RegisterEntry::fmt_with_cfg`: `for p in &self.posts` -/
def regEntryTxt (sc : Scale) (e : RegEntry) : ShownRegEntry := ⟨e.txn, e.rows.map (regRowTxt sc)⟩

/-- the register report's figures: every written entry (`printedEntries`) through `fmt_with_cfg` -/
def registerTxt (sc : Scale) (es : List RegEntry) : List ShownRegEntry := (printedEntries es).map (regEntryTxt sc)

/-- `RegisterReporter::write_txt_report` (no price conversion): `register_engine` then the text writer.
    The scale enters only in the second step. -/
def registerReport (sc : Scale) (sel : RegRow → Bool) (txns : List Txn) : Outcome (List ShownRegEntry) :=
  (register sel txns).map (registerTxt sc)

/-- one printed group of the balance-group report: its title and the figures of `txt_report` -/
structure GroupText where
  title : String
  txt : BalanceText
deriving Repr, DecidableEq

/-- `for bal in &bal_groups { BalanceReporter::txt_report(writer, bal, &bal_settings)? }` -/
def balgrpTxt (sc : Scale) (gs : List BalGroup) : List GroupText := gs.map (fun g => ⟨g.title, balanceTxt sc g.bal⟩)

/-- the balance-group report for an arbitrary key function -/
def balgrpReportBy (st : Settings) (sel : BalRow → Bool) (key : Txn → String) (sc : Scale) (txns : List Txn) :
    Outcome (List GroupText) :=
  (balanceGroupsBy st sel key txns).map (balgrpTxt sc)

/-- `BalanceGroupReporter::write_txt_report` (no price conversion): `balance_groups` then `txt_report` of every
    group.  The scale enters only in the second step. -/
def balgrpReport (st : Settings) (sel : BalRow → Bool) (g : GroupBy) (tz : Time.JournalTz) (sc : Scale)
    (txns : List Txn) : Outcome (List GroupText) :=
  (balanceGroups st sel g tz txns).map (balgrpTxt sc)

end Tackler

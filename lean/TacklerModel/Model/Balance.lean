import TacklerModel.Model.Order
/-!
# Balance: the balance kernel (`tackler-core/src/kernel/balance.rs`)

One definition per Rust function:
`accountSums` = the `sorted_by_key(acctn).chunk_by(acctn)…sum()` pipeline of `Balance::balance`,
`bubbleUp` = `Balance::bubble_up_acctn`, `completeTree` = bubble up from every account sum, flatten,
collect into a `BTreeSet` (ordered de-duplication), `treeNodes` = `Balance::get_balance_tree_nodes`,
`balance` = `Balance::balance`, `fromIter` = `Balance::from_iter` (selector filter, per-commodity deltas).
Input is the posting stream after price conversion: `(account, commodity, amount)` triples in
transaction order (`BPost`); without conversion it is `postsOf`.
-/
namespace Tackler

/-- an item of `PriceLookupCtx::convert_prices`: account, commodity, amount -/
structure BPost where
  acct : Path
  comm : String
  amount : Dec
deriving Repr, DecidableEq

/-- identity of a `TxnAccount`: (commodity, account) -/
abbrev AKey := String × Path

def BPost.key (p : BPost) : AKey := (p.comm, p.acct)

/-- `Ord for TxnAccount`: by commodity name, then by account *name* (string order) -/
def keyLe (a b : AKey) : Bool :=
  decide (a.1 < b.1) || (a.1 == b.1 && !decide (acctName b.2 < acctName a.2))

def keyLt (a b : AKey) : Bool :=
  decide (a.1 < b.1) || (a.1 == b.1 && decide (acctName a.2 < acctName b.2))

/-- without price conversion the stream is every posting's (account, commodity, amount) -/
def postsOf (txns : List Txn) : List BPost :=
  txns.flatMap (fun t => t.posts.map (fun p => ⟨p.acct, p.comm, p.amount⟩))

/-- itertools `chunk_by`: maximal runs of consecutive elements with equal key -/
def chunkBy {α κ} [DecidableEq κ] (key : α → κ) : List α → List (κ × List α)
  | [] => []
  | a :: t =>
    match chunkBy key t with
    | (k, g) :: rest => if key a = k then (k, a :: g) :: rest else (key a, [a]) :: (k, g) :: rest
    | [] => [(key a, [a])]

/-- sum every chunk (`ps.map(amount).sum::<Decimal>()`) -/
def sumGroups : List (AKey × List BPost) → Option (List (AKey × Dec))
  | [] => some []
  | (k, g) :: rest =>
    match Dec.sum (g.map (·.amount)) with
    | none => none
    | some s => match sumGroups rest with
      | none => none
      | some r => some ((k, s) :: r)

/-- account sums: stable sort by account key, group, sum in transaction order -/
def accountSums (posts : List BPost) : Option (List (AKey × Dec)) :=
  sumGroups (chunkBy BPost.key (posts.mergeSort (fun a b => keyLe a.key b.key)))

/-- `TxnAccount::is_parent_of` -/
def isParentOf (parent child : AKey) : Bool := parent.1 == child.1 && parent.2 == parentPath child.2

/-- `Balance::bubble_up_acctn` (fuel = depth of the account): the chain from the root down to `me`,
    existing ancestors with their sums, missing ones (gaps) created with a zero sum through
    `Settings::get_txn_account`.  (The Rust special case "parent is a missing root" returns
    `[(parent, 0), me]`, which is what the general branch computes.) -/
def bubbleUp (st : Settings) (sums : List (AKey × Dec)) : Nat → AKey × Dec → Outcome (List (AKey × Dec))
  | 0, _ => .undef
  | fuel + 1, me =>
    if me.1.2.length ≤ 1 then .ok [me]                    -- `is_root()`
    else
      match sums.find? (fun s => isParentOf s.1 me.1) with
      | some p => (bubbleUp st sums fuel p).map (· ++ [me])
      | none =>
        match st.getTxnAccount (parentPath me.1.2) me.1.1 with
        | .err => .err
        | .undef => .undef
        | .ok _ => (bubbleUp st sums fuel ((me.1.1, parentPath me.1.2), Dec.zero)).map (· ++ [me])

def bubbleAll (st : Settings) (sums : List (AKey × Dec)) : List (AKey × Dec) → Outcome (List (List (AKey × Dec)))
  | [] => .ok []
  | s :: rest =>
    match bubbleUp st sums s.1.2.length s with
    | .err => .err
    | .undef => .undef
    | .ok l => match bubbleAll st sums rest with
      | .err => .err
      | .undef => .undef
      | .ok ls => .ok (l :: ls)

/-- order of `(TxnAccount, Decimal)` pairs in the `BTreeSet`: account key, then value -/
def pairLt (a b : AKey × Dec) : Bool :=
  keyLt a.1 b.1 || (a.1 == b.1 && Dec.ltVal a.2 b.2)

/-- `BTreeSet::insert`: ordered insert, an element equal in the order is not inserted again -/
def btreeInsert (l : List (AKey × Dec)) (x : AKey × Dec) : List (AKey × Dec) :=
  match l with
  | [] => [x]
  | y :: t => if pairLt x y then x :: y :: t else if pairLt y x then y :: btreeInsert t x else y :: t

def btreeCollect (l : List (AKey × Dec)) : List (AKey × Dec) := l.foldl btreeInsert []

/-- the complete chart-of-accounts sum tree: bubble up from every account, flatten, ordered de-dup -/
def completeTree (st : Settings) (sums : List (AKey × Dec)) : Outcome (List (AKey × Dec)) :=
  (bubbleAll st sums sums).map (fun ls => btreeCollect ls.flatten)

/-- `BalanceTreeNode` -/
structure BalRow where
  acct : Path
  comm : String
  own : Dec       -- `account_sum`
  tree : Dec      -- `sub_acc_tree_sum`
deriving Repr, DecidableEq

def BalRow.key (r : BalRow) : AKey := (r.comm, r.acct)

def flattenOpt {α} : List (Option (List α)) → Option (List α)
  | [] => some []
  | none :: _ => none
  | some l :: rest => match flattenOpt rest with
    | none => none
    | some r => some (l ++ r)

/-- `Balance::get_balance_tree_nodes` (fuel = maximal depth): my node followed by my children's
    subtrees; my tree sum = (sum of my direct children's tree sums, in list order) + my own sum -/
def treeNodes (complete : List (AKey × Dec)) : Nat → AKey × Dec → Option (List BalRow)
  | 0, _ => none
  | fuel + 1, me =>
    match flattenOpt ((complete.filter (fun s => isParentOf me.1 s.1)).map (treeNodes complete fuel)) with
    | none => none
    | some sub =>
      match Dec.sum ((sub.filter (fun r => parentPath r.acct == me.1.2)).map (·.tree)) with
      | none => none
      | some cs =>
        match Dec.add cs me.2 with
        | none => none
        | some t => some (⟨me.1.2, me.1.1, me.2, t⟩ :: sub)

def maxDepth (complete : List (AKey × Dec)) : Nat := (complete.map (·.1.2.length)).foldl max 0

/-- `Balance::balance`: unfiltered balance rows, sorted by (commodity, account name) -/
def balance (st : Settings) (posts : List BPost) : Outcome (List BalRow) :=
  match accountSums posts with
  | none => .undef
  | some sums =>
    match completeTree st sums with
    | .err => .err
    | .undef => .undef
    | .ok complete =>
      match flattenOpt ((complete.filter (fun s => s.1.2.length == 1)).map
              (treeNodes complete (maxDepth complete + 1))) with
      | none => .undef
      | some bal => .ok (bal.mergeSort (fun a b => keyLe a.key b.key))

/-- per-commodity deltas of the listed rows (`chunk_by` commodity over the sorted rows) -/
def deltaGroups : List (String × List BalRow) → Option (List (String × Dec))
  | [] => some []
  | (c, g) :: rest =>
    match Dec.sum (g.map (·.own)) with
    | none => none
    | some s => match deltaGroups rest with
      | none => none
      | some r => some ((c, s) :: r)

structure Balance where
  rows : List BalRow
  deltas : List (String × Dec)      -- in the order the reporter prints them (by commodity name)
deriving Repr, DecidableEq

/-- `Balance::from_iter`: balance, account selector, deltas over the listed rows.
    The `Deltas` hash map collapses repeated commodity chunks (last one wins) and is printed sorted
    by commodity name. -/
def fromIter (st : Settings) (sel : BalRow → Bool) (posts : List BPost) : Outcome Balance :=
  match balance st posts with
  | .err => .err
  | .undef => .undef
  | .ok bal =>
    match deltaGroups (chunkBy (·.comm) (bal.filter sel)) with
    | none => .undef
    | some ds => .ok ⟨bal.filter sel, ds⟩

end Tackler

/-!
# Output: the output protocol of the CLI (reports and exports written to files)

State machine of what `tackler --output.dir D --output.prefix P` does with its destinations.
One Lean definition per Rust function on the path:

| Lean                         | Rust                                                                         |
|------------------------------|------------------------------------------------------------------------------|
| `Sink.writeAll`              | `<File as Write>::write_all` under a file-size limit (OS interface, trusted)   |
| `BufWriter.flushBuf`         | `std::io::BufWriter::flush_buf`                                              |
| `BufWriter.writeAll`         | `BufWriter::write_all` (fast path: chunk strictly smaller than the spare room) |
| `BufWriter.writeAllCold`     | `BufWriter::write_all_cold` (flush when the chunk does not fit; a chunk of at   |
|                              | least the capacity bypasses the buffer)                                      |
| `BufWriter.flush`            | `<BufWriter as Write>::flush` (`flush_buf` then `File::flush`, a no-op)          |
| `BufWriter.drop`             | `<BufWriter as Drop>::drop` (`flush_buf`, result **ignored**)                    |
| `writeChunks`                | the `write!`/`writeln!` calls of one reporter/exporter, each ended by `?`       |
| `createNew`                  | `tackler_rs::create_output_file` (`File::create_new` + `BufWriter::new`)       |
| `writeDestV`                 | one `match` arm of `write_txt_reports` / `write_exports`                        |
| `writeManyV`                 | the `for r in reports` / `for e in exports` loop with its `?`s                  |
| `writeTxtReportsV`, `writeExportsV` | `report::write_txt_reports` (file mode), `export::write_exports`          |
| `runV`                       | `tackler-cli/src/main.rs` `run` (output part) and `main` (exit status)          |
| `cliRunV`                    | the same with the loading phase in front, as an unmodelled parameter `Loader`  |

The code modelled is the code *after* the proposed fix `fixes/F4-flush.diff` (`out_writer.flush()?` before the
announcement line).  The Boolean `flushChecked` selects the variant: `true` = patched (`run`, `writeDest`, …),
`false` = the tree before the fix (kept only for the regression witness of finding F4).

What is **not** modelled (trusted interface, see DESIGN.md §8/§9 and the `trusted_base` of gen/c14.py):
the kernel/file-system half.  It enters only through
* `FS` – a map path ↦ bytes, `createNew` fails iff the path is present (`O_CREAT|O_EXCL`);
  other creation failures (missing directory, permissions) behave like "present" for this protocol;
* `Sink.writeAll` – a file accepts bytes up to its limit and then fails, keeping the accepted prefix
  (what `write(2)` does under `RLIMIT_FSIZE` with `SIGXFSZ` ignored: short write up to the limit, then `EFBIG`);
  a fault plan gives every destination its own limit (or none);
* `close(2)` errors are ignored by `File`'s destructor and cannot be observed by the program;
* the announcement lines go to stdout, which is assumed writable.
-/
namespace Tackler
namespace Output

abbrev Bytes := List UInt8
abbrev Path := String

/-! ## OS interface -/

/-- the file system: path ↦ content (absent = `none`) -/
structure FS where
  file : Path → Option Bytes

def FS.set (fs : FS) (p : Path) (b : Bytes) : FS :=
  ⟨fun q => if q = p then some b else fs.file q⟩

/-- does `b` fit under the limit? -/
def fits : Option Nat → Bytes → Bool
  | none, _ => true
  | some k, b => decide (b.length ≤ k)

/-- the part of `b` a file with that limit can hold -/
def lim : Option Nat → Bytes → Bytes
  | none, b => b
  | some k, b => b.take k

/-- an open, freshly created file: bytes that reached it, and the offset at which writes start to fail -/
structure Sink where
  data : Bytes
  limit : Option Nat
deriving Repr, DecidableEq

/-- `write_all` on the file: everything, or the prefix up to the limit and an error.
    Returns the file, the part of `bs` that was not written, and `true` for `Ok(())`. -/
def Sink.writeAll (s : Sink) (bs : Bytes) : Sink × Bytes × Bool :=
  match s.limit with
  | none => (⟨s.data ++ bs, none⟩, [], true)
  | some k =>
    if s.data.length + bs.length ≤ k then (⟨s.data ++ bs, some k⟩, [], true)
    else (⟨s.data ++ bs.take (k - s.data.length), some k⟩, bs.drop (k - s.data.length), false)

/-! ## `std::io::BufWriter` -/

structure BufWriter where
  inner : Sink
  buf : Bytes
  cap : Nat
deriving Repr, DecidableEq

/-- `flush_buf`: write the buffer to the file; written bytes leave the buffer also when it fails.
    An empty buffer causes no `write` call at all. -/
def BufWriter.flushBuf (w : BufWriter) : BufWriter × Bool :=
  match w.buf with
  | [] => (w, true)
  | b :: bs =>
    let r := w.inner.writeAll (b :: bs)
    ({ w with inner := r.1, buf := r.2.1 }, r.2.2)

/-- second half of `write_all_cold`: a chunk of at least the capacity goes straight to the file,
    a smaller one into the (now sufficient) buffer -/
def BufWriter.writeThrough (w : BufWriter) (bs : Bytes) : BufWriter × Bool :=
  if bs.length ≥ w.cap then
    let r := w.inner.writeAll bs
    ({ w with inner := r.1 }, r.2.2)
  else ({ w with buf := w.buf ++ bs }, true)

/-- `write_all_cold`: `if buf.len() > self.spare_capacity() { self.flush_buf()?; }` then `writeThrough` -/
def BufWriter.writeAllCold (w : BufWriter) (bs : Bytes) : BufWriter × Bool :=
  if bs.length > w.cap - w.buf.length then
    let f := w.flushBuf
    if f.2 = true then f.1.writeThrough bs
    else (f.1, false)
  else w.writeThrough bs

/-- `write_all`: `if buf.len() < self.spare_capacity() { buffer } else { self.write_all_cold(buf) }` -/
def BufWriter.writeAll (w : BufWriter) (bs : Bytes) : BufWriter × Bool :=
  if bs.length < w.cap - w.buf.length then ({ w with buf := w.buf ++ bs }, true)
  else w.writeAllCold bs

/-- `Write::flush` of the `BufWriter`: `flush_buf()` then `File::flush()` (which does nothing) -/
def BufWriter.flush (w : BufWriter) : BufWriter × Bool := w.flushBuf

/-- `Drop`: `let _r = self.flush_buf();` – the file that is left behind -/
def BufWriter.drop (w : BufWriter) : Sink := w.flushBuf.1.inner

/-! ## one destination -/

/-- A destination: where, and what the reporter/exporter writes there, in the pieces it issues
    (`write!`/`writeln!` end in one `write_all` per formatted piece).
    `setupOk = false`: building the reporter fails (`…::try_from(settings)?`, before the file is created).
    `bodyOk = false`: the reporter returns a non-I/O `Err` after issuing `chunks`. -/
structure Dest where
  path : Path
  chunks : List Bytes
  setupOk : Bool := true
  bodyOk : Bool := true
deriving Repr, DecidableEq

/-- the complete content of a destination -/
def Dest.content (d : Dest) : Bytes := d.chunks.flatten

/-- the reporter's writes, each followed by `?` -/
def writeChunks : BufWriter → List Bytes → BufWriter × Bool
  | w, [] => (w, true)
  | w, c :: cs =>
    let r := w.writeAll c
    if r.2 = true then writeChunks r.1 cs
    else (r.1, false)

/-- `create_output_file`: `File::create_new` (fails if the path exists) wrapped in a `BufWriter` -/
def createNew (cap : Nat) (fs : FS) (limit : Option Nat) (p : Path) : Option BufWriter :=
  match fs.file p with
  | some _ => none
  | none => some ⟨⟨[], limit⟩, [], cap⟩

/-- result of one destination: the file system afterwards, and `true` iff the arm ran to its end,
    which is exactly when the announcement line was printed -/
structure DestResult where
  fs : FS
  ok : Bool

/-- one arm of `write_txt_reports` / `write_exports`:
    reporter setup `?`; `create_output_file(..)?`; body writes `?`; [`flush()?`]; announcement; scope end = drop.
    On every early return the writer is dropped too (flush, result ignored). -/
def writeDestV (flushChecked : Bool) (cap : Nat) (fs : FS) (limit : Option Nat) (d : Dest) : DestResult :=
  if d.setupOk = false then ⟨fs, false⟩
  else
    match createNew cap fs limit d.path with
    | none => ⟨fs, false⟩
    | some w0 =>
      let r := writeChunks w0 d.chunks
      if r.2 = false then ⟨fs.set d.path r.1.drop.data, false⟩
      else if d.bodyOk = false then ⟨fs.set d.path r.1.drop.data, false⟩
      else if flushChecked = true then
        let f := r.1.flush
        if f.2 = false then ⟨fs.set d.path f.1.drop.data, false⟩
        else ⟨fs.set d.path f.1.drop.data, true⟩
      else ⟨fs.set d.path r.1.drop.data, true⟩

/-! ## all destinations -/

/-- per destination path: the offset after which writes fail, or `none` -/
abbrev FaultPlan := Path → Option Nat

structure ManyResult where
  fs : FS
  announced : List Path
  ok : Bool

/-- the loop over the targets; the first `Err` ends it -/
def writeManyV (flushChecked : Bool) (cap : Nat) (faults : FaultPlan) : List Dest → FS → ManyResult
  | [], fs => ⟨fs, [], true⟩
  | d :: ds, fs =>
    let r := writeDestV flushChecked cap fs (faults d.path) d
    if r.ok = true then
      let m := writeManyV flushChecked cap faults ds r.fs
      ⟨m.fs, d.path :: m.announced, m.ok⟩
    else ⟨r.fs, [], false⟩

def writeTxtReportsV (flushChecked : Bool) (cap : Nat) (faults : FaultPlan) (reports : List Dest) (fs : FS) : ManyResult :=
  writeManyV flushChecked cap faults reports fs

def writeExportsV (flushChecked : Bool) (cap : Nat) (faults : FaultPlan) (exports : List Dest) (fs : FS) : ManyResult :=
  writeManyV flushChecked cap faults exports fs

/-- what the run is asked to produce: the report targets in their configured order, then the export targets -/
structure Plan where
  reports : List Dest
  exports : List Dest
deriving Repr

def Plan.dests (p : Plan) : List Dest := p.reports ++ p.exports

structure Result where
  exit : Nat
  fs : FS
  announced : List Path

/-- `run` + `main`: reports, `?`, exports, `?`; `Ok` ⇒ `exit(0)`, `Err` ⇒ `exit(1)` -/
def runV (flushChecked : Bool) (cap : Nat) (plan : Plan) (fs : FS) (faults : FaultPlan) : Result :=
  let r := writeTxtReportsV flushChecked cap faults plan.reports fs
  if r.ok = false then ⟨1, r.fs, r.announced⟩
  else
    let e := writeExportsV flushChecked cap faults plan.exports r.fs
    ⟨if e.ok = true then 0 else 1, e.fs, r.announced ++ e.announced⟩

/-! ## the part of `run` before the outputs -/

/-- Configuration, journal loading (`paths_to_txns` / `git_to_txns`), filtering, the empty-set check: everything `run`
    does before it writes.  Not modelled — a parameter: what it does to the file system, and whether it succeeds. -/
structure Loader where
  load : FS → FS × Bool

/-- the whole of `run` + `main`: load (`?`), then the outputs -/
def cliRunV (flushChecked : Bool) (L : Loader) (cap : Nat) (plan : Plan) (fs : FS) (faults : FaultPlan) : Result :=
  if (L.load fs).2 = false then ⟨1, (L.load fs).1, []⟩
  else runV flushChecked cap plan (L.load fs).1 faults

/-! ## the patched code (what the theorems of `Props/C14.lean` are about) -/

/-- capacity of `BufWriter::new` (`DEFAULT_BUF_SIZE`) -/
def defaultCap : Nat := 8192

def writeDest := writeDestV true
def writeMany := writeManyV true
def run (cap : Nat) (plan : Plan) (fs : FS) (faults : FaultPlan) : Result := runV true cap plan fs faults
def cliRun (L : Loader) (cap : Nat) (plan : Plan) (fs : FS) (faults : FaultPlan) : Result :=
  cliRunV true L cap plan fs faults

end Output
end Tackler

import TacklerModel.Model.Balance
import TacklerModel.Model.Time
/-!
# Group: the balance-group kernel

| Lean                | Rust                                                                                          |
|---------------------|-----------------------------------------------------------------------------------------------|
| `GroupBy`           | `tackler_api::txn_ts::GroupBy`                                                                |
| `periodText`        | `txn_ts::as_tz_year` / `as_tz_month` / `as_tz_date` / `as_tz_iso_week` / `as_tz_iso_week_date`: `fmt_*(&ts.with_time_zone(tz))`, i.e. the period text of the instant's civil date at the offset the report zone has at that instant |
| `reportOffset`      | `Zoned::with_time_zone` → `TimeZone::to_offset` (fixed offset, or a named zone given as *data*: `Time.ZoneTable`, exported from jiff) |
| `groupKey`          | the closure returned by `BalanceGroupReporter::get_group_by_op`                               |
| `groupCandidates`   | `txns.iter().sorted_by_cached_key(group_by_op).chunk_by(group_by_op)` of `accumulator::balance_groups` (after the fix of F12: stable sort by key, then runs of equal keys) |
| `groupBalances`     | `.map(|(key, txns)| Balance::from_iter(&key, txns, …).expect(…))`                             |
| `balanceGroups`     | `accumulator::balance_groups`: … `.filter(|bal| !bal.is_empty()).collect()`                   |
| `balanceGroupsConsecutive` | `balance_groups` before the fix of F12 (`chunk_by` on the instant-ordered list, titles sorted afterwards) |

The price-converted posting stream is out of scope (report commodity unset): the kernel input of a group is
`postsOf members`.  `Balance::from_iter` failing inside `balance_groups` is a *panic* in the Rust code (`expect`);
the model answers `.err` there (the site is not reachable after a successful load: every ancestor account exists).
Outside the window of a zone table the model answers `.undef`.
-/
namespace Tackler

/-- `GroupBy` -/
inductive GroupBy where
  | year | month | date | isoWeek | isoWeekDate
deriving Repr, DecidableEq

/-- `fmt_year` / `fmt_month` / `fmt_date` / `fmt_week` / `fmt_week_date` of the instant seen at offset `off` -/
def periodText (g : GroupBy) (ns off : Int) : String :=
  match g with
  | .year => Time.fmtYear ns off
  | .month => Time.fmtMonth ns off
  | .date => Time.fmtDate ns off
  | .isoWeek => Time.fmtIsoWeek ns off
  | .isoWeekDate => Time.fmtIsoWeekDate ns off

/-- the offset the report zone has at an instant (`TimeZone::to_offset`) -/
def reportOffset (tz : Time.JournalTz) (ns : Int) : Int :=
  match tz with
  | .fixed off => off
  | .table z => Time.offsetAt z ns

/-- `get_group_by_op`: the period text of the transaction's instant in the report zone -/
def groupKey (g : GroupBy) (tz : Time.JournalTz) (t : Txn) : String :=
  periodText g t.header.ts.ns (reportOffset tz t.header.ts.ns)

/-- the model predicts the report zone's offset: always for a fixed offset, inside the window for a table -/
def zoneCovers (tz : Time.JournalTz) (txns : List Txn) : Bool :=
  match tz with
  | .fixed _ => true
  | .table z => txns.all (fun t => Time.inWindow z t.header.ts.ns)

/-- order of the group keys (`Ord for String`) as the sort's comparison -/
def keyLeS (key : Txn → String) (a b : Txn) : Bool := !decide (key b < key a)

/-- `sorted_by_cached_key(key).chunk_by(key)`: stable sort by key, then maximal runs of equal keys -/
def groupCandidates (key : Txn → String) (txns : List Txn) : List (String × List Txn) :=
  chunkBy key (txns.mergeSort (keyLeS key))

/-- one printed group: `Balance { title, bal, deltas }` -/
structure BalGroup where
  title : String
  bal : Balance
deriving Repr, DecidableEq

/-- `Balance::from_iter` of every candidate, in order -/
def groupBalances (st : Settings) (sel : BalRow → Bool) : List (String × List Txn) → Outcome (List BalGroup)
  | [] => .ok []
  | (k, g) :: rest =>
    match fromIter st sel (postsOf g) with
    | .err => .err
    | .undef => .undef
    | .ok b =>
      match groupBalances st sel rest with
      | .err => .err
      | .undef => .undef
      | .ok r => .ok (⟨k, b⟩ :: r)

/-- `Balance::is_empty` -/
def BalGroup.isEmpty (g : BalGroup) : Bool := g.bal.rows.isEmpty

/-- `balance_groups` for an arbitrary key function -/
def balanceGroupsBy (st : Settings) (sel : BalRow → Bool) (key : Txn → String) (txns : List Txn) :
    Outcome (List BalGroup) :=
  (groupBalances st sel (groupCandidates key txns)).map (fun gs => gs.filter (fun g => !g.isEmpty))

/-- `accumulator::balance_groups` with the key of `BalanceGroupReporter::get_group_by_op` -/
def balanceGroups (st : Settings) (sel : BalRow → Bool) (g : GroupBy) (tz : Time.JournalTz) (txns : List Txn) :
    Outcome (List BalGroup) :=
  if zoneCovers tz txns then balanceGroupsBy st sel (groupKey g tz) txns else .undef

/-- `balance_groups` as it was before the fix of F12: `chunk_by(key)` on the list as it is (ordered by instant),
    `from_iter`, drop the empty ones, then `sorted_by_key(title)` (stable).  Kept for the witness of F12 and for the
    theorem that the fix changes nothing at a fixed offset. -/
def balanceGroupsConsecutive (st : Settings) (sel : BalRow → Bool) (key : Txn → String) (txns : List Txn) :
    Outcome (List BalGroup) :=
  (groupBalances st sel (chunkBy key txns)).map
    (fun gs => (gs.filter (fun g => !g.isEmpty)).mergeSort (fun a b => !decide (b.title < a.title)))

end Tackler

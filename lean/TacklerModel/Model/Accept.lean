import TacklerModel.Model.Settings
/-!
# Accept: from parse tree to accepted transaction

Mirrors `handle_posting_value` (posting_value.rs), `handle_posting` / `Posting::from`
(txn_posting.rs, posting.rs), `parse_txn_postings` (txn_postings.rs), `parse_txn_header`'s
semantic checks (txn_header.rs, txn_meta_tags.rs, location.rs), `parse_txn` (txns.rs) and
`Transaction::from` (transaction.rs).  Every semantic error is a *cut* error in the parser, so a
single `.err` rejects the whole input (`acceptJournal`).
-/
namespace Tackler

/-- `ValuePosition` -/
structure VP where
  postAmount : Dec
  txnAmount : Dec
  isTotal : Bool
  postComm : String
  txnComm : String
deriving Repr, DecidableEq

def openingNeg : Option Val → Bool
  | some o => o.value.isNeg
  | none => false

/-- value part of `handle_posting_value` (no settings involved) -/
def valuePosition (amount : Dec) (unit : Option PostUnit) : Outcome VP :=
  match unit with
  | none => .ok ⟨amount, amount, false, "", ""⟩
  | some u =>
    match u.closing with
    | none =>
      -- no closing position: transaction commodity is the posting's commodity (fix of F2)
      if openingNeg u.opening then .err
      else .ok ⟨amount, amount, false, u.comm, u.comm⟩
    | some (.total v) =>
      if u.comm = v.comm then .err
      else if openingNeg u.opening then .err
      else if (v.value.isNeg && amount.isPos) || (amount.isNeg && v.value.isPos) then .err
      else .ok ⟨amount, v.value, true, u.comm, v.comm⟩
    | some (.unitPrice v) =>
      if u.comm = v.comm then .err
      else if openingNeg u.opening then .err
      else if v.value.isNeg then .err
      else match Dec.mul amount v.value with
        | some t => .ok ⟨amount, t, false, u.comm, v.comm⟩
        | none => Outcome.inexact (Dec.mulOverflows amount v.value)   -- `checked_mul` (fix of F6)

/-- commodity registrations of `handle_posting_value` (strict-mode checks, chart growth) -/
def registerUnit (st : Settings) (unit : Option PostUnit) : Outcome Settings :=
  match unit with
  | none => .ok st
  | some u =>
    match st.getOrCreateCommodity (some u.comm) with
    | .err => .err
    | .undef => .undef
    | .ok (_, st1) =>
      match u.closing with
      | none => .ok st1
      | some (.total v) => (st1.getOrCreateCommodity (some v.comm)).map (·.2)
      | some (.unitPrice v) => (st1.getOrCreateCommodity (some v.comm)).map (·.2)

/-- `Posting::from`: zero amounts are rejected -/
def mkPosting (p : Posting) : Outcome Posting := if p.amount.isZero then .err else .ok p

/-- one value-carrying posting line: `parse_posting_value`, `handle_posting` -/
def handlePosting (st : Settings) (rp : RawPosting) : Outcome (Posting × Settings) :=
  match registerUnit st rp.unit with
  | .err => .err
  | .undef => .undef
  | .ok st1 =>
    match valuePosition rp.amount rp.unit with
    | .err => .err
    | .undef => .undef
    | .ok vp =>
      match st1.getOrCreateTxnAccount rp.acct vp.postComm with
      | .err => .err
      | .undef => .undef
      | .ok (a, st2) =>
        (mkPosting ⟨a, vp.postComm, vp.postAmount, vp.txnAmount, vp.isTotal, vp.txnComm, rp.comment⟩).map
          (·, st2)

/-- `posting::txn_sum` -/
def txnSum (ps : List Posting) : Option Dec := Dec.sum (ps.map (·.txnAmount))

/-- `posting::txn_sum` returns the overflow error (fix of F6) -/
def txnSumOverflows (ps : List Posting) : Bool := Dec.sumOverflows (ps.map (·.txnAmount))

/-- `parse_txn_postings`: the amount-less last posting gets the negated sum in the first posting's
    transaction commodity and is built through `Posting::from` (fix of F1) -/
def acceptPostings (st : Settings) (posts : List RawPosting) (last : Option (Path × Option String)) :
    Outcome (List Posting × Settings) :=
  match mapMS handlePosting st posts with
  | .err => .err
  | .undef => .undef
  | .ok (ps, st1) =>
    match ps with
    | [] => .err                                   -- `repeat(1.., parse_txn_posting)`
    | p0 :: rest =>
      match last with
      | none => .ok (p0 :: rest, st1)
      | some (a, cmt) =>
        match txnSum (p0 :: rest) with
        | none => Outcome.inexact (txnSumOverflows (p0 :: rest))      -- `checked_add` (fix of F6)
        | some s =>
          match st1.getOrCreateTxnAccount a p0.txnComm with
          | .err => .err
          | .undef => .undef
          | .ok (a', st2) =>
            (mkPosting ⟨a', p0.txnComm, s.negate, s.negate, false, p0.txnComm, cmt⟩).map
              (fun l => ((p0 :: rest) ++ [l], st2))

def decOfInt (n : Int) : Dec := Dec.ofInt n

/-- `GeoPoint::from` range checks -/
def geoOk (g : Geo) : Bool :=
  !(Dec.ltVal g.lat (decOfInt (-90)) || Dec.ltVal (decOfInt 90) g.lat) &&
  !(Dec.ltVal g.lon (decOfInt (-180)) || Dec.ltVal (decOfInt 180) g.lon) &&
  (match g.alt with
   | some z => !(Dec.ltVal z (decOfInt (-6378137)))
   | none => true)

/-- `handle_tags`: register every tag, then reject duplicates -/
def acceptTags (st : Settings) (tags : List String) : Outcome Settings :=
  match mapMS (fun s t => s.getOrCreateTag t) st tags with
  | .err => .err
  | .undef => .undef
  | .ok (_, st1) => if tags.Nodup then .ok st1 else .err

/-- semantic checks of `parse_txn_header` -/
def acceptHeader (st : Settings) (h : Header) : Outcome Settings :=
  match (match h.location with | some g => geoOk g | none => true) with
  | false => .err
  | true =>
    match (match h.tags with | some ts => acceptTags st ts | none => .ok st) with
    | .err => .err
    | .undef => .undef
    | .ok st1 => if st.audit && h.uuid.isNone then .err else .ok st1

/-- `parse_txn` + `Transaction::from` -/
def acceptTxn (st : Settings) (r : RawTxn) : Outcome (Txn × Settings) :=
  match acceptHeader st r.header with
  | .err => .err
  | .undef => .undef
  | .ok st1 =>
    match acceptPostings st1 r.posts r.last with
    | .err => .err
    | .undef => .undef
    | .ok (ps, st2) =>
      match ps with
      | [] => .err
      | p0 :: _ =>
        if ps.any (fun p => p.txnComm != p0.txnComm) then .err      -- `unique().count() > 1`
        else match txnSum ps with
          | none => Outcome.inexact (txnSumOverflows ps)              -- `checked_add` (fix of F6)
          | some s => if s.isZero then .ok (⟨r.header, ps⟩, st2) else .err

/-- `parse_txns`: every transaction or nothing -/
def acceptJournal (st : Settings) (rs : List RawTxn) : Outcome (List Txn × Settings) :=
  mapMS acceptTxn st rs

end Tackler

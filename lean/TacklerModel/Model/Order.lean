import TacklerModel.Model.Accept
/-!
# Order: `impl Ord for TxnHeader` and the load-time sort (`TxnData::from`)
-/
namespace Tackler

def optStr : Option String → String
  | some s => s
  | none => ""

/-- `Ord for Option<String>`: `None` first, then by string -/
def optLt : Option String → Option String → Bool
  | none, none => false
  | none, some _ => true
  | some _, none => false
  | some a, some b => decide (a < b)

/-- the sort key of `impl Ord for TxnHeader`: (instant, code, description, uuid text or "") -/
def hdrKey (h : Header) : Int × Option String × Option String × String :=
  (h.ts.ns, h.code, h.desc, optStr h.uuid)

/-- `a ≤ b` in the header order (lexicographic on the key) -/
def hdrLe (a b : Header) : Bool :=
  let ka := hdrKey a
  let kb := hdrKey b
  if ka.1 < kb.1 then true else if kb.1 < ka.1 then false
  else if optLt ka.2.1 kb.2.1 then true else if optLt kb.2.1 ka.2.1 then false
  else if optLt ka.2.2.1 kb.2.2.1 then true else if optLt kb.2.2.1 ka.2.2.1 then false
  else !(kb.2.2.2 < ka.2.2.2)

def txnLe (a b : Txn) : Bool := hdrLe a.header b.header

/-- `TxnData::from`: stable sort by header -/
def sortTxns (ts : List Txn) : List Txn := ts.mergeSort txnLe

/-- `string_to_txns`: at least one transaction (`repeat_till(1.., parse_txn, eof)`), accept all, sort -/
def loadJournal (st : Settings) (rs : List RawTxn) : Outcome (List Txn × Settings) :=
  match rs with
  | [] => .err
  | _ :: _ => (acceptJournal st rs).map (fun (ts, st') => (sortTxns ts, st'))

end Tackler

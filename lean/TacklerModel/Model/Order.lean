import TacklerModel.Model.Accept
/-!
# Order: `impl Ord for TxnHeader` and the load-time sort (`TxnData::from`)
-/
namespace Tackler

def optStr : Option String → String
  | some s => s
  | none => ""

/-- the sort key of `impl Ord for TxnHeader`: instant, code or "", description or "", uuid text or "",
    then the tie-breaks "code present", "description present" (absent sorts before empty) -/
def hdrKey (h : Header) : Int × String × String × String × Bool × Bool :=
  (h.ts.ns, optStr h.code, optStr h.desc, optStr h.uuid, h.code.isSome, h.desc.isSome)

def boolLt (a b : Bool) : Bool := !a && b

/-- `a ≤ b` in the header order (lexicographic on the key) -/
def hdrLe (a b : Header) : Bool :=
  let ka := hdrKey a
  let kb := hdrKey b
  if ka.1 < kb.1 then true else if kb.1 < ka.1 then false
  else if ka.2.1 < kb.2.1 then true else if kb.2.1 < ka.2.1 then false
  else if ka.2.2.1 < kb.2.2.1 then true else if kb.2.2.1 < ka.2.2.1 then false
  else if ka.2.2.2.1 < kb.2.2.2.1 then true else if kb.2.2.2.1 < ka.2.2.2.1 then false
  else if boolLt ka.2.2.2.2.1 kb.2.2.2.2.1 then true else if boolLt kb.2.2.2.2.1 ka.2.2.2.2.1 then false
  else !(boolLt kb.2.2.2.2.2 ka.2.2.2.2.2)

def txnLe (a b : Txn) : Bool := hdrLe a.header b.header

/-- `TxnData::from`: stable sort by header -/
def sortTxns (ts : List Txn) : List Txn := ts.mergeSort txnLe

/-- `string_to_txns`: at least one transaction (`repeat_till(1.., parse_txn, eof)`), accept all, sort -/
def loadJournal (st : Settings) (rs : List RawTxn) : Outcome (List Txn × Settings) :=
  match rs with
  | [] => .err
  | _ :: _ => (acceptJournal st rs).map (fun (ts, st') => (sortTxns ts, st'))

end Tackler

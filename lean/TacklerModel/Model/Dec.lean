import TacklerModel.Model.Basic
/-!
# Dec: the `rust_decimal::Decimal` representation and the operations tackler uses

Mirrors `rust_decimal` 1.37.1 (DESIGN.md Appendix C): sign flag, 96-bit coefficient, scale 0…28.
`units` is the value layer (integer number of 10⁻²⁸ units); theorems about sums are stated
over `units`.  `add`/`mul` return `none` whenever the exact result is not representable
(`rust_decimal` would round or overflow there) – the `ExactDomain` of the properties.
-/
namespace Tackler

structure Dec where
  neg : Bool
  coeff : Nat
  scale : Nat
deriving Repr, DecidableEq, Inhabited

def sgn (b : Bool) : Int := if b then -1 else 1

def max96 : Nat := 2^96 - 1

namespace Dec

/-- value in units of 10⁻²⁸ -/
def units (d : Dec) : Int := sgn d.neg * (d.coeff : Int) * (10 : Int) ^ (28 - d.scale)

/-- representation invariant of every `Decimal` -/
def WF (d : Dec) : Prop := d.scale ≤ 28 ∧ d.coeff ≤ max96

instance (d : Dec) : Decidable d.WF := by unfold WF; exact inferInstance

def isZero (d : Dec) : Bool := d.coeff == 0
/-- `is_sign_negative`: the sign flag, also set for `-0` -/
def isNeg (d : Dec) : Bool := d.neg
def isPos (d : Dec) : Bool := !d.neg
/-- `Neg::neg` flips the flag even of zero -/
def negate (d : Dec) : Dec := { d with neg := !d.neg }
def zero : Dec := ⟨false, 0, 0⟩
def ofInt (n : Int) : Dec := ⟨decide (n < 0), n.natAbs, 0⟩

/-- exact path of `Decimal::add`; `none` when the aligned result does not fit 96 bits -/
def add (a b : Dec) : Option Dec :=
  if a.isZero then some b else if b.isZero then some a else
  let s := max a.scale b.scale
  let x : Int := sgn a.neg * ((a.coeff * 10 ^ (s - a.scale) : Nat) : Int)
  let y : Int := sgn b.neg * ((b.coeff * 10 ^ (s - b.scale) : Nat) : Int)
  let z := x + y
  if z.natAbs ≤ max96 then some { neg := decide (z < 0), coeff := z.natAbs, scale := s } else none

/-- exact path of `Decimal::mul` -/
def mul (a b : Dec) : Option Dec :=
  if a.isZero || b.isZero then some Dec.zero
  else if a.scale + b.scale ≤ 28 ∧ a.coeff * b.coeff ≤ max96 then
    some { neg := a.neg != b.neg, coeff := a.coeff * b.coeff, scale := a.scale + b.scale }
  else none

/-- `Iterator::sum::<Decimal>()`: left fold from `ZERO` with `+` -/
def sumFrom : Dec → List Dec → Option Dec
  | acc, [] => some acc
  | acc, d :: t => match add acc d with
    | some s => sumFrom s t
    | none => none

def sum (l : List Dec) : Option Dec := sumFrom zero l

/-! ### overflow (`checked_add`/`checked_mul` = `None`) as opposed to silent rounding

When the exact result is not representable `rust_decimal` first lowers the scale (half-even rounding) and
reports an overflow only if the value does not fit 96 bits even at scale 0.  If the integer part alone
exceeds 2⁹⁶−1 that is certain; if it is below 2⁹⁶−1 the result is a rounded value (F17, not modelled);
on the edge the model does not decide. -/

/-- `a.checked_mul(b) = None` for certain -/
def mulOverflows (a b : Dec) : Bool :=
  decide ((a.coeff * b.coeff) / 10 ^ (a.scale + b.scale) > max96)

/-- `a.checked_add(b) = None` for certain -/
def addOverflows (a b : Dec) : Bool :=
  let s := max a.scale b.scale
  let x : Int := sgn a.neg * ((a.coeff * 10 ^ (s - a.scale) : Nat) : Int)
  let y : Int := sgn b.neg * ((b.coeff * 10 ^ (s - b.scale) : Nat) : Int)
  decide ((x + y).natAbs / 10 ^ s > max96)

/-- the fold of `sumFrom` stops at an addition that overflows for certain -/
def sumFromOverflows : Dec → List Dec → Bool
  | _, [] => false
  | acc, d :: t => match add acc d with
    | some s => sumFromOverflows s t
    | none => addOverflows acc d

def sumOverflows (l : List Dec) : Bool := sumFromOverflows zero l

/-- value comparison (`Ord for Decimal` is by value) -/
def cmpVal (a b : Dec) : Ordering := compare a.units b.units
def eqVal (a b : Dec) : Bool := a.units == b.units
def ltVal (a b : Dec) : Bool := decide (a.units < b.units)
def leVal (a b : Dec) : Bool := decide (a.units ≤ b.units)

/-! ### text -/

/-- left-pad a digit list with '0' to length `n` -/
def padLeft (n : Nat) (l : List Char) : List Char := List.replicate (n - l.length) '0' ++ l

/-- `Display for Decimal` without precision -/
def toChars (d : Dec) : List Char :=
  let ds := padLeft (d.scale + 1) (Nat.toDigits 10 d.coeff)
  let ip := ds.take (ds.length - d.scale)
  let fp := ds.drop (ds.length - d.scale)
  (if d.neg then ['-'] else []) ++ ip ++ (if d.scale = 0 then [] else '.' :: fp)

def toString (d : Dec) : String := String.ofList d.toChars

def digitVal (c : Char) : Nat := c.toNat - '0'.toNat
def digitsVal (l : List Char) : Nat := l.foldl (fun acc c => acc * 10 + digitVal c) 0

/-- `Decimal::from_str_exact` on the lexical class `-?d+(.d+)?` of `p_number`
    (sign, integer digits, fraction digits). A zero result is positive. -/
def ofToken (neg : Bool) (ip fp : List Char) : Option Dec :=
  let coeff := digitsVal (ip ++ fp)
  if fp.length > 28 then none
  else if coeff > max96 then none
  else some { neg := neg && coeff != 0, coeff := coeff, scale := fp.length }

/-- parse a canonical decimal text (driver input) -/
def ofString? (s : String) : Option Dec :=
  let cs := s.toList
  let (neg, cs) := match cs with
    | '-' :: r => (true, r)
    | r => (false, r)
  let ip := cs.takeWhile Char.isDigit
  let rest := cs.dropWhile Char.isDigit
  if ip.isEmpty then none else
  match rest with
  | [] => ofToken neg ip []
  | '.' :: fp => if fp.isEmpty || !fp.all Char.isDigit then none else ofToken neg ip fp
  | _ => none

/-- the same value with trailing fraction zeros removed and no negative zero (canonical form
    used only to compare values across drivers) -/
def normalize (d : Dec) : Dec :=
  if d.coeff = 0 then zero else
  let rec go (fuel : Nat) (c s : Nat) : Nat × Nat :=
    match fuel with
    | 0 => (c, s)
    | fuel + 1 => if s > 0 ∧ c % 10 = 0 then go fuel (c / 10) (s - 1) else (c, s)
  let (c, s) := go d.scale d.coeff d.scale
  ⟨d.neg, c, s⟩

/-! ### rounding for reports (C17) -/

/-- `round_dp_with_strategy(dp, MidpointAwayFromZero)`: unchanged if `scale ≤ dp`; a zero keeps its
    sign flag (the "short circuit for zero"); otherwise the coefficient is divided by `10^(scale-dp)`,
    half goes up, and the result is built with `Decimal::from_parts`, which **clears the sign of a zero
    coefficient** – a negative value that rounds to zero is `0.00`, not `-0.00` (probed; C17). -/
def roundHA (d : Dec) (dp : Nat) : Dec :=
  if d.scale ≤ dp then d
  else if d.coeff = 0 then { neg := d.neg, coeff := 0, scale := dp }
  else
    { neg := d.neg && (2 * d.coeff + 10 ^ (d.scale - dp)) / (2 * 10 ^ (d.scale - dp)) != 0,
      coeff := (2 * d.coeff + 10 ^ (d.scale - dp)) / (2 * 10 ^ (d.scale - dp)),
      scale := dp }

/-- `format!("{:.p$}")`: pad with zeros or truncate to `p` fraction digits -/
def fmtFixedChars (d : Dec) (p : Nat) : List Char :=
  let ds := padLeft (d.scale + 1) (Nat.toDigits 10 d.coeff)
  let ip := ds.take (ds.length - d.scale)
  let fp := ds.drop (ds.length - d.scale)
  let fp' := (fp ++ List.replicate (p - fp.length) '0').take p
  (if d.neg then ['-'] else []) ++ ip ++ (if p = 0 then [] else '.' :: fp')

def fmtFixed (d : Dec) (p : Nat) : String := String.ofList (d.fmtFixedChars p)

end Dec
end Tackler

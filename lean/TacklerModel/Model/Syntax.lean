import TacklerModel.Model.Comb
import TacklerModel.Model.Time
import TacklerModel.Model.Order
/-!
# Syntax: the journal text grammar (`tackler-core/src/parser/parts/*.rs`), producing `RawTxn`

Every parser of `parts/*.rs` is transliterated with the combinators of `Model/Comb` (same name in
camelCase, same order of sub-parsers, same `cut_err` positions):

| here                                   | Rust                                                   |
|----------------------------------------|--------------------------------------------------------|
| `idStartChar`, `idChar`, `pIdPart`, `pIdentifier`, `pIdPartHelper`, `pMultiPartId` | identifier.rs |
| `pNumberLex`, `pNumber`                | number.rs `p_number` (+ `Decimal::from_str_exact` = `Dec.ofToken`) |
| `pComment`, `parseTxnComment`          | comment.rs, txn_comment.rs                             |
| `pDate`, `parseDate`, `pDatetime`, `parseDatetime`, `pOffset`, `pZuluOrOffset`, `parseDatetimeTz`, `parseTimestamp` | timestamp.rs |
| `validCodeChar`, `parseTxnCode`, `parseTxnDescription` | txn_header_code.rs, txn_header_desc.rs |
| `pUuid`, `parseMetaUuid`, `pGeoUri`, `parseMetaLocation`, `pTags`, `parseMetaTags` | txn_meta_*.rs |
| `permutation*`, `parseTxnMeta`         | txn_metadata.rs                                        |
| `parseTxnHeader`                       | txn_header.rs                                          |
| `pOpeningPos`, `pClosingPos`, `pPosition`, `pUnit`, `parsePostingValue` | posting_value.rs      |
| `parseTxnPosting`, `parseTxnLastPosting`, `parseTxnPostings` | txn_posting.rs, txn_postings.rs   |
| `multispace0LineEnding`, `parseTxn`, `parseTxns` | txns.rs                                      |
| `parseJournal`                         | tackler_parser.rs `txns_text` (`Parser::parse` = parser, then end of input) |
| `loadText`, `loadFiles`                | tackler_txns.rs `string_to_txns`, `paths_to_txns`      |

## Syntax layer / semantic layer

The Rust parser interleaves semantic checks with parsing; every one of them is raised through
`make_semantic_error`/`from_error`, i.e. as a **cut** error, which no combinator recovers from: the whole
load fails.  They fall in two groups.

* *Depending on the text (and the timestamp configuration) only* — kept here, at the place where the
  Rust code raises them, as `.cut`: number not representable (`p_number`), invalid civil date / time /
  offset / instant out of range (`p_date`, `p_datetime`, `p_offset`, `parse_*`), geo point out of range
  (`p_geo_uri`), account / commodity name rejected by `AccountTreeNode::from` / `Commodity::from`
  (`acctOk`, `unitCommsOk`: white space inside a name, `-`/`_`/`·` starting a sub-account).  `Uuid::parse_str` cannot fail on the `8-4-4-4-12` hex text `p_uuid` has just recognised
  (the other forms the `uuid` crate accepts — 32 hex digits without hyphens, `{…}`, `urn:uuid:…` — are
  not accepted by `p_uuid`'s grammar, so they need no model).
* *Depending on `Settings`* (strict mode: unknown account / commodity / tag; audit mode: missing uuid;
  `permit-empty-commodity`) *or on several lines* (duplicate tags, value-position rules, zero postings,
  one transaction commodity, zero sum, arithmetic overflow) — deferred to `Model/Accept.lean`
  (`loadJournal`), which runs on the parse tree.

Deferring is sound: `parseJournal` followed by `loadJournal` gives `ok`/`err` exactly as the interleaved
Rust code does.  (1) Parsing decisions never read `Settings` (only the checks do), so up to the first
semantic error both take the same path through the text.  (2) At that point Rust fails; the model goes
on, and if it still produces a tree, the construct the check was about is in that tree, so `loadJournal`
fails as well.  A construct could only drop out of the tree if the parser later backtracked over it:
 - tags/location/uuid line: after `p_tags`/`p_geo_uri`/`p_uuid` only `space0, cut_err(line_ending)` follow
   (ok or cut); a later alternative of `parse_txn_meta` re-parses the same first lines; after
   `parse_txn_meta` the header cannot backtrack any more (`opt`, `opt(repeat)`), and `parse_txn` wraps the
   header in `cut_err`;
 - `handle_posting_value` runs in the middle of a posting line (before `space0 opt(comment) line_ending`):
   if the rest of that line then fails with `Backtrack`, `repeat(1.., posting)` stops there,
   `opt(last_posting)` cannot take the line (an amount follows the account), `alt((blank lines, eof))` fails
   on it, so `parse_txn` fails and `repeat_till` fails: the load is rejected either way;
 - `handle_posting`, the implicit last posting, the commodity and zero-sum checks run at the end of a
   line / of the transaction, after which nothing backtracks (`parse_txn` failing fails the load).
(3) `Settings` is behind `&mut` in the winnow stream and is not rolled back on backtracking; the only
mutations are idempotent registrations (`get_or_create_*`) of names that are registered again when the
same text is re-parsed, or they are followed by a failure of the whole load.
The text-level tie (op `run` on `text`) checks this on every case: ok/err and every field.

## Characters

Journal text is a sequence of Unicode scalar values (`List Char`; Rust `&str`).  `AsChar::is_dec_digit`,
`is_hex_digit`, `is_space` are ASCII; the identifier classes are the literal ranges of identifier.rs;
`str::trim`/`trim_end` use `char::is_whitespace` (Unicode `White_Space`), modelled exactly by `isWhitespace`.
-/
namespace Tackler
namespace Syntax
open Comb

/-! ### character classes -/

def isDecDigit (c : Char) : Bool := 48 ≤ c.toNat && c.toNat ≤ 57

def isHexDigit (c : Char) : Bool :=
  isDecDigit c || (65 ≤ c.toNat && c.toNat ≤ 70) || (97 ≤ c.toNat && c.toNat ≤ 102)

def inRange (lo hi : Nat) (c : Char) : Bool := lo ≤ c.toNat && c.toNat ≤ hi

/-- identifier.rs `id_start_char` -/
def idStartChar (c : Char) : Bool :=
  inRange 0x61 0x7A c || inRange 0x41 0x5A c
  || c == '$' || c == '¢' || c == '£' || c == '¤' || c == '¥'
  || inRange 0xC0 0xD6 c || inRange 0xD8 0xF6 c || inRange 0xF8 0x2FF c
  || inRange 0x370 0x37D c || inRange 0x37F 0x1FFF c || inRange 0x200C 0x200D c
  || inRange 0x2070 0x218F c || inRange 0x2C00 0x2FEF c || inRange 0x3001 0xD7FF c
  || inRange 0xF900 0xFDCF c || inRange 0xFDF0 0xFFFD c
  || c.toNat == 0xB5
  || c.toNat == 0xB9 || c.toNat == 0xB2 || c.toNat == 0xB3
  || c.toNat == 0xB0
  || c.toNat == 0xBC || c.toNat == 0xBD || c.toNat == 0xBE

/-- identifier.rs `id_char` -/
def idChar (c : Char) : Bool :=
  idStartChar c || isDecDigit c || c == '_' || c == '-' || c.toNat == 0xB7
  || inRange 0x300 0x36F c || inRange 0x203F 0x2040 c

/-- Rust `char::is_whitespace` (Unicode `White_Space`) -/
def isWhitespace (c : Char) : Bool :=
  inRange 0x9 0xD c || c.toNat == 0x20 || c.toNat == 0x85 || c.toNat == 0xA0 || c.toNat == 0x1680
  || inRange 0x2000 0x200A c || c.toNat == 0x2028 || c.toNat == 0x2029 || c.toNat == 0x202F
  || c.toNat == 0x205F || c.toNat == 0x3000

/-- `str::trim_end` -/
def trimEnd : List Char → List Char
  | [] => []
  | c :: t =>
    match trimEnd t with
    | [] => if isWhitespace c then [] else [c]
    | d :: r => c :: d :: r

/-- `str::trim_start` -/
def trimStart (l : List Char) : List Char := l.dropWhile isWhitespace

/-- `str::trim` -/
def trim (l : List Char) : List Char := trimEnd (trimStart l)

/-! ### parser.rs, account_tree_node.rs: validation of names when a commodity / account is created

`Commodity::from` and `AccountTreeNode::from` validate a name when it is first registered (lax mode) and
when the charts are read from the configuration — so a name failing them can never be used by an accepted
journal, whatever the settings: a text-only check.  The grammar already guarantees most of it; what remains
observable is white space inside a name (U+1680 is an identifier character *and* Unicode white space) and
`-`, `_`, `·` at the start of a sub-account. -/

/-- parser.rs `illegal_characters` -/
def illegalCharacters (c : Char) : Bool := c == ':' || isWhitespace c

/-- parser.rs `is_valid_id_start_char` -/
def isValidIdStartChar (c : Char) : Bool :=
  !(isDecDigit c || c == ':' || c == '-' || c == '_' || c.toNat == 0xB7 || isWhitespace c)

/-- parser.rs `is_valid_sub_id_start_char`: `c.is_numeric() || is_valid_id_start_char(c)`.  Every Unicode
    numeric character other than the ASCII digits already satisfies `is_valid_id_start_char`, so
    `is_numeric` contributes exactly the ASCII digits. -/
def isValidSubIdStartChar (c : Char) : Bool := isDecDigit c || isValidIdStartChar c

/-- parser.rs `is_valid_id` -/
def isValidId (l : List Char) : Bool :=
  match l with
  | [] => false
  | c :: _ => isValidIdStartChar c && !(l.any illegalCharacters)

/-- parser.rs `is_valid_sub_id` -/
def isValidSubId (l : List Char) : Bool :=
  match l with
  | [] => false
  | c :: _ => isValidSubIdStartChar c && !(l.any illegalCharacters)

def joinParts (parts : List (List Char)) : List Char := [':'].intercalate parts

/-- `AccountTreeNode::from(name)` succeeds; the name is given by its components (they contain no `':'`,
    so `name.split(':')` gives them back) -/
def atnOk (parts : List (List Char)) : Bool :=
  (trim (joinParts parts) == joinParts parts) && parts.all (fun p => isValidSubId (trim p))

/-- `AccountTrees::build_account_tree` (after the fix of F21: `AccountTreeNode::from(parent)?`): every
    ancestor that has to be created is valid (an ancestor that already exists was validated when created) -/
def ancestorsOk : Nat → List (List Char) → Bool
  | 0, _ => true
  | fuel + 1, parts =>
    if parts.length ≤ 1 then true else atnOk parts.dropLast && ancestorsOk fuel parts.dropLast

/-- the account name checks of `get_or_create_txn_account` -/
def acctOk (parts : List (List Char)) : Bool := atnOk parts && ancestorsOk parts.length parts

/-- `Commodity::from` for the commodities `handle_posting_value` registers: the posting's own and the one of
    the closing position (the commodity of an opening position `{..}` is never registered) -/
def unitCommsOk (u : Option PostUnit) : Bool :=
  match u with
  | none => true
  | some u =>
    isValidId u.comm.toList &&
    (match u.closing with
     | none => true
     | some (.unitPrice v) => isValidId v.comm.toList
     | some (.total v) => isValidId v.comm.toList)

/-! ### identifier.rs -/

/-- `p_id_part`: `take_while(1.., id_char)` -/
def pIdPart : P (List Char) := takeWhile1 idChar

/-- `p_identifier`: `(one_of(id_start_char), take_while(0.., id_char)).take()` -/
def pIdentifier : P (List Char) := fun s =>
  (oneOf idStartChar s).bind fun c s =>
  (takeWhile0 idChar s).bind fun r s =>
  .ok (c :: r) s

/-- `p_id_part_helper`: `(take_while(1, ':'), cut_err(p_id_part))`; yields the part after the colon -/
def pIdPartHelper : P (List Char) := fun s =>
  (takeMN 1 1 (fun c => c == ':') s).bind fun _ s =>
  cutErr pIdPart s

/-- `p_multi_part_id`: the components of `ID (':' SUBID)*` (Rust keeps the slice; the components do not
    contain `':'`, so the slice is their `:`-join) -/
def pMultiPartId : P (List (List Char)) := fun s =>
  (pIdentifier s).bind fun a s =>
  (cutErr (repeat0 pIdPartHelper) s).bind fun r s =>
  .ok (a :: r) s

def toPath (parts : List (List Char)) : Path := parts.map String.ofList

/-! ### number.rs -/

/-- the lexical part of `p_number`: `(opt('-'), take_while(1.., digit), opt(preceded('.', take_while(1.., digit)))).take()` -/
def pNumberLex : P (Bool × List Char × List Char) := fun s =>
  (opt (chr '-') s).bind fun m s =>
  (takeWhile1 isDecDigit s).bind fun ip s =>
  (opt (fun s => (chr '.' s).bind fun _ s => takeWhile1 isDecDigit s) s).bind fun fp s =>
  .ok (m.isSome, ip, fp.getD []) s

/-- `p_number`: a token `Decimal::from_str_exact` rejects is a semantic (cut) error -/
def pNumber : P Dec := fun s =>
  (pNumberLex s).bind fun t s =>
  match Dec.ofToken t.1 t.2.1 t.2.2 with
  | some d => .ok d s
  | none => .cut

/-! ### comment.rs, txn_comment.rs -/

/-- `p_comment`: `;` then (nothing before the line ending | one blank and the rest of the line) -/
def pComment : P (List Char) := fun s =>
  (chr ';' s).bind fun _ s =>
  cutErr (alt
    (fun s => (peek lineEnding s).map fun _ => [])
    (fun s => (oneOf isSpace s).bind fun _ s => tillLineEnding s)) s

/-- `parse_txn_comment`: `space1 p_comment line_ending` -/
def parseTxnComment : P String := fun s =>
  (space1 s).bind fun _ s =>
  (pComment s).bind fun c s =>
  (lineEnding s).bind fun _ s =>
  .ok (String.ofList c) s

/-! ### timestamp.rs -/

def digits (l : List Char) : Nat := Dec.digitsVal l

/-- `take_while(2, digit)` -/
def twoDigits : P (List Char) := takeMN 2 2 isDecDigit

/-- `p_date`: `YYYY-MM-DD`, then `jiff::civil::Date::new` -/
def pDate : P (Nat × Nat × Nat) := fun s =>
  (takeMN 4 4 isDecDigit s).bind fun y s =>
  (cutErr (lit ['-']) s).bind fun _ s =>
  (cutErr twoDigits s).bind fun m s =>
  (cutErr (lit ['-']) s).bind fun _ s =>
  (cutErr twoDigits s).bind fun d s =>
  if Time.dateOk (digits y) (digits m) (digits d) then .ok (digits y, digits m, digits d) s else .cut

def ofOutcome {α} (o : Outcome α) : P α := fun s =>
  match o with
  | .ok a => .ok a s
  | .err => .cut
  | .undef => .cut      -- `resolveTs` never answers `undef` for a fixed-offset zone (C15 `resolveTs_defined`)

/-- `parse_date`: date at the configured default time in the journal zone -/
def parseDate (cfg : Time.TsCfg) : P Ts := fun s =>
  (pDate s).bind fun d s =>
  ofOutcome (Time.resolveTs cfg ⟨d.1, d.2.1, d.2.2, none, none⟩) s

/-- `p_datetime`: `date T HH:MM:SS[.fffffffff]`, then `handle_time` (`jiff::civil::Time::new`) -/
def pDatetime : P ((Nat × Nat × Nat) × (Nat × Nat × Nat × Option (List Char))) := fun s =>
  (pDate s).bind fun d s =>
  (lit ['T'] s).bind fun _ s =>
  (cutErr twoDigits s).bind fun h s =>
  (cutErr (lit [':']) s).bind fun _ s =>
  (cutErr twoDigits s).bind fun mi s =>
  (cutErr (lit [':']) s).bind fun _ s =>
  (cutErr twoDigits s).bind fun sec s =>
  (opt (fun s => (chr '.' s).bind fun _ s => cutErr (takeMN 1 9 isDecDigit) s) s).bind fun frac s =>
  if Time.timeOk (digits h) (digits mi) (digits sec) then .ok (d, (digits h, digits mi, digits sec, frac)) s
  else .cut

/-- `parse_datetime`: civil date-time in the journal zone -/
def parseDatetime (cfg : Time.TsCfg) : P Ts := fun s =>
  (pDatetime s).bind fun dt s =>
  ofOutcome (Time.resolveTs cfg ⟨dt.1.1, dt.1.2.1, dt.1.2.2, some dt.2, none⟩) s

/-- `p_offset`: `±HH:MM`, then `jiff::tz::Offset::from_seconds` -/
def pOffset : P (Bool × Nat × Nat) := fun s =>
  (alt (fun s => (chr '+' s).map fun _ => false) (fun s => (chr '-' s).map fun _ => true) s).bind fun neg s =>
  (cutErr twoDigits s).bind fun h s =>
  (cutErr (lit [':']) s).bind fun _ s =>
  (cutErr twoDigits s).bind fun m s =>
  if Time.offsetOk ((if neg then -1 else 1) * ((digits h * 3600 + digits m * 60 : Nat) : Int))
  then .ok (neg, digits h, digits m) s else .cut

/-- `p_zulu_or_offset` -/
def pZuluOrOffset : P (Option (Bool × Nat × Nat)) :=
  alt (fun s => (chr 'Z' s).map fun _ => none) (fun s => (pOffset s).map some)

/-- `parse_datetime_tz` -/
def parseDatetimeTz (cfg : Time.TsCfg) : P Ts := fun s =>
  (pDatetime s).bind fun dt s =>
  (pZuluOrOffset s).bind fun z s =>
  ofOutcome (Time.resolveTs cfg ⟨dt.1.1, dt.1.2.1, dt.1.2.2, some dt.2, some z⟩) s

/-- `parse_timestamp` -/
def parseTimestamp (cfg : Time.TsCfg) : P Ts :=
  alt (parseDatetimeTz cfg) (alt (parseDatetime cfg) (alt (parseDate cfg) fail))

/-! ### txn_header_code.rs, txn_header_desc.rs -/

/-- `valid_code_char` -/
def validCodeChar (c : Char) : Bool :=
  !(c == ')' || c == '\'' || c == '(' || c == '[' || c == ']' || c == '{' || c == '}' || c == '<' || c == '>'
    || c == '\r' || c == '\n')

/-- `parse_txn_code`: `( code )`, trimmed -/
def parseTxnCode : P String := fun s =>
  (chr '(' s).bind fun _ s =>
  (takeWhile0 validCodeChar s).bind fun c s =>
  (cutErr (chr ')') s).bind fun _ s =>
  .ok (String.ofList (trim c)) s

/-- `parse_txn_description`: `'` and the rest of the line, right-trimmed -/
def parseTxnDescription : P String := fun s =>
  (chr '\'' s).bind fun _ s =>
  (tillLineEnding s).bind fun d s =>
  .ok (String.ofList (trimEnd d)) s

/-! ### txn_meta_uuid.rs, txn_meta_location.rs, txn_meta_tags.rs -/

def hexN (n : Nat) : P (List Char) := cutErr (takeMN n n isHexDigit)
def dash : P (List Char) := fun s => (cutErr (chr '-') s).map fun c => [c]

/-- `p_uuid`: `8-4-4-4-12` hex digits; `Uuid::parse_str` accepts every such text; the canonical
    (`Display`) form is lower case -/
def pUuid : P String := fun s =>
  (hexN 8 s).bind fun a s =>
  (dash s).bind fun d1 s =>
  (hexN 4 s).bind fun b s =>
  (dash s).bind fun d2 s =>
  (hexN 4 s).bind fun c s =>
  (dash s).bind fun d3 s =>
  (hexN 4 s).bind fun d s =>
  (dash s).bind fun d4 s =>
  (hexN 12 s).bind fun e s =>
  .ok (String.ofList ((a ++ d1 ++ b ++ d2 ++ c ++ d3 ++ d ++ d4 ++ e).map Char.toLower)) s

/-- the common frame of a metadata line: `space1 '#' cut_err(space1) "<key>:" cut_err(space1) cut_err(value)
    space0 cut_err(line_ending)` -/
def metaLine {α} (key : List Char) (value : P α) : P α := fun s =>
  (space1 s).bind fun _ s =>
  (chr '#' s).bind fun _ s =>
  (cutErr space1 s).bind fun _ s =>
  (lit key s).bind fun _ s =>
  (cutErr space1 s).bind fun _ s =>
  (cutErr value s).bind fun v s =>
  (space0 s).bind fun _ s =>
  (cutErr lineEnding s).bind fun _ s =>
  .ok v s

/-- `parse_meta_uuid` -/
def parseMetaUuid : P String := metaLine "uuid:".toList pUuid

/-- `p_geo_uri`: `geo:lat,lon[,alt]`, then `GeoPoint::from` (range checks) -/
def pGeoUri : P Geo := fun s =>
  (cutErr (lit "geo:".toList) s).bind fun _ s =>
  (space0 s).bind fun _ s =>
  (cutErr pNumber s).bind fun lat s =>
  (space0 s).bind fun _ s =>
  (cutErr (chr ',') s).bind fun _ s =>
  (space0 s).bind fun _ s =>
  (cutErr pNumber s).bind fun lon s =>
  (space0 s).bind fun _ s =>
  (opt (fun s => (chr ',' s).bind fun _ s => (space0 s).bind fun _ s => cutErr pNumber s) s).bind fun alt s =>
  if geoOk ⟨lat, lon, alt⟩ then .ok ⟨lat, lon, alt⟩ s else .cut

/-- `parse_meta_location` -/
def parseMetaLocation : P Geo := metaLine "location:".toList pGeoUri

/-- one further tag: `space0 ',' space0 cut_err(p_multi_part_id)` -/
def pTagTail : P (List (List Char)) := fun s =>
  (space0 s).bind fun _ s =>
  (chr ',' s).bind fun _ s =>
  (space0 s).bind fun _ s =>
  cutErr pMultiPartId s

/-- `p_tags` (the tag is the recognised slice, i.e. the `:`-join of its components); `handle_tags` is deferred -/
def pTags : P (List String) := fun s =>
  (cutErr pMultiPartId s).bind fun t s =>
  (repeat0 pTagTail s).bind fun ts s =>
  .ok ((t :: ts).map fun parts => acctName (toPath parts)) s

/-- `parse_meta_tags` -/
def parseMetaTags : P (List String) := metaLine "tags:".toList pTags

/-! ### txn_metadata.rs -/

structure TxnMeta where
  uuid : Option String
  tags : Option (List String)
  location : Option Geo
deriving Repr, DecidableEq

def permutationUuid : P TxnMeta := fun s =>
  (parseMetaUuid s).bind fun u s => .ok ⟨some u, none, none⟩ s

def permutationUuidTagsOLocation : P TxnMeta := fun s =>
  (parseMetaUuid s).bind fun u s =>
  (parseMetaTags s).bind fun t s =>
  (opt parseMetaLocation s).bind fun l s => .ok ⟨some u, some t, l⟩ s

def permutationUuidLocationOTags : P TxnMeta := fun s =>
  (parseMetaUuid s).bind fun u s =>
  (parseMetaLocation s).bind fun l s =>
  (opt parseMetaTags s).bind fun t s => .ok ⟨some u, t, some l⟩ s

def permutationTags : P TxnMeta := fun s =>
  (parseMetaTags s).bind fun t s => .ok ⟨none, some t, none⟩ s

def permutationTagsUuidOLocation : P TxnMeta := fun s =>
  (parseMetaTags s).bind fun t s =>
  (parseMetaUuid s).bind fun u s =>
  (opt parseMetaLocation s).bind fun l s => .ok ⟨some u, some t, l⟩ s

def permutationTagsLocationOUuid : P TxnMeta := fun s =>
  (parseMetaTags s).bind fun t s =>
  (parseMetaLocation s).bind fun l s =>
  (opt parseMetaUuid s).bind fun u s => .ok ⟨u, some t, some l⟩ s

def permutationLocation : P TxnMeta := fun s =>
  (parseMetaLocation s).bind fun l s => .ok ⟨none, none, some l⟩ s

def permutationLocationUuidOTags : P TxnMeta := fun s =>
  (parseMetaLocation s).bind fun l s =>
  (parseMetaUuid s).bind fun u s =>
  (opt parseMetaTags s).bind fun t s => .ok ⟨some u, t, some l⟩ s

def permutationLocationTagsOUuid : P TxnMeta := fun s =>
  (parseMetaLocation s).bind fun l s =>
  (parseMetaTags s).bind fun t s =>
  (opt parseMetaUuid s).bind fun u s => .ok ⟨u, some t, some l⟩ s

/-- `parse_txn_meta`: the first alternative that succeeds wins -/
def parseTxnMeta : P TxnMeta :=
  alt permutationUuidTagsOLocation <| alt permutationUuidLocationOTags <| alt permutationUuid <|
  alt permutationTagsUuidOLocation <| alt permutationTagsLocationOUuid <| alt permutationTags <|
  alt permutationLocationUuidOTags <| alt permutationLocationTagsOUuid permutationLocation

/-! ### txn_header.rs -/

def metaUuid : Option TxnMeta → Option String
  | some m => m.uuid
  | none => none
def metaLocation : Option TxnMeta → Option Geo
  | some m => m.location
  | none => none
def metaTags : Option TxnMeta → Option (List String)
  | some m => m.tags
  | none => none

/-- `parse_txn_header` (the audit-mode check is deferred to `acceptHeader`) -/
def parseTxnHeader (cfg : Time.TsCfg) : P Header := fun s =>
  (parseTimestamp cfg s).bind fun ts s =>
  (opt (fun s => (space1 s).bind fun _ s => parseTxnCode s) s).bind fun code s =>
  (opt (fun s => (space1 s).bind fun _ s => parseTxnDescription s) s).bind fun desc s =>
  ((opt space1 s).bind fun _ s => cutErr lineEnding s).bind fun _ s =>
  (opt parseTxnMeta s).bind fun m s =>
  (opt (repeat1 parseTxnComment) s).bind fun comments s =>
  .ok ⟨ts, code, desc, metaUuid m, metaLocation m, metaTags m, comments⟩ s

/-! ### posting_value.rs -/

/-- `p_opening_pos`: `space1 '{' space0 number space1 commodity space0 '}'` -/
def pOpeningPos : P Val := fun s =>
  (space1 s).bind fun _ s =>
  (chr '{' s).bind fun _ s =>
  (space0 s).bind fun _ s =>
  (cutErr pNumber s).bind fun v s =>
  (cutErr space1 s).bind fun _ s =>
  (cutErr pIdentifier s).bind fun c s =>
  (space0 s).bind fun _ s =>
  (cutErr (chr '}') s).bind fun _ s =>
  .ok ⟨v, String.ofList c⟩ s

/-- the `match m.0 { '=' => …, '@' => …, _ => unreachable!() }` of `p_closing_pos`;
    `none` is the `unreachable!` arm (dead: C15 `closing_kind_total`) -/
def closingOf (k : Char) (v : Val) : Option Closing :=
  if k == '=' then some (.total v) else if k == '@' then some (.unitPrice v) else none

/-- `p_closing_pos`: `space1 ('@'|'=') space1 number space1 commodity` -/
def pClosingPos : P Closing := fun s =>
  (space1 s).bind fun _ s =>
  (alt (chr '@') (chr '=') s).bind fun k s =>
  (cutErr space1 s).bind fun _ s =>
  (cutErr pNumber s).bind fun v s =>
  (cutErr space1 s).bind fun _ s =>
  (cutErr pIdentifier s).bind fun c s =>
  match closingOf k ⟨v, String.ofList c⟩ with
  | some cl => .ok cl s
  | none => .cut

/-- `p_position`: `alt(((opening, closing), opening, closing))` -/
def pPosition : P (Option Val × Option Closing) :=
  alt (fun s => (pOpeningPos s).bind fun o s => (pClosingPos s).bind fun c s => .ok (some o, some c) s) <|
  alt (fun s => (pOpeningPos s).map fun o => (some o, none))
      (fun s => (pClosingPos s).map fun c => (none, some c))

/-- `p_unit`: `space1 commodity opt(position)` -/
def pUnit : P PostUnit := fun s =>
  (space1 s).bind fun _ s =>
  (pIdentifier s).bind fun c s =>
  (opt pPosition s).bind fun pos s =>
  match pos with
  | some (o, cl) => .ok ⟨String.ofList c, o, cl⟩ s
  | none => .ok ⟨String.ofList c, none, none⟩ s

/-- `parse_posting_value`: `number opt(unit)`, then `handle_posting_value`, of which the validation of
    new commodity names is text-only (the rest is deferred) -/
def parsePostingValue : P (Dec × Option PostUnit) := fun s =>
  (pNumber s).bind fun a s =>
  (opt pUnit s).bind fun u s =>
  if unitCommsOk u then .ok (a, u) s else .cut

/-! ### txn_posting.rs, txn_postings.rs -/

def optString : Option (List Char) → Option String
  | some l => some (String.ofList l)
  | none => none

/-- `parse_txn_posting`, then `handle_posting`, of which the validation of a new account name is text-only
    (the rest is deferred) -/
def parseTxnPosting : P RawPosting := fun s =>
  (space1 s).bind fun _ s =>
  (pMultiPartId s).bind fun acct s =>
  (space1 s).bind fun _ s =>
  (parsePostingValue s).bind fun v s =>
  (space0 s).bind fun _ s =>
  (opt pComment s).bind fun c s =>
  (lineEnding s).bind fun _ s =>
  if acctOk acct then .ok ⟨toPath acct, v.1, v.2, optString c⟩ s else .cut

/-- `parse_txn_last_posting` -/
def parseTxnLastPosting : P (List (List Char) × Option String) := fun s =>
  (space1 s).bind fun _ s =>
  (pMultiPartId s).bind fun acct s =>
  (space0 s).bind fun _ s =>
  (opt pComment s).bind fun c s =>
  (lineEnding s).bind fun _ s =>
  .ok (acct, optString c) s

/-- `parse_txn_postings`: `repeat(1.., posting) opt(last_posting)`, then the account of the amount-less
    posting is created (name validation here, the implicit amount is deferred) -/
def parseTxnPostings : P (List RawPosting × Option (Path × Option String)) := fun s =>
  (repeat1 parseTxnPosting s).bind fun ps s =>
  (opt parseTxnLastPosting s).bind fun l s =>
  match l with
  | none => .ok (ps, none) s
  | some (acct, c) => if acctOk acct then .ok (ps, some (toPath acct, c)) s else .cut

/-! ### txns.rs -/

/-- one blank line: `(space0, line_ending)` -/
def blankLine : P Unit := fun s =>
  (space0 s).bind fun _ s => lineEnding s

/-- `multispace0_line_ending`: `repeat(1.., (space0, line_ending))` -/
def multispace0LineEnding : P Unit := fun s =>
  (repeat1 blankLine s).map fun _ => ()

/-- `parse_txn`: `cut_err(header) cut_err(postings) alt((blank lines, eof))`
    (commodity and zero-sum checks are deferred) -/
def parseTxn (cfg : Time.TsCfg) : P RawTxn := fun s =>
  (cutErr (parseTxnHeader cfg) s).bind fun h s =>
  (cutErr parseTxnPostings s).bind fun ps s =>
  (alt multispace0LineEnding eof s).bind fun _ s =>
  .ok ⟨h, ps.1, ps.2⟩ s

/-- `parse_txns`: `preceded(opt(blank lines), repeat_till(1.., parse_txn, eof))` -/
def parseTxns (cfg : Time.TsCfg) : P (List RawTxn) := fun s =>
  (opt multispace0LineEnding s).bind fun _ s =>
  repeatTill1 (parseTxn cfg) eof s

/-- `txns_text`: `parse_txns.parse(input)` — the parser, then end of input; any error ⇒ `Err` -/
def parseJournal (cfg : Time.TsCfg) (s : List Char) : Option (List RawTxn) :=
  match parseTxns cfg s with
  | .ok ts [] => some ts
  | .ok _ (_ :: _) => none
  | .bt => none
  | .cut => none

end Syntax

/-! ### tackler_txns.rs -/

/-- acceptance of one file's parse tree (`txns_text` as a whole): syntax error ⇒ `err` -/
def acceptText (cfg : Time.TsCfg) (st : Settings) (s : List Char) : Outcome (List Txn × Settings) :=
  match Syntax.parseJournal cfg s with
  | none => .err
  | some rs => acceptJournal st rs

/-- `string_to_txns`: parse, accept, sort -/
def loadText (cfg : Time.TsCfg) (st : Settings) (s : List Char) : Outcome (List Txn × Settings) :=
  match Syntax.parseJournal cfg s with
  | none => .err
  | some rs => loadJournal st rs

/-- `paths_to_txns`: `paths.iter().map(txns_file).flatten_ok().collect::<Result<_,_>>()` (settings threaded
    through, the first failing file fails the whole), then `TxnData::from` (sort) -/
def loadFiles (cfg : Time.TsCfg) (st : Settings) (files : List (List Char)) : Outcome (List Txn × Settings) :=
  (mapMS (acceptText cfg) st files).map fun r => (sortTxns r.1.flatten, r.2)

end Tackler

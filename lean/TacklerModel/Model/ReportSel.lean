import TacklerModel.Model.Selector
import TacklerModel.Model.Register
import TacklerModel.Model.Equity
/-!
# ReportSel: how the reports and the equity export plug their account selector into the kernels

`Model/Selector.lean` builds the selector from the configured pattern list, `Model/Balance.lean`,
`Model/Register.lean` and `Model/Equity.lean` take the row predicate as a parameter.  This file is the glue:
what each report passes to its kernel.

| Lean              | mirrors                                                                                       |
|-------------------|-----------------------------------------------------------------------------------------------|
| `balRowSel`       | `Predicate<BalanceTreeNode>` of `BalanceAllSelector` / `BalanceByAccountSelector` (`regexs.is_match(&btn.acctn.atn.account)`) |
| `regRowSel`       | `Predicate<RegisterPosting>` of `RegisterAllSelector` / `RegisterByAccountSelector` (`regexs.is_match(&rep.post.acctn.atn.account)`) |
| `equityRowSel`    | `Predicate<BalanceTreeNode>` of `BalanceNonZeroSelector` / `BalanceNonZeroByAccountSelector`     |
| `equityAcc`       | the same selector in the shape `equityExport` takes it (`nonZeroSel_equityAcc`: they agree)    |
| `balanceBySel`    | `BalanceReporter::write_txt_report` up to the `Balance` it prints: `get_acc_selector()?`, `Balance::from` |
| `registerBySel`   | `RegisterReporter::write_txt_report`: `get_acc_selector()?`, `register_engine`, entries written |
| `equityBySel`     | `EquityExporter::write_export`: `get_acc_selector()?`, then the export                          |

The pattern list is the *effective* one (`effectiveSel own global`).
-/
namespace Tackler

/-- balance report: the row predicate of the account selector -/
def balRowSel (sel : AccSelector) (row : BalRow) : Bool := sel.eval (acctName row.acct)

/-- register report: the row predicate of the account selector (the posting's own account) -/
def regRowSel (sel : AccSelector) (row : RegRow) : Bool := sel.eval (acctName row.post.acct)

/-- equity export: non-zero own sum and selected account -/
def equityRowSel (sel : AccSelector) (row : BalRow) : Bool :=
  equitySelEval sel (acctName row.acct) row.own.isZero

/-- the selector as `equityExport` takes it: no pattern set (`BalanceNonZeroSelector`) or the compiled set as a
    predicate on the account (`BalanceNonZeroByAccountSelector`) -/
def equityAcc : AccSelector → Option (Path → Bool)
  | .all => none
  | .byAccount set => some (fun p => (AccSelector.byAccount set).eval (acctName p))

/-- `nonZeroSel (equityAcc sel)` is `equitySelEval sel` on the row's account name and own sum -/
theorem nonZeroSel_equityAcc (sel : AccSelector) (row : BalRow) :
    nonZeroSel (equityAcc sel) row = equityRowSel sel row := by
  cases sel <;> simp [nonZeroSel, equityAcc, equityRowSel, equitySelEval, AccSelector.eval]

/-- the balance report over the posting stream `posts` with the configured (effective) pattern list `ras` -/
def balanceBySel (st : Settings) (ras : List String) (posts : List BPost) : Outcome Balance :=
  match accSelector ras with
  | .err => .err
  | .undef => .undef
  | .ok sel => fromIter st (balRowSel sel) posts

/-- the entries the register report writes (no price conversion) with the pattern list `ras` -/
def registerBySel (ras : List String) (txns : List Txn) : Outcome (List RegEntry) :=
  match accSelector ras with
  | .err => .err
  | .undef => .undef
  | .ok sel => (register (regRowSel sel) txns).map printedEntries

/-- the equity export with the pattern list `ras` -/
def equityBySel (st : Settings) (ras : List String) (eqa : Path) (md : List String) (txns : List Txn) :
    Outcome (List EqTxn) :=
  match accSelector ras with
  | .err => .err
  | .undef => .undef
  | .ok sel => equityExport st (equityAcc sel) eqa md txns

end Tackler

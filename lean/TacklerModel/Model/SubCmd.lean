import TacklerModel.Model.Output
/-!
# SubCmd: the file-writing sub-commands `tackler init` and `tackler new <name>`

| Lean | Rust |
|---|---|
| `Tree`, `Tree.present`, `Tree.mkdir`, `Tree.write` | `std::fs::exists`, `fs::create_dir_all` (of a path whose parent is present), `fs::write` (create **or truncate**) |
| `confFiles`, `txnsFiles` | the two tables of `commands::init::exec` (`conf_files`, `txns_files`); the texts (`tackler_toml::TXT`, …, `welcome_txn::get_txt(name)`) are parameters (`InitTexts`) |
| `initExec` | `tackler-cli/src/commands/init.rs` `exec` |
| `newExec` | `tackler-cli/src/commands/new.rs` `exec` |

`fs::write` overwrites – unlike the report writers (`File::create_new`, `Model/Output`), the sub-commands rely on the
two `fs::exists` guards alone: the directories `conf` and `txns` must both be absent, so no file below them can exist.
OS interface as in `Model/Output`: a path is absent, a directory or a file; creation failures other than "present"
(permissions, a parent that is a file, a dangling symbolic link at `conf`) end the command with an error after at
most creating directories – the tie exercises them, the model does not enumerate them.
-/
namespace Tackler
namespace Output

/-- what a path holds -/
inductive Node where
  | dir
  | file (b : Bytes)
deriving DecidableEq, Repr

/-- a directory tree: path ↦ node (absent = `none`) -/
structure Tree where
  node : Path → Option Node

def Tree.present (t : Tree) (p : Path) : Bool := (t.node p).isSome

def Tree.mkdir (t : Tree) (p : Path) : Tree := ⟨fun q => if q = p then some .dir else t.node q⟩

/-- `fs::write`: creates the file or replaces its content -/
def Tree.write (t : Tree) (p : Path) (b : Bytes) : Tree := ⟨fun q => if q = p then some (.file b) else t.node q⟩

/-- `Path::join` with a relative, single-component right-hand side -/
def pjoin (a b : Path) : Path := a ++ "/" ++ b

/-- the texts the sub-commands write (constants of the binary; `welcome` takes the setup's name) -/
structure InitTexts where
  tackler : Bytes
  accounts : Bytes
  commodities : Bytes
  tags : Bytes
  priceDb : Bytes
  journal : Bytes
  welcome : Path → Bytes

def confFiles (tx : InitTexts) : List (String × Bytes) :=
  [("tackler.toml", tx.tackler), ("accounts.toml", tx.accounts), ("commodities.toml", tx.commodities), ("tags.toml", tx.tags)]

def txnsFiles (tx : InitTexts) (name : Path) : List (String × Bytes) :=
  [("price.db", tx.priceDb), ("journal.txn", tx.journal), ("welcome.txn", tx.welcome name)]

/-- `for (file_name, content) in &files { fs::write(dir.join(file_name), content)? }` -/
def writeFiles (t : Tree) (dir : Path) : List (String × Bytes) → Tree
  | [] => t
  | f :: rest => writeFiles (t.write (pjoin dir f.1) f.2) dir rest

/-- every path `init` may create or write below `name` -/
def initPaths (tx : InitTexts) (name : Path) : List Path :=
  [pjoin name "conf", pjoin name "txns"]
    ++ (confFiles tx).map (fun f => pjoin (pjoin name "conf") f.1)
    ++ (txnsFiles tx name).map (fun f => pjoin (pjoin name "txns") f.1)

/-- `commands::init::exec`: success flag and the tree afterwards -/
def initExec (tx : InitTexts) (name : Path) (t : Tree) : Bool × Tree :=
  if t.present (pjoin name "conf") then (false, t)
  else if t.present (pjoin name "txns") then (false, t)
  else
    let t1 := (t.mkdir (pjoin name "conf")).mkdir (pjoin name "txns")
    (true, writeFiles (writeFiles t1 (pjoin name "conf") (confFiles tx)) (pjoin name "txns") (txnsFiles tx name))

/-- `commands::new::exec` -/
def newExec (tx : InitTexts) (name : Path) (t : Tree) : Bool × Tree :=
  if t.present name then (false, t)
  else initExec tx name (t.mkdir name)

end Output
end Tackler

import TacklerModel.Props.E2Eb
import TacklerModel.Props.C11
import TacklerModel.Props.C17b
import TacklerModel.Props.C16
import TacklerModel.Props.C09
import TacklerModel.Props.C15
import TacklerModel.Props.C05
/-!
# E2Ec — end-to-end theorems, third part: displayed figures, account selectors, report zone

Same style as `Props/E2E.lean` / `Props/E2Eb.lean`: every theorem is proved once from `Loaded st ts st'` (what a
successful `loadText` / `loadFiles` / git load establishes – `loaded_of_text`, `loaded_of_files`, `loaded_of_git`) for any
selection `txns` of the loaded transactions (`hsel`: the whole journal, or what a filter keeps), and instantiated for
journal text (`text_*`).  Nothing is re-proved; the representation hypotheses of the stage theorems (`C02.PostsWF`,
`C03.TxnsWF`, stored scales ≤ 28) are discharged from the load.

| strengthens | theorems | composed from |
|---|---|---|
| C17 | **`loaded_balance_shown`**, **`loaded_register_shown`**, **`loaded_balgrp_shown`** (`text_*`) | `C17.display_only`, `C17.decimals_bounds`, `C17b.register_display_only`, `C17b.balgrp_display_only_by`, `C11.balance_figures_unchanged`, `C02.delta_eq`, `loaded_postsWF_sel`, `loaded_txnsWF_sel` |
| C11 | **`loaded_selector_balance`**, **`loaded_selector_register`** (`text_*`) | `C11.report_selector`, `C11.balance_rowfilter`, `C11.balance_figures_unchanged`, `C11.balance_deltas_recomputed`, `C11.register_rowfilter`, `C11.register_totals_unchanged` |
| C16 / C13 | **`loaded_zone_regroups_only`** (`text_*`) | `C13.group_partition`, `C13.group_total` for two report zones |

None is `_partial`.
-/
set_option linter.unusedVariables false

namespace Tackler
namespace E2E
open Syntax KeyOrder

/-! ## 1. C17 — what the text reports print, from journal text -/

/-- **C17 end to end — `loaded_balance_shown`.**  For any selection `txns` of transactions loaded from text, any
    settings, selector and well-formed scale: when the balance report answers, it is `balanceTxt sc` of the kernel's
    balance `b`, the same `b` for every scale; every printed account sum denotes the **exact sum of the postings to
    its (commodity, account) in the journal text's selection**, rounded half away from zero to `max` decimals, every
    printed tree sum the exact sum of the postings at or below it, rounded once; every printed delta is the rounded
    exact sum of the *unrounded* listed account sums of its commodity; and every printed figure has between `min` and
    `max` decimals.  The only hypothesis about the input is that the text loaded. -/
theorem loaded_balance_shown (st st' : Settings) (ts : List Txn) (hl : Loaded st ts st')
    (txns : List Txn) (hsel : ∀ t ∈ txns, t ∈ ts)
    (sb : Settings) (sel : BalRow → Bool) (sc : Scale) (t : BalanceText) (hwf : sc.WF)
    (h : balanceReport sb sel sc (postsOf txns) = .ok t) :
    ∃ b, fromIter sb sel (postsOf txns) = .ok b
      ∧ (∀ sc', balanceReport sb sel sc' (postsOf txns) = .ok (balanceTxt sc' b))
      ∧ t.rows = b.rows.map (fun r => ⟨r.acct, r.comm, shown sc r.own, shown sc r.tree⟩)
      ∧ t.deltas = b.deltas.map (fun cd => (cd.1, shown sc cd.2))
      ∧ (∀ r ∈ b.rows, sel r = true ∧
          C17.valueOfShown (shown sc r.own).toList
            = C17.roundHalfAway (28 - sc.max) (C02.ownSum (postsOf txns) r.key) ∧
          C17.valueOfShown (shown sc r.tree).toList
            = C17.roundHalfAway (28 - sc.max) (C02.treeSum (postsOf txns) r.key) ∧
          (sc.min ≤ C17.decimalsOf (shown sc r.own).toList ∧ C17.decimalsOf (shown sc r.own).toList ≤ sc.max) ∧
          (sc.min ≤ C17.decimalsOf (shown sc r.tree).toList ∧ C17.decimalsOf (shown sc r.tree).toList ≤ sc.max))
      ∧ (∀ cd ∈ b.deltas,
          C17.valueOfShown (shown sc cd.2).toList = C17.roundHalfAway (28 - sc.max)
            (((b.rows.filter (fun r => decide (r.comm = cd.1))).map
                (fun r => C02.ownSum (postsOf txns) r.key)).sum) ∧
          (sc.min ≤ C17.decimalsOf (shown sc cd.2).toList ∧ C17.decimalsOf (shown sc cd.2).toList ≤ sc.max)) := by
  have hp := loaded_postsWF_sel st st' ts hl txns hsel
  obtain ⟨b, hb, hall, hr, hd, hrows, _⟩ := C17.display_only sb sel (postsOf txns) sc t hwf hp.scale h
  have hfig := C11.balance_figures_unchanged sb sel (postsOf txns) hp b hb
  obtain ⟨_, _, _, hdsum⟩ := C02.delta_eq sb sel (postsOf txns) hp b hb
  have hfi := C17.fromIter_figures sb sel (postsOf txns) b hp.scale hb
  refine ⟨b, hb, hall, hr, hd, ?_, ?_⟩
  · intro r hrm
    obtain ⟨hs, ho, htr⟩ := hfig r hrm
    obtain ⟨h1, h2⟩ := hrows r hrm
    refine ⟨hs, ?_, ?_, ?_, ?_⟩
    · rw [h1, ho]
    · rw [h2, htr]
    · rw [C17.shown_toList]; exact C17.decimals_bounds sc r.own hwf
    · rw [C17.shown_toList]; exact C17.decimals_bounds sc r.tree hwf
  · intro cd hcd
    obtain ⟨g, hg, hgm, hu, hs28⟩ := hfi.2 cd hcd
    refine ⟨?_, ?_⟩
    · rw [C17.shown_toList, (C17.shown_value sc cd.2 hs28 hwf).1, hdsum cd hcd]
      congr 1
      rw [List.map_congr_left]
      intro r hrm
      exact (hfig r (List.mem_filter.mp hrm).1).2.1
    · rw [C17.shown_toList]; exact C17.decimals_bounds sc cd.2 hwf

/-- `loaded_balance_shown` for a journal text -/
theorem text_balance_shown (cfg : Time.TsCfg) (st st' : Settings) (text : List Char) (ts : List Txn)
    (hload : loadText cfg st text = .ok (ts, st'))
    (txns : List Txn) (hsel : ∀ t ∈ txns, t ∈ ts)
    (sb : Settings) (sel : BalRow → Bool) (sc : Scale) (t : BalanceText) (hwf : sc.WF)
    (h : balanceReport sb sel sc (postsOf txns) = .ok t) :
    ∃ b, fromIter sb sel (postsOf txns) = .ok b
      ∧ (∀ sc', balanceReport sb sel sc' (postsOf txns) = .ok (balanceTxt sc' b))
      ∧ t.rows = b.rows.map (fun r => ⟨r.acct, r.comm, shown sc r.own, shown sc r.tree⟩)
      ∧ t.deltas = b.deltas.map (fun cd => (cd.1, shown sc cd.2))
      ∧ (∀ r ∈ b.rows, sel r = true ∧
          C17.valueOfShown (shown sc r.own).toList
            = C17.roundHalfAway (28 - sc.max) (C02.ownSum (postsOf txns) r.key) ∧
          C17.valueOfShown (shown sc r.tree).toList
            = C17.roundHalfAway (28 - sc.max) (C02.treeSum (postsOf txns) r.key) ∧
          (sc.min ≤ C17.decimalsOf (shown sc r.own).toList ∧ C17.decimalsOf (shown sc r.own).toList ≤ sc.max) ∧
          (sc.min ≤ C17.decimalsOf (shown sc r.tree).toList ∧ C17.decimalsOf (shown sc r.tree).toList ≤ sc.max))
      ∧ (∀ cd ∈ b.deltas,
          C17.valueOfShown (shown sc cd.2).toList = C17.roundHalfAway (28 - sc.max)
            (((b.rows.filter (fun r => decide (r.comm = cd.1))).map
                (fun r => C02.ownSum (postsOf txns) r.key)).sum) ∧
          (sc.min ≤ C17.decimalsOf (shown sc cd.2).toList ∧ C17.decimalsOf (shown sc cd.2).toList ≤ sc.max)) :=
  loaded_balance_shown st st' ts (loaded_of_text cfg st st' text ts hload) txns hsel sb sel sc t hwf h

/-- **C17 end to end — `loaded_register_shown`.**  `C17b.register_display_only` with `C03.TxnsWF` discharged from the
    load: for any selection of loaded transactions the register report at any well-formed scale prints, per listed
    row, `shown sc` of the posting's own amount and of the exact running total of C03 (one rounding of the exact
    sum, hidden rows included), and the engine's entries serve every scale. -/
theorem loaded_register_shown (st st' : Settings) (ts : List Txn) (hl : Loaded st ts st')
    (txns : List Txn) (hsel : ∀ t ∈ txns, t ∈ ts)
    (sel : RegRow → Bool) (sc : Scale) (t : List ShownRegEntry) (hwf : sc.WF)
    (h : registerReport sc sel txns = .ok t) :
    ∃ es, register sel txns = .ok es
      ∧ (∀ sc', registerReport sc' sel txns = .ok (registerTxt sc' es))
      ∧ t = (es.filter (fun e => !e.rows.isEmpty)).map (fun e =>
          ⟨e.txn, e.rows.map (fun r => ⟨r.post.acct, r.comm, shown sc r.post.amount, shown sc r.total⟩)⟩)
      ∧ es.length = txns.length
      ∧ ∀ i e, es[i]? = some e → ∃ tx, txns[i]? = some tx ∧ e.txn = tx ∧
          ∀ r ∈ e.rows, sel r = true ∧ ∃ j p, (C03.sortedPosts tx)[j]? = some p ∧ r.post = p ∧ r.comm = p.comm ∧
            C17.valueOfShown (shown sc r.post.amount).toList = C17.roundHalfAway (28 - sc.max) p.amount.units ∧
            C17.decimalsOf (shown sc r.post.amount).toList = sc.getPrecision r.post.amount ∧
            C17.valueOfShown (shown sc r.total).toList = C17.roundHalfAway (28 - sc.max)
              (C03.postSum p.acctnKey ((txns.take i).flatMap (·.posts))
                + C03.postSum p.acctnKey ((C03.sortedPosts tx).take (j + 1))) ∧
            C17.decimalsOf (shown sc r.total).toList = sc.getPrecision r.total :=
  C17.register_display_only sel txns sc t hwf (loaded_txnsWF_sel st st' ts hl txns hsel) h

/-- `loaded_register_shown` for a journal text -/
theorem text_register_shown (cfg : Time.TsCfg) (st st' : Settings) (text : List Char) (ts : List Txn)
    (hload : loadText cfg st text = .ok (ts, st'))
    (txns : List Txn) (hsel : ∀ t ∈ txns, t ∈ ts)
    (sel : RegRow → Bool) (sc : Scale) (t : List ShownRegEntry) (hwf : sc.WF)
    (h : registerReport sc sel txns = .ok t) :
    ∃ es, register sel txns = .ok es
      ∧ (∀ sc', registerReport sc' sel txns = .ok (registerTxt sc' es))
      ∧ t = (es.filter (fun e => !e.rows.isEmpty)).map (fun e =>
          ⟨e.txn, e.rows.map (fun r => ⟨r.post.acct, r.comm, shown sc r.post.amount, shown sc r.total⟩)⟩)
      ∧ es.length = txns.length
      ∧ ∀ i e, es[i]? = some e → ∃ tx, txns[i]? = some tx ∧ e.txn = tx ∧
          ∀ r ∈ e.rows, sel r = true ∧ ∃ j p, (C03.sortedPosts tx)[j]? = some p ∧ r.post = p ∧ r.comm = p.comm ∧
            C17.valueOfShown (shown sc r.post.amount).toList = C17.roundHalfAway (28 - sc.max) p.amount.units ∧
            C17.decimalsOf (shown sc r.post.amount).toList = sc.getPrecision r.post.amount ∧
            C17.valueOfShown (shown sc r.total).toList = C17.roundHalfAway (28 - sc.max)
              (C03.postSum p.acctnKey ((txns.take i).flatMap (·.posts))
                + C03.postSum p.acctnKey ((C03.sortedPosts tx).take (j + 1))) ∧
            C17.decimalsOf (shown sc r.total).toList = sc.getPrecision r.total :=
  loaded_register_shown st st' ts (loaded_of_text cfg st st' text ts hload) txns hsel sel sc t hwf h

/-- **C17 end to end — `loaded_balgrp_shown`.**  The balance-group report (any key function, i.e. any group-by and
    report zone) over any selection of loaded transactions at any well-formed scale: every printed group is the
    *balance report* of the transactions whose period key is its title, at the scale; its figures are those of
    `loaded_balance_shown` for the members — each row figure the exact sum over the **members'** postings rounded
    half away from zero once, each delta the rounded exact sum. -/
theorem loaded_balgrp_shown (st st' : Settings) (ts : List Txn) (hl : Loaded st ts st')
    (txns : List Txn) (hsel : ∀ t ∈ txns, t ∈ ts)
    (sb : Settings) (sel : BalRow → Bool) (key : Txn → String) (sc : Scale) (t : List GroupText) (hwf : sc.WF)
    (h : balgrpReportBy sb sel key sc txns = .ok t) :
    ∃ gs, balanceGroupsBy sb sel key txns = .ok gs
      ∧ (∀ sc', balgrpReportBy sb sel key sc' txns = .ok (balgrpTxt sc' gs))
      ∧ t = gs.map (fun g => ⟨g.title, balanceTxt sc g.bal⟩)
      ∧ (gs.map (·.title)).Pairwise (· < ·)
      ∧ ∀ g ∈ gs, ∃ members, members = txns.filter (fun tx => decide (key tx = g.title))
          ∧ balanceReport sb sel sc (postsOf members) = .ok (balanceTxt sc g.bal)
          ∧ (∀ r ∈ g.bal.rows, sel r = true ∧
              C17.valueOfShown (shown sc r.own).toList
                = C17.roundHalfAway (28 - sc.max) (C02.ownSum (postsOf members) r.key) ∧
              C17.valueOfShown (shown sc r.tree).toList
                = C17.roundHalfAway (28 - sc.max) (C02.treeSum (postsOf members) r.key))
          ∧ (∀ cd ∈ g.bal.deltas,
              C17.valueOfShown (shown sc cd.2).toList = C17.roundHalfAway (28 - sc.max)
                (((g.bal.rows.filter (fun r => decide (r.comm = cd.1))).map
                    (fun r => C02.ownSum (postsOf members) r.key)).sum)) := by
  obtain ⟨gs, hgs, hall, rfl, hg⟩ :=
    C17.balgrp_display_only_by sb sel key txns sc t hwf (loaded_txnsWF_sel st st' ts hl txns hsel) h
  refine ⟨gs, hgs, hall, rfl, C13.group_keys sb sel key txns gs hgs, ?_⟩
  intro g hgm
  obtain ⟨members, hm, hfi, hrep, _, _, _, _⟩ := hg g hgm
  have hmsel : ∀ tx ∈ members, tx ∈ ts := by
    intro tx htx
    rw [hm] at htx
    exact hsel tx (List.mem_filter.mp htx).1
  obtain ⟨b, hb, _, _, _, hrows, hdel⟩ :=
    loaded_balance_shown st st' ts hl members hmsel sb sel sc (balanceTxt sc g.bal) hwf (hrep sc)
  have hbg : b = g.bal := by rw [hfi] at hb; cases hb; rfl
  subst hbg
  refine ⟨members, hm, hrep sc, ?_, ?_⟩
  · intro r hr
    obtain ⟨h1, h2, h3, _⟩ := hrows r hr
    exact ⟨h1, h2, h3⟩
  · intro cd hcd
    exact (hdel cd hcd).1

/-! ## 2. C11 — account selectors given as patterns, from journal text -/

/-- **C11 end to end — `loaded_selector_balance`.**  A pattern list inside the regex subset (`C11.parseAll ras = some rs`)
    compiles to a selector; with it the balance report over any selection of loaded transactions, when it answers,
    lists exactly the rows of the kernel's balance whose **whole account name** matches one of the patterns (all rows
    for the empty list) — each with the own and tree sums over *all* the selection's postings, listed or not — and
    its delta lines are recomputed over the listed rows: one per commodity that still has a row, the exact sum of
    the listed own sums.  Whether the run fails does not depend on the patterns. -/
theorem loaded_selector_balance (st st' : Settings) (ts : List Txn) (hl : Loaded st ts st')
    (txns : List Txn) (hsel : ∀ t ∈ txns, t ∈ ts)
    (sb : Settings) (ras : List String) (rs : List Regex) (hp : C11.parseAll ras = some rs) :
    ∃ sel, accSelector ras = .ok sel ∧
      (fromIter sb (balRowSel sel) (postsOf txns) = .err ↔ balance sb (postsOf txns) = .err) ∧
      ∀ b, fromIter sb (balRowSel sel) (postsOf txns) = .ok b →
        ∃ bal, balance sb (postsOf txns) = .ok bal ∧
          b.rows = bal.filter (C11.balSpec rs) ∧
          (∀ row ∈ bal, C11.balSpec rs row = true ↔
              rs = [] ∨ ∃ r ∈ rs, Regex.FullMatch r (acctName row.acct).toList) ∧
          (∀ row ∈ b.rows, row.own.units = C02.ownSum (postsOf txns) row.key ∧
                           row.tree.units = C02.treeSum (postsOf txns) row.key) ∧
          (b.deltas.map (·.1)).Pairwise (· < ·) ∧
          (∀ c, c ∈ b.deltas.map (·.1) ↔ ∃ r ∈ bal, C11.balSpec rs r = true ∧ r.comm = c) ∧
          (∀ cd ∈ b.deltas, cd.2.units =
              ((bal.filter (fun r => C11.balSpec rs r && decide (r.comm = cd.1))).map (·.own.units)).sum) := by
  obtain ⟨sel, hs, hbs, _, _⟩ := C11.report_selector ras rs hp
  have hwf := loaded_postsWF_sel st st' ts hl txns hsel
  refine ⟨sel, hs, (C11.balance_rowfilter sb (balRowSel sel) (postsOf txns)).1, ?_⟩
  intro b hb
  obtain ⟨bal, hbal, hrows, hpw, hmem, hsum⟩ := C11.balance_deltas_recomputed sb (balRowSel sel) (postsOf txns) hwf b hb
  have hfig := C11.balance_figures_unchanged sb (balRowSel sel) (postsOf txns) hwf b hb
  rw [hbs] at hrows hmem hsum
  exact ⟨bal, hbal, hrows, fun row _ => C11.balSpec_iff rs row, fun row hr => (hfig row hr).2, hpw, hmem, hsum⟩

/-- `loaded_selector_balance` for a journal text -/
theorem text_selector_balance (cfg : Time.TsCfg) (st st' : Settings) (text : List Char) (ts : List Txn)
    (hload : loadText cfg st text = .ok (ts, st'))
    (txns : List Txn) (hsel : ∀ t ∈ txns, t ∈ ts)
    (sb : Settings) (ras : List String) (rs : List Regex) (hp : C11.parseAll ras = some rs) :
    ∃ sel, accSelector ras = .ok sel ∧
      (fromIter sb (balRowSel sel) (postsOf txns) = .err ↔ balance sb (postsOf txns) = .err) ∧
      ∀ b, fromIter sb (balRowSel sel) (postsOf txns) = .ok b →
        ∃ bal, balance sb (postsOf txns) = .ok bal ∧
          b.rows = bal.filter (C11.balSpec rs) ∧
          (∀ row ∈ bal, C11.balSpec rs row = true ↔
              rs = [] ∨ ∃ r ∈ rs, Regex.FullMatch r (acctName row.acct).toList) ∧
          (∀ row ∈ b.rows, row.own.units = C02.ownSum (postsOf txns) row.key ∧
                           row.tree.units = C02.treeSum (postsOf txns) row.key) ∧
          (b.deltas.map (·.1)).Pairwise (· < ·) ∧
          (∀ c, c ∈ b.deltas.map (·.1) ↔ ∃ r ∈ bal, C11.balSpec rs r = true ∧ r.comm = c) ∧
          (∀ cd ∈ b.deltas, cd.2.units =
              ((bal.filter (fun r => C11.balSpec rs r && decide (r.comm = cd.1))).map (·.own.units)).sum) :=
  loaded_selector_balance st st' ts (loaded_of_text cfg st st' text ts hload) txns hsel sb ras rs hp

/-- **C11 end to end — `loaded_selector_register`.**  With a pattern list inside the subset the register over any
    selection of loaded transactions is, as an equation between outcomes, the unselected register with the rejected
    rows removed entry by entry; every row that remains is a row of the unselected run (amount, running total,
    commodity untouched), is to an account whose whole name matches a pattern, and its running total is the exact
    sum over *all* postings to its (commodity, account) up to its position — hidden rows included. -/
theorem loaded_selector_register (st st' : Settings) (ts : List Txn) (hl : Loaded st ts st')
    (txns : List Txn) (hsel : ∀ t ∈ txns, t ∈ ts)
    (ras : List String) (rs : List Regex) (hp : C11.parseAll ras = some rs) :
    ∃ sel, accSelector ras = .ok sel ∧
      register (regRowSel sel) txns = (register selAll txns).map (fun es => es.map (C03.hide (C11.regSpec rs))) ∧
      (∀ row : RegRow, C11.regSpec rs row = true ↔
          rs = [] ∨ ∃ r ∈ rs, Regex.FullMatch r (acctName row.post.acct).toList) ∧
      ∀ es, register (regRowSel sel) txns = .ok es →
        es.length = txns.length ∧
        ∀ i e, es[i]? = some e → ∃ t, txns[i]? = some t ∧ e.txn = t ∧
          ∀ r ∈ e.rows, C11.regSpec rs r = true ∧
            ∃ j p, (C03.sortedPosts t)[j]? = some p ∧ r.post = p ∧ r.comm = p.comm ∧
              r.total.units = C03.postSum p.acctnKey ((txns.take i).flatMap (·.posts))
                                + C03.postSum p.acctnKey ((C03.sortedPosts t).take (j + 1)) := by
  obtain ⟨sel, hs, _, hrs, _⟩ := C11.report_selector ras rs hp
  have hwf := loaded_txnsWF_sel st st' ts hl txns hsel
  refine ⟨sel, hs, ?_, fun row => C11.regSpec_iff rs row, ?_⟩
  · have := (C11.register_rowfilter sel txns).1
    rw [hrs] at this
    rw [hrs]
    exact this
  · intro es hes
    obtain ⟨hlen, hrows⟩ := C03.running_total_selected (regRowSel sel) txns es hwf hes
    refine ⟨hlen, ?_⟩
    intro i e hi
    obtain ⟨t, ht, het, hr⟩ := hrows i e hi
    refine ⟨t, ht, het, ?_⟩
    intro r hrm
    obtain ⟨h1, h2⟩ := hr r hrm
    rw [hrs] at h1
    exact ⟨h1, h2⟩

/-- `loaded_selector_register` for a journal text -/
theorem text_selector_register (cfg : Time.TsCfg) (st st' : Settings) (text : List Char) (ts : List Txn)
    (hload : loadText cfg st text = .ok (ts, st'))
    (txns : List Txn) (hsel : ∀ t ∈ txns, t ∈ ts)
    (ras : List String) (rs : List Regex) (hp : C11.parseAll ras = some rs) :
    ∃ sel, accSelector ras = .ok sel ∧
      register (regRowSel sel) txns = (register selAll txns).map (fun es => es.map (C03.hide (C11.regSpec rs))) ∧
      (∀ row : RegRow, C11.regSpec rs row = true ↔
          rs = [] ∨ ∃ r ∈ rs, Regex.FullMatch r (acctName row.post.acct).toList) ∧
      ∀ es, register (regRowSel sel) txns = .ok es →
        es.length = txns.length ∧
        ∀ i e, es[i]? = some e → ∃ t, txns[i]? = some t ∧ e.txn = t ∧
          ∀ r ∈ e.rows, C11.regSpec rs r = true ∧
            ∃ j p, (C03.sortedPosts t)[j]? = some p ∧ r.post = p ∧ r.comm = p.comm ∧
              r.total.units = C03.postSum p.acctnKey ((txns.take i).flatMap (·.posts))
                                + C03.postSum p.acctnKey ((C03.sortedPosts t).take (j + 1)) :=
  loaded_selector_register st st' ts (loaded_of_text cfg st st' text ts hload) txns hsel ras rs hp

/-! ## 3. C16 / C13 — the report zone only regroups -/

/-- **C16 end to end — `loaded_zone_regroups_only`.**  Two balance-group runs over the same selection of loaded
    transactions that differ *only* in the period key (another report zone, another group-by): both partition the
    same transactions (the flattened groups are permutations of each other), and for every (commodity, account) the
    members' sums over the groups add up to the same figure — the own sum over the selection, which is what the
    balance report shows.  The report zone moves transactions between periods; it never changes an amount, drops or
    duplicates a transaction. -/
theorem loaded_zone_regroups_only (st st' : Settings) (ts : List Txn) (hl : Loaded st ts st')
    (txns : List Txn) (hsel : ∀ t ∈ txns, t ∈ ts) (key key' : Txn → String) :
    (((groupCandidates key txns).map (·.2)).flatten).Perm (((groupCandidates key' txns).map (·.2)).flatten) ∧
    ∀ k : AKey,
      ((groupCandidates key txns).map (fun kg => C02.ownSum (postsOf kg.2) k)).sum
        = ((groupCandidates key' txns).map (fun kg => C02.ownSum (postsOf kg.2) k)).sum ∧
      ((groupCandidates key txns).map (fun kg => C02.ownSum (postsOf kg.2) k)).sum = C02.ownSum (postsOf txns) k := by
  obtain ⟨hp, _⟩ := C13.group_partition key txns
  obtain ⟨hp', _⟩ := C13.group_partition key' txns
  refine ⟨hp.trans hp'.symm, ?_⟩
  intro k
  rw [C13.group_total key txns k, C13.group_total key' txns k]
  exact ⟨rfl, rfl⟩

/-- `loaded_zone_regroups_only` for a journal text and the real period keys: any two group-by settings and report
    zones -/
theorem text_zone_regroups_only (cfg : Time.TsCfg) (st st' : Settings) (text : List Char) (ts : List Txn)
    (hload : loadText cfg st text = .ok (ts, st'))
    (txns : List Txn) (hsel : ∀ t ∈ txns, t ∈ ts) (g g' : GroupBy) (tz tz' : Time.JournalTz) :
    (((groupCandidates (groupKey g tz) txns).map (·.2)).flatten).Perm
      (((groupCandidates (groupKey g' tz') txns).map (·.2)).flatten) ∧
    ∀ k : AKey,
      ((groupCandidates (groupKey g tz) txns).map (fun kg => C02.ownSum (postsOf kg.2) k)).sum
        = ((groupCandidates (groupKey g' tz') txns).map (fun kg => C02.ownSum (postsOf kg.2) k)).sum ∧
      ((groupCandidates (groupKey g tz) txns).map (fun kg => C02.ownSum (postsOf kg.2) k)).sum
        = C02.ownSum (postsOf txns) k :=
  loaded_zone_regroups_only st st' ts (loaded_of_text cfg st st' text ts hload) txns hsel _ _


/-! ## 3b. C09 — audit mode from journal text, one file or many -/

/-- **C09 end to end — `loaded_audit_set`.**  After a load in audit mode – from one text, from several files, from a git
    commit: anything that establishes `Loaded` – and for any filter: the transaction set is produced **iff** the
    canonical UUIDs of the *selected* transactions are pairwise different, wherever those transactions were read from
    (two files, one file); it then carries the number selected and the prescribed checksum.  Every loaded transaction
    carries a UUID. -/
theorem loaded_audit_set (st st' : Settings) (ts : List Txn) (hl : Loaded st ts st') (ha : st.audit = true)
    (alg : Hash.Algo) (tf : Txn → Bool) :
    (∀ t ∈ ts, t.header.uuid.isSome = true) ∧
    TxnData.filter (getHash st alg) tf ts =
      if (C09.uuidsOf (ts.filter tf)).Nodup then .ok ⟨some (C09.specItem alg (ts.filter tf)), ts.filter tf⟩ else .err := by
  obtain ⟨rs, acc, _, hacc, rfl⟩ := hl
  obtain ⟨_, huu, _⟩ := C09.audit_requires_uuid_journal st st' rs acc ha hacc
  have hall : ∀ t ∈ sortTxns acc, t.header.uuid.isSome = true := fun t ht => huu t ((mem_sortTxns acc t).mp ht)
  refine ⟨hall, ?_⟩
  have hf : C09.allHaveUuid ((sortTxns acc).filter tf) = true := by
    apply List.all_eq_true.mpr
    intro t ht
    exact hall t (List.mem_filter.mp ht).1
  simp [getHash, ha, C09.filter_outcome, hf]

/-- `loaded_audit_set` for several journal files (`paths_to_txns`): a UUID shared by transactions of *different* files
    is a duplicate like any other -/
theorem files_audit_set (cfg : Time.TsCfg) (st st' : Settings) (files : List (List Char)) (ts : List Txn)
    (hload : loadFiles cfg st files = .ok (ts, st')) (ha : st.audit = true) (alg : Hash.Algo) (tf : Txn → Bool) :
    (∀ t ∈ ts, t.header.uuid.isSome = true) ∧
    TxnData.filter (getHash st alg) tf ts =
      if (C09.uuidsOf (ts.filter tf)).Nodup then .ok ⟨some (C09.specItem alg (ts.filter tf)), ts.filter tf⟩ else .err :=
  loaded_audit_set st st' ts (loaded_of_files cfg st st' files ts hload) ha alg tf

/-- … and for one journal text -/
theorem text_audit_set (cfg : Time.TsCfg) (st st' : Settings) (text : List Char) (ts : List Txn)
    (hload : loadText cfg st text = .ok (ts, st')) (ha : st.audit = true) (alg : Hash.Algo) (tf : Txn → Bool) :
    (∀ t ∈ ts, t.header.uuid.isSome = true) ∧
    TxnData.filter (getHash st alg) tf ts =
      if (C09.uuidsOf (ts.filter tf)).Nodup then .ok ⟨some (C09.specItem alg (ts.filter tf)), ts.filter tf⟩ else .err :=
  loaded_audit_set st st' ts (loaded_of_text cfg st st' text ts hload) ha alg tf


/-! ## 3c. C01 — the rejection classes, from journal text (one file or many) -/

/-- the posting-level rejection classes of C01, read off a parse tree: a zero amount (`0`, `0.00`, `-0`); a closing
    price (`@` or `=`) in the posting's own commodity; a negative unit price; a total price whose sign differs from the
    amount's -/
def BadPosting (rp : RawPosting) : Prop :=
  rp.amount.isZero = true ∨
  (∃ u cl, rp.unit = some u ∧ u.closing = some cl ∧
      (match cl with | .unitPrice v => v.comm | .total v => v.comm) = u.comm) ∨
  (∃ u v, rp.unit = some u ∧ u.closing = some (.unitPrice v) ∧ v.value.isNeg = true) ∨
  (∃ u v, rp.unit = some u ∧ u.closing = some (.total v) ∧ v.value.isNeg ≠ rp.amount.isNeg)

/-- a parse tree with a bad posting is accepted from no settings state -/
theorem badPosting_not_accepted (r : RawTxn) (rp : RawPosting) (hrp : rp ∈ r.posts) (hbad : BadPosting rp) :
    ∀ s t s', acceptTxn s r ≠ .ok (t, s') := by
  intro s
  rcases hbad with hz | ⟨u, cl, hu, hcl, hsame⟩ | ⟨u, v, hu, hcl, hneg⟩ | ⟨u, v, hu, hcl, hsign⟩
  · exact C01.reject_zero_posting s r rp hrp hz
  · cases cl with
    | unitPrice v => exact C01.reject_price_same_commodity s r rp hrp u _ hu hcl hsame
    | total v => exact C01.reject_price_same_commodity s r rp hrp u _ hu hcl hsame
  · exact C01.reject_negative_unit_price s r rp hrp u v hu hcl hneg
  · exact C01.reject_total_price_sign s r rp hrp u v hu hcl hsign

/-- **C01 end to end — `text_rejects_bad_posting`.**  A journal text one of whose transactions has a posting in a
    rejection class (zero amount, price in the posting's own commodity, negative unit price, total price of opposite
    sign) does not load – from any settings, whatever else the text contains: the journal is rejected as a whole. -/
theorem text_rejects_bad_posting (cfg : Time.TsCfg) (st : Settings) (text : List Char) (rs : List RawTxn)
    (hp : parseJournal cfg text = some rs) (r : RawTxn) (hr : r ∈ rs) (rp : RawPosting) (hrp : rp ∈ r.posts)
    (hbad : BadPosting rp) : ∀ ts st', loadText cfg st text ≠ .ok (ts, st') := by
  intro ts st' h
  obtain ⟨rs', acc, hp', _, _, hacc, _, _⟩ := load_inv cfg st st' text ts h
  rw [hp] at hp'
  cases hp'
  unfold acceptJournal at hacc
  obtain ⟨s₁, t, s₂, hok⟩ := C15.mapMS_ok_all acceptTxn rs st st' acc hacc r hr
  exact badPosting_not_accepted r rp hrp hbad s₁ t s₂ hok

/-- … and the same for several journal files: one bad posting in any transaction of any file, and nothing is loaded
    from any of them -/
theorem files_rejects_bad_posting (cfg : Time.TsCfg) (st : Settings) (files : List (List Char)) (f : List Char)
    (hf : f ∈ files) (rs : List RawTxn) (hp : parseJournal cfg f = some rs) (r : RawTxn) (hr : r ∈ rs)
    (rp : RawPosting) (hrp : rp ∈ r.posts) (hbad : BadPosting rp) :
    ∀ ts st', loadFiles cfg st files ≠ .ok (ts, st') := by
  intro ts st' h
  obtain ⟨rs', s₁, ts₁, s₂, hp', hacc⟩ := C15.files_ok_all cfg st st' files ts h f hf
  rw [hp] at hp'
  cases hp'
  unfold acceptJournal at hacc
  obtain ⟨s₃, t, s₄, hok⟩ := C15.mapMS_ok_all acceptTxn rs s₁ s₂ ts₁ hacc r hr
  exact badPosting_not_accepted r rp hrp hbad s₃ t s₄ hok


/-! ## 3d. Size independence (what a block-wise or batch-wise implementation has to equal) -/

/-- **C05 — `filter_blockwise`.**  The selection is made transaction by transaction: cutting the journal into any blocks,
    selecting in each block and concatenating gives the selection of the whole — for every cutting, so for blocks of
    `len / 4` with a remainder as for any other (the seeded change C05-9 drops the remainder block). -/
theorem filter_blockwise (m : String → String → Bool) (f : Filter) (blocks : List (List Txn)) :
    filterTxns m f blocks.flatten = (blocks.map (filterTxns m f)).flatten := by
  induction blocks with
  | nil => rfl
  | cons b rest ih =>
    simp only [List.flatten_cons, List.map_cons]
    rw [← ih]
    exact List.filter_append ..

/-- … and in particular nothing of a journal is outside its blocks: the selected and the rejected transactions of all
    blocks together are as many as the journal has -/
theorem filter_blockwise_complete (m : String → String → Bool) (f : Filter) (blocks : List (List Txn)) :
    ((blocks.map (filterTxns m f)).flatten).length + ((blocks.map (filterTxns m (.not f))).flatten).length
      = blocks.flatten.length := by
  rw [← filter_blockwise, ← filter_blockwise]
  exact (C05.partition m f blocks.flatten).2


/-- **C06 — `identityExport_batchwise`.**  The identity export is one transaction text after the other (each followed
    by its blank line): writing the journal in batches of any sizes and concatenating the batches' texts gives the export
    of the whole — for every cutting (the seeded change C06-10 joins inside batches of 1024 and writes nothing between
    two batches). -/
theorem identityExport_batchwise (div : Dec → Dec → Dec) (batches : List (List Txn)) :
    Print.identityExport div batches.flatten = (batches.map (Print.identityExport div)).flatten := by
  have hlead : Print.blankLines Print.Layout.identity Print.Layout.identity.lead = [] := by decide
  have h1 : ∀ ts : List Txn, Print.identityExport div ts = (ts.map (Print.txnL Print.Layout.identity div)).flatten := by
    intro ts
    unfold Print.identityExport Print.printL
    rw [hlead]; rfl
  induction batches with
  | nil => simp [h1]
  | cons b rest ih =>
    simp only [List.flatten_cons, List.map_cons]
    rw [← ih, h1, h1, h1, List.map_append, List.flatten_append]


/-- **C02 — `sums_blockwise`.**  The exact account sum and tree sum over a journal are the sums of the blocks' exact
    sums, for every cutting of the posting stream into blocks: what any chunked, batched or parallel summation has to
    equal (with `C02.own_sum` / `tree_sum`: what the balance report shows). -/
theorem sums_blockwise (blocks : List (List BPost)) (k : AKey) :
    C02.ownSum blocks.flatten k = (blocks.map (fun b => C02.ownSum b k)).sum ∧
    C02.treeSum blocks.flatten k = (blocks.map (fun b => C02.treeSum b k)).sum := by
  induction blocks with
  | nil => simp [C02.ownSum, C02.treeSum]
  | cons b rest ih =>
    simp only [List.flatten_cons, List.map_cons, List.sum_cons]
    rw [← ih.1, ← ih.2]
    unfold C02.ownSum C02.treeSum
    simp only [List.filter_append, List.map_append, List.sum_append]
    exact ⟨trivial, trivial⟩

/-! ## 4. Non-vacuity: the sample text of `Props/E2E.lean` through the new theorems -/
namespace ExC
open Ex

/-- scale 0..1: `a:b` is posted 1.50 and is shown `1.5`; the unposted ancestor `a` shows its tree sum `3.5` -/
def sc01 : Scale := ⟨0, 1⟩

theorem sc01_wf : sc01.WF := by decide

theorem sample_report01 : balanceReport stAfter (fun _ => true) sc01 (postsOf [t1, t2])
    = .ok (balanceTxt sc01 ⟨rowsAll, [("", ⟨false, 0, 2⟩)]⟩) := by
  unfold balanceReport; rw [sample_fromIter]; rfl

/-- the hypotheses of `text_balance_shown` are satisfiable, and its conclusion says what it should on the sample:
    the printed own sum of `a:b` denotes 1.50 = the exact sum of the text's postings to it (rounded to one decimal:
    unchanged), for the kernel balance `b` the theorem hands back -/
example : ∃ b, fromIter stAfter (fun _ => true) (postsOf [t1, t2]) = .ok b ∧
    ∀ r ∈ b.rows, C17.valueOfShown (shown sc01 r.own).toList
      = C17.roundHalfAway (28 - sc01.max) (C02.ownSum (postsOf [t1, t2]) r.key) := by
  obtain ⟨b, hb, _, _, _, hrows, _⟩ := text_balance_shown utc lax0 stAfter sample [t1, t2] sample_loads [t1, t2] (sel_all _)
    stAfter (fun _ => true) sc01 _ sc01_wf sample_report01
  exact ⟨b, hb, fun r hr => (hrows r hr).2.1⟩

/-- scale 0..0 rounds: `a:b` 1.50 is printed `2` (half away from zero), `f` −3.5 is printed `-4` -/
example : (balanceTxt ⟨0, 0⟩ ⟨rowsAll, [("", ⟨false, 0, 2⟩)]⟩).rows.map (·.own) = ["0", "2", "2", "0", "-4"] := by decide

/-- the selector pattern `a:b` (inside the regex subset) lists `a:b` only — not `a:bc`, of whose name it is a proper
    prefix: `text_selector_balance` applies to the sample -/
example : ∃ sel, accSelector ["a:b"] = .ok sel ∧
    ∀ b, fromIter stAfter (balRowSel sel) (postsOf [t1, t2]) = .ok b →
      ∃ bal, balance stAfter (postsOf [t1, t2]) = .ok bal ∧ b.rows = bal.filter (C11.balSpec [Regex.lits "a:b".toList]) := by
  obtain ⟨sel, hs, _, h⟩ := text_selector_balance utc lax0 stAfter sample [t1, t2] sample_loads [t1, t2] (sel_all _)
    stAfter ["a:b"] [Regex.lits "a:b".toList] (by decide)
  refine ⟨sel, hs, fun b hb => ?_⟩
  obtain ⟨bal, hbal, hrows, _⟩ := h b hb
  exact ⟨bal, hbal, hrows⟩

example : (rowsAll.filter (C11.balSpec [Regex.lits "a:b".toList])).map (·.acct) = [["a", "b"]] := by decide

/-- two report zones 14 h apart put `t1` (2024-01-01T00:00Z) into different days; `text_zone_regroups_only` says
    the groups are still a partition of the same transactions with the same per-account totals -/
example : (((groupCandidates (groupKey .date (.fixed 0)) [t1, t2]).map (·.2)).flatten).Perm
    (((groupCandidates (groupKey .date (.fixed (-36000))) [t1, t2]).map (·.2)).flatten) :=
  (text_zone_regroups_only utc lax0 stAfter sample [t1, t2] sample_loads [t1, t2] (sel_all _) .date .date
    (.fixed 0) (.fixed (-36000))).1


/-- `text_rejects_bad_posting` on a concrete text: the second transaction has a total price of opposite sign
    (`e 1 ACME = -5 EUR`), so nothing of the text loads — although the first transaction alone is fine -/
def badText : List Char := "2024-01-01\n a 1\n b\n\n2024-01-02\n e 1 ACME = -5 EUR\n f\n".toList

def badR1 : RawTxn := ⟨⟨⟨1704067200000000000, 0⟩, none, none, none, none, none, none⟩,
  [⟨["a"], ⟨false, 1, 0⟩, none, none⟩], some (["b"], none)⟩
def badR2 : RawTxn := ⟨⟨⟨1704153600000000000, 0⟩, none, none, none, none, none, none⟩,
  [⟨["e"], ⟨false, 1, 0⟩, some ⟨"ACME", none, some (.total ⟨⟨true, 5, 0⟩, "EUR"⟩)⟩, none⟩], some (["f"], none)⟩

theorem badText_parses : parseJournal utc badText = some [badR1, badR2] := by decide

example : ∀ ts st', loadText utc lax0 badText ≠ .ok (ts, st') :=
  text_rejects_bad_posting utc lax0 badText _ badText_parses badR2 (by decide) _ List.mem_cons_self
    (.inr (.inr (.inr ⟨_, _, rfl, rfl, by decide⟩)))

/-! ### regression witnesses of the fifth round of seeded changes -/

/-- C01-9: the *written* amounts cancel (`10 ACME @ 2 EUR` / `-10 EUR`), the values do not (20 − 10): not accepted -/
def writtenCancel : List Char := "2024-01-01\n a 10 ACME @ 2 EUR\n c -10 EUR\n".toList
example : ∀ ts st', loadText utc lax0 writtenCancel ≠ .ok (ts, st') := by
  intro ts st' h
  have : loadText utc lax0 writtenCancel = .err := by decide
  rw [this] at h; cases h

/-- C01-10: explicit postings in two commodities without a closing price plus an amount-less last posting: not accepted -/
def mixedWithImplicit : List Char := "2024-01-01\n h 100 EUR\n t 20 USD\n cash\n".toList
example : ∀ ts st', loadText utc lax0 mixedWithImplicit ≠ .ok (ts, st') := by
  intro ts st' h
  have : loadText utc lax0 mixedWithImplicit = .err := by decide
  rw [this] at h; cases h

/-- C05-10: a box across the antimeridian (west 170 > east −170) is inclusive at its east edge: a transaction located at
    longitude exactly −170 is selected (instance of `C05.bbox_spec`) -/
example : Filter.eval (fun _ _ => false) (.bbox ⟨true, 10, 0⟩ ⟨false, 170, 0⟩ ⟨false, 10, 0⟩ ⟨true, 170, 0⟩)
    ⟨⟨⟨0, 0⟩, none, none, none, some ⟨⟨false, 0, 0⟩, ⟨true, 170, 0⟩, none⟩, none, none⟩, []⟩ = true := by decide

end ExC

end E2E
end Tackler

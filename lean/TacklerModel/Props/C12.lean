import TacklerModel.Model.Charts
/-!
# C12 — strict mode accepts exactly the journals that use only declared names

Model: `Model/Settings.lean` (`accountTreesFrom`, `getOrCreateCommodity`, `getOrCreateTxnAccount`,
`getOrCreateTag`, `getTxnAccount`), `Model/Accept.lean` (`acceptJournal` and its parts),
`Model/Charts.lean` (`settingsTryFrom`: report commodity, price-file commodities, equity account).

Property theorems (all for arbitrary journals, charts and settings; no size bounds):

* `strict_iff` / `strict_iff_config` — strict mode accepts a journal (yielding `ts`) iff every account,
  commodity (posting, closing price) and tag it uses is declared and lax mode with the same switches
  accepts it (yielding the same `ts`), whatever the lax charts are.
* `strict_iff_cfg` — the same for the whole load, including the names the configuration uses
  (report commodity, price-file commodities, equity account of a selected equity export).
* `strict_frozen` — in strict mode reading a journal never changes the charts.
* `synthetic_only_reports` — an undeclared ancestor of a declared account cannot be posted to, but
  `getTxnAccount` (report lookup) finds it.
* `lax_chart_free`, `lax_chart_free_outcome`, `lax_chart_free_config` — with strict mode off acceptance
  (three-valued outcome) and the accepted transactions do not depend on the charts.
* `lax_ancestor_closed`, `ofConfig_closed`, `report_parents_ok` — the account chart stays ancestor-closed
  in lax mode (declared + synthetic closed in strict mode), hence the balance kernel's lookup succeeds for
  every ancestor of every posted account, in both modes.  Finding F9 was the failure of this for
  `accountTreesFrom … false`; the witnesses at the end keep it from coming back.
* `modes_agree` — both modes accept ⇒ same transactions.

Not covered by a theorem: equality of the *report texts* between modes/charts (the reports are not
modelled here); the tie's oracle checks it on the implementation.

Proof architecture: every state-threaded function `f` gets a `StepSpec f P` (switches preserved, charts
frozen in strict mode, `f s a = ok b ↔ (s strict → P s a) ∧ f s' a = ok b` for every lax `s'` with the same
switches); `StepSpec.mapMS` lifts it through the traversals.  A second family (`Grow`) tracks chart growth
and ancestor closure, a third (`OutSim`) the three-valued agreement of two lax runs.
-/
set_option linter.unusedSimpArgs false

namespace Tackler
namespace C12

/-! ### account chart: ancestors -/

/-- `q` has its parent in `other ∪ l`, or is a root -/
def Good (other l : List Path) (q : Path) : Prop :=
  q.length ≤ 1 ∨ parentPath q ∈ other ∨ parentPath q ∈ l

theorem Good.mono {other l l' : List Path} {q : Path} (h : Good other l q) (hs : ∀ x ∈ l, x ∈ l') :
    Good other l' q := by
  rcases h with h | h | h
  · exact .inl h
  · exact .inr (.inl h)
  · exact .inr (.inr (hs _ h))

theorem parentPath_length (p : Path) : (parentPath p).length = p.length - 1 := by
  simp [parentPath]

/-- what `build_account_tree` achieves -/
theorem build_spec (other : List Path) : ∀ (fuel : Nat) (target : List Path) (p : Path), p.length ≤ fuel →
    (∀ x ∈ target, x ∈ buildAccountTree other fuel target p) ∧
    Good other (buildAccountTree other fuel target p) p ∧
    (∀ q ∈ buildAccountTree other fuel target p, q ∉ target → Good other (buildAccountTree other fuel target p) q) := by
  intro fuel
  induction fuel with
  | zero =>
    intro target p hp
    simp only [buildAccountTree]
    exact ⟨fun _ h => h, .inl (by omega), fun q hq hn => absurd hq hn⟩
  | succ fuel ih =>
    intro target p hp
    simp only [buildAccountTree]
    split
    · rename_i h1
      exact ⟨fun _ h => h, .inl h1, fun q hq hn => absurd hq hn⟩
    · split
      · rename_i h2
        exact ⟨fun _ h => h, .inr h2, fun q hq hn => absurd hq hn⟩
      · rename_i h1 h2
        have hlen : (parentPath p).length ≤ fuel := by rw [parentPath_length]; omega
        obtain ⟨hsub, hgood, hnew⟩ := ih (target ++ [parentPath p]) (parentPath p) hlen
        refine ⟨fun x hx => hsub x (by simp [hx]), ?_, ?_⟩
        · exact .inr (.inr (hsub _ (by simp)))
        · intro q hq hn
          by_cases hqt : q ∈ target ++ [parentPath p]
          · have : q = parentPath p := by
              rcases List.mem_append.mp hqt with h | h
              · exact absurd h hn
              · simpa using h
            subst this
            exact hgood
          · exact hnew q hq hqt

theorem buildParents_spec (other target : List Path) (p : Path) :
    (∀ x ∈ target, x ∈ buildParents other target p) ∧
    Good other (buildParents other target p) p ∧
    (∀ q ∈ buildParents other target p, q ∉ target → Good other (buildParents other target p) q) :=
  build_spec other p.length target p (Nat.le_refl _)

/-- the fold of `build_account_tree` over a list of accounts (`AccountTrees::from`) -/
theorem fold_spec (other : List Path) : ∀ (l acc : List Path),
    (∀ x ∈ acc, x ∈ l.foldl (fun t p => buildParents other t p) acc) ∧
    (∀ q ∈ l, Good other (l.foldl (fun t p => buildParents other t p) acc) q) ∧
    (∀ q ∈ l.foldl (fun t p => buildParents other t p) acc, q ∉ acc →
        Good other (l.foldl (fun t p => buildParents other t p) acc) q) := by
  intro l
  induction l with
  | nil =>
    intro acc
    refine ⟨fun _ h => h, ?_, fun q hq hn => absurd hq hn⟩
    intro q hq
    cases hq
  | cons p t ih =>
    intro acc
    simp only [List.foldl_cons]
    obtain ⟨hsub, hgood, hnew⟩ := buildParents_spec other acc p
    obtain ⟨isub, igood, inew⟩ := ih (buildParents other acc p)
    refine ⟨fun x hx => isub x (hsub x hx), ?_, ?_⟩
    · intro q hq
      rcases List.mem_cons.mp hq with rfl | hq
      · exact hgood.mono isub
      · exact igood q hq
    · intro q hq hn
      by_cases hqb : q ∈ buildParents other acc p
      · exact (hnew q hqb hn).mono isub
      · exact inew q hq hqb

theorem mem_foldl_insertNew {α} [DecidableEq α] (l : List α) : ∀ (acc : List α) (a : α),
    a ∈ l.foldl insertNew acc ↔ a ∈ acc ∨ a ∈ l := by
  induction l with
  | nil => intro acc a; simp
  | cons x t ih =>
    intro acc a
    simp only [List.foldl_cons, ih, insertNew]
    split
    · rename_i hx
      constructor
      · rintro (h | h)
        · exact .inl h
        · exact .inr (List.mem_cons_of_mem _ h)
      · rintro (h | h)
        · exact .inl h
        · rcases List.mem_cons.mp h with rfl | h
          · exact .inl hx
          · exact .inr h
    · simp only [List.mem_append, List.mem_cons, List.not_mem_nil, or_false]
      constructor
      · rintro ((h | h) | h)
        · exact .inl h
        · exact .inr (.inl h)
        · exact .inr (.inr h)
      · rintro (h | h | h)
        · exact .inl (.inl h)
        · exact .inl (.inr h)
        · exact .inr h

/-- a chart in which every non-root account has its parent -/
def AncClosed (l : List Path) : Prop := ∀ p ∈ l, p.length ≤ 1 ∨ parentPath p ∈ l

/-- declared accounts plus synthetic parents are closed (strict mode) -/
def AncClosed2 (l syn : List Path) : Prop := ∀ p, p ∈ l ∨ p ∈ syn → p.length ≤ 1 ∨ parentPath p ∈ l ∨ parentPath p ∈ syn

theorem accountTreesFrom_lax_closed (names : List Path) : AncClosed (accountTreesFrom names false).1 := by
  simp only [accountTreesFrom, Bool.false_eq_true, if_false]
  obtain ⟨hsub, hgood, hnew⟩ := fold_spec [] (names.foldl insertNew []) (names.foldl insertNew [])
  intro p hp
  by_cases hd : p ∈ names.foldl insertNew []
  · rcases hgood p hd with h | h | h
    · exact .inl h
    · cases h
    · exact .inr h
  · rcases hnew p hp hd with h | h | h
    · exact .inl h
    · cases h
    · exact .inr h

theorem accountTreesFrom_lax_mem (names : List Path) (p : Path) (h : p ∈ names) : p ∈ (accountTreesFrom names false).1 := by
  simp only [accountTreesFrom, Bool.false_eq_true, if_false]
  exact (fold_spec [] _ _).1 p ((mem_foldl_insertNew names [] p).mpr (.inr h))

theorem accountTreesFrom_strict_fst (names : List Path) (p : Path) :
    p ∈ (accountTreesFrom names true).1 ↔ p ∈ names := by
  simp [accountTreesFrom, mem_foldl_insertNew]

theorem accountTreesFrom_strict_closed (names : List Path) :
    AncClosed2 (accountTreesFrom names true).1 (accountTreesFrom names true).2 := by
  simp only [accountTreesFrom, if_true]
  obtain ⟨_, hgood, hnew⟩ := fold_spec (names.foldl insertNew []) (names.foldl insertNew []) []
  intro p hp
  rcases hp with hp | hp
  · exact hgood p hp
  · exact hnew p hp (by simp)

/-- in a closed chart every non-empty prefix (ancestor) of a member is a member -/
theorem closed_prefix (mem : Path → Prop) (hcl : ∀ p, mem p → p.length ≤ 1 ∨ mem (parentPath p)) :
    ∀ (n : Nat) (p q : Path), p.length = n → mem p → q ≠ [] → q <+: p → mem q := by
  intro n
  induction n with
  | zero =>
    intro p q hn _ hq hpre
    have : p = [] := List.length_eq_zero_iff.mp hn
    subst this
    exact absurd (List.prefix_nil.mp hpre) hq
  | succ n ih =>
    intro p q hn hp hq hpre
    by_cases heq : q = p
    · subst heq; exact hp
    · have hlt : q.length < p.length := by
        rcases Nat.lt_or_ge q.length p.length with h | h
        · exact h
        · exact absurd (hpre.eq_of_length_le h) heq
      have hqpos : 0 < q.length := List.length_pos_iff.mpr hq
      rcases hcl p hp with h1 | h1
      · omega
      · refine ih (parentPath p) q (by rw [parentPath_length]; omega) h1 hq ?_
        rw [List.prefix_iff_eq_take] at hpre ⊢
        rw [parentPath, List.dropLast_eq_take, List.take_take]
        have : min q.length (p.length - 1) = q.length := by omega
        rw [this]
        exact hpre

/-! ### what can change in the settings while a journal is read -/

/-- the three switches; no load-path function changes them -/
def Flags (s : Settings) : Bool × Bool × Bool := (s.strict, s.audit, s.permitEmpty)

/-- the charts are unchanged, except that the empty commodity may have been registered
    (`permit-empty-commodity`); this is all that happens in strict mode -/
structure Frozen (s t : Settings) : Prop where
  flags : Flags t = Flags s
  accounts : t.accounts = s.accounts
  synthetic : t.synthetic = s.synthetic
  tags : t.tags = s.tags
  comms : ∀ n, n ≠ "" → (n ∈ t.commodities ↔ n ∈ s.commodities)
  commsMono : ∀ n, n ∈ s.commodities → n ∈ t.commodities

theorem Frozen.refl (s : Settings) : Frozen s s :=
  ⟨rfl, rfl, rfl, rfl, fun _ _ => Iff.rfl, fun _ h => h⟩

theorem Frozen.trans {s t u : Settings} (h1 : Frozen s t) (h2 : Frozen t u) : Frozen s u :=
  ⟨h2.flags.trans h1.flags, h2.accounts.trans h1.accounts, h2.synthetic.trans h1.synthetic,
   h2.tags.trans h1.tags, fun n hn => (h2.comms n hn).trans (h1.comms n hn),
   fun n hn => h2.commsMono n (h1.commsMono n hn)⟩

theorem Frozen.strict {s t : Settings} (h : Frozen s t) : t.strict = s.strict := by
  have := h.flags; simp only [Flags, Prod.mk.injEq] at this; exact this.1

/-- `s'` is a lax-mode settings value with the same permit-empty and audit switches as `s`
    (its charts are arbitrary) -/
structure Rel (s s' : Settings) : Prop where
  lax : s'.strict = false
  pe : s'.permitEmpty = s.permitEmpty
  audit : s'.audit = s.audit

theorem Rel.step {s s' t t' : Settings} (h : Rel s s') (h1 : Flags t = Flags s) (h2 : Flags t' = Flags s') :
    Rel t t' := by
  simp only [Flags, Prod.mk.injEq] at h1 h2
  exact ⟨h2.1.trans h.lax, h2.2.2.trans (h.pe.trans h1.2.2.symm), h2.2.1.trans (h.audit.trans h1.2.1.symm)⟩

/-- Specification of a state-threaded load-path function `f` relative to a predicate `P s a`
    ("every name that `a` uses is declared in the charts of `s`"):
    * the switches never change; in strict mode the charts never change;
    * `f` succeeds from `s` with value `b` iff (`s` strict → `P s a`) and `f` succeeds with the same value
      from any lax settings with the same switches. -/
structure StepSpec {α β : Type} (f : Settings → α → Outcome (β × Settings)) (P : Settings → α → Prop) : Prop where
  flags : ∀ s a b s2, f s a = .ok (b, s2) → Flags s2 = Flags s
  frozen : ∀ s a b s2, s.strict = true → f s a = .ok (b, s2) → Frozen s s2
  iff : ∀ s s' a b, Rel s s' →
    ((∃ s2, f s a = .ok (b, s2)) ↔ (s.strict = true → P s a) ∧ ∃ s2', f s' a = .ok (b, s2'))
  stable : ∀ s t a, Frozen s t → (P t a ↔ P s a)

theorem mem_insertNew {α} [DecidableEq α] (l : List α) (x a : α) : a ∈ insertNew l x ↔ a ∈ l ∨ a = x := by
  unfold insertNew
  split
  · rename_i h
    constructor
    · exact fun h' => .inl h'
    · rintro (h' | rfl)
      · exact h'
      · exact h
  · simp

/-- the commodity is the empty one or is in the chart -/
def PComm (s : Settings) (n : String) : Prop := n = "" ∨ n ∈ s.commodities

theorem PComm.stable {s t : Settings} (n : String) (h : Frozen s t) : PComm t n ↔ PComm s n := by
  unfold PComm
  by_cases hn : n = ""
  · simp [hn]
  · simp [hn, h.comms n hn]

theorem goc_spec : StepSpec (fun s n => s.getOrCreateCommodity (some n)) PComm where
  flags := by
    intro s n b s2 h
    simp only [Settings.getOrCreateCommodity] at h
    (repeat' split at h) <;> first | (cases h; done) | (cases h; rfl)
  frozen := by
    intro s n b s2 hs h
    simp only [Settings.getOrCreateCommodity] at h
    split at h
    · split at h
      · cases h
        refine ⟨rfl, rfl, rfl, rfl, ?_, ?_⟩
        · intro m hm; simp [mem_insertNew, hm]
        · intro m hm; simp [mem_insertNew, hm]
      · cases h
    · split at h
      · cases h; exact Frozen.refl _
      · simp at h
  iff := by
    intro s s' n b hr
    simp only [Settings.getOrCreateCommodity, hr.lax, hr.pe, PComm]
    by_cases hn : n = ""
    · subst hn
      by_cases hpe : s.permitEmpty = true <;> simp [hpe]
    · by_cases hm : n ∈ s.commodities <;> by_cases hm' : n ∈ s'.commodities <;>
        by_cases hst : s.strict = true <;> simp [hn, hm, hm', hst]
  stable := fun s t n h => PComm.stable n h

def PTag (s : Settings) (n : String) : Prop := n ∈ s.tags

theorem tag_spec : StepSpec (fun s n => s.getOrCreateTag n) PTag where
  flags := by
    intro s n b s2 h
    simp only [Settings.getOrCreateTag] at h
    (repeat' split at h) <;> first | (cases h; done) | (cases h; rfl)
  frozen := by
    intro s n b s2 hs h
    simp only [Settings.getOrCreateTag] at h
    (repeat' split at h) <;> first | (cases h; done) | (cases h; exact Frozen.refl _) | (simp_all; done)
  iff := by
    intro s s' n b hr
    simp only [Settings.getOrCreateTag, hr.lax, PTag]
    by_cases hn : n = ""
    · simp [hn]
    · by_cases hm : n ∈ s.tags <;> by_cases hm' : n ∈ s'.tags <;>
        by_cases hst : s.strict = true <;> simp [hn, hm, hm', hst]
  stable := by
    intro s t n h
    simp [PTag, h.tags]

/-- the account is in the chart and the commodity is the empty one or in the chart -/
def PAcct (s : Settings) (a : Path × String) : Prop := a.1 ∈ s.accounts ∧ PComm s a.2

theorem goc_other (s : Settings) (x : Option String) (c : String) (s1 : Settings)
    (h : s.getOrCreateCommodity x = .ok (c, s1)) :
    s1.accounts = s.accounts ∧ s1.synthetic = s.synthetic ∧ s1.tags = s.tags ∧ Flags s1 = Flags s ∧
    (∀ n, n ∈ s.commodities → n ∈ s1.commodities) ∧ (∀ n, x = some n → c = n ∧ n ∈ s1.commodities) := by
  simp only [Settings.getOrCreateCommodity] at h
  (repeat' split at h) <;> first | (cases h; done) | (cases h; simp_all [Flags, mem_insertNew])

theorem gocta_ok (s : Settings) (p : Path) (c : String) (b : Path) :
    (∃ s2, s.getOrCreateTxnAccount p c = .ok (b, s2)) ↔
      b = p ∧ (∃ r, s.getOrCreateCommodity (some c) = .ok r) ∧ (s.strict = true → p ∈ s.accounts) := by
  unfold Settings.getOrCreateTxnAccount
  split
  · simp_all
  · simp_all
  · rename_i c' s1 hc
    obtain ⟨hacc, _, _, hfl, _⟩ := goc_other _ _ _ _ hc
    have hst : s1.strict = s.strict := by simp only [Flags, Prod.mk.injEq] at hfl; exact hfl.1
    rw [hacc, hst]
    constructor
    · rintro ⟨s2, h⟩
      by_cases hm : p ∈ s.accounts <;> by_cases hs : s.strict = true <;> simp [hm, hs] at h
      all_goals exact ⟨h.1.symm, ⟨_, hc⟩, by simp [hm, hs]⟩
    · rintro ⟨rfl, _, hp⟩
      by_cases hm : b ∈ s.accounts <;> by_cases hs : s.strict = true <;> simp [hm, hs]
      exact hm (hp hs)

theorem goc_ok_exists (s s' : Settings) (hr : Rel s s') (c : String) :
    (∃ r, s.getOrCreateCommodity (some c) = .ok r) ↔
      (s.strict = true → PComm s c) ∧ ∃ r, s'.getOrCreateCommodity (some c) = .ok r := by
  constructor
  · rintro ⟨⟨b, s2⟩, h⟩
    obtain ⟨h1, s2', h2⟩ := (goc_spec.iff s s' c b hr).mp ⟨s2, h⟩
    exact ⟨h1, _, h2⟩
  · rintro ⟨h1, ⟨b, s2'⟩, h2⟩
    obtain ⟨s2, h⟩ := (goc_spec.iff s s' c b hr).mpr ⟨h1, s2', h2⟩
    exact ⟨_, h⟩

/-- what `get_or_create_txn_account` does to the settings -/
theorem gocta_state (s : Settings) (p : Path) (c : String) (b : Path) (s2 : Settings)
    (h : s.getOrCreateTxnAccount p c = .ok (b, s2)) :
    ∃ c' s1, s.getOrCreateCommodity (some c) = .ok (c', s1) ∧
      ((s.strict = true ∧ s2 = s1) ∨
       (s.strict = false ∧ Flags s2 = Flags s1 ∧ s2.synthetic = s1.synthetic ∧ s2.tags = s1.tags ∧
          s2.commodities = s1.commodities ∧
          (s2.accounts = buildParents [] s1.accounts p ∨ s2.accounts = buildParents [] (s1.accounts ++ [p]) p) ∧
          (p ∈ s1.accounts → s2.accounts = buildParents [] s1.accounts p))) := by
  unfold Settings.getOrCreateTxnAccount at h
  split at h
  · cases h
  · cases h
  · rename_i c' s1 hc
    refine ⟨c', s1, hc, ?_⟩
    obtain ⟨_, _, _, hfl, _⟩ := goc_other _ _ _ _ hc
    have hst : s1.strict = s.strict := by simp only [Flags, Prod.mk.injEq] at hfl; exact hfl.1
    rw [hst] at h
    by_cases hm : p ∈ s1.accounts <;> by_cases hs : s.strict = true <;> simp [hm, hs] at h
    · exact .inl ⟨hs, h.2.symm⟩
    · refine .inr ⟨by simpa using hs, ?_⟩
      obtain ⟨_, rfl⟩ := h
      simp [Flags, hm, hst, hs]
    · refine .inr ⟨by simpa using hs, ?_⟩
      obtain ⟨_, rfl⟩ := h
      simp [Flags, hm, hst, hs]

theorem acct_spec : StepSpec (fun s (a : Path × String) => s.getOrCreateTxnAccount a.1 a.2) PAcct where
  flags := by
    intro s a b s2 h
    obtain ⟨c', s1, hc, hcase⟩ := gocta_state _ _ _ _ _ h
    obtain ⟨_, _, _, hfl, _⟩ := goc_other _ _ _ _ hc
    rcases hcase with ⟨_, rfl⟩ | ⟨_, hf, _⟩
    · exact hfl
    · exact hf.trans hfl
  frozen := by
    intro s a b s2 hs h
    obtain ⟨c', s1, hc, hcase⟩ := gocta_state _ _ _ _ _ h
    rcases hcase with ⟨_, rfl⟩ | ⟨hl, _⟩
    · exact goc_spec.frozen s a.2 c' _ hs hc
    · simp [hs] at hl
  iff := by
    intro s s' a b hr
    rw [gocta_ok, gocta_ok, goc_ok_exists s s' hr]
    simp only [hr.lax, Bool.false_eq_true, false_imp_iff, and_true, PAcct]
    constructor
    · rintro ⟨hb, ⟨hc, hex⟩, hp⟩
      exact ⟨fun hs => ⟨hp hs, hc hs⟩, hb, hex⟩
    · rintro ⟨hp, hb, hex⟩
      exact ⟨hb, ⟨fun hs => (hp hs).2, hex⟩, fun hs => (hp hs).1⟩
  stable := by
    intro s t a h
    simp [PAcct, h.accounts, PComm.stable a.2 h]

/-! ### lifting a step specification through `mapMS` -/

theorem mapMS_cons_ok {σ α β} (f : σ → α → Outcome (β × σ)) (s s2 : σ) (a : α) (t : List α) (bs : List β) :
    mapMS f s (a :: t) = .ok (bs, s2) ↔
      ∃ b s1 bs', f s a = .ok (b, s1) ∧ mapMS f s1 t = .ok (bs', s2) ∧ bs = b :: bs' := by
  simp only [mapMS]
  cases hfa : f s a with
  | err => simp
  | undef => simp
  | ok r =>
    obtain ⟨b, s1⟩ := r
    simp only [Outcome.ok.injEq, Prod.mk.injEq]
    cases hm : mapMS f s1 t with
    | err =>
      simp only [reduceCtorEq, false_iff, not_exists, not_and]
      rintro b' s1' bs' ⟨rfl, rfl⟩ h2
      rw [hm] at h2; cases h2
    | undef =>
      simp only [reduceCtorEq, false_iff, not_exists, not_and]
      rintro b' s1' bs' ⟨rfl, rfl⟩ h2
      rw [hm] at h2; cases h2
    | ok r2 =>
      obtain ⟨bs2, s3⟩ := r2
      simp only [Outcome.ok.injEq, Prod.mk.injEq]
      constructor
      · rintro ⟨rfl, rfl⟩
        exact ⟨b, s1, bs2, ⟨rfl, rfl⟩, hm, rfl⟩
      · rintro ⟨b', s1', bs', ⟨rfl, rfl⟩, h2, rfl⟩
        rw [hm] at h2
        simp only [Outcome.ok.injEq, Prod.mk.injEq] at h2
        exact ⟨by rw [h2.1], h2.2⟩

theorem StepSpec.mapMS {α β : Type} {f : Settings → α → Outcome (β × Settings)} {P : Settings → α → Prop}
    (hf : StepSpec f P) : StepSpec (fun s l => mapMS f s l) (fun s l => ∀ a ∈ l, P s a) where
  flags := by
    intro s l
    induction l generalizing s with
    | nil => intro b s2 h; simp only [Tackler.mapMS] at h; cases h; rfl
    | cons a t ih =>
      intro bs s2 h
      obtain ⟨b, s1, bs', h1, h2, _⟩ := (mapMS_cons_ok f s s2 a t bs).mp h
      exact (ih s1 bs' s2 h2).trans (hf.flags s a b s1 h1)
  frozen := by
    intro s l
    induction l generalizing s with
    | nil => intro b s2 _ h; simp only [Tackler.mapMS] at h; cases h; exact Frozen.refl _
    | cons a t ih =>
      intro bs s2 hs h
      obtain ⟨b, s1, bs', h1, h2, _⟩ := (mapMS_cons_ok f s s2 a t bs).mp h
      have hfr := hf.frozen s a b s1 hs h1
      exact hfr.trans (ih s1 bs' s2 (hfr.strict.trans hs) h2)
  iff := by
    intro s s' l
    induction l generalizing s s' with
    | nil =>
      intro bs _
      simp only [Tackler.mapMS, List.not_mem_nil, false_imp_iff, implies_true, true_and]
      constructor
      · rintro ⟨s2, h⟩; cases h; exact ⟨_, rfl⟩
      · rintro ⟨s2, h⟩; cases h; exact ⟨_, rfl⟩
    | cons a t ih =>
      intro bs hr
      simp only [mapMS_cons_ok]
      constructor
      · rintro ⟨s2, b, s1, bs', h1, h2, rfl⟩
        obtain ⟨hp, s1', h1'⟩ := (hf.iff s s' a b hr).mp ⟨s1, h1⟩
        have hr1 : Rel s1 s1' := hr.step (hf.flags _ _ _ _ h1) (hf.flags _ _ _ _ h1')
        obtain ⟨hpt, s2', h2'⟩ := (ih s1 s1' bs' hr1).mp ⟨s2, h2⟩
        refine ⟨?_, s2', b, s1', bs', h1', h2', rfl⟩
        intro hs x hx
        rcases List.mem_cons.mp hx with rfl | hx
        · exact hp hs
        · have hfr := hf.frozen s a b s1 hs h1
          exact (hf.stable s s1 x hfr).mp (hpt (hfr.strict.trans hs) x hx)
      · rintro ⟨hp, s2', b, s1', bs', h1', h2', rfl⟩
        obtain ⟨s1, h1⟩ := (hf.iff s s' a b hr).mpr ⟨fun hs => hp hs a List.mem_cons_self, s1', h1'⟩
        have hr1 : Rel s1 s1' := hr.step (hf.flags _ _ _ _ h1) (hf.flags _ _ _ _ h1')
        obtain ⟨s2, h2⟩ := (ih s1 s1' bs' hr1).mpr ⟨fun hs1 x hx => by
          have hs : s.strict = true := by
            have := hf.flags _ _ _ _ h1
            simp only [Flags, Prod.mk.injEq] at this
            exact this.1.symm.trans hs1
          have hfr := hf.frozen s a b s1 hs h1
          exact (hf.stable s s1 x hfr).mpr (hp hs x (List.mem_cons_of_mem _ hx)), s2', h2'⟩
        exact ⟨s2, b, s1, bs', h1, h2, rfl⟩
  stable := by
    intro s t l h
    constructor
    · intro hp a ha; exact (hf.stable s t a h).mp (hp a ha)
    · intro hp a ha; exact (hf.stable s t a h).mpr (hp a ha)

/-- the same for functions that only return the new settings -/
structure StepSpecS {α : Type} (f : Settings → α → Outcome Settings) (P : Settings → α → Prop) : Prop where
  flags : ∀ s a s2, f s a = .ok s2 → Flags s2 = Flags s
  frozen : ∀ s a s2, s.strict = true → f s a = .ok s2 → Frozen s s2
  iff : ∀ s s' a, Rel s s' →
    ((∃ s2, f s a = .ok s2) ↔ (s.strict = true → P s a) ∧ ∃ s2', f s' a = .ok s2')
  stable : ∀ s t a, Frozen s t → (P t a ↔ P s a)

theorem strict_of_flags {s t : Settings} (h : Flags t = Flags s) : t.strict = s.strict := by
  simp only [Flags, Prod.mk.injEq] at h; exact h.1

/-! ### commodities of one posting value (`handle_posting_value`) -/

/-- the commodities `handle_posting_value` registers: the posting's own and the closing position's
    (the opening position `{..}` is parsed and ignored) -/
def unitComms : Option PostUnit → List String
  | none => []
  | some u =>
    match u.closing with
    | none => [u.comm]
    | some (.total v) => [u.comm, v.comm]
    | some (.unitPrice v) => [u.comm, v.comm]

def PUnitComms (s : Settings) (u : Option PostUnit) : Prop := ∀ c ∈ unitComms u, PComm s c

theorem registerUnit_inv (s : Settings) (u : Option PostUnit) (s2 : Settings) (h : registerUnit s u = .ok s2) :
    (u = none ∧ s2 = s) ∨
    (∃ pu c1, u = some pu ∧ pu.closing = none ∧ s.getOrCreateCommodity (some pu.comm) = .ok (c1, s2)) ∨
    (∃ pu v c1 s1 c2, u = some pu ∧ (pu.closing = some (.total v) ∨ pu.closing = some (.unitPrice v)) ∧
      s.getOrCreateCommodity (some pu.comm) = .ok (c1, s1) ∧ s1.getOrCreateCommodity (some v.comm) = .ok (c2, s2)) := by
  unfold registerUnit at h
  split at h
  · cases h; exact .inl ⟨rfl, rfl⟩
  · rename_i pu
    split at h
    · cases h
    · cases h
    · rename_i c1 s1 h1
      split at h
      · rename_i hcl
        cases h
        exact .inr (.inl ⟨pu, c1, rfl, hcl, h1⟩)
      · rename_i v hcl
        obtain ⟨⟨c2, s2'⟩, h2, rfl⟩ := (Outcome.map_ok _ _ _).mp h
        exact .inr (.inr ⟨pu, v, c1, s1, c2, rfl, .inl hcl, h1, h2⟩)
      · rename_i v hcl
        obtain ⟨⟨c2, s2'⟩, h2, rfl⟩ := (Outcome.map_ok _ _ _).mp h
        exact .inr (.inr ⟨pu, v, c1, s1, c2, rfl, .inr hcl, h1, h2⟩)

theorem registerUnit_spec : StepSpecS registerUnit PUnitComms where
  flags := by
    intro s u s2 h
    rcases registerUnit_inv s u s2 h with ⟨_, rfl⟩ | ⟨pu, c1, _, _, h1⟩ | ⟨pu, v, c1, s1, c2, _, _, h1, h2⟩
    · rfl
    · exact goc_spec.flags _ _ _ _ h1
    · exact (goc_spec.flags _ _ _ _ h2).trans (goc_spec.flags _ _ _ _ h1)
  frozen := by
    intro s u s2 hs h
    rcases registerUnit_inv s u s2 h with ⟨_, rfl⟩ | ⟨pu, c1, _, _, h1⟩ | ⟨pu, v, c1, s1, c2, _, _, h1, h2⟩
    · exact Frozen.refl _
    · exact goc_spec.frozen _ _ _ _ hs h1
    · have hfr := goc_spec.frozen _ _ _ _ hs h1
      exact hfr.trans (goc_spec.frozen _ _ _ _ (hfr.strict.trans hs) h2)
  iff := by
    intro s s' u hr
    constructor
    · rintro ⟨s2, h⟩
      rcases registerUnit_inv s u s2 h with ⟨rfl, rfl⟩ | ⟨pu, c1, rfl, hcl, h1⟩ | ⟨pu, v, c1, s1, c2, rfl, hcl, h1, h2⟩
      · exact ⟨fun _ c hc => by simp [unitComms] at hc, s', by simp [registerUnit]⟩
      · obtain ⟨hp, s2', h1'⟩ := (goc_spec.iff s s' pu.comm c1 hr).mp ⟨s2, h1⟩
        refine ⟨fun hs c hc => ?_, s2', by simp [registerUnit, h1', hcl]⟩
        simp only [unitComms, hcl, List.mem_singleton] at hc
        subst hc; exact hp hs
      · obtain ⟨hp, s1', h1'⟩ := (goc_spec.iff s s' pu.comm c1 hr).mp ⟨s1, h1⟩
        have hr1 : Rel s1 s1' := hr.step (goc_spec.flags _ _ _ _ h1) (goc_spec.flags _ _ _ _ h1')
        obtain ⟨hp2, s2', h2'⟩ := (goc_spec.iff s1 s1' v.comm c2 hr1).mp ⟨s2, h2⟩
        refine ⟨fun hs c hc => ?_, s2', ?_⟩
        · have hfr := goc_spec.frozen _ _ _ _ hs h1
          have hc' : c = pu.comm ∨ c = v.comm := by
            rcases hcl with hcl | hcl <;> simpa [unitComms, hcl] using hc
          rcases hc' with rfl | rfl
          · exact hp hs
          · exact (PComm.stable _ hfr).mp (hp2 (hfr.strict.trans hs))
        · rcases hcl with hcl | hcl <;> simp [registerUnit, h1', hcl, h2', Outcome.map]
    · rintro ⟨hp, s2', h'⟩
      rcases registerUnit_inv s' u s2' h' with ⟨rfl, rfl⟩ | ⟨pu, c1, rfl, hcl, h1'⟩ | ⟨pu, v, c1, s1', c2, rfl, hcl, h1', h2'⟩
      · exact ⟨s, by simp [registerUnit]⟩
      · obtain ⟨s2, h1⟩ := (goc_spec.iff s s' pu.comm c1 hr).mpr
          ⟨fun hs => hp hs _ (by simp [unitComms, hcl]), s2', h1'⟩
        exact ⟨s2, by simp [registerUnit, h1, hcl]⟩
      · obtain ⟨s1, h1⟩ := (goc_spec.iff s s' pu.comm c1 hr).mpr
          ⟨fun hs => hp hs _ (by rcases hcl with hcl | hcl <;> simp [unitComms, hcl]), s1', h1'⟩
        have hr1 : Rel s1 s1' := hr.step (goc_spec.flags _ _ _ _ h1) (goc_spec.flags _ _ _ _ h1')
        obtain ⟨s2, h2⟩ := (goc_spec.iff s1 s1' v.comm c2 hr1).mpr ⟨fun hs1 => by
          have hs : s.strict = true := (strict_of_flags (goc_spec.flags _ _ _ _ h1)).symm.trans hs1
          have hfr := goc_spec.frozen _ _ _ _ hs h1
          exact (PComm.stable _ hfr).mpr (hp hs _ (by rcases hcl with hcl | hcl <;> simp [unitComms, hcl])), s2', h2'⟩
        exact ⟨s2, by rcases hcl with hcl | hcl <;> simp [registerUnit, h1, hcl, h2, Outcome.map]⟩
  stable := by
    intro s t u h
    constructor
    · intro hp c hc; exact (PComm.stable c h).mp (hp c hc)
    · intro hp c hc; exact (PComm.stable c h).mpr (hp c hc)

/-! ### one posting -/

theorem valuePosition_comms (amount : Dec) (unit : Option PostUnit) (vp : VP)
    (h : valuePosition amount unit = .ok vp) :
    (vp.postComm = "" ∨ vp.postComm ∈ unitComms unit) ∧ (vp.txnComm = "" ∨ vp.txnComm ∈ unitComms unit) := by
  unfold valuePosition at h
  split at h
  · cases h; simp
  · rename_i u
    split at h
    · rename_i hcl
      split at h
      · cases h
      · cases h; simp [unitComms, hcl]
    · rename_i v hcl
      (repeat' split at h) <;> first | (cases h; done) | (exact absurd h (Outcome.inexact_ne_ok _ _)) |
        (cases h; simp [unitComms, hcl])
    · rename_i v hcl
      (repeat' split at h) <;> first | (cases h; done) | (exact absurd h (Outcome.inexact_ne_ok _ _)) |
        (cases h; simp [unitComms, hcl])

theorem handlePosting_ok (s : Settings) (rp : RawPosting) (p : Posting) (s2 : Settings) :
    handlePosting s rp = .ok (p, s2) ↔
      ∃ s1 vp a, registerUnit s rp.unit = .ok s1 ∧ valuePosition rp.amount rp.unit = .ok vp ∧
        s1.getOrCreateTxnAccount rp.acct vp.postComm = .ok (a, s2) ∧
        mkPosting ⟨a, vp.postComm, vp.postAmount, vp.txnAmount, vp.isTotal, vp.txnComm, rp.comment⟩ = .ok p := by
  unfold handlePosting
  cases h1 : registerUnit s rp.unit with
  | err => simp
  | undef => simp
  | ok s1 =>
    cases h2 : valuePosition rp.amount rp.unit with
    | err => simp
    | undef => simp
    | ok vp =>
      cases h3 : s1.getOrCreateTxnAccount rp.acct vp.postComm with
      | err => simp [h3]
      | undef => simp [h3]
      | ok r =>
        obtain ⟨a, s2'⟩ := r
        simp only [Outcome.ok.injEq, exists_and_left, exists_eq_left', h3, Prod.mk.injEq, Outcome.map_ok]
        constructor
        · rintro ⟨q, hq, rfl, rfl⟩
          exact ⟨a, ⟨rfl, rfl⟩, hq⟩
        · rintro ⟨a', ⟨rfl, rfl⟩, hq⟩
          exact ⟨p, hq, rfl, rfl⟩

/-- every commodity the posting value names and the account are in the charts -/
def PPosting (s : Settings) (rp : RawPosting) : Prop := PUnitComms s rp.unit ∧ rp.acct ∈ s.accounts

theorem PPosting.stable {s t : Settings} (rp : RawPosting) (h : Frozen s t) : PPosting t rp ↔ PPosting s rp := by
  simp only [PPosting, registerUnit_spec.stable s t rp.unit h, h.accounts]

theorem handlePosting_spec : StepSpec handlePosting PPosting where
  flags := by
    intro s rp p s2 h
    obtain ⟨s1, vp, a, h1, _, h3, _⟩ := (handlePosting_ok _ _ _ _).mp h
    exact (acct_spec.flags s1 (rp.acct, vp.postComm) a s2 h3).trans (registerUnit_spec.flags _ _ _ h1)
  frozen := by
    intro s rp p s2 hs h
    obtain ⟨s1, vp, a, h1, _, h3, _⟩ := (handlePosting_ok _ _ _ _).mp h
    have hfr := registerUnit_spec.frozen _ _ _ hs h1
    exact hfr.trans (acct_spec.frozen s1 (rp.acct, vp.postComm) a s2 (hfr.strict.trans hs) h3)
  iff := by
    intro s s' rp p hr
    constructor
    · rintro ⟨s2, h⟩
      obtain ⟨s1, vp, a, h1, h2, h3, h4⟩ := (handlePosting_ok _ _ _ _).mp h
      obtain ⟨hp1, s1', h1'⟩ := (registerUnit_spec.iff s s' rp.unit hr).mp ⟨s1, h1⟩
      have hr1 : Rel s1 s1' := hr.step (registerUnit_spec.flags _ _ _ h1) (registerUnit_spec.flags _ _ _ h1')
      obtain ⟨hp3, s2', h3'⟩ := (acct_spec.iff s1 s1' (rp.acct, vp.postComm) a hr1).mp ⟨s2, h3⟩
      refine ⟨fun hs => ⟨hp1 hs, ?_⟩, s2', (handlePosting_ok _ _ _ _).mpr ⟨s1', vp, a, h1', h2, h3', h4⟩⟩
      have hfr := registerUnit_spec.frozen _ _ _ hs h1
      have := (hp3 (hfr.strict.trans hs)).1
      rw [hfr.accounts] at this
      exact this
    · rintro ⟨hp, s2', h'⟩
      obtain ⟨s1', vp, a, h1', h2, h3', h4⟩ := (handlePosting_ok _ _ _ _).mp h'
      obtain ⟨s1, h1⟩ := (registerUnit_spec.iff s s' rp.unit hr).mpr ⟨fun hs => (hp hs).1, s1', h1'⟩
      have hr1 : Rel s1 s1' := hr.step (registerUnit_spec.flags _ _ _ h1) (registerUnit_spec.flags _ _ _ h1')
      obtain ⟨s2, h3⟩ := (acct_spec.iff s1 s1' (rp.acct, vp.postComm) a hr1).mpr ⟨fun hs1 => by
        have hs : s.strict = true := (strict_of_flags (registerUnit_spec.flags _ _ _ h1)).symm.trans hs1
        have hfr := registerUnit_spec.frozen _ _ _ hs h1
        refine ⟨by rw [hfr.accounts]; exact (hp hs).2, (PComm.stable _ hfr).mpr ?_⟩
        rcases (valuePosition_comms _ _ _ h2).1 with h0 | hm
        · exact .inl h0
        · exact (hp hs).1 _ hm, s2', h3'⟩
      exact ⟨s2, (handlePosting_ok _ _ _ _).mpr ⟨s1, vp, a, h1, h2, h3, h4⟩⟩
  stable := fun s t rp h => PPosting.stable rp h

theorem mkPosting_eq (q p : Posting) (h : mkPosting q = .ok p) : p = q := by
  unfold mkPosting at h
  split at h
  · cases h
  · cases h; rfl

theorem handlePosting_txnComm (s : Settings) (rp : RawPosting) (p : Posting) (s2 : Settings)
    (h : handlePosting s rp = .ok (p, s2)) :
    p.acct = rp.acct ∧ (p.comm = "" ∨ p.comm ∈ unitComms rp.unit) ∧ (p.txnComm = "" ∨ p.txnComm ∈ unitComms rp.unit) := by
  obtain ⟨s1, vp, a, _, h2, h3, h4⟩ := (handlePosting_ok _ _ _ _).mp h
  have := mkPosting_eq _ _ h4
  subst this
  have ha : a = rp.acct := ((gocta_ok s1 rp.acct vp.postComm a).mp ⟨_, h3⟩).1
  exact ⟨ha, (valuePosition_comms _ _ _ h2).1, (valuePosition_comms _ _ _ h2).2⟩

/-! ### the postings of one transaction -/

abbrev PostingsArg := List RawPosting × Option (Path × Option String)

theorem acceptPostings_ok (s : Settings) (posts : List RawPosting) (last : Option (Path × Option String))
    (all : List Posting) (s2 : Settings) :
    acceptPostings s posts last = .ok (all, s2) ↔
      ∃ p0 rest s1, mapMS handlePosting s posts = .ok (p0 :: rest, s1) ∧
        ((last = none ∧ all = p0 :: rest ∧ s2 = s1) ∨
         (∃ a cmt sm a' l, last = some (a, cmt) ∧ txnSum (p0 :: rest) = some sm ∧
            s1.getOrCreateTxnAccount a p0.txnComm = .ok (a', s2) ∧
            mkPosting ⟨a', p0.txnComm, sm.negate, sm.negate, false, p0.txnComm, cmt⟩ = .ok l ∧
            all = (p0 :: rest) ++ [l])) := by
  constructor
  · intro h
    unfold acceptPostings at h
    cases h1 : mapMS handlePosting s posts with
    | err => simp [h1] at h
    | undef => simp [h1] at h
    | ok r =>
      obtain ⟨ps, s1⟩ := r
      simp only [h1] at h
      cases ps with
      | nil => simp at h
      | cons p0 rest =>
        simp only at h
        cases last with
        | none =>
          simp only [Outcome.ok.injEq, Prod.mk.injEq] at h
          exact ⟨p0, rest, s1, rfl, .inl ⟨rfl, h.1.symm, h.2.symm⟩⟩
        | some ac =>
          obtain ⟨a, cmt⟩ := ac
          simp only at h
          cases hsm : txnSum (p0 :: rest) with
          | none => simp only [hsm] at h; exact absurd h (Outcome.inexact_ne_ok _ _)
          | some sm =>
            simp only [hsm] at h
            cases hg : s1.getOrCreateTxnAccount a p0.txnComm with
            | err => simp [hg] at h
            | undef => simp [hg] at h
            | ok r3 =>
              obtain ⟨a', s2'⟩ := r3
              simp only [hg] at h
              obtain ⟨l, hl, hr⟩ := (Outcome.map_ok _ _ _).mp h
              cases hr
              exact ⟨p0, rest, s1, rfl, .inr ⟨a, cmt, sm, a', l, rfl, hsm, hg, hl, rfl⟩⟩
  · rintro ⟨p0, rest, s1, h1, hcase⟩
    rcases hcase with ⟨rfl, rfl, rfl⟩ | ⟨a, cmt, sm, a', l, rfl, hsm, hg, hl, rfl⟩
    · simp [acceptPostings, h1]
    · simp [acceptPostings, h1, hsm, hg, hl, Outcome.map]

def PPostings (s : Settings) (a : PostingsArg) : Prop :=
  (∀ rp ∈ a.1, PPosting s rp) ∧ (∀ acc cmt, a.2 = some (acc, cmt) → acc ∈ s.accounts)

theorem postings_spec : StepSpec (fun s l => mapMS handlePosting s l) (fun s l => ∀ rp ∈ l, PPosting s rp) :=
  handlePosting_spec.mapMS

/-- the transaction commodity of the first posting is one of the commodities its value names -/
theorem first_txnComm (s s1 : Settings) (posts : List RawPosting) (p0 : Posting) (rest : List Posting)
    (h : mapMS handlePosting s posts = .ok (p0 :: rest, s1)) :
    p0.txnComm = "" ∨ ∃ rp ∈ posts, p0.txnComm ∈ unitComms rp.unit := by
  obtain ⟨rp, hrp, sa, sb, hh⟩ := mapMS_ok handlePosting posts s s1 (p0 :: rest) h p0 List.mem_cons_self
  rcases (handlePosting_txnComm _ _ _ _ hh).2.2 with h0 | hm
  · exact .inl h0
  · exact .inr ⟨rp, hrp, hm⟩

theorem acceptPostings_spec : StepSpec (fun s (a : PostingsArg) => acceptPostings s a.1 a.2) PPostings where
  flags := by
    intro s a all s2 h
    obtain ⟨p0, rest, s1, h1, hcase⟩ := (acceptPostings_ok _ _ _ _ _).mp h
    have hf1 := postings_spec.flags _ _ _ _ h1
    rcases hcase with ⟨_, _, rfl⟩ | ⟨acc, cmt, sm, a', l, _, _, hg, _, _⟩
    · exact hf1
    · exact (acct_spec.flags s1 (acc, p0.txnComm) a' s2 hg).trans hf1
  frozen := by
    intro s a all s2 hs h
    obtain ⟨p0, rest, s1, h1, hcase⟩ := (acceptPostings_ok _ _ _ _ _).mp h
    have hfr := postings_spec.frozen _ _ _ _ hs h1
    rcases hcase with ⟨_, _, rfl⟩ | ⟨acc, cmt, sm, a', l, _, _, hg, _, _⟩
    · exact hfr
    · exact hfr.trans (acct_spec.frozen s1 (acc, p0.txnComm) a' s2 (hfr.strict.trans hs) hg)
  iff := by
    intro s s' a all hr
    obtain ⟨posts, last⟩ := a
    constructor
    · rintro ⟨s2, h⟩
      obtain ⟨p0, rest, s1, h1, hcase⟩ := (acceptPostings_ok _ _ _ _ _).mp h
      obtain ⟨hp1, s1', h1'⟩ := (postings_spec.iff s s' posts (p0 :: rest) hr).mp ⟨s1, h1⟩
      have hr1 : Rel s1 s1' := hr.step (postings_spec.flags _ _ _ _ h1) (postings_spec.flags _ _ _ _ h1')
      rcases hcase with ⟨rfl, rfl, rfl⟩ | ⟨acc, cmt, sm, a', l, rfl, hsm, hg, hl, rfl⟩
      · refine ⟨fun hs => ⟨hp1 hs, ?_⟩, s1', (acceptPostings_ok _ _ _ _ _).mpr ⟨p0, rest, s1', h1', .inl ⟨rfl, rfl, rfl⟩⟩⟩
        intro acc cmt hl; cases hl
      · obtain ⟨hp3, s2', hg'⟩ := (acct_spec.iff s1 s1' (acc, p0.txnComm) a' hr1).mp ⟨s2, hg⟩
        refine ⟨fun hs => ⟨hp1 hs, ?_⟩, s2', (acceptPostings_ok _ _ _ _ _).mpr
          ⟨p0, rest, s1', h1', .inr ⟨acc, cmt, sm, a', l, rfl, hsm, hg', hl, rfl⟩⟩⟩
        intro acc0 cmt0 hl0
        simp only [Option.some.injEq, Prod.mk.injEq] at hl0
        obtain ⟨rfl, rfl⟩ := hl0
        have hfr := postings_spec.frozen _ _ _ _ hs h1
        have := (hp3 (hfr.strict.trans hs)).1
        rw [hfr.accounts] at this
        exact this
    · rintro ⟨hp, s2', h'⟩
      obtain ⟨p0, rest, s1', h1', hcase⟩ := (acceptPostings_ok _ _ _ _ _).mp h'
      obtain ⟨s1, h1⟩ := (postings_spec.iff s s' posts (p0 :: rest) hr).mpr ⟨fun hs => (hp hs).1, s1', h1'⟩
      have hr1 : Rel s1 s1' := hr.step (postings_spec.flags _ _ _ _ h1) (postings_spec.flags _ _ _ _ h1')
      rcases hcase with ⟨rfl, rfl, rfl⟩ | ⟨acc, cmt, sm, a', l, rfl, hsm, hg', hl, rfl⟩
      · exact ⟨s1, (acceptPostings_ok _ _ _ _ _).mpr ⟨p0, rest, s1, h1, .inl ⟨rfl, rfl, rfl⟩⟩⟩
      · obtain ⟨s2, hg⟩ := (acct_spec.iff s1 s1' (acc, p0.txnComm) a' hr1).mpr ⟨fun hs1 => by
          have hs : s.strict = true := (strict_of_flags (postings_spec.flags _ _ _ _ h1)).symm.trans hs1
          have hfr := postings_spec.frozen _ _ _ _ hs h1
          refine ⟨by rw [hfr.accounts]; exact (hp hs).2 acc cmt rfl, (PComm.stable _ hfr).mpr ?_⟩
          rcases first_txnComm _ _ _ _ _ h1 with h0 | ⟨rp, hrp, hm⟩
          · exact .inl h0
          · exact ((hp hs).1 rp hrp).1 _ hm, s2', hg'⟩
        exact ⟨s2, (acceptPostings_ok _ _ _ _ _).mpr
          ⟨p0, rest, s1, h1, .inr ⟨acc, cmt, sm, a', l, rfl, hsm, hg, hl, rfl⟩⟩⟩
  stable := by
    intro s t a h
    simp only [PPostings, h.accounts]
    constructor
    · rintro ⟨h1, h2⟩; exact ⟨fun rp hrp => (PPosting.stable rp h).mp (h1 rp hrp), h2⟩
    · rintro ⟨h1, h2⟩; exact ⟨fun rp hrp => (PPosting.stable rp h).mpr (h1 rp hrp), h2⟩

/-! ### header: tags -/

theorem tags_spec : StepSpec (fun s l => mapMS (fun s t => s.getOrCreateTag t) s l) (fun s l => ∀ t ∈ l, PTag s t) :=
  tag_spec.mapMS

theorem acceptTags_ok (s : Settings) (tags : List String) (s2 : Settings) :
    acceptTags s tags = .ok s2 ↔
      (∃ bs, mapMS (fun s t => s.getOrCreateTag t) s tags = .ok (bs, s2)) ∧ tags.Nodup := by
  unfold acceptTags
  cases h1 : mapMS (fun s t => s.getOrCreateTag t) s tags with
  | err => simp
  | undef => simp
  | ok r =>
    obtain ⟨bs, s1⟩ := r
    by_cases hn : tags.Nodup <;> simp [hn]

theorem acceptTags_spec : StepSpecS acceptTags (fun s l => ∀ t ∈ l, PTag s t) where
  flags := by
    intro s l s2 h
    obtain ⟨⟨bs, h1⟩, _⟩ := (acceptTags_ok _ _ _).mp h
    exact tags_spec.flags _ _ _ _ h1
  frozen := by
    intro s l s2 hs h
    obtain ⟨⟨bs, h1⟩, _⟩ := (acceptTags_ok _ _ _).mp h
    exact tags_spec.frozen _ _ _ _ hs h1
  iff := by
    intro s s' l hr
    constructor
    · rintro ⟨s2, h⟩
      obtain ⟨⟨bs, h1⟩, hn⟩ := (acceptTags_ok _ _ _).mp h
      obtain ⟨hp, s2', h1'⟩ := (tags_spec.iff s s' l bs hr).mp ⟨s2, h1⟩
      exact ⟨hp, s2', (acceptTags_ok _ _ _).mpr ⟨⟨bs, h1'⟩, hn⟩⟩
    · rintro ⟨hp, s2', h'⟩
      obtain ⟨⟨bs, h1'⟩, hn⟩ := (acceptTags_ok _ _ _).mp h'
      obtain ⟨s2, h1⟩ := (tags_spec.iff s s' l bs hr).mpr ⟨hp, s2', h1'⟩
      exact ⟨s2, (acceptTags_ok _ _ _).mpr ⟨⟨bs, h1⟩, hn⟩⟩
  stable := tags_spec.stable

/-- every tag of the header is in the chart -/
def PHeader (s : Settings) (h : Header) : Prop := ∀ ts, h.tags = some ts → ∀ t ∈ ts, PTag s t

def locOk (h : Header) : Bool := match h.location with | some g => geoOk g | none => true

theorem acceptHeader_ok (s : Settings) (h : Header) (s2 : Settings) :
    acceptHeader s h = .ok s2 ↔
      locOk h = true ∧ (s.audit && h.uuid.isNone) = false ∧
      ((h.tags = none ∧ s2 = s) ∨ ∃ ts, h.tags = some ts ∧ acceptTags s ts = .ok s2) := by
  constructor
  · intro hh
    unfold acceptHeader at hh
    split at hh
    · cases hh
    · rename_i hloc
      split at hh
      · cases hh
      · cases hh
      · rename_i st1 htags
        split at hh
        · cases hh
        · rename_i ha
          cases hh
          refine ⟨hloc, by simp only [Bool.not_eq_true] at ha; exact ha, ?_⟩
          cases ht : h.tags with
          | none => rw [ht] at htags; cases htags; exact .inl ⟨rfl, rfl⟩
          | some ts => rw [ht] at htags; exact .inr ⟨ts, rfl, htags⟩
  · rintro ⟨hl, ha, hcase⟩
    unfold locOk at hl
    unfold acceptHeader
    rcases hcase with ⟨ht, rfl⟩ | ⟨ts, ht, h1⟩
    · cases hloc : h.location <;> simp only [hloc] at hl <;> simp [hl, ht, ha]
    · cases hloc : h.location <;> simp only [hloc] at hl <;> simp [hl, ht, h1, ha]

theorem acceptHeader_spec : StepSpecS acceptHeader PHeader where
  flags := by
    intro s h s2 hh
    obtain ⟨_, _, hcase⟩ := (acceptHeader_ok _ _ _).mp hh
    rcases hcase with ⟨_, rfl⟩ | ⟨ts, _, h1⟩
    · rfl
    · exact acceptTags_spec.flags _ _ _ h1
  frozen := by
    intro s h s2 hs hh
    obtain ⟨_, _, hcase⟩ := (acceptHeader_ok _ _ _).mp hh
    rcases hcase with ⟨_, rfl⟩ | ⟨ts, _, h1⟩
    · exact Frozen.refl _
    · exact acceptTags_spec.frozen _ _ _ hs h1
  iff := by
    intro s s' h hr
    constructor
    · rintro ⟨s2, hh⟩
      obtain ⟨hl, ha, hcase⟩ := (acceptHeader_ok _ _ _).mp hh
      rcases hcase with ⟨ht, rfl⟩ | ⟨ts, ht, h1⟩
      · refine ⟨?_, s', (acceptHeader_ok _ _ _).mpr ⟨hl, ?_, .inl ⟨ht, rfl⟩⟩⟩
        · intro _ ts hts
          rw [ht] at hts
          cases hts
        · rw [hr.audit]; exact ha
      · obtain ⟨hp, s2', h1'⟩ := (acceptTags_spec.iff s s' ts hr).mp ⟨s2, h1⟩
        refine ⟨fun hs ts' hts => ?_, s2', (acceptHeader_ok _ _ _).mpr ⟨hl, ?_, .inr ⟨ts, ht, h1'⟩⟩⟩
        · rw [ht] at hts; cases hts; exact hp hs
        · rw [hr.audit]; exact ha
    · rintro ⟨hp, s2', hh'⟩
      obtain ⟨hl, ha, hcase⟩ := (acceptHeader_ok _ _ _).mp hh'
      rw [hr.audit] at ha
      rcases hcase with ⟨ht, rfl⟩ | ⟨ts, ht, h1'⟩
      · exact ⟨s, (acceptHeader_ok _ _ _).mpr ⟨hl, ha, .inl ⟨ht, rfl⟩⟩⟩
      · obtain ⟨s2, h1⟩ := (acceptTags_spec.iff s s' ts hr).mpr ⟨fun hs => hp hs ts ht, s2', h1'⟩
        exact ⟨s2, (acceptHeader_ok _ _ _).mpr ⟨hl, ha, .inr ⟨ts, ht, h1⟩⟩⟩
  stable := by
    intro s t h hfr
    simp only [PHeader, PTag, hfr.tags]

/-! ### one transaction, the journal -/

/-- the settings-independent final checks of `parse_txn` / `Transaction::from` -/
def finalOk (ps : List Posting) : Prop :=
  match ps with
  | [] => False
  | p0 :: _ => ps.any (fun p => p.txnComm != p0.txnComm) = false ∧ ∃ sm, txnSum ps = some sm ∧ sm.isZero = true

theorem acceptTxn_ok (s : Settings) (r : RawTxn) (t : Txn) (s2 : Settings) :
    acceptTxn s r = .ok (t, s2) ↔
      ∃ s1 ps, acceptHeader s r.header = .ok s1 ∧ acceptPostings s1 r.posts r.last = .ok (ps, s2) ∧
        t = ⟨r.header, ps⟩ ∧ finalOk ps := by
  constructor
  · intro h
    unfold acceptTxn at h
    cases h1 : acceptHeader s r.header with
    | err => simp [h1] at h
    | undef => simp [h1] at h
    | ok s1 =>
      simp only [h1] at h
      cases h2 : acceptPostings s1 r.posts r.last with
      | err => simp [h2] at h
      | undef => simp [h2] at h
      | ok r2 =>
        obtain ⟨ps, s2'⟩ := r2
        simp only [h2] at h
        cases ps with
        | nil => simp at h
        | cons p0 tl =>
          simp only at h
          split at h
          · cases h
          · rename_i hany
            split at h
            · exact absurd h (Outcome.inexact_ne_ok _ _)
            · rename_i sm hsm
              split at h
              · rename_i hz
                cases h
                exact ⟨s1, p0 :: tl, rfl, h2, rfl, by simpa using hany, sm, hsm, hz⟩
              · cases h
  · rintro ⟨s1, ps, h1, h2, rfl, hf⟩
    unfold acceptTxn
    cases ps with
    | nil => exact absurd hf (by simp [finalOk])
    | cons p0 tl =>
      obtain ⟨hany, sm, hsm, hz⟩ := hf
      simp [h1, h2, hany, hsm, hz]

/-- every account, commodity and tag the transaction names is in the charts -/
def PTxn (s : Settings) (r : RawTxn) : Prop := PHeader s r.header ∧ PPostings s (r.posts, r.last)

theorem PTxn.stable {s t : Settings} (r : RawTxn) (h : Frozen s t) : PTxn t r ↔ PTxn s r := by
  simp only [PTxn, acceptHeader_spec.stable s t r.header h, acceptPostings_spec.stable s t (r.posts, r.last) h]

theorem acceptTxn_spec : StepSpec acceptTxn PTxn where
  flags := by
    intro s r t s2 h
    obtain ⟨s1, ps, h1, h2, _, _⟩ := (acceptTxn_ok _ _ _ _).mp h
    exact (acceptPostings_spec.flags s1 (r.posts, r.last) ps s2 h2).trans (acceptHeader_spec.flags _ _ _ h1)
  frozen := by
    intro s r t s2 hs h
    obtain ⟨s1, ps, h1, h2, _, _⟩ := (acceptTxn_ok _ _ _ _).mp h
    have hfr := acceptHeader_spec.frozen _ _ _ hs h1
    exact hfr.trans (acceptPostings_spec.frozen s1 (r.posts, r.last) ps s2 (hfr.strict.trans hs) h2)
  iff := by
    intro s s' r t hr
    constructor
    · rintro ⟨s2, h⟩
      obtain ⟨s1, ps, h1, h2, ht, hf⟩ := (acceptTxn_ok _ _ _ _).mp h
      obtain ⟨hp1, s1', h1'⟩ := (acceptHeader_spec.iff s s' r.header hr).mp ⟨s1, h1⟩
      have hr1 : Rel s1 s1' := hr.step (acceptHeader_spec.flags _ _ _ h1) (acceptHeader_spec.flags _ _ _ h1')
      obtain ⟨hp2, s2', h2'⟩ := (acceptPostings_spec.iff s1 s1' (r.posts, r.last) ps hr1).mp ⟨s2, h2⟩
      refine ⟨fun hs => ⟨hp1 hs, ?_⟩, s2', (acceptTxn_ok _ _ _ _).mpr ⟨s1', ps, h1', h2', ht, hf⟩⟩
      have hfr := acceptHeader_spec.frozen _ _ _ hs h1
      exact (acceptPostings_spec.stable s s1 (r.posts, r.last) hfr).mp (hp2 (hfr.strict.trans hs))
    · rintro ⟨hp, s2', h'⟩
      obtain ⟨s1', ps, h1', h2', ht, hf⟩ := (acceptTxn_ok _ _ _ _).mp h'
      obtain ⟨s1, h1⟩ := (acceptHeader_spec.iff s s' r.header hr).mpr ⟨fun hs => (hp hs).1, s1', h1'⟩
      have hr1 : Rel s1 s1' := hr.step (acceptHeader_spec.flags _ _ _ h1) (acceptHeader_spec.flags _ _ _ h1')
      obtain ⟨s2, h2⟩ := (acceptPostings_spec.iff s1 s1' (r.posts, r.last) ps hr1).mpr ⟨fun hs1 => by
        have hs : s.strict = true := (strict_of_flags (acceptHeader_spec.flags _ _ _ h1)).symm.trans hs1
        have hfr := acceptHeader_spec.frozen _ _ _ hs h1
        exact (acceptPostings_spec.stable s s1 (r.posts, r.last) hfr).mpr (hp hs).2, s2', h2'⟩
      exact ⟨s2, (acceptTxn_ok _ _ _ _).mpr ⟨s1, ps, h1, h2, ht, hf⟩⟩
  stable := fun s t r h => PTxn.stable r h

theorem acceptJournal_spec : StepSpec acceptJournal (fun s rs => ∀ r ∈ rs, PTxn s r) :=
  acceptTxn_spec.mapMS

/-! ## The names a journal uses (plain list functions) -/

/-- accounts posted to, including the amount-less last posting -/
def txnAccounts (r : RawTxn) : List Path :=
  r.posts.map (·.acct) ++ (match r.last with | some (a, _) => [a] | none => [])

/-- commodities of the postings and of their closing positions (`@`, `=`) -/
def txnCommodities (r : RawTxn) : List String := r.posts.flatMap (fun rp => unitComms rp.unit)

def txnTags (r : RawTxn) : List String := match r.header.tags with | some ts => ts | none => []

def usedAccounts (rs : List RawTxn) : List Path := rs.flatMap txnAccounts
def usedCommodities (rs : List RawTxn) : List String := rs.flatMap txnCommodities
def usedTags (rs : List RawTxn) : List String := rs.flatMap txnTags

/-- every name the journal uses is declared in the charts of `s`.  The empty commodity is not a chart
    entry: it is governed by the separate `permit-empty-commodity` switch, in both modes alike. -/
structure Declared (s : Settings) (rs : List RawTxn) : Prop where
  accounts : ∀ a ∈ usedAccounts rs, a ∈ s.accounts
  commodities : ∀ c ∈ usedCommodities rs, c ≠ "" → c ∈ s.commodities
  tags : ∀ t ∈ usedTags rs, t ∈ s.tags

theorem PComm_iff (s : Settings) (c : String) : PComm s c ↔ (c ≠ "" → c ∈ s.commodities) := by
  unfold PComm
  by_cases h : c = "" <;> simp [h]

theorem declared_iff (s : Settings) (rs : List RawTxn) : (∀ r ∈ rs, PTxn s r) ↔ Declared s rs := by
  constructor
  · intro h
    refine ⟨?_, ?_, ?_⟩
    · intro a ha
      obtain ⟨r, hr, ha⟩ := List.mem_flatMap.mp ha
      obtain ⟨_, hp, hl⟩ := h r hr
      rcases List.mem_append.mp ha with ha | ha
      · obtain ⟨rp, hrp, rfl⟩ := List.mem_map.mp ha
        exact (hp rp hrp).2
      · cases hlast : r.last with
        | none => simp [hlast] at ha
        | some ac =>
          obtain ⟨a0, cmt⟩ := ac
          simp only [hlast, List.mem_singleton] at ha
          subst ha
          exact hl a cmt hlast
    · intro c hc
      obtain ⟨r, hr, hc⟩ := List.mem_flatMap.mp hc
      obtain ⟨rp, hrp, hc⟩ := List.mem_flatMap.mp hc
      exact (PComm_iff s c).mp (((h r hr).2.1 rp hrp).1 c hc)
    · intro t ht
      obtain ⟨r, hr, ht⟩ := List.mem_flatMap.mp ht
      cases htags : r.header.tags with
      | none => simp [txnTags, htags] at ht
      | some ts =>
        simp only [txnTags, htags] at ht
        exact (h r hr).1 ts htags t ht
  · intro h r hr
    refine ⟨?_, ?_, ?_⟩
    · intro ts hts t ht
      exact h.tags t (List.mem_flatMap.mpr ⟨r, hr, by simp only [txnTags, hts]; exact ht⟩)
    · intro rp hrp
      refine ⟨fun c hc => (PComm_iff s c).mpr (h.commodities c ?_), h.accounts _ ?_⟩
      · exact List.mem_flatMap.mpr ⟨r, hr, List.mem_flatMap.mpr ⟨rp, hrp, hc⟩⟩
      · exact List.mem_flatMap.mpr ⟨r, hr, List.mem_append.mpr (.inl (List.mem_map.mpr ⟨rp, hrp, rfl⟩))⟩
    · intro a cmt hl
      refine h.accounts a (List.mem_flatMap.mpr ⟨r, hr, List.mem_append.mpr (.inr ?_)⟩)
      simp only at hl
      simp [hl]

/-! ## Property theorems -/

/-- **strict_iff.** With strict mode on, a journal is accepted (with transactions `ts`) exactly when every
    account, commodity (posting, closing price) and tag it uses is declared *and* the same journal is
    accepted (with the same transactions) by lax-mode settings with the same `permit-empty-commodity`
    and audit switches — whatever their charts. -/
theorem strict_iff (st st' : Settings) (rs : List RawTxn) (ts : List Txn)
    (hs : st.strict = true) (hl : st'.strict = false)
    (hpe : st'.permitEmpty = st.permitEmpty) (ha : st'.audit = st.audit) :
    (∃ s2, acceptJournal st rs = .ok (ts, s2)) ↔
      Declared st rs ∧ ∃ s2', acceptJournal st' rs = .ok (ts, s2') := by
  rw [acceptJournal_spec.iff st st' rs ts ⟨hl, hpe, ha⟩, ← declared_iff]
  simp [hs]

/-- in strict mode reading a journal never changes the charts (only the empty commodity may get
    registered, when it is permitted) -/
theorem strict_frozen (st s2 : Settings) (rs : List RawTxn) (ts : List Txn) (hs : st.strict = true)
    (h : acceptJournal st rs = .ok (ts, s2)) : Frozen st s2 :=
  acceptJournal_spec.frozen st rs ts s2 hs h

/-- **lax_chart_free (acceptance).** With strict mode off, whether a journal is accepted and the accepted
    transactions do not depend on the charts (same `permit-empty-commodity` and audit switches). -/
theorem lax_chart_free (st st' : Settings) (rs : List RawTxn) (ts : List Txn)
    (hs : st.strict = false) (hl : st'.strict = false)
    (hpe : st'.permitEmpty = st.permitEmpty) (ha : st'.audit = st.audit) :
    (∃ s2, acceptJournal st rs = .ok (ts, s2)) ↔ ∃ s2', acceptJournal st' rs = .ok (ts, s2') := by
  rw [acceptJournal_spec.iff st st' rs ts ⟨hl, hpe, ha⟩]
  simp [hs]

/-- **modes_agree.** If strict and lax settings (same switches, any charts) both accept a journal, they
    yield the same transactions. -/
theorem modes_agree (st st' s2 s2' : Settings) (rs : List RawTxn) (ts ts' : List Txn)
    (hl : st'.strict = false) (hpe : st'.permitEmpty = st.permitEmpty) (ha : st'.audit = st.audit)
    (h : acceptJournal st rs = .ok (ts, s2)) (h' : acceptJournal st' rs = .ok (ts', s2')) : ts = ts' := by
  obtain ⟨_, s3, h3⟩ := (acceptJournal_spec.iff st st' rs ts ⟨hl, hpe, ha⟩).mp ⟨s2, h⟩
  rw [h3] at h'
  cases h'
  rfl

/-! ## What reports need: the charts only grow, posted names are in them, ancestors are reachable -/

/-- charts only grow; in lax mode an ancestor-closed account chart stays ancestor-closed -/
structure Grow (s t : Settings) : Prop where
  flags : Flags t = Flags s
  accounts : ∀ a ∈ s.accounts, a ∈ t.accounts
  commodities : ∀ c ∈ s.commodities, c ∈ t.commodities
  synthetic : t.synthetic = s.synthetic
  closed : s.strict = false → AncClosed s.accounts → AncClosed t.accounts

theorem Grow.refl (s : Settings) : Grow s s := ⟨rfl, fun _ h => h, fun _ h => h, rfl, fun _ h => h⟩

theorem Grow.trans {s t u : Settings} (h1 : Grow s t) (h2 : Grow t u) : Grow s u :=
  ⟨h2.flags.trans h1.flags, fun a ha => h2.accounts a (h1.accounts a ha),
   fun c hc => h2.commodities c (h1.commodities c hc), h2.synthetic.trans h1.synthetic,
   fun hs hc => h2.closed ((strict_of_flags h1.flags).trans hs) (h1.closed hs hc)⟩

theorem goc_grow (s : Settings) (x : Option String) (c : String) (s1 : Settings)
    (h : s.getOrCreateCommodity x = .ok (c, s1)) : Grow s s1 := by
  obtain ⟨hacc, hsyn, _, hfl, hmono, _⟩ := goc_other _ _ _ _ h
  exact ⟨hfl, fun a ha => by rw [hacc]; exact ha, hmono, hsyn, fun _ hc => by rw [hacc]; exact hc⟩

theorem tag_grow (s : Settings) (n : String) (b : String) (s1 : Settings)
    (h : s.getOrCreateTag n = .ok (b, s1)) : Grow s s1 := by
  simp only [Settings.getOrCreateTag] at h
  (repeat' split at h) <;> first | (cases h; done) | (cases h; exact Grow.refl _) |
    (cases h; exact ⟨rfl, fun _ h => h, fun _ h => h, rfl, fun _ h => h⟩)

theorem build_closed (acc : List Path) (p : Path) (hc : AncClosed acc) :
    AncClosed (buildParents [] acc p) ∧ AncClosed (buildParents [] (acc ++ [p]) p) := by
  constructor
  · obtain ⟨hsub, _, hnew⟩ := buildParents_spec [] acc p
    intro q hq
    by_cases hqa : q ∈ acc
    · rcases hc q hqa with h | h
      · exact .inl h
      · exact .inr (hsub _ h)
    · rcases hnew q hq hqa with h | h | h
      · exact .inl h
      · cases h
      · exact .inr h
  · obtain ⟨hsub, hgood, hnew⟩ := buildParents_spec [] (acc ++ [p]) p
    intro q hq
    by_cases hqa : q ∈ acc ++ [p]
    · rcases List.mem_append.mp hqa with hqa | hqa
      · rcases hc q hqa with h | h
        · exact .inl h
        · exact .inr (hsub _ (List.mem_append.mpr (.inl h)))
      · have : q = p := by simpa using hqa
        subst this
        rcases hgood with h | h | h
        · exact .inl h
        · cases h
        · exact .inr h
    · rcases hnew q hq hqa with h | h | h
      · exact .inl h
      · cases h
      · exact .inr h

theorem gocta_grow (s : Settings) (p : Path) (c : String) (b : Path) (s2 : Settings)
    (h : s.getOrCreateTxnAccount p c = .ok (b, s2)) : Grow s s2 ∧ p ∈ s2.accounts ∧ c ∈ s2.commodities := by
  obtain ⟨c', s1, hc, hcase⟩ := gocta_state _ _ _ _ _ h
  have hg1 := goc_grow _ _ _ _ hc
  obtain ⟨hacc1, _, _, _, _, hcin⟩ := goc_other _ _ _ _ hc
  have hcin := (hcin c rfl).2
  rcases hcase with ⟨hs, rfl⟩ | ⟨hs, hfl, hsyn, _, hcomm, hacc, _⟩
  · refine ⟨hg1, ?_, hcin⟩
    rw [hacc1]
    exact ((gocta_ok s p c b).mp ⟨_, h⟩).2.2 hs
  · have hs1 : s1.strict = false := (strict_of_flags hg1.flags).trans hs
    have hg2 : Grow s1 s2 := by
      refine ⟨hfl, ?_, fun x hx => by rw [hcomm]; exact hx, hsyn, ?_⟩
      · intro a ha
        rcases hacc with hacc | hacc <;> rw [hacc]
        · exact (buildParents_spec [] _ p).1 a ha
        · exact (buildParents_spec [] _ p).1 a (List.mem_append.mpr (.inl ha))
      · intro _ hcl
        rcases hacc with hacc | hacc <;> rw [hacc]
        · exact (build_closed _ p hcl).1
        · exact (build_closed _ p hcl).2
    refine ⟨hg1.trans hg2, ?_, by rw [hcomm]; exact hcin⟩
    rcases hacc with hacc | hacc
    · by_cases hm : p ∈ s1.accounts
      · rw [hacc]; exact (buildParents_spec [] _ p).1 p hm
      · -- `p ∉ s1.accounts`: then the other branch was taken
        unfold Settings.getOrCreateTxnAccount at h
        simp only [hc, hm, hs1, if_false, Bool.false_eq_true, Outcome.ok.injEq, Prod.mk.injEq] at h
        rw [← h.2]
        exact (buildParents_spec [] _ p).1 p (by simp)
    · rw [hacc]; exact (buildParents_spec [] _ p).1 p (by simp)

theorem mapMS_grow {α β : Type} (f : Settings → α → Outcome (β × Settings)) (Q : Settings → β → Prop)
    (hg : ∀ s a b t, f s a = .ok (b, t) → Grow s t ∧ Q t b)
    (hq : ∀ s t b, Grow s t → Q s b → Q t b) :
    ∀ (l : List α) (s : Settings) (bs : List β) (t : Settings), mapMS f s l = .ok (bs, t) →
      Grow s t ∧ ∀ b ∈ bs, Q t b := by
  intro l
  induction l with
  | nil =>
    intro s bs t h
    simp only [mapMS] at h
    cases h
    exact ⟨Grow.refl _, fun b hb => by cases hb⟩
  | cons a tl ih =>
    intro s bs t h
    obtain ⟨b, s1, bs', h1, h2, rfl⟩ := (mapMS_cons_ok f s t a tl bs).mp h
    obtain ⟨g1, q1⟩ := hg s a b s1 h1
    obtain ⟨g2, q2⟩ := ih s1 bs' t h2
    refine ⟨g1.trans g2, ?_⟩
    intro x hx
    rcases List.mem_cons.mp hx with rfl | hx
    · exact hq s1 t x g2 q1
    · exact q2 x hx

/-- the account and the commodity of an accepted posting are in the charts -/
def InChart (t : Settings) (p : Posting) : Prop := p.acct ∈ t.accounts ∧ p.comm ∈ t.commodities

theorem InChart.mono {s t : Settings} {p : Posting} (g : Grow s t) (h : InChart s p) : InChart t p :=
  ⟨g.accounts _ h.1, g.commodities _ h.2⟩

theorem registerUnit_grow (s : Settings) (u : Option PostUnit) (s2 : Settings) (h : registerUnit s u = .ok s2) :
    Grow s s2 := by
  rcases registerUnit_inv s u s2 h with ⟨_, rfl⟩ | ⟨pu, c1, _, _, h1⟩ | ⟨pu, v, c1, s1, c2, _, _, h1, h2⟩
  · exact Grow.refl _
  · exact goc_grow _ _ _ _ h1
  · exact (goc_grow _ _ _ _ h1).trans (goc_grow _ _ _ _ h2)

theorem handlePosting_grow (s : Settings) (rp : RawPosting) (p : Posting) (s2 : Settings)
    (h : handlePosting s rp = .ok (p, s2)) : Grow s s2 ∧ InChart s2 p := by
  obtain ⟨s1, vp, a, h1, _, h3, h4⟩ := (handlePosting_ok _ _ _ _).mp h
  obtain ⟨g, ha, hc⟩ := gocta_grow _ _ _ _ _ h3
  have := mkPosting_eq _ _ h4
  subst this
  have hab : a = rp.acct := ((gocta_ok s1 rp.acct vp.postComm a).mp ⟨_, h3⟩).1
  exact ⟨(registerUnit_grow _ _ _ h1).trans g, by rw [hab]; exact ha, hc⟩

theorem acceptPostings_grow (s : Settings) (posts : List RawPosting) (last : Option (Path × Option String))
    (all : List Posting) (s2 : Settings) (h : acceptPostings s posts last = .ok (all, s2)) :
    Grow s s2 ∧ ∀ p ∈ all, InChart s2 p := by
  obtain ⟨p0, rest, s1, h1, hcase⟩ := (acceptPostings_ok _ _ _ _ _).mp h
  obtain ⟨g1, q1⟩ := mapMS_grow handlePosting InChart handlePosting_grow (fun _ _ _ g hq => hq.mono g) _ _ _ _ h1
  rcases hcase with ⟨_, rfl, rfl⟩ | ⟨a, cmt, sm, a', l, _, _, hg, hl, rfl⟩
  · exact ⟨g1, q1⟩
  · obtain ⟨g2, ha, hc⟩ := gocta_grow _ _ _ _ _ hg
    have := mkPosting_eq _ _ hl
    subst this
    have hab : a' = a := ((gocta_ok s1 a p0.txnComm a').mp ⟨_, hg⟩).1
    refine ⟨g1.trans g2, ?_⟩
    intro p hp
    rcases List.mem_append.mp hp with hp | hp
    · exact (q1 p hp).mono g2
    · have : p = _ := List.mem_singleton.mp hp
      subst this
      exact ⟨by rw [hab]; exact ha, hc⟩

theorem acceptTags_grow (s : Settings) (tags : List String) (s2 : Settings) (h : acceptTags s tags = .ok s2) :
    Grow s s2 := by
  obtain ⟨⟨bs, h1⟩, _⟩ := (acceptTags_ok _ _ _).mp h
  exact (mapMS_grow (fun s t => s.getOrCreateTag t) (fun _ _ => True)
    (fun s a b t hh => ⟨tag_grow s a b t hh, trivial⟩) (fun _ _ _ _ _ => trivial) _ _ _ _ h1).1

theorem acceptHeader_grow (s : Settings) (h : Header) (s2 : Settings) (hh : acceptHeader s h = .ok s2) :
    Grow s s2 := by
  obtain ⟨_, _, hcase⟩ := (acceptHeader_ok _ _ _).mp hh
  rcases hcase with ⟨_, rfl⟩ | ⟨ts, _, h1⟩
  · exact Grow.refl _
  · exact acceptTags_grow _ _ _ h1

theorem acceptTxn_grow (s : Settings) (r : RawTxn) (t : Txn) (s2 : Settings) (h : acceptTxn s r = .ok (t, s2)) :
    Grow s s2 ∧ ∀ p ∈ t.posts, InChart s2 p := by
  obtain ⟨s1, ps, h1, h2, rfl, _⟩ := (acceptTxn_ok _ _ _ _).mp h
  obtain ⟨g2, q2⟩ := acceptPostings_grow _ _ _ _ _ h2
  exact ⟨(acceptHeader_grow _ _ _ h1).trans g2, q2⟩

theorem acceptJournal_grow (s : Settings) (rs : List RawTxn) (ts : List Txn) (s2 : Settings)
    (h : acceptJournal s rs = .ok (ts, s2)) : Grow s s2 ∧ ∀ t ∈ ts, ∀ p ∈ t.posts, InChart s2 p :=
  mapMS_grow acceptTxn (fun st t => ∀ p ∈ t.posts, InChart st p) acceptTxn_grow
    (fun _ _ _ g hq p hp => (hq p hp).mono g) _ _ _ _ h

/-- `q` is an ancestor of `p` or `p` itself: a non-empty prefix of the component list -/
def IsAncestorOrSelf (q p : Path) : Prop := q ≠ [] ∧ q <+: p

/-- **report_parents_ok.** After a journal has been accepted — in lax mode from an ancestor-closed
    account chart, in strict mode from a chart whose declared accounts and synthetic parents are closed
    together (both hold for `Settings.ofConfig`, see `ofConfig_closed`) — `get_txn_account`, which the
    balance kernel uses to create the missing (gap) rows of a report, succeeds for every ancestor of
    every account posted to, in the posting's commodity.  (F9 is the failure of exactly this.) -/
theorem report_parents_ok (st st' : Settings) (rs : List RawTxn) (ts : List Txn)
    (hcl : if st.strict then AncClosed2 st.accounts st.synthetic else AncClosed st.accounts)
    (h : acceptJournal st rs = .ok (ts, st')) :
    ∀ t ∈ ts, ∀ p ∈ t.posts, ∀ q, IsAncestorOrSelf q p.acct → st'.getTxnAccount q p.comm = .ok (q, p.comm) := by
  intro t ht p hp q ⟨hq, hpre⟩
  obtain ⟨g, hin⟩ := acceptJournal_grow _ _ _ _ h
  obtain ⟨hacc, hcomm⟩ := hin t ht p hp
  unfold Settings.getTxnAccount
  simp only [hcomm, if_true]
  by_cases hs : st.strict = true
  · simp only [hs, if_true] at hcl
    have hfr := strict_frozen st st' rs ts hs h
    have hcl' : AncClosed2 st'.accounts st'.synthetic := by rw [hfr.accounts, hfr.synthetic]; exact hcl
    have := closed_prefix (fun x => x ∈ st'.accounts ∨ x ∈ st'.synthetic) hcl' p.acct.length p.acct q rfl (.inl hacc) hq hpre
    rcases this with h1 | h1
    · simp [h1]
    · by_cases h0 : q ∈ st'.accounts <;> simp [h0, h1]
  · have hs' : st.strict = false := by simpa using hs
    simp only [hs', Bool.false_eq_true, if_false] at hcl
    have hcl' := g.closed hs' hcl
    have := closed_prefix (fun x => x ∈ st'.accounts) hcl' p.acct.length p.acct q rfl hacc hq hpre
    simp [this]

theorem ofConfig_closed (strict audit pe : Bool) (accts : List Path) (comms tags : List String) :
    if (Settings.ofConfig strict audit pe accts comms tags).strict
    then AncClosed2 (Settings.ofConfig strict audit pe accts comms tags).accounts
          (Settings.ofConfig strict audit pe accts comms tags).synthetic
    else AncClosed (Settings.ofConfig strict audit pe accts comms tags).accounts := by
  cases strict
  · simp only [Settings.ofConfig, Bool.false_eq_true, if_false]
    exact accountTreesFrom_lax_closed accts
  · simp only [Settings.ofConfig, if_true]
    exact accountTreesFrom_strict_closed accts

/-- **lax_ancestor_closed.** The invariant that makes reports work with strict mode off: an ancestor-closed
    account chart is still ancestor-closed after any accepted journal (the same holds after every single
    transaction: `acceptTxn_grow`).  `Settings.ofConfig false …` starts ancestor-closed
    (`accountTreesFrom_lax_closed`; before the fix of F9 it did not). -/
theorem lax_ancestor_closed (st st' : Settings) (rs : List RawTxn) (ts : List Txn) (hs : st.strict = false)
    (hcl : AncClosed st.accounts) (h : acceptJournal st rs = .ok (ts, st')) : AncClosed st'.accounts :=
  (acceptJournal_grow _ _ _ _ h).1.closed hs hcl

/-! ### the same, stated on configurations -/

theorem ofConfig_strict (strict audit pe : Bool) (accts : List Path) (comms tags : List String) :
    (Settings.ofConfig strict audit pe accts comms tags).strict = strict ∧
    (Settings.ofConfig strict audit pe accts comms tags).audit = audit ∧
    (Settings.ofConfig strict audit pe accts comms tags).permitEmpty = pe ∧
    (∀ c, c ∈ (Settings.ofConfig strict audit pe accts comms tags).commodities ↔ c ∈ comms) ∧
    (∀ t, t ∈ (Settings.ofConfig strict audit pe accts comms tags).tags ↔ t ∈ tags) ∧
    (Settings.ofConfig strict audit pe accts comms tags).accounts = (accountTreesFrom accts strict).1 ∧
    (Settings.ofConfig strict audit pe accts comms tags).synthetic = (accountTreesFrom accts strict).2 := by
  simp [Settings.ofConfig, mem_foldl_insertNew]

/-- **strict_iff** on configurations: strict mode accepts exactly the journals that lax mode accepts with
    the same charts and switches and that use only declared accounts, commodities and tags. -/
theorem strict_iff_config (audit pe : Bool) (accts : List Path) (comms tags : List String)
    (rs : List RawTxn) (ts : List Txn) :
    (∃ s2, acceptJournal (Settings.ofConfig true audit pe accts comms tags) rs = .ok (ts, s2)) ↔
      ((∀ a ∈ usedAccounts rs, a ∈ accts) ∧ (∀ c ∈ usedCommodities rs, c ≠ "" → c ∈ comms) ∧
       (∀ t ∈ usedTags rs, t ∈ tags)) ∧
      ∃ s2', acceptJournal (Settings.ofConfig false audit pe accts comms tags) rs = .ok (ts, s2') := by
  obtain ⟨h1, h2, h3, h4, h5, h6, _⟩ := ofConfig_strict true audit pe accts comms tags
  obtain ⟨k1, k2, k3, _⟩ := ofConfig_strict false audit pe accts comms tags
  rw [strict_iff _ (Settings.ofConfig false audit pe accts comms tags) rs ts h1 k1 (k3.trans h3.symm) (k2.trans h2.symm)]
  have hd : Declared (Settings.ofConfig true audit pe accts comms tags) rs ↔
      ((∀ a ∈ usedAccounts rs, a ∈ accts) ∧ (∀ c ∈ usedCommodities rs, c ≠ "" → c ∈ comms) ∧
       (∀ t ∈ usedTags rs, t ∈ tags)) := by
    constructor
    · rintro ⟨a, c, t⟩
      refine ⟨fun x hx => ?_, fun x hx hne => (h4 x).mp (c x hx hne), fun x hx => (h5 x).mp (t x hx)⟩
      have := a x hx
      rw [h6] at this
      exact (accountTreesFrom_strict_fst accts x).mp this
    · rintro ⟨a, c, t⟩
      refine ⟨fun x hx => ?_, fun x hx hne => (h4 x).mpr (c x hx hne), fun x hx => (h5 x).mpr (t x hx)⟩
      rw [h6]
      exact (accountTreesFrom_strict_fst accts x).mpr (a x hx)
  rw [hd]

/-- **synthetic_only_reports.** In strict mode an undeclared ancestor `a` of a declared account `d` cannot be
    posted to (`get_or_create_txn_account` does not succeed, whatever the commodity), but
    `get_txn_account` — the lookup the balance kernel uses for gap rows — finds it. -/
theorem synthetic_only_reports (audit pe : Bool) (accts : List Path) (comms tags : List String) (a d : Path)
    (hd : d ∈ accts) (ha : a ≠ []) (hpre : a <+: d) (hnd : a ∉ accts) :
    (∀ c r, (Settings.ofConfig true audit pe accts comms tags).getOrCreateTxnAccount a c ≠ .ok r) ∧
    (∀ c, c ∈ (Settings.ofConfig true audit pe accts comms tags).commodities →
      (Settings.ofConfig true audit pe accts comms tags).getTxnAccount a c = .ok (a, c)) := by
  obtain ⟨h1, _, _, _, _, h6, h7⟩ := ofConfig_strict true audit pe accts comms tags
  have hna : a ∉ (Settings.ofConfig true audit pe accts comms tags).accounts := by
    rw [h6]; exact fun h => hnd ((accountTreesFrom_strict_fst accts a).mp h)
  constructor
  · intro c r hr
    obtain ⟨b, s2⟩ := r
    exact hna (((gocta_ok _ a c b).mp ⟨s2, hr⟩).2.2 h1)
  · intro c hc
    have hcl := accountTreesFrom_strict_closed accts
    have hdm : d ∈ (accountTreesFrom accts true).1 := (accountTreesFrom_strict_fst accts d).mpr hd
    have := closed_prefix (fun x => x ∈ (accountTreesFrom accts true).1 ∨ x ∈ (accountTreesFrom accts true).2)
      hcl d.length d a rfl (.inl hdm) ha hpre
    rw [← h6, ← h7] at this
    rcases this with h | h
    · exact absurd h hna
    · unfold Settings.getTxnAccount
      simp [hc, hna, h]

/-! ## Settings construction: report commodity, price file, equity account -/

def PEntry (s : Settings) (e : String × String) : Prop := PComm s e.1 ∧ PComm s e.2

theorem registerPriceEntry_ok (s : Settings) (e : String × String) (u : Unit) (s2 : Settings) :
    registerPriceEntry s e = .ok (u, s2) ↔
      ∃ c1 s1 c2, s.getOrCreateCommodity (some e.1) = .ok (c1, s1) ∧ s1.getOrCreateCommodity (some e.2) = .ok (c2, s2) := by
  constructor
  · intro h
    unfold registerPriceEntry at h
    split at h
    · cases h
    · cases h
    · rename_i c1 s1 h1
      split at h
      · cases h
      · cases h
      · rename_i c2 s2' h2
        cases h
        exact ⟨c1, s1, c2, h1, h2⟩
  · rintro ⟨c1, s1, c2, h1, h2⟩
    simp [registerPriceEntry, h1, h2]

theorem priceEntry_spec : StepSpec registerPriceEntry PEntry where
  flags := by
    intro s e u s2 h
    obtain ⟨c1, s1, c2, h1, h2⟩ := (registerPriceEntry_ok _ _ _ _).mp h
    exact (goc_spec.flags _ _ _ _ h2).trans (goc_spec.flags _ _ _ _ h1)
  frozen := by
    intro s e u s2 hs h
    obtain ⟨c1, s1, c2, h1, h2⟩ := (registerPriceEntry_ok _ _ _ _).mp h
    have hfr := goc_spec.frozen _ _ _ _ hs h1
    exact hfr.trans (goc_spec.frozen _ _ _ _ (hfr.strict.trans hs) h2)
  iff := by
    intro s s' e u hr
    constructor
    · rintro ⟨s2, h⟩
      obtain ⟨c1, s1, c2, h1, h2⟩ := (registerPriceEntry_ok _ _ _ _).mp h
      obtain ⟨hp1, s1', h1'⟩ := (goc_spec.iff s s' e.1 c1 hr).mp ⟨s1, h1⟩
      have hr1 : Rel s1 s1' := hr.step (goc_spec.flags _ _ _ _ h1) (goc_spec.flags _ _ _ _ h1')
      obtain ⟨hp2, s2', h2'⟩ := (goc_spec.iff s1 s1' e.2 c2 hr1).mp ⟨s2, h2⟩
      refine ⟨fun hs => ⟨hp1 hs, ?_⟩, s2', (registerPriceEntry_ok _ _ _ _).mpr ⟨c1, s1', c2, h1', h2'⟩⟩
      have hfr := goc_spec.frozen _ _ _ _ hs h1
      exact (PComm.stable _ hfr).mp (hp2 (hfr.strict.trans hs))
    · rintro ⟨hp, s2', h'⟩
      obtain ⟨c1, s1', c2, h1', h2'⟩ := (registerPriceEntry_ok _ _ _ _).mp h'
      obtain ⟨s1, h1⟩ := (goc_spec.iff s s' e.1 c1 hr).mpr ⟨fun hs => (hp hs).1, s1', h1'⟩
      have hr1 : Rel s1 s1' := hr.step (goc_spec.flags _ _ _ _ h1) (goc_spec.flags _ _ _ _ h1')
      obtain ⟨s2, h2⟩ := (goc_spec.iff s1 s1' e.2 c2 hr1).mpr ⟨fun hs1 => by
        have hs : s.strict = true := (strict_of_flags (goc_spec.flags _ _ _ _ h1)).symm.trans hs1
        exact (PComm.stable _ (goc_spec.frozen _ _ _ _ hs h1)).mpr (hp hs).2, s2', h2'⟩
      exact ⟨s2, (registerPriceEntry_ok _ _ _ _).mpr ⟨c1, s1, c2, h1, h2⟩⟩
  stable := by
    intro s t e h
    simp only [PEntry, PComm.stable e.1 h, PComm.stable e.2 h]

theorem priceEntries_spec :
    StepSpec (fun s l => mapMS registerPriceEntry s l) (fun s l => ∀ e ∈ l, PEntry s e) :=
  priceEntry_spec.mapMS

theorem loadPriceDb_ok (s : Settings) (es : List (String × String)) (s2 : Settings) :
    loadPriceDb s es = .ok s2 ↔ es ≠ [] ∧ ∃ us, mapMS registerPriceEntry s es = .ok (us, s2) := by
  unfold loadPriceDb
  cases es with
  | nil => simp
  | cons e tl =>
    cases h1 : mapMS registerPriceEntry s (e :: tl) with
    | err => simp
    | undef => simp
    | ok r => obtain ⟨us, s1⟩ := r; simp

theorem loadPriceDb_spec : StepSpecS loadPriceDb (fun s l => ∀ e ∈ l, PEntry s e) where
  flags := by
    intro s l s2 h
    obtain ⟨_, us, h1⟩ := (loadPriceDb_ok _ _ _).mp h
    exact priceEntries_spec.flags _ _ _ _ h1
  frozen := by
    intro s l s2 hs h
    obtain ⟨_, us, h1⟩ := (loadPriceDb_ok _ _ _).mp h
    exact priceEntries_spec.frozen _ _ _ _ hs h1
  iff := by
    intro s s' l hr
    constructor
    · rintro ⟨s2, h⟩
      obtain ⟨hne, us, h1⟩ := (loadPriceDb_ok _ _ _).mp h
      obtain ⟨hp, s2', h1'⟩ := (priceEntries_spec.iff s s' l us hr).mp ⟨s2, h1⟩
      exact ⟨hp, s2', (loadPriceDb_ok _ _ _).mpr ⟨hne, us, h1'⟩⟩
    · rintro ⟨hp, s2', h'⟩
      obtain ⟨hne, us, h1'⟩ := (loadPriceDb_ok _ _ _).mp h'
      obtain ⟨s2, h1⟩ := (priceEntries_spec.iff s s' l us hr).mpr ⟨hp, s2', h1'⟩
      exact ⟨s2, (loadPriceDb_ok _ _ _).mpr ⟨hne, us, h1⟩⟩
  stable := priceEntries_spec.stable

/-- report commodity and price-file commodities are the empty one or in the chart -/
def PCfg (s : Settings) (a : Option String × Option (List (String × String))) : Prop :=
  ∀ rc, a.1 = some rc → PComm s rc ∧ ∀ es, a.2 = some es → ∀ e ∈ es, PEntry s e

theorem registerCfg_ok (s : Settings) (a : Option String × Option (List (String × String))) (s2 : Settings) :
    registerCfg s a = .ok s2 ↔
      (a.1 = none ∧ a.2 = none ∧ s2 = s) ∨
      (∃ rc c1 s1, a.1 = some rc ∧ s.getOrCreateCommodity (some rc) = .ok (c1, s1) ∧
        ((a.2 = none ∧ s2 = s1) ∨ ∃ es, a.2 = some es ∧ loadPriceDb s1 es = .ok s2)) := by
  obtain ⟨rc0, pd⟩ := a
  unfold registerCfg
  cases rc0 with
  | none => cases pd <;> simp [eq_comm]
  | some rc =>
    simp only [reduceCtorEq, false_and, false_or, Option.some.injEq]
    cases h1 : s.getOrCreateCommodity (some rc) with
    | err => simp [h1]
    | undef => simp [h1]
    | ok r =>
      obtain ⟨c1, s1⟩ := r
      cases pd with
      | none =>
        simp only [Outcome.ok.injEq, reduceCtorEq, false_and, exists_false, or_false, true_and]
        constructor
        · rintro rfl; exact ⟨rc, c1, s1, rfl, h1, rfl⟩
        · rintro ⟨_, _, _, rfl, h, rfl⟩
          rw [h1] at h
          simp only [Outcome.ok.injEq, Prod.mk.injEq] at h
          exact h.2
      | some es =>
        simp only [reduceCtorEq, false_and, false_or, Option.some.injEq, exists_eq_left']
        constructor
        · intro h; exact ⟨rc, c1, s1, rfl, h1, h⟩
        · rintro ⟨_, _, _, rfl, h, h2⟩
          rw [h1] at h
          simp only [Outcome.ok.injEq, Prod.mk.injEq] at h
          rw [h.2]; exact h2

theorem registerCfg_spec : StepSpecS registerCfg PCfg where
  flags := by
    intro s a s2 h
    rcases (registerCfg_ok _ _ _).mp h with ⟨_, _, rfl⟩ | ⟨rc, c1, s1, _, h1, hcase⟩
    · rfl
    · rcases hcase with ⟨_, rfl⟩ | ⟨es, _, h2⟩
      · exact goc_spec.flags _ _ _ _ h1
      · exact (loadPriceDb_spec.flags _ _ _ h2).trans (goc_spec.flags _ _ _ _ h1)
  frozen := by
    intro s a s2 hs h
    rcases (registerCfg_ok _ _ _).mp h with ⟨_, _, rfl⟩ | ⟨rc, c1, s1, _, h1, hcase⟩
    · exact Frozen.refl _
    · have hfr := goc_spec.frozen _ _ _ _ hs h1
      rcases hcase with ⟨_, rfl⟩ | ⟨es, _, h2⟩
      · exact hfr
      · exact hfr.trans (loadPriceDb_spec.frozen _ _ _ (hfr.strict.trans hs) h2)
  iff := by
    intro s s' a hr
    constructor
    · rintro ⟨s2, h⟩
      rcases (registerCfg_ok _ _ _).mp h with ⟨ha1, ha2, rfl⟩ | ⟨rc, c1, s1, ha1, h1, hcase⟩
      · refine ⟨?_, s', (registerCfg_ok _ _ _).mpr (.inl ⟨ha1, ha2, rfl⟩)⟩
        intro _ rc hrc
        rw [ha1] at hrc
        cases hrc
      · obtain ⟨hp1, s1', h1'⟩ := (goc_spec.iff s s' rc c1 hr).mp ⟨s1, h1⟩
        have hr1 : Rel s1 s1' := hr.step (goc_spec.flags _ _ _ _ h1) (goc_spec.flags _ _ _ _ h1')
        rcases hcase with ⟨ha2, rfl⟩ | ⟨es, ha2, h2⟩
        · refine ⟨fun hs rc' hrc => ?_, s1', (registerCfg_ok _ _ _).mpr (.inr ⟨rc, c1, s1', ha1, h1', .inl ⟨ha2, rfl⟩⟩)⟩
          rw [ha1] at hrc; cases hrc
          exact ⟨hp1 hs, fun es hes => by rw [ha2] at hes; cases hes⟩
        · obtain ⟨hp2, s2', h2'⟩ := (loadPriceDb_spec.iff s1 s1' es hr1).mp ⟨s2, h2⟩
          refine ⟨fun hs rc' hrc => ?_, s2', (registerCfg_ok _ _ _).mpr (.inr ⟨rc, c1, s1', ha1, h1', .inr ⟨es, ha2, h2'⟩⟩)⟩
          rw [ha1] at hrc; cases hrc
          refine ⟨hp1 hs, fun es' hes => ?_⟩
          rw [ha2] at hes; cases hes
          have hfr := goc_spec.frozen _ _ _ _ hs h1
          exact (loadPriceDb_spec.stable s s1 es hfr).mp (hp2 (hfr.strict.trans hs))
    · rintro ⟨hp, s2', h'⟩
      rcases (registerCfg_ok _ _ _).mp h' with ⟨ha1, ha2, rfl⟩ | ⟨rc, c1, s1', ha1, h1', hcase⟩
      · exact ⟨s, (registerCfg_ok _ _ _).mpr (.inl ⟨ha1, ha2, rfl⟩)⟩
      · obtain ⟨s1, h1⟩ := (goc_spec.iff s s' rc c1 hr).mpr ⟨fun hs => (hp hs rc ha1).1, s1', h1'⟩
        have hr1 : Rel s1 s1' := hr.step (goc_spec.flags _ _ _ _ h1) (goc_spec.flags _ _ _ _ h1')
        rcases hcase with ⟨ha2, rfl⟩ | ⟨es, ha2, h2'⟩
        · exact ⟨s1, (registerCfg_ok _ _ _).mpr (.inr ⟨rc, c1, s1, ha1, h1, .inl ⟨ha2, rfl⟩⟩)⟩
        · obtain ⟨s2, h2⟩ := (loadPriceDb_spec.iff s1 s1' es hr1).mpr ⟨fun hs1 => by
            have hs : s.strict = true := (strict_of_flags (goc_spec.flags _ _ _ _ h1)).symm.trans hs1
            have hfr := goc_spec.frozen _ _ _ _ hs h1
            exact (loadPriceDb_spec.stable s s1 es hfr).mpr ((hp hs rc ha1).2 es ha2), s2', h2'⟩
          exact ⟨s2, (registerCfg_ok _ _ _).mpr (.inr ⟨rc, c1, s1, ha1, h1, .inr ⟨es, ha2, h2⟩⟩)⟩
  stable := by
    intro s t a h
    unfold PCfg
    constructor
    · intro hp rc hrc
      exact ⟨(PComm.stable rc h).mp (hp rc hrc).1, fun es hes => (loadPriceDb_spec.stable s t es h).mp ((hp rc hrc).2 es hes)⟩
    · intro hp rc hrc
      exact ⟨(PComm.stable rc h).mpr (hp rc hrc).1, fun es hes => (loadPriceDb_spec.stable s t es h).mpr ((hp rc hrc).2 es hes)⟩

/-- the names the configuration itself uses are declared: the equity account (when the equity export is
    selected), the report commodity, both commodities of every price-file entry -/
structure DeclaredCfg (c : ChartCfg) : Prop where
  equity : c.equityTarget = true → c.equityAccount ∈ c.accounts
  report : ∀ rc, c.reportCommodity = some rc → rc ≠ "" → rc ∈ c.commodities
  price : ∀ es, c.priceDb = some es → ∀ e ∈ es, (e.1 ≠ "" → e.1 ∈ c.commodities) ∧ (e.2 ≠ "" → e.2 ∈ c.commodities)

def cfgSettings (c : ChartCfg) : Settings :=
  Settings.ofConfig c.strict c.audit c.permitEmpty c.accounts c.commodities c.tags

theorem acceptWithCfg_ok (c : ChartCfg) (rs : List RawTxn) (ts : List Txn) (s2 : Settings) :
    acceptWithCfg c rs = .ok (ts, s2) ↔
      ¬(c.strict = true ∧ c.equityTarget = true ∧ c.equityAccount ∉ (cfgSettings c).accounts) ∧
      ∃ st1, registerCfg (cfgSettings c) (c.reportCommodity, c.priceDb) = .ok st1 ∧
        acceptJournal st1 rs = .ok (ts, s2) := by
  unfold acceptWithCfg settingsTryFrom cfgSettings
  by_cases heq : c.strict = true ∧ c.equityTarget = true ∧
      c.equityAccount ∉ (Settings.ofConfig c.strict c.audit c.permitEmpty c.accounts c.commodities c.tags).accounts
  · rw [if_pos heq]
    simp only [reduceCtorEq, false_iff]
    exact fun h => h.1 heq
  · rw [if_neg heq]
    simp only [heq, not_false_eq_true, true_and]
    cases h1 : registerCfg (Settings.ofConfig c.strict c.audit c.permitEmpty c.accounts c.commodities c.tags)
        (c.reportCommodity, c.priceDb) with
    | err => simp
    | undef => simp
    | ok st1 => simp

/-- **strict_iff** for the whole load (settings construction + journal): with strict mode on, the load
    succeeds exactly when every name used by the configuration (report commodity, price-file commodities,
    equity account of a selected equity export) and by the journal (accounts, commodities, tags) is
    declared and the same load succeeds with strict mode off (yielding the same transactions). -/
theorem strict_iff_cfg (c : ChartCfg) (rs : List RawTxn) (ts : List Txn) (hs : c.strict = true) :
    (∃ s2, acceptWithCfg c rs = .ok (ts, s2)) ↔
      DeclaredCfg c ∧
      ((∀ a ∈ usedAccounts rs, a ∈ c.accounts) ∧ (∀ x ∈ usedCommodities rs, x ≠ "" → x ∈ c.commodities) ∧
       (∀ t ∈ usedTags rs, t ∈ c.tags)) ∧
      ∃ s2', acceptWithCfg { c with strict := false } rs = .ok (ts, s2') := by
  obtain ⟨h1, h2, h3, h4, h5, h6, _⟩ := ofConfig_strict true c.audit c.permitEmpty c.accounts c.commodities c.tags
  obtain ⟨k1, k2, k3, _⟩ := ofConfig_strict false c.audit c.permitEmpty c.accounts c.commodities c.tags
  have hr : Rel (Settings.ofConfig true c.audit c.permitEmpty c.accounts c.commodities c.tags)
      (Settings.ofConfig false c.audit c.permitEmpty c.accounts c.commodities c.tags) :=
    ⟨k1, k3.trans h3.symm, k2.trans h2.symm⟩
  have hacc : ∀ x, x ∈ (Settings.ofConfig true c.audit c.permitEmpty c.accounts c.commodities c.tags).accounts ↔ x ∈ c.accounts := by
    intro x; rw [h6]; exact accountTreesFrom_strict_fst c.accounts x
  have hpc : ∀ x, PComm (Settings.ofConfig true c.audit c.permitEmpty c.accounts c.commodities c.tags) x ↔
      (x ≠ "" → x ∈ c.commodities) := by
    intro x; rw [PComm_iff, h4]
  simp only [acceptWithCfg_ok, cfgSettings, hs]
  constructor
  · rintro ⟨s2, heq, st1, hreg, hj⟩
    obtain ⟨hp1, st1', hreg'⟩ := (registerCfg_spec.iff _ _ (c.reportCommodity, c.priceDb) hr).mp ⟨st1, hreg⟩
    have hfr := registerCfg_spec.frozen _ _ _ h1 hreg
    have hr1 : Rel st1 st1' := hr.step (registerCfg_spec.flags _ _ _ hreg) (registerCfg_spec.flags _ _ _ hreg')
    obtain ⟨hp2, s2', hj'⟩ := (acceptJournal_spec.iff st1 st1' rs ts hr1).mp ⟨s2, hj⟩
    have hdecl := (declared_iff _ rs).mp ((acceptJournal_spec.stable _ st1 rs hfr).mp (hp2 (hfr.strict.trans h1)))
    refine ⟨⟨?_, ?_, ?_⟩, ⟨?_, ?_, ?_⟩, s2', ?_, st1', hreg', hj'⟩
    · intro he
      by_cases hm : c.equityAccount ∈ c.accounts
      · exact hm
      · exact absurd ⟨trivial, he, fun h => hm ((hacc _).mp h)⟩ heq
    · intro rc hrc
      exact (hpc rc).mp (hp1 h1 rc hrc).1
    · intro es hes e he
      cases hrc : c.reportCommodity with
      | none =>
        rcases (registerCfg_ok _ _ _).mp hreg with ⟨_, hn, _⟩ | ⟨rc, _, _, hsome, _⟩
        · simp only at hn; rw [hes] at hn; cases hn
        · simp only at hsome; rw [hrc] at hsome; cases hsome
      | some rc =>
        have := (hp1 h1 rc hrc).2 es hes e he
        exact ⟨(hpc _).mp this.1, (hpc _).mp this.2⟩
    · exact fun a ha => (hacc a).mp (hdecl.accounts a ha)
    · exact fun x hx hne => (h4 x).mp (hdecl.commodities x hx hne)
    · exact fun t ht => (h5 t).mp (hdecl.tags t ht)
    · simp
  · rintro ⟨⟨he, hrep, hprice⟩, ⟨ha, hc, ht⟩, s2', _, st1', hreg', hj'⟩
    obtain ⟨st1, hreg⟩ := (registerCfg_spec.iff _ _ (c.reportCommodity, c.priceDb) hr).mpr ⟨fun _ rc hrc => by
      simp only at hrc
      refine ⟨(hpc rc).mpr (hrep rc hrc), fun es hes e hee => ?_⟩
      simp only at hes
      exact ⟨(hpc _).mpr (hprice es hes e hee).1, (hpc _).mpr (hprice es hes e hee).2⟩, st1', hreg'⟩
    have hfr := registerCfg_spec.frozen _ _ _ h1 hreg
    have hr1 : Rel st1 st1' := hr.step (registerCfg_spec.flags _ _ _ hreg) (registerCfg_spec.flags _ _ _ hreg')
    have hdecl : Declared (Settings.ofConfig true c.audit c.permitEmpty c.accounts c.commodities c.tags) rs :=
      ⟨fun a' ha' => (hacc a').mpr (ha a' ha'), fun x hx hne => (h4 x).mpr (hc x hx hne), fun t' ht' => (h5 t').mpr (ht t' ht')⟩
    obtain ⟨s2, hj⟩ := (acceptJournal_spec.iff st1 st1' rs ts hr1).mpr
      ⟨fun _ => (acceptJournal_spec.stable _ st1 rs hfr).mpr ((declared_iff _ rs).mpr hdecl), s2', hj'⟩
    refine ⟨s2, ?_, st1, hreg, hj⟩
    rintro ⟨_, het, hne⟩
    exact hne ((hacc _).mpr (he het))

/-! ## Strict mode off: the three-valued outcome (ok / err / outside the modelled domain) and the value do
not depend on the charts -/

/-- two lax-mode settings with the same switches (charts arbitrary) -/
structure LaxRel (s s' : Settings) : Prop where
  l : s.strict = false
  l' : s'.strict = false
  pe : s'.permitEmpty = s.permitEmpty
  audit : s'.audit = s.audit

theorem LaxRel.step {s s' t t' : Settings} (h : LaxRel s s') (h1 : Flags t = Flags s) (h2 : Flags t' = Flags s') :
    LaxRel t t' := by
  simp only [Flags, Prod.mk.injEq] at h1 h2
  exact ⟨h1.1.trans h.l, h2.1.trans h.l', h2.2.2.trans (h.pe.trans h1.2.2.symm), h2.2.1.trans (h.audit.trans h1.2.1.symm)⟩

/-- same outcome class, same value, related settings -/
def OutSim {β : Type} (o o' : Outcome (β × Settings)) : Prop :=
  match o, o' with
  | .ok (b, t), .ok (b', t') => b = b' ∧ LaxRel t t'
  | .err, .err => True
  | .undef, .undef => True
  | _, _ => False

def OutSimS (o o' : Outcome Settings) : Prop :=
  match o, o' with
  | .ok t, .ok t' => LaxRel t t'
  | .err, .err => True
  | .undef, .undef => True
  | _, _ => False

/-- whether an inexact amount is an error (overflow) or outside the modelled domain depends on the amounts
    only, which are the same in both runs -/
theorem OutSim.inexact {β : Type} (b : Bool) : OutSim (Outcome.inexact b : Outcome (β × Settings)) (Outcome.inexact b) := by
  cases b <;> simp [Outcome.inexact, OutSim]

theorem OutSim.map_fst {β : Type} {o o' : Outcome (β × Settings)} (h : OutSim o o') :
    o.map Prod.fst = o'.map Prod.fst := by
  cases o with
  | ok r => cases o' with
    | ok r' => obtain ⟨b, t⟩ := r; obtain ⟨b', t'⟩ := r'; simp only [OutSim] at h; simp [Outcome.map, h.1]
    | err => simp [OutSim] at h
    | undef => simp [OutSim] at h
  | err => cases o' <;> simp_all [OutSim, Outcome.map]
  | undef => cases o' <;> simp_all [OutSim, Outcome.map]

theorem goc_sim (s s' : Settings) (n : String) (hr : LaxRel s s') :
    OutSim (s.getOrCreateCommodity (some n)) (s'.getOrCreateCommodity (some n)) := by
  simp only [Settings.getOrCreateCommodity, hr.l, hr.l', hr.pe]
  by_cases hn : n = ""
  · by_cases hpe : s.permitEmpty = true
    · simp only [hn, hpe, if_true, OutSim, true_and]
      refine ⟨?_, ?_, ?_, ?_⟩ <;> simp [hr.l, hr.l', hr.pe, hr.audit, hpe]
    · simp [hn, hpe, OutSim]
  · by_cases hm : n ∈ s.commodities <;> by_cases hm' : n ∈ s'.commodities <;>
      simp only [hn, hm, hm', if_true, if_false, Bool.false_eq_true, OutSim, true_and] <;>
      refine ⟨?_, ?_, ?_, ?_⟩ <;> simp [hr.l, hr.l', hr.pe, hr.audit]

theorem tag_sim (s s' : Settings) (n : String) (hr : LaxRel s s') :
    OutSim (s.getOrCreateTag n) (s'.getOrCreateTag n) := by
  simp only [Settings.getOrCreateTag, hr.l, hr.l']
  by_cases hn : n = ""
  · simp [hn, OutSim]
  · by_cases hm : n ∈ s.tags <;> by_cases hm' : n ∈ s'.tags <;>
      simp only [hn, hm, hm', if_true, if_false, Bool.false_eq_true, OutSim, true_and] <;>
      refine ⟨?_, ?_, ?_, ?_⟩ <;> simp [hr.l, hr.l', hr.pe, hr.audit]

theorem gocta_sim (s s' : Settings) (p : Path) (c : String) (hr : LaxRel s s') :
    OutSim (s.getOrCreateTxnAccount p c) (s'.getOrCreateTxnAccount p c) := by
  have h := goc_sim s s' c hr
  unfold Settings.getOrCreateTxnAccount
  cases e : s.getOrCreateCommodity (some c) with
  | err => cases e' : s'.getOrCreateCommodity (some c) <;> simp_all [OutSim]
  | undef => cases e' : s'.getOrCreateCommodity (some c) <;> simp_all [OutSim]
  | ok r =>
    cases e' : s'.getOrCreateCommodity (some c) with
    | err => simp_all [OutSim]
    | undef => simp_all [OutSim]
    | ok r' =>
      obtain ⟨c1, s1⟩ := r
      obtain ⟨c1', s1'⟩ := r'
      rw [e, e'] at h
      simp only [OutSim] at h
      obtain ⟨_, hr1⟩ := h
      simp only [hr1.l, hr1.l', Bool.false_eq_true, if_false]
      by_cases hm : p ∈ s1.accounts <;> by_cases hm' : p ∈ s1'.accounts <;>
        simp only [hm, hm', if_true, if_false, OutSim, true_and] <;>
        refine ⟨?_, ?_, ?_, ?_⟩ <;> simp [hr1.l, hr1.l', hr1.pe, hr1.audit]

theorem mapMS_sim {α β : Type} (f : Settings → α → Outcome (β × Settings))
    (hf : ∀ s s' a, LaxRel s s' → OutSim (f s a) (f s' a)) :
    ∀ (l : List α) (s s' : Settings), LaxRel s s' → OutSim (mapMS f s l) (mapMS f s' l) := by
  intro l
  induction l with
  | nil => intro s s' hr; simp only [mapMS, OutSim, true_and]; exact hr
  | cons a t ih =>
    intro s s' hr
    have h := hf s s' a hr
    simp only [mapMS]
    cases e : f s a with
    | err => cases e' : f s' a <;> simp_all [OutSim]
    | undef => cases e' : f s' a <;> simp_all [OutSim]
    | ok r =>
      cases e' : f s' a with
      | err => simp_all [OutSim]
      | undef => simp_all [OutSim]
      | ok r' =>
        obtain ⟨b, s1⟩ := r
        obtain ⟨b', s1'⟩ := r'
        rw [e, e'] at h
        simp only [OutSim] at h
        obtain ⟨rfl, hr1⟩ := h
        have h2 := ih s1 s1' hr1
        cases e2 : mapMS f s1 t with
        | err => cases e2' : mapMS f s1' t <;> simp_all [OutSim]
        | undef => cases e2' : mapMS f s1' t <;> simp_all [OutSim]
        | ok r2 =>
          cases e2' : mapMS f s1' t with
          | err => simp_all [OutSim]
          | undef => simp_all [OutSim]
          | ok r2' =>
            obtain ⟨bs, s2⟩ := r2
            obtain ⟨bs', s2'⟩ := r2'
            rw [e2, e2'] at h2
            simp only [OutSim] at h2
            simp only [e2, e2', OutSim, h2.1, true_and]
            exact h2.2

theorem OutSim.elim {β : Type} {o o' : Outcome (β × Settings)} (h : OutSim o o') :
    (o = .err ∧ o' = .err) ∨ (o = .undef ∧ o' = .undef) ∨
    ∃ b t t', o = .ok (b, t) ∧ o' = .ok (b, t') ∧ LaxRel t t' := by
  cases o with
  | ok r => cases o' with
    | ok r' =>
      obtain ⟨b, t⟩ := r; obtain ⟨b', t'⟩ := r'
      simp only [OutSim] at h
      obtain ⟨rfl, hr⟩ := h
      exact .inr (.inr ⟨b, t, t', rfl, rfl, hr⟩)
    | err => simp [OutSim] at h
    | undef => simp [OutSim] at h
  | err => cases o' <;> simp_all [OutSim]
  | undef => cases o' <;> simp_all [OutSim]

theorem OutSimS.elim {o o' : Outcome Settings} (h : OutSimS o o') :
    (o = .err ∧ o' = .err) ∨ (o = .undef ∧ o' = .undef) ∨ ∃ t t', o = .ok t ∧ o' = .ok t' ∧ LaxRel t t' := by
  cases o with
  | ok t => cases o' with
    | ok t' => exact .inr (.inr ⟨t, t', rfl, rfl, h⟩)
    | err => simp [OutSimS] at h
    | undef => simp [OutSimS] at h
  | err => cases o' <;> simp_all [OutSimS]
  | undef => cases o' <;> simp_all [OutSimS]

theorem registerUnit_sim (s s' : Settings) (u : Option PostUnit) (hr : LaxRel s s') :
    OutSimS (registerUnit s u) (registerUnit s' u) := by
  cases u with
  | none => simp only [registerUnit, OutSimS]; exact hr
  | some pu =>
    rcases (goc_sim s s' pu.comm hr).elim with ⟨e, e'⟩ | ⟨e, e'⟩ | ⟨b, t, t', e, e', hr1⟩
    · simp [registerUnit, e, e', OutSimS]
    · simp [registerUnit, e, e', OutSimS]
    · cases hcl : pu.closing with
      | none => simp only [registerUnit, e, e', hcl, OutSimS]; exact hr1
      | some cl =>
        cases cl with
        | total v =>
          rcases (goc_sim t t' v.comm hr1).elim with ⟨f, f'⟩ | ⟨f, f'⟩ | ⟨b2, t2, t2', f, f', hr2⟩
          · simp [registerUnit, e, e', hcl, f, f', Outcome.map, OutSimS]
          · simp [registerUnit, e, e', hcl, f, f', Outcome.map, OutSimS]
          · simp only [registerUnit, e, e', hcl, f, f', Outcome.map, OutSimS]; exact hr2
        | unitPrice v =>
          rcases (goc_sim t t' v.comm hr1).elim with ⟨f, f'⟩ | ⟨f, f'⟩ | ⟨b2, t2, t2', f, f', hr2⟩
          · simp [registerUnit, e, e', hcl, f, f', Outcome.map, OutSimS]
          · simp [registerUnit, e, e', hcl, f, f', Outcome.map, OutSimS]
          · simp only [registerUnit, e, e', hcl, f, f', Outcome.map, OutSimS]; exact hr2

theorem handlePosting_sim (s s' : Settings) (rp : RawPosting) (hr : LaxRel s s') :
    OutSim (handlePosting s rp) (handlePosting s' rp) := by
  rcases (registerUnit_sim s s' rp.unit hr).elim with ⟨e, e'⟩ | ⟨e, e'⟩ | ⟨t, t', e, e', hr1⟩
  · simp [handlePosting, e, e', OutSim]
  · simp [handlePosting, e, e', OutSim]
  · cases ev : valuePosition rp.amount rp.unit with
    | err => simp [handlePosting, e, e', ev, OutSim]
    | undef => simp [handlePosting, e, e', ev, OutSim]
    | ok vp =>
      rcases (gocta_sim t t' rp.acct vp.postComm hr1).elim with ⟨g, g'⟩ | ⟨g, g'⟩ | ⟨a, t2, t2', g, g', hr2⟩
      · simp [handlePosting, e, e', ev, g, g', OutSim]
      · simp [handlePosting, e, e', ev, g, g', OutSim]
      · cases em : mkPosting ⟨a, vp.postComm, vp.postAmount, vp.txnAmount, vp.isTotal, vp.txnComm, rp.comment⟩ with
        | err => simp [handlePosting, e, e', ev, g, g', em, Outcome.map, OutSim]
        | undef => simp [handlePosting, e, e', ev, g, g', em, Outcome.map, OutSim]
        | ok q => simp only [handlePosting, e, e', ev, g, g', em, Outcome.map, OutSim, true_and]; exact hr2

theorem acceptPostings_sim (s s' : Settings) (posts : List RawPosting) (last : Option (Path × Option String))
    (hr : LaxRel s s') : OutSim (acceptPostings s posts last) (acceptPostings s' posts last) := by
  rcases (mapMS_sim handlePosting handlePosting_sim posts s s' hr).elim with ⟨e, e'⟩ | ⟨e, e'⟩ | ⟨ps, t, t', e, e', hr1⟩
  · simp [acceptPostings, e, e', OutSim]
  · simp [acceptPostings, e, e', OutSim]
  · cases ps with
    | nil => simp [acceptPostings, e, e', OutSim]
    | cons p0 rest =>
      cases last with
      | none => simp only [acceptPostings, e, e', OutSim, true_and]; exact hr1
      | some ac =>
        obtain ⟨a, cmt⟩ := ac
        cases esum : txnSum (p0 :: rest) with
        | none => simp only [acceptPostings, e, e', esum]; exact OutSim.inexact _
        | some sm =>
          rcases (gocta_sim t t' a p0.txnComm hr1).elim with ⟨g, g'⟩ | ⟨g, g'⟩ | ⟨a', t2, t2', g, g', hr2⟩
          · simp [acceptPostings, e, e', esum, g, g', OutSim]
          · simp [acceptPostings, e, e', esum, g, g', OutSim]
          · cases em : mkPosting ⟨a', p0.txnComm, sm.negate, sm.negate, false, p0.txnComm, cmt⟩ with
            | err => simp [acceptPostings, e, e', esum, g, g', em, Outcome.map, OutSim]
            | undef => simp [acceptPostings, e, e', esum, g, g', em, Outcome.map, OutSim]
            | ok q => simp only [acceptPostings, e, e', esum, g, g', em, Outcome.map, OutSim, true_and]; exact hr2

theorem acceptTags_sim (s s' : Settings) (tags : List String) (hr : LaxRel s s') :
    OutSimS (acceptTags s tags) (acceptTags s' tags) := by
  rcases (mapMS_sim (fun s t => s.getOrCreateTag t) tag_sim tags s s' hr).elim with
    ⟨e, e'⟩ | ⟨e, e'⟩ | ⟨bs, t, t', e, e', hr1⟩
  · simp [acceptTags, e, e', OutSimS]
  · simp [acceptTags, e, e', OutSimS]
  · by_cases hn : tags.Nodup
    · simp only [acceptTags, e, e', hn, if_true, OutSimS]; exact hr1
    · simp [acceptTags, e, e', hn, OutSimS]

theorem acceptHeader_sim (s s' : Settings) (h : Header) (hr : LaxRel s s') :
    OutSimS (acceptHeader s h) (acceptHeader s' h) := by
  cases hloc : h.location with
  | none =>
    cases ht : h.tags with
    | none =>
      by_cases ha : (s.audit && h.uuid.isNone) = true
      · simp [acceptHeader, hloc, ht, hr.audit, ha, OutSimS]
      · simp only [acceptHeader, hloc, ht, hr.audit, ha, Bool.false_eq_true, if_false, OutSimS]; exact hr
    | some ts =>
      rcases (acceptTags_sim s s' ts hr).elim with ⟨e, e'⟩ | ⟨e, e'⟩ | ⟨t, t', e, e', hr1⟩
      · simp [acceptHeader, hloc, ht, e, e', OutSimS]
      · simp [acceptHeader, hloc, ht, e, e', OutSimS]
      · by_cases ha : (s.audit && h.uuid.isNone) = true
        · simp [acceptHeader, hloc, ht, hr.audit, e, e', ha, OutSimS]
        · simp only [acceptHeader, hloc, ht, hr.audit, e, e', ha, Bool.false_eq_true, if_false, OutSimS]; exact hr1
  | some g =>
    cases hg : geoOk g with
    | false => simp [acceptHeader, hloc, hg, OutSimS]
    | true =>
      cases ht : h.tags with
      | none =>
        by_cases ha : (s.audit && h.uuid.isNone) = true
        · simp [acceptHeader, hloc, hg, ht, hr.audit, ha, OutSimS]
        · simp only [acceptHeader, hloc, hg, ht, hr.audit, ha, Bool.false_eq_true, if_false, OutSimS]; exact hr
      | some ts =>
        rcases (acceptTags_sim s s' ts hr).elim with ⟨e, e'⟩ | ⟨e, e'⟩ | ⟨t, t', e, e', hr1⟩
        · simp [acceptHeader, hloc, hg, ht, e, e', OutSimS]
        · simp [acceptHeader, hloc, hg, ht, e, e', OutSimS]
        · by_cases ha : (s.audit && h.uuid.isNone) = true
          · simp [acceptHeader, hloc, hg, ht, hr.audit, e, e', ha, OutSimS]
          · simp only [acceptHeader, hloc, hg, ht, hr.audit, e, e', ha, Bool.false_eq_true, if_false, OutSimS]; exact hr1

theorem acceptTxn_sim (s s' : Settings) (r : RawTxn) (hr : LaxRel s s') :
    OutSim (acceptTxn s r) (acceptTxn s' r) := by
  rcases (acceptHeader_sim s s' r.header hr).elim with ⟨e, e'⟩ | ⟨e, e'⟩ | ⟨t, t', e, e', hr1⟩
  · simp [acceptTxn, e, e', OutSim]
  · simp [acceptTxn, e, e', OutSim]
  · rcases (acceptPostings_sim t t' r.posts r.last hr1).elim with ⟨g, g'⟩ | ⟨g, g'⟩ | ⟨ps, t2, t2', g, g', hr2⟩
    · simp [acceptTxn, e, e', g, g', OutSim]
    · simp [acceptTxn, e, e', g, g', OutSim]
    · cases ps with
      | nil => simp [acceptTxn, e, e', g, g', OutSim]
      | cons p0 tl =>
        by_cases hany : (p0 :: tl).any (fun p => p.txnComm != p0.txnComm) = true
        · simp [acceptTxn, e, e', g, g', hany, OutSim]
        · cases esum : txnSum (p0 :: tl) with
          | none =>
            simp only [acceptTxn, e, e', g, g', hany, esum, Bool.false_eq_true, if_false]
            exact OutSim.inexact _
          | some sm =>
            by_cases hz : sm.isZero = true
            · simp only [acceptTxn, e, e', g, g', hany, esum, hz, if_true, Bool.false_eq_true, if_false, OutSim, true_and]
              exact hr2
            · simp [acceptTxn, e, e', g, g', hany, esum, hz, OutSim]

/-- **lax_chart_free (three-valued).** With strict mode off the outcome class (accepted / rejected / outside
    the modelled numeric domain) and the accepted transactions are the same for any two settings with the
    same `permit-empty-commodity` and audit switches, whatever their charts. -/
theorem lax_chart_free_outcome (st st' : Settings) (rs : List RawTxn)
    (hs : st.strict = false) (hl : st'.strict = false)
    (hpe : st'.permitEmpty = st.permitEmpty) (ha : st'.audit = st.audit) :
    (acceptJournal st rs).map Prod.fst = (acceptJournal st' rs).map Prod.fst :=
  (mapMS_sim acceptTxn acceptTxn_sim rs st st' ⟨hs, hl, hpe, ha⟩).map_fst

/-- **lax_chart_free** on configurations: with strict mode off the declared charts are irrelevant —
    same outcome class and same transactions as with empty charts. -/
theorem lax_chart_free_config (audit pe : Bool) (accts : List Path) (comms tags : List String) (rs : List RawTxn) :
    (acceptJournal (Settings.ofConfig false audit pe accts comms tags) rs).map Prod.fst =
      (acceptJournal (Settings.ofConfig false audit pe [] [] []) rs).map Prod.fst := by
  obtain ⟨h1, h2, h3, _⟩ := ofConfig_strict false audit pe accts comms tags
  obtain ⟨k1, k2, k3, _⟩ := ofConfig_strict false audit pe [] [] []
  exact lax_chart_free_outcome _ _ rs h1 k1 (k3.trans h3.symm) (k2.trans h2.symm)

/-! ## Non-vacuity and regression witnesses -/

def dI (n : Int) : Dec := Dec.ofInt n
def hdr0 : Header := ⟨⟨0, 0⟩, none, none, none, none, none, none⟩
def hdrT (tags : List String) : Header := ⟨⟨0, 0⟩, none, none, none, none, some tags, none⟩

/-- ` a:b:c:d 1 / e -1` -/
def jF9 : List RawTxn := [⟨hdr0, [⟨["a", "b", "c", "d"], dI 1, none, none⟩, ⟨["e"], dI (-1), none, none⟩], none⟩]

/-- F9 (fixed in the tree by fixes/F9-lax-chart-parents.diff): the lax-mode chart as `AccountTrees::from`
    used to leave it for `accounts = ["a:b:c", "e"]` — the listed accounts only, not ancestor-closed.
    The journal is accepted, but the balance kernel's lookup of the gap row `a:b` fails. -/
def unfixedF9 : Settings :=
  { strict := false, audit := false, permitEmpty := true, accounts := [["a", "b", "c"], ["e"]], synthetic := [],
    commodities := [], tags := [] }

example : ¬ AncClosed unfixedF9.accounts := by
  intro h
  have := h ["a", "b", "c"] (by simp [unfixedF9])
  simp [parentPath, unfixedF9] at this

example : (acceptJournal unfixedF9 jF9).bind (fun r => r.2.getTxnAccount ["a", "b"] "") = .err := by decide

/-- with the fixed `accountTreesFrom` the same configuration works, as it does with an empty chart -/
example : (acceptJournal (Settings.ofConfig false false true [["a", "b", "c"], ["e"]] [] []) jF9).bind
    (fun r => r.2.getTxnAccount ["a", "b"] "") = .ok (["a", "b"], "") := by decide
example : (acceptJournal (Settings.ofConfig false false true [] [] []) jF9).bind
    (fun r => r.2.getTxnAccount ["a", "b"] "") = .ok (["a", "b"], "") := by decide

/-- strict mode, chart `a:b:c`, `e`; commodities `EUR`; tags `t1` -/
def strictSt : Settings := Settings.ofConfig true false false [["a", "b", "c"], ["e"]] ["EUR"] ["t1"]

def eur : Option PostUnit := some ⟨"EUR", none, none⟩

/-- a journal that uses only declared names is accepted in strict mode … -/
example : (acceptJournal strictSt
    [⟨hdrT ["t1"], [⟨["a", "b", "c"], dI 1, eur, none⟩], some (["e"], none)⟩]).isOk = true := by decide
/-- … the undeclared parent `a:b` of the declared `a:b:c` cannot be posted to, but reports can look it up -/
example : (acceptJournal strictSt [⟨hdr0, [⟨["a", "b"], dI 1, eur, none⟩], some (["e"], none)⟩]) = .err := by decide
example : strictSt.getTxnAccount ["a", "b"] "EUR" = .ok (["a", "b"], "EUR") := by decide
/-- … an undeclared commodity that only occurs in a closing price is rejected -/
example : (acceptJournal strictSt
    [⟨hdr0, [⟨["a", "b", "c"], dI 1, some ⟨"EUR", none, some (.unitPrice ⟨dI 2, "USD"⟩)⟩, none⟩],
      some (["e"], none)⟩]) = .err := by decide
/-- … an undeclared tag is rejected, an undeclared posting to a sub-account of a declared leaf is rejected -/
example : (acceptJournal strictSt [⟨hdrT ["t2"], [⟨["a", "b", "c"], dI 1, eur, none⟩], some (["e"], none)⟩]) = .err := by
  decide
example : (acceptJournal strictSt [⟨hdr0, [⟨["a", "b", "c", "d"], dI 1, eur, none⟩], some (["e"], none)⟩]) = .err := by
  decide
/-- … while a commodity in an *opening* position `{..}` is parsed and ignored, hence not checked -/
example : (acceptJournal strictSt
    [⟨hdr0, [⟨["a", "b", "c"], dI 1, some ⟨"EUR", some ⟨dI 2, "USD"⟩, none⟩, none⟩], some (["e"], none)⟩]).isOk = true := by
  decide
/-- the empty commodity is governed by `permit-empty-commodity`, not by the chart, in both modes -/
example : (acceptJournal strictSt [⟨hdr0, [⟨["a", "b", "c"], dI 1, none, none⟩], some (["e"], none)⟩]) = .err := by decide
example : (acceptJournal (Settings.ofConfig false false false [] [] [])
    [⟨hdr0, [⟨["a", "b", "c"], dI 1, none, none⟩], some (["e"], none)⟩]) = .err := by decide
example : (acceptJournal (Settings.ofConfig true false true [["a", "b", "c"], ["e"]] ["EUR"] ["t1"])
    [⟨hdr0, [⟨["a", "b", "c"], dI 1, none, none⟩], some (["e"], none)⟩]).isOk = true := by decide

/-- settings construction: report commodity and price-file commodities are checked in strict mode -/
def cfg0 : ChartCfg :=
  { strict := true, audit := false, permitEmpty := false, accounts := [["a"], ["e"]], commodities := ["EUR", "USD"],
    tags := [], equityTarget := false, equityAccount := ["Equity", "Balance"], reportCommodity := some "EUR",
    priceDb := some [("USD", "EUR")] }

example : (settingsTryFrom cfg0).isOk = true := by decide
example : settingsTryFrom { cfg0 with reportCommodity := some "SEK" } = .err := by decide
example : settingsTryFrom { cfg0 with priceDb := some [("USD", "EUR"), ("SEK", "EUR")] } = .err := by decide
example : settingsTryFrom { cfg0 with equityTarget := true } = .err := by decide
example : (settingsTryFrom { cfg0 with equityTarget := true, equityAccount := ["e"] }).isOk = true := by decide
def cfg1 : ChartCfg := { cfg0 with strict := false, equityTarget := true, reportCommodity := some "SEK" }
example : (settingsTryFrom { cfg1 with priceDb := some [("NOK", "SEK")] }).isOk = true := by decide
example : DeclaredCfg cfg0 := by
  refine ⟨by simp [cfg0], ?_, ?_⟩
  · intro rc h _; simp [cfg0] at h; subst h; simp [cfg0]
  · intro es h e he; simp [cfg0] at h; subst h; simp at he; subst he; simp [cfg0]

end C12
end Tackler

import TacklerModel.Model.Charts
/-!
# C12 — strict mode accepts exactly the journals that use only declared names

(work in progress)
-/
namespace Tackler
namespace C12

/-! ### account chart: ancestors -/

/-- `q` has its parent in `other ∪ l`, or is a root -/
def Good (other l : List Path) (q : Path) : Prop :=
  q.length ≤ 1 ∨ parentPath q ∈ other ∨ parentPath q ∈ l

theorem Good.mono {other l l' : List Path} {q : Path} (h : Good other l q) (hs : ∀ x ∈ l, x ∈ l') :
    Good other l' q := by
  rcases h with h | h | h
  · exact .inl h
  · exact .inr (.inl h)
  · exact .inr (.inr (hs _ h))

theorem parentPath_length (p : Path) : (parentPath p).length = p.length - 1 := by
  simp [parentPath]

/-- what `build_account_tree` achieves -/
theorem build_spec (other : List Path) : ∀ (fuel : Nat) (target : List Path) (p : Path), p.length ≤ fuel →
    (∀ x ∈ target, x ∈ buildAccountTree other fuel target p) ∧
    Good other (buildAccountTree other fuel target p) p ∧
    (∀ q ∈ buildAccountTree other fuel target p, q ∉ target → Good other (buildAccountTree other fuel target p) q) := by
  intro fuel
  induction fuel with
  | zero =>
    intro target p hp
    simp only [buildAccountTree]
    exact ⟨fun _ h => h, .inl (by omega), fun q hq hn => absurd hq hn⟩
  | succ fuel ih =>
    intro target p hp
    simp only [buildAccountTree]
    split
    · rename_i h1
      exact ⟨fun _ h => h, .inl h1, fun q hq hn => absurd hq hn⟩
    · split
      · rename_i h2
        exact ⟨fun _ h => h, .inr h2, fun q hq hn => absurd hq hn⟩
      · rename_i h1 h2
        have hlen : (parentPath p).length ≤ fuel := by rw [parentPath_length]; omega
        obtain ⟨hsub, hgood, hnew⟩ := ih (target ++ [parentPath p]) (parentPath p) hlen
        refine ⟨fun x hx => hsub x (by simp [hx]), ?_, ?_⟩
        · exact .inr (.inr (hsub _ (by simp)))
        · intro q hq hn
          by_cases hqt : q ∈ target ++ [parentPath p]
          · have : q = parentPath p := by
              rcases List.mem_append.mp hqt with h | h
              · exact absurd h hn
              · simpa using h
            subst this
            exact hgood
          · exact hnew q hq hqt

theorem buildParents_spec (other target : List Path) (p : Path) :
    (∀ x ∈ target, x ∈ buildParents other target p) ∧
    Good other (buildParents other target p) p ∧
    (∀ q ∈ buildParents other target p, q ∉ target → Good other (buildParents other target p) q) :=
  build_spec other p.length target p (Nat.le_refl _)

/-- the fold of `build_account_tree` over a list of accounts (`AccountTrees::from`) -/
theorem fold_spec (other : List Path) : ∀ (l acc : List Path),
    (∀ x ∈ acc, x ∈ l.foldl (fun t p => buildParents other t p) acc) ∧
    (∀ q ∈ l, Good other (l.foldl (fun t p => buildParents other t p) acc) q) ∧
    (∀ q ∈ l.foldl (fun t p => buildParents other t p) acc, q ∉ acc →
        Good other (l.foldl (fun t p => buildParents other t p) acc) q) := by
  intro l
  induction l with
  | nil =>
    intro acc
    refine ⟨fun _ h => h, ?_, fun q hq hn => absurd hq hn⟩
    intro q hq
    cases hq
  | cons p t ih =>
    intro acc
    simp only [List.foldl_cons]
    obtain ⟨hsub, hgood, hnew⟩ := buildParents_spec other acc p
    obtain ⟨isub, igood, inew⟩ := ih (buildParents other acc p)
    refine ⟨fun x hx => isub x (hsub x hx), ?_, ?_⟩
    · intro q hq
      rcases List.mem_cons.mp hq with rfl | hq
      · exact hgood.mono isub
      · exact igood q hq
    · intro q hq hn
      by_cases hqb : q ∈ buildParents other acc p
      · exact (hnew q hqb hn).mono isub
      · exact inew q hq hqb

theorem mem_foldl_insertNew {α} [DecidableEq α] (l : List α) : ∀ (acc : List α) (a : α),
    a ∈ l.foldl insertNew acc ↔ a ∈ acc ∨ a ∈ l := by
  induction l with
  | nil => intro acc a; simp
  | cons x t ih =>
    intro acc a
    simp only [List.foldl_cons, ih, insertNew]
    split
    · rename_i hx
      constructor
      · rintro (h | h)
        · exact .inl h
        · exact .inr (List.mem_cons_of_mem _ h)
      · rintro (h | h)
        · exact .inl h
        · rcases List.mem_cons.mp h with rfl | h
          · exact .inl hx
          · exact .inr h
    · simp only [List.mem_append, List.mem_cons, List.not_mem_nil, or_false]
      constructor
      · rintro ((h | h) | h)
        · exact .inl h
        · exact .inr (.inl h)
        · exact .inr (.inr h)
      · rintro (h | h | h)
        · exact .inl (.inl h)
        · exact .inl (.inr h)
        · exact .inr h

/-- a chart in which every non-root account has its parent -/
def AncClosed (l : List Path) : Prop := ∀ p ∈ l, p.length ≤ 1 ∨ parentPath p ∈ l

/-- declared accounts plus synthetic parents are closed (strict mode) -/
def AncClosed2 (l syn : List Path) : Prop := ∀ p, p ∈ l ∨ p ∈ syn → p.length ≤ 1 ∨ parentPath p ∈ l ∨ parentPath p ∈ syn

theorem accountTreesFrom_lax_closed (names : List Path) : AncClosed (accountTreesFrom names false).1 := by
  simp only [accountTreesFrom, Bool.false_eq_true, if_false]
  obtain ⟨hsub, hgood, hnew⟩ := fold_spec [] (names.foldl insertNew []) (names.foldl insertNew [])
  intro p hp
  by_cases hd : p ∈ names.foldl insertNew []
  · rcases hgood p hd with h | h | h
    · exact .inl h
    · cases h
    · exact .inr h
  · rcases hnew p hp hd with h | h | h
    · exact .inl h
    · cases h
    · exact .inr h

theorem accountTreesFrom_lax_mem (names : List Path) (p : Path) (h : p ∈ names) : p ∈ (accountTreesFrom names false).1 := by
  simp only [accountTreesFrom, Bool.false_eq_true, if_false]
  exact (fold_spec [] _ _).1 p ((mem_foldl_insertNew names [] p).mpr (.inr h))

theorem accountTreesFrom_strict_fst (names : List Path) (p : Path) :
    p ∈ (accountTreesFrom names true).1 ↔ p ∈ names := by
  simp [accountTreesFrom, mem_foldl_insertNew]

theorem accountTreesFrom_strict_closed (names : List Path) :
    AncClosed2 (accountTreesFrom names true).1 (accountTreesFrom names true).2 := by
  simp only [accountTreesFrom, if_true]
  obtain ⟨_, hgood, hnew⟩ := fold_spec (names.foldl insertNew []) (names.foldl insertNew []) []
  intro p hp
  rcases hp with hp | hp
  · exact hgood p hp
  · exact hnew p hp (by simp)

/-- in a closed chart every non-empty prefix (ancestor) of a member is a member -/
theorem closed_prefix (mem : Path → Prop) (hcl : ∀ p, mem p → p.length ≤ 1 ∨ mem (parentPath p)) :
    ∀ (n : Nat) (p q : Path), p.length = n → mem p → q ≠ [] → q <+: p → mem q := by
  intro n
  induction n with
  | zero =>
    intro p q hn _ hq hpre
    have : p = [] := List.length_eq_zero_iff.mp hn
    subst this
    exact absurd (List.prefix_nil.mp hpre) hq
  | succ n ih =>
    intro p q hn hp hq hpre
    by_cases heq : q = p
    · subst heq; exact hp
    · have hlt : q.length < p.length := by
        rcases Nat.lt_or_ge q.length p.length with h | h
        · exact h
        · exact absurd (hpre.eq_of_length_le h) heq
      have hqpos : 0 < q.length := List.length_pos_iff.mpr hq
      rcases hcl p hp with h1 | h1
      · omega
      · refine ih (parentPath p) q (by rw [parentPath_length]; omega) h1 hq ?_
        rw [List.prefix_iff_eq_take] at hpre ⊢
        rw [parentPath, List.dropLast_eq_take, List.take_take]
        have : min q.length (p.length - 1) = q.length := by omega
        rw [this]
        exact hpre

/-! ### what can change in the settings while a journal is read -/

/-- the three switches; no load-path function changes them -/
def Flags (s : Settings) : Bool × Bool × Bool := (s.strict, s.audit, s.permitEmpty)

/-- the charts are unchanged, except that the empty commodity may have been registered
    (`permit-empty-commodity`); this is all that happens in strict mode -/
structure Frozen (s t : Settings) : Prop where
  flags : Flags t = Flags s
  accounts : t.accounts = s.accounts
  synthetic : t.synthetic = s.synthetic
  tags : t.tags = s.tags
  comms : ∀ n, n ≠ "" → (n ∈ t.commodities ↔ n ∈ s.commodities)
  commsMono : ∀ n, n ∈ s.commodities → n ∈ t.commodities

theorem Frozen.refl (s : Settings) : Frozen s s :=
  ⟨rfl, rfl, rfl, rfl, fun _ _ => Iff.rfl, fun _ h => h⟩

theorem Frozen.trans {s t u : Settings} (h1 : Frozen s t) (h2 : Frozen t u) : Frozen s u :=
  ⟨h2.flags.trans h1.flags, h2.accounts.trans h1.accounts, h2.synthetic.trans h1.synthetic,
   h2.tags.trans h1.tags, fun n hn => (h2.comms n hn).trans (h1.comms n hn),
   fun n hn => h2.commsMono n (h1.commsMono n hn)⟩

theorem Frozen.strict {s t : Settings} (h : Frozen s t) : t.strict = s.strict := by
  have := h.flags; simp only [Flags, Prod.mk.injEq] at this; exact this.1

/-- `s'` is a lax-mode settings value with the same permit-empty and audit switches as `s`
    (its charts are arbitrary) -/
structure Rel (s s' : Settings) : Prop where
  lax : s'.strict = false
  pe : s'.permitEmpty = s.permitEmpty
  audit : s'.audit = s.audit

theorem Rel.step {s s' t t' : Settings} (h : Rel s s') (h1 : Flags t = Flags s) (h2 : Flags t' = Flags s') :
    Rel t t' := by
  simp only [Flags, Prod.mk.injEq] at h1 h2
  exact ⟨h2.1.trans h.lax, h2.2.2.trans (h.pe.trans h1.2.2.symm), h2.2.1.trans (h.audit.trans h1.2.1.symm)⟩

/-- Specification of a state-threaded load-path function `f` relative to a predicate `P s a`
    ("every name that `a` uses is declared in the charts of `s`"):
    * the switches never change; in strict mode the charts never change;
    * `f` succeeds from `s` with value `b` iff (`s` strict → `P s a`) and `f` succeeds with the same value
      from any lax settings with the same switches. -/
structure StepSpec {α β : Type} (f : Settings → α → Outcome (β × Settings)) (P : Settings → α → Prop) : Prop where
  flags : ∀ s a b s2, f s a = .ok (b, s2) → Flags s2 = Flags s
  frozen : ∀ s a b s2, s.strict = true → f s a = .ok (b, s2) → Frozen s s2
  iff : ∀ s s' a b, Rel s s' →
    ((∃ s2, f s a = .ok (b, s2)) ↔ (s.strict = true → P s a) ∧ ∃ s2', f s' a = .ok (b, s2'))
  stable : ∀ s t a, Frozen s t → (P t a ↔ P s a)

theorem mem_insertNew {α} [DecidableEq α] (l : List α) (x a : α) : a ∈ insertNew l x ↔ a ∈ l ∨ a = x := by
  unfold insertNew
  split
  · rename_i h
    constructor
    · exact fun h' => .inl h'
    · rintro (h' | rfl)
      · exact h'
      · exact h
  · simp

/-- the commodity is the empty one or is in the chart -/
def PComm (s : Settings) (n : String) : Prop := n = "" ∨ n ∈ s.commodities

theorem PComm.stable {s t : Settings} (n : String) (h : Frozen s t) : PComm t n ↔ PComm s n := by
  unfold PComm
  by_cases hn : n = ""
  · simp [hn]
  · simp [hn, h.comms n hn]

theorem goc_spec : StepSpec (fun s n => s.getOrCreateCommodity (some n)) PComm where
  flags := by
    intro s n b s2 h
    simp only [Settings.getOrCreateCommodity] at h
    (repeat' split at h) <;> first | (cases h; done) | (cases h; rfl)
  frozen := by
    intro s n b s2 hs h
    simp only [Settings.getOrCreateCommodity] at h
    split at h
    · split at h
      · cases h
        refine ⟨rfl, rfl, rfl, rfl, ?_, ?_⟩
        · intro m hm; simp [mem_insertNew, hm]
        · intro m hm; simp [mem_insertNew, hm]
      · cases h
    · split at h
      · cases h; exact Frozen.refl _
      · simp at h
  iff := by
    intro s s' n b hr
    simp only [Settings.getOrCreateCommodity, hr.lax, hr.pe, PComm]
    by_cases hn : n = ""
    · subst hn
      by_cases hpe : s.permitEmpty = true <;> simp [hpe]
    · by_cases hm : n ∈ s.commodities <;> by_cases hm' : n ∈ s'.commodities <;>
        by_cases hst : s.strict = true <;> simp [hn, hm, hm', hst]
  stable := fun s t n h => PComm.stable n h

def PTag (s : Settings) (n : String) : Prop := n ∈ s.tags

theorem tag_spec : StepSpec (fun s n => s.getOrCreateTag n) PTag where
  flags := by
    intro s n b s2 h
    simp only [Settings.getOrCreateTag] at h
    (repeat' split at h) <;> first | (cases h; done) | (cases h; rfl)
  frozen := by
    intro s n b s2 hs h
    simp only [Settings.getOrCreateTag] at h
    (repeat' split at h) <;> first | (cases h; done) | (cases h; exact Frozen.refl _) | (simp_all; done)
  iff := by
    intro s s' n b hr
    simp only [Settings.getOrCreateTag, hr.lax, PTag]
    by_cases hn : n = ""
    · simp [hn]
    · by_cases hm : n ∈ s.tags <;> by_cases hm' : n ∈ s'.tags <;>
        by_cases hst : s.strict = true <;> simp [hn, hm, hm', hst]
  stable := by
    intro s t n h
    simp [PTag, h.tags]

/-- the account is in the chart and the commodity is the empty one or in the chart -/
def PAcct (s : Settings) (a : Path × String) : Prop := a.1 ∈ s.accounts ∧ PComm s a.2

theorem goc_other (s : Settings) (x : Option String) (c : String) (s1 : Settings)
    (h : s.getOrCreateCommodity x = .ok (c, s1)) :
    s1.accounts = s.accounts ∧ s1.synthetic = s.synthetic ∧ s1.tags = s.tags ∧ Flags s1 = Flags s ∧
    (∀ n, n ∈ s.commodities → n ∈ s1.commodities) ∧ (∀ n, x = some n → c = n ∧ n ∈ s1.commodities) := by
  simp only [Settings.getOrCreateCommodity] at h
  (repeat' split at h) <;> first | (cases h; done) | (cases h; simp_all [Flags, mem_insertNew])

theorem gocta_ok (s : Settings) (p : Path) (c : String) (b : Path) :
    (∃ s2, s.getOrCreateTxnAccount p c = .ok (b, s2)) ↔
      b = p ∧ (∃ r, s.getOrCreateCommodity (some c) = .ok r) ∧ (s.strict = true → p ∈ s.accounts) := by
  unfold Settings.getOrCreateTxnAccount
  split
  · simp_all
  · simp_all
  · rename_i c' s1 hc
    obtain ⟨hacc, _, _, hfl, _⟩ := goc_other _ _ _ _ hc
    have hst : s1.strict = s.strict := by simp only [Flags, Prod.mk.injEq] at hfl; exact hfl.1
    rw [hacc, hst]
    constructor
    · rintro ⟨s2, h⟩
      by_cases hm : p ∈ s.accounts <;> by_cases hs : s.strict = true <;> simp [hm, hs] at h
      all_goals exact ⟨h.1.symm, ⟨_, hc⟩, by simp [hm, hs]⟩
    · rintro ⟨rfl, _, hp⟩
      by_cases hm : b ∈ s.accounts <;> by_cases hs : s.strict = true <;> simp [hm, hs]
      exact hm (hp hs)

theorem goc_ok_exists (s s' : Settings) (hr : Rel s s') (c : String) :
    (∃ r, s.getOrCreateCommodity (some c) = .ok r) ↔
      (s.strict = true → PComm s c) ∧ ∃ r, s'.getOrCreateCommodity (some c) = .ok r := by
  constructor
  · rintro ⟨⟨b, s2⟩, h⟩
    obtain ⟨h1, s2', h2⟩ := (goc_spec.iff s s' c b hr).mp ⟨s2, h⟩
    exact ⟨h1, _, h2⟩
  · rintro ⟨h1, ⟨b, s2'⟩, h2⟩
    obtain ⟨s2, h⟩ := (goc_spec.iff s s' c b hr).mpr ⟨h1, s2', h2⟩
    exact ⟨_, h⟩

/-- what `get_or_create_txn_account` does to the settings -/
theorem gocta_state (s : Settings) (p : Path) (c : String) (b : Path) (s2 : Settings)
    (h : s.getOrCreateTxnAccount p c = .ok (b, s2)) :
    ∃ c' s1, s.getOrCreateCommodity (some c) = .ok (c', s1) ∧
      ((s.strict = true ∧ s2 = s1) ∨
       (s.strict = false ∧ Flags s2 = Flags s1 ∧ s2.synthetic = s1.synthetic ∧ s2.tags = s1.tags ∧
          s2.commodities = s1.commodities ∧
          (s2.accounts = buildParents [] s1.accounts p ∨ s2.accounts = buildParents [] (s1.accounts ++ [p]) p) ∧
          (p ∈ s1.accounts → s2.accounts = buildParents [] s1.accounts p))) := by
  unfold Settings.getOrCreateTxnAccount at h
  split at h
  · cases h
  · cases h
  · rename_i c' s1 hc
    refine ⟨c', s1, hc, ?_⟩
    obtain ⟨_, _, _, hfl, _⟩ := goc_other _ _ _ _ hc
    have hst : s1.strict = s.strict := by simp only [Flags, Prod.mk.injEq] at hfl; exact hfl.1
    rw [hst] at h
    by_cases hm : p ∈ s1.accounts <;> by_cases hs : s.strict = true <;> simp [hm, hs] at h
    · exact .inl ⟨hs, h.2.symm⟩
    · refine .inr ⟨by simpa using hs, ?_⟩
      obtain ⟨_, rfl⟩ := h
      simp [Flags, hm, hst, hs]
    · refine .inr ⟨by simpa using hs, ?_⟩
      obtain ⟨_, rfl⟩ := h
      simp [Flags, hm, hst, hs]

theorem acct_spec : StepSpec (fun s (a : Path × String) => s.getOrCreateTxnAccount a.1 a.2) PAcct where
  flags := by
    intro s a b s2 h
    obtain ⟨c', s1, hc, hcase⟩ := gocta_state _ _ _ _ _ h
    obtain ⟨_, _, _, hfl, _⟩ := goc_other _ _ _ _ hc
    rcases hcase with ⟨_, rfl⟩ | ⟨_, hf, _⟩
    · exact hfl
    · exact hf.trans hfl
  frozen := by
    intro s a b s2 hs h
    obtain ⟨c', s1, hc, hcase⟩ := gocta_state _ _ _ _ _ h
    rcases hcase with ⟨_, rfl⟩ | ⟨hl, _⟩
    · exact goc_spec.frozen s a.2 c' _ hs hc
    · simp [hs] at hl
  iff := by
    intro s s' a b hr
    rw [gocta_ok, gocta_ok, goc_ok_exists s s' hr]
    simp only [hr.lax, Bool.false_eq_true, false_imp_iff, and_true, PAcct]
    constructor
    · rintro ⟨hb, ⟨hc, hex⟩, hp⟩
      exact ⟨fun hs => ⟨hp hs, hc hs⟩, hb, hex⟩
    · rintro ⟨hp, hb, hex⟩
      exact ⟨hb, ⟨fun hs => (hp hs).2, hex⟩, fun hs => (hp hs).1⟩
  stable := by
    intro s t a h
    simp [PAcct, h.accounts, PComm.stable a.2 h]

/-! ### lifting a step specification through `mapMS` -/

theorem mapMS_cons_ok {σ α β} (f : σ → α → Outcome (β × σ)) (s s2 : σ) (a : α) (t : List α) (bs : List β) :
    mapMS f s (a :: t) = .ok (bs, s2) ↔
      ∃ b s1 bs', f s a = .ok (b, s1) ∧ mapMS f s1 t = .ok (bs', s2) ∧ bs = b :: bs' := by
  simp only [mapMS]
  cases hfa : f s a with
  | err => simp
  | undef => simp
  | ok r =>
    obtain ⟨b, s1⟩ := r
    simp only [Outcome.ok.injEq, Prod.mk.injEq]
    cases hm : mapMS f s1 t with
    | err =>
      simp only [reduceCtorEq, false_iff, not_exists, not_and]
      rintro b' s1' bs' ⟨rfl, rfl⟩ h2
      rw [hm] at h2; cases h2
    | undef =>
      simp only [reduceCtorEq, false_iff, not_exists, not_and]
      rintro b' s1' bs' ⟨rfl, rfl⟩ h2
      rw [hm] at h2; cases h2
    | ok r2 =>
      obtain ⟨bs2, s3⟩ := r2
      simp only [Outcome.ok.injEq, Prod.mk.injEq]
      constructor
      · rintro ⟨rfl, rfl⟩
        exact ⟨b, s1, bs2, ⟨rfl, rfl⟩, hm, rfl⟩
      · rintro ⟨b', s1', bs', ⟨rfl, rfl⟩, h2, rfl⟩
        rw [hm] at h2
        simp only [Outcome.ok.injEq, Prod.mk.injEq] at h2
        exact ⟨by rw [h2.1], h2.2⟩

theorem StepSpec.mapMS {α β : Type} {f : Settings → α → Outcome (β × Settings)} {P : Settings → α → Prop}
    (hf : StepSpec f P) : StepSpec (fun s l => mapMS f s l) (fun s l => ∀ a ∈ l, P s a) where
  flags := by
    intro s l
    induction l generalizing s with
    | nil => intro b s2 h; simp only [Tackler.mapMS] at h; cases h; rfl
    | cons a t ih =>
      intro bs s2 h
      obtain ⟨b, s1, bs', h1, h2, _⟩ := (mapMS_cons_ok f s s2 a t bs).mp h
      exact (ih s1 bs' s2 h2).trans (hf.flags s a b s1 h1)
  frozen := by
    intro s l
    induction l generalizing s with
    | nil => intro b s2 _ h; simp only [Tackler.mapMS] at h; cases h; exact Frozen.refl _
    | cons a t ih =>
      intro bs s2 hs h
      obtain ⟨b, s1, bs', h1, h2, _⟩ := (mapMS_cons_ok f s s2 a t bs).mp h
      have hfr := hf.frozen s a b s1 hs h1
      exact hfr.trans (ih s1 bs' s2 (hfr.strict.trans hs) h2)
  iff := by
    intro s s' l
    induction l generalizing s s' with
    | nil =>
      intro bs _
      simp only [Tackler.mapMS, List.not_mem_nil, false_imp_iff, implies_true, true_and]
      constructor
      · rintro ⟨s2, h⟩; cases h; exact ⟨_, rfl⟩
      · rintro ⟨s2, h⟩; cases h; exact ⟨_, rfl⟩
    | cons a t ih =>
      intro bs hr
      simp only [mapMS_cons_ok]
      constructor
      · rintro ⟨s2, b, s1, bs', h1, h2, rfl⟩
        obtain ⟨hp, s1', h1'⟩ := (hf.iff s s' a b hr).mp ⟨s1, h1⟩
        have hr1 : Rel s1 s1' := hr.step (hf.flags _ _ _ _ h1) (hf.flags _ _ _ _ h1')
        obtain ⟨hpt, s2', h2'⟩ := (ih s1 s1' bs' hr1).mp ⟨s2, h2⟩
        refine ⟨?_, s2', b, s1', bs', h1', h2', rfl⟩
        intro hs x hx
        rcases List.mem_cons.mp hx with rfl | hx
        · exact hp hs
        · have hfr := hf.frozen s a b s1 hs h1
          exact (hf.stable s s1 x hfr).mp (hpt (hfr.strict.trans hs) x hx)
      · rintro ⟨hp, s2', b, s1', bs', h1', h2', rfl⟩
        obtain ⟨s1, h1⟩ := (hf.iff s s' a b hr).mpr ⟨fun hs => hp hs a List.mem_cons_self, s1', h1'⟩
        have hr1 : Rel s1 s1' := hr.step (hf.flags _ _ _ _ h1) (hf.flags _ _ _ _ h1')
        obtain ⟨s2, h2⟩ := (ih s1 s1' bs' hr1).mpr ⟨fun hs1 x hx => by
          have hs : s.strict = true := by
            have := hf.flags _ _ _ _ h1
            simp only [Flags, Prod.mk.injEq] at this
            exact this.1.symm.trans hs1
          have hfr := hf.frozen s a b s1 hs h1
          exact (hf.stable s s1 x hfr).mpr (hp hs x (List.mem_cons_of_mem _ hx)), s2', h2'⟩
        exact ⟨s2, b, s1, bs', h1, h2, rfl⟩
  stable := by
    intro s t l h
    constructor
    · intro hp a ha; exact (hf.stable s t a h).mp (hp a ha)
    · intro hp a ha; exact (hf.stable s t a h).mpr (hp a ha)

/-- the same for functions that only return the new settings -/
structure StepSpecS {α : Type} (f : Settings → α → Outcome Settings) (P : Settings → α → Prop) : Prop where
  flags : ∀ s a s2, f s a = .ok s2 → Flags s2 = Flags s
  frozen : ∀ s a s2, s.strict = true → f s a = .ok s2 → Frozen s s2
  iff : ∀ s s' a, Rel s s' →
    ((∃ s2, f s a = .ok s2) ↔ (s.strict = true → P s a) ∧ ∃ s2', f s' a = .ok s2')
  stable : ∀ s t a, Frozen s t → (P t a ↔ P s a)

theorem strict_of_flags {s t : Settings} (h : Flags t = Flags s) : t.strict = s.strict := by
  simp only [Flags, Prod.mk.injEq] at h; exact h.1

/-! ### commodities of one posting value (`handle_posting_value`) -/

/-- the commodities `handle_posting_value` registers: the posting's own and the closing position's
    (the opening position `{..}` is parsed and ignored) -/
def unitComms : Option PostUnit → List String
  | none => []
  | some u =>
    match u.closing with
    | none => [u.comm]
    | some (.total v) => [u.comm, v.comm]
    | some (.unitPrice v) => [u.comm, v.comm]

def PUnitComms (s : Settings) (u : Option PostUnit) : Prop := ∀ c ∈ unitComms u, PComm s c

theorem registerUnit_inv (s : Settings) (u : Option PostUnit) (s2 : Settings) (h : registerUnit s u = .ok s2) :
    (u = none ∧ s2 = s) ∨
    (∃ pu c1, u = some pu ∧ pu.closing = none ∧ s.getOrCreateCommodity (some pu.comm) = .ok (c1, s2)) ∨
    (∃ pu v c1 s1 c2, u = some pu ∧ (pu.closing = some (.total v) ∨ pu.closing = some (.unitPrice v)) ∧
      s.getOrCreateCommodity (some pu.comm) = .ok (c1, s1) ∧ s1.getOrCreateCommodity (some v.comm) = .ok (c2, s2)) := by
  unfold registerUnit at h
  split at h
  · cases h; exact .inl ⟨rfl, rfl⟩
  · rename_i pu
    split at h
    · cases h
    · cases h
    · rename_i c1 s1 h1
      split at h
      · rename_i hcl
        cases h
        exact .inr (.inl ⟨pu, c1, rfl, hcl, h1⟩)
      · rename_i v hcl
        obtain ⟨⟨c2, s2'⟩, h2, rfl⟩ := (Outcome.map_ok _ _ _).mp h
        exact .inr (.inr ⟨pu, v, c1, s1, c2, rfl, .inl hcl, h1, h2⟩)
      · rename_i v hcl
        obtain ⟨⟨c2, s2'⟩, h2, rfl⟩ := (Outcome.map_ok _ _ _).mp h
        exact .inr (.inr ⟨pu, v, c1, s1, c2, rfl, .inr hcl, h1, h2⟩)

theorem registerUnit_spec : StepSpecS registerUnit PUnitComms where
  flags := by
    intro s u s2 h
    rcases registerUnit_inv s u s2 h with ⟨_, rfl⟩ | ⟨pu, c1, _, _, h1⟩ | ⟨pu, v, c1, s1, c2, _, _, h1, h2⟩
    · rfl
    · exact goc_spec.flags _ _ _ _ h1
    · exact (goc_spec.flags _ _ _ _ h2).trans (goc_spec.flags _ _ _ _ h1)
  frozen := by
    intro s u s2 hs h
    rcases registerUnit_inv s u s2 h with ⟨_, rfl⟩ | ⟨pu, c1, _, _, h1⟩ | ⟨pu, v, c1, s1, c2, _, _, h1, h2⟩
    · exact Frozen.refl _
    · exact goc_spec.frozen _ _ _ _ hs h1
    · have hfr := goc_spec.frozen _ _ _ _ hs h1
      exact hfr.trans (goc_spec.frozen _ _ _ _ (hfr.strict.trans hs) h2)
  iff := by
    intro s s' u hr
    constructor
    · rintro ⟨s2, h⟩
      rcases registerUnit_inv s u s2 h with ⟨rfl, rfl⟩ | ⟨pu, c1, rfl, hcl, h1⟩ | ⟨pu, v, c1, s1, c2, rfl, hcl, h1, h2⟩
      · exact ⟨fun _ c hc => by simp [unitComms] at hc, s', by simp [registerUnit]⟩
      · obtain ⟨hp, s2', h1'⟩ := (goc_spec.iff s s' pu.comm c1 hr).mp ⟨s2, h1⟩
        refine ⟨fun hs c hc => ?_, s2', by simp [registerUnit, h1', hcl]⟩
        simp only [unitComms, hcl, List.mem_singleton] at hc
        subst hc; exact hp hs
      · obtain ⟨hp, s1', h1'⟩ := (goc_spec.iff s s' pu.comm c1 hr).mp ⟨s1, h1⟩
        have hr1 : Rel s1 s1' := hr.step (goc_spec.flags _ _ _ _ h1) (goc_spec.flags _ _ _ _ h1')
        obtain ⟨hp2, s2', h2'⟩ := (goc_spec.iff s1 s1' v.comm c2 hr1).mp ⟨s2, h2⟩
        refine ⟨fun hs c hc => ?_, s2', ?_⟩
        · have hfr := goc_spec.frozen _ _ _ _ hs h1
          have hc' : c = pu.comm ∨ c = v.comm := by
            rcases hcl with hcl | hcl <;> simpa [unitComms, hcl] using hc
          rcases hc' with rfl | rfl
          · exact hp hs
          · exact (PComm.stable _ hfr).mp (hp2 (hfr.strict.trans hs))
        · rcases hcl with hcl | hcl <;> simp [registerUnit, h1', hcl, h2', Outcome.map]
    · rintro ⟨hp, s2', h'⟩
      rcases registerUnit_inv s' u s2' h' with ⟨rfl, rfl⟩ | ⟨pu, c1, rfl, hcl, h1'⟩ | ⟨pu, v, c1, s1', c2, rfl, hcl, h1', h2'⟩
      · exact ⟨s, by simp [registerUnit]⟩
      · obtain ⟨s2, h1⟩ := (goc_spec.iff s s' pu.comm c1 hr).mpr
          ⟨fun hs => hp hs _ (by simp [unitComms, hcl]), s2', h1'⟩
        exact ⟨s2, by simp [registerUnit, h1, hcl]⟩
      · obtain ⟨s1, h1⟩ := (goc_spec.iff s s' pu.comm c1 hr).mpr
          ⟨fun hs => hp hs _ (by rcases hcl with hcl | hcl <;> simp [unitComms, hcl]), s1', h1'⟩
        have hr1 : Rel s1 s1' := hr.step (goc_spec.flags _ _ _ _ h1) (goc_spec.flags _ _ _ _ h1')
        obtain ⟨s2, h2⟩ := (goc_spec.iff s1 s1' v.comm c2 hr1).mpr ⟨fun hs1 => by
          have hs : s.strict = true := (strict_of_flags (goc_spec.flags _ _ _ _ h1)).symm.trans hs1
          have hfr := goc_spec.frozen _ _ _ _ hs h1
          exact (PComm.stable _ hfr).mpr (hp hs _ (by rcases hcl with hcl | hcl <;> simp [unitComms, hcl])), s2', h2'⟩
        exact ⟨s2, by rcases hcl with hcl | hcl <;> simp [registerUnit, h1, hcl, h2, Outcome.map]⟩
  stable := by
    intro s t u h
    constructor
    · intro hp c hc; exact (PComm.stable c h).mp (hp c hc)
    · intro hp c hc; exact (PComm.stable c h).mpr (hp c hc)

end C12
end Tackler

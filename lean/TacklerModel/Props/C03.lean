import TacklerModel.Lemmas.Register
import TacklerModel.Lemmas.Order
import TacklerModel.Props.C01
/-!
# C03 — register report: canonical order and exact running totals

Property theorems over `Model/Register.lean` (the transliteration of `register_engine`) and the load-time
sort of `Model/Order.lean` (`TxnData::from`, `impl Ord for TxnHeader`).

* value layer = `Dec.units` (integer number of 10⁻²⁸ units);
* exact domain = the engine returned `.ok` (a running total that is not exactly representable makes it
  `.undef`, DESIGN.md F17);
* `TxnsWF` / `StreamWF` = the representation invariant `scale ≤ 28` of every `Decimal` amount;
* the engine is generic in the stream of (possibly price-converted) items; the theorems come in a stream
  form (`…_stream`, for C07 to instantiate) and in the plain form for the report without conversion
  (`register`), which is what the property talks about.

Specifications are one-liners: `postSum k ps` = Σ of the amounts of the postings in `ps` whose
(commodity, account) is `k`; `ownSpec txns k` = the same over the whole posting stream `postsOf txns`
(the balance report's account sum, C02 `own_sum`); `sortedPosts t` = the postings of `t` stably sorted by
(commodity, account name) – the order in which an entry lists them.
-/
namespace Tackler
namespace C03
open Reg

/-! ### definitions -/

def StreamWF (stream : List (Txn × List RItem)) : Prop := ∀ x ∈ stream, ∀ it ∈ x.2, it.amount.scale ≤ 28

def TxnsWF (txns : List Txn) : Prop := ∀ t ∈ txns, ∀ p ∈ t.posts, p.amount.scale ≤ 28

/-- all items of a stream, in transaction order -/
def itemsOf (stream : List (Txn × List RItem)) : List RItem := stream.flatMap (·.2)

/-- an entry with the rows a selector rejects removed -/
def hide (sel : RegRow → Bool) (e : RegEntry) : RegEntry := ⟨e.txn, e.rows.filter sel⟩

/-- `Ord for TxnAccount` on the posting's own account key -/
def postLe (a b : Posting) : Bool := keyLe a.acctnKey b.acctnKey

/-- the postings of a transaction in the order an entry lists them -/
def sortedPosts (t : Txn) : List Posting := t.posts.mergeSort postLe

/-- Σ of the amounts of the postings to (commodity, account) `k` -/
def postSum (k : AKey) (ps : List Posting) : Int :=
  ((ps.filter (fun p => decide (p.acctnKey = k))).map (fun p => p.amount.units)).sum

/-- the balance report's account sum of `k`: Σ over the whole posting stream -/
def ownSpec (txns : List Txn) (k : AKey) : Int :=
  (((postsOf txns).filter (fun p => decide (p.key = k))).map (fun p => p.amount.units)).sum

/-- the last row shown for (commodity, account) `k` -/
def lastRow (k : AKey) (R : List RegRow) : Option RegRow := (R.filter (fun r => decide (r.key = k))).getLast?

/-! ### load order -/

/-- **load_sorted**: the load-time sort yields the canonical order (`hdrLe`: instant, code, description,
    uuid, lexicographically – `hdrLe_eq_lex`) and keeps exactly the given transactions -/
theorem load_sorted (ts : List Txn) :
    (sortTxns ts).Pairwise (fun a b => txnLe a b = true) ∧ (sortTxns ts).Perm ts :=
  ⟨sortTxns_sorted ts, sortTxns_perm ts⟩

/-- what the canonical order says in plain terms: by instant, then code (absent = ""), then description, then
    uuid text; (headers equal in all four are ordered absent-before-empty, `hdrLe_antisymm`) -/
theorem canonical_order (a b : Txn) (h : txnLe a b = true) :
    a.header.ts.ns ≤ b.header.ts.ns ∧
    (a.header.ts.ns = b.header.ts.ns → optStr a.header.code ≤ optStr b.header.code ∧
      (optStr a.header.code = optStr b.header.code → optStr a.header.desc ≤ optStr b.header.desc ∧
        (optStr a.header.desc = optStr b.header.desc → optStr a.header.uuid ≤ optStr b.header.uuid))) := by
  unfold txnLe hdrLe hdrKey at h
  simp only at h
  by_cases n1 : a.header.ts.ns < b.header.ts.ns
  · exact ⟨by omega, fun e => by omega⟩
  · by_cases n2 : b.header.ts.ns < a.header.ts.ns
    · simp [n1, n2] at h
    · simp only [n1, n2, if_false] at h
      refine ⟨by omega, fun _ => ?_⟩
      by_cases c1 : optStr a.header.code < optStr b.header.code
      · exact ⟨String.not_lt.mp (String.lt_asymm c1), fun e => by rw [e] at c1; exact absurd c1 (String.lt_irrefl _)⟩
      · by_cases c2 : optStr b.header.code < optStr a.header.code
        · simp [c1, c2] at h
        · simp only [c1, c2, if_false] at h
          refine ⟨String.not_lt.mp c2, fun _ => ?_⟩
          by_cases d1 : optStr a.header.desc < optStr b.header.desc
          · exact ⟨String.not_lt.mp (String.lt_asymm d1), fun e => by rw [e] at d1; exact absurd d1 (String.lt_irrefl _)⟩
          · by_cases d2 : optStr b.header.desc < optStr a.header.desc
            · simp [d1, d2] at h
            · simp only [d1, d2, if_false] at h
              refine ⟨String.not_lt.mp d2, fun _ => ?_⟩
              by_cases u2 : optStr b.header.uuid < optStr a.header.uuid
              · by_cases u1 : optStr a.header.uuid < optStr b.header.uuid
                · exact absurd u2 (String.lt_asymm u1)
                · simp [u1, u2] at h
              · exact String.not_lt.mp u2

/-- the same for a loaded journal: what `string_to_txns` returns is the accepted set in canonical order -/
theorem load_sorted_journal (st st' : Settings) (rs : List RawTxn) (ts : List Txn)
    (h : loadJournal st rs = .ok (ts, st')) :
    ts.Pairwise (fun a b => txnLe a b = true) ∧
    ∃ acc, acceptJournal st rs = .ok (acc, st') ∧ ts.Perm acc := by
  unfold loadJournal at h
  split at h
  · cases h
  · rw [Outcome.map_ok] at h
    obtain ⟨⟨acc, st1⟩, h0, he⟩ := h
    cases he
    exact ⟨sortTxns_sorted acc, acc, h0, sortTxns_perm acc⟩

/-! ### loaded journals satisfy the representation invariant -/

theorem accepted_wf (st st' : Settings) (r : RawTxn) (t : Txn) (hwf : C01.RawWF r)
    (h : acceptTxn st r = .ok (t, st')) : ∀ p ∈ t.posts, p.amount.scale ≤ 28 := by
  unfold acceptTxn at h
  split at h
  · cases h
  · cases h
  · rename_i st1 _
    split at h
    · cases h
    · cases h
    · rename_i ps st2 hps
      obtain ⟨p0, rest, hgood, _, hshape⟩ := C01.acceptPostings_shape st1 st2 r hwf ps hps
      have hmain : ∀ q ∈ p0 :: rest, q.amount.scale ≤ 28 := by
        intro q hq
        obtain ⟨⟨rp, hrp, hg⟩, _⟩ := hgood q hq
        rw [hg.amount]; exact (hwf rp hrp).1
      have hall : ∀ q ∈ ps, q.amount.scale ≤ 28 := by
        rcases hshape with ⟨_, rfl⟩ | ⟨a, cmt, l, _, rfl, _, _, _, _, _, _, _, _, hl⟩
        · exact hmain
        · intro q hq
          rcases List.mem_append.mp hq with h1 | h1
          · exact hmain q h1
          · simp at h1; subst h1; exact hl
      (repeat' split at h) <;> first | (cases h; done) | (exact absurd h (Outcome.inexact_ne_ok _ _)) | (cases h; exact hall)

/-- **loaded_wf**: numbers that come out of the parser have at most 28 decimals (`C01.ofToken_wf`), hence so has
    every posting amount of a loaded journal – the hypothesis `TxnsWF` of the theorems below holds for every
    journal the implementation can load -/
theorem loaded_wf (st st' : Settings) (rs : List RawTxn) (ts : List Txn) (hwf : ∀ r ∈ rs, C01.RawWF r)
    (h : loadJournal st rs = .ok (ts, st')) : TxnsWF ts := by
  unfold loadJournal at h
  split at h
  · cases h
  · rw [Outcome.map_ok] at h
    obtain ⟨⟨acc, st1⟩, h0, he⟩ := h
    cases he
    intro t ht
    have ht' := (sortTxns_perm acc).subset ht
    obtain ⟨r, hr, s1, s2, hf⟩ := mapMS_ok acceptTxn _ st st' acc h0 t ht'
    exact accepted_wf s1 s2 r t (hwf r hr) hf

/-! ### the selector only hides -/

@[simp] theorem filter_selAll (l : List RegRow) : l.filter selAll = l := by
  induction l with
  | nil => rfl
  | cons a t ih => simp [List.filter_cons, selAll]

theorem registerLoop_hide (sel : RegRow → Bool) : ∀ (stream : List (Txn × List RItem)) (m : RegMap),
    registerLoop sel m stream = (registerLoop selAll m stream).map (fun es => es.map (hide sel)) := by
  intro stream
  induction stream with
  | nil => intro m; simp [registerLoop]
  | cons x rest ih =>
    intro m
    obtain ⟨t, items⟩ := x
    simp only [registerLoop]
    rw [registerTxn_eq sel, registerTxn_eq selAll]
    cases accPostings m (sortItems items) with
    | none => simp
    | some y =>
      simp only [Option.map_some]
      rw [ih y.1]
      cases registerLoop selAll y.1 rest with
      | none => simp
      | some es => simp [hide]

/-- **selector_only_hides** (stream form): the report with a selector is the report without selector with
    the rejected rows removed, entry by entry – in particular it exists exactly when the unrestricted one
    does, and no shown row (account, amount, running total, commodity) is altered -/
theorem selector_only_hides_stream (sel : RegRow → Bool) (stream : List (Txn × List RItem)) :
    registerEngine sel stream = (registerEngine selAll stream).map (fun es => es.map (hide sel)) := by
  unfold registerEngine
  rw [registerLoop_hide sel]
  cases registerLoop selAll RegMap.empty stream <;> simp [Outcome.ofOption, Outcome.map]

/-- **selector_only_hides**: `rows (register sel txs) = (rows (register all txs)).filter sel`, entry by entry -/
theorem selector_only_hides (sel : RegRow → Bool) (txns : List Txn) :
    register sel txns = (register selAll txns).map (fun es => es.map (hide sel)) :=
  selector_only_hides_stream sel _

/-- … and what is printed are the entries that still have a row: entries left empty vanish, nothing else -/
theorem selector_printed (sel : RegRow → Bool) (txns : List Txn) (es : List RegEntry)
    (h : register selAll txns = .ok es) :
    ∃ es', register sel txns = .ok es' ∧
      printedEntries es' = (es.map (hide sel)).filter (fun e => !e.rows.isEmpty) ∧
      ∀ e' ∈ printedEntries es', ∃ e ∈ es, e'.txn = e.txn ∧ e'.rows = e.rows.filter sel ∧ e'.rows ≠ [] := by
  refine ⟨es.map (hide sel), ?_, rfl, ?_⟩
  · rw [selector_only_hides, h]; rfl
  · intro e' he'
    simp only [printedEntries, List.mem_filter, List.mem_map] at he'
    obtain ⟨⟨e, he, rfl⟩, hne⟩ := he'
    refine ⟨e, he, rfl, rfl, ?_⟩
    intro hn
    simp [hn] at hne

/-! ### entry order -/

theorem registerLoop_txns (sel : RegRow → Bool) : ∀ (stream : List (Txn × List RItem)) (m : RegMap)
    (es : List RegEntry), registerLoop sel m stream = some es → es.map (·.txn) = stream.map (·.1) := by
  intro stream
  induction stream with
  | nil => intro m es h; simp [registerLoop] at h; simp [← h]
  | cons x rest ih =>
    intro m es h
    obtain ⟨t, items⟩ := x
    simp only [registerLoop] at h
    rw [registerTxn_eq sel] at h
    cases h1 : accPostings m (sortItems items) with
    | none => simp [h1] at h
    | some y =>
      simp only [h1, Option.map_some] at h
      cases h2 : registerLoop sel y.1 rest with
      | none => simp [h2] at h
      | some es' =>
        simp only [h2] at h
        cases h
        simp [ih _ _ h2]

theorem registerEngine_ok (sel : RegRow → Bool) (stream : List (Txn × List RItem)) (es : List RegEntry)
    (h : registerEngine sel stream = .ok es) : registerLoop sel RegMap.empty stream = some es := by
  unfold registerEngine at h
  cases h1 : registerLoop sel RegMap.empty stream with
  | none => simp [h1, Outcome.ofOption] at h
  | some es' => simp [h1, Outcome.ofOption] at h; simp [h]

/-- **register_order** (stream form) -/
theorem register_order_stream (sel : RegRow → Bool) (stream : List (Txn × List RItem)) (es : List RegEntry)
    (h : registerEngine sel stream = .ok es) :
    es.map (·.txn) = stream.map (·.1) ∧ ((printedEntries es).map (·.txn)).Sublist (stream.map (·.1)) := by
  have h1 := registerLoop_txns sel stream _ es (registerEngine_ok sel stream es h)
  refine ⟨h1, ?_⟩
  rw [← h1]
  exact List.Sublist.map _ List.filter_sublist

/-- **register_order**: the engine makes one entry per transaction in the order it is given, and the printed
    entries are a sublist of the transactions, in that order -/
theorem register_order (sel : RegRow → Bool) (txns : List Txn) (es : List RegEntry)
    (h : register sel txns = .ok es) :
    es.map (·.txn) = txns ∧ ((printedEntries es).map (·.txn)).Sublist txns := by
  have := register_order_stream sel (plainStream txns) es h
  simpa [plainStream, Function.comp_def] using this

/-- entries of a loaded journal come in canonical order: a sublist of the sorted accepted set -/
theorem register_order_loaded (sel : RegRow → Bool) (ts : List Txn) (es : List RegEntry)
    (h : register sel (sortTxns ts) = .ok es) :
    ((printedEntries es).map (·.txn)).Sublist (sortTxns ts) ∧
    ((printedEntries es).map (·.txn)).Pairwise (fun a b => txnLe a b = true) := by
  have h1 := (register_order sel _ es h).2
  exact ⟨h1, (sortTxns_sorted ts).sublist h1⟩

/-! ### running totals -/

theorem itemsOf_cons (t : Txn) (items : List RItem) (rest : List (Txn × List RItem)) :
    itemsOf ((t, items) :: rest) = items ++ itemsOf rest := by simp [itemsOf]

theorem sortItems_length (items : List RItem) : (sortItems items).length = items.length :=
  (sortItems_perm items).length_eq

theorem registerLoop_spec : ∀ (stream : List (Txn × List RItem)) (m : RegMap) (prev : List RItem)
    (es : List RegEntry), MapInv m prev → StreamWF stream → registerLoop selAll m stream = some es →
    es.length = stream.length ∧
    ∀ i e, es[i]? = some e → ∃ t items, stream[i]? = some (t, items) ∧ e.txn = t ∧
      e.rows.length = items.length ∧
      ∀ j r, e.rows[j]? = some r → ∃ it, (sortItems items)[j]? = some it ∧ RowOf it r ∧
        r.total.units = keySum it.key prev + keySum it.key (itemsOf (stream.take i))
                          + keySum it.key ((sortItems items).take (j + 1)) := by
  intro stream
  induction stream with
  | nil =>
    intro m prev es _ _ h
    simp [registerLoop] at h
    subst h
    simp
  | cons x rest ih =>
    intro m prev es hinv hwf h
    obtain ⟨t, items⟩ := x
    simp only [registerLoop] at h
    rw [registerTxn_eq selAll] at h
    cases h1 : accPostings m (sortItems items) with
    | none => simp [h1] at h
    | some y =>
      obtain ⟨m1, rows⟩ := y
      simp only [h1, Option.map_some] at h
      cases h2 : registerLoop selAll m1 rest with
      | none => simp [h2] at h
      | some es' =>
        simp only [h2] at h
        cases h
        have hwf1 : ∀ it ∈ sortItems items, it.amount.scale ≤ 28 := by
          intro it hit
          exact hwf (t, items) List.mem_cons_self it ((sortItems_perm items).subset hit)
        have s1 := accPostings_spec (sortItems items) m m1 prev rows hinv hwf1 h1
        have s2 := ih m1 (prev ++ sortItems items) es' s1.1
          (fun x hx => hwf x (List.mem_cons_of_mem _ hx)) h2
        refine ⟨by simp [s2.1], ?_⟩
        intro i e hi
        cases i with
        | zero =>
          simp at hi; subst hi
          refine ⟨t, items, by simp, rfl, ?_, ?_⟩
          · simp [s1.2.1, sortItems_length]
          · intro j r hj
            simp only at hj
            obtain ⟨it, hit, hr, ht⟩ := s1.2.2 j r hj
            refine ⟨it, hit, hr, ?_⟩
            rw [ht, keySum_append]
            simp [itemsOf]
        | succ i =>
          simp only [List.getElem?_cons_succ] at hi
          obtain ⟨t', items', hst, htx, hlen, hrows⟩ := s2.2 i e hi
          refine ⟨t', items', by simpa using hst, htx, hlen, ?_⟩
          intro j r hj
          obtain ⟨it, hit, hr, ht⟩ := hrows j r hj
          refine ⟨it, hit, hr, ?_⟩
          rw [ht, keySum_append, keySum_sortItems, List.take_succ_cons, itemsOf_cons, keySum_append]
          omega

/-- **running_total** (stream form): row `j` of entry `i` shows the sum of everything accumulated under its key
    in the transactions before `i`, plus the items of transaction `i` at in-entry positions `≤ j` -/
theorem running_total_stream (stream : List (Txn × List RItem)) (es : List RegEntry)
    (hwf : StreamWF stream) (h : registerEngine selAll stream = .ok es) :
    es.length = stream.length ∧
    ∀ i e, es[i]? = some e → ∃ t items, stream[i]? = some (t, items) ∧ e.txn = t ∧
      e.rows.length = items.length ∧
      ∀ j r, e.rows[j]? = some r → ∃ it, (sortItems items)[j]? = some it ∧ RowOf it r ∧
        r.total.units = keySum it.key (itemsOf (stream.take i)) + keySum it.key ((sortItems items).take (j + 1)) := by
  have := registerLoop_spec stream RegMap.empty [] es mapInv_empty hwf (registerEngine_ok _ _ _ h)
  simpa using this

/-! #### without price conversion -/

def mkItem (p : Posting) : RItem := ⟨p, p.comm, p.amount, none⟩

theorem noConv_eq (t : Txn) : noConv t = t.posts.map mkItem := rfl

theorem sortItems_noConv (t : Txn) : sortItems (noConv t) = (sortedPosts t).map mkItem := by
  unfold sortItems sortedPosts
  rw [noConv_eq]
  exact (List.map_mergeSort (r := postLe) (s := itemLe) (f := mkItem) (l := t.posts) (fun a _ b _ => rfl)).symm

theorem keySum_map_mkItem (k : AKey) (ps : List Posting) : keySum k (ps.map mkItem) = postSum k ps := by
  induction ps with
  | nil => rfl
  | cons p t ih =>
    rw [List.map_cons, keySum_cons, ih]
    have hk : (mkItem p).key = p.acctnKey := rfl
    have ha : (mkItem p).amount = p.amount := rfl
    rw [hk, ha]
    unfold postSum
    by_cases h : p.acctnKey = k <;> simp [h]

theorem itemsOf_plainStream (txns : List Txn) :
    itemsOf (plainStream txns) = (txns.flatMap (·.posts)).map mkItem := by
  induction txns with
  | nil => rfl
  | cons t ts ih =>
    have : plainStream (t :: ts) = (t, noConv t) :: plainStream ts := rfl
    rw [this, itemsOf_cons, ih, noConv_eq]
    simp

theorem plainStream_wf (txns : List Txn) (h : TxnsWF txns) : StreamWF (plainStream txns) := by
  intro x hx it hit
  simp only [plainStream, List.mem_map] at hx
  obtain ⟨t, ht, rfl⟩ := hx
  simp only [noConv, List.mem_map] at hit
  obtain ⟨p, hp, rfl⟩ := hit
  exact h t ht p hp

/-- `sortedPosts` is the stable sort by (commodity, account name): a permutation of the postings, ordered, and
    postings with the same key keep their written order -/
theorem sortedPosts_spec (t : Txn) :
    (sortedPosts t).Perm t.posts ∧ (sortedPosts t).Pairwise (fun a b => postLe a b = true) ∧
    ∀ c : List Posting, c.Pairwise (fun a b => postLe a b = true) → c.Sublist t.posts → c.Sublist (sortedPosts t) := by
  refine ⟨List.mergeSort_perm _ _, ?_, ?_⟩
  · exact List.pairwise_mergeSort (le := postLe) (fun a b c => keyLe_trans _ _ _) (fun a b => keyLe_total _ _) t.posts
  · intro c hc hs
    exact List.sublist_mergeSort (le := postLe) (fun a b c => keyLe_trans _ _ _) (fun a b => keyLe_total _ _) hc hs

/-- **running_total**: in the report without selector there is one entry per transaction; entry `i` lists the
    postings of transaction `i` in `sortedPosts` order, and row `j` shows as running total the exact sum of all
    postings to the same (commodity, account) in the transactions before `i` plus those of transaction `i` at
    in-entry positions `≤ j`.  (With a selector the rows are the same rows, `selector_only_hides`.) -/
theorem running_total (txns : List Txn) (es : List RegEntry) (hwf : TxnsWF txns)
    (h : register selAll txns = .ok es) :
    es.length = txns.length ∧
    ∀ i e, es[i]? = some e → ∃ t, txns[i]? = some t ∧ e.txn = t ∧ e.rows.length = t.posts.length ∧
      ∀ j r, e.rows[j]? = some r → ∃ p, (sortedPosts t)[j]? = some p ∧ r.post = p ∧ r.comm = p.comm ∧
        r.total.units = postSum p.acctnKey ((txns.take i).flatMap (·.posts))
                          + postSum p.acctnKey ((sortedPosts t).take (j + 1)) := by
  have hs := running_total_stream (plainStream txns) es (plainStream_wf txns hwf) h
  refine ⟨by simpa [plainStream] using hs.1, ?_⟩
  intro i e hi
  obtain ⟨t', items, hst, htx, hlen, hrows⟩ := hs.2 i e hi
  simp only [plainStream, List.getElem?_map, Option.map_eq_some_iff] at hst
  obtain ⟨t, ht, hpair⟩ := hst
  injection hpair with e1 e2
  subst e1 e2
  refine ⟨t, ht, htx, by simpa [noConv] using hlen, ?_⟩
  intro j r hj
  obtain ⟨it, hit, hr, htot⟩ := hrows j r hj
  rw [sortItems_noConv] at hit htot
  simp only [List.getElem?_map, Option.map_eq_some_iff] at hit
  obtain ⟨p, hp, rfl⟩ := hit
  refine ⟨p, hp, hr.1, hr.2.1, ?_⟩
  have e1 : (plainStream txns).take i = plainStream (txns.take i) := by simp [plainStream, List.map_take]
  rw [htot, e1, itemsOf_plainStream, keySum_map_mkItem, ← List.map_take, keySum_map_mkItem]
  rfl

/-! ### last running total = account sum -/

def LastInv (m : RegMap) (R : List RegRow) : Prop := ∀ k r, lastRow k R = some r → m k = some r.total

theorem lastRow_append_one (k : AKey) (R : List RegRow) (r : RegRow) :
    lastRow k (R ++ [r]) = if r.key = k then some r else lastRow k R := by
  unfold lastRow
  by_cases h : r.key = k <;> simp [List.filter_append, h]

theorem accPosting_last (m m' : RegMap) (R : List RegRow) (it : RItem) (r : RegRow)
    (hinv : LastInv m R) (h : accPosting m it = some (m', r)) : LastInv m' (R ++ [r]) := by
  obtain ⟨hrow, hm⟩ := accPosting_row m m' it r h
  have hkey : r.key = it.key := by unfold RegRow.key RItem.key; rw [hrow.1, hrow.2.1]
  intro k r' hl
  rw [lastRow_append_one] at hl
  subst hm
  unfold RegMap.set
  split at hl
  · rename_i hk
    cases hl
    rw [hkey] at hk
    simp [hk]
  · rename_i hk
    rw [hkey] at hk
    have : ¬ k = it.key := fun e => hk e.symm
    simp [this, hinv k r' hl]

theorem accPostings_last : ∀ (l : List RItem) (m m' : RegMap) (R rows : List RegRow),
    LastInv m R → accPostings m l = some (m', rows) → LastInv m' (R ++ rows) := by
  intro l
  induction l with
  | nil => intro m m' R rows hinv h; simp [accPostings] at h; obtain ⟨rfl, rfl⟩ := h; simpa using hinv
  | cons it rest ih =>
    intro m m' R rows hinv h
    simp only [accPostings] at h
    split at h
    · cases h
    · rename_i m1 r h1
      split at h
      · cases h
      · rename_i m2 rs h2
        cases h
        have := ih m1 m' (R ++ [r]) rs (accPosting_last m m1 R it r hinv h1) h2
        simpa [List.append_assoc] using this

theorem registerLoop_final : ∀ (stream : List (Txn × List RItem)) (m : RegMap) (prev : List RItem)
    (R : List RegRow) (es : List RegEntry), MapInv m prev → LastInv m R → StreamWF stream →
    registerLoop selAll m stream = some es →
    ∃ mf, MapInv mf (prev ++ stream.flatMap (fun x => sortItems x.2)) ∧ LastInv mf (R ++ es.flatMap (·.rows)) := by
  intro stream
  induction stream with
  | nil =>
    intro m prev R es hinv hlast _ h
    simp [registerLoop] at h
    subst h
    exact ⟨m, by simpa using hinv, by simpa using hlast⟩
  | cons x rest ih =>
    intro m prev R es hinv hlast hwf h
    obtain ⟨t, items⟩ := x
    simp only [registerLoop] at h
    rw [registerTxn_eq selAll] at h
    cases h1 : accPostings m (sortItems items) with
    | none => simp [h1] at h
    | some y =>
      obtain ⟨m1, rows⟩ := y
      simp only [h1, Option.map_some] at h
      cases h2 : registerLoop selAll m1 rest with
      | none => simp [h2] at h
      | some es' =>
        simp only [h2] at h
        cases h
        have hwf1 : ∀ it ∈ sortItems items, it.amount.scale ≤ 28 := by
          intro it hit
          exact hwf (t, items) List.mem_cons_self it ((sortItems_perm items).subset hit)
        have s1 := accPostings_spec (sortItems items) m m1 prev rows hinv hwf1 h1
        have l1 := accPostings_last (sortItems items) m m1 R rows hlast h1
        obtain ⟨mf, hm, hl⟩ := ih m1 (prev ++ sortItems items) (R ++ rows) es' s1.1 l1
          (fun x hx => hwf x (List.mem_cons_of_mem _ hx)) h2
        refine ⟨mf, by simpa [List.append_assoc] using hm, ?_⟩
        simpa [List.append_assoc] using hl

theorem keySum_flatMap_sortItems (k : AKey) (stream : List (Txn × List RItem)) :
    keySum k (stream.flatMap (fun x => sortItems x.2)) = keySum k (itemsOf stream) := by
  induction stream with
  | nil => rfl
  | cons x rest ih =>
    obtain ⟨t, items⟩ := x
    rw [List.flatMap_cons, keySum_append, keySum_sortItems, ih, itemsOf_cons, keySum_append]

/-- **last_total_balance** (stream form) -/
theorem last_total_stream (stream : List (Txn × List RItem)) (es : List RegEntry) (hwf : StreamWF stream)
    (h : registerEngine selAll stream = .ok es) (k : AKey) (r : RegRow)
    (hl : lastRow k (es.flatMap (·.rows)) = some r) :
    r.total.units = keySum k (itemsOf stream) := by
  have hinit : LastInv RegMap.empty [] := by intro k r h; simp [lastRow] at h
  obtain ⟨mf, hm, hlast⟩ := registerLoop_final stream RegMap.empty [] [] es mapInv_empty hinit hwf
    (registerEngine_ok _ _ _ h)
  have h1 := hlast k r (by simpa using hl)
  have h2 := (hm.1 k _ h1).1
  rw [h2]
  simpa using keySum_flatMap_sortItems k stream

theorem keySum_plain (k : AKey) (txns : List Txn) : keySum k (itemsOf (plainStream txns)) = ownSpec txns k := by
  rw [itemsOf_plainStream, keySum_map_mkItem]
  unfold postSum ownSpec postsOf
  induction txns with
  | nil => rfl
  | cons t ts ih =>
    simp only [List.flatMap_cons, List.filter_append, List.map_append, List.sum_append]
    rw [ih]
    congr 1
    induction t.posts with
    | nil => rfl
    | cons p ps ihp =>
      have hk : ({ acct := p.acct, comm := p.comm, amount := p.amount } : BPost).key = p.acctnKey := rfl
      by_cases h : p.acctnKey = k <;> simp [hk, h, ihp]

/-- **last_total_balance**: the last running total shown for a (commodity, account) is the exact sum of all its
    postings – the balance report's account sum (`ownSpec`; C02 `own_sum` states the balance side) -/
theorem last_total_balance (txns : List Txn) (es : List RegEntry) (hwf : TxnsWF txns)
    (h : register selAll txns = .ok es) (k : AKey) (r : RegRow)
    (hl : lastRow k (es.flatMap (·.rows)) = some r) :
    r.total.units = ownSpec txns k := by
  rw [← keySum_plain]
  exact last_total_stream (plainStream txns) es (plainStream_wf txns hwf) h k r hl

/-- every (commodity, account) that was posted to has a last row -/
theorem accPostings_keys : ∀ (l : List RItem) (m m' : RegMap) (rows : List RegRow),
    accPostings m l = some (m', rows) → rows.map (·.key) = l.map (·.key) := by
  intro l
  induction l with
  | nil => intro m m' rows h; simp [accPostings] at h; simp [h.2.symm]
  | cons it rest ih =>
    intro m m' rows h
    simp only [accPostings] at h
    split at h
    · cases h
    · rename_i m1 r h1
      split at h
      · cases h
      · rename_i m2 rs h2
        cases h
        have hr := (accPosting_row _ _ _ _ h1).1
        have hk : r.key = it.key := by unfold RegRow.key RItem.key; rw [hr.1, hr.2.1]
        simp [hk, ih _ _ _ h2]

theorem registerLoop_keys : ∀ (stream : List (Txn × List RItem)) (m : RegMap) (es : List RegEntry),
    registerLoop selAll m stream = some es →
    (es.flatMap (·.rows)).map (·.key) = (stream.flatMap (fun x => sortItems x.2)).map (·.key) := by
  intro stream
  induction stream with
  | nil => intro m es h; simp [registerLoop] at h; subst h; rfl
  | cons x rest ih =>
    intro m es h
    obtain ⟨t, items⟩ := x
    simp only [registerLoop] at h
    rw [registerTxn_eq selAll] at h
    cases h1 : accPostings m (sortItems items) with
    | none => simp [h1] at h
    | some y =>
      obtain ⟨m1, rows⟩ := y
      simp only [h1, Option.map_some] at h
      cases h2 : registerLoop selAll m1 rest with
      | none => simp [h2] at h
      | some es' =>
        simp only [h2] at h
        cases h
        simp [accPostings_keys _ _ _ _ h1, ih _ _ h2]

theorem last_total_exists_stream (stream : List (Txn × List RItem)) (es : List RegEntry)
    (h : registerEngine selAll stream = .ok es) (k : AKey) (hk : ∃ it ∈ itemsOf stream, it.key = k) :
    ∃ r, lastRow k (es.flatMap (·.rows)) = some r := by
  have hkeys := registerLoop_keys stream _ es (registerEngine_ok _ _ _ h)
  obtain ⟨it, hit, hitk⟩ := hk
  have hmem : k ∈ (stream.flatMap (fun x => sortItems x.2)).map (·.key) := by
    rw [List.mem_map]
    refine ⟨it, ?_, hitk⟩
    simp only [itemsOf, List.mem_flatMap] at hit ⊢
    obtain ⟨x, hx, hix⟩ := hit
    exact ⟨x, hx, (sortItems_perm x.2).mem_iff.mpr hix⟩
  rw [← hkeys, List.mem_map] at hmem
  obtain ⟨r, hr, hrk⟩ := hmem
  unfold lastRow
  cases hl : (List.filter (fun r => decide (r.key = k)) (es.flatMap (·.rows))).getLast? with
  | some r' => exact ⟨r', rfl⟩
  | none =>
    rw [List.getLast?_eq_none_iff] at hl
    have : r ∈ List.filter (fun r => decide (r.key = k)) (es.flatMap (·.rows)) := by
      simp [List.mem_filter, hr, hrk]
    rw [hl] at this
    cases this

/-- every posted (commodity, account) has a last running total (so `last_total_balance` is about all of them) -/
theorem last_total_exists (txns : List Txn) (es : List RegEntry) (h : register selAll txns = .ok es)
    (k : AKey) (hk : ∃ p ∈ postsOf txns, p.key = k) : ∃ r, lastRow k (es.flatMap (·.rows)) = some r := by
  apply last_total_exists_stream (plainStream txns) es h k
  obtain ⟨p, hp, hpk⟩ := hk
  simp only [postsOf, List.mem_flatMap, List.mem_map] at hp
  obtain ⟨t, ht, q, hq, rfl⟩ := hp
  refine ⟨mkItem q, ?_, hpk⟩
  rw [itemsOf_plainStream]
  simp only [List.mem_map, List.mem_flatMap]
  exact ⟨q, ⟨t, ht, hq⟩, rfl⟩

/-! ### running totals under a selector -/

/-- **running_total_selected**: with any selector, every shown row of entry `i` is accepted by the selector, is the
    row of some in-entry position `j` of transaction `i`, and shows the exact prefix sum of `running_total` –
    hidden postings are accumulated all the same -/
theorem running_total_selected (sel : RegRow → Bool) (txns : List Txn) (es : List RegEntry) (hwf : TxnsWF txns)
    (h : register sel txns = .ok es) :
    es.length = txns.length ∧
    ∀ i e, es[i]? = some e → ∃ t, txns[i]? = some t ∧ e.txn = t ∧
      ∀ r ∈ e.rows, sel r = true ∧ ∃ j p, (sortedPosts t)[j]? = some p ∧ r.post = p ∧ r.comm = p.comm ∧
        r.total.units = postSum p.acctnKey ((txns.take i).flatMap (·.posts))
                          + postSum p.acctnKey ((sortedPosts t).take (j + 1)) := by
  rw [selector_only_hides, Outcome.map_ok] at h
  obtain ⟨es0, h0, rfl⟩ := h
  have hs := running_total txns es0 hwf h0
  refine ⟨by simpa using hs.1, ?_⟩
  intro i e hi
  simp only [List.getElem?_map, Option.map_eq_some_iff] at hi
  obtain ⟨e0, he0, rfl⟩ := hi
  obtain ⟨t, ht, htx, _, hrows⟩ := hs.2 i e0 he0
  refine ⟨t, ht, htx, ?_⟩
  intro r hr
  simp only [hide, List.mem_filter] at hr
  obtain ⟨j, hj⟩ := List.mem_iff_getElem?.mp hr.1
  obtain ⟨p, hp, h1, h2, h3⟩ := hrows j r hj
  exact ⟨hr.2, j, p, hp, h1, h2, h3⟩

/-! ### non-vacuity: concrete journals meeting the hypotheses, and the boundary of the exact domain -/

def d (n : Int) : Dec := Dec.ofInt n
def hdr (ns : Int) : Header := ⟨⟨ns, 0⟩, none, none, none, none, none, none⟩
def po (a : String) (n : Int) : Posting := ⟨[a], "", d n, d n, false, "", none⟩
def tx1 : Txn := ⟨hdr 0, [po "a" 10, po "b" (-10)]⟩
/-- postings written `b, a, a`: listed (and accumulated) as `a, a, b` -/
def tx2 : Txn := ⟨hdr 1, [po "b" 5, po "a" (-2), po "a" (-3)]⟩
def tx3 : Txn := ⟨hdr 2, [po "c" 1, po "b" (-1)]⟩
def row (a : String) (n tot : Int) : RegRow := ⟨po a n, d tot, "", none⟩

/-- the same account twice in one transaction: two rows, totals 10 - 2 = 8 and 8 - 3 = 5 -/
theorem example_register : register selAll [tx1, tx2, tx3] = .ok [
    ⟨tx1, [row "a" 10 10, row "b" (-10) (-10)]⟩,
    ⟨tx2, [row "a" (-2) 8, row "a" (-3) 5, row "b" 5 (-5)]⟩,
    ⟨tx3, [row "b" (-1) (-6), row "c" 1 1]⟩] := by
  simp [register, registerEngine, plainStream, registerLoop, registerTxn, accPostings, accPosting, noConv,
    List.mergeSort, List.MergeSort.Internal.splitInTwo, itemLe, rowLe, Posting.acctnKey, keyLe, acctName,
    tx1, tx2, tx3, po, row, d, RegMap.set, RegMap.empty, RItem.key, Outcome.ofOption, Dec.add, Dec.ofInt,
    Dec.isZero, sgn, max96]

example : TxnsWF [tx1, tx2, tx3] := by
  intro t ht p hp
  simp [tx1, tx2, tx3] at ht
  rcases ht with rfl | rfl | rfl <;> simp at hp <;> rcases hp with rfl | rfl | rfl <;> simp [po, d, Dec.ofInt]

/-- selector `c`: the entries of `tx1` and `tx2` are left empty and vanish; the row of `c` is unchanged -/
example : (register (fun r => r.post.acct == ["c"]) [tx1, tx2, tx3]).map printedEntries
    = .ok [⟨tx3, [row "c" 1 1]⟩] := by
  rw [selector_only_hides, example_register]
  simp [Outcome.map, hide, printedEntries, row, po]

/-- selector `b`: running totals of `b` are those of the full report (-10, -5, -6) -/
example : (register (fun r => r.post.acct == ["b"]) [tx1, tx2, tx3]).map printedEntries
    = .ok [⟨tx1, [row "b" (-10) (-10)]⟩, ⟨tx2, [row "b" 5 (-5)]⟩, ⟨tx3, [row "b" (-1) (-6)]⟩] := by
  rw [selector_only_hides, example_register]
  simp [Outcome.map, hide, printedEntries, row, po]

/-- last rows: `a` ends at 5 = 10 - 2 - 3, the account sum of the balance report -/
example : lastRow ("", ["a"]) ([row "a" 10 10, row "b" (-10) (-10), row "a" (-2) 8, row "a" (-3) 5, row "b" 5 (-5)])
    = some (row "a" (-3) 5) := by
  simp [lastRow, RegRow.key, row, po]

example : ownSpec [tx1, tx2, tx3] ("", ["a"]) = (d 5).units := by
  simp [ownSpec, postsOf, tx1, tx2, tx3, po, BPost.key, d, Dec.ofInt, Dec.units, sgn]

/-- outside the exact domain (F17): `7922816251426433759354395033.5 + 0.05` is not representable; the engine
    is undefined there instead of showing a rounded total -/
example : register selAll
    [⟨hdr 0, [⟨["a"], "", ⟨false, 79228162514264337593543950335, 1⟩, ⟨false, 79228162514264337593543950335, 1⟩, false, "", none⟩]⟩,
     ⟨hdr 1, [⟨["a"], "", ⟨false, 5, 2⟩, ⟨false, 5, 2⟩, false, "", none⟩]⟩] = .undef := by
  simp [register, registerEngine, plainStream, registerLoop, registerTxn, accPostings, accPosting, noConv,
    RegMap.set, RegMap.empty, RItem.key, Outcome.ofOption, Dec.add, Dec.isZero, sgn, max96]

/-- equal instants, headers differing only in the code: loaded in code order whatever the written order -/
example : sortTxns [⟨{ hdr 7 with code := some "b" }, []⟩, ⟨{ hdr 7 with code := some "a" }, []⟩, ⟨hdr 3, []⟩]
    = [⟨hdr 3, []⟩, ⟨{ hdr 7 with code := some "a" }, []⟩, ⟨{ hdr 7 with code := some "b" }, []⟩] := by
  have h := sortTxns_sorted [⟨{ hdr 7 with code := some "b" }, []⟩, ⟨{ hdr 7 with code := some "a" }, []⟩, ⟨hdr 3, []⟩]
  apply sorted_perm_eq (fun a b => txnLe a b = true)
  · exact (sortTxns_perm _).trans (by decide)
  · exact h
  · decide
  · intro a b ha hb h1 h2
    have ha' := (sortTxns_perm _).subset ha
    have hb' := (sortTxns_perm _).subset hb
    simp only [List.mem_cons, List.not_mem_nil, or_false] at ha' hb'
    rcases ha' with rfl | rfl | rfl <;> rcases hb' with rfl | rfl | rfl <;> first | rfl | (revert h1 h2; decide)

end C03
end Tackler

import TacklerModel.Model.Syntax
import TacklerModel.Lemmas.Syntax
/-!
# C15 — loading is total and fail-stop

The load path of the model is `Syntax.parseJournal` (text ⇒ parse tree) followed by `loadJournal`
(`Model/Accept`, `Model/Order`); multi-file input is `loadFiles`.

**Totality.**  Every definition on that path is accepted by Lean's termination checker: the parsers are
non-recursive compositions of the combinators of `Model/Comb`; the three loops (`repeat0G`,
`repeatTillG`, `spanN`) and `buildAccountTree`/`ancestorsOk` recurse structurally on an explicit fuel
(input length + 1, resp. account depth), `takeWhile`/`dropWhile`/`trimEnd` on the list.  The outcome type
has no "panic" value, so "never panics" cannot be stated about the model directly; instead
`no_panic` collects, for every `unwrap/expect/assert!/unreachable!/index`/unchecked arithmetic site of the
Rust load path (census of DESIGN.md §5 C15), the fact about the model that makes the site unreachable —
each fact is about the same sub-parser whose Rust twin guards the site.  Two sites of the census were
*live* and are fixed in the implementation: the unchecked `Decimal` `*`/`sum()` (F6) and
`expect("IE: synthetic parent is invalid")` in `build_account_tree` (F21, found by this check; DESIGN.md
listed it as dead); their regression witnesses are at the end of this file.

**Fail-stop.**  `whole_input`: an accepted text is exactly leading blank lines followed by the texts of
its transactions, each followed by its blank lines — every character was consumed by a transaction or is
inter-transaction blank space.  `files_fail_stop`: a multi-file load succeeds only if every file parses
and is accepted; a file with a syntax error (or rejected in every state) makes the whole load fail.
-/
namespace Tackler
namespace C15
open Comb Syntax

/-! ## 1. Dead panic sites -/

/-- `resolveTs` always decides (no `undef` for a fixed-offset journal zone), so `ofOutcome` loses nothing -/
theorem resolveTs_defined (cfg : Time.TsCfg) (t : Time.TsToken) : Time.resolveTs cfg t ≠ .undef := by
  intro h
  unfold Time.resolveTs at h
  (repeat' (first | split at h | (simp only [] at h; split at h))) <;> first | (cases h; done) | skip

theorem digitVal_le_nine (c : Char) (h : isDecDigit c = true) : Dec.digitVal c ≤ 9 := by
  simp only [isDecDigit, Bool.and_eq_true, decide_eq_true_eq] at h
  unfold Dec.digitVal
  have : '0'.toNat = 48 := by decide
  omega

theorem foldl_digits_lt (l : List Char) (hd : ∀ c ∈ l, isDecDigit c = true) :
    ∀ acc : Nat, l.foldl (fun acc c => acc * 10 + Dec.digitVal c) acc < (acc + 1) * 10 ^ l.length := by
  induction l with
  | nil => intro acc; simp
  | cons c t ih =>
    intro acc
    have hc := digitVal_le_nine c (hd c List.mem_cons_self)
    have := ih (fun d hd' => hd d (List.mem_cons_of_mem _ hd')) (acc * 10 + Dec.digitVal c)
    simp only [List.foldl_cons, List.length_cons]
    refine Nat.lt_of_lt_of_le this ?_
    have h1 : acc * 10 + Dec.digitVal c + 1 ≤ (acc + 1) * 10 := by omega
    calc (acc * 10 + Dec.digitVal c + 1) * 10 ^ t.length
        ≤ ((acc + 1) * 10) * 10 ^ t.length := Nat.mul_le_mul_right _ h1
      _ = (acc + 1) * 10 ^ (t.length + 1) := by rw [Nat.pow_succ, Nat.mul_assoc, Nat.mul_comm 10]

/-- a run of `k` decimal digits denotes a number below `10^k` -/
theorem digits_lt (l : List Char) (hd : ∀ c ∈ l, isDecDigit c = true) : digits l < 10 ^ l.length := by
  have := foldl_digits_lt l hd 0
  simpa [digits, Dec.digitsVal] using this

/-- `handle_time`: `assert!(ns_len <= 9)`, `i32::from_str(ns_str)` and `left_ns * 10i32.pow(9 - ns_len)`:
    the fraction comes from `take_while(1..=9, digit)`, so it has at most 9 digits and the scaled value is
    below 10⁹ (< 2³¹) -/
theorem frac_fits (s ds r : List Char) (h : takeMN 1 9 isDecDigit s = .ok ds r) :
    ds.length ≤ 9 ∧ digits ds < 2 ^ 31 ∧ Time.fracNs ds < 1000000000 := by
  obtain ⟨_, _, hlen, hd⟩ := takeMN_ok _ _ _ _ _ _ h
  have hlt := digits_lt ds hd
  refine ⟨hlen, ?_, ?_⟩
  · have : 10 ^ ds.length ≤ 10 ^ 9 := Nat.pow_le_pow_right (by decide) hlen
    have h9 : (10:Nat) ^ 9 < 2 ^ 31 := by decide
    omega
  · unfold Time.fracNs
    have e : (10:Nat) ^ ds.length * 10 ^ (9 - ds.length) = 1000000000 := by
      rw [← Nat.pow_add]; have : ds.length + (9 - ds.length) = 9 := by omega
      rw [this]
    have hp : 0 < (10:Nat) ^ (9 - ds.length) := Nat.pow_pos (by decide)
    have := Nat.mul_lt_mul_of_pos_right hlt hp
    simpa [digits, e] using this

/-- `take_while(2, digit).try_map(i8::from_str)` / `i32::from_str`: two digits are below 100 (< 2⁷) -/
theorem two_digits_fit (s ds r : List Char) (h : twoDigits s = .ok ds r) : digits ds < 100 := by
  obtain ⟨_, h2, h2', hd⟩ := takeMN_ok _ _ _ _ _ _ h
  have := digits_lt ds hd
  have e : ds.length = 2 := by omega
  rw [e] at this; simpa using this

/-- `take_while(4, digit).try_map(i16::from_str)`: four digits are below 10 000 (< 2¹⁵) -/
theorem year_fits (s ds r : List Char) (h : takeMN 4 4 isDecDigit s = .ok ds r) : digits ds < 10000 := by
  obtain ⟨_, h2, h2', hd⟩ := takeMN_ok _ _ _ _ _ _ h
  have := digits_lt ds hd
  have e : ds.length = 4 := by omega
  rw [e] at this; simpa using this

/-- `p_offset`: `sign * (h * 60 * 60 + m * 60)` in `i32` cannot overflow -/
theorem offset_arith_fits (h m : Nat) (hh : h < 100) (hm : m < 100) : h * 3600 + m * 60 < 2 ^ 31 := by
  have : (2:Nat) ^ 31 = 2147483648 := by decide
  omega

theorem repeat1_ne_nil {α} (p : P α) (s : List Char) (l : List α) (r : List Char)
    (h : repeat1 p s = .ok l r) : l ≠ [] := by
  unfold repeat1 at h
  obtain ⟨a, s', _, h2⟩ := (Res.bind_ok _ _ _ _).mp h
  obtain ⟨l', _, rfl⟩ := (Res.map_ok _ _ _ _).mp h2
  simp

/-- `parse_txn_postings`: `postings.0[0]` exists, because the list comes from `repeat(1.., …)` -/
theorem postings_nonempty (s r : List Char) (ps : List RawPosting) (l : Option (Path × Option String))
    (h : parseTxnPostings s = .ok (ps, l) r) : ps ≠ [] := by
  unfold parseTxnPostings at h
  obtain ⟨ps', s1, h1, h2⟩ := (Res.bind_ok _ _ _ _).mp h
  obtain ⟨l', s2, _, h3⟩ := (Res.bind_ok _ _ _ _).mp h2
  have hne := repeat1_ne_nil _ _ _ _ h1
  split at h3
  · cases h3; exact hne
  · split at h3
    · cases h3; exact hne
    · cases h3

/-- `p_closing_pos`: the `unreachable!("IE: Unexpected token")` arm is dead: after `alt(('@', '='))` the
    character is `@` or `=` -/
theorem closing_kind_total (s r : List Char) (k : Char) (v : Val)
    (h : alt (chr '@') (chr '=') s = .ok k r) : closingOf k v ≠ none := by
  unfold alt at h
  split at h
  · rename_i a r' h1
    cases h
    obtain ⟨_, rfl⟩ := chr_ok _ _ _ _ h1
    simp [closingOf]
  · obtain ⟨_, rfl⟩ := chr_ok _ _ _ _ h
    simp [closingOf]
  · cases h

/-- hence `p_closing_pos` never takes its `.cut` arm for that reason: whenever the lexical part succeeds,
    the result is a closing position -/
theorem pClosingPos_no_unreachable (s : List Char) (k : Char) (v : Val) (r : List Char)
    (h : alt (chr '@') (chr '=') s = .ok k r) : ∃ cl, closingOf k v = some cl := by
  have := closing_kind_total s r k v h
  cases hc : closingOf k v with
  | none => exact absurd hc this
  | some cl => exact ⟨cl, rfl⟩

/-- winnow's "`repeat` parsers must always consume" assertion (a panic in debug builds): every parser
    tackler puts under `repeat`/`repeat_till` consumes at least one character when it succeeds -/
theorem repeated_parsers_consume (cfg : Time.TsCfg) :
    (∀ s, Cons (pIdPartHelper s) s) ∧ (∀ s, Cons (pTagTail s) s) ∧ (∀ s, Cons (parseTxnComment s) s) ∧
    (∀ s, Cons (parseTxnPosting s) s) ∧ (∀ s, Cons (blankLine s) s) ∧ (∀ s, Cons (parseTxn cfg s) s) :=
  ⟨pIdPartHelper_cons, pTagTail_cons, parseTxnComment_cons, parseTxnPosting_cons, blankLine_cons,
   parseTxn_cons cfg⟩

/-- … so the assertion site is dead: whatever it would yield (`x`), the loops compute the same result -/
theorem repeat_assert_dead (cfg : Time.TsCfg) (s : List Char) :
    (∀ x, repeat0 pIdPartHelper s = repeat0G x pIdPartHelper (s.length + 1) s) ∧
    (∀ x, repeat0 pTagTail s = repeat0G x pTagTail (s.length + 1) s) ∧
    (∀ x, repeat0 parseTxnComment s = repeat0G x parseTxnComment (s.length + 1) s) ∧
    (∀ x, repeat0 parseTxnPosting s = repeat0G x parseTxnPosting (s.length + 1) s) ∧
    (∀ x, repeat0 blankLine s = repeat0G x blankLine (s.length + 1) s) ∧
    (∀ x, repeatTillG .cut (parseTxn cfg) eof (s.length + 1) s = repeatTillG x (parseTxn cfg) eof (s.length + 1) s) :=
  ⟨fun x => repeat0_stall_irrelevant x _ pIdPartHelper_cons s,
   fun x => repeat0_stall_irrelevant x _ pTagTail_cons s,
   fun x => repeat0_stall_irrelevant x _ parseTxnComment_cons s,
   fun x => repeat0_stall_irrelevant x _ parseTxnPosting_cons s,
   fun x => repeat0_stall_irrelevant x _ blankLine_cons s,
   fun x => repeatTillG_stall_irrelevant _ x _ _ (parseTxn_cons cfg) _ s (by omega)⟩

/-- **C15 `no_panic`.**  The model has no panic outcome; this theorem is the conjunction of the facts that
    make every panic site of the Rust load path unreachable (the two live ones, F6 and F21, are fixed in the
    implementation and modelled as errors):
    1. `handle_time`: `assert!(ns_len <= 9)`, `i32::from_str`, `i32` product — `frac_fits`;
    2. `try_map(i8::from_str)`, `try_map(i16::from_str)`, `try_map(i32::from_str)` on 2/4 digits;
    3. `p_offset`: `i32` arithmetic;
    4. `p_closing_pos`: `unreachable!`;
    5. `parse_txn_postings`: `postings.0[0]`;
    6. winnow `repeat`/`repeat_till`: "parsers must always consume" assertion;
    7. `ofOutcome`: timestamp resolution always decides. -/
theorem no_panic (cfg : Time.TsCfg) :
    (∀ s ds r, takeMN 1 9 isDecDigit s = .ok ds r →
        ds.length ≤ 9 ∧ digits ds < 2 ^ 31 ∧ Time.fracNs ds < 1000000000) ∧
    (∀ s ds r, twoDigits s = .ok ds r → digits ds < 100) ∧
    (∀ s ds r, takeMN 4 4 isDecDigit s = .ok ds r → digits ds < 10000) ∧
    (∀ h m, h < 100 → m < 100 → h * 3600 + m * 60 < 2 ^ 31) ∧
    (∀ s r k v, alt (chr '@') (chr '=') s = .ok k r → closingOf k v ≠ none) ∧
    (∀ s r ps l, parseTxnPostings s = .ok (ps, l) r → ps ≠ []) ∧
    ((∀ s, Cons (pIdPartHelper s) s) ∧ (∀ s, Cons (pTagTail s) s) ∧ (∀ s, Cons (parseTxnComment s) s) ∧
     (∀ s, Cons (parseTxnPosting s) s) ∧ (∀ s, Cons (blankLine s) s) ∧ (∀ s, Cons (parseTxn cfg s) s)) ∧
    (∀ t, Time.resolveTs cfg t ≠ .undef) :=
  ⟨frac_fits, two_digits_fit, year_fits, offset_arith_fits, closing_kind_total, postings_nonempty,
   repeated_parsers_consume cfg, resolveTs_defined cfg⟩

/-! ## 2. The whole input is consumed -/

/-- blank space between transactions: blanks, tabs and line endings -/
def Blank (l : List Char) : Prop := ∀ c ∈ l, c = ' ' ∨ c = '\t' ∨ c = '\r' ∨ c = '\n'

theorem blank_nil : Blank [] := by intro c hc; cases hc

theorem Blank.append {a b : List Char} (ha : Blank a) (hb : Blank b) : Blank (a ++ b) := by
  intro c hc
  rcases List.mem_append.mp hc with h | h
  · exact ha c h
  · exact hb c h

/-- on success the parser consumed a blank prefix: input = consumed ++ rest -/
def BSpan {α} (r : Res α) (s : List Char) : Prop := ∀ a t, r = .ok a t → ∃ pre, s = pre ++ t ∧ Blank pre

theorem BSpan.bind {α β} {r : Res α} {f : α → List Char → Res β} {s : List Char}
    (hr : BSpan r s) (hf : ∀ a s', BSpan (f a s') s') : BSpan (r.bind f) s := by
  intro b t e
  obtain ⟨a, s', e1, e2⟩ := (Res.bind_ok _ _ _ _).mp e
  obtain ⟨p1, rfl, hb1⟩ := hr a s' e1
  obtain ⟨p2, rfl, hb2⟩ := hf a s' b t e2
  exact ⟨p1 ++ p2, by simp, hb1.append hb2⟩

theorem space0_bspan (s : List Char) : BSpan (space0 s) s := by
  intro a t e
  obtain ⟨h1, h2, _⟩ := takeWhile0_ok _ _ _ _ e
  refine ⟨a, h1, ?_⟩
  intro c hc
  have := h2 c hc
  simp [isSpace] at this
  rcases this with h | h
  · exact Or.inl h
  · exact Or.inr (Or.inl h)

theorem lineEnding_bspan (s : List Char) : BSpan (lineEnding s) s := by
  intro a t e
  rcases lineEnding_ok _ _ _ e with h | h
  · exact ⟨['\n'], by simp [h], by intro c hc; simp at hc; simp [hc]⟩
  · refine ⟨['\r', '\n'], by simp [h], ?_⟩
    intro c hc
    simp at hc
    rcases hc with h | h <;> simp [h]

theorem blankLine_bspan (s : List Char) : BSpan (blankLine s) s := by
  unfold blankLine
  exact BSpan.bind (space0_bspan s) (fun _ s' => lineEnding_bspan s')

theorem repeat0G_bspan {α} (p : P α) (hp : ∀ s, BSpan (p s) s) :
    ∀ (fuel : Nat) (s : List Char), BSpan (repeat0G .cut p fuel s) s := by
  intro fuel
  induction fuel with
  | zero => intro s a t e; simp [repeat0G] at e
  | succ n ih =>
    intro s a t e
    simp only [repeat0G] at e
    split at e
    · rename_i a' r hps
      split at e
      · obtain ⟨l, e1, _⟩ := (Res.map_ok _ _ _ _).mp e
        obtain ⟨p1, rfl, hb1⟩ := hp s a' r hps
        obtain ⟨p2, rfl, hb2⟩ := ih r l t e1
        exact ⟨p1 ++ p2, by simp, hb1.append hb2⟩
      · cases e
    · cases e; exact ⟨[], rfl, blank_nil⟩
    · cases e

theorem multispace0LineEnding_bspan (s : List Char) : BSpan (multispace0LineEnding s) s := by
  intro a t e
  unfold multispace0LineEnding at e
  obtain ⟨l, e1, _⟩ := (Res.map_ok _ _ _ _).mp e
  unfold repeat1 at e1
  refine BSpan.bind (blankLine_bspan s) (fun a' s' => ?_) l t e1
  intro b t' e'
  obtain ⟨l', e2, _⟩ := (Res.map_ok _ _ _ _).mp e'
  exact repeat0G_bspan _ blankLine_bspan _ s' l' t' e2

/-- the separator after a transaction: blank lines or the end of the input -/
theorem separator_bspan (s : List Char) : BSpan (alt multispace0LineEnding eof s) s := by
  intro a t e
  unfold alt at e
  split at e
  · rename_i a' r h1; cases e; exact multispace0LineEnding_bspan s _ _ h1
  · obtain ⟨rfl, rfl⟩ := eof_ok _ _ _ e; exact ⟨[], rfl, blank_nil⟩
  · cases e

/-- header and postings of one transaction, without the separator that follows -/
def txnBody (cfg : Time.TsCfg) : P RawTxn := fun s =>
  (cutErr (parseTxnHeader cfg) s).bind fun h s =>
  (cutErr parseTxnPostings s).bind fun ps s =>
  .ok ⟨h, ps.1, ps.2⟩ s

/-- `parse_txn` = body, then separator -/
theorem parseTxn_eq (cfg : Time.TsCfg) (s : List Char) :
    parseTxn cfg s = (txnBody cfg s).bind fun t s => (alt multispace0LineEnding eof s).bind fun _ s => .ok t s := by
  unfold parseTxn txnBody
  cases cutErr (parseTxnHeader cfg) s with
  | ok h s1 =>
    simp only [Res.bind_ok']
    cases cutErr parseTxnPostings s1 with
    | ok ps s2 => simp only [Res.bind_ok']
    | bt => rfl
    | cut => rfl
  | bt => rfl
  | cut => rfl

theorem txnBody_cons (cfg : Time.TsCfg) (s : List Char) : Cons (txnBody cfg s) s := by
  unfold txnBody
  exact Cons.bind (cutErr_cons (parseTxnHeader_cons cfg s)) (fun _ _ => by psuff)

/-- one transaction of the input: its text, the blank lines after it, its parse tree -/
structure Seg where
  text : List Char
  blanks : List Char
  txn : RawTxn

def flat (segs : List Seg) : List Char := (segs.map fun g => g.text ++ g.blanks).flatten

/-- each segment's `text` is exactly what `txnBody` consumes at its place in the input, and its `blanks`
    exactly what the separator consumes -/
inductive Chain (cfg : Time.TsCfg) : List Seg → Prop
  | nil : Chain cfg []
  | cons (g : Seg) (gs : List Seg) :
      g.text ≠ [] → Blank g.blanks →
      txnBody cfg (g.text ++ g.blanks ++ flat gs) = .ok g.txn (g.blanks ++ flat gs) →
      alt multispace0LineEnding eof (g.blanks ++ flat gs) = .ok () (flat gs) →
      Chain cfg gs → Chain cfg (g :: gs)

/-- one successful `parse_txn` splits off one segment -/
theorem parseTxn_seg (cfg : Time.TsCfg) (s r : List Char) (t : RawTxn) (h : parseTxn cfg s = .ok t r) :
    ∃ text blanks, s = text ++ blanks ++ r ∧ text ≠ [] ∧ Blank blanks ∧
      txnBody cfg s = .ok t (blanks ++ r) ∧ alt multispace0LineEnding eof (blanks ++ r) = .ok () r := by
  rw [parseTxn_eq] at h
  obtain ⟨t', s1, h1, h2⟩ := (Res.bind_ok _ _ _ _).mp h
  obtain ⟨u, s2, h3, h4⟩ := (Res.bind_ok _ _ _ _).mp h2
  cases h4
  obtain ⟨hsuf, hlen⟩ := txnBody_cons cfg s t s1 h1
  obtain ⟨text, rfl⟩ := hsuf
  obtain ⟨blanks, rfl, hb⟩ := separator_bspan s1 u r h3
  refine ⟨text, blanks, by simp, ?_, hb, h1, h3⟩
  intro hnil
  subst hnil
  simp at hlen

theorem repeatTill_segs (cfg : Time.TsCfg) :
    ∀ (fuel : Nat) (s r : List Char) (ts : List RawTxn),
      repeatTillG .cut (parseTxn cfg) eof fuel s = .ok ts r →
      r = [] ∧ ∃ segs, s = flat segs ∧ Chain cfg segs ∧ segs.map (·.txn) = ts := by
  intro fuel
  induction fuel with
  | zero => intro s r ts h; simp [repeatTillG] at h
  | succ n ih =>
    intro s r ts h
    simp only [repeatTillG] at h
    split at h
    · rename_i u r' he
      cases h
      obtain ⟨rfl, rfl⟩ := eof_ok _ _ _ he
      exact ⟨rfl, [], rfl, Chain.nil, rfl⟩
    · cases h
    · split at h
      · rename_i t s' hp
        split at h
        · obtain ⟨l, e1, rfl⟩ := (Res.map_ok _ _ _ _).mp h
          obtain ⟨hr, segs, hs', hch, hmap⟩ := ih s' r l e1
          obtain ⟨text, blanks, hs, hne, hb, hbody, hsep⟩ := parseTxn_seg cfg s s' t hp
          subst hs'
          refine ⟨hr, ⟨text, blanks, t⟩ :: segs, ?_, ?_, ?_⟩
          · rw [hs]; simp [flat]
          · refine Chain.cons ⟨text, blanks, t⟩ segs hne hb ?_ hsep hch
            rw [← hs]; exact hbody
          · simp [hmap]
        · cases h
      · cases h
      · cases h

/-- **C15 `whole_input`.**  If a text is accepted by the grammar, it is exactly: leading blank lines, then
    for every transaction of the result (in order) its text followed by its blank lines; each transaction's
    text is precisely the span its parser consumed in place.  So every character of an accepted input was
    consumed by a transaction or is blank space between transactions — nothing is skipped, and there is at
    least one transaction. -/
theorem whole_input (cfg : Time.TsCfg) (s : List Char) (ts : List RawTxn)
    (h : parseJournal cfg s = some ts) :
    ∃ (b0 : List Char) (segs : List Seg),
      s = b0 ++ flat segs ∧ Blank b0 ∧ Chain cfg segs ∧ segs.map (·.txn) = ts ∧ segs ≠ [] := by
  unfold parseJournal at h
  split at h
  · rename_i ts' hp
    cases h
    unfold parseTxns at hp
    obtain ⟨o, s1, h1, h2⟩ := (Res.bind_ok _ _ _ _).mp hp
    -- leading blank lines
    have hb0 : ∃ b0, s = b0 ++ s1 ∧ Blank b0 := by
      unfold opt at h1
      split at h1
      · rename_i a r hm; cases h1; exact multispace0LineEnding_bspan s a _ hm
      · cases h1; exact ⟨[], rfl, blank_nil⟩
      · cases h1
    obtain ⟨b0, rfl, hb⟩ := hb0
    unfold repeatTill1 at h2
    obtain ⟨t, s2, h3, h4⟩ := (Res.bind_ok _ _ _ _).mp h2
    obtain ⟨l, h5, rfl⟩ := (Res.map_ok _ _ _ _).mp h4
    obtain ⟨_, segs, hs2, hch, hmap⟩ := repeatTill_segs cfg _ s2 [] l h5
    obtain ⟨text, blanks, hs, hne, hbl, hbody, hsep⟩ := parseTxn_seg cfg s1 s2 t h3
    subst hs2
    refine ⟨b0, ⟨text, blanks, t⟩ :: segs, ?_, hb, ?_, by simp [hmap], by simp⟩
    · rw [hs]; simp [flat]
    · refine Chain.cons ⟨text, blanks, t⟩ segs hne hbl ?_ hsep hch
      rw [← hs]; exact hbody
  · cases h
  · cases h
  · cases h

/-- the remainder after the grammar is empty: `Parser::parse`'s own end-of-input check never fires -/
theorem parseTxns_rest_nil (cfg : Time.TsCfg) (s r : List Char) (ts : List RawTxn)
    (h : parseTxns cfg s = .ok ts r) : r = [] := by
  unfold parseTxns at h
  obtain ⟨o, s1, _, h2⟩ := (Res.bind_ok _ _ _ _).mp h
  unfold repeatTill1 at h2
  obtain ⟨t, s2, _, h4⟩ := (Res.bind_ok _ _ _ _).mp h2
  obtain ⟨l, h5, _⟩ := (Res.map_ok _ _ _ _).mp h4
  exact (repeatTill_segs cfg _ s2 r l h5).1

/-! ## 3. Multi-file input is all-or-nothing -/

theorem mapMS_ok_all {σ α β} (f : σ → α → Outcome (β × σ)) :
    ∀ (l : List α) (s s' : σ) (bs : List β), mapMS f s l = .ok (bs, s') →
      ∀ a ∈ l, ∃ s₁ b s₂, f s₁ a = .ok (b, s₂) := by
  intro l
  induction l with
  | nil => intro s s' bs _ a ha; cases ha
  | cons x t ih =>
    intro s s' bs h a ha
    simp only [mapMS] at h
    split at h
    · rename_i b0 s1 hb0
      split at h
      · rename_i bs' s2 hbs'
        rcases List.mem_cons.mp ha with rfl | ha'
        · exact ⟨s, b0, s1, hb0⟩
        · exact ih s1 s2 bs' hbs' a ha'
      · cases h
      · cases h
    · cases h
    · cases h

/-- **C15 `files_fail_stop` (⇒).**  A multi-file load that succeeds has parsed and accepted every file
    (each in the settings state left by its predecessors). -/
theorem files_ok_all (cfg : Time.TsCfg) (st st' : Settings) (files : List (List Char)) (ts : List Txn)
    (h : loadFiles cfg st files = .ok (ts, st')) :
    ∀ f ∈ files, ∃ rs st₁ ts₁ st₂, parseJournal cfg f = some rs ∧ acceptJournal st₁ rs = .ok (ts₁, st₂) := by
  unfold loadFiles at h
  obtain ⟨r, h1, _⟩ := (Outcome.map_ok _ _ _).mp h
  intro f hf
  obtain ⟨s₁, b, s₂, hb⟩ := mapMS_ok_all _ files st r.2 r.1 (by simpa using h1) f hf
  unfold acceptText at hb
  split at hb
  · cases hb
  · rename_i rs hrs
    exact ⟨rs, s₁, b, s₂, hrs, hb⟩

theorem mapMS_not_ok {σ α β} (f : σ → α → Outcome (β × σ)) :
    ∀ (l : List α) (s : σ) (a : α), a ∈ l → (∀ s' r, f s' a ≠ .ok r) → ∀ r, mapMS f s l ≠ .ok r := by
  intro l s a ha hbad r h
  obtain ⟨bs, s'⟩ := r
  obtain ⟨s₁, b, s₂, hb⟩ := mapMS_ok_all f l s s' bs h a ha
  exact hbad s₁ (b, s₂) hb

/-- **C15 `files_fail_stop` (⇐).**  One file that is not accepted — syntax error, or rejected whatever the
    settings state — fails the whole load: no transaction of any other file is delivered. -/
theorem files_fail_stop (cfg : Time.TsCfg) (st : Settings) (files : List (List Char)) (f : List Char)
    (hf : f ∈ files)
    (hbad : parseJournal cfg f = none ∨ ∀ rs, parseJournal cfg f = some rs → ∀ st₁ r, acceptJournal st₁ rs ≠ .ok r) :
    ∀ r, loadFiles cfg st files ≠ .ok r := by
  intro r h
  unfold loadFiles at h
  obtain ⟨r', h1, _⟩ := (Outcome.map_ok _ _ _).mp h
  refine mapMS_not_ok (acceptText cfg) files st f hf ?_ r' h1
  intro s' r'' hb
  unfold acceptText at hb
  split at hb
  · cases hb
  · rename_i rs hrs
    rcases hbad with hn | ha
    · rw [hn] at hrs; cases hrs
    · exact ha rs hrs s' r'' hb

/-- a syntax error in the single-text load is an error (never a partial result) -/
theorem text_syntax_error (cfg : Time.TsCfg) (st : Settings) (s : List Char)
    (h : parseJournal cfg s = none) : loadText cfg st s = .err := by
  unfold loadText; rw [h]

/-- and an accepted text delivers exactly as many transactions as the grammar recognised -/
theorem text_all_or_nothing (cfg : Time.TsCfg) (st st' : Settings) (s : List Char) (ts : List Txn)
    (h : loadText cfg st s = .ok (ts, st')) :
    ∃ rs, parseJournal cfg s = some rs ∧ ts.length = rs.length := by
  unfold loadText at h
  split at h
  · cases h
  · rename_i rs hrs
    refine ⟨rs, hrs, ?_⟩
    unfold loadJournal at h
    split at h
    · cases h
    · obtain ⟨r, h1, h2⟩ := (Outcome.map_ok _ _ _).mp h
      cases h2
      have := mapMS_length acceptTxn _ st r.2 r.1 (by simpa [acceptJournal] using h1)
      simp only [sortTxns, List.length_mergeSort]
      exact this

/-! ## 4. Recursion structure -/

/-- **C15 `bounded_recursion_partial`.**
    Full statement (DESIGN.md): `stackDepth (loadPath s) ≤ K` for a constant `K` independent of `s`.
    Real stack consumption is runtime behaviour that the model cannot exhibit; what is proved is the model's
    recursion structure: (a) the parsers are a fixed, finite nest of non-recursive definitions — the only
    recursion on the load path is in the loops, all of which are iterations driven by fuel, and the fuel never
    exceeds the input length + 1 (`repeat0`, `repeatTill1` by definition); (b) the one loop that is a true
    recursion in Rust, `build_account_tree`, creates at most one ancestor per component of the account name,
    so its depth is bounded by the account depth — *not* by a constant: a 20 000-component account name
    (F11) is a known finding (stack use and quadratic time grow with the account depth; tested up to depth
    1 000). -/
theorem bounded_recursion_partial (other target : List Path) (p : Path) :
    (buildParents other target p).length ≤ target.length + (p.length - 1) := by
  unfold buildParents
  have key : ∀ (fuel : Nat) (target : List Path) (p : Path),
      (buildAccountTree other fuel target p).length ≤ target.length + (p.length - 1) := by
    intro fuel
    induction fuel with
    | zero => intro target p; simp [buildAccountTree]
    | succ n ih =>
      intro target p
      simp only [buildAccountTree]
      split
      · omega
      · split
        · omega
        · have := ih (target ++ [parentPath p]) (parentPath p)
          simp only [List.length_append, List.length_singleton, parentPath, List.length_dropLast] at this ⊢
          omega
  exact key _ _ _

/-! ## 5. Witnesses and non-vacuity -/

def utc : Time.TsCfg := Time.utcCfg

/-- a small journal is accepted by the grammar (the hypotheses of `whole_input` are satisfiable) -/
example : (parseJournal utc "\n2024-01-01 (c) 'd\n # tags: a:b, c\n ; note\n a:b  1.50 EUR @ 2 USD ; pc\n c  -3 USD\n\n2024-01-02\n x 1\n y\n".toList).isSome = true := by
  decide

/-- trailing garbage, a missing line ending after the last posting of a non-final transaction, an
    incomplete transaction: rejected as a whole -/
example : parseJournal utc "2024-01-01\n a 1\n b\nx".toList = none := by decide
example : parseJournal utc "2024-01-01\n a 1\n b\n2024-01-02\n a 1\n".toList = none := by decide
example : parseJournal utc "".toList = none := by decide

/-- a good file next to a bad file, in both orders: the load fails -/
example : (loadFiles utc (Settings.ofConfig false false true [] [] []) ["2024-01-01\n a 1\n b\n".toList, "2024-01-02\n a 1\n".toList]).isOk = false := by
  decide
example : (loadFiles utc (Settings.ofConfig false false true [] [] []) ["2024-01-02\n a 1\n".toList, "2024-01-01\n a 1\n b\n".toList]).isOk = false := by
  decide
example : (loadFiles utc (Settings.ofConfig false false true [] [] []) ["2024-01-02\n a 1\n b\n".toList, "2024-01-01\n a 1\n b\n".toList]).isOk = true := by
  decide

def maxDec : Dec := ⟨false, max96, 0⟩

/-- **F6 regression witness** (fixed): `79228162514264337593543950335 ACME @ 79228162514264337593543950335 EUR`
    is a semantic error (`checked_mul`), as is a posting sum beyond 96 bits (`checked_add`) -/
theorem F6_mul_overflow_is_error :
    valuePosition maxDec (some ⟨"ACME", none, some (.unitPrice ⟨maxDec, "EUR"⟩)⟩) = .err := by decide

theorem F6_sum_overflow_is_error :
    (loadText utc (Settings.ofConfig false false true [] [] [])
      "2024-01-01\n a 79228162514264337593543950335\n b 79228162514264337593543950335\n c\n".toList) = .err := by
  decide

/-- **F21 regression witness**: `a :b` passes `AccountTreeNode::from` (components are validated after
    trimming) but its parent `a ` does not — the site `expect("IE: synthetic parent is invalid")` was
    live; with the fix the journal is an ordinary error -/
theorem F21_parent_of_valid_name_invalid :
    atnOk ["a ".toList, "b".toList] = true ∧ atnOk ["a ".toList] = false := by decide

theorem F21_is_error : parseJournal utc "2024-01-01\n a :b  1\n c\n".toList = none := by decide

end C15
end Tackler


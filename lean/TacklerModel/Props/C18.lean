import TacklerModel.Lemmas.FilterDef
import TacklerModel.Props.C11
/-!
# C18 — filter definitions mean the same in every encoding and survive re-serialisation

Theorems over `Model/FilterDef.lean` (serde's view of `TxnFilter`/`FilterDefinition` as a JSON value, the armor layer,
base64, UTF-8, the textual description).  JSON *text* ⇄ JSON value is `serde_json`'s: every statement about texts takes
that layer as a parameter `P : String → Option JVal` and holds for every `P`.

**Views of a pattern.**  A compiled filter remembers `Regex::as_str()`; `Filter.re` fields hold that *stored* text here
(module header of `Model/FilterDef.lean`).  Deserialising pattern `p` stores `wrapStr p = ^(?:p)$`; serialising and
describing print `peelStr` of the stored text.  `stored f = mapRe wrapStr f` takes a filter of the *pattern* view used
by C05 (`re` = what the user wrote) to this view; `eval_stored` says both evaluate alike.

## Statements

* `json_roundtrip` — **the property**: a parsed definition, serialised and parsed again, is *the same* definition
  (`f' = f`), hence behaves identically under every matcher and is described identically in every zone.
* `fromJson_toJson` — the normal form that round-trips to syntactic equality, stated on its own: `Normal f` (stored
  patterns are `wrapStr p` of a pattern that compiles, decimals are well-formed without negative zero, instants are inside
  jiff's range, uuids are canonical text); `fromJson_normal`: everything `fromJson` accepts is normal.
  `json_roundtrip_patterns`: for every pattern-view filter (arbitrary pattern texts that compile — also ones that already
  contain anchors or the wrapper text) the stored form round-trips, is serialised as *the user's own pattern text*, and
  evaluates as the whole-string match of C05/C11.
  `not_normal_changes`: a filter whose stored text is **not** of the wrapped form (only constructible in Rust code, never
  by parsing) does change meaning when serialised and parsed — the normal form is necessary.
* `wrap_once`, `wrap_once_any`, `patterns_wrapped_once`, `rounds_fixed` — after any number of serialise/parse rounds the
  stored text is `wrapStr p` exactly once; `stored_is_whole_match`: and it is applied as one whole-string match.
* `armor_equiv`, `armor_equiv_encoded`, `armor_of_text`, `armored_same_as_plain`, `parseDefinition_armored`,
  `parseDefinition_plain` — armor and plain JSON mean the same, for every text and every JSON text layer.
* `b64_roundtrip`, `b64_canonical`, `b64_rejects_length`, `b64_rejects_symbol`, `b64_rejects_padding_inside` — base64.
* `reject_*` — every malformed class is an error (never `ok`, never silently ignored): armor prefix absent / repeated
  (F7), bad base64, bad UTF-8, text that is not JSON, not an object / several variants / unknown variant, a required field
  absent or given twice, wrong types, invalid regex, uuid, number, timestamp.
* `number_unchanged`, `instant_unchanged`, `number_value_unchanged` — numbers and instants survive the text form.
* `F7_witness` — before the fix a repeated armor prefix was accepted.
-/
namespace Tackler
namespace C18
open FilterDef Regex

/-! ## serialise, then parse: the normal form is a fixed point -/

theorem dec_text (d : Dec) (h : DecNormal d) : decOfText d.toString.toList = .ok d := by
  unfold Dec.toString
  rw [String.toList_ofList]
  exact decOfText_toChars d h

theorem ts_text (ns : Int) (h : Time.instantOk ns = true) : parseTsJson (tsText ns).toList = .ok ns := by
  unfold tsText
  rw [String.toList_ofList]
  exact parseTsJson_tsJsonChars ns h

theorem reLeaf_reObj (mk : String → Filter) (re : String) (h : ReNormal re) : reLeaf mk (reObj re) = .ok (mk re) := by
  obtain ⟨p, rfl, hc⟩ := h
  simp [reLeaf, reObj, struct1, getField, fieldVals, Outcome.bind, reField, C11.peel_wrap, hc, Outcome.map]

theorem amountLeaf_amountObj (mk : String → Dec → Filter) (re : String) (x : Dec) (h : ReNormal re) (hx : DecNormal x) :
    amountLeaf mk (amountObj re x) = .ok (mk re x) := by
  obtain ⟨p, rfl, hc⟩ := h
  simp [amountLeaf, amountObj, struct2, getField, fieldVals, Outcome.bind, reField, C11.peel_wrap, hc, Outcome.map, decField,
    dec_text x hx]

mutual
theorem fromJsonF_toJsonF : ∀ (f : Filter), Normal f → fromJsonF (toJsonF f) = .ok f
  | .tt, _ => by simp [toJsonF, fromJsonF, leafOf, struct0, Outcome.map]
  | .ff, _ => by simp [toJsonF, fromJsonF, leafOf, struct0, Outcome.map]
  | .and fs, h => by
      simp only [Normal] at h
      simp [toJsonF, fromJsonF, contentFilters, fieldsFilters, pick1, valFilters, fromJsonArr_toJsonList fs h, Outcome.map]
  | .or fs, h => by
      simp only [Normal] at h
      simp [toJsonF, fromJsonF, contentFilters, fieldsFilters, pick1, valFilters, fromJsonArr_toJsonList fs h, Outcome.map]
  | .not f, h => by
      simp only [Normal] at h
      simp [toJsonF, fromJsonF, contentFilter, fieldsFilter, pick1, fromJsonF_toJsonF f h, Outcome.map]
  | .tsBegin ns, h => by
      simp only [Normal] at h
      simp [toJsonF, fromJsonF, leafOf, struct1, getField, fieldVals, Outcome.bind, tsField, ts_text ns h, Outcome.map]
  | .tsEnd ns, h => by
      simp only [Normal] at h
      simp [toJsonF, fromJsonF, leafOf, struct1, getField, fieldVals, Outcome.bind, tsField, ts_text ns h, Outcome.map]
  | .code re, h => by
      simp only [Normal] at h
      simp [toJsonF, fromJsonF, leafOf, reLeaf_reObj _ re h]
  | .desc re, h => by
      simp only [Normal] at h
      simp [toJsonF, fromJsonF, leafOf, reLeaf_reObj _ re h]
  | .uuid u, h => by
      simp only [Normal, UuidNormal] at h
      simp [toJsonF, fromJsonF, leafOf, struct1, getField, fieldVals, Outcome.bind, uuidField, h, Outcome.map, String.ofList_toList]
  | .bbox s w n e, h => by
      simp only [Normal] at h
      obtain ⟨h1, h2, h3, h4⟩ := h
      simp [toJsonF, fromJsonF, leafOf, struct4, getField, fieldVals, Outcome.bind, decField, dec_text _ h1, dec_text _ h2,
        dec_text _ h3, dec_text _ h4, Outcome.map]
  | .bbox3 s w d n e hh, h => by
      simp only [Normal] at h
      obtain ⟨h1, h2, h3, h4, h5, h6⟩ := h
      simp [toJsonF, fromJsonF, leafOf, struct6, getField, fieldVals, Outcome.bind, decField, dec_text _ h1, dec_text _ h2,
        dec_text _ h3, dec_text _ h4, dec_text _ h5, dec_text _ h6, Outcome.map]
  | .tags re, h => by
      simp only [Normal] at h
      simp [toJsonF, fromJsonF, leafOf, reLeaf_reObj _ re h]
  | .comments re, h => by
      simp only [Normal] at h
      simp [toJsonF, fromJsonF, leafOf, reLeaf_reObj _ re h]
  | .postAccount re, h => by
      simp only [Normal] at h
      simp [toJsonF, fromJsonF, leafOf, reLeaf_reObj _ re h]
  | .postComment re, h => by
      simp only [Normal] at h
      simp [toJsonF, fromJsonF, leafOf, reLeaf_reObj _ re h]
  | .postAmountEq re x, h => by
      simp only [Normal] at h
      simp [toJsonF, fromJsonF, leafOf, amountLeaf_amountObj _ re x h.1 h.2]
  | .postAmountLess re x, h => by
      simp only [Normal] at h
      simp [toJsonF, fromJsonF, leafOf, amountLeaf_amountObj _ re x h.1 h.2]
  | .postAmountGreater re x, h => by
      simp only [Normal] at h
      simp [toJsonF, fromJsonF, leafOf, amountLeaf_amountObj _ re x h.1 h.2]
  | .postCommodity re, h => by
      simp only [Normal] at h
      simp [toJsonF, fromJsonF, leafOf, reLeaf_reObj _ re h]
theorem fromJsonArr_toJsonList : ∀ (fs : List Filter), NormalList fs → fromJsonArr (toJsonList fs) = .ok fs
  | [], _ => by simp [toJsonList, fromJsonArr]
  | f :: fs, h => by
      simp only [NormalList] at h
      simp [toJsonList, fromJsonArr, fromJsonF_toJsonF f h.1, fromJsonArr_toJsonList fs h.2, Outcome.bind, Outcome.map]
end

theorem fromJson_toJson (f : Filter) (h : Normal f) : fromJson (toJson f) = .ok f := by
  simp [toJson, fromJson, fieldsFilter, pick1, fromJsonF_toJsonF f h]


/-! ## whatever is parsed is in normal form -/

theorem compileFull_ok (s re : String) (h : compileFull s = .ok re) : re = wrapStr s := by
  unfold compileFull at h
  (repeat' split at h) <;> first | (cases h; done) | (cases h; rfl)

theorem reField_normal (v : JVal) (re : String) (h : reField v = .ok re) : ReNormal re := by
  unfold reField at h
  split at h
  · rename_i s
    have := compileFull_ok s re h
    subst this
    exact ⟨s, rfl, h⟩
  · cases h

theorem tsField_normal (v : JVal) (ns : Int) (h : tsField v = .ok ns) : Time.instantOk ns = true := by
  unfold tsField at h
  split at h
  · exact parseTsJson_ok _ _ h
  · cases h

theorem uuidField_normal (v : JVal) (u : String) (h : uuidField v = .ok u) : UuidNormal u := by
  unfold uuidField at h
  split at h
  · split at h
    · rename_i s c hc
      cases h
      unfold UuidNormal
      rw [String.toList_ofList]
      exact uuidParse_idem _ _ hc
    · cases h
  · cases h

theorem reLeaf_normal (mk : String → Filter) (content : JVal) (f : Filter) (hmk : ∀ re, ReNormal re → Normal (mk re))
    (h : reLeaf mk content = .ok f) : Normal f := by
  unfold reLeaf at h
  obtain ⟨v, _, h2⟩ := (Outcome.bind_ok _ _ _).mp h
  obtain ⟨re, h3, rfl⟩ := (Outcome.map_ok _ _ _).mp h2
  exact hmk re (reField_normal v re h3)

theorem amountLeaf_normal (mk : String → Dec → Filter) (content : JVal) (f : Filter)
    (hmk : ∀ re x, ReNormal re → DecNormal x → Normal (mk re x)) (h : amountLeaf mk content = .ok f) : Normal f := by
  unfold amountLeaf at h
  obtain ⟨p, _, h2⟩ := (Outcome.bind_ok _ _ _).mp h
  obtain ⟨re, h3, h4⟩ := (Outcome.bind_ok _ _ _).mp h2
  obtain ⟨x, h5, rfl⟩ := (Outcome.map_ok _ _ _).mp h4
  exact hmk re x (reField_normal _ re h3) (decField_normal _ x h5)

theorem leafOf_normal (tag : String) (content : JVal) (f : Filter) (h : leafOf tag content = .ok f) : Normal f := by
  unfold leafOf at h
  by_cases c0 : tag = "NullaryTRUE"
  · rw [if_pos c0] at h
    obtain ⟨_, _, rfl⟩ := (Outcome.map_ok _ _ _).mp h; simp only [Normal]
  rw [if_neg c0] at h
  by_cases c1 : tag = "NullaryFALSE"
  · rw [if_pos c1] at h
    obtain ⟨_, _, rfl⟩ := (Outcome.map_ok _ _ _).mp h; simp only [Normal]
  rw [if_neg c1] at h
  by_cases c2 : tag = "TxnFilterTxnTSBegin"
  · rw [if_pos c2] at h
    obtain ⟨v, _, h2⟩ := (Outcome.bind_ok _ _ _).mp h
    obtain ⟨ns, h3, rfl⟩ := (Outcome.map_ok _ _ _).mp h2
    simp only [Normal]; exact tsField_normal v ns h3
  rw [if_neg c2] at h
  by_cases c3 : tag = "TxnFilterTxnTSEnd"
  · rw [if_pos c3] at h
    obtain ⟨v, _, h2⟩ := (Outcome.bind_ok _ _ _).mp h
    obtain ⟨ns, h3, rfl⟩ := (Outcome.map_ok _ _ _).mp h2
    simp only [Normal]; exact tsField_normal v ns h3
  rw [if_neg c3] at h
  by_cases c4 : tag = "TxnFilterTxnCode"
  · rw [if_pos c4] at h
    exact reLeaf_normal _ _ _ (fun re hre => by simpa only [Normal] using hre) h
  rw [if_neg c4] at h
  by_cases c5 : tag = "TxnFilterTxnDescription"
  · rw [if_pos c5] at h
    exact reLeaf_normal _ _ _ (fun re hre => by simpa only [Normal] using hre) h
  rw [if_neg c5] at h
  by_cases c6 : tag = "TxnFilterTxnUUID"
  · rw [if_pos c6] at h
    obtain ⟨v, _, h2⟩ := (Outcome.bind_ok _ _ _).mp h
    obtain ⟨u, h3, rfl⟩ := (Outcome.map_ok _ _ _).mp h2
    simp only [Normal]; exact uuidField_normal v u h3
  rw [if_neg c6] at h
  by_cases c7 : tag = "TxnFilterBBoxLatLon"
  · rw [if_pos c7] at h
    obtain ⟨p, _, h2⟩ := (Outcome.bind_ok _ _ _).mp h
    obtain ⟨s, hs, h3⟩ := (Outcome.bind_ok _ _ _).mp h2
    obtain ⟨w, hw, h4⟩ := (Outcome.bind_ok _ _ _).mp h3
    obtain ⟨n, hn, h5⟩ := (Outcome.bind_ok _ _ _).mp h4
    obtain ⟨e, he, rfl⟩ := (Outcome.map_ok _ _ _).mp h5
    simp only [Normal]
    exact ⟨decField_normal _ _ hs, decField_normal _ _ hw, decField_normal _ _ hn, decField_normal _ _ he⟩
  rw [if_neg c7] at h
  by_cases c8 : tag = "TxnFilterBBoxLatLonAlt"
  · rw [if_pos c8] at h
    obtain ⟨p, _, h2⟩ := (Outcome.bind_ok _ _ _).mp h
    obtain ⟨s, hs, h3⟩ := (Outcome.bind_ok _ _ _).mp h2
    obtain ⟨w, hw, h4⟩ := (Outcome.bind_ok _ _ _).mp h3
    obtain ⟨d, hd, h5⟩ := (Outcome.bind_ok _ _ _).mp h4
    obtain ⟨n, hn, h6⟩ := (Outcome.bind_ok _ _ _).mp h5
    obtain ⟨e, he, h7⟩ := (Outcome.bind_ok _ _ _).mp h6
    obtain ⟨hh, hhh, rfl⟩ := (Outcome.map_ok _ _ _).mp h7
    simp only [Normal]
    exact ⟨decField_normal _ _ hs, decField_normal _ _ hw, decField_normal _ _ hd, decField_normal _ _ hn,
      decField_normal _ _ he, decField_normal _ _ hhh⟩
  rw [if_neg c8] at h
  by_cases c9 : tag = "TxnFilterTxnTags"
  · rw [if_pos c9] at h
    exact reLeaf_normal _ _ _ (fun re hre => by simpa only [Normal] using hre) h
  rw [if_neg c9] at h
  by_cases c10 : tag = "TxnFilterTxnComments"
  · rw [if_pos c10] at h
    exact reLeaf_normal _ _ _ (fun re hre => by simpa only [Normal] using hre) h
  rw [if_neg c10] at h
  by_cases c11 : tag = "TxnFilterPostingAccount"
  · rw [if_pos c11] at h
    exact reLeaf_normal _ _ _ (fun re hre => by simpa only [Normal] using hre) h
  rw [if_neg c11] at h
  by_cases c12 : tag = "TxnFilterPostingComment"
  · rw [if_pos c12] at h
    exact reLeaf_normal _ _ _ (fun re hre => by simpa only [Normal] using hre) h
  rw [if_neg c12] at h
  by_cases c13 : tag = "TxnFilterPostingAmountEqual"
  · rw [if_pos c13] at h
    exact amountLeaf_normal _ _ _ (fun re x hre hx => by simpa only [Normal] using And.intro hre hx) h
  rw [if_neg c13] at h
  by_cases c14 : tag = "TxnFilterPostingAmountLess"
  · rw [if_pos c14] at h
    exact amountLeaf_normal _ _ _ (fun re x hre hx => by simpa only [Normal] using And.intro hre hx) h
  rw [if_neg c14] at h
  by_cases c15 : tag = "TxnFilterPostingAmountGreater"
  · rw [if_pos c15] at h
    exact amountLeaf_normal _ _ _ (fun re x hre hx => by simpa only [Normal] using And.intro hre hx) h
  rw [if_neg c15] at h
  by_cases c16 : tag = "TxnFilterPostingCommodity"
  · rw [if_pos c16] at h
    exact reLeaf_normal _ _ _ (fun re hre => by simpa only [Normal] using hre) h
  rw [if_neg c16] at h
  cases h

/-- the values of key `txnFilters`, read as filter lists -/
theorem fieldsFilters_eq : ∀ (fields : List (String × JVal)), fieldsFilters fields = (fieldVals "txnFilters" fields).map valFilters
  | [] => by simp [fieldsFilters, fieldVals]
  | (k, v) :: rest => by
    simp only [fieldsFilters, fieldVals]
    split <;> simp [fieldsFilters_eq rest]

theorem fieldsFilter_eq : ∀ (fields : List (String × JVal)), fieldsFilter fields = (fieldVals "txnFilter" fields).map fromJsonF
  | [] => by simp [fieldsFilter, fieldVals]
  | (k, v) :: rest => by
    simp only [fieldsFilter, fieldVals]
    split <;> simp [fieldsFilter_eq rest]

theorem pick1_ok {α} (l : List (Outcome α)) (a : α) (h : pick1 l = .ok a) : l = [.ok a] := by
  unfold pick1 at h
  split at h
  · rw [h]
  · cases h

/-- the logic variants read their sub-filters through the same struct rules as every other variant -/
theorem contentFilter_eq (j : JVal) : contentFilter j = (struct1 "txnFilter" j).bind fromJsonF := by
  unfold contentFilter struct1
  split
  · rename_i fields
    rw [fieldsFilter_eq]
    unfold getField
    cases h : fieldVals "txnFilter" fields with
    | nil => simp [pick1, Outcome.bind]
    | cons v t =>
      cases t with
      | nil => simp [pick1, Outcome.bind]
      | cons w t => simp [pick1, Outcome.bind]
  · simp [Outcome.bind]
  · rfl

theorem contentFilters_eq (j : JVal) : contentFilters j = (struct1 "txnFilters" j).bind valFilters := by
  unfold contentFilters struct1
  split
  · rename_i fields
    rw [fieldsFilters_eq]
    unfold getField
    cases h : fieldVals "txnFilters" fields with
    | nil => simp [pick1, Outcome.bind]
    | cons v t =>
      cases t with
      | nil => simp [pick1, Outcome.bind]
      | cons w t => simp [pick1, Outcome.bind]
  · simp [Outcome.bind]
  · rfl


theorem valFilters_inv (v : JVal) (fs : List Filter) (h : valFilters v = .ok fs) : ∃ items, v = .arr items ∧ fromJsonArr items = .ok fs := by
  unfold valFilters at h
  split at h
  · exact ⟨_, rfl, h⟩
  · cases h

theorem contentFilters_inv (j : JVal) (fs : List Filter) (h : contentFilters j = .ok fs) : ∃ items, fromJsonArr items = .ok fs := by
  rw [contentFilters_eq] at h
  obtain ⟨v, _, h2⟩ := (Outcome.bind_ok _ _ _).mp h
  obtain ⟨items, _, h3⟩ := valFilters_inv v fs h2
  exact ⟨items, h3⟩

theorem contentFilter_inv (j : JVal) (f : Filter) (h : contentFilter j = .ok f) : ∃ v, fromJsonF v = .ok f := by
  rw [contentFilter_eq] at h
  obtain ⟨v, _, h2⟩ := (Outcome.bind_ok _ _ _).mp h
  exact ⟨v, h2⟩

/-- how `fromJsonF` can succeed -/
theorem fromJsonF_inv (j : JVal) (f : Filter) (h : fromJsonF j = .ok f) :
    (∃ fs items, f = .and fs ∧ fromJsonArr items = .ok fs) ∨ (∃ fs items, f = .or fs ∧ fromJsonArr items = .ok fs) ∨
    (∃ g v, f = .not g ∧ fromJsonF v = .ok g) ∨ (∃ tag content, leafOf tag content = .ok f) := by
  unfold fromJsonF at h
  split at h
  · rename_i tag content
    by_cases c1 : tag = "TxnFilterAND"
    · rw [if_pos c1] at h
      obtain ⟨fs, h1, rfl⟩ := (Outcome.map_ok _ _ _).mp h
      obtain ⟨items, hi⟩ := contentFilters_inv _ _ h1
      exact Or.inl ⟨fs, items, rfl, hi⟩
    rw [if_neg c1] at h
    by_cases c2 : tag = "TxnFilterOR"
    · rw [if_pos c2] at h
      obtain ⟨fs, h1, rfl⟩ := (Outcome.map_ok _ _ _).mp h
      obtain ⟨items, hi⟩ := contentFilters_inv _ _ h1
      exact Or.inr (Or.inl ⟨fs, items, rfl, hi⟩)
    rw [if_neg c2] at h
    by_cases c3 : tag = "TxnFilterNOT"
    · rw [if_pos c3] at h
      obtain ⟨g, h1, rfl⟩ := (Outcome.map_ok _ _ _).mp h
      obtain ⟨v, hv⟩ := contentFilter_inv _ _ h1
      exact Or.inr (Or.inr (Or.inl ⟨g, v, rfl, hv⟩))
    rw [if_neg c3] at h
    exact Or.inr (Or.inr (Or.inr ⟨tag, content, h⟩))
  · cases h

theorem fromJsonArr_inv (items : List JVal) (f : Filter) (fs : List Filter) (h : fromJsonArr items = .ok (f :: fs)) :
    ∃ v vs, fromJsonF v = .ok f ∧ fromJsonArr vs = .ok fs := by
  cases items with
  | nil => simp [fromJsonArr] at h
  | cons v vs =>
    simp only [fromJsonArr] at h
    obtain ⟨g, hg, h2⟩ := (Outcome.bind_ok _ _ _).mp h
    obtain ⟨gs, hgs, h3⟩ := (Outcome.map_ok _ _ _).mp h2
    simp only [List.cons.injEq] at h3
    obtain ⟨rfl, rfl⟩ := h3
    exact ⟨v, vs, hg, hgs⟩

mutual
/-- **whatever `fromJsonF` accepts is in normal form** -/
theorem normal_of_fromJsonF : ∀ (f : Filter) (j : JVal), fromJsonF j = .ok f → Normal f
  | .and fs, j, h => by
    rcases fromJsonF_inv j _ h with ⟨fs', items, e, hi⟩ | ⟨fs', items, e, hi⟩ | ⟨g, v, e, hv⟩ | ⟨tag, content, hl⟩
    · cases e; simp only [Normal]; exact normal_of_fromJsonArr fs items hi
    · cases e
    · cases e
    · exact leafOf_normal tag content _ hl
  | .or fs, j, h => by
    rcases fromJsonF_inv j _ h with ⟨fs', items, e, hi⟩ | ⟨fs', items, e, hi⟩ | ⟨g, v, e, hv⟩ | ⟨tag, content, hl⟩
    · cases e
    · cases e; simp only [Normal]; exact normal_of_fromJsonArr fs items hi
    · cases e
    · exact leafOf_normal tag content _ hl
  | .not g, j, h => by
    rcases fromJsonF_inv j _ h with ⟨fs', items, e, hi⟩ | ⟨fs', items, e, hi⟩ | ⟨g', v, e, hv⟩ | ⟨tag, content, hl⟩
    · cases e
    · cases e
    · cases e; simp only [Normal]; exact normal_of_fromJsonF g v hv
    · exact leafOf_normal tag content _ hl
  | .tt, j, h => by
    rcases fromJsonF_inv j _ h with ⟨_, _, e, _⟩ | ⟨_, _, e, _⟩ | ⟨_, _, e, _⟩ | ⟨tag, content, hl⟩
    · cases e
    · cases e
    · cases e
    · exact leafOf_normal tag content _ hl
  | .ff, j, h => by
    rcases fromJsonF_inv j _ h with ⟨_, _, e, _⟩ | ⟨_, _, e, _⟩ | ⟨_, _, e, _⟩ | ⟨tag, content, hl⟩
    · cases e
    · cases e
    · cases e
    · exact leafOf_normal tag content _ hl
  | .tsBegin _, j, h => by
    rcases fromJsonF_inv j _ h with ⟨_, _, e, _⟩ | ⟨_, _, e, _⟩ | ⟨_, _, e, _⟩ | ⟨tag, content, hl⟩
    · cases e
    · cases e
    · cases e
    · exact leafOf_normal tag content _ hl
  | .tsEnd _, j, h => by
    rcases fromJsonF_inv j _ h with ⟨_, _, e, _⟩ | ⟨_, _, e, _⟩ | ⟨_, _, e, _⟩ | ⟨tag, content, hl⟩
    · cases e
    · cases e
    · cases e
    · exact leafOf_normal tag content _ hl
  | .code _, j, h => by
    rcases fromJsonF_inv j _ h with ⟨_, _, e, _⟩ | ⟨_, _, e, _⟩ | ⟨_, _, e, _⟩ | ⟨tag, content, hl⟩
    · cases e
    · cases e
    · cases e
    · exact leafOf_normal tag content _ hl
  | .desc _, j, h => by
    rcases fromJsonF_inv j _ h with ⟨_, _, e, _⟩ | ⟨_, _, e, _⟩ | ⟨_, _, e, _⟩ | ⟨tag, content, hl⟩
    · cases e
    · cases e
    · cases e
    · exact leafOf_normal tag content _ hl
  | .uuid _, j, h => by
    rcases fromJsonF_inv j _ h with ⟨_, _, e, _⟩ | ⟨_, _, e, _⟩ | ⟨_, _, e, _⟩ | ⟨tag, content, hl⟩
    · cases e
    · cases e
    · cases e
    · exact leafOf_normal tag content _ hl
  | .bbox _ _ _ _, j, h => by
    rcases fromJsonF_inv j _ h with ⟨_, _, e, _⟩ | ⟨_, _, e, _⟩ | ⟨_, _, e, _⟩ | ⟨tag, content, hl⟩
    · cases e
    · cases e
    · cases e
    · exact leafOf_normal tag content _ hl
  | .bbox3 _ _ _ _ _ _, j, h => by
    rcases fromJsonF_inv j _ h with ⟨_, _, e, _⟩ | ⟨_, _, e, _⟩ | ⟨_, _, e, _⟩ | ⟨tag, content, hl⟩
    · cases e
    · cases e
    · cases e
    · exact leafOf_normal tag content _ hl
  | .tags _, j, h => by
    rcases fromJsonF_inv j _ h with ⟨_, _, e, _⟩ | ⟨_, _, e, _⟩ | ⟨_, _, e, _⟩ | ⟨tag, content, hl⟩
    · cases e
    · cases e
    · cases e
    · exact leafOf_normal tag content _ hl
  | .comments _, j, h => by
    rcases fromJsonF_inv j _ h with ⟨_, _, e, _⟩ | ⟨_, _, e, _⟩ | ⟨_, _, e, _⟩ | ⟨tag, content, hl⟩
    · cases e
    · cases e
    · cases e
    · exact leafOf_normal tag content _ hl
  | .postAccount _, j, h => by
    rcases fromJsonF_inv j _ h with ⟨_, _, e, _⟩ | ⟨_, _, e, _⟩ | ⟨_, _, e, _⟩ | ⟨tag, content, hl⟩
    · cases e
    · cases e
    · cases e
    · exact leafOf_normal tag content _ hl
  | .postComment _, j, h => by
    rcases fromJsonF_inv j _ h with ⟨_, _, e, _⟩ | ⟨_, _, e, _⟩ | ⟨_, _, e, _⟩ | ⟨tag, content, hl⟩
    · cases e
    · cases e
    · cases e
    · exact leafOf_normal tag content _ hl
  | .postAmountEq _ _, j, h => by
    rcases fromJsonF_inv j _ h with ⟨_, _, e, _⟩ | ⟨_, _, e, _⟩ | ⟨_, _, e, _⟩ | ⟨tag, content, hl⟩
    · cases e
    · cases e
    · cases e
    · exact leafOf_normal tag content _ hl
  | .postAmountLess _ _, j, h => by
    rcases fromJsonF_inv j _ h with ⟨_, _, e, _⟩ | ⟨_, _, e, _⟩ | ⟨_, _, e, _⟩ | ⟨tag, content, hl⟩
    · cases e
    · cases e
    · cases e
    · exact leafOf_normal tag content _ hl
  | .postAmountGreater _ _, j, h => by
    rcases fromJsonF_inv j _ h with ⟨_, _, e, _⟩ | ⟨_, _, e, _⟩ | ⟨_, _, e, _⟩ | ⟨tag, content, hl⟩
    · cases e
    · cases e
    · cases e
    · exact leafOf_normal tag content _ hl
  | .postCommodity _, j, h => by
    rcases fromJsonF_inv j _ h with ⟨_, _, e, _⟩ | ⟨_, _, e, _⟩ | ⟨_, _, e, _⟩ | ⟨tag, content, hl⟩
    · cases e
    · cases e
    · cases e
    · exact leafOf_normal tag content _ hl
theorem normal_of_fromJsonArr : ∀ (fs : List Filter) (items : List JVal), fromJsonArr items = .ok fs → NormalList fs
  | [], _, _ => by simp only [NormalList]
  | f :: fs, items, h => by
    obtain ⟨v, vs, hv, hvs⟩ := fromJsonArr_inv items f fs h
    simp only [NormalList]
    exact ⟨normal_of_fromJsonF f v hv, normal_of_fromJsonArr fs vs hvs⟩
end

theorem fromJson_inv (j : JVal) (f : Filter) (h : fromJson j = .ok f) : ∃ v, fromJsonF v = .ok f := by
  unfold fromJson at h
  split at h
  · rename_i fields
    have := pick1_ok _ _ h
    rw [fieldsFilter_eq] at this
    cases hv : fieldVals "txnFilter" fields with
    | nil => rw [hv] at this; simp at this
    | cons v t =>
      rw [hv] at this
      simp only [List.map_cons, List.cons.injEq] at this
      exact ⟨v, this.1⟩
  · exact ⟨_, h⟩
  · cases h

theorem fromJson_normal (j : JVal) (f : Filter) (h : fromJson j = .ok f) : Normal f := by
  obtain ⟨v, hv⟩ := fromJson_inv j f h
  exact normal_of_fromJsonF f v hv


/-! ## the twenty variants (how `fromJsonF` reads each) -/

theorem variant_true (c : JVal) : fromJsonF (.obj [("NullaryTRUE", c)]) = (struct0 c).map fun _ => .tt := rfl
theorem variant_false (c : JVal) : fromJsonF (.obj [("NullaryFALSE", c)]) = (struct0 c).map fun _ => .ff := rfl
theorem variant_and (c : JVal) : fromJsonF (.obj [("TxnFilterAND", c)]) = (contentFilters c).map .and := rfl
theorem variant_or (c : JVal) : fromJsonF (.obj [("TxnFilterOR", c)]) = (contentFilters c).map .or := rfl
theorem variant_not (c : JVal) : fromJsonF (.obj [("TxnFilterNOT", c)]) = (contentFilter c).map .not := rfl
theorem variant_tsBegin (c : JVal) :
    fromJsonF (.obj [("TxnFilterTxnTSBegin", c)]) = (struct1 "begin" c).bind fun v => (tsField v).map .tsBegin := rfl
theorem variant_tsEnd (c : JVal) :
    fromJsonF (.obj [("TxnFilterTxnTSEnd", c)]) = (struct1 "end" c).bind fun v => (tsField v).map .tsEnd := rfl
theorem variant_code (c : JVal) : fromJsonF (.obj [("TxnFilterTxnCode", c)]) = reLeaf .code c := rfl
theorem variant_desc (c : JVal) : fromJsonF (.obj [("TxnFilterTxnDescription", c)]) = reLeaf .desc c := rfl
theorem variant_uuid (c : JVal) :
    fromJsonF (.obj [("TxnFilterTxnUUID", c)]) = (struct1 "uuid" c).bind fun v => (uuidField v).map .uuid := rfl
theorem variant_bbox (c : JVal) :
    fromJsonF (.obj [("TxnFilterBBoxLatLon", c)]) = (struct4 "south" "west" "north" "east" c).bind fun p =>
      (decField p.1).bind fun s => (decField p.2.1).bind fun w =>
      (decField p.2.2.1).bind fun n => (decField p.2.2.2).map fun e => .bbox s w n e := rfl
theorem variant_bbox3 (c : JVal) :
    fromJsonF (.obj [("TxnFilterBBoxLatLonAlt", c)]) = (struct6 "south" "west" "depth" "north" "east" "height" c).bind fun p =>
      (decField p.1).bind fun s => (decField p.2.1).bind fun w => (decField p.2.2.1).bind fun d =>
      (decField p.2.2.2.1).bind fun n => (decField p.2.2.2.2.1).bind fun e =>
      (decField p.2.2.2.2.2).map fun h => .bbox3 s w d n e h := rfl
theorem variant_tags (c : JVal) : fromJsonF (.obj [("TxnFilterTxnTags", c)]) = reLeaf .tags c := rfl
theorem variant_comments (c : JVal) : fromJsonF (.obj [("TxnFilterTxnComments", c)]) = reLeaf .comments c := rfl
theorem variant_postAccount (c : JVal) : fromJsonF (.obj [("TxnFilterPostingAccount", c)]) = reLeaf .postAccount c := rfl
theorem variant_postComment (c : JVal) : fromJsonF (.obj [("TxnFilterPostingComment", c)]) = reLeaf .postComment c := rfl
theorem variant_amountEq (c : JVal) : fromJsonF (.obj [("TxnFilterPostingAmountEqual", c)]) = amountLeaf .postAmountEq c := rfl
theorem variant_amountLess (c : JVal) : fromJsonF (.obj [("TxnFilterPostingAmountLess", c)]) = amountLeaf .postAmountLess c := rfl
theorem variant_amountGreater (c : JVal) :
    fromJsonF (.obj [("TxnFilterPostingAmountGreater", c)]) = amountLeaf .postAmountGreater c := rfl
theorem variant_postCommodity (c : JVal) : fromJsonF (.obj [("TxnFilterPostingCommodity", c)]) = reLeaf .postCommodity c := rfl

/-! ## the property -/

/-- **C18 main theorem.**  Serialising a parsed definition and parsing it again yields the very same definition:
    identical behaviour under every matcher, identical description in every zone. -/
theorem json_roundtrip (j : JVal) (f : Filter) (h : fromJson j = .ok f) :
    ∃ f', fromJson (toJson f) = .ok f' ∧ f' = f ∧
      (∀ (m : String → String → Bool) (t : Txn), Filter.eval m f' t = Filter.eval m f t) ∧
      (∀ off : Int, describe off f' = describe off f) :=
  ⟨f, fromJson_toJson f (fromJson_normal j f h), rfl, fun _ _ => rfl, fun _ => rfl⟩

/-- the re-serialised value is a fixed point of parse-then-serialise -/
theorem reserialise_fixed (j : JVal) (f : Filter) (h : fromJson j = .ok f) :
    (fromJson (toJson f)).map toJson = .ok (toJson f) := by
  rw [fromJson_toJson f (fromJson_normal j f h)]; rfl

/-- any number of serialise / parse rounds -/
def roundN : Nat → Filter → Outcome Filter
  | 0, f => .ok f
  | n + 1, f => (roundN n f).bind fun g => fromJson (toJson g)

theorem rounds_fixed (n : Nat) (f : Filter) (h : Normal f) : roundN n f = .ok f := by
  induction n with
  | zero => rfl
  | succ n ih => simp only [roundN, ih, Outcome.bind, fromJson_toJson f h]

/-! ## the pattern view of C05 -/

/-- `new_full_haystack_regex(pat).is_match(hay)` (the matcher the drivers use for C05: `Ops.regexMatch`) -/
def fullMatch (pat hay : String) : Bool :=
  match newFullHaystack pat with
  | some r => search r hay.toList
  | none => false

theorem storedMatch_wrap (p hay : String) : storedMatch (wrapStr p) hay = fullMatch p hay := rfl

mutual
/-- a pattern-view filter and its stored form select the same transactions -/
theorem eval_stored : ∀ (f : Filter) (t : Txn), Filter.eval storedMatch (stored f) t = Filter.eval fullMatch f t
  | .tt, _ => rfl
  | .ff, _ => rfl
  | .and fs, t => by simp only [stored, mapRe, Filter.eval]; exact evalAll_stored fs t
  | .or fs, t => by simp only [stored, mapRe, Filter.eval]; exact evalAny_stored fs t
  | .not f, t => by
    have := eval_stored f t
    simp only [stored] at this
    simp only [stored, mapRe, Filter.eval, this]
  | .tsBegin _, _ => rfl
  | .tsEnd _, _ => rfl
  | .code _, _ => rfl
  | .desc _, _ => rfl
  | .uuid _, _ => rfl
  | .bbox _ _ _ _, _ => rfl
  | .bbox3 _ _ _ _ _ _, _ => rfl
  | .tags _, _ => rfl
  | .comments _, _ => rfl
  | .postAccount _, _ => rfl
  | .postComment _, _ => rfl
  | .postAmountEq _ _, _ => rfl
  | .postAmountLess _ _, _ => rfl
  | .postAmountGreater _ _, _ => rfl
  | .postCommodity _, _ => rfl
theorem evalAll_stored : ∀ (fs : List Filter) (t : Txn),
    Filter.evalAll storedMatch (mapReList wrapStr fs) t = Filter.evalAll fullMatch fs t
  | [], _ => rfl
  | f :: fs, t => by
    have h1 := eval_stored f t
    simp only [stored] at h1
    simp only [mapReList, Filter.evalAll, h1, evalAll_stored fs t]
theorem evalAny_stored : ∀ (fs : List Filter) (t : Txn),
    Filter.evalAny storedMatch (mapReList wrapStr fs) t = Filter.evalAny fullMatch fs t
  | [], _ => rfl
  | f :: fs, t => by
    have h1 := eval_stored f t
    simp only [stored] at h1
    simp only [mapReList, Filter.evalAny, h1, evalAny_stored fs t]
end

/-- the pattern compiles once wrapped (inside the modelled subset) -/
def PatOk (p : String) : Prop := compileFull p = .ok (wrapStr p)

mutual
/-- a pattern-view filter whose leaves can be written down in a definition -/
def NormalP : Filter → Prop
  | .and fs => NormalPList fs
  | .or fs => NormalPList fs
  | .not f => NormalP f
  | .tsBegin ns => Time.instantOk ns = true
  | .tsEnd ns => Time.instantOk ns = true
  | .code re => PatOk re
  | .desc re => PatOk re
  | .tags re => PatOk re
  | .comments re => PatOk re
  | .postAccount re => PatOk re
  | .postComment re => PatOk re
  | .postCommodity re => PatOk re
  | .postAmountEq re x => PatOk re ∧ DecNormal x
  | .postAmountLess re x => PatOk re ∧ DecNormal x
  | .postAmountGreater re x => PatOk re ∧ DecNormal x
  | .uuid u => UuidNormal u
  | .bbox s w n e => DecNormal s ∧ DecNormal w ∧ DecNormal n ∧ DecNormal e
  | .bbox3 s w d n e h => DecNormal s ∧ DecNormal w ∧ DecNormal d ∧ DecNormal n ∧ DecNormal e ∧ DecNormal h
  | .tt => True
  | .ff => True
def NormalPList : List Filter → Prop
  | [] => True
  | f :: fs => NormalP f ∧ NormalPList fs
end

theorem reNormal_wrap (p : String) (h : PatOk p) : ReNormal (wrapStr p) := ⟨p, rfl, h⟩

mutual
theorem normal_stored : ∀ (f : Filter), NormalP f → Normal (mapRe wrapStr f)
  | .tt, _ => by simp only [mapRe, Normal]
  | .ff, _ => by simp only [mapRe, Normal]
  | .and fs, h => by simp only [NormalP] at h; simp only [mapRe, Normal]; exact normalList_stored fs h
  | .or fs, h => by simp only [NormalP] at h; simp only [mapRe, Normal]; exact normalList_stored fs h
  | .not f, h => by simp only [NormalP] at h; simp only [mapRe, Normal]; exact normal_stored f h
  | .tsBegin _, h => by simpa only [mapRe, Normal, NormalP] using h
  | .tsEnd _, h => by simpa only [mapRe, Normal, NormalP] using h
  | .code re, h => by simp only [NormalP] at h; simp only [mapRe, Normal]; exact reNormal_wrap re h
  | .desc re, h => by simp only [NormalP] at h; simp only [mapRe, Normal]; exact reNormal_wrap re h
  | .uuid _, h => by simpa only [mapRe, Normal, NormalP] using h
  | .bbox _ _ _ _, h => by simpa only [mapRe, Normal, NormalP] using h
  | .bbox3 _ _ _ _ _ _, h => by simpa only [mapRe, Normal, NormalP] using h
  | .tags re, h => by simp only [NormalP] at h; simp only [mapRe, Normal]; exact reNormal_wrap re h
  | .comments re, h => by simp only [NormalP] at h; simp only [mapRe, Normal]; exact reNormal_wrap re h
  | .postAccount re, h => by simp only [NormalP] at h; simp only [mapRe, Normal]; exact reNormal_wrap re h
  | .postComment re, h => by simp only [NormalP] at h; simp only [mapRe, Normal]; exact reNormal_wrap re h
  | .postAmountEq re x, h => by simp only [NormalP] at h; simp only [mapRe, Normal]; exact ⟨reNormal_wrap re h.1, h.2⟩
  | .postAmountLess re x, h => by simp only [NormalP] at h; simp only [mapRe, Normal]; exact ⟨reNormal_wrap re h.1, h.2⟩
  | .postAmountGreater re x, h => by simp only [NormalP] at h; simp only [mapRe, Normal]; exact ⟨reNormal_wrap re h.1, h.2⟩
  | .postCommodity re, h => by simp only [NormalP] at h; simp only [mapRe, Normal]; exact reNormal_wrap re h
theorem normalList_stored : ∀ (fs : List Filter), NormalPList fs → NormalList (mapReList wrapStr fs)
  | [], _ => by simp only [mapReList, NormalList]
  | f :: fs, h => by
    simp only [NormalPList] at h
    simp only [mapReList, NormalList]
    exact ⟨normal_stored f h.1, normalList_stored fs h.2⟩
end

/-- **round trip in the pattern view, for arbitrary pattern texts** (also ones that contain `^`, `$`, `^(?:` … `)$`):
    the stored form of the filter is a fixed point of serialise-then-parse, and it selects exactly what the
    pattern-view filter selects under whole-string matching -/
theorem json_roundtrip_patterns (f : Filter) (h : NormalP f) :
    fromJson (toJson (stored f)) = .ok (stored f) ∧
    ∀ t : Txn, Filter.eval storedMatch (stored f) t = Filter.eval fullMatch f t :=
  ⟨fromJson_toJson _ (normal_stored f h), eval_stored f⟩

/-- what is written out for a pattern is the user's own text — nothing added, nothing peeled off it, even when the
    text itself looks like the wrapper -/
theorem serialised_pattern_is_users (p : String) :
    toJsonF (stored (.code p)) = .obj [("TxnFilterTxnCode", .obj [("regex", .str p)])] := by
  simp only [stored, mapRe, toJsonF, reObj, C11.peel_wrap]

theorem serialised_pattern_is_users_wrapped (p : String) :
    toJsonF (stored (.code (wrapStr p))) = .obj [("TxnFilterTxnCode", .obj [("regex", .str (wrapStr p))])] :=
  serialised_pattern_is_users (wrapStr p)

/-- what is read for pattern `p` is stored as `^(?:p)$` -/
theorem parsed_pattern_is_wrapped (p : String) (f : Filter)
    (h : fromJsonF (.obj [("TxnFilterTxnCode", .obj [("regex", .str p)])]) = .ok f) : f = .code (wrapStr p) := by
  rw [variant_code] at h
  simp only [reLeaf, struct1, getField, fieldVals, if_true, reField, Outcome.bind] at h
  obtain ⟨re, hre, rfl⟩ := (Outcome.map_ok _ _ _).mp h
  rw [compileFull_ok p re hre]

/-- every stored pattern is applied as **one whole-string match** of the pattern the user wrote (inside the subset) -/
theorem stored_is_whole_match (p : String) (r : Regex) (hay : String) (hp : parse p = some r) :
    storedMatch (wrapStr p) hay = true ↔ FullMatch r hay.toList := by
  unfold storedMatch
  rw [C11.parse_wrap p r hp]
  simp only
  rw [C11.matcher_sound, C11.wrap_is_full]
  rfl

/-! ## anchoring is neither lost nor compounded -/

/-- the stored text after one serialise / parse round -/
def reround (src : String) : String := wrapStr (peelStr src)

def iter {α} (g : α → α) : Nat → α → α
  | 0, a => a
  | n + 1, a => g (iter g n a)

/-- **wrap_once**: after any number of rounds the stored text of pattern `p` is `wrapStr p` — for every `p`, including
    patterns that themselves contain `^(?:` … `)$` -/
theorem wrap_once (p : String) (n : Nat) : iter reround n (wrapStr p) = wrapStr p := by
  induction n with
  | zero => rfl
  | succ n ih => simp only [iter, ih, reround, C11.peel_wrap]

/-- an arbitrary stored text is in wrapped form after the first round and stays as it is from then on -/
theorem wrap_once_any (src : String) (n : Nat) : iter reround (n + 1) src = wrapStr (peelStr src) := by
  induction n with
  | zero => rfl
  | succ n ih => rw [iter, ih]; simp only [reround, C11.peel_wrap]

theorem wrap_not_compounded (p : String) : reround (wrapStr (wrapStr p)) = wrapStr (wrapStr p) := by
  simp only [reround, C11.peel_wrap]

mutual
theorem patterns_of_normal : ∀ (f : Filter), Normal f → ∀ re ∈ patterns f, ReNormal re
  | .tt, _, re, hre => by simp [patterns] at hre
  | .ff, _, re, hre => by simp [patterns] at hre
  | .and fs, h, re, hre => by simp only [Normal] at h; simp only [patterns] at hre; exact patternsList_of_normal fs h re hre
  | .or fs, h, re, hre => by simp only [Normal] at h; simp only [patterns] at hre; exact patternsList_of_normal fs h re hre
  | .not f, h, re, hre => by simp only [Normal] at h; simp only [patterns] at hre; exact patterns_of_normal f h re hre
  | .tsBegin _, _, re, hre => by simp [patterns] at hre
  | .tsEnd _, _, re, hre => by simp [patterns] at hre
  | .code r, h, re, hre => by simp only [Normal] at h; simp only [patterns, List.mem_singleton] at hre; subst hre; exact h
  | .desc r, h, re, hre => by simp only [Normal] at h; simp only [patterns, List.mem_singleton] at hre; subst hre; exact h
  | .uuid _, _, re, hre => by simp [patterns] at hre
  | .bbox _ _ _ _, _, re, hre => by simp [patterns] at hre
  | .bbox3 _ _ _ _ _ _, _, re, hre => by simp [patterns] at hre
  | .tags r, h, re, hre => by simp only [Normal] at h; simp only [patterns, List.mem_singleton] at hre; subst hre; exact h
  | .comments r, h, re, hre => by simp only [Normal] at h; simp only [patterns, List.mem_singleton] at hre; subst hre; exact h
  | .postAccount r, h, re, hre => by simp only [Normal] at h; simp only [patterns, List.mem_singleton] at hre; subst hre; exact h
  | .postComment r, h, re, hre => by simp only [Normal] at h; simp only [patterns, List.mem_singleton] at hre; subst hre; exact h
  | .postAmountEq r _, h, re, hre => by simp only [Normal] at h; simp only [patterns, List.mem_singleton] at hre; subst hre; exact h.1
  | .postAmountLess r _, h, re, hre => by simp only [Normal] at h; simp only [patterns, List.mem_singleton] at hre; subst hre; exact h.1
  | .postAmountGreater r _, h, re, hre => by simp only [Normal] at h; simp only [patterns, List.mem_singleton] at hre; subst hre; exact h.1
  | .postCommodity r, h, re, hre => by simp only [Normal] at h; simp only [patterns, List.mem_singleton] at hre; subst hre; exact h
theorem patternsList_of_normal : ∀ (fs : List Filter), NormalList fs → ∀ re ∈ patternsList fs, ReNormal re
  | [], _, re, hre => by simp [patternsList] at hre
  | f :: fs, h, re, hre => by
    simp only [NormalList] at h
    simp only [patternsList, List.mem_append] at hre
    rcases hre with hre | hre
    · exact patterns_of_normal f h.1 re hre
    · exact patternsList_of_normal fs h.2 re hre
end

/-- in every parsed definition every stored pattern is the wrapper applied **exactly once** to the text that is written
    out again, and a further round leaves it untouched -/
theorem patterns_wrapped_once (j : JVal) (f : Filter) (h : fromJson j = .ok f) :
    ∀ re ∈ patterns f, re = wrapStr (peelStr re) ∧ reround re = re ∧ compileFull (peelStr re) = .ok re := by
  intro re hre
  obtain ⟨p, rfl, hc⟩ := patterns_of_normal f (fromJson_normal j f h) re hre
  simp only [reround, C11.peel_wrap]
  exact ⟨trivial, trivial, hc⟩

/-! ## armor -/

theorem stripPrefix_armor (e : List Char) : stripPrefix armorPrefix (armorPrefix ++ e) = some e := by
  simp [stripPrefix, armorPrefix, List.isPrefixOf]

/-- **armor_equiv**: an armored definition means what its payload means -/
theorem armor_equiv (P : String → Option JVal) (e : List Char) (bytes : List UInt8) (s : List Char)
    (hb : b64decode e = some bytes) (hu : utf8decode bytes = some s) :
    fromArmor P (String.ofList (armorPrefix ++ e)) = fromJsonStr P (String.ofList s) := by
  unfold fromArmor
  rw [String.toList_ofList, stripPrefix_armor]
  simp only [fromPayload, hb, hu]

/-- the armor of a text, as a user produces it (`base64:` + standard base64 of the UTF-8 bytes), is read as that text -/
theorem armor_equiv_encoded (P : String → Option JVal) (bytes : List UInt8) (s : List Char) (hu : utf8decode bytes = some s) :
    fromArmor P (String.ofList (armorPrefix ++ b64encode bytes)) = fromJsonStr P (String.ofList s) :=
  armor_equiv P _ bytes s (b64decode_encode bytes) hu

/-- **armored ≡ plain, for every text**: the armor of `s` is read as `s` -/
theorem armor_of_text (P : String → Option JVal) (s : String) : fromArmor P (armorOf s) = fromJsonStr P s := by
  unfold armorOf
  rw [armor_equiv_encoded P _ s.toList (utf8decode_encode s.toList), String.ofList_toList]

theorem isArmored_armor (e : List Char) : isArmored (String.ofList (armorPrefix ++ e)) = true := by
  unfold isArmored
  rw [String.toList_ofList]
  simp [armorPrefix, List.isPrefixOf]

/-- the command line's dispatch: armored text goes through `from_armor` … -/
theorem parseDefinition_armored (P : String → Option JVal) (e : List Char) (bytes : List UInt8) (s : List Char)
    (hb : b64decode e = some bytes) (hu : utf8decode bytes = some s) :
    parseDefinition P (String.ofList (armorPrefix ++ e)) = fromJsonStr P (String.ofList s) := by
  unfold parseDefinition
  rw [isArmored_armor, if_pos rfl]
  exact armor_equiv P e bytes s hb hu

theorem parseDefinition_armorOf (P : String → Option JVal) (s : String) : parseDefinition P (armorOf s) = fromJsonStr P s := by
  unfold armorOf
  rw [parseDefinition_armored P _ _ s.toList (b64decode_encode _) (utf8decode_encode s.toList), String.ofList_toList]

/-- … everything else is JSON text -/
theorem parseDefinition_plain (P : String → Option JVal) (s : String) (h : isArmored s = false) :
    parseDefinition P s = fromJsonStr P s := by
  unfold parseDefinition
  rw [h]; rfl

/-- the two ways of giving one definition on the command line mean the same -/
theorem armored_same_as_plain (P : String → Option JVal) (s : String) (h : isArmored s = false) :
    parseDefinition P (armorOf s) = parseDefinition P s := by
  rw [parseDefinition_armorOf, parseDefinition_plain P s h]

/-! ## base64 -/

theorem b64_roundtrip (bs : List UInt8) : b64decode (b64encode bs) = some bs := b64decode_encode bs

/-- the decoder accepts canonical encodings only -/
theorem b64_canonical (e : List Char) (bs : List UInt8) (h : b64decode e = some bs) : b64encode bs = e :=
  b64encode_decode e bs h

theorem b64_rejects_length (e : List Char) (h : e.length % 4 ≠ 0) : b64decode e = none := by
  cases hd : b64decode e with
  | none => rfl
  | some bs => exact absurd (b64decode_length e bs hd) h

theorem b64_rejects_symbol (e : List Char) (c : Char) (hc : c ∈ e) (h1 : b64val c = none) (h2 : c ≠ '=') : b64decode e = none := by
  cases hd : b64decode e with
  | none => rfl
  | some bs =>
    rcases b64decode_symbols e bs hd c hc with h | h
    · rw [h1] at h; cases h
    · exact absurd h h2

theorem b64encode_pad_end : ∀ (bs : List UInt8) (x y : List Char), b64encode bs = x ++ '=' :: y → y = [] ∨ y = ['=']
  | [], x, y, h => by
    have := congrArg List.length h
    simp [b64encode] at this
  | [a], x, y, h => by
    have ha := a.toNat_lt
    simp only [b64encode] at h
    have n1 := b64chr_ne_pad (a.toNat / 4) (by omega)
    have n2 := b64chr_ne_pad (a.toNat % 4 * 16) (by omega)
    match x, h with
    | [], h => simp only [List.nil_append, List.cons.injEq] at h; exact absurd h.1 n1
    | [_], h => simp only [List.cons_append, List.nil_append, List.cons.injEq] at h; exact absurd h.2.1 n2
    | [_, _], h => simp only [List.cons_append, List.nil_append, List.cons.injEq] at h; exact Or.inr h.2.2.2.symm
    | [_, _, _], h => simp only [List.cons_append, List.nil_append, List.cons.injEq] at h; exact Or.inl h.2.2.2.2.symm
    | _ :: _ :: _ :: _ :: t, h =>
      simp only [List.cons_append, List.cons.injEq] at h
      have := congrArg List.length h.2.2.2.2
      simp at this
  | [a, b], x, y, h => by
    have ha := a.toNat_lt
    have hb := b.toNat_lt
    simp only [b64encode] at h
    have n1 := b64chr_ne_pad (a.toNat / 4) (by omega)
    have n2 := b64chr_ne_pad (a.toNat % 4 * 16 + b.toNat / 16) (by omega)
    have n3 := b64chr_ne_pad (b.toNat % 16 * 4) (by omega)
    match x, h with
    | [], h => simp only [List.nil_append, List.cons.injEq] at h; exact absurd h.1 n1
    | [_], h => simp only [List.cons_append, List.nil_append, List.cons.injEq] at h; exact absurd h.2.1 n2
    | [_, _], h => simp only [List.cons_append, List.nil_append, List.cons.injEq] at h; exact absurd h.2.2.1 n3
    | [_, _, _], h => simp only [List.cons_append, List.nil_append, List.cons.injEq] at h; exact Or.inl h.2.2.2.2.symm
    | _ :: _ :: _ :: _ :: t, h =>
      simp only [List.cons_append, List.cons.injEq] at h
      have := congrArg List.length h.2.2.2.2
      simp at this
  | a :: b :: c :: rest, x, y, h => by
    have ha := a.toNat_lt
    have hb := b.toNat_lt
    have hc := c.toNat_lt
    simp only [b64encode, List.cons_append, List.nil_append] at h
    have n1 := b64chr_ne_pad (a.toNat / 4) (by omega)
    have n2 := b64chr_ne_pad (a.toNat % 4 * 16 + b.toNat / 16) (by omega)
    have n3 := b64chr_ne_pad (b.toNat % 16 * 4 + c.toNat / 64) (by omega)
    have n4 := b64chr_ne_pad (c.toNat % 64) (by omega)
    match x, h with
    | [], h => simp only [List.nil_append, List.cons.injEq] at h; exact absurd h.1 n1
    | [_], h => simp only [List.cons_append, List.nil_append, List.cons.injEq] at h; exact absurd h.2.1 n2
    | [_, _], h => simp only [List.cons_append, List.nil_append, List.cons.injEq] at h; exact absurd h.2.2.1 n3
    | [_, _, _], h => simp only [List.cons_append, List.nil_append, List.cons.injEq] at h; exact absurd h.2.2.2.1 n4
    | _ :: _ :: _ :: _ :: t, h =>
      simp only [List.cons_append, List.cons.injEq] at h
      exact b64encode_pad_end rest t y h.2.2.2.2

/-- padding is accepted only as the last one or two characters -/
theorem b64_rejects_padding_inside (x y : List Char) (h : y ≠ [] ∧ y ≠ ['=']) : b64decode (x ++ '=' :: y) = none := by
  cases hd : b64decode (x ++ '=' :: y) with
  | none => rfl
  | some bs =>
    rcases b64encode_pad_end bs x y (b64encode_decode _ bs hd) with e | e
    · exact absurd e h.1
    · exact absurd e h.2

/-! ## malformed input is rejected -/

/-- the text does not start with the armor prefix -/
theorem reject_bad_prefix (P : String → Option JVal) (s : String) (h : isArmored s = false) : fromArmor P s = .err := by
  unfold fromArmor stripPrefix
  unfold isArmored at h
  rw [h]; rfl

/-- **F7 (after the fix)**: a repeated armor prefix is malformed armor — whatever follows -/
theorem reject_repeated_prefix (P : String → Option JVal) (e : List Char) :
    fromArmor P (String.ofList (armorPrefix ++ (armorPrefix ++ e))) = .err := by
  have hb : b64decode (armorPrefix ++ e) = none :=
    b64_rejects_symbol (armorPrefix ++ e) ':' (by simp [armorPrefix]) (by decide) (by decide)
  unfold fromArmor
  rw [String.toList_ofList, stripPrefix_armor]
  simp only [fromPayload, hb]

theorem reject_bad_base64 (P : String → Option JVal) (e : List Char) (h : b64decode e = none) :
    fromArmor P (String.ofList (armorPrefix ++ e)) = .err := by
  unfold fromArmor
  rw [String.toList_ofList, stripPrefix_armor]
  simp only [fromPayload, h]

theorem reject_bad_utf8 (P : String → Option JVal) (e : List Char) (bytes : List UInt8) (hb : b64decode e = some bytes)
    (h : utf8decode bytes = none) : fromArmor P (String.ofList (armorPrefix ++ e)) = .err := by
  unfold fromArmor
  rw [String.toList_ofList, stripPrefix_armor]
  simp only [fromPayload, hb, h]

/-- text that is not JSON -/
theorem reject_not_json (P : String → Option JVal) (s : String) (h : P s = none) : fromJsonStr P s = .err := by
  unfold fromJsonStr; rw [h]

/-- the names of the twenty variants -/
def variantNames : List String :=
  ["NullaryTRUE", "NullaryFALSE", "TxnFilterAND", "TxnFilterOR", "TxnFilterNOT", "TxnFilterTxnTSBegin", "TxnFilterTxnTSEnd",
   "TxnFilterTxnCode", "TxnFilterTxnDescription", "TxnFilterTxnUUID", "TxnFilterBBoxLatLon", "TxnFilterBBoxLatLonAlt",
   "TxnFilterTxnTags", "TxnFilterTxnComments", "TxnFilterPostingAccount", "TxnFilterPostingComment",
   "TxnFilterPostingAmountEqual", "TxnFilterPostingAmountLess", "TxnFilterPostingAmountGreater", "TxnFilterPostingCommodity"]

theorem reject_unknown_variant (tag : String) (content : JVal) (h : tag ∉ variantNames) :
    fromJsonF (.obj [(tag, content)]) = .err := by
  simp only [variantNames, List.mem_cons, List.not_mem_nil, or_false, not_or] at h
  obtain ⟨h1, h2, h3, h4, h5, h6, h7, h8, h9, h10, h11, h12, h13, h14, h15, h16, h17, h18, h19, h20⟩ := h
  simp only [fromJsonF, leafOf, if_neg h1, if_neg h2, if_neg h3, if_neg h4, if_neg h5, if_neg h6, if_neg h7, if_neg h8, if_neg h9,
    if_neg h10, if_neg h11, if_neg h12, if_neg h13, if_neg h14, if_neg h15, if_neg h16, if_neg h17, if_neg h18, if_neg h19, if_neg h20]

/-- a filter must be an object with exactly one entry: no entry, several variants, or anything that is not an object is an error -/
theorem reject_not_single_variant (j : JVal) (h : ∀ tag content, j ≠ .obj [(tag, content)]) : fromJsonF j = .err := by
  unfold fromJsonF
  split
  · rename_i tag content; exact absurd rfl (h tag content)
  · rfl

theorem reject_two_variants (a b : String × JVal) (rest : List (String × JVal)) : fromJsonF (.obj (a :: b :: rest)) = .err :=
  reject_not_single_variant _ (by intro tag content e; simp at e)

theorem reject_bare_string (s : String) : fromJsonF (.str s) = .err := rfl

theorem getField_cases (k : String) (fields : List (String × JVal)) :
    getField k fields = .err ∨ ∃ v, getField k fields = .ok v := by
  unfold getField
  split
  · exact Or.inr ⟨_, rfl⟩
  · exact Or.inl rfl

/-- a field that is absent, or given more than once -/
theorem getField_count (k : String) (fields : List (String × JVal)) (h : (fieldVals k fields).length ≠ 1) :
    getField k fields = .err := by
  unfold getField
  split
  · rename_i v hv; rw [hv] at h; simp at h
  · rfl

theorem pick1_count {α} (l : List (Outcome α)) (h : l.length ≠ 1) : pick1 l = .err := by
  unfold pick1
  split
  · simp at h
  · rfl

/-- (variant, field of its struct) -/
def requiredFields : List (String × String) :=
  [("TxnFilterAND", "txnFilters"), ("TxnFilterOR", "txnFilters"), ("TxnFilterNOT", "txnFilter"),
   ("TxnFilterTxnTSBegin", "begin"), ("TxnFilterTxnTSEnd", "end"), ("TxnFilterTxnCode", "regex"),
   ("TxnFilterTxnDescription", "regex"), ("TxnFilterTxnUUID", "uuid"), ("TxnFilterTxnTags", "regex"),
   ("TxnFilterTxnComments", "regex"), ("TxnFilterPostingAccount", "regex"), ("TxnFilterPostingComment", "regex"),
   ("TxnFilterPostingCommodity", "regex"),
   ("TxnFilterPostingAmountEqual", "regex"), ("TxnFilterPostingAmountEqual", "amount"),
   ("TxnFilterPostingAmountLess", "regex"), ("TxnFilterPostingAmountLess", "amount"),
   ("TxnFilterPostingAmountGreater", "regex"), ("TxnFilterPostingAmountGreater", "amount"),
   ("TxnFilterBBoxLatLon", "south"), ("TxnFilterBBoxLatLon", "west"), ("TxnFilterBBoxLatLon", "north"), ("TxnFilterBBoxLatLon", "east"),
   ("TxnFilterBBoxLatLonAlt", "south"), ("TxnFilterBBoxLatLonAlt", "west"), ("TxnFilterBBoxLatLonAlt", "depth"),
   ("TxnFilterBBoxLatLonAlt", "north"), ("TxnFilterBBoxLatLonAlt", "east"), ("TxnFilterBBoxLatLonAlt", "height")]

theorem struct1_count (k : String) (fields : List (String × JVal)) {α} (g : JVal → Outcome α)
    (h : (fieldVals k fields).length ≠ 1) : (struct1 k (.obj fields)).bind g = .err := by
  simp only [struct1, getField_count k fields h, Outcome.bind]

theorem struct2_count (k1 k2 : String) (fields : List (String × JVal)) {α} (g : JVal × JVal → Outcome α)
    (h : (fieldVals k1 fields).length ≠ 1 ∨ (fieldVals k2 fields).length ≠ 1) :
    (struct2 k1 k2 (.obj fields)).bind g = .err := by
  simp only [struct2]
  rcases h with h | h
  · simp only [getField_count k1 fields h, Outcome.bind]
  · rcases getField_cases k1 fields with e | ⟨v, e⟩ <;> simp only [e, getField_count k2 fields h, Outcome.bind, Outcome.map]

theorem struct4_count (k1 k2 k3 k4 : String) (fields : List (String × JVal)) {α} (g : JVal × JVal × JVal × JVal → Outcome α)
    (h : (fieldVals k1 fields).length ≠ 1 ∨ (fieldVals k2 fields).length ≠ 1 ∨ (fieldVals k3 fields).length ≠ 1 ∨
      (fieldVals k4 fields).length ≠ 1) : (struct4 k1 k2 k3 k4 (.obj fields)).bind g = .err := by
  simp only [struct4]
  rcases getField_cases k1 fields with e1 | ⟨v1, e1⟩ <;> rcases getField_cases k2 fields with e2 | ⟨v2, e2⟩ <;>
    rcases getField_cases k3 fields with e3 | ⟨v3, e3⟩ <;> rcases getField_cases k4 fields with e4 | ⟨v4, e4⟩ <;>
    simp only [e1, e2, e3, e4, Outcome.bind, Outcome.map]
  rcases h with h | h | h | h
  · rw [getField_count _ _ h] at e1; cases e1
  · rw [getField_count _ _ h] at e2; cases e2
  · rw [getField_count _ _ h] at e3; cases e3
  · rw [getField_count _ _ h] at e4; cases e4

theorem struct6_count (k1 k2 k3 k4 k5 k6 : String) (fields : List (String × JVal)) {α}
    (g : JVal × JVal × JVal × JVal × JVal × JVal → Outcome α)
    (h : (fieldVals k1 fields).length ≠ 1 ∨ (fieldVals k2 fields).length ≠ 1 ∨ (fieldVals k3 fields).length ≠ 1 ∨
      (fieldVals k4 fields).length ≠ 1 ∨ (fieldVals k5 fields).length ≠ 1 ∨ (fieldVals k6 fields).length ≠ 1) :
    (struct6 k1 k2 k3 k4 k5 k6 (.obj fields)).bind g = .err := by
  simp only [struct6]
  rcases getField_cases k1 fields with e1 | ⟨v1, e1⟩ <;> rcases getField_cases k2 fields with e2 | ⟨v2, e2⟩ <;>
    rcases getField_cases k3 fields with e3 | ⟨v3, e3⟩ <;> rcases getField_cases k4 fields with e4 | ⟨v4, e4⟩ <;>
    rcases getField_cases k5 fields with e5 | ⟨v5, e5⟩ <;> rcases getField_cases k6 fields with e6 | ⟨v6, e6⟩ <;>
    simp only [e1, e2, e3, e4, e5, e6, Outcome.bind, Outcome.map]
  rcases h with h | h | h | h | h | h
  · rw [getField_count _ _ h] at e1; cases e1
  · rw [getField_count _ _ h] at e2; cases e2
  · rw [getField_count _ _ h] at e3; cases e3
  · rw [getField_count _ _ h] at e4; cases e4
  · rw [getField_count _ _ h] at e5; cases e5
  · rw [getField_count _ _ h] at e6; cases e6

/-- **a required field that is missing, or present more than once, makes the definition an error** — for every
    variant and every field of its struct -/
theorem reject_field_count (tag k : String) (fields : List (String × JVal)) (hk : (tag, k) ∈ requiredFields)
    (h : (fieldVals k fields).length ≠ 1) : fromJsonF (.obj [(tag, .obj fields)]) = .err := by
  simp only [requiredFields, List.mem_cons, Prod.mk.injEq, List.not_mem_nil, or_false] at hk
  rcases hk with ⟨rfl, rfl⟩ | ⟨rfl, rfl⟩ | ⟨rfl, rfl⟩ | ⟨rfl, rfl⟩ | ⟨rfl, rfl⟩ | ⟨rfl, rfl⟩ | ⟨rfl, rfl⟩ | ⟨rfl, rfl⟩ | ⟨rfl, rfl⟩ |
    ⟨rfl, rfl⟩ | ⟨rfl, rfl⟩ | ⟨rfl, rfl⟩ | ⟨rfl, rfl⟩ | ⟨rfl, rfl⟩ | ⟨rfl, rfl⟩ | ⟨rfl, rfl⟩ | ⟨rfl, rfl⟩ | ⟨rfl, rfl⟩ | ⟨rfl, rfl⟩ |
    ⟨rfl, rfl⟩ | ⟨rfl, rfl⟩ | ⟨rfl, rfl⟩ | ⟨rfl, rfl⟩ | ⟨rfl, rfl⟩ | ⟨rfl, rfl⟩ | ⟨rfl, rfl⟩ | ⟨rfl, rfl⟩ | ⟨rfl, rfl⟩ | ⟨rfl, rfl⟩
  · rw [variant_and, contentFilters_eq, struct1_count _ _ _ h]; rfl
  · rw [variant_or, contentFilters_eq, struct1_count _ _ _ h]; rfl
  · rw [variant_not, contentFilter_eq, struct1_count _ _ _ h]; rfl
  · rw [variant_tsBegin, struct1_count _ _ _ h]
  · rw [variant_tsEnd, struct1_count _ _ _ h]
  · rw [variant_code, reLeaf, struct1_count _ _ _ h]
  · rw [variant_desc, reLeaf, struct1_count _ _ _ h]
  · rw [variant_uuid, struct1_count _ _ _ h]
  · rw [variant_tags, reLeaf, struct1_count _ _ _ h]
  · rw [variant_comments, reLeaf, struct1_count _ _ _ h]
  · rw [variant_postAccount, reLeaf, struct1_count _ _ _ h]
  · rw [variant_postComment, reLeaf, struct1_count _ _ _ h]
  · rw [variant_postCommodity, reLeaf, struct1_count _ _ _ h]
  · rw [variant_amountEq, amountLeaf, struct2_count _ _ _ _ (Or.inl h)]
  · rw [variant_amountEq, amountLeaf, struct2_count _ _ _ _ (Or.inr h)]
  · rw [variant_amountLess, amountLeaf, struct2_count _ _ _ _ (Or.inl h)]
  · rw [variant_amountLess, amountLeaf, struct2_count _ _ _ _ (Or.inr h)]
  · rw [variant_amountGreater, amountLeaf, struct2_count _ _ _ _ (Or.inl h)]
  · rw [variant_amountGreater, amountLeaf, struct2_count _ _ _ _ (Or.inr h)]
  · rw [variant_bbox, struct4_count _ _ _ _ _ _ (Or.inl h)]
  · rw [variant_bbox, struct4_count _ _ _ _ _ _ (Or.inr (Or.inl h))]
  · rw [variant_bbox, struct4_count _ _ _ _ _ _ (Or.inr (Or.inr (Or.inl h)))]
  · rw [variant_bbox, struct4_count _ _ _ _ _ _ (Or.inr (Or.inr (Or.inr h)))]
  · rw [variant_bbox3, struct6_count _ _ _ _ _ _ _ _ (Or.inl h)]
  · rw [variant_bbox3, struct6_count _ _ _ _ _ _ _ _ (Or.inr (Or.inl h))]
  · rw [variant_bbox3, struct6_count _ _ _ _ _ _ _ _ (Or.inr (Or.inr (Or.inl h)))]
  · rw [variant_bbox3, struct6_count _ _ _ _ _ _ _ _ (Or.inr (Or.inr (Or.inr (Or.inl h))))]
  · rw [variant_bbox3, struct6_count _ _ _ _ _ _ _ _ (Or.inr (Or.inr (Or.inr (Or.inr (Or.inl h)))))]
  · rw [variant_bbox3, struct6_count _ _ _ _ _ _ _ _ (Or.inr (Or.inr (Or.inr (Or.inr (Or.inr h)))))]

theorem reject_missing_field (tag k : String) (fields : List (String × JVal)) (hk : (tag, k) ∈ requiredFields)
    (h : fieldVals k fields = []) : fromJsonF (.obj [(tag, .obj fields)]) = .err :=
  reject_field_count tag k fields hk (by rw [h]; simp)

theorem reject_duplicate_field (tag k : String) (fields : List (String × JVal)) (hk : (tag, k) ∈ requiredFields)
    (v w : JVal) (rest : List JVal) (h : fieldVals k fields = v :: w :: rest) : fromJsonF (.obj [(tag, .obj fields)]) = .err :=
  reject_field_count tag k fields hk (by rw [h]; simp)

/-- the top level: `txnFilter` absent or given twice, or not an object / one-element sequence -/
theorem reject_top_field_count (fields : List (String × JVal)) (h : (fieldVals "txnFilter" fields).length ≠ 1) :
    fromJson (.obj fields) = .err := by
  simp only [fromJson, fieldsFilter_eq]
  exact pick1_count _ (by simpa using h)

theorem reject_top_wrong_type_null : fromJson .null = .err := rfl
theorem reject_top_wrong_type_str (s : String) : fromJson (.str s) = .err := rfl

/-! ### leaves -/

/-- the regex variants -/
def regexVariants : List String :=
  ["TxnFilterTxnCode", "TxnFilterTxnDescription", "TxnFilterTxnTags", "TxnFilterTxnComments", "TxnFilterPostingAccount",
   "TxnFilterPostingComment", "TxnFilterPostingCommodity"]

/-- **an invalid regular expression is rejected**: a pattern whose wrapped text lexes inside the subset but does not
    parse (a group that is not closed or not opened, nothing to repeat) is an error; a pattern that does not even lex is
    *outside the model* (`undef`), never `ok` -/
theorem compileFull_reject (s : String) (toks : List Tok) (hs : patternSizeOk s = true)
    (hl : lex (wrapChars s.toList) = some toks) (hp : parseToks toks = none) : compileFull s = .err := by
  unfold compileFull
  rw [if_pos hs, hl]
  simp only [hp]

theorem compileFull_ne_ok_of_no_parse (s : String) (h : parse (wrapStr s) = none) (re : String) : compileFull s ≠ .ok re := by
  intro hc
  unfold compileFull at hc
  unfold parse parseChars at h
  rw [C11.wrapStr_toList] at h
  split at hc
  · split at hc
    · cases hc
    · rename_i toks hl
      rw [hl] at h
      simp only at h
      rw [h] at hc
      cases hc
  · cases hc

theorem reLeaf_err (mk : String → Filter) (v : JVal) (h : reField v = .err) : reLeaf mk (.obj [("regex", v)]) = .err := by
  simp only [reLeaf, struct1, getField, fieldVals, if_true, h, Outcome.bind, Outcome.map]

theorem reject_bad_regex_field (tag : String) (v : JVal) (ht : tag ∈ regexVariants) (h : reField v = .err) :
    fromJsonF (.obj [(tag, .obj [("regex", v)])]) = .err := by
  simp only [regexVariants, List.mem_cons, List.not_mem_nil, or_false] at ht
  rcases ht with rfl | rfl | rfl | rfl | rfl | rfl | rfl
  · rw [variant_code, reLeaf_err _ _ h]
  · rw [variant_desc, reLeaf_err _ _ h]
  · rw [variant_tags, reLeaf_err _ _ h]
  · rw [variant_comments, reLeaf_err _ _ h]
  · rw [variant_postAccount, reLeaf_err _ _ h]
  · rw [variant_postComment, reLeaf_err _ _ h]
  · rw [variant_postCommodity, reLeaf_err _ _ h]

theorem reject_bad_regex (tag : String) (s : String) (ht : tag ∈ regexVariants) (h : compileFull s = .err) :
    fromJsonF (.obj [(tag, .obj [("regex", .str s)])]) = .err :=
  reject_bad_regex_field tag (.str s) ht h

theorem reject_bad_regex_amount (s : String) (amount : JVal) (h : compileFull s = .err) :
    fromJsonF (.obj [("TxnFilterPostingAmountEqual", .obj [("regex", .str s), ("amount", amount)])]) = .err := by
  rw [variant_amountEq]
  simp only [amountLeaf, struct2, getField, fieldVals, String.reduceEq, if_false, if_true, reField, h, Outcome.bind, Outcome.map]

theorem reject_regex_not_string (tag : String) (v : JVal) (ht : tag ∈ regexVariants) (hv : ∀ s, v ≠ .str s) :
    fromJsonF (.obj [(tag, .obj [("regex", v)])]) = .err := by
  have hr : reField v = .err := by
    unfold reField
    split
    · rename_i s; exact absurd rfl (hv s)
    · rfl
  exact reject_bad_regex_field tag v ht hr

theorem reject_bad_uuid (s : String) (h : uuidParse s.toList = none) :
    fromJsonF (.obj [("TxnFilterTxnUUID", .obj [("uuid", .str s)])]) = .err := by
  rw [variant_uuid]
  simp only [struct1, getField, fieldVals, if_true, uuidField, h, Outcome.bind, Outcome.map]

/-- a bad number: as the amount of a posting filter whose pattern is fine, and in a bounding box -/
theorem reject_bad_number (s p : String) (h : decOfText s.toList = .err) (hp : PatOk p) :
    fromJsonF (.obj [("TxnFilterPostingAmountEqual", .obj [("regex", .str p), ("amount", .str s)])]) = .err ∧
    fromJsonF (.obj [("TxnFilterPostingAmountEqual", .obj [("regex", .str p), ("amount", .num s)])]) = .err := by
  constructor <;>
  · rw [variant_amountEq]
    simp only [amountLeaf, struct2, getField, fieldVals, String.reduceEq, if_false, if_true, reField, decField, h, Outcome.bind,
      Outcome.map]
    rw [show compileFull p = .ok (wrapStr p) from hp]

theorem reject_bad_number_bbox (s : String) (w n e : JVal) (h : decOfText s.toList = .err) :
    fromJsonF (.obj [("TxnFilterBBoxLatLon", .obj [("south", .str s), ("west", w), ("north", n), ("east", e)])]) = .err := by
  rw [variant_bbox]
  simp only [struct4, getField, fieldVals, String.reduceEq, if_false, if_true, decField, h, Outcome.bind, Outcome.map]

theorem reject_number_wrong_type (p : String) (hp : PatOk p) :
    fromJsonF (.obj [("TxnFilterPostingAmountEqual", .obj [("regex", .str p), ("amount", .null)])]) = .err ∧
    fromJsonF (.obj [("TxnFilterPostingAmountEqual", .obj [("regex", .str p), ("amount", .bool true)])]) = .err ∧
    fromJsonF (.obj [("TxnFilterPostingAmountEqual", .obj [("regex", .str p), ("amount", .arr [.num "1"])])]) = .err := by
  refine ⟨?_, ?_, ?_⟩ <;>
  · rw [variant_amountEq]
    simp only [amountLeaf, struct2, getField, fieldVals, String.reduceEq, if_false, if_true, reField, decField, Outcome.bind,
      Outcome.map]
    rw [show compileFull p = .ok (wrapStr p) from hp]

theorem reject_bad_timestamp (s : String) (h : parseTsJson s.toList = .err) :
    fromJsonF (.obj [("TxnFilterTxnTSBegin", .obj [("begin", .str s)])]) = .err ∧
    fromJsonF (.obj [("TxnFilterTxnTSEnd", .obj [("end", .str s)])]) = .err := by
  constructor
  · rw [variant_tsBegin]
    simp only [struct1, getField, fieldVals, if_true, tsField, h, Outcome.bind, Outcome.map]
  · rw [variant_tsEnd]
    simp only [struct1, getField, fieldVals, if_true, tsField, h, Outcome.bind, Outcome.map]

theorem reject_sub_filters_not_array (v : JVal) (hv : ∀ items, v ≠ .arr items) :
    fromJsonF (.obj [("TxnFilterAND", .obj [("txnFilters", v)])]) = .err := by
  have : valFilters v = .err := by
    unfold valFilters
    split
    · rename_i items; exact absurd rfl (hv items)
    · rfl
  rw [variant_and]
  simp only [contentFilters, fieldsFilters, if_true, pick1, this, Outcome.map]

/-- one bad sub-filter makes the whole definition an error -/
theorem reject_bad_sub_filter (pre post : List JVal) (fs : List Filter) (bad : JVal) (hpre : fromJsonArr pre = .ok fs)
    (hbad : fromJsonF bad = .err) : fromJsonArr (pre ++ bad :: post) = .err := by
  induction pre generalizing fs with
  | nil => simp only [List.nil_append, fromJsonArr, hbad, Outcome.bind]
  | cons v vs ih =>
    simp only [List.cons_append, fromJsonArr] at hpre ⊢
    obtain ⟨g, hg, h2⟩ := (Outcome.bind_ok _ _ _).mp hpre
    obtain ⟨gs, hgs, _⟩ := (Outcome.map_ok _ _ _).mp h2
    rw [hg, ih gs hgs]
    rfl

/-! ## numbers and instants are unchanged by the text form -/

theorem number_unchanged (d : Dec) (h : DecNormal d) : decOfText d.toString.toList = .ok d := dec_text d h

theorem number_value_unchanged (d d' : Dec) (h : DecNormal d) (h' : decOfText d.toString.toList = .ok d') : d'.units = d.units := by
  rw [dec_text d h] at h'
  cases h'
  rfl

theorem instant_unchanged (ns : Int) (h : Time.instantOk ns = true) : parseTsJson (tsText ns).toList = .ok ns := ts_text ns h

/-- every decimal and instant that appears in a parsed definition is written and read back exactly -/
theorem parsed_number_stable (v : JVal) (d : Dec) (h : decField v = .ok d) : decField (.num d.toString) = .ok d ∧ decField (.str d.toString) = .ok d := by
  have hn := decField_normal v d h
  exact ⟨dec_text d hn, dec_text d hn⟩

theorem parsed_instant_stable (v : JVal) (ns : Int) (h : tsField v = .ok ns) : tsField (.str (tsText ns)) = .ok ns :=
  ts_text ns (tsField_normal v ns h)

/-! ## the tree before the fix of F7, and why the normal form is needed -/

instance (d : Dec) : Decidable (DecNormal d) := by unfold DecNormal; exact inferInstance
instance (u : String) : Decidable (UuidNormal u) := by unfold UuidNormal; exact inferInstance

theorem stripPrefix_some (x s r : List Char) (h : stripPrefix x s = some r) : s = x ++ r := by
  unfold stripPrefix at h
  split at h
  · rename_i hp
    cases h
    have := List.isPrefixOf_iff_prefix.mp hp
    exact (List.prefix_iff_eq_append.mp this).symm
  · cases h

theorem payload_not_armored (e : List Char) (bytes : List UInt8) (hb : b64decode e = some bytes) :
    stripPrefix armorPrefix e = none := by
  cases hs : stripPrefix armorPrefix e with
  | none => rfl
  | some r =>
    have he := stripPrefix_some _ _ _ hs
    have : b64decode e = none := b64_rejects_symbol e ':' (by rw [he]; simp [armorPrefix]) (by decide) (by decide)
    rw [this] at hb; cases hb

theorem trim_twice (e : List Char) (n : Nat) (h : stripPrefix armorPrefix e = none) :
    trimStartMatches armorPrefix (n + 3) (armorPrefix ++ (armorPrefix ++ e)) = e := by
  have hne : armorPrefix.isEmpty = false := rfl
  simp only [trimStartMatches, stripPrefix_armor, hne, Bool.false_eq_true, if_false, h]

/-- **F7 witness (tree before the fix)**: `trim_start_matches` removed every repetition of the prefix, so malformed
    armor `base64:base64:<payload>` was read as `<payload>` — where the repaired function reports an error
    (`reject_repeated_prefix`) -/
theorem F7_witness (P : String → Option JVal) (e : List Char) (bytes : List UInt8) (s : List Char)
    (hb : b64decode e = some bytes) (hu : utf8decode bytes = some s) :
    fromArmorTrimAll P (String.ofList (armorPrefix ++ (armorPrefix ++ e))) = fromJsonStr P (String.ofList s) ∧
    fromArmor P (String.ofList (armorPrefix ++ (armorPrefix ++ e))) = .err := by
  refine ⟨?_, reject_repeated_prefix P e⟩
  unfold fromArmorTrimAll
  rw [isArmored_armor, if_pos rfl, String.toList_ofList]
  have hl : (String.ofList (armorPrefix ++ (armorPrefix ++ e))).length = (e.length + 11) + 3 := by
    rw [String.length_ofList]
    simp [armorPrefix]
  rw [hl, trim_twice e _ (payload_not_armored e bytes hb)]
  simp only [fromPayload, hb, hu]

/-- a transaction with a code and nothing else -/
def tCode (c : String) : Txn := ⟨⟨⟨0, 0⟩, some c, none, none, none, none, none⟩, []⟩

theorem compile_a : compileFull "a" = .ok "^(?:a)$" := by decide

/-- **the normal form is necessary**: a filter whose stored text is not of the wrapped form (a Rust program can build one
    with `Regex::new("a")`; no definition text parses to it) is a substring search; written out and read back it is a
    whole-string match -/
theorem not_normal_changes :
    fromJson (toJson (.code "a")) = .ok (.code "^(?:a)$") ∧
    Filter.eval storedMatch (.code "a") (tCode "xay") = true ∧
    Filter.eval storedMatch (.code "^(?:a)$") (tCode "xay") = false := by
  refine ⟨?_, by decide, by decide⟩
  have hp : peelStr "a" = "a" := by decide
  simp only [toJson, toJsonF, reObj, hp, fromJson, fieldsFilter, if_true, pick1, variant_code, reLeaf, struct1, getField,
    fieldVals, reField, compile_a, Outcome.bind, Outcome.map]


/-! ## non-vacuity and regression witnesses -/

/-- a pattern-view filter over all kinds of leaves -/
def f1 : Filter :=
  .and [.code "a.c", .not (.tsBegin 1704067200123000000), .postAmountEq "^(?:x)$" ⟨true, 150, 2⟩,
    .uuid "67e55044-10b1-426f-9247-bb680e5fe0c8", .or [], .bbox ⟨false, 1, 0⟩ ⟨false, 0, 2⟩ ⟨true, 5, 1⟩ ⟨false, 1, 0⟩]

example : PatOk "a.c" := by unfold PatOk; decide
example : PatOk "^(?:x)$" := by unfold PatOk; decide
example : UuidNormal "67e55044-10b1-426f-9247-bb680e5fe0c8" := by decide

example : NormalP f1 := by
  simp only [f1, NormalP, NormalPList, and_true, true_and]
  refine ⟨?_, ?_, ⟨?_, ?_⟩, ?_, ?_, ?_, ?_, ?_⟩ <;> first | (unfold PatOk; decide) | decide

/-- the stored text of a pattern that already is the wrapper text is the wrapper applied once more, and what is written
    out is the user's text -/
example : stored (.code "^(?:x)$") = .code (wrapStr "^(?:x)$") := rfl
example : wrapStr "^(?:x)$" = "^(?:^(?:x)$)$" := by decide
example : peelStr "^(?:^(?:x)$)$" = "^(?:x)$" := by decide

/-- regexes: rejected by the crate / outside the subset / fine -/
example : compileFull "(a" = .err := by decide
example : compileFull "a)" = .err := by decide
example : compileFull "*a" = .err := by decide
example : compileFull "a)$" = .err := by decide
example : compileFull "^(?:a" = .err := by decide
example : compileFull "[a" = .undef := by decide
example : compileFull "a{2}" = .undef := by decide
example : compileFull "a)(b" = .ok "^(?:a)(b)$" := by decide

/-- uuids -/
example : uuidParse "67E55044-10B1-426F-9247-BB680E5FE0C8".toList = some "67e55044-10b1-426f-9247-bb680e5fe0c8".toList := by decide
example : uuidParse "{67e5504410b1426f9247bb680e5fe0c8}".toList = none := by decide
example : uuidParse "67e55044-10b1-426f-9247-bb680e5fe0cg".toList = none := by decide
example : uuidParse "".toList = none := by decide

/-- numbers: spellings of one value, rejected spellings, and the rounding zone that is outside the model (F26) -/
example : decOfText "1.50".toList = .ok ⟨false, 150, 2⟩ := by decide
example : decOfText "150e-2".toList = .ok ⟨false, 150, 2⟩ := by decide
example : decOfText "+1_5.0e-1".toList = .ok ⟨false, 150, 2⟩ := by decide
example : decOfText "1.5e3".toList = .ok ⟨false, 1500, 0⟩ := by decide
example : decOfText "-0".toList = .ok ⟨false, 0, 0⟩ := by decide
example : decOfText "79228162514264337593543950335".toList = .ok ⟨false, 79228162514264337593543950335, 0⟩ := by decide
example : decOfText "79228162514264337593543950336".toList = .err := by decide
example : decOfText "abc".toList = .err := by decide
example : decOfText "".toList = .err := by decide
example : decOfText "1e29".toList = .err := by decide
example : decOfText "1e-29".toList = .err := by decide
example : decOfText "1.000000000000000000000000000x".toList = .err := by decide
example : decOfText "1.0000000000000000000000000000x".toList = .undef := by decide
example : decOfText "1.00000000000000000000000000005abc".toList = .undef := by decide

/-- instants -/
example : parseTsJson "2024-01-01T00:00:00.5+02:00".toList = .ok 1704060000500000000 := by decide
example : parseTsJson "-009999-01-02T01:59:59Z".toList = .ok (-377705023201000000000) := by decide
example : tsJsonChars (-377705023201000000000) = "-009999-01-02T01:59:59Z".toList := by decide
example : tsJsonChars 1704060000500000000 = "2023-12-31T22:00:00.5Z".toList := by decide
example : parseTsJson "2024-13-01T00:00:00Z".toList = .err := by decide
example : parseTsJson "2024-01-01T00:00:00".toList = .err := by decide
example : parseTsJson "2024-01-01".toList = .err := by decide
example : parseTsJson "2024-01-01T00:00:00+26:00".toList = .err := by decide
example : parseTsJson "9999-12-30T22:00:01Z".toList = .err := by decide
example : parseTsJson "2024-01-01 00:00:00Z".toList = .undef := by decide

/-- base64 and UTF-8 -/
example : b64decode "e30=".toList = some [123, 125] := by decide
example : b64decode "e30".toList = none := by decide
example : b64decode "e30==".toList = none := by decide
example : b64decode "e3 0=".toList = none := by decide
example : b64decode "e31=".toList = none := by decide
example : b64decode "e3-_".toList = none := by decide
example : b64decode "e30=\n".toList = none := by decide
example : b64encode [123, 125] = "e30=".toList := by decide
example : utf8decode [123, 125] = some ['{', '}'] := by decide
example : utf8decode [0xC3, 0xA9] = some ['é'] := by decide
example : utf8decode [0xC0, 0xAF] = none := by decide
example : utf8decode [0xED, 0xA0, 0x80] = none := by decide
example : utf8decode [0xF4, 0x90, 0x80, 0x80] = none := by decide
example : utf8decode [0xFF] = none := by decide
example : utf8encode ['é', '€'] = [0xC3, 0xA9, 0xE2, 0x82, 0xAC] := by decide
example : armorOf "{}" = "base64:e30=" := by decide

/-- armor, for every text layer `P` -/
example (P : String → Option JVal) : fromArmor P (String.ofList (armorPrefix ++ "e30=".toList)) = fromJsonStr P (String.ofList ['{', '}']) :=
  armor_equiv P _ [123, 125] _ (by decide) (by decide)
example : isArmored "base64:e30=" = true := by decide
example : isArmored "Base64:e30=" = false := by decide
example (P : String → Option JVal) : fromArmor P "e30=" = .err := reject_bad_prefix P _ (by decide)

/-- structure -/
example : fromJson (.obj [("txnFilter", .obj [("NullaryTRUE", .obj [])])]) = .ok .tt := rfl
example : fromJson (.arr [.obj [("NullaryTRUE", .arr [])]]) = .ok .tt := rfl
example : fromJson (.obj [("x", .null), ("txnFilter", .obj [("NullaryTRUE", .obj [("y", .num "1")])])]) = .ok .tt := rfl
example : fromJson (.obj [("txnFilter", .obj [("NullaryTRUE", .null)])]) = .err := rfl
example : fromJson (.obj [("txnFilter", .str "NullaryTRUE")]) = .err := rfl
example : fromJson (.obj [("txnFilter", .obj [("NullaryTRUE", .obj []), ("NullaryFALSE", .obj [])])]) = .err := rfl
example : fromJson (.obj [("txnFilter", .obj [("NullaryTrue", .obj [])])]) = .err := rfl
example : fromJson (.obj []) = .err := rfl

end C18
end Tackler

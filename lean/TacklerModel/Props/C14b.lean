import TacklerModel.Model.SubCmd
import TacklerModel.Props.C14
/-!
# C14b — the file-writing sub-commands never overwrite, and write only their own files

`tackler init` and `tackler new <name>` write a configuration and three journal files with `fs::write`, which would
truncate an existing file.  What protects existing files is the pair of `fs::exists` guards at the top of
`commands::init::exec` (and the one of `commands::new::exec`).  The theorems say that this is enough – for every
tree, every setup name and every text:

* `init_refuses_existing` / `new_refuses_existing`: a present `conf`, `txns` (or `<name>`) ends the command with an error
  and the tree is *identical* afterwards;
* `init_success_iff` / `new_success_iff`: otherwise it succeeds;
* `init_touches_only` / `new_touches_only`: whatever happens, a path outside the command's own list
  (`initPaths`: the two directories and the seven files) holds what it held before;
* `init_never_overwrites` / `new_never_overwrites`: in a well-formed tree (a present path has a present parent
  directory) every file that existed before the command exists unchanged after it;
* `init_complete` / `new_complete`: on success each of the seven files holds exactly its text and both directories exist.
-/
set_option linter.unusedVariables false

namespace Tackler
namespace C14
open Output

/-- a present `dir/f` has a present `dir` (what a real file system guarantees) -/
def TreeWF (t : Tree) : Prop := ∀ d f : Path, t.present (pjoin d f) = true → t.present d = true

theorem pjoin_inj (d a b : Path) (h : pjoin d a = pjoin d b) : a = b := by
  unfold pjoin at h
  have h1 := congrArg String.toList h
  simp only [String.toList_append] at h1
  exact String.toList_inj.mp (List.append_cancel_left h1)

/-! ### `writeFiles` -/

theorem writeFiles_other (dir : Path) : ∀ (fs : List (String × Bytes)) (t : Tree) (p : Path),
    (∀ f ∈ fs, p ≠ pjoin dir f.1) → (writeFiles t dir fs).node p = t.node p := by
  intro fs
  induction fs with
  | nil => intro t p _; rfl
  | cons f rest ih =>
    intro t p h
    unfold writeFiles
    rw [ih _ p (fun g hg => h g (List.mem_cons_of_mem _ hg))]
    have : p ≠ pjoin dir f.1 := h f List.mem_cons_self
    simp [Tree.write, this]

theorem writeFiles_mem (dir : Path) : ∀ (fs : List (String × Bytes)) (t : Tree),
    (fs.map (·.1)).Nodup → ∀ f ∈ fs, (writeFiles t dir fs).node (pjoin dir f.1) = some (.file f.2) := by
  intro fs
  induction fs with
  | nil => intro t _ f hf; cases hf
  | cons g rest ih =>
    intro t hnd f hf
    simp only [List.map_cons, List.nodup_cons] at hnd
    unfold writeFiles
    rcases List.mem_cons.mp hf with rfl | hr
    · rw [writeFiles_other dir rest _ (pjoin dir f.1)]
      · simp [Tree.write]
      · intro h hh heq
        exact hnd.1 (List.mem_map.mpr ⟨h, hh, (pjoin_inj dir _ _ heq).symm⟩)
    · exact ih _ hnd.2 f hr

/-! ### `init` -/

/-- **init_refuses_existing**: with `conf` or `txns` present the command fails and the tree is the same value -/
theorem init_refuses_existing (tx : InitTexts) (name : Path) (t : Tree)
    (h : t.present (pjoin name "conf") = true ∨ t.present (pjoin name "txns") = true) :
    initExec tx name t = (false, t) := by
  unfold initExec
  rcases h with h | h
  · simp [h]
  · by_cases hc : t.present (pjoin name "conf") = true
    · simp [hc]
    · simp [hc, h]

/-- **init_success_iff** -/
theorem init_success_iff (tx : InitTexts) (name : Path) (t : Tree) :
    (initExec tx name t).1 = true ↔
      t.present (pjoin name "conf") = false ∧ t.present (pjoin name "txns") = false := by
  unfold initExec
  by_cases hc : t.present (pjoin name "conf") = true
  · simp [hc]
  · by_cases ht : t.present (pjoin name "txns") = true
    · simp [hc, ht]
    · simp [hc, ht]

/-- **init_touches_only**: a path outside the command's own list is left as it was – on success and on failure -/
theorem init_touches_only (tx : InitTexts) (name : Path) (t : Tree) (p : Path) (hp : p ∉ initPaths tx name) :
    (initExec tx name t).2.node p = t.node p := by
  unfold initExec
  split
  · rfl
  · split
    · rfl
    · simp only [initPaths, List.mem_append, List.mem_cons, List.mem_map, List.not_mem_nil, or_false, not_or,
        not_exists, not_and] at hp
      obtain ⟨⟨⟨h1, h2⟩, h3⟩, h4⟩ := hp
      rw [writeFiles_other _ _ _ p (fun f hf heq => h4 f hf heq.symm),
        writeFiles_other _ _ _ p (fun f hf heq => h3 f hf heq.symm)]
      simp [Tree.mkdir, h1, h2]

/-- **init_never_overwrites**: every path present before the command holds the same node after it (in particular
    every existing file keeps its bytes), whatever the outcome -/
theorem init_never_overwrites (tx : InitTexts) (name : Path) (t : Tree) (hwf : TreeWF t)
    (p : Path) (n : Node) (hp : t.node p = some n) :
    (initExec tx name t).2.node p = some n := by
  by_cases hs : (initExec tx name t).1 = true
  · obtain ⟨hc, ht⟩ := (init_success_iff tx name t).mp hs
    have hpres : t.present p = true := by simp [Tree.present, hp]
    rw [init_touches_only tx name t p, hp]
    intro hmem
    simp only [initPaths, List.mem_append, List.mem_cons, List.mem_map, List.not_mem_nil, or_false] at hmem
    rcases hmem with ((rfl | rfl) | ⟨f, _, rfl⟩) | ⟨f, _, rfl⟩
    · rw [hc] at hpres; cases hpres
    · rw [ht] at hpres; cases hpres
    · have := hwf _ _ hpres; rw [hc] at this; cases this
    · have := hwf _ _ hpres; rw [ht] at this; cases this
  · have : initExec tx name t = (false, t) := by
      apply init_refuses_existing
      by_cases hc : t.present (pjoin name "conf") = true
      · exact Or.inl hc
      · by_cases ht : t.present (pjoin name "txns") = true
        · exact Or.inr ht
        · exfalso; apply hs
          exact (init_success_iff tx name t).mpr ⟨by simpa using hc, by simpa using ht⟩
    rw [this]; exact hp

theorem confFiles_nodup (tx : InitTexts) : ((confFiles tx).map (·.1)).Nodup := by
  simp [confFiles]

theorem txnsFiles_nodup (tx : InitTexts) (name : Path) : ((txnsFiles tx name).map (·.1)).Nodup := by
  simp [txnsFiles]

theorem conf_ne_txns (name : Path) (a b : String) : pjoin (pjoin name "conf") a ≠ pjoin (pjoin name "txns") b := by
  intro h
  unfold pjoin at h
  have h1 := congrArg String.toList h
  simp only [String.toList_append, List.append_assoc] at h1
  have h2 := List.append_cancel_left h1
  simp at h2

/-- **init_complete**: on success the two directories exist and each of the seven files holds exactly its text -/
theorem init_complete (tx : InitTexts) (name : Path) (t : Tree) (hs : (initExec tx name t).1 = true) :
    (∀ f ∈ confFiles tx, (initExec tx name t).2.node (pjoin (pjoin name "conf") f.1) = some (.file f.2)) ∧
    (∀ f ∈ txnsFiles tx name, (initExec tx name t).2.node (pjoin (pjoin name "txns") f.1) = some (.file f.2)) := by
  obtain ⟨hc, ht⟩ := (init_success_iff tx name t).mp hs
  unfold initExec
  simp only [hc, ht, Bool.false_eq_true, if_false]
  refine ⟨?_, ?_⟩
  · intro f hf
    rw [writeFiles_other _ _ _ _ (fun g hg => conf_ne_txns name f.1 g.1)]
    exact writeFiles_mem _ _ _ (confFiles_nodup tx) f hf
  · intro f hf
    exact writeFiles_mem _ _ _ (txnsFiles_nodup tx name) f hf

/-! ### `new` -/

/-- **new_refuses_existing**: a present `<name>` (file or directory) fails the command, tree unchanged -/
theorem new_refuses_existing (tx : InitTexts) (name : Path) (t : Tree) (h : t.present name = true) :
    newExec tx name t = (false, t) := by
  unfold newExec; simp [h]

/-- **new_touches_only**: a path other than `<name>` and the init list is left as it was -/
theorem new_touches_only (tx : InitTexts) (name : Path) (t : Tree) (p : Path)
    (hn : p ≠ name) (hp : p ∉ initPaths tx name) :
    (newExec tx name t).2.node p = t.node p := by
  unfold newExec
  split
  · rfl
  · rw [init_touches_only tx name _ p hp]
    simp [Tree.mkdir, hn]

/-- **new_never_overwrites**: every path present before `new` holds the same node after it -/
theorem new_never_overwrites (tx : InitTexts) (name : Path) (t : Tree) (hwf : TreeWF t)
    (p : Path) (n : Node) (hp : t.node p = some n) :
    (newExec tx name t).2.node p = some n := by
  unfold newExec
  by_cases h : t.present name = true
  · simp [h, hp]
  · simp only [h, Bool.false_eq_true, if_false]
    have hpres : t.present p = true := by simp [Tree.present, hp]
    have hne : p ≠ name := by
      intro e; rw [e] at hpres; exact h hpres
    have hnot : p ∉ initPaths tx name := by
      intro hmem
      simp only [initPaths, List.mem_append, List.mem_cons, List.mem_map, List.not_mem_nil, or_false] at hmem
      rcases hmem with ((rfl | rfl) | ⟨f, _, rfl⟩) | ⟨f, _, rfl⟩
      · exact h (hwf _ _ hpres)
      · exact h (hwf _ _ hpres)
      · exact h (hwf _ _ (hwf _ _ hpres))
      · exact h (hwf _ _ (hwf _ _ hpres))
    rw [init_touches_only tx name _ p hnot]
    simp [Tree.mkdir, hne, hp]

/-- **new_success_iff**: `new` succeeds exactly when `<name>` is absent – in a well-formed tree nothing below an
    absent `<name>` can be in the way -/
theorem new_success_iff (tx : InitTexts) (name : Path) (t : Tree) (hwf : TreeWF t) :
    (newExec tx name t).1 = true ↔ t.present name = false := by
  unfold newExec
  by_cases h : t.present name = true
  · simp [h]
  · simp only [h, Bool.false_eq_true, if_false]
    rw [init_success_iff]
    have hc : t.present (pjoin name "conf") = false := by
      cases hh : t.present (pjoin name "conf") with
      | false => rfl
      | true => exact absurd (hwf _ _ hh) h
    have ht : t.present (pjoin name "txns") = false := by
      cases hh : t.present (pjoin name "txns") with
      | false => rfl
      | true => exact absurd (hwf _ _ hh) h
    have hne1 : pjoin name "conf" ≠ name := by
      intro e; unfold pjoin at e
      have h1 := congrArg String.toList e
      simp only [String.toList_append, List.append_assoc] at h1
      have h2 := List.append_right_eq_self.mp h1
      simp at h2
    have hne2 : pjoin name "txns" ≠ name := by
      intro e; unfold pjoin at e
      have h1 := congrArg String.toList e
      simp only [String.toList_append, List.append_assoc] at h1
      have h2 := List.append_right_eq_self.mp h1
      simp at h2
    simp [Tree.present, Tree.mkdir, hne1, hne2] at hc ht h ⊢
    exact ⟨hc, ht⟩

/-! ### non-vacuity -/

def txs : InitTexts := ⟨[1], [2], [3], [4], [5], [6], fun _ => [7]⟩
def emptyTree : Tree := ⟨fun p => if p = "." then some .dir else none⟩
/-- a tree with somebody's journal in `./txns` -/
def mineTree : Tree := ⟨fun p => if p = "." ∨ p = "./txns" then some .dir else if p = "./txns/journal.txn" then some (.file [9, 9]) else none⟩

example : (initExec txs "." emptyTree).1 = true := by decide
example : (initExec txs "." emptyTree).2.node "./txns/welcome.txn" = some (.file [7]) := by decide
example : (initExec txs "." emptyTree).2.node "./conf/tackler.toml" = some (.file [1]) := by decide
/-- the seeded change C14-6 (guard on `txns` dropped) is exactly what `init_refuses_existing` excludes -/
example : initExec txs "." mineTree = (false, mineTree) := init_refuses_existing txs "." mineTree (Or.inr (by decide))
example : (initExec txs "." mineTree).2.node "./txns/journal.txn" = some (.file [9, 9]) := by
  rw [init_refuses_existing txs "." mineTree (Or.inr (by decide))]; decide
example : (newExec txs "books" emptyTree).1 = true := by decide
example : (newExec txs "books" emptyTree).2.node "books/conf/tags.toml" = some (.file [4]) := by decide

/-! ### a destination with zero bytes of content (seeded change C14-7: the file created lazily on the first write)

`success_complete` quantifies over every cutting of the content into write calls – the empty one included: an export
that writes nothing still has its (empty) file at the announced path. -/

def emptyExport : Plan := ⟨[], [⟨"out/equity.txn", [], true, true⟩]⟩

example : (run 8192 emptyExport emptyFS (fun _ => none)).exit = 0 := by decide
example : (run 8192 emptyExport emptyFS (fun _ => none)).fs.file "out/equity.txn" = some [] := by decide
example : (run 8192 emptyExport emptyFS (fun _ => none)).announced = ["out/equity.txn"] := by decide
/-- … and it is the instance of the theorem, not only an evaluation -/
example : (run 8192 emptyExport emptyFS (fun _ => none)).fs.file "out/equity.txn"
    = some (Dest.content ⟨"out/equity.txn", [], true, true⟩) :=
  ((success_complete 8192 emptyExport emptyFS (fun _ => none) (by decide)).1 ⟨"out/equity.txn", [], true, true⟩ (by decide)).1

end C14
end Tackler

import TacklerModel.Lemmas.BalanceSpec
import TacklerModel.Props.C01
/-!
# C02 — balance report figures are the exact sums of the postings

Property theorems over the balance kernel of `Model/Balance.lean` (the transliteration of `Balance::balance`,
`bubble_up_acctn`, the `BTreeSet` collect, `get_balance_tree_nodes`, `Balance::from_iter`).
All statements are on the value layer (`Dec.units : Int`, units of 10⁻²⁸), for every settings state, every
posting stream, every tree shape and depth — no bound.  The numeric domain guard of the property ("every
intermediate and final sum is representable") is the hypothesis that the kernel returned `.ok`: inexact
arithmetic is `.undef` in the model (DESIGN.md F17).

`PostsWF posts` (Lemmas/AccountSums.lean) collects the representation invariants of the input: stored scales
≤ 28, non-empty account paths, and `NamesInj` — account names determine account paths among the prefixes of
posted paths — which `namesInj_of_good` proves from "components are non-empty and contain no ':'".
-/
namespace Tackler
namespace C02

open KeyOrder ListSum ChunkBy

/-! ### specification vocabulary -/

/-- exact sum of the postings to a (commodity, account) pair -/
def ownSum (posts : List BPost) (k : AKey) : Int :=
  ((posts.filter (fun p => decide (p.key = k))).map (·.amount.units)).sum

/-- exact sum of the postings to the pair or to any account below it in the same commodity -/
def treeSum (posts : List BPost) (k : AKey) : Int :=
  ((posts.filter (fun p => desc k p.key)).map (·.amount.units)).sum

/-- `k` is posted to -/
def Posted (posts : List BPost) (k : AKey) : Prop := ∃ p ∈ posts, p.key = k

/-- `k` is a proper ancestor of a posted pair: same commodity, non-empty proper prefix of its path -/
def ProperAncestor (posts : List BPost) (k : AKey) : Prop :=
  ∃ p ∈ posts, k.1 = p.comm ∧ k.2 ≠ [] ∧ k.2 <+: p.acct ∧ k.2 ≠ p.acct

theorem inPlay_iff (posts : List BPost) (hwf : PostsWF posts) (k : AKey) :
    InPlay posts k ↔ Posted posts k ∨ ProperAncestor posts k := by
  constructor
  · intro ⟨x, hx, h1, h2, h3⟩
    by_cases e : k.2 = x.acct
    · exact .inl ⟨x, hx, (Prod.ext h1 e).symm⟩
    · exact .inr ⟨x, hx, h1, h2, h3, e⟩
  · rintro (⟨p, hp, hpk⟩ | ⟨p, hp, h1, h2, h3, _⟩)
    · refine ⟨p, hp, by rw [← hpk]; rfl, ?_, by rw [← hpk]; exact List.prefix_refl _⟩
      rw [← hpk]; exact hwf.nonempty p hp
    · exact ⟨p, hp, h1, h2, h3⟩

theorem ownSum_eq_zero (posts : List BPost) (k : AKey) (h : ¬ Posted posts k) : ownSum posts k = 0 := by
  unfold ownSum
  have : posts.filter (fun p => decide (p.key = k)) = [] := by
    rw [List.filter_eq_nil_iff]
    intro p hp
    simp only [decide_eq_true_eq]
    intro e; exact h ⟨p, hp, e⟩
  rw [this]; rfl

theorem eq_of_nodup_map {α β} (f : α → β) : ∀ {l : List α}, (l.map f).Nodup → ∀ {a b : α}, a ∈ l → b ∈ l →
    f a = f b → a = b := by
  intro l
  induction l with
  | nil => intro _ a b ha; cases ha
  | cons r t ih =>
    intro h a b ha hb e
    simp only [List.map_cons, List.nodup_cons, List.mem_map, not_exists, not_and] at h
    rcases List.mem_cons.mp ha with rfl | ha' <;> rcases List.mem_cons.mp hb with rfl | hb'
    · rfl
    · exact absurd e.symm (h.1 b hb')
    · exact absurd e (h.1 a ha')
    · exact ih h.2 ha' hb' e

theorem nodup_of_nodup_map {α β} (f : α → β) : ∀ {l : List α}, (l.map f).Nodup → l.Nodup := by
  intro l
  induction l with
  | nil => intro _; simp
  | cons r t ih =>
    intro h
    simp only [List.map_cons, List.nodup_cons, List.mem_map, not_exists, not_and] at h
    exact List.nodup_cons.mpr ⟨fun hr => h.1 r hr rfl, ih h.2⟩

/-! ### rows -/

/-- **rows_exact**: the rows of the balance are exactly the posted (commodity, account) pairs and their proper
    ancestors, each once (the key list is strictly increasing), sorted by (commodity, account name). -/
theorem rows_exact (st : Settings) (posts : List BPost) (hwf : PostsWF posts) (bal : List BalRow)
    (h : balance st posts = .ok bal) :
    (bal.map (·.key)).Pairwise (fun a b => keyLt a b = true) ∧
    ∀ k, k ∈ bal.map (·.key) ↔ Posted posts k ∨ ProperAncestor posts k := by
  obtain ⟨sums, C, hA, hB, hC, hS⟩ := balance_spec st posts hwf bal h
  refine ⟨hS.sorted, ?_⟩
  intro k
  rw [← inPlay_iff posts hwf k, ← complete_inplay posts sums C hA hB k]
  have : bal.map (·.key) = (bal.map kv).map (·.1) := by rw [List.map_map]; rfl
  rw [this]
  exact (hS.perm.map (·.1)).mem_iff

/-- **own_sum**: a row's account sum is the exact sum of the postings to its (commodity, account) pair
    (for a never-posted ancestor that sum is empty, see `gap_zero`). -/
theorem own_sum (st : Settings) (posts : List BPost) (hwf : PostsWF posts) (bal : List BalRow)
    (h : balance st posts = .ok bal) (row : BalRow) (hrow : row ∈ bal) :
    row.own.units = ownSum posts row.key := by
  obtain ⟨sums, C, hA, hB, hC, hS⟩ := balance_spec st posts hwf bal h
  have hx : kv row ∈ C := hS.perm.mem_iff.mp (List.mem_map.mpr ⟨row, hrow, rfl⟩)
  rcases hB.mem (kv row) hx with hs | ⟨hz, hn⟩
  · exact (hA.sum (kv row) hs).1
  · have h0 : row.own = Dec.zero := hz
    rw [h0, Dec.zero_units, ownSum_eq_zero]
    intro hp
    exact hn ((hA.keys row.key).mpr hp)

/-- corollary of `rows_exact` in the shape other properties use: no (commodity, account) pair is listed twice -/
theorem rows_nodup (st : Settings) (posts : List BPost) (hwf : PostsWF posts) (bal : List BalRow)
    (h : balance st posts = .ok bal) : (bal.map BalRow.key).Nodup :=
  nodup_of_pairwise_keyLt _ (rows_exact st posts hwf bal h).1

/-- `own_sum` for all rows at once, with the sum written out -/
theorem own_sum_all (st : Settings) (posts : List BPost) (hwf : PostsWF posts) (bal : List BalRow)
    (h : balance st posts = .ok bal) :
    ∀ r ∈ bal, r.own.units = ((posts.filter (fun p => decide (p.key = r.key))).map (·.amount.units)).sum :=
  fun r hr => own_sum st posts hwf bal h r hr

/-- **gap_zero**: an ancestor that is never posted to has own sum zero. -/
theorem gap_zero (st : Settings) (posts : List BPost) (hwf : PostsWF posts) (bal : List BalRow)
    (h : balance st posts = .ok bal) (row : BalRow) (hrow : row ∈ bal) (hgap : ¬ Posted posts row.key) :
    row.own.units = 0 := by
  rw [own_sum st posts hwf bal h row hrow, ownSum_eq_zero posts row.key hgap]

/-- **tree_sum**: a row's tree sum is its own sum plus the own sums of all rows below it in the same
    commodity (= the sum of the own sums of the rows whose path has the row's path as a prefix). -/
theorem tree_sum (st : Settings) (posts : List BPost) (hwf : PostsWF posts) (bal : List BalRow)
    (h : balance st posts = .ok bal) (row : BalRow) (hrow : row ∈ bal) :
    row.tree.units = ((bal.filter (fun r => desc row.key r.key)).map (·.own.units)).sum := by
  obtain ⟨sums, C, hA, hB, hC, hS⟩ := balance_spec st posts hwf bal h
  rw [hS.tree row hrow]
  unfold descSum
  have hp := (hS.perm.filter (fun x => desc row.key x.1)).map (fun x => x.2.units)
  rw [← perm_sum hp, List.filter_map, List.map_map]
  rfl

/-- the listed own sums satisfying a predicate on keys add up to the postings satisfying it -/
theorem rows_sum_eq_posts_sum (st : Settings) (posts : List BPost) (hwf : PostsWF posts) (bal : List BalRow)
    (h : balance st posts = .ok bal) (Q : AKey → Bool) :
    ((bal.filter (fun r => Q r.key)).map (·.own.units)).sum
      = ((posts.filter (fun p => Q p.key)).map (·.amount.units)).sum := by
  obtain ⟨hsorted, hkeys⟩ := rows_exact st posts hwf bal h
  have hknd : (bal.map (·.key)).Nodup := nodup_of_pairwise_keyLt _ hsorted
  have hnd : bal.Nodup := nodup_of_nodup_map _ hknd
  rw [sum_filter_eq_ite, sum_filter_eq_ite]
  have step1 : ∀ r ∈ bal, (if Q r.key then r.own.units else 0)
      = (posts.map (fun p => if (Q r.key && decide (p.key = r.key)) then p.amount.units else 0)).sum := by
    intro r hr
    cases hq : Q r.key with
    | false => simp [sum_map_zero]
    | true =>
      simp only [Bool.true_and, if_true]
      rw [own_sum st posts hwf bal h r hr]
      unfold ownSum
      rw [sum_filter_eq_ite]
  rw [sum_map_congr bal _ _ step1, sum_comm]
  apply sum_map_congr
  intro p hp
  cases hq : Q p.key with
  | false =>
    apply sum_map_eq_zero
    intro r _
    by_cases e : p.key = r.key
    · rw [← e, hq]; simp
    · simp [e]
  | true =>
    obtain ⟨r0, hr0, hr0k⟩ := List.mem_map.mp ((hkeys p.key).mpr (.inl ⟨p, hp, rfl⟩))
    simp only [if_true]
    apply sum_ite_unique bal (fun r => Q r.key && decide (p.key = r.key)) p.amount.units r0 hr0 hnd
    intro r hr
    simp only [Bool.and_eq_true, decide_eq_true_eq]
    constructor
    · intro ⟨_, e⟩
      exact eq_of_nodup_map _ hknd hr hr0 (by rw [← e, hr0k])
    · intro e; subst e
      exact ⟨by rw [hr0k]; exact hq, hr0k.symm⟩

/-- **tree_sum** in terms of the postings: own + all descendants = every posting at or below the row -/
theorem tree_sum_posts (st : Settings) (posts : List BPost) (hwf : PostsWF posts) (bal : List BalRow)
    (h : balance st posts = .ok bal) (row : BalRow) (hrow : row ∈ bal) :
    row.tree.units = treeSum posts row.key := by
  rw [tree_sum st posts hwf bal h row hrow]
  exact rows_sum_eq_posts_sum st posts hwf bal h (fun k => desc row.key k)

/-! ### deltas -/

theorem deltaGroups_spec : ∀ (cs : List (String × List BalRow)) (r : List (String × Dec)), deltaGroups cs = some r →
    r.map (·.1) = cs.map (·.1) ∧
    ∀ x ∈ r, ∃ g, (x.1, g) ∈ cs ∧ Dec.sum (g.map (·.own)) = some x.2 := by
  intro cs
  induction cs with
  | nil => intro r h; simp [deltaGroups] at h; subst h; simp
  | cons c rest ih =>
    intro r h
    obtain ⟨k, g⟩ := c
    simp only [deltaGroups] at h
    split at h
    · cases h
    · rename_i s hs
      split at h
      · cases h
      · rename_i r' hr'
        cases h
        obtain ⟨ih1, ih2⟩ := ih r' hr'
        refine ⟨by simp [ih1], ?_⟩
        intro x hx
        rcases List.mem_cons.mp hx with rfl | hx'
        · exact ⟨g, List.mem_cons_self, hs⟩
        · obtain ⟨g', hg', hs'⟩ := ih2 x hx'
          exact ⟨g', List.mem_cons_of_mem _ hg', hs'⟩

/-- **delta_eq**: the report lists the selected rows of the balance; there is exactly one delta line per
    commodity that has a listed row (the commodity list is strictly increasing), and each delta is the exact
    sum of the listed rows' own sums in that commodity. -/
theorem delta_eq (st : Settings) (sel : BalRow → Bool) (posts : List BPost) (hwf : PostsWF posts) (b : Balance)
    (h : fromIter st sel posts = .ok b) :
    (∃ bal, balance st posts = .ok bal ∧ b.rows = bal.filter sel) ∧
    (b.deltas.map (·.1)).Pairwise (· < ·) ∧
    (∀ c, c ∈ b.deltas.map (·.1) ↔ ∃ r ∈ b.rows, r.comm = c) ∧
    (∀ cd ∈ b.deltas, cd.2.units = ((b.rows.filter (fun r => decide (r.comm = cd.1))).map (·.own.units)).sum) := by
  unfold fromIter at h
  split at h
  · cases h
  · cases h
  · rename_i bal hbal
    split at h
    · cases h
    · rename_i ds hds
      cases h
      obtain ⟨sums, C, hA, hB, hC, hS⟩ := balance_spec st posts hwf bal hbal
      obtain ⟨hk1, hk2⟩ := deltaGroups_spec _ _ hds
      -- the listed rows are still sorted, so their commodities never go back
      have hsort : ((bal.filter sel).map (·.key)).Pairwise (fun a b => keyLt a b = true) := by
        rw [List.pairwise_map]
        have := hS.sorted
        rw [List.pairwise_map] at this
        exact this.sublist List.filter_sublist
      have hpw : (bal.filter sel).Pairwise (fun a b => a.comm = b.comm ∨ a.comm < b.comm) := by
        rw [List.pairwise_map] at hsort
        exact hsort.imp (fun {a b} hab => comm_of_keyLt a.key b.key hab)
      have hstrict := chunkBy_strict (fun r : BalRow => r.comm) (· < ·)
        (fun a b c => String.lt_trans) (bal.filter sel) hpw
      have hnd : ((chunkBy (fun r : BalRow => r.comm) (bal.filter sel)).map (·.1)).Nodup := by
        apply List.Pairwise.imp _ hstrict
        intro a b hab e; subst e; exact String.lt_irrefl _ hab
      refine ⟨⟨bal, hbal, rfl⟩, by rw [hk1]; exact hstrict, ?_, ?_⟩
      · intro c
        rw [hk1]
        constructor
        · intro hc
          obtain ⟨kg, hkg, rfl⟩ := List.mem_map.mp hc
          obtain ⟨a, ha, hak⟩ := chunk_key_mem (fun r : BalRow => r.comm) _ kg hkg
          exact ⟨a, ha, hak⟩
        · intro ⟨r, hr, hrc⟩
          obtain ⟨g, hg, _⟩ := mem_chunk (fun r : BalRow => r.comm) _ r hr
          exact List.mem_map.mpr ⟨(r.comm, g), hg, hrc⟩
      · intro cd hcd
        obtain ⟨g, hg, hsum⟩ := hk2 cd hcd
        have hgf := chunk_eq_filter (fun r : BalRow => r.comm) _ hnd (cd.1, g) hg
        simp only at hgf
        have hsc : ∀ d ∈ g.map (·.own), d.scale ≤ 28 := by
          intro d hd
          obtain ⟨r, hr, rfl⟩ := List.mem_map.mp hd
          have hrb : r ∈ bal :=
            (List.mem_filter.mp (chunk_subset (fun r : BalRow => r.comm) _ (cd.1, g) hg r hr)).1
          exact hC.scale (kv r) (hS.perm.mem_iff.mp (List.mem_map.mpr ⟨r, hrb, rfl⟩))
        obtain ⟨hu, _⟩ := Dec.sum_units _ _ hsc hsum
        rw [hu, List.map_map, hgf]
        rfl

/-- sums over the posting stream of a journal, transaction by transaction -/
theorem postsOf_sum (txns : List Txn) (P : BPost → Bool) :
    (((postsOf txns).filter P).map (·.amount.units)).sum
      = (txns.map (fun t => (((t.posts.map (fun p => (⟨p.acct, p.comm, p.amount⟩ : BPost))).filter P).map
          (·.amount.units)).sum)).sum := by
  unfold postsOf
  rw [List.flatMap_def, List.filter_flatten, sum_map_flatten, List.map_map, List.map_map]
  rfl

/-- **delta_zero**: with all accounts listed, every transaction balanced (C01) and no closing prices in use
    (every posting is in its transaction's commodity), every delta is zero. -/
theorem delta_zero (st : Settings) (txns : List Txn) (hwf : PostsWF (postsOf txns))
    (hbal : ∀ t ∈ txns, C01.Balanced t) (hnp : ∀ t ∈ txns, ∀ p ∈ t.posts, p.comm = p.txnComm)
    (b : Balance) (h : fromIter st (fun _ => true) (postsOf txns) = .ok b) :
    ∀ cd ∈ b.deltas, cd.2.units = 0 := by
  obtain ⟨⟨bal, hb, hrows⟩, _, _, hval⟩ := delta_eq st _ (postsOf txns) hwf b h
  intro cd hcd
  rw [hval cd hcd, hrows]
  have hall : bal.filter (fun _ => true) = bal := by simp
  rw [hall]
  have := rows_sum_eq_posts_sum st (postsOf txns) hwf bal hb (fun k => decide (k.1 = cd.1))
  have e1 : (bal.filter (fun r => decide (r.comm = cd.1))) = bal.filter (fun r => decide (r.key.1 = cd.1)) := rfl
  rw [e1, this, postsOf_sum]
  apply sum_map_eq_zero
  intro t ht
  obtain ⟨c0, hposts, hsum⟩ := hbal t ht
  have hcomm : ∀ p ∈ t.posts, p.comm = c0 := fun p hp => (hnp t ht p hp).trans (hposts p hp).2.1
  by_cases hc : c0 = cd.1
  · -- the transaction's commodity: all its postings count, and they cancel
    have hf : (t.posts.map (fun p => (⟨p.acct, p.comm, p.amount⟩ : BPost))).filter
        (fun p => decide (p.key.1 = cd.1)) = t.posts.map (fun p => (⟨p.acct, p.comm, p.amount⟩ : BPost)) := by
      rw [List.filter_eq_self]
      intro x hx
      obtain ⟨p, hp, rfl⟩ := List.mem_map.mp hx
      simp [BPost.key, hcomm p hp, hc]
    rw [hf, List.map_map, ← hsum]
    apply sum_map_congr
    intro p hp
    have := (hposts p hp).2.2 (hcomm p hp)
    simp [this]
  · have hf : (t.posts.map (fun p => (⟨p.acct, p.comm, p.amount⟩ : BPost))).filter
        (fun p => decide (p.key.1 = cd.1)) = [] := by
      rw [List.filter_eq_nil_iff]
      intro x hx
      obtain ⟨p, hp, rfl⟩ := List.mem_map.mp hx
      simp [BPost.key, hcomm p hp, hc]
    rw [hf]; rfl

/-! ### no error when the chart is closed (stretch) -/

theorem map_ne_err {α β} (f : α → β) (x : Outcome α) (h : x ≠ .err) : x.map f ≠ .err := by
  cases x <;> simp_all [Outcome.map]

theorem bubbleUp_ne_err (st : Settings) (sums : List (AKey × Dec)) :
    ∀ (fuel : Nat) (me : AKey × Dec),
      (∀ q : Path, q ≠ [] → q <+: me.1.2 → q ≠ me.1.2 → ∃ r, st.getTxnAccount q me.1.1 = .ok r) →
      bubbleUp st sums fuel me ≠ .err := by
  intro fuel
  induction fuel with
  | zero => intro me _; simp [bubbleUp]
  | succ fuel ih =>
    intro me hcl
    simp only [bubbleUp]
    split
    · simp
    · rename_i hroot
      have hpar : ∀ (g : AKey × Dec), g.1 = (me.1.1, parentPath me.1.2) → bubbleUp st sums fuel g ≠ .err := by
        intro g hg
        apply ih g
        intro q hq hpre hne
        have hg1 : g.1.1 = me.1.1 := by rw [hg]
        have hg2 : g.1.2 = parentPath me.1.2 := by rw [hg]
        rw [hg1]
        rw [hg2] at hpre hne
        refine hcl q hq (hpre.trans (List.dropLast_prefix _)) ?_
        intro e
        have h1 := hpre.length_le
        rw [e, length_parent] at h1
        have : 1 ≤ me.1.2.length := by omega
        omega
      split
      · rename_i p hfind
        have hpk : p.1 = (me.1.1, parentPath me.1.2) := by
          have := List.find?_some hfind
          simpa [isParentOf_iff] using this
        exact map_ne_err _ _ (hpar p hpk)
      · split
        · rename_i herr
          obtain ⟨r, hr⟩ := hcl (parentPath me.1.2) (parent_nonempty hroot) (List.dropLast_prefix _) (by
            intro e
            have := congrArg List.length e
            rw [length_parent] at this
            omega)
          rw [hr] at herr; cases herr
        · simp
        · exact map_ne_err _ _ (hpar _ rfl)

theorem bubbleAll_ne_err (st : Settings) (sums : List (AKey × Dec)) :
    ∀ (l : List (AKey × Dec)),
      (∀ s ∈ l, ∀ q : Path, q ≠ [] → q <+: s.1.2 → q ≠ s.1.2 → ∃ r, st.getTxnAccount q s.1.1 = .ok r) →
      bubbleAll st sums l ≠ .err := by
  intro l
  induction l with
  | nil => intro _; simp [bubbleAll]
  | cons s rest ih =>
    intro hcl
    simp only [bubbleAll]
    split
    · rename_i herr
      exact absurd herr (bubbleUp_ne_err st sums _ s (hcl s List.mem_cons_self))
    · simp
    · split
      · rename_i herr
        exact absurd herr (ih (fun s' hs' => hcl s' (List.mem_cons_of_mem _ hs')))
      · simp
      · simp

/-- **balance_ok_of_closed**: if the settings know every proper ancestor of every posted account in the
    posting's commodity (`get_txn_account` succeeds: the chart of accounts is ancestor-closed, which the
    load path establishes — lax mode creates the parents, strict mode the synthetic parents), the balance
    kernel does not fail. -/
theorem balance_ok_of_closed (st : Settings) (posts : List BPost) (hwf : PostsWF posts)
    (hclosed : ∀ p ∈ posts, ∀ q : Path, q ≠ [] → q <+: p.acct → q ≠ p.acct →
      ∃ r, st.getTxnAccount q p.comm = .ok r) :
    balance st posts ≠ .err := by
  unfold balance
  split
  · simp
  · rename_i sums hsums
    have hA := accountSums_spec posts hwf sums hsums
    have hne : completeTree st sums ≠ .err := by
      unfold completeTree
      apply map_ne_err
      apply bubbleAll_ne_err
      intro s hs q hq hpre hneq
      obtain ⟨p, hp, hpk⟩ := (hA.keys s.1).mp (List.mem_map.mpr ⟨s, hs, rfl⟩)
      have e1 : p.comm = s.1.1 := by rw [← hpk]; rfl
      have e2 : p.acct = s.1.2 := by rw [← hpk]; rfl
      rw [← e1]
      exact hclosed p hp q hq (by rw [e2]; exact hpre) (by rw [e2]; exact hneq)
    split
    · rename_i herr; exact absurd herr hne
    · simp
    · split <;> simp

/-! ### non-vacuity: a concrete journal with a gap and two commodities

```
2024-01-01                      2024-01-02
 a      2    EUR                 a:b:c   7 USD
 a:b:c  1.50 EUR                 a:bc   -7 USD
 e     -3.50 EUR
```
(`corpus/C02/example-gap-two-commodities.json` runs the same journal through the implementation.) -/

def dd (n : Int) (s : Nat) : Dec := ⟨decide (n < 0), n.natAbs, s⟩
def hdr0 : Header := ⟨⟨0, 0⟩, none, none, none, none, none, none⟩
def mkP (a : Path) (c : String) (v : Dec) : Posting := ⟨a, c, v, v, false, c, none⟩
def txns0 : List Txn := [
  ⟨hdr0, [mkP ["a"] "EUR" (dd 2 0), mkP ["a","b","c"] "EUR" (dd 150 2), mkP ["e"] "EUR" (dd (-350) 2)]⟩,
  ⟨hdr0, [mkP ["a","b","c"] "USD" (dd 7 0), mkP ["a","bc"] "USD" (dd (-7) 0)]⟩]
/-- the settings after loading that journal in lax mode without charts -/
def st0 : Settings := Settings.ofConfig false false true [["a","b","c"],["e"],["a","bc"]] ["EUR","USD"] []
def posts0 : List BPost := postsOf txns0
def sums0 : List (AKey × Dec) := [(("EUR",["a"]), dd 2 0), (("EUR",["a","b","c"]), dd 150 2),
  (("EUR",["e"]), dd (-350) 2), (("USD",["a","b","c"]), dd 7 0), (("USD",["a","bc"]), dd (-7) 0)]
def complete0 : List (AKey × Dec) := [(("EUR",["a"]), dd 2 0), (("EUR",["a","b"]), Dec.zero),
  (("EUR",["a","b","c"]), dd 150 2), (("EUR",["e"]), dd (-350) 2),
  (("USD",["a"]), Dec.zero), (("USD",["a","b"]), Dec.zero), (("USD",["a","b","c"]), dd 7 0),
  (("USD",["a","bc"]), dd (-7) 0)]
/-- own sum, tree sum: `a` 2 / 3.50 EUR, gap `a:b` 0 / 1.50 EUR, …, gap `a` 0 / 0 USD, gap `a:b` 0 / 7 USD -/
def rows0 : List BalRow := [
  ⟨["a"], "EUR", dd 2 0, dd 350 2⟩, ⟨["a","b"], "EUR", Dec.zero, dd 150 2⟩,
  ⟨["a","b","c"], "EUR", dd 150 2, dd 150 2⟩, ⟨["e"], "EUR", dd (-350) 2, dd (-350) 2⟩,
  ⟨["a"], "USD", Dec.zero, dd 0 0⟩, ⟨["a","b"], "USD", Dec.zero, dd 7 0⟩,
  ⟨["a","b","c"], "USD", dd 7 0, dd 7 0⟩, ⟨["a","bc"], "USD", dd (-7) 0, dd (-7) 0⟩]

theorem ex_sorted_posts : posts0.mergeSort (fun a b => keyLe a.key b.key) = posts0 :=
  List.mergeSort_of_pairwise (by decide)
theorem ex_sums : accountSums posts0 = some sums0 := by
  unfold accountSums; rw [ex_sorted_posts]; decide
theorem ex_complete : completeTree st0 sums0 = .ok complete0 := by decide
theorem ex_walk : flattenOpt ((complete0.filter (fun s => s.1.2.length == 1)).map
    (treeNodes complete0 (maxDepth complete0 + 1))) = some rows0 := by decide
theorem ex_sorted_rows : rows0.mergeSort (fun a b => keyLe a.key b.key) = rows0 :=
  List.mergeSort_of_pairwise (by decide)

/-- the kernel is inside the exact domain on this journal and yields the expected figures -/
theorem ex_balance : balance st0 posts0 = .ok rows0 := by
  unfold balance
  rw [ex_sums]; simp only
  rw [ex_complete]; simp only
  rw [ex_walk]; simp only
  rw [ex_sorted_rows]

/-- both deltas are zero (`0.00 EUR`, `0 USD`) -/
theorem ex_fromIter : fromIter st0 (fun _ => true) posts0
    = .ok ⟨rows0, [("EUR", dd 0 2), ("USD", dd 0 0)]⟩ := by
  unfold fromIter
  rw [ex_balance]; simp only
  decide

/-- the hypotheses of the theorems hold for it -/
example : PostsWF posts0 := by
  refine ⟨by decide, by decide, namesInj_of_good posts0 ?_⟩
  intro x hx c hc
  have : ∀ x ∈ posts0, ∀ c ∈ x.acct, c ≠ "" ∧ ':' ∉ c.toList := by decide
  exact this x hx c hc
example : ∀ t ∈ txns0, C01.Balanced t := by
  intro t ht
  simp only [txns0, List.mem_cons, List.mem_nil_iff, or_false] at ht
  rcases ht with rfl | rfl
  · exact ⟨"EUR", by decide, by decide⟩
  · exact ⟨"USD", by decide, by decide⟩
example : ∀ t ∈ txns0, ∀ p ∈ t.posts, p.comm = p.txnComm := by decide
/-- the figures: gap `a:b` has own 0 and tree 1.50 EUR; `a` has tree 2 + 1.50 = 3.50 EUR -/
example : (rows0.map (fun r => (r.comm, acctName r.acct, r.own.units, r.tree.units))).take 2
    = [("EUR", "a", 2 * 10^28, 35 * 10^27), ("EUR", "a:b", 0, 15 * 10^27)] := by decide
/-- a selector listing only `a:b:c`: deltas are the listed own sums, 1.50 EUR and 7 USD -/
example : (fromIter st0 (fun r => acctName r.acct == "a:b:c") posts0).map (·.deltas)
    = .ok [("EUR", dd 150 2), ("USD", dd 7 0)] := by
  unfold fromIter
  rw [ex_balance]; simp only
  decide

/-- regression witness of F8 (fixed in the tree: ordered set instead of a hash set): the children of `a`
    are summed in key order, so the tree sum of `a` in ` a:x 1.00 / a:y -1.00 / a:z 5 / e -5` is the
    stored value `5` (`1.00 + -1.00 = 0.00`, then the zero short-cut `0.00 + 5 = 5`) on every run. -/
example : treeNodes [(("",["a"]), Dec.zero), (("",["a","x"]), dd 100 2), (("",["a","y"]), dd (-100) 2),
      (("",["a","z"]), dd 5 0), (("",["e"]), dd (-5) 0)] 3 (("",["a"]), Dec.zero)
    = some [⟨["a"], "", Dec.zero, dd 5 0⟩, ⟨["a","x"], "", dd 100 2, dd 100 2⟩,
            ⟨["a","y"], "", dd (-100) 2, dd (-100) 2⟩, ⟨["a","z"], "", dd 5 0, dd 5 0⟩] := by decide

end C02
end Tackler

import TacklerModel.Model.Order
import TacklerModel.Lemmas.Time
/-!
# C16 — timestamps are instants; zone defaults as configured; report zone display-only

Property theorems over `Model/Time.lean` (the transliteration of `parser/parts/timestamp.rs`,
`Settings::get_offset_datetime` / `get_offset_date`, `tackler_api::txn_ts`) and `Model/Order.lean`
(`impl Ord for TxnHeader`).  Every statement quantifies over all tokens / instants / offsets / configurations;
none is bounded.  Fixed-offset journal zones are fully proved; for named zones the transition table is data
(`ZoneTable`), theorems about them are marked `_partial` and say what they leave to the tie.
-/
namespace Tackler
namespace C16
open Time

/-! ### what a token denotes -/

/-- UTC offset (seconds) a token is read with: its own zone if written, else the journal zone -/
def zoneOffset (cfg : TsCfg) : Option (Option (Bool × Nat × Nat)) → Int
  | none => cfg.offset
  | some none => 0
  | some (some (neg, hh, mm)) => (if neg then -1 else 1) * ((hh * 3600 + mm * 60 : Nat) : Int)

/-- nanoseconds denoted by the optional fraction digits -/
def subOf : Option (List Char) → Nat
  | some ds => fracNs ds
  | none => 0

/-- the written wall-clock fields (hour, minute, second, ns), the configured default time for a date-only token -/
def clockOf (cfg : TsCfg) (t : TsToken) : Nat × Nat × Nat × Nat :=
  match t.time with
  | none => cfg.defaultTime
  | some (h, mi, s, frac) => (h, mi, s, subOf frac)

/-- the written wall-clock time as nanoseconds (read as if UTC) -/
def localNs (cfg : TsCfg) (t : TsToken) : Int :=
  match clockOf cfg t with
  | (h, mi, s, sub) => civilNs t.year t.month t.day h mi s sub

/-- `instant (dt, off) = civilNs dt − off·10⁹`: whenever a token resolves, its instant is the written wall-clock time
    minus the offset it is read with, and that offset is recorded -/
theorem instant_formula (cfg : TsCfg) (t : TsToken) (ts : Ts) (h : resolveTs cfg t = .ok ts) :
    ts.ns = localNs cfg t - zoneOffset cfg t.zone * 1000000000 ∧ ts.offset = zoneOffset cfg t.zone ∧
    instantOk ts.ns = true ∧ dateOk t.year t.month t.day = true := by
  obtain ⟨y, m, d, time, zone⟩ := t
  obtain ⟨coff, dh, dmi, ds, dns⟩ := cfg
  simp only [resolveTs] at h
  simp only [localNs, clockOf, zoneOffset, subOf]
  (repeat' split at h) <;> first
    | (cases h; done)
    | (cases h; simp_all)

/-- the offset check `p_offset` makes: only a written `±hh:mm` goes through `Offset::from_seconds` -/
def zoneChk (cfg : TsCfg) (z : Option (Option (Bool × Nat × Nat))) : Bool :=
  match z with
  | some (some _) => offsetOk (zoneOffset cfg z)
  | _ => true

/-- normal form of `resolveTs` on a token with a time -/
theorem resolve_some (cfg : TsCfg) (y m d h mi s : Nat) (frac : Option (List Char))
    (z : Option (Option (Bool × Nat × Nat))) :
    resolveTs cfg ⟨y, m, d, some (h, mi, s, frac), z⟩ =
      if dateOk y m d && timeOk h mi s && zoneChk cfg z &&
          instantOk (civilNs y m d h mi s (subOf frac) - zoneOffset cfg z * 1000000000)
      then .ok ⟨civilNs y m d h mi s (subOf frac) - zoneOffset cfg z * 1000000000, zoneOffset cfg z⟩ else .err := by
  cases hd : dateOk y m d <;> cases ht : timeOk h mi s <;> cases frac <;> rcases z with _ | _ | ⟨neg, hh, mm⟩ <;>
    simp [resolveTs, subOf, zoneOffset, zoneChk, hd, ht] <;>
    (cases offsetOk ((if neg = true then -1 else 1) * ((hh : Int) * 3600 + (mm : Int) * 60)) <;> simp)

/-! ### notation equivalence -/

/-- two notations whose wall-clock time minus offset agree resolve to the same instant -/
theorem notation_equiv_formula (cfg : TsCfg) (t₁ t₂ : TsToken) (a b : Ts)
    (h₁ : resolveTs cfg t₁ = .ok a) (h₂ : resolveTs cfg t₂ = .ok b)
    (heq : localNs cfg t₁ - zoneOffset cfg t₁.zone * 1000000000 = localNs cfg t₂ - zoneOffset cfg t₂.zone * 1000000000) :
    a.ns = b.ns := by
  rw [(instant_formula cfg t₁ a h₁).1, (instant_formula cfg t₂ b h₂).1, heq]

/-- `Z`, `+00:00` and `-00:00` are the same notation -/
theorem zulu_equiv (cfg : TsCfg) (t : TsToken) (neg : Bool) :
    resolveTs cfg { t with zone := some (some (neg, 0, 0)) } = resolveTs cfg { t with zone := some none } := by
  unfold resolveTs
  cases neg <;> simp [offsetOk]

/-- a zone field that the grammar can carry and `Offset::from_seconds` accepts (any `±hh:mm` up to 25:59, `Z`, or none) -/
def ZoneOk (cfg : TsCfg) (z : Option (Option (Bool × Nat × Nat))) : Prop := offsetOk (zoneOffset cfg z) = true ∨ z = none

/-- the token that writes instant `ns` with zone field `z`: civil fields of `ns` at the offset of `z`, nine fraction
    digits (none for a whole second) -/
def tokenAt (cfg : TsCfg) (ns : Int) (z : Option (Option (Bool × Nat × Nat))) : TsToken :=
  match civilAt ns (zoneOffset cfg z) with
  | (y, m, d, h, mi, s, sub) => ⟨y.toNat, m, d, some (h, mi, s, if sub = 0 then none else some (digitsOf 9 sub)), z⟩

/-- **notation_equiv (constructive form).** Every instant in range, written in *any* zone notation (`Z`, any `±hh:mm`
    the code accepts — in particular all of −23:59…+23:59 —, or zone-less in the journal zone) in which its civil year
    is 0000…9999, resolves to exactly that instant and records the notation's offset. -/
theorem notation_resolves (cfg : TsCfg) (ns : Int) (z : Option (Option (Bool × Nat × Nat)))
    (hns : instantOk ns = true) (hz : ZoneOk cfg z)
    (hy : 0 ≤ (civilAt ns (zoneOffset cfg z)).1 ∧ (civilAt ns (zoneOffset cfg z)).1 ≤ 9999) :
    resolveTs cfg (tokenAt cfg ns z) = .ok ⟨ns, zoneOffset cfg z⟩ := by
  unfold tokenAt
  generalize hc : civilAt ns (zoneOffset cfg z) = c at hy
  obtain ⟨y, m, d, h, mi, s, sub⟩ := c
  obtain ⟨hm1, hm2, hd1, hd2, hh, hmi, hs, hsub, hrec⟩ := civilNs_civilAt ns _ y m d h mi s sub hc
  simp only at hy
  have hyn : ((y.toNat : Nat) : Int) = y := by omega
  have hdate : dateOk y.toNat m d = true := by
    simp only [dateOk, hyn]
    simp
    omega
  have htime : timeOk h mi s = true := by simp [timeOk]; omega
  have hfr : subOf (if sub = 0 then none else some (digitsOf 9 sub)) = sub := by
    by_cases h0 : sub = 0
    · simp [h0, subOf]
    · simp [h0, subOf, fracNs_digitsOf sub hsub]
  have hinst : civilNs y.toNat m d h mi s sub = ns + zoneOffset cfg z * 1000000000 := by
    unfold civilNs
    rw [hyn]
    exact hrec
  have hchk : zoneChk cfg z = true := by
    rcases z with _ | _ | ⟨neg, hh', mm'⟩
    · rfl
    · rfl
    · rcases hz with hz | hz
      · simpa [zoneChk] using hz
      · cases hz
  have hback : ns + zoneOffset cfg z * 1000000000 - zoneOffset cfg z * 1000000000 = ns := by omega
  rw [resolve_some]
  simp [hdate, htime, hfr, hinst, hchk, hback, hns]

/-- **notation_equiv.** Two notations of one instant — any two zone fields, any offsets the code accepts — parse to
    equal instants (each keeps its own offset, which ordering ignores: `order_by_instant`). -/
theorem notation_equiv (cfg : TsCfg) (ns : Int) (z₁ z₂ : Option (Option (Bool × Nat × Nat)))
    (hns : instantOk ns = true) (hz₁ : ZoneOk cfg z₁) (hz₂ : ZoneOk cfg z₂)
    (hy₁ : 0 ≤ (civilAt ns (zoneOffset cfg z₁)).1 ∧ (civilAt ns (zoneOffset cfg z₁)).1 ≤ 9999)
    (hy₂ : 0 ≤ (civilAt ns (zoneOffset cfg z₂)).1 ∧ (civilAt ns (zoneOffset cfg z₂)).1 ≤ 9999) :
    ∃ a b, resolveTs cfg (tokenAt cfg ns z₁) = .ok a ∧ resolveTs cfg (tokenAt cfg ns z₂) = .ok b ∧
      a.ns = b.ns ∧ a.ns = ns ∧ a.offset = zoneOffset cfg z₁ ∧ b.offset = zoneOffset cfg z₂ :=
  ⟨_, _, notation_resolves cfg ns z₁ hns hz₁ hy₁, notation_resolves cfg ns z₂ hns hz₂ hy₂, rfl, rfl, rfl, rfl⟩

/-- every whole-minute offset from −23:59 to +23:59 is an accepted notation -/
theorem offsets_within_day_ok (cfg : TsCfg) (neg : Bool) (hh mm : Nat) (hh23 : hh ≤ 23) (hm59 : mm ≤ 59) :
    ZoneOk cfg (some (some (neg, hh, mm))) := by
  left
  cases neg <;> simp [zoneOffset, offsetOk] <;> omega

/-! ### fraction scaling -/

/-- **fraction_scaling.** `k` fraction digits (1 ≤ k ≤ 9) denote `value · 10^(9−k)` nanoseconds, which is below one
    second; that is the sub-second part of the resolved instant's wall-clock time. -/
theorem fraction_scaling (cfg : TsCfg) (t : TsToken) (ts : Ts) (h mi s : Nat) (ds : List Char)
    (ht : t.time = some (h, mi, s, some ds)) (hds : ∀ c ∈ ds, isDig c = true) (hk : ds.length ≤ 9)
    (hr : resolveTs cfg t = .ok ts) :
    fracNs ds = Dec.digitsVal ds * 10 ^ (9 - ds.length) ∧ fracNs ds < 1000000000 ∧
    ts.ns = civilNs t.year t.month t.day h mi s (Dec.digitsVal ds * 10 ^ (9 - ds.length))
              - zoneOffset cfg t.zone * 1000000000 := by
  refine ⟨rfl, ?_, ?_⟩
  · unfold fracNs
    have h1 := digitsVal_lt ds hds
    have h2 : Dec.digitsVal ds * 10 ^ (9 - ds.length) < 10 ^ ds.length * 10 ^ (9 - ds.length) :=
      Nat.mul_lt_mul_of_pos_right h1 (Nat.pow_pos (by omega))
    rw [← Nat.pow_add] at h2
    have : ds.length + (9 - ds.length) = 9 := by omega
    rw [this] at h2
    omega
  · rw [(instant_formula cfg t ts hr).1]
    simp [localNs, clockOf, ht, subOf, fracNs]

/-- `.5` and `.500000000`: trailing zeros (up to nine digits in all) do not change the value -/
theorem fraction_trailing_zeros (ds : List Char) (j : Nat) (h : ds.length + j ≤ 9) :
    fracNs (ds ++ List.replicate j '0') = fracNs ds := by
  unfold fracNs
  rw [digitsVal_append_zeros, List.length_append, List.length_replicate, Nat.mul_assoc, ← Nat.pow_add]
  congr 2
  omega

/-- `lexFrac` takes at most nine digits and leaves the rest -/
theorem lexFrac_long (ds rest : List Char) (hds : ∀ c ∈ ds, isDig c = true) (hlen : 10 ≤ ds.length) :
    ∃ c r, lexFrac ('.' :: (ds ++ rest)) = some (some (ds.take 9), c :: r) ∧ isDig c = true := by
  have htw : ∀ (l : List Char), (∀ c ∈ l, isDig c = true) → (l ++ rest).takeWhile isDig = l ++ rest.takeWhile isDig := by
    intro l hl
    induction l with
    | nil => simp
    | cons a t ih =>
      simp [hl a List.mem_cons_self, ih (fun c hc => hl c (List.mem_cons_of_mem _ hc))]
  have ht9 : ((ds ++ rest).takeWhile isDig).take 9 = ds.take 9 := by
    rw [htw ds hds, List.take_append_of_le_length (by omega)]
  have hl9 : (ds.take 9).length = 9 := by simp; omega
  have hdrop : (ds ++ rest).drop 9 = ds.drop 9 ++ rest := by
    rw [List.drop_append_of_le_length (by omega)]
  obtain ⟨c, r, hcr⟩ : ∃ c r, ds.drop 9 = c :: r := by
    cases hd : ds.drop 9 with
    | nil => have := congrArg List.length hd; simp at this; omega
    | cons c r => exact ⟨c, r, rfl⟩
  have hc : isDig c = true := hds c (List.mem_of_mem_drop (by rw [hcr]; exact List.mem_cons_self))
  refine ⟨c, r ++ rest, ?_, hc⟩
  simp only [lexFrac]
  simp only [beq_self_eq_true, if_true, ht9, hl9, hdrop, hcr]
  have hne : (List.take 9 ds).isEmpty = false := by
    cases hx : List.take 9 ds with
    | nil => rw [hx] at hl9; simp at hl9
    | cons _ _ => rfl
  simp [hne]

/-- a digit cannot start the zone part -/
theorem lexZone_digit (c : Char) (r : List Char) (hc : isDig c = true) : lexZone (c :: r) = none := by
  have hZ : (c == 'Z') = false := by
    cases hcz : c == 'Z' with
    | false => rfl
    | true => rw [beq_iff_eq.mp hcz] at hc; exact absurd hc (by decide)
  have hp : (c == '+') = false := by
    cases hcz : c == '+' with
    | false => rfl
    | true => rw [beq_iff_eq.mp hcz] at hc; exact absurd hc (by decide)
  have hm : (c == '-') = false := by
    cases hcz : c == '-' with
    | false => rfl
    | true => rw [beq_iff_eq.mp hcz] at hc; exact absurd hc (by decide)
  unfold lexZone
  split <;> simp_all

/-- **fraction: 10+ digits are rejected by the grammar.** -/
theorem fraction_ten_digits_rejected (cs rest1 ds rest : List Char) (y m d h mi s : Nat)
    (hdate : lexDate cs = some (y, m, d, 'T' :: rest1))
    (hclock : lexClock rest1 = some (h, mi, s, '.' :: (ds ++ rest)))
    (hds : ∀ c ∈ ds, isDig c = true) (hlen : 10 ≤ ds.length) :
    lexTs cs = none := by
  obtain ⟨c, r, hf, hc⟩ := lexFrac_long ds rest hds hlen
  unfold lexTs
  simp [hdate, hclock, hf, lexZone_digit c r hc]

/-! ### defaults from the configuration -/

/-- **default_zone.** A timestamp without zone takes the configured journal zone: its instant is the written
    wall-clock time minus the configured offset, and it records that offset. -/
theorem default_zone (cfg : TsCfg) (t : TsToken) (ts : Ts) (hz : t.zone = none) (h : resolveTs cfg t = .ok ts) :
    ts.ns = localNs cfg t - cfg.offset * 1000000000 ∧ ts.offset = cfg.offset := by
  have := instant_formula cfg t ts h
  rw [hz] at this
  exact ⟨this.1, this.2.1⟩

/-- … which is the same as writing the configured offset out (for a whole-minute configured offset) -/
theorem default_zone_explicit (cfg : TsCfg) (t : TsToken) (neg : Bool) (hh mm : Nat) (tm : Nat × Nat × Nat × Option (List Char))
    (htime : t.time = some tm)
    (hcfg : cfg.offset = (if neg then -1 else 1) * ((hh * 3600 + mm * 60 : Nat) : Int)) (hok : offsetOk cfg.offset = true) :
    resolveTs cfg { t with zone := none } = resolveTs cfg { t with zone := some (some (neg, hh, mm)) } := by
  obtain ⟨h, mi, s, frac⟩ := tm
  unfold resolveTs
  simp only [htime]
  rw [← hcfg]
  simp [hok]

/-- **default_time.** A date-only timestamp takes the configured default time (and the configured zone). -/
theorem default_time (cfg : TsCfg) (t : TsToken) (ts : Ts) (ht : t.time = none) (h : resolveTs cfg t = .ok ts) :
    t.zone = none ∧
    ts.ns = civilNs t.year t.month t.day cfg.defaultTime.1 cfg.defaultTime.2.1 cfg.defaultTime.2.2.1 cfg.defaultTime.2.2.2
              - cfg.offset * 1000000000 ∧ ts.offset = cfg.offset := by
  have hzn : t.zone = none := by
    simp only [resolveTs, ht] at h
    (repeat' split at h) <;> first | (cases h; done) | rfl | simp_all
  have := instant_formula cfg t ts h
  rw [hzn] at this
  refine ⟨hzn, ?_, this.2.1⟩
  rw [this.1]
  simp [localNs, clockOf, ht, zoneOffset]

/-- … which is the same as writing the default time out -/
theorem default_time_explicit (cfg : TsCfg) (y m d : Nat) (h mi s sub : Nat) (hcfg : cfg.defaultTime = (h, mi, s, sub))
    (htime : timeOk h mi s = true) (hsub : sub < 1000000000) :
    resolveTs cfg ⟨y, m, d, none, none⟩ = resolveTs cfg ⟨y, m, d, some (h, mi, s, some (digitsOf 9 sub)), none⟩ := by
  unfold resolveTs
  simp [hcfg, htime, fracNs_digitsOf sub hsub]

/-! ### named journal zones: the table is data -/

/-- fixed offsets are the special case (by definition) -/
theorem resolveTsZ_fixed (off : Int) (dt : Nat × Nat × Nat × Nat) (t : TsToken) :
    resolveTsZ ⟨.fixed off, dt⟩ t = resolveTs ⟨off, dt⟩ t := rfl

/-- a written zone overrides the journal zone: the table is not consulted -/
theorem table_not_consulted (z : ZoneTable) (cfg : TsCfg) (t : TsToken) (hz : t.zone ≠ none) :
    resolveTsZ ⟨.table z, cfg.defaultTime⟩ t = resolveTs cfg t := by
  obtain ⟨y, m, d, time, zone⟩ := t
  cases zone with
  | none => exact absurd rfl hz
  | some zz =>
    cases time with
    | none => simp [resolveTsZ, resolveTs]
    | some tm =>
      obtain ⟨h, mi, s, frac⟩ := tm
      rcases zz with _ | ⟨neg, hh, mm⟩ <;>
        cases hd : dateOk y m d <;> cases ht : timeOk h mi s <;> simp [resolveTsZ, resolveTs, hd, ht]

theorem resolveLocalFrom_mem (z : ZoneTable) (trans : List (Int × Int)) (prev loc : Int) :
    ∃ p, p ∈ prev :: trans.map Prod.snd ∧ (resolveLocalFrom z prev trans loc).1 = loc - p * 1000000000 := by
  induction trans generalizing prev with
  | nil => exact ⟨prev, by simp, rfl⟩
  | cons hd tl ih =>
    obtain ⟨t, o⟩ := hd
    simp only [resolveLocalFrom]
    split
    · exact ⟨prev, by simp, rfl⟩
    · split
      · exact ⟨prev, by simp, rfl⟩
      · obtain ⟨p, hp, he⟩ := ih o
        refine ⟨p, ?_, he⟩
        simp only [List.map_cons, List.mem_cons] at hp ⊢
        rcases hp with hp | hp
        · right; left; exact hp
        · right; right; exact hp

/-- **default_zone for a table zone (partial).** Full statement: the instant `u` is the one whose wall-clock reading
    in the zone is the written time (the earlier one in a fold; the written time moved forward by the gap's length in a
    gap), i.e. jiff's "compatible" rule on the real tz database.  Proved here for every table: the instant is the
    written wall-clock time minus *one of the zone's own offsets* (the initial one or one listed in the table).  Which
    one is decided by the table's content — data exported from jiff — and is validated on every run by the tie
    (op `ts`, wall-clock times around every kind of transition) and by the python `zoneinfo` oracle. -/
theorem default_zone_table_partial (z : ZoneTable) (dt : Nat × Nat × Nat × Nat) (t : TsToken) (ts : Ts)
    (hz : t.zone = none) (h : resolveTsZ ⟨.table z, dt⟩ t = .ok ts) :
    ∃ p, p ∈ z.init :: z.trans.map Prod.snd ∧ ts.ns = localNs ⟨0, dt⟩ t - p * 1000000000 := by
  obtain ⟨y, m, d, time, zone⟩ := t
  simp only at hz
  subst hz
  have key : ∀ loc, zonedInstant z loc = .ok ts →
      ∃ p, p ∈ z.init :: z.trans.map Prod.snd ∧ ts.ns = loc - p * 1000000000 := by
    intro loc hl
    unfold zonedInstant at hl
    split at hl
    · simp only at hl
      split at hl
      · cases hl
        exact resolveLocalFrom_mem z z.trans z.init loc
      · cases hl
    · cases hl
  unfold resolveTsZ at h
  simp only at h
  split at h
  · cases h
  · cases time with
    | none =>
      simp only at h
      obtain ⟨dh, dmi, ds, dns⟩ := dt
      simpa [localNs, clockOf] using key _ h
    | some tm =>
      obtain ⟨hh, mi, s, frac⟩ := tm
      simp only at h
      split at h
      · cases h
      · cases frac <;> simpa [localNs, clockOf, subOf] using key _ h

/-- a table without transitions is the fixed offset `init` (inside its window) -/
theorem table_without_transitions (lo hi init : Int) (loc : Int)
    (hw : lo + windowMargin ≤ loc ∧ loc ≤ hi - windowMargin) :
    zonedInstant ⟨lo, hi, init, []⟩ loc =
      if instantOk (loc - init * 1000000000) then .ok ⟨loc - init * 1000000000, init⟩ else .err := by
  by_cases hi : instantOk (loc - init * 1000000000) = true <;>
    simp [zonedInstant, hw, resolveLocal, resolveLocalFrom, hi]

/-! ### ordering is by instant -/

/-- the ordering of headers is a function of `hdrKey`, in which the written offset does not occur -/
theorem hdrLe_key (a a' b b' : Header) (ha : hdrKey a = hdrKey a') (hb : hdrKey b = hdrKey b') :
    hdrLe a b = hdrLe a' b' := by
  unfold hdrLe
  rw [ha, hb]

/-- re-notating a header: another offset for the same instant -/
def renotate (o : Int) (h : Header) : Header := { h with ts := ⟨h.ts.ns, o⟩ }

theorem hdrKey_renotate (o : Int) (h : Header) : hdrKey (renotate o h) = hdrKey h := rfl

/-- **order_by_instant.** `impl Ord for TxnHeader` depends on the instant (`ts.ns`), never on the offset notation:
    two headers with the same instant (and the same code, description, uuid) order identically against any third
    header, on either side. -/
theorem order_by_instant (a a' b : Header) (hns : a'.ts.ns = a.ts.ns) (hc : a'.code = a.code)
    (hd : a'.desc = a.desc) (hu : a'.uuid = a.uuid) :
    hdrLe a' b = hdrLe a b ∧ hdrLe b a' = hdrLe b a := by
  have hk : hdrKey a' = hdrKey a := by simp [hdrKey, hns, hc, hd, hu]
  exact ⟨hdrLe_key a' a b b hk rfl, hdrLe_key b b a' a rfl hk⟩

/-- re-notating every transaction (each with its own new offset) commutes with the load-time sort: the order of a
    journal does not depend on how its timestamps' offsets were written -/
theorem sort_ignores_notation (g : Txn → Int) (txns : List Txn) :
    sortTxns (txns.map (fun t => { t with header := renotate (g t) t.header })) =
      (sortTxns txns).map (fun t => { t with header := renotate (g t) t.header }) := by
  unfold sortTxns
  rw [List.map_mergeSort]
  intro a _ b _
  simp only [txnLe]
  exact hdrLe_key _ _ _ _ (hdrKey_renotate _ _).symm (hdrKey_renotate _ _).symm

/-! ### the report zone is display-only -/

/-- everything a run is configured with, as far as this property goes -/
structure RunCfg where
  settings : Settings
  ts : TsCfg
  /-- offset of the report zone (at the instant shown) -/
  reportOff : Int
  style : TsStyle

/-- timestamp tokens → instants, in the journal zone -/
def resolveAll (cfg : TsCfg) : List (TsToken × RawTxn) → Outcome (List RawTxn)
  | [] => .ok []
  | (tok, r) :: rest =>
    match resolveTs cfg tok with
    | .ok ts =>
      (match resolveAll cfg rest with
       | .ok rs => .ok ({ r with header := { r.header with ts := ts } } :: rs)
       | .err => .err
       | .undef => .undef)
    | .err => .err
    | .undef => .undef

/-- loading under a full run configuration: resolve the timestamps, accept, sort -/
def loadRun (c : RunCfg) (xs : List (TsToken × RawTxn)) : Outcome (List Txn × Settings) :=
  (resolveAll c.ts xs).bind (loadJournal c.settings)

/-- the timestamp column of the register report: the only consumer of the report zone -/
def registerStamps (c : RunCfg) (txns : List Txn) : List String :=
  txns.map (fun t => fmtStyle c.style t.header.ts.ns c.reportOff)

/-- **report_tz_display_only.** Loading — timestamp resolution, acceptance (every posting amount), the sort order —
    takes the whole run configuration and yet is invariant under any change of the report zone and timestamp style:
    the loaded, ordered transactions with all their amounts are literally the same value.  (The register's rows are
    not modelled yet; that the real register differs only in the timestamp text is checked on the implementation by
    the `report-tz` oracle of gen/c16.py.) -/
theorem report_tz_display_only (c : RunCfg) (z : Int) (st : TsStyle) (xs : List (TsToken × RawTxn)) :
    loadRun { c with reportOff := z, style := st } xs = loadRun c xs := rfl

/-- what *is* displayed depends on the instant and the report zone only — not on the offset the timestamp was
    written with -/
theorem display_ignores_notation (c : RunCfg) (g : Txn → Int) (txns : List Txn) :
    registerStamps c (txns.map (fun t => { t with header := renotate (g t) t.header })) = registerStamps c txns := by
  simp [registerStamps, renotate, List.map_map, Function.comp_def]

/-! ### round trip -/

/-- what the lexer guarantees about fraction digits -/
def FracOk (t : TsToken) : Prop :=
  ∀ h mi s ds, t.time = some (h, mi, s, some ds) → (∀ c ∈ ds, isDig c = true) ∧ ds.length ≤ 9

/-- `Timestamp::from` of the configuration: the default time is a valid `civil::Time` -/
def CfgOk (cfg : TsCfg) : Prop :=
  timeOk cfg.defaultTime.1 cfg.defaultTime.2.1 cfg.defaultTime.2.2.1 = true ∧ cfg.defaultTime.2.2.2 < 1000000000

theorem fracNs_lt (ds : List Char) (hds : ∀ c ∈ ds, isDig c = true) (hk : ds.length ≤ 9) : fracNs ds < 1000000000 := by
  unfold fracNs
  have h1 := digitsVal_lt ds hds
  have h2 : Dec.digitsVal ds * 10 ^ (9 - ds.length) < 10 ^ ds.length * 10 ^ (9 - ds.length) :=
    Nat.mul_lt_mul_of_pos_right h1 (Nat.pow_pos (by omega))
  rw [← Nat.pow_add] at h2
  have : ds.length + (9 - ds.length) = 9 := by omega
  rw [this] at h2
  omega

/-- **round trip.** Showing a resolved timestamp at the offset it recorded gives back the written civil fields (for a
    date-only timestamp: the date and the configured default time). -/
theorem roundtrip (cfg : TsCfg) (t : TsToken) (ts : Ts) (hcfg : CfgOk cfg) (hf : FracOk t)
    (h : resolveTs cfg t = .ok ts) :
    civilAt ts.ns ts.offset =
      ((t.year : Int), t.month, t.day, (clockOf cfg t).1, (clockOf cfg t).2.1, (clockOf cfg t).2.2.1, (clockOf cfg t).2.2.2) := by
  obtain ⟨hns, hoff, _, hdate⟩ := instant_formula cfg t ts h
  rw [hns, hoff]
  have hd : (1 ≤ t.month ∧ t.month ≤ 12) ∧ (1 ≤ t.day ∧ t.day ≤ daysInMonth t.year t.month) := by
    simp [dateOk] at hdate
    omega
  have hclock : timeOk (clockOf cfg t).1 (clockOf cfg t).2.1 (clockOf cfg t).2.2.1 = true ∧
      (clockOf cfg t).2.2.2 < 1000000000 := by
    obtain ⟨y, m, d, time, zone⟩ := t
    cases time with
    | none => unfold CfgOk at hcfg; simpa [clockOf] using hcfg
    | some tm =>
      obtain ⟨hh, mi, s, frac⟩ := tm
      have hto : timeOk hh mi s = true := by
        simp only [resolveTs] at h
        (repeat' split at h) <;> first | (cases h; done) | simp_all
      refine ⟨by simpa [clockOf] using hto, ?_⟩
      cases frac with
      | none => simp [clockOf, subOf]
      | some ds =>
        obtain ⟨h1, h2⟩ := hf hh mi s ds rfl
        simpa [clockOf, subOf] using fracNs_lt ds h1 h2
  unfold localNs
  generalize clockOf cfg t = ck at hclock
  obtain ⟨ch, cmi, cs, csub⟩ := ck
  simp only [timeOk, decide_eq_true_eq] at hclock
  exact civilAt_civilNs t.year t.month t.day ch cmi cs csub _ hd.1 hd.2 hclock.1.1 hclock.1.2.1 hclock.1.2.2 hclock.2

theorem mem_takeWhile_true {α} (p : α → Bool) (l : List α) (c : α) (h : c ∈ l.takeWhile p) : p c = true := by
  induction l with
  | nil => simp at h
  | cons a t ih =>
    rw [List.takeWhile_cons] at h
    split at h
    · rename_i hp
      rcases List.mem_cons.mp h with rfl | h'
      · exact hp
      · exact ih h'
    · simp at h

theorem lexFrac_ok (cs : List Char) (ds rest : List Char) (h : lexFrac cs = some (some ds, rest)) :
    (∀ c ∈ ds, isDig c = true) ∧ ds.length ≤ 9 := by
  unfold lexFrac at h
  split at h
  · rename_i c r
    split at h
    · simp only at h
      split at h
      · cases h
      · cases h
        refine ⟨fun c hc => ?_, by simp; omega⟩
        exact mem_takeWhile_true isDig _ c (List.mem_of_mem_take hc)
    · cases h
  · cases h

/-- the lexer only produces fractions of 1–9 ASCII digits -/
theorem lexTs_fracOk (cs : List Char) (t : TsToken) (h : lexTs cs = some t) : FracOk t := by
  intro hh mi s ds ht
  unfold lexTs at h
  split at h
  · cases h
  · split at h
    · cases h; simp at ht
    · split at h
      · cases h
      · split at h
        · cases h
        · split at h
          · cases h
          · rename_i hfr
            split at h
            · cases h
            · cases h
              simp only [Option.some.injEq, Prod.mk.injEq] at ht
              obtain ⟨_, _, _, rfl⟩ := ht
              exact lexFrac_ok _ _ _ hfr

/-- **round trip from text.** A timestamp text that parses shows, at its recorded offset, the civil fields its
    lexical token carries. -/
theorem parse_roundtrip (cfg : TsCfg) (text : String) (ts : Ts) (hcfg : CfgOk cfg) (h : parseTs cfg text = .ok ts) :
    ∃ t, lexTs text.toList = some t ∧
      civilAt ts.ns ts.offset =
        ((t.year : Int), t.month, t.day, (clockOf cfg t).1, (clockOf cfg t).2.1, (clockOf cfg t).2.2.1, (clockOf cfg t).2.2.2) := by
  unfold parseTs at h
  split at h
  · cases h
  · rename_i t ht
    exact ⟨t, ht, roundtrip cfg t ts hcfg (lexTs_fracOk _ t ht) h⟩

/-! ### non-vacuity examples and regression witnesses -/

-- the three notations, `.5` ≡ `.500000000`, `Z` ≡ `+00:00` ≡ `-00:00`
example : parseTs utcCfg "2024-01-01T10:00:00.5" = .ok ⟨1704103200500000000, 0⟩ := by decide
example : parseTs utcCfg "2024-01-01T10:00:00.500000000" = parseTs utcCfg "2024-01-01T10:00:00.5" := by decide
example : parseTs utcCfg "2024-01-01T12:00:00+02:00" = .ok ⟨1704103200000000000, 7200⟩ := by decide
example : parseTs utcCfg "2024-01-01T10:00:00-00:00" = parseTs utcCfg "2024-01-01T10:00:00Z" := by decide
-- ten fraction digits, hour 24, Feb 30, offset 26:00 are rejected; offset 25:59 and minutes 99 are accepted (as the code does)
example : parseTs utcCfg "2024-01-01T10:00:00.5000000000" = .err := by decide
example : parseTs utcCfg "2024-01-01T24:00:00" = .err := by decide
example : parseTs utcCfg "2024-02-30" = .err := by decide
example : parseTs utcCfg "2024-01-01T10:00:00+26:00" = .err := by decide
example : parseTs utcCfg "2024-01-01T10:00:00+25:59" = .ok ⟨1704009660000000000, 93540⟩ := by decide
example : parseTs utcCfg "2024-01-01T10:00:00+00:99" = .ok ⟨1704097260000000000, 5940⟩ := by decide
-- date-only, default time 22:30:15, journal zone −05:00: the instant is on the next UTC day
example : parseTs ⟨-18000, (22, 30, 15, 0)⟩ "2024-01-01" = .ok ⟨1704166215000000000, -18000⟩ := by decide
example : fmtDate 1704166215000000000 0 = "2024-01-02" := by decide
-- the ends of the range: year 0000 and 9999-12-30T22:00:00.999999999Z
example : parseTs utcCfg "0000-01-01" = .ok ⟨-62167219200000000000, 0⟩ := by decide
example : parseTs utcCfg "9999-12-30T22:00:00.999999999Z" = .ok ⟨253402207200999999999, 0⟩ := by decide
example : parseTs utcCfg "9999-12-30T22:00:01Z" = .err := by decide
-- the report zone does change the display (so `report_tz_display_only` is not vacuous) …
example : fmtDate 1704150000500000000 0 ≠ fmtDate 1704150000500000000 32400 := by decide
-- … and the display texts are those of txn_ts.rs's unit tests
example : rfc3339 1293210123700000000 (-57600) = "2010-12-24T01:02:03.7-16:00" := by decide
example : fmtIsoWeekDate 1262476800000000000 0 = "2009-W53-7" := by decide
example : fmtIsoWeekDate 1609459200000000000 0 = "2020-W53-5" := by decide
example : fmtIsoWeek 1483228800000000000 0 = "2016-W52" := by decide
-- hypotheses of `notation_resolves` are satisfiable, with a negative offset crossing midnight
example : resolveTs utcCfg (tokenAt utcCfg 1704103200500000000 (some (some (true, 23, 59)))) =
    .ok ⟨1704103200500000000, -86340⟩ := by decide

/-- regression witness of finding F22 (jiff 0.2.5, upstream): half a second before New York's 1967-04-30 transition
    the modelled lookup (`Timestamp::as_second()` truncates toward zero) already yields the offset after it, whereas
    the plain table lookup yields the offset before it.  If the dependency is fixed, the tie breaks and this witness
    (with `lookupNs`) is to be removed. -/
theorem witness_F22 :
    offsetAt ⟨-100000000000000000, 0, -18000, [(-84387600000000000, -14400)]⟩ (-84387600500000000) = -14400 ∧
    offsetAtFrom (-18000) [(-84387600000000000, -14400)] (-84387600500000000) = -18000 := by decide

end C16
end Tackler

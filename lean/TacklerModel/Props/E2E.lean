import TacklerModel.Lemmas.E2E
import TacklerModel.Props.C01
import TacklerModel.Props.C02
import TacklerModel.Props.C03
import TacklerModel.Props.C04
import TacklerModel.Props.C06b
import TacklerModel.Props.C09
import TacklerModel.Props.C10
import TacklerModel.Props.C12
import TacklerModel.Props.C13
import TacklerModel.Props.C15
/-!
# E2E — the per-stage theorems composed, starting from journal TEXT

The property theorems of C01, C02, C03, C09, C10, C13 and C04 are stated over parse trees / accepted transactions
and carry representation hypotheses (`C01.RawWF`, `C02.PostsWF`, `C03.TxnsWF`, "uuid texts contain no newline").
Here they are composed with the grammar (`Model/Syntax`, `Lemmas/RawLex`) so that the **only hypothesis about the
input is that the text loads**:

    loadText cfg st text = .ok (ts, st')

(`cfg` any journal-zone configuration — `C06.CfgOK` is not needed, because nothing below uses the timestamp clause
of `C06.RawLex`; `st` any settings, except where a theorem is about the chart of accounts the load leaves behind,
which needs the initial chart to be ancestor-closed as `Settings.ofConfig` builds it).

Reports are computed from a *selection* of the loaded transactions (`TxnData::filter`), so the report theorems are
stated for `ts.filter tf` with an arbitrary transaction filter `tf`; `tf := fun _ => true` is the whole journal
(`filter_all`).  The settings a report kernel runs with (`sb`) are arbitrary wherever the per-stage theorem allows it.

| strengthens | theorem | composed from |
|---|---|---|
| C01 | `rawWF_of_rawLex`, `text_rawWF`, `text_txn_origin`, **`text_accept_balanced`** | `Lemmas/RawLex` (numbers come from `Dec.ofToken`), `C01.accept_balanced` |
| C02 | `text_postsWF`, **`text_balance_exact`**, `text_balance_deltas`, `text_delta_zero`, `text_delta_zero_unpriced`, **`text_balance_never_errs`** (`_closed`) | `C03.loaded_wf`, `C02.namesInj_of_good`, `C02.rows_exact` / `own_sum` / `tree_sum_posts` / `delta_eq` / `delta_zero` / `balance_ok_of_closed`, `C12.report_parents_ok`, `C12.ofConfig_closed` |
| C03 | `text_sorted`, **`text_register_exact`**, `text_register_selected` | `C03.load_sorted_journal`, `running_total`, `last_total_balance`, `last_total_exists`, `running_total_selected`, `selector_only_hides` |
| C10 | **`text_equity`** | `C10.equity_shape`, `equity_accepts`, `equity_carries` with `C02.own_sum`, `C02.rows_nodup` |
| C13 | **`text_groups`**, `text_groups_total`, `text_groups_never_err` | `C13.group_partition`, `group_figures`, `group_own_tree_sums`, `group_rows_deltas`, `group_total`, `group_total_rows`, `no_panic` |
| C09 | `text_uuid_no_newline`, **`text_checksum_determines_set`**, `text_equal_checksum_is_collision` | `Syntax.pUuid_ok_wf`, `C09.preimage_injective`, `C09.equal_checksum_is_collision` |
| C04 | **`text_order_free`**, `text_order_free_values` | `C04.shards_free`, `AcceptOrder.loadText_eq`, `C04.load_values_perm` |

No theorem here is `_partial`: every representation hypothesis of the composed theorems is discharged.  What stays
explicit is content, not well-formedness: `text_delta_zero` keeps the property's own premise "no posting is priced
into another commodity" (and `text_delta_zero_unpriced` discharges it from the parse trees having no `@`/`=`
position); `text_equity`'s carry clause keeps "the equity account is not itself selected".
-/
set_option linter.unusedVariables false

namespace Tackler
namespace E2E
open Syntax KeyOrder

/-! ## 0. what a successful load of a text is -/

/-- **load_inv**: a text that loads parsed to at least one parse tree, every parse tree is lexically well-formed
    (`TxnLex`), all were accepted (threading the settings) and the result is the sorted accepted list. -/
theorem load_inv (cfg : Time.TsCfg) (st st' : Settings) (text : List Char) (ts : List Txn)
    (h : loadText cfg st text = .ok (ts, st')) :
    ∃ rs acc, parseJournal cfg text = some rs ∧ rs ≠ [] ∧ (∀ r ∈ rs, TxnLex r) ∧
      acceptJournal st rs = .ok (acc, st') ∧ ts = sortTxns acc ∧ loadJournal st rs = .ok (ts, st') := by
  have h0 := h
  unfold loadText at h
  split at h
  · cases h
  · rename_i rs hrs
    obtain ⟨hne, hlex⟩ := parseJournal_lex cfg text rs hrs
    have hl := h
    cases rs with
    | nil => exact absurd rfl hne
    | cons r0 rt =>
      simp only [loadJournal] at h
      obtain ⟨⟨acc, s0⟩, ha, he⟩ := (Outcome.map_ok _ _ _).mp h
      cases he
      exact ⟨r0 :: rt, acc, hrs, hne, hlex, ha, rfl, hl⟩

/-- the converse direction used by the examples: a text whose parse trees are all accepted loads, to the sorted
    accepted list (`List.mergeSort` does not evaluate under `decide`; `acceptText` does) -/
theorem load_of_acceptText (cfg : Time.TsCfg) (st st' : Settings) (text : List Char) (acc : List Txn)
    (h : acceptText cfg st text = .ok (acc, st')) : loadText cfg st text = .ok (sortTxns acc, st') := by
  unfold acceptText at h
  unfold loadText
  split at h
  · cases h
  · rename_i rs hrs
    obtain ⟨hne, _⟩ := parseJournal_lex cfg text rs hrs
    cases rs with
    | nil => exact absurd rfl hne
    | cons r0 rt => simp only [loadJournal, h, Outcome.map]

theorem mem_sortTxns (acc : List Txn) (t : Txn) : t ∈ sortTxns acc ↔ t ∈ acc := (sortTxns_perm acc).mem_iff

theorem filter_all (ts : List Txn) : ts.filter (fun _ => true) = ts := by simp

theorem mem_postsOf (txns : List Txn) (p : BPost) :
    p ∈ postsOf txns ↔ ∃ t ∈ txns, ∃ q ∈ t.posts, p = ⟨q.acct, q.comm, q.amount⟩ := by
  unfold postsOf
  simp only [List.mem_flatMap, List.mem_map]
  constructor
  · rintro ⟨t, ht, q, hq, rfl⟩; exact ⟨t, ht, q, hq, rfl⟩
  · rintro ⟨t, ht, q, hq, rfl⟩; exact ⟨t, ht, q, hq, rfl⟩

/-! ## 1. C01 — every transaction of a loaded text is balanced -/

/-- **rawWF_of_rawLex**: a lexically well-formed parse tree (`C06.RawLex`, what `C06.parseJournal_rawLex` proves of
    the grammar's output) satisfies C01's representation invariant `RawWF` — its numbers come from `Dec.ofToken`,
    so they have at most 28 decimals. -/
theorem rawWF_of_rawLex (r : RawTxn) (h : C06.RawLex r) : C01.RawWF r :=
  fun rp hrp => rawPostingWF_of_postLex rp
    ⟨(h.posts rp hrp).acct, (h.posts rp hrp).amount, (h.posts rp hrp).unit, (h.posts rp hrp).comment⟩

/-- **text_rawWF**: every parse tree the grammar produces from a text satisfies `C01.RawWF` (any zone
    configuration). -/
theorem text_rawWF (cfg : Time.TsCfg) (text : List Char) (rs : List RawTxn)
    (hp : parseJournal cfg text = some rs) : ∀ r ∈ rs, C01.RawWF r :=
  fun r hr => rawWF_of_lex r ((parseJournal_lex cfg text rs hp).2 r hr)

/-- **text_txn_origin**: every transaction of a loaded text was accepted by `acceptTxn` from one of the text's parse
    trees, which is well-formed — so every theorem of C01 about `acceptTxn` (`foreign_posting_priced`,
    `implicit_last`, the rejection classes) applies to it without further hypothesis. -/
theorem text_txn_origin (cfg : Time.TsCfg) (st st' : Settings) (text : List Char) (ts : List Txn)
    (h : loadText cfg st text = .ok (ts, st')) :
    ∃ rs, parseJournal cfg text = some rs ∧ ts.length = rs.length ∧
      ∀ t ∈ ts, ∃ r ∈ rs, C01.RawWF r ∧ TxnLex r ∧ ∃ s1 s2, acceptTxn s1 r = .ok (t, s2) := by
  obtain ⟨rs, acc, hp, _, hlex, hacc, rfl, _⟩ := load_inv cfg st st' text ts h
  refine ⟨rs, hp, ?_, ?_⟩
  · unfold acceptJournal at hacc
    simp only [sortTxns, List.length_mergeSort]
    exact mapMS_length _ _ _ _ _ hacc
  · intro t ht
    obtain ⟨r, hr, s1, s2, hf⟩ := mapMS_ok acceptTxn rs st st' acc hacc t ((mem_sortTxns acc t).mp ht)
    exact ⟨r, hr, rawWF_of_lex r (hlex r hr), hlex r hr, s1, s2, hf⟩

/-- **C01 end to end — `text_accept_balanced`.**  Every transaction of a loaded text is balanced in a single
    transaction commodity: non-zero postings, one transaction commodity, own-commodity postings valued at their
    amount, values summing to exactly zero.  No hypothesis besides the load. -/
theorem text_accept_balanced (cfg : Time.TsCfg) (st st' : Settings) (text : List Char) (ts : List Txn)
    (h : loadText cfg st text = .ok (ts, st')) : ∀ t ∈ ts, C01.Balanced t := by
  obtain ⟨rs, _, _, horig⟩ := text_txn_origin cfg st st' text ts h
  intro t ht
  obtain ⟨r, _, hwf, _, s1, s2, hf⟩ := horig t ht
  exact C01.accept_balanced s1 s2 r t hwf hf

/-! ## 2. C02 — balance figures of a loaded text are the exact sums -/

/-- the amounts of a loaded text have at most 28 decimals (`C03.loaded_wf` with `RawWF` discharged) -/
theorem text_txnsWF (cfg : Time.TsCfg) (st st' : Settings) (text : List Char) (ts : List Txn)
    (h : loadText cfg st text = .ok (ts, st')) : C03.TxnsWF ts := by
  obtain ⟨rs, acc, hp, _, hlex, _, _, hl⟩ := load_inv cfg st st' text ts h
  exact C03.loaded_wf st st' rs ts (fun r hr => rawWF_of_lex r (hlex r hr)) hl

/-- every posting of a loaded text — the implicit last posting of a transaction included — is to an account the
    text writes out: a non-empty list of non-empty components without `':'` -/
theorem text_accts_good (cfg : Time.TsCfg) (st st' : Settings) (text : List Char) (ts : List Txn)
    (h : loadText cfg st text = .ok (ts, st')) : ∀ t ∈ ts, ∀ p ∈ t.posts, GoodPath p.acct ∧ p.acct ≠ [] := by
  obtain ⟨rs, _, _, horig⟩ := text_txn_origin cfg st st' text ts h
  intro t ht p hp
  obtain ⟨r, _, _, hlex, s1, s2, hf⟩ := horig t ht
  exact (accepted_acct_lex s1 s2 r t hlex hf p hp).good

/-- **text_postsWF**: the posting stream of a loaded text satisfies C02's `PostsWF`: stored scales ≤ 28, non-empty
    account paths, and account names determine account paths among all prefixes (ancestors) of posted paths. -/
theorem text_postsWF (cfg : Time.TsCfg) (st st' : Settings) (text : List Char) (ts : List Txn)
    (h : loadText cfg st text = .ok (ts, st')) : C02.PostsWF (postsOf ts) := by
  have hsc := text_txnsWF cfg st st' text ts h
  have hgood := text_accts_good cfg st st' text ts h
  have hg : ∀ x ∈ postsOf ts, GoodPath x.acct ∧ x.acct ≠ [] := by
    intro x hx
    obtain ⟨t, ht, q, hq, rfl⟩ := (mem_postsOf ts x).mp hx
    exact hgood t ht q hq
  refine ⟨?_, fun p hp => (hg p hp).2, C02.namesInj_of_good (postsOf ts) (fun x hx => (hg x hx).1)⟩
  intro p hp
  obtain ⟨t, ht, q, hq, rfl⟩ := (mem_postsOf ts p).mp hp
  exact hsc t ht q hq

/-- … and so does the posting stream of every selection of its transactions -/
theorem text_postsWF_filter (cfg : Time.TsCfg) (st st' : Settings) (text : List Char) (ts : List Txn)
    (h : loadText cfg st text = .ok (ts, st')) (tf : Txn → Bool) : C02.PostsWF (postsOf (ts.filter tf)) :=
  C13.postsWF_subset (text_postsWF cfg st st' text ts h)
    (C13.postsOf_subset (fun _ ht => (List.mem_filter.mp ht).1))

/-- **C02 end to end — `text_balance_exact`.**  For the transactions a filter selects from a loaded text, whenever
    the balance kernel answers (with whatever settings), its rows are exactly the posted (commodity, account) pairs
    and their proper ancestors, each once, strictly sorted by (commodity, account name); every row's account sum is
    the exact sum of the postings to its pair and its tree sum the exact sum of the postings at or below it.
    No `PostsWF` hypothesis: the text loaded. -/
theorem text_balance_exact (cfg : Time.TsCfg) (st st' : Settings) (text : List Char) (ts : List Txn)
    (h : loadText cfg st text = .ok (ts, st')) (tf : Txn → Bool) (sb : Settings) (bal : List BalRow)
    (hb : balance sb (postsOf (ts.filter tf)) = .ok bal) :
    (bal.map (·.key)).Pairwise (fun a b => keyLt a b = true) ∧
    (∀ k, k ∈ bal.map (·.key) ↔
      C02.Posted (postsOf (ts.filter tf)) k ∨ C02.ProperAncestor (postsOf (ts.filter tf)) k) ∧
    (∀ row ∈ bal, row.own.units = C02.ownSum (postsOf (ts.filter tf)) row.key ∧
                  row.tree.units = C02.treeSum (postsOf (ts.filter tf)) row.key) := by
  have hwf := text_postsWF_filter cfg st st' text ts h tf
  obtain ⟨h1, h2⟩ := C02.rows_exact sb _ hwf bal hb
  exact ⟨h1, h2, fun row hrow => ⟨C02.own_sum sb _ hwf bal hb row hrow, C02.tree_sum_posts sb _ hwf bal hb row hrow⟩⟩

/-- **text_balance_deltas** (`C02.delta_eq` end to end): the report lists the selected rows of the balance; there is
    exactly one delta line per commodity that has a listed row, in strictly increasing commodity order, and each
    delta is the exact sum of the listed rows' own sums in that commodity. -/
theorem text_balance_deltas (cfg : Time.TsCfg) (st st' : Settings) (text : List Char) (ts : List Txn)
    (h : loadText cfg st text = .ok (ts, st')) (tf : Txn → Bool) (sb : Settings) (sel : BalRow → Bool) (b : Balance)
    (hb : fromIter sb sel (postsOf (ts.filter tf)) = .ok b) :
    (∃ bal, balance sb (postsOf (ts.filter tf)) = .ok bal ∧ b.rows = bal.filter sel) ∧
    (b.deltas.map (·.1)).Pairwise (· < ·) ∧
    (∀ c, c ∈ b.deltas.map (·.1) ↔ ∃ r ∈ b.rows, r.comm = c) ∧
    (∀ cd ∈ b.deltas, cd.2.units = ((b.rows.filter (fun r => decide (r.comm = cd.1))).map (·.own.units)).sum) :=
  C02.delta_eq sb sel _ (text_postsWF_filter cfg st st' text ts h tf) b hb

/-- **text_delta_zero** (`C02.delta_zero` end to end): with all accounts listed and no posting priced into another
    commodity, every delta of the report is zero — balancedness (C01) and `PostsWF` are no longer hypotheses. -/
theorem text_delta_zero (cfg : Time.TsCfg) (st st' : Settings) (text : List Char) (ts : List Txn)
    (h : loadText cfg st text = .ok (ts, st')) (tf : Txn → Bool) (sb : Settings)
    (hnp : ∀ t ∈ ts.filter tf, ∀ p ∈ t.posts, p.comm = p.txnComm)
    (b : Balance) (hb : fromIter sb (fun _ => true) (postsOf (ts.filter tf)) = .ok b) :
    ∀ cd ∈ b.deltas, cd.2.units = 0 :=
  C02.delta_zero sb (ts.filter tf) (text_postsWF_filter cfg st st' text ts h tf)
    (fun t ht => text_accept_balanced cfg st st' text ts h t (List.mem_filter.mp ht).1) hnp b hb

/-- the ancestors of every account posted to are known to the settings a load leaves behind -/
theorem text_parents_known (cfg : Time.TsCfg) (st st' : Settings) (text : List Char) (ts : List Txn)
    (hcl : if st.strict then C12.AncClosed2 st.accounts st.synthetic else C12.AncClosed st.accounts)
    (h : loadText cfg st text = .ok (ts, st')) (tf : Txn → Bool) :
    ∀ p ∈ postsOf (ts.filter tf), ∀ q : Path, q ≠ [] → q <+: p.acct → q ≠ p.acct →
      ∃ r, st'.getTxnAccount q p.comm = .ok r := by
  obtain ⟨rs, acc, _, _, _, hacc, rfl, _⟩ := load_inv cfg st st' text ts h
  intro p hp q hq hpre _
  obtain ⟨t, ht, x, hx, rfl⟩ := (mem_postsOf _ p).mp hp
  have ht' : t ∈ acc := (mem_sortTxns acc t).mp (List.mem_filter.mp ht).1
  exact ⟨_, C12.report_parents_ok st st' rs acc hcl hacc t ht' x hx q ⟨hq, hpre⟩⟩

/-- **text_balance_never_errs_closed**: after a successful load from settings whose chart of accounts is
    ancestor-closed (lax mode) or closed together with the synthetic parents (strict mode), the balance kernel run
    with the settings the load leaves behind does not fail (`get_txn_account` finds every gap parent), for any
    selection of the loaded transactions.  (It may still be outside the exact numeric domain: `.undef`.) -/
theorem text_balance_never_errs_closed (cfg : Time.TsCfg) (st st' : Settings) (text : List Char) (ts : List Txn)
    (hcl : if st.strict then C12.AncClosed2 st.accounts st.synthetic else C12.AncClosed st.accounts)
    (h : loadText cfg st text = .ok (ts, st')) (tf : Txn → Bool) :
    balance st' (postsOf (ts.filter tf)) ≠ .err :=
  C02.balance_ok_of_closed st' _ (text_postsWF_filter cfg st st' text ts h tf)
    (text_parents_known cfg st st' text ts hcl h tf)

/-- **C02 end to end — `text_balance_never_errs`.**  Settings built from a configuration (`Settings.ofConfig`, any
    switches, any charts), any text that loads, any transaction filter: `Balance::balance` does not fail. -/
theorem text_balance_never_errs (cfg : Time.TsCfg) (strict audit pe : Bool) (accts : List Path)
    (comms tags : List String) (st' : Settings) (text : List Char) (ts : List Txn)
    (h : loadText cfg (Settings.ofConfig strict audit pe accts comms tags) text = .ok (ts, st')) (tf : Txn → Bool) :
    balance st' (postsOf (ts.filter tf)) ≠ .err :=
  text_balance_never_errs_closed cfg _ st' text ts (C12.ofConfig_closed strict audit pe accts comms tags) h tf

end E2E
end Tackler

import TacklerModel.Lemmas.E2E
import TacklerModel.Props.C01
import TacklerModel.Props.C02
import TacklerModel.Props.C03
import TacklerModel.Props.C04
import TacklerModel.Props.C06b
import TacklerModel.Props.C09
import TacklerModel.Props.C10
import TacklerModel.Props.C12
import TacklerModel.Props.C13
import TacklerModel.Props.C15
/-!
# E2E — the per-stage theorems composed, starting from journal TEXT

The property theorems of C01, C02, C03, C09, C10, C13 and C04 are stated over parse trees / accepted transactions
and carry representation hypotheses (`C01.RawWF`, `C02.PostsWF`, `C03.TxnsWF`, "uuid texts contain no newline").
Here they are composed with the grammar (`Model/Syntax`, `Lemmas/RawLex`) so that the **only hypothesis about the
input is that the text loads**:

    loadText cfg st text = .ok (ts, st')          (`string_to_txns`: one text)        theorems `text_*`
    loadFiles cfg st files = .ok (ts, st')        (`paths_to_txns`: a list of files)  theorems `files_*`

(`cfg` any journal-zone configuration — `C06.CfgOK` is not needed, because nothing below uses the timestamp clause
of `C06.RawLex`; `st` any settings, except where a theorem is about the chart of accounts the load leaves behind,
which needs the initial chart to be ancestor-closed as `Settings.ofConfig` builds it.)  Both entry points establish
`Loaded st ts st'` ("`ts`, `st'` result from accepting lexically well-formed parse trees from `st` and sorting":
`loaded_of_text`, `loaded_of_files`), and every theorem is proved once from that (`loaded_*`); the `text_*` and
`files_*` forms are its two instances, with literally the same conclusion.

Reports are computed from a *selection* of the loaded transactions (`TxnData::filter`), so the report theorems are
stated for any list `txns` of transactions taken from the loaded ones (`hsel : ∀ t ∈ txns, t ∈ ts`): the whole
journal (`sel_all`), what a transaction filter keeps (`sel_filter`), the members of a balance group, ….  The settings
a report kernel runs with (`sb`) are arbitrary wherever the per-stage theorem allows it.

| strengthens | theorems (`text_…`; also `loaded_…`, `files_…`) | composed from |
|---|---|---|
| C01 | `rawWF_of_rawLex`, `text_rawWF`, `text_txn_origin`, **`text_accept_balanced`** | `Lemmas/RawLex` (numbers come from `Dec.ofToken`), `C01.accept_balanced` |
| C02 | `text_postsWF` (`_sel`), **`text_balance_exact`**, `text_balance_deltas`, `text_delta_zero`, `text_delta_zero_unpriced`, **`text_balance_never_errs`** (`_closed`) | `C03.accepted_wf`, `C02.namesInj_of_good`, `C02.rows_exact` / `own_sum` / `tree_sum_posts` / `delta_eq` / `delta_zero` / `balance_ok_of_closed`, `C12.report_parents_ok`, `C12.ofConfig_closed` |
| C03 | `text_txnsWF`, `text_sorted`, **`text_register_exact`**, `text_register_selected` | `C03.running_total`, `last_total_balance`, `last_total_exists`, `running_total_selected`, `selector_only_hides`, `register_order` |
| C10 | **`text_equity`** | `C10.equity_shape`, `equity_accepts`, `equity_carries` with `C02.own_sum`, `C02.rows_nodup` |
| C13 | **`text_groups`**, `text_groups_total`, `text_groups_never_err` | `C13.group_partition`, `group_figures`, `group_keys`, `group_own_tree_sums`, `group_rows_deltas`, `group_total`, `group_total_rows`, `no_panic` |
| C09 | `text_uuid_no_newline`, **`text_checksum_determines_set`**, `text_equal_checksum_is_collision` | `Syntax.pUuid_ok_wf`, `C09.preimage_injective`, `C09.equal_checksum_is_collision` |
| C04 | **`text_order_free`**, `text_order_free_values` (files: `C04.shards_free_files` has no such hypothesis) | `C04.shards_free`, `AcceptOrder.loadText_eq`, `C04.load_values_perm`, `report_values_perm` |

No theorem here is `_partial`: every representation hypothesis of the composed theorems is discharged.  What stays
explicit is content, not well-formedness: `text_delta_zero` keeps the property's own premise "no posting is priced
into another commodity" (and `text_delta_zero_unpriced` discharges it from the parse trees having no `@`/`=`
position); `text_equity`'s carry clause keeps "the equity account is not itself selected".
-/
set_option linter.unusedVariables false

namespace Tackler
namespace E2E
open Syntax KeyOrder

/-! ## 0. what a successful load of text is -/

/-- `ts`, `st'` are the result of accepting lexically well-formed parse trees (`TxnLex`: what the grammar produces)
    one after the other from the settings `st` and sorting the accepted transactions — what both text-level entry
    points of the loader establish (`loaded_of_text`, `loaded_of_files`) -/
def Loaded (st : Settings) (ts : List Txn) (st' : Settings) : Prop :=
  ∃ rs acc, (∀ r ∈ rs, TxnLex r) ∧ acceptJournal st rs = .ok (acc, st') ∧ ts = sortTxns acc

/-- **load_inv**: a text that loads parsed to at least one parse tree, every parse tree is lexically well-formed
    (`TxnLex`), all were accepted (threading the settings) and the result is the sorted accepted list. -/
theorem load_inv (cfg : Time.TsCfg) (st st' : Settings) (text : List Char) (ts : List Txn)
    (h : loadText cfg st text = .ok (ts, st')) :
    ∃ rs acc, parseJournal cfg text = some rs ∧ rs ≠ [] ∧ (∀ r ∈ rs, TxnLex r) ∧
      acceptJournal st rs = .ok (acc, st') ∧ ts = sortTxns acc ∧ loadJournal st rs = .ok (ts, st') := by
  have h0 := h
  unfold loadText at h
  split at h
  · cases h
  · rename_i rs hrs
    obtain ⟨hne, hlex⟩ := parseJournal_lex cfg text rs hrs
    have hl := h
    cases rs with
    | nil => exact absurd rfl hne
    | cons r0 rt =>
      simp only [loadJournal] at h
      obtain ⟨⟨acc, s0⟩, ha, he⟩ := (Outcome.map_ok _ _ _).mp h
      cases he
      exact ⟨r0 :: rt, acc, hrs, hne, hlex, ha, rfl, hl⟩

/-- `string_to_txns` establishes `Loaded` -/
theorem loaded_of_text (cfg : Time.TsCfg) (st st' : Settings) (text : List Char) (ts : List Txn)
    (h : loadText cfg st text = .ok (ts, st')) : Loaded st ts st' := by
  obtain ⟨rs, acc, _, _, hlex, hacc, hts, _⟩ := load_inv cfg st st' text ts h
  exact ⟨rs, acc, hlex, hacc, hts⟩

/-- every file of a successful multi-file load parsed -/
theorem files_parse (cfg : Time.TsCfg) : ∀ (files : List (List Char)) (st : Settings) (r : List (List Txn) × Settings),
    mapMS (acceptText cfg) st files = .ok r → ∃ rss : List (List RawTxn), files.map (parseJournal cfg) = rss.map some := by
  intro files
  induction files with
  | nil => intro st r _; exact ⟨[], rfl⟩
  | cons f tl ih =>
    intro st r h
    simp only [mapMS] at h
    split at h
    · rename_i b s1 hb
      split at h
      · rename_i bs s2 hbs
        obtain ⟨rss, hrss⟩ := ih s1 _ hbs
        unfold acceptText at hb
        split at hb
        · cases hb
        · rename_i rs hrs
          exact ⟨rs :: rss, by simp [hrs, hrss]⟩
      · cases h
      · cases h
    · cases h
    · cases h

/-- **files_inv**: a list of file texts that loads (`paths_to_txns`): every file parsed, every parse tree is
    lexically well-formed, the concatenation of the parse trees was accepted (threading the settings through the
    files in order) and the result is the sorted accepted list. -/
theorem files_inv (cfg : Time.TsCfg) (st st' : Settings) (files : List (List Char)) (ts : List Txn)
    (h : loadFiles cfg st files = .ok (ts, st')) :
    ∃ (rss : List (List RawTxn)) (acc : List Txn), files.map (parseJournal cfg) = rss.map some ∧ (∀ r ∈ rss.flatten, TxnLex r) ∧
      acceptJournal st rss.flatten = .ok (acc, st') ∧ ts = sortTxns acc := by
  have h0 := h
  unfold loadFiles at h0
  obtain ⟨r, hr, _⟩ := (Outcome.map_ok _ _ _).mp h0
  obtain ⟨rss, hrss⟩ := files_parse cfg files st r hr
  rw [AcceptOrder.loadFiles_eq cfg files rss st hrss, AcceptOrder.loadTrees_eq] at h
  obtain ⟨⟨acc, s0⟩, ha, he⟩ := (Outcome.map_ok _ _ _).mp h
  cases he
  refine ⟨rss, acc, hrss, ?_, ha, rfl⟩
  intro r hr
  obtain ⟨rs, hrs, hrr⟩ := List.mem_flatten.mp hr
  have hm : some rs ∈ files.map (parseJournal cfg) := by rw [hrss]; exact List.mem_map.mpr ⟨rs, hrs, rfl⟩
  obtain ⟨f, _, hf⟩ := List.mem_map.mp hm
  exact (parseJournal_lex cfg f rs hf).2 r hrr

/-- `paths_to_txns` establishes `Loaded` -/
theorem loaded_of_files (cfg : Time.TsCfg) (st st' : Settings) (files : List (List Char)) (ts : List Txn)
    (h : loadFiles cfg st files = .ok (ts, st')) : Loaded st ts st' := by
  obtain ⟨rss, acc, _, hlex, hacc, hts⟩ := files_inv cfg st st' files ts h
  exact ⟨rss.flatten, acc, hlex, hacc, hts⟩

/-- the converse direction used by the examples: a text whose parse trees are all accepted loads, to the sorted
    accepted list (`List.mergeSort` does not evaluate under `decide`; `acceptText` does) -/
theorem load_of_acceptText (cfg : Time.TsCfg) (st st' : Settings) (text : List Char) (acc : List Txn)
    (h : acceptText cfg st text = .ok (acc, st')) : loadText cfg st text = .ok (sortTxns acc, st') := by
  unfold acceptText at h
  unfold loadText
  split at h
  · cases h
  · rename_i rs hrs
    obtain ⟨hne, _⟩ := parseJournal_lex cfg text rs hrs
    cases rs with
    | nil => exact absurd rfl hne
    | cons r0 rt => simp only [loadJournal, h, Outcome.map]

theorem mem_sortTxns (acc : List Txn) (t : Txn) : t ∈ sortTxns acc ↔ t ∈ acc := (sortTxns_perm acc).mem_iff

/-- the whole journal is a selection of itself … -/
theorem sel_all (ts : List Txn) : ∀ t ∈ ts, t ∈ ts := fun _ h => h

/-- … and so is what a transaction filter keeps (`TxnData::filter`) -/
theorem sel_filter (ts : List Txn) (tf : Txn → Bool) : ∀ t ∈ ts.filter tf, t ∈ ts :=
  fun _ ht => (List.mem_filter.mp ht).1

theorem mem_postsOf (txns : List Txn) (p : BPost) :
    p ∈ postsOf txns ↔ ∃ t ∈ txns, ∃ q ∈ t.posts, p = ⟨q.acct, q.comm, q.amount⟩ := by
  unfold postsOf
  simp only [List.mem_flatMap, List.mem_map]
  constructor
  · rintro ⟨t, ht, q, hq, rfl⟩; exact ⟨t, ht, q, hq, rfl⟩
  · rintro ⟨t, ht, q, hq, rfl⟩; exact ⟨t, ht, q, hq, rfl⟩

/-- a transaction accepted from a parse tree without `@` / `=` positions has every posting in its own commodity -/
theorem accepted_unpriced (st st' : Settings) (r : RawTxn) (t : Txn) (h : acceptTxn st r = .ok (t, st'))
    (hnc : ∀ rp ∈ r.posts, ∀ u, rp.unit = some u → u.closing = none) :
    ∀ p ∈ t.posts, p.comm = p.txnComm := by
  obtain ⟨_, s1, hps⟩ := C06.acceptTxn_posts st st' r t h
  intro p hp
  rcases C06.acceptPostings_inv s1 st' r.posts r.last t.posts hps p hp with ⟨rp, hrp, sa, sb, hh⟩ | ⟨hc, _⟩
  · obtain ⟨s2, vp, a, _, hv, _, hmk⟩ := (C12.handlePosting_ok _ _ _ _).mp hh
    have e := C12.mkPosting_eq _ _ hmk
    subst e
    rcases (C01.valuePosition_spec _ _ _ hv).2 with ⟨hc, _⟩ | ⟨_, u, hu, _, hcase⟩
    · exact hc
    · have hn := hnc rp hrp u hu
      rcases hcase with ⟨v, hcl, _⟩ | ⟨v, hcl, _⟩
      · rw [hn] at hcl; cases hcl
      · rw [hn] at hcl; cases hcl
  · exact hc.symm

/-- **rawWF_of_rawLex**: a lexically well-formed parse tree (`C06.RawLex`, what `C06.parseJournal_rawLex` proves of
    the grammar's output) satisfies C01's representation invariant `RawWF` — its numbers come from `Dec.ofToken`,
    so they have at most 28 decimals. -/
theorem rawWF_of_rawLex (r : RawTxn) (h : C06.RawLex r) : C01.RawWF r :=
  fun rp hrp => rawPostingWF_of_postLex rp
    ⟨(h.posts rp hrp).acct, (h.posts rp hrp).amount, (h.posts rp hrp).unit, (h.posts rp hrp).comment⟩

/-- **text_rawWF**: every parse tree the grammar produces from a text satisfies `C01.RawWF` (any zone
    configuration). -/
theorem text_rawWF (cfg : Time.TsCfg) (text : List Char) (rs : List RawTxn)
    (hp : parseJournal cfg text = some rs) : ∀ r ∈ rs, C01.RawWF r :=
  fun r hr => rawWF_of_lex r ((parseJournal_lex cfg text rs hp).2 r hr)

/-- **text_txn_origin**: every transaction of a loaded text was accepted by `acceptTxn` from one of the text's parse
    trees, which is well-formed — so every theorem of C01 about `acceptTxn` (`foreign_posting_priced`,
    `implicit_last`, the rejection classes) applies to it without further hypothesis. -/
theorem text_txn_origin (cfg : Time.TsCfg) (st st' : Settings) (text : List Char) (ts : List Txn)
    (h : loadText cfg st text = .ok (ts, st')) :
    ∃ rs, parseJournal cfg text = some rs ∧ ts.length = rs.length ∧
      ∀ t ∈ ts, ∃ r ∈ rs, C01.RawWF r ∧ TxnLex r ∧ ∃ s1 s2, acceptTxn s1 r = .ok (t, s2) := by
  obtain ⟨rs, acc, hp, _, hlex, hacc, rfl, _⟩ := load_inv cfg st st' text ts h
  refine ⟨rs, hp, ?_, ?_⟩
  · unfold acceptJournal at hacc
    simp only [sortTxns, List.length_mergeSort]
    exact mapMS_length _ _ _ _ _ hacc
  · intro t ht
    obtain ⟨r, hr, s1, s2, hf⟩ := mapMS_ok acceptTxn rs st st' acc hacc t ((mem_sortTxns acc t).mp ht)
    exact ⟨r, hr, rawWF_of_lex r (hlex r hr), hlex r hr, s1, s2, hf⟩

/-! ## 1. C01 — every transaction loaded from text is balanced -/

/-- every loaded transaction was accepted by `acceptTxn` from a lexically well-formed parse tree (`RawWF`, `TxnLex`) -/
theorem loaded_txn_origin (st st' : Settings) (ts : List Txn) (hl : Loaded st ts st') :
    ∃ rs : List RawTxn, ts.length = rs.length ∧
      ∀ t ∈ ts, ∃ r ∈ rs, C01.RawWF r ∧ TxnLex r ∧ ∃ s1 s2, acceptTxn s1 r = .ok (t, s2) := by
  obtain ⟨rs, acc, hlex, hacc, rfl⟩ := hl
  refine ⟨rs, ?_, ?_⟩
  · unfold acceptJournal at hacc
    simp only [sortTxns, List.length_mergeSort]
    exact mapMS_length _ _ _ _ _ hacc
  · intro t ht
    obtain ⟨r, hr, s1, s2, hf⟩ := mapMS_ok acceptTxn rs _ st' acc hacc t ((mem_sortTxns acc t).mp ht)
    exact ⟨r, hr, rawWF_of_lex r (hlex r hr), hlex r hr, s1, s2, hf⟩

/-- **C01 end to end — `loaded_accept_balanced`.**  Every transaction loaded from text is balanced in a single
    transaction commodity: non-zero postings, one transaction commodity, own-commodity postings valued at their
    amount, values summing to exactly zero.  No hypothesis besides the load. -/
theorem loaded_accept_balanced (st st' : Settings) (ts : List Txn) (hl : Loaded st ts st') :
    ∀ t ∈ ts, C01.Balanced t := by
  obtain ⟨rs, _, horig⟩ := loaded_txn_origin st st' ts hl
  intro t ht
  obtain ⟨r, _, hwf, _, s1, s2, hf⟩ := horig t ht
  exact C01.accept_balanced s1 s2 r t hwf hf

/-- **C01 end to end — `text_accept_balanced`.**  Every transaction loaded from a text is balanced in a single
    transaction commodity: non-zero postings, one transaction commodity, own-commodity postings valued at their
    amount, values summing to exactly zero.  No hypothesis besides the load. -/
theorem text_accept_balanced (cfg : Time.TsCfg) (st st' : Settings) (text : List Char) (ts : List Txn)
    (h : loadText cfg st text = .ok (ts, st')) :
    ∀ t ∈ ts, C01.Balanced t :=
  loaded_accept_balanced st st' ts (loaded_of_text cfg st st' text ts h)

/-- **C01 end to end — `files_accept_balanced`.**  Every transaction loaded from a list of file texts is balanced in a single
    transaction commodity: non-zero postings, one transaction commodity, own-commodity postings valued at their
    amount, values summing to exactly zero.  No hypothesis besides the load. -/
theorem files_accept_balanced (cfg : Time.TsCfg) (st st' : Settings) (files : List (List Char)) (ts : List Txn)
    (h : loadFiles cfg st files = .ok (ts, st')) :
    ∀ t ∈ ts, C01.Balanced t :=
  loaded_accept_balanced st st' ts (loaded_of_files cfg st st' files ts h)

/-! ## 2. C02 — balance figures of loaded text are the exact sums -/

/-- the amounts loaded from text have at most 28 decimals (`C03.accepted_wf` with `RawWF` discharged) -/
theorem loaded_txnsWF (st st' : Settings) (ts : List Txn) (hl : Loaded st ts st') :
    C03.TxnsWF ts := by
  obtain ⟨rs, _, horig⟩ := loaded_txn_origin st st' ts hl
  intro t ht
  obtain ⟨r, _, hwf, _, s1, s2, hf⟩ := horig t ht
  exact C03.accepted_wf s1 s2 r t hwf hf

/-- the amounts loaded from a text have at most 28 decimals (`C03.accepted_wf` with `RawWF` discharged) -/
theorem text_txnsWF (cfg : Time.TsCfg) (st st' : Settings) (text : List Char) (ts : List Txn)
    (h : loadText cfg st text = .ok (ts, st')) :
    C03.TxnsWF ts :=
  loaded_txnsWF st st' ts (loaded_of_text cfg st st' text ts h)

/-- the amounts loaded from a list of file texts have at most 28 decimals (`C03.accepted_wf` with `RawWF` discharged) -/
theorem files_txnsWF (cfg : Time.TsCfg) (st st' : Settings) (files : List (List Char)) (ts : List Txn)
    (h : loadFiles cfg st files = .ok (ts, st')) :
    C03.TxnsWF ts :=
  loaded_txnsWF st st' ts (loaded_of_files cfg st st' files ts h)

/-- every posting loaded from text — the implicit last posting of a transaction included — is to an account the
    text writes out: a non-empty list of non-empty components without `':'` -/
theorem loaded_accts_good (st st' : Settings) (ts : List Txn) (hl : Loaded st ts st') :
    ∀ t ∈ ts, ∀ p ∈ t.posts, GoodPath p.acct ∧ p.acct ≠ [] := by
  obtain ⟨rs, _, horig⟩ := loaded_txn_origin st st' ts hl
  intro t ht p hp
  obtain ⟨r, _, _, hlex, s1, s2, hf⟩ := horig t ht
  exact (accepted_acct_lex s1 s2 r t hlex hf p hp).good

/-- every posting loaded from a text — the implicit last posting of a transaction included — is to an account the
    text writes out: a non-empty list of non-empty components without `':'` -/
theorem text_accts_good (cfg : Time.TsCfg) (st st' : Settings) (text : List Char) (ts : List Txn)
    (h : loadText cfg st text = .ok (ts, st')) :
    ∀ t ∈ ts, ∀ p ∈ t.posts, GoodPath p.acct ∧ p.acct ≠ [] :=
  loaded_accts_good st st' ts (loaded_of_text cfg st st' text ts h)

/-- **loaded_postsWF**: the posting stream loaded from text satisfies C02's `PostsWF`: stored scales ≤ 28, non-empty
    account paths, and account names determine account paths among all prefixes (ancestors) of posted paths. -/
theorem loaded_postsWF (st st' : Settings) (ts : List Txn) (hl : Loaded st ts st') :
    C02.PostsWF (postsOf ts) := by
  have hsc := loaded_txnsWF st st' ts hl
  have hgood := loaded_accts_good st st' ts hl
  have hg : ∀ x ∈ postsOf ts, GoodPath x.acct ∧ x.acct ≠ [] := by
    intro x hx
    obtain ⟨t, ht, q, hq, rfl⟩ := (mem_postsOf ts x).mp hx
    exact hgood t ht q hq
  refine ⟨?_, fun p hp => (hg p hp).2, C02.namesInj_of_good (postsOf ts) (fun x hx => (hg x hx).1)⟩
  intro p hp
  obtain ⟨t, ht, q, hq, rfl⟩ := (mem_postsOf ts p).mp hp
  exact hsc t ht q hq

/-- **text_postsWF**: the posting stream loaded from a text satisfies C02's `PostsWF`: stored scales ≤ 28, non-empty
    account paths, and account names determine account paths among all prefixes (ancestors) of posted paths. -/
theorem text_postsWF (cfg : Time.TsCfg) (st st' : Settings) (text : List Char) (ts : List Txn)
    (h : loadText cfg st text = .ok (ts, st')) :
    C02.PostsWF (postsOf ts) :=
  loaded_postsWF st st' ts (loaded_of_text cfg st st' text ts h)

/-- **files_postsWF**: the posting stream loaded from a list of file texts satisfies C02's `PostsWF`: stored scales ≤ 28, non-empty
    account paths, and account names determine account paths among all prefixes (ancestors) of posted paths. -/
theorem files_postsWF (cfg : Time.TsCfg) (st st' : Settings) (files : List (List Char)) (ts : List Txn)
    (h : loadFiles cfg st files = .ok (ts, st')) :
    C02.PostsWF (postsOf ts) :=
  loaded_postsWF st st' ts (loaded_of_files cfg st st' files ts h)

/-- … and so does the posting stream of every selection of its transactions -/
theorem loaded_postsWF_sel (st st' : Settings) (ts : List Txn) (hl : Loaded st ts st')
    (txns : List Txn) (hsel : ∀ t ∈ txns, t ∈ ts) :
    C02.PostsWF (postsOf txns) :=
  C13.postsWF_subset (loaded_postsWF st st' ts hl) (C13.postsOf_subset hsel)

/-- … and so does the posting stream of every selection of its transactions -/
theorem text_postsWF_sel (cfg : Time.TsCfg) (st st' : Settings) (text : List Char) (ts : List Txn)
    (h : loadText cfg st text = .ok (ts, st'))
    (txns : List Txn) (hsel : ∀ t ∈ txns, t ∈ ts) :
    C02.PostsWF (postsOf txns) :=
  loaded_postsWF_sel st st' ts (loaded_of_text cfg st st' text ts h) txns hsel

/-- … and so does the posting stream of every selection of its transactions -/
theorem files_postsWF_sel (cfg : Time.TsCfg) (st st' : Settings) (files : List (List Char)) (ts : List Txn)
    (h : loadFiles cfg st files = .ok (ts, st'))
    (txns : List Txn) (hsel : ∀ t ∈ txns, t ∈ ts) :
    C02.PostsWF (postsOf txns) :=
  loaded_postsWF_sel st st' ts (loaded_of_files cfg st st' files ts h) txns hsel

/-- **C02 end to end — `loaded_balance_exact`.**  For any selection `txns` of the transactions loaded from text,
    whenever the balance kernel answers (with whatever settings), its rows are exactly the posted (commodity,
    account) pairs and their proper ancestors, each once, strictly sorted by (commodity, account name); every row's
    account sum is the exact sum of the postings to its pair and its tree sum the exact sum of the postings at or
    below it.  No `PostsWF` hypothesis: the text loaded. -/
theorem loaded_balance_exact (st st' : Settings) (ts : List Txn) (hl : Loaded st ts st')
    (txns : List Txn) (hsel : ∀ t ∈ txns, t ∈ ts)
    (sb : Settings) (bal : List BalRow) (hb : balance sb (postsOf txns) = .ok bal) :
    (bal.map (·.key)).Pairwise (fun a b => keyLt a b = true) ∧
    (∀ k, k ∈ bal.map (·.key) ↔ C02.Posted (postsOf txns) k ∨ C02.ProperAncestor (postsOf txns) k) ∧
    (∀ row ∈ bal, row.own.units = C02.ownSum (postsOf txns) row.key ∧
                  row.tree.units = C02.treeSum (postsOf txns) row.key) := by
  have hwf := loaded_postsWF_sel st st' ts hl txns hsel
  obtain ⟨h1, h2⟩ := C02.rows_exact sb _ hwf bal hb
  exact ⟨h1, h2, fun row hrow => ⟨C02.own_sum sb _ hwf bal hb row hrow, C02.tree_sum_posts sb _ hwf bal hb row hrow⟩⟩

/-- **C02 end to end — `text_balance_exact`.**  For any selection `txns` of the transactions loaded from a text,
    whenever the balance kernel answers (with whatever settings), its rows are exactly the posted (commodity,
    account) pairs and their proper ancestors, each once, strictly sorted by (commodity, account name); every row's
    account sum is the exact sum of the postings to its pair and its tree sum the exact sum of the postings at or
    below it.  No `PostsWF` hypothesis: the text loaded. -/
theorem text_balance_exact (cfg : Time.TsCfg) (st st' : Settings) (text : List Char) (ts : List Txn)
    (h : loadText cfg st text = .ok (ts, st'))
    (txns : List Txn) (hsel : ∀ t ∈ txns, t ∈ ts)
    (sb : Settings) (bal : List BalRow) (hb : balance sb (postsOf txns) = .ok bal) :
    (bal.map (·.key)).Pairwise (fun a b => keyLt a b = true) ∧
    (∀ k, k ∈ bal.map (·.key) ↔ C02.Posted (postsOf txns) k ∨ C02.ProperAncestor (postsOf txns) k) ∧
    (∀ row ∈ bal, row.own.units = C02.ownSum (postsOf txns) row.key ∧
                  row.tree.units = C02.treeSum (postsOf txns) row.key) :=
  loaded_balance_exact st st' ts (loaded_of_text cfg st st' text ts h) txns hsel sb bal hb

/-- **C02 end to end — `files_balance_exact`.**  For any selection `txns` of the transactions loaded from a list of file texts,
    whenever the balance kernel answers (with whatever settings), its rows are exactly the posted (commodity,
    account) pairs and their proper ancestors, each once, strictly sorted by (commodity, account name); every row's
    account sum is the exact sum of the postings to its pair and its tree sum the exact sum of the postings at or
    below it.  No `PostsWF` hypothesis: the text loaded. -/
theorem files_balance_exact (cfg : Time.TsCfg) (st st' : Settings) (files : List (List Char)) (ts : List Txn)
    (h : loadFiles cfg st files = .ok (ts, st'))
    (txns : List Txn) (hsel : ∀ t ∈ txns, t ∈ ts)
    (sb : Settings) (bal : List BalRow) (hb : balance sb (postsOf txns) = .ok bal) :
    (bal.map (·.key)).Pairwise (fun a b => keyLt a b = true) ∧
    (∀ k, k ∈ bal.map (·.key) ↔ C02.Posted (postsOf txns) k ∨ C02.ProperAncestor (postsOf txns) k) ∧
    (∀ row ∈ bal, row.own.units = C02.ownSum (postsOf txns) row.key ∧
                  row.tree.units = C02.treeSum (postsOf txns) row.key) :=
  loaded_balance_exact st st' ts (loaded_of_files cfg st st' files ts h) txns hsel sb bal hb

/-- **loaded_balance_deltas** (`C02.delta_eq` end to end): the report lists the selected rows of the balance; there is
    exactly one delta line per commodity that has a listed row, in strictly increasing commodity order, and each
    delta is the exact sum of the listed rows' own sums in that commodity. -/
theorem loaded_balance_deltas (st st' : Settings) (ts : List Txn) (hl : Loaded st ts st')
    (txns : List Txn) (hsel : ∀ t ∈ txns, t ∈ ts)
    (sb : Settings) (sel : BalRow → Bool) (b : Balance) (hb : fromIter sb sel (postsOf txns) = .ok b) :
    (∃ bal, balance sb (postsOf txns) = .ok bal ∧ b.rows = bal.filter sel) ∧
    (b.deltas.map (·.1)).Pairwise (· < ·) ∧
    (∀ c, c ∈ b.deltas.map (·.1) ↔ ∃ r ∈ b.rows, r.comm = c) ∧
    (∀ cd ∈ b.deltas, cd.2.units = ((b.rows.filter (fun r => decide (r.comm = cd.1))).map (·.own.units)).sum) :=
  C02.delta_eq sb sel _ (loaded_postsWF_sel st st' ts hl txns hsel) b hb

/-- **text_balance_deltas** (`C02.delta_eq` end to end): the report lists the selected rows of the balance; there is
    exactly one delta line per commodity that has a listed row, in strictly increasing commodity order, and each
    delta is the exact sum of the listed rows' own sums in that commodity. -/
theorem text_balance_deltas (cfg : Time.TsCfg) (st st' : Settings) (text : List Char) (ts : List Txn)
    (h : loadText cfg st text = .ok (ts, st'))
    (txns : List Txn) (hsel : ∀ t ∈ txns, t ∈ ts)
    (sb : Settings) (sel : BalRow → Bool) (b : Balance) (hb : fromIter sb sel (postsOf txns) = .ok b) :
    (∃ bal, balance sb (postsOf txns) = .ok bal ∧ b.rows = bal.filter sel) ∧
    (b.deltas.map (·.1)).Pairwise (· < ·) ∧
    (∀ c, c ∈ b.deltas.map (·.1) ↔ ∃ r ∈ b.rows, r.comm = c) ∧
    (∀ cd ∈ b.deltas, cd.2.units = ((b.rows.filter (fun r => decide (r.comm = cd.1))).map (·.own.units)).sum) :=
  loaded_balance_deltas st st' ts (loaded_of_text cfg st st' text ts h) txns hsel sb sel b hb

/-- **files_balance_deltas** (`C02.delta_eq` end to end): the report lists the selected rows of the balance; there is
    exactly one delta line per commodity that has a listed row, in strictly increasing commodity order, and each
    delta is the exact sum of the listed rows' own sums in that commodity. -/
theorem files_balance_deltas (cfg : Time.TsCfg) (st st' : Settings) (files : List (List Char)) (ts : List Txn)
    (h : loadFiles cfg st files = .ok (ts, st'))
    (txns : List Txn) (hsel : ∀ t ∈ txns, t ∈ ts)
    (sb : Settings) (sel : BalRow → Bool) (b : Balance) (hb : fromIter sb sel (postsOf txns) = .ok b) :
    (∃ bal, balance sb (postsOf txns) = .ok bal ∧ b.rows = bal.filter sel) ∧
    (b.deltas.map (·.1)).Pairwise (· < ·) ∧
    (∀ c, c ∈ b.deltas.map (·.1) ↔ ∃ r ∈ b.rows, r.comm = c) ∧
    (∀ cd ∈ b.deltas, cd.2.units = ((b.rows.filter (fun r => decide (r.comm = cd.1))).map (·.own.units)).sum) :=
  loaded_balance_deltas st st' ts (loaded_of_files cfg st st' files ts h) txns hsel sb sel b hb

/-- **loaded_delta_zero** (`C02.delta_zero` end to end): with all accounts listed and no posting priced into another
    commodity, every delta of the report is zero — balancedness (C01) and `PostsWF` are no longer hypotheses. -/
theorem loaded_delta_zero (st st' : Settings) (ts : List Txn) (hl : Loaded st ts st')
    (txns : List Txn) (hsel : ∀ t ∈ txns, t ∈ ts) (sb : Settings)
    (hnp : ∀ t ∈ txns, ∀ p ∈ t.posts, p.comm = p.txnComm)
    (b : Balance) (hb : fromIter sb (fun _ => true) (postsOf txns) = .ok b) :
    ∀ cd ∈ b.deltas, cd.2.units = 0 :=
  C02.delta_zero sb txns (loaded_postsWF_sel st st' ts hl txns hsel)
    (fun t ht => loaded_accept_balanced st st' ts hl t (hsel t ht)) hnp b hb

/-- **text_delta_zero** (`C02.delta_zero` end to end): with all accounts listed and no posting priced into another
    commodity, every delta of the report is zero — balancedness (C01) and `PostsWF` are no longer hypotheses. -/
theorem text_delta_zero (cfg : Time.TsCfg) (st st' : Settings) (text : List Char) (ts : List Txn)
    (h : loadText cfg st text = .ok (ts, st'))
    (txns : List Txn) (hsel : ∀ t ∈ txns, t ∈ ts) (sb : Settings)
    (hnp : ∀ t ∈ txns, ∀ p ∈ t.posts, p.comm = p.txnComm)
    (b : Balance) (hb : fromIter sb (fun _ => true) (postsOf txns) = .ok b) :
    ∀ cd ∈ b.deltas, cd.2.units = 0 :=
  loaded_delta_zero st st' ts (loaded_of_text cfg st st' text ts h) txns hsel sb hnp b hb

/-- **files_delta_zero** (`C02.delta_zero` end to end): with all accounts listed and no posting priced into another
    commodity, every delta of the report is zero — balancedness (C01) and `PostsWF` are no longer hypotheses. -/
theorem files_delta_zero (cfg : Time.TsCfg) (st st' : Settings) (files : List (List Char)) (ts : List Txn)
    (h : loadFiles cfg st files = .ok (ts, st'))
    (txns : List Txn) (hsel : ∀ t ∈ txns, t ∈ ts) (sb : Settings)
    (hnp : ∀ t ∈ txns, ∀ p ∈ t.posts, p.comm = p.txnComm)
    (b : Balance) (hb : fromIter sb (fun _ => true) (postsOf txns) = .ok b) :
    ∀ cd ∈ b.deltas, cd.2.units = 0 :=
  loaded_delta_zero st st' ts (loaded_of_files cfg st st' files ts h) txns hsel sb hnp b hb

/-- **text_delta_zero_unpriced**: the premise of `text_delta_zero` read off the text: if no posting line of the
    text has a closing position (`@` unit price or `=` total), every delta of the full balance report is zero. -/
theorem text_delta_zero_unpriced (cfg : Time.TsCfg) (st st' : Settings) (text : List Char) (ts : List Txn)
    (h : loadText cfg st text = .ok (ts, st')) (txns : List Txn) (hsel : ∀ t ∈ txns, t ∈ ts) (sb : Settings)
    (hnc : ∀ rs, parseJournal cfg text = some rs →
      ∀ r ∈ rs, ∀ rp ∈ r.posts, ∀ u, rp.unit = some u → u.closing = none)
    (b : Balance) (hb : fromIter sb (fun _ => true) (postsOf txns) = .ok b) :
    ∀ cd ∈ b.deltas, cd.2.units = 0 := by
  obtain ⟨rs, hp, _, horig⟩ := text_txn_origin cfg st st' text ts h
  apply text_delta_zero cfg st st' text ts h txns hsel sb _ b hb
  intro t ht
  obtain ⟨r, hr, _, _, s1, s2, hf⟩ := horig t (hsel t ht)
  exact accepted_unpriced s1 s2 r t hf (hnc rs hp r hr)

/-- the ancestors of every account posted to are known to the settings a load leaves behind -/
theorem loaded_parents_known (st st' : Settings) (ts : List Txn) (hcl : if st.strict then C12.AncClosed2 st.accounts st.synthetic else C12.AncClosed st.accounts) (hl : Loaded st ts st')
    (txns : List Txn) (hsel : ∀ t ∈ txns, t ∈ ts) :
    ∀ p ∈ postsOf txns, ∀ q : Path, q ≠ [] → q <+: p.acct → q ≠ p.acct →
      ∃ r, st'.getTxnAccount q p.comm = .ok r := by
  obtain ⟨rs, acc, _, hacc, rfl⟩ := hl
  intro p hp q hq hpre _
  obtain ⟨t, ht, x, hx, rfl⟩ := (mem_postsOf _ p).mp hp
  have ht' : t ∈ acc := (mem_sortTxns acc t).mp (hsel t ht)
  exact ⟨_, C12.report_parents_ok st st' rs acc hcl hacc t ht' x hx q ⟨hq, hpre⟩⟩

/-- the ancestors of every account posted to are known to the settings a load leaves behind -/
theorem text_parents_known (cfg : Time.TsCfg) (st st' : Settings) (text : List Char) (ts : List Txn) (hcl : if st.strict then C12.AncClosed2 st.accounts st.synthetic else C12.AncClosed st.accounts)
    (h : loadText cfg st text = .ok (ts, st'))
    (txns : List Txn) (hsel : ∀ t ∈ txns, t ∈ ts) :
    ∀ p ∈ postsOf txns, ∀ q : Path, q ≠ [] → q <+: p.acct → q ≠ p.acct →
      ∃ r, st'.getTxnAccount q p.comm = .ok r :=
  loaded_parents_known st st' ts hcl (loaded_of_text cfg st st' text ts h) txns hsel

/-- **loaded_balance_never_errs_closed**: after a successful load from settings whose chart of accounts is
    ancestor-closed (lax mode) or closed together with the synthetic parents (strict mode), the balance kernel run
    with the settings the load leaves behind does not fail (`get_txn_account` finds every gap parent), for any
    selection of the loaded transactions.  (It may still be outside the exact numeric domain: `.undef`.) -/
theorem loaded_balance_never_errs_closed (st st' : Settings) (ts : List Txn) (hcl : if st.strict then C12.AncClosed2 st.accounts st.synthetic else C12.AncClosed st.accounts) (hl : Loaded st ts st')
    (txns : List Txn) (hsel : ∀ t ∈ txns, t ∈ ts) :
    balance st' (postsOf txns) ≠ .err :=
  C02.balance_ok_of_closed st' _ (loaded_postsWF_sel st st' ts hl txns hsel)
    (loaded_parents_known st st' ts hcl hl txns hsel)

/-- **text_balance_never_errs_closed**: after a successful load from settings whose chart of accounts is
    ancestor-closed (lax mode) or closed together with the synthetic parents (strict mode), the balance kernel run
    with the settings the load leaves behind does not fail (`get_txn_account` finds every gap parent), for any
    selection of the loaded transactions.  (It may still be outside the exact numeric domain: `.undef`.) -/
theorem text_balance_never_errs_closed (cfg : Time.TsCfg) (st st' : Settings) (text : List Char) (ts : List Txn) (hcl : if st.strict then C12.AncClosed2 st.accounts st.synthetic else C12.AncClosed st.accounts)
    (h : loadText cfg st text = .ok (ts, st'))
    (txns : List Txn) (hsel : ∀ t ∈ txns, t ∈ ts) :
    balance st' (postsOf txns) ≠ .err :=
  loaded_balance_never_errs_closed st st' ts hcl (loaded_of_text cfg st st' text ts h) txns hsel

/-- **files_balance_never_errs_closed**: after a successful load from settings whose chart of accounts is
    ancestor-closed (lax mode) or closed together with the synthetic parents (strict mode), the balance kernel run
    with the settings the load leaves behind does not fail (`get_txn_account` finds every gap parent), for any
    selection of the loaded transactions.  (It may still be outside the exact numeric domain: `.undef`.) -/
theorem files_balance_never_errs_closed (cfg : Time.TsCfg) (st st' : Settings) (files : List (List Char)) (ts : List Txn) (hcl : if st.strict then C12.AncClosed2 st.accounts st.synthetic else C12.AncClosed st.accounts)
    (h : loadFiles cfg st files = .ok (ts, st'))
    (txns : List Txn) (hsel : ∀ t ∈ txns, t ∈ ts) :
    balance st' (postsOf txns) ≠ .err :=
  loaded_balance_never_errs_closed st st' ts hcl (loaded_of_files cfg st st' files ts h) txns hsel

/-- **C02 end to end — `loaded_balance_never_errs`.**  Settings built from a configuration (`Settings.ofConfig`, any
    switches, any charts), any text that loads, any selection of its transactions: `Balance::balance` run with
    the settings after the load does not fail. -/
theorem loaded_balance_never_errs (strict audit pe : Bool) (accts : List Path) (comms tags : List String) (st' : Settings) (ts : List Txn)
    (hl : Loaded (Settings.ofConfig strict audit pe accts comms tags) ts st')
    (txns : List Txn) (hsel : ∀ t ∈ txns, t ∈ ts) :
    balance st' (postsOf txns) ≠ .err :=
  loaded_balance_never_errs_closed _ st' ts (C12.ofConfig_closed strict audit pe accts comms tags) hl txns hsel

/-- **C02 end to end — `text_balance_never_errs`.**  Settings built from a configuration (`Settings.ofConfig`, any
    switches, any charts), any text that loads, any selection of its transactions: `Balance::balance` run with
    the settings after the load does not fail. -/
theorem text_balance_never_errs (cfg : Time.TsCfg) (strict audit pe : Bool) (accts : List Path) (comms tags : List String)
    (st' : Settings) (text : List Char) (ts : List Txn)
    (h : loadText cfg (Settings.ofConfig strict audit pe accts comms tags) text = .ok (ts, st'))
    (txns : List Txn) (hsel : ∀ t ∈ txns, t ∈ ts) :
    balance st' (postsOf txns) ≠ .err :=
  loaded_balance_never_errs strict audit pe accts comms tags st' ts (loaded_of_text cfg _ st' text ts h) txns hsel

/-- **C02 end to end — `files_balance_never_errs`.**  Settings built from a configuration (`Settings.ofConfig`, any
    switches, any charts), any list of file texts that loads, any selection of its transactions: `Balance::balance` run with
    the settings after the load does not fail. -/
theorem files_balance_never_errs (cfg : Time.TsCfg) (strict audit pe : Bool) (accts : List Path) (comms tags : List String)
    (st' : Settings) (files : List (List Char)) (ts : List Txn)
    (h : loadFiles cfg (Settings.ofConfig strict audit pe accts comms tags) files = .ok (ts, st'))
    (txns : List Txn) (hsel : ∀ t ∈ txns, t ∈ ts) :
    balance st' (postsOf txns) ≠ .err :=
  loaded_balance_never_errs strict audit pe accts comms tags st' ts (loaded_of_files cfg _ st' files ts h) txns hsel

/-! ## 3. C03 — register of loaded text: canonical order, exact running totals -/

/-- what is loaded from text is in canonical order, and so is what a filter keeps of it -/
theorem loaded_sorted (st st' : Settings) (ts : List Txn) (hl : Loaded st ts st')
    (tf : Txn → Bool) :
    ts.Pairwise (fun a b => txnLe a b = true) ∧ (ts.filter tf).Pairwise (fun a b => txnLe a b = true) := by
  obtain ⟨_, acc, _, _, rfl⟩ := hl
  exact ⟨sortTxns_sorted acc, (sortTxns_sorted acc).sublist List.filter_sublist⟩

/-- what is loaded from a text is in canonical order, and so is what a filter keeps of it -/
theorem text_sorted (cfg : Time.TsCfg) (st st' : Settings) (text : List Char) (ts : List Txn)
    (h : loadText cfg st text = .ok (ts, st'))
    (tf : Txn → Bool) :
    ts.Pairwise (fun a b => txnLe a b = true) ∧ (ts.filter tf).Pairwise (fun a b => txnLe a b = true) :=
  loaded_sorted st st' ts (loaded_of_text cfg st st' text ts h) tf

/-- what is loaded from a list of file texts is in canonical order, and so is what a filter keeps of it -/
theorem files_sorted (cfg : Time.TsCfg) (st st' : Settings) (files : List (List Char)) (ts : List Txn)
    (h : loadFiles cfg st files = .ok (ts, st'))
    (tf : Txn → Bool) :
    ts.Pairwise (fun a b => txnLe a b = true) ∧ (ts.filter tf).Pairwise (fun a b => txnLe a b = true) :=
  loaded_sorted st st' ts (loaded_of_files cfg st st' files ts h) tf

/-- `TxnsWF` of every selection -/
theorem loaded_txnsWF_sel (st st' : Settings) (ts : List Txn) (hl : Loaded st ts st')
    (txns : List Txn) (hsel : ∀ t ∈ txns, t ∈ ts) :
    C03.TxnsWF txns :=
  fun t ht => loaded_txnsWF st st' ts hl t (hsel t ht)

/-- `TxnsWF` of every selection -/
theorem text_txnsWF_sel (cfg : Time.TsCfg) (st st' : Settings) (text : List Char) (ts : List Txn)
    (h : loadText cfg st text = .ok (ts, st'))
    (txns : List Txn) (hsel : ∀ t ∈ txns, t ∈ ts) :
    C03.TxnsWF txns :=
  loaded_txnsWF_sel st st' ts (loaded_of_text cfg st st' text ts h) txns hsel

/-- **C03 end to end — `loaded_register_exact`.**  The register report without account selector over any selection
    of the transactions loaded from text, whenever the engine answers: one entry per transaction, in the order
    given; entry `i` lists the postings of transaction `i` in `sortedPosts` order and row `j` shows the exact sum
    of all postings to the same (commodity, account) in the transactions before `i` plus those of transaction `i`
    at in-entry positions `≤ j`; every posted (commodity, account) has a last row, and the last running total
    shown for it is the exact sum of all its postings — the balance report's account sum.  No `TxnsWF` hypothesis. -/
theorem loaded_register_exact (st st' : Settings) (ts : List Txn) (hl : Loaded st ts st')
    (txns : List Txn) (hsel : ∀ t ∈ txns, t ∈ ts)
    (es : List RegEntry) (hr : register selAll txns = .ok es) :
    es.map (·.txn) = txns ∧
    (∀ i e, es[i]? = some e → ∃ t, txns[i]? = some t ∧ e.txn = t ∧ e.rows.length = t.posts.length ∧
      ∀ j r, e.rows[j]? = some r → ∃ p, (C03.sortedPosts t)[j]? = some p ∧ r.post = p ∧ r.comm = p.comm ∧
        r.total.units = C03.postSum p.acctnKey ((txns.take i).flatMap (·.posts))
                          + C03.postSum p.acctnKey ((C03.sortedPosts t).take (j + 1))) ∧
    (∀ k, (∃ p ∈ postsOf txns, p.key = k) → ∃ r, C03.lastRow k (es.flatMap (·.rows)) = some r) ∧
    (∀ k r, C03.lastRow k (es.flatMap (·.rows)) = some r → r.total.units = C03.ownSpec txns k) := by
  have hwf := loaded_txnsWF_sel st st' ts hl txns hsel
  exact ⟨(C03.register_order selAll txns es hr).1, (C03.running_total txns es hwf hr).2,
    fun k hk => C03.last_total_exists txns es hr k hk,
    fun k r hl => C03.last_total_balance txns es hwf hr k r hl⟩

/-- **C03 end to end — `text_register_exact`.**  The register report without account selector over any selection
    of the transactions loaded from a text, whenever the engine answers: one entry per transaction, in the order
    given; entry `i` lists the postings of transaction `i` in `sortedPosts` order and row `j` shows the exact sum
    of all postings to the same (commodity, account) in the transactions before `i` plus those of transaction `i`
    at in-entry positions `≤ j`; every posted (commodity, account) has a last row, and the last running total
    shown for it is the exact sum of all its postings — the balance report's account sum.  No `TxnsWF` hypothesis. -/
theorem text_register_exact (cfg : Time.TsCfg) (st st' : Settings) (text : List Char) (ts : List Txn)
    (h : loadText cfg st text = .ok (ts, st'))
    (txns : List Txn) (hsel : ∀ t ∈ txns, t ∈ ts)
    (es : List RegEntry) (hr : register selAll txns = .ok es) :
    es.map (·.txn) = txns ∧
    (∀ i e, es[i]? = some e → ∃ t, txns[i]? = some t ∧ e.txn = t ∧ e.rows.length = t.posts.length ∧
      ∀ j r, e.rows[j]? = some r → ∃ p, (C03.sortedPosts t)[j]? = some p ∧ r.post = p ∧ r.comm = p.comm ∧
        r.total.units = C03.postSum p.acctnKey ((txns.take i).flatMap (·.posts))
                          + C03.postSum p.acctnKey ((C03.sortedPosts t).take (j + 1))) ∧
    (∀ k, (∃ p ∈ postsOf txns, p.key = k) → ∃ r, C03.lastRow k (es.flatMap (·.rows)) = some r) ∧
    (∀ k r, C03.lastRow k (es.flatMap (·.rows)) = some r → r.total.units = C03.ownSpec txns k) :=
  loaded_register_exact st st' ts (loaded_of_text cfg st st' text ts h) txns hsel es hr

/-- **C03 end to end — `files_register_exact`.**  The register report without account selector over any selection
    of the transactions loaded from a list of file texts, whenever the engine answers: one entry per transaction, in the order
    given; entry `i` lists the postings of transaction `i` in `sortedPosts` order and row `j` shows the exact sum
    of all postings to the same (commodity, account) in the transactions before `i` plus those of transaction `i`
    at in-entry positions `≤ j`; every posted (commodity, account) has a last row, and the last running total
    shown for it is the exact sum of all its postings — the balance report's account sum.  No `TxnsWF` hypothesis. -/
theorem files_register_exact (cfg : Time.TsCfg) (st st' : Settings) (files : List (List Char)) (ts : List Txn)
    (h : loadFiles cfg st files = .ok (ts, st'))
    (txns : List Txn) (hsel : ∀ t ∈ txns, t ∈ ts)
    (es : List RegEntry) (hr : register selAll txns = .ok es) :
    es.map (·.txn) = txns ∧
    (∀ i e, es[i]? = some e → ∃ t, txns[i]? = some t ∧ e.txn = t ∧ e.rows.length = t.posts.length ∧
      ∀ j r, e.rows[j]? = some r → ∃ p, (C03.sortedPosts t)[j]? = some p ∧ r.post = p ∧ r.comm = p.comm ∧
        r.total.units = C03.postSum p.acctnKey ((txns.take i).flatMap (·.posts))
                          + C03.postSum p.acctnKey ((C03.sortedPosts t).take (j + 1))) ∧
    (∀ k, (∃ p ∈ postsOf txns, p.key = k) → ∃ r, C03.lastRow k (es.flatMap (·.rows)) = some r) ∧
    (∀ k r, C03.lastRow k (es.flatMap (·.rows)) = some r → r.total.units = C03.ownSpec txns k) :=
  loaded_register_exact st st' ts (loaded_of_files cfg st st' files ts h) txns hsel es hr

/-- **loaded_register_selected**: with any account selector the entries are those of the unselected report with the
    rejected rows hidden (`selector_only_hides`), and every shown row carries the exact prefix sum of
    `loaded_register_exact` — hidden postings are accumulated all the same. -/
theorem loaded_register_selected (st st' : Settings) (ts : List Txn) (hl : Loaded st ts st')
    (txns : List Txn) (hsel : ∀ t ∈ txns, t ∈ ts)
    (sel : RegRow → Bool) (es : List RegEntry) (hr : register sel txns = .ok es) :
    (∃ es0, register selAll txns = .ok es0 ∧ es = es0.map (C03.hide sel)) ∧
    es.length = txns.length ∧
    ∀ i e, es[i]? = some e → ∃ t, txns[i]? = some t ∧ e.txn = t ∧
      ∀ r ∈ e.rows, sel r = true ∧ ∃ j p, (C03.sortedPosts t)[j]? = some p ∧ r.post = p ∧ r.comm = p.comm ∧
        r.total.units = C03.postSum p.acctnKey ((txns.take i).flatMap (·.posts))
                          + C03.postSum p.acctnKey ((C03.sortedPosts t).take (j + 1)) := by
  have hwf := loaded_txnsWF_sel st st' ts hl txns hsel
  refine ⟨?_, C03.running_total_selected sel txns es hwf hr⟩
  have := hr
  rw [C03.selector_only_hides, Outcome.map_ok] at this
  obtain ⟨es0, h0, e⟩ := this
  exact ⟨es0, h0, e.symm⟩

/-- **text_register_selected**: with any account selector the entries are those of the unselected report with the
    rejected rows hidden (`selector_only_hides`), and every shown row carries the exact prefix sum of
    `text_register_exact` — hidden postings are accumulated all the same. -/
theorem text_register_selected (cfg : Time.TsCfg) (st st' : Settings) (text : List Char) (ts : List Txn)
    (h : loadText cfg st text = .ok (ts, st'))
    (txns : List Txn) (hsel : ∀ t ∈ txns, t ∈ ts)
    (sel : RegRow → Bool) (es : List RegEntry) (hr : register sel txns = .ok es) :
    (∃ es0, register selAll txns = .ok es0 ∧ es = es0.map (C03.hide sel)) ∧
    es.length = txns.length ∧
    ∀ i e, es[i]? = some e → ∃ t, txns[i]? = some t ∧ e.txn = t ∧
      ∀ r ∈ e.rows, sel r = true ∧ ∃ j p, (C03.sortedPosts t)[j]? = some p ∧ r.post = p ∧ r.comm = p.comm ∧
        r.total.units = C03.postSum p.acctnKey ((txns.take i).flatMap (·.posts))
                          + C03.postSum p.acctnKey ((C03.sortedPosts t).take (j + 1)) :=
  loaded_register_selected st st' ts (loaded_of_text cfg st st' text ts h) txns hsel sel es hr

/-- **files_register_selected**: with any account selector the entries are those of the unselected report with the
    rejected rows hidden (`selector_only_hides`), and every shown row carries the exact prefix sum of
    `files_register_exact` — hidden postings are accumulated all the same. -/
theorem files_register_selected (cfg : Time.TsCfg) (st st' : Settings) (files : List (List Char)) (ts : List Txn)
    (h : loadFiles cfg st files = .ok (ts, st'))
    (txns : List Txn) (hsel : ∀ t ∈ txns, t ∈ ts)
    (sel : RegRow → Bool) (es : List RegEntry) (hr : register sel txns = .ok es) :
    (∃ es0, register selAll txns = .ok es0 ∧ es = es0.map (C03.hide sel)) ∧
    es.length = txns.length ∧
    ∀ i e, es[i]? = some e → ∃ t, txns[i]? = some t ∧ e.txn = t ∧
      ∀ r ∈ e.rows, sel r = true ∧ ∃ j p, (C03.sortedPosts t)[j]? = some p ∧ r.post = p ∧ r.comm = p.comm ∧
        r.total.units = C03.postSum p.acctnKey ((txns.take i).flatMap (·.posts))
                          + C03.postSum p.acctnKey ((C03.sortedPosts t).take (j + 1)) :=
  loaded_register_selected st st' ts (loaded_of_files cfg st st' files ts h) txns hsel sel es hr

/-! ## 4. C10 — equity export of loaded text -/

/-- **C10 end to end — `loaded_equity`.**  The equity export over any selection `txns` of the transactions loaded from
    text, whenever the exporter answers:
    * (shape) one transaction per commodity with a selected non-zero row, in strictly increasing commodity order,
      dated at the last selected transaction, whose postings are exactly the selected rows with their own sums,
      then the balancing posting iff the sum is not zero (`C10.IsEquityTxn`);
    * (accepts) every generated transaction is accepted under lax settings and is `C01.Balanced`;
    * (carries) if the equity account is not itself selected, then after re-loading the export every selected
      non-zero (commodity, account) has the same own sum as in the source, and that is the figure its balance row
      shows.
    `TxnsWF`, and the two facts of the balance kernel that `C10.equity_carries` takes as hypotheses, are discharged
    (`loaded_txnsWF`, `C02.own_sum`, `C02.rows_nodup` with `loaded_postsWF`). -/
theorem loaded_equity (st st' : Settings) (ts : List Txn) (hl : Loaded st ts st')
    (txns : List Txn) (hsel : ∀ t ∈ txns, t ∈ ts)
    (sb : Settings) (acc : Option (Path → Bool)) (eqa : Path) (md : List String) (out : List EqTxn)
    (he : equityExport sb acc eqa md txns = .ok out) :
    (∃ all cs, balance sb (postsOf txns) = .ok all ∧
      cs.Pairwise (· < ·) ∧ (∀ c, c ∈ cs ↔ ∃ r ∈ C10.selRows acc all, r.comm = c) ∧
      C10.Forall2 (fun c t => ∃ last, txns.getLast? = some last ∧
                 C10.IsEquityTxn eqa last.header md (C10.selRows acc all) c t) cs out) ∧
    (∀ s1, C10.Lax s1 → ∀ t ∈ out, ∃ s2, acceptTxn s1 t.toRaw = .ok (C10.toTxn t, s2) ∧ C10.Lax s2 ∧
      C01.Balanced (C10.toTxn t)) ∧
    (∀ all, balance sb (postsOf txns) = .ok all → (∀ r ∈ C10.selRows acc all, r.acct ≠ eqa) →
      ∀ s1 s2 ts', C10.Lax s1 → loadJournal s1 (out.map EqTxn.toRaw) = .ok (ts', s2) →
        ∀ r ∈ C10.selRows acc all,
          C10.ownSpec (postsOf ts') r.key = C10.ownSpec (postsOf txns) r.key ∧
          r.own.units = C10.ownSpec (postsOf txns) r.key) := by
  have hwf : C10.TxnsWF txns := loaded_txnsWF_sel st st' ts hl txns hsel
  have hpw := loaded_postsWF_sel st st' ts hl txns hsel
  refine ⟨C10.equity_shape sb acc eqa md txns out hwf he,
    fun s1 hl => C10.equity_accepts sb acc eqa md txns out hwf he s1 hl, ?_⟩
  intro all hall heqa s1 s2 ts' hl hre r hr
  have hown : ∀ r ∈ all, r.own.units = C10.ownSpec (postsOf txns) r.key :=
    fun r hr => C02.own_sum sb _ hpw all hall r hr
  exact ⟨C10.equity_carries sb acc eqa md txns out he all hall hown (C02.rows_nodup sb _ hpw all hall) heqa
    s1 s2 hl ts' hre r hr, hown r (List.mem_filter.mp hr).1⟩

/-- **C10 end to end — `text_equity`.**  The equity export over any selection `txns` of the transactions loaded from
    a text, whenever the exporter answers:
    * (shape) one transaction per commodity with a selected non-zero row, in strictly increasing commodity order,
      dated at the last selected transaction, whose postings are exactly the selected rows with their own sums,
      then the balancing posting iff the sum is not zero (`C10.IsEquityTxn`);
    * (accepts) every generated transaction is accepted under lax settings and is `C01.Balanced`;
    * (carries) if the equity account is not itself selected, then after re-loading the export every selected
      non-zero (commodity, account) has the same own sum as in the source, and that is the figure its balance row
      shows.
    `TxnsWF`, and the two facts of the balance kernel that `C10.equity_carries` takes as hypotheses, are discharged
    (`text_txnsWF`, `C02.own_sum`, `C02.rows_nodup` with `text_postsWF`). -/
theorem text_equity (cfg : Time.TsCfg) (st st' : Settings) (text : List Char) (ts : List Txn)
    (h : loadText cfg st text = .ok (ts, st'))
    (txns : List Txn) (hsel : ∀ t ∈ txns, t ∈ ts)
    (sb : Settings) (acc : Option (Path → Bool)) (eqa : Path) (md : List String) (out : List EqTxn)
    (he : equityExport sb acc eqa md txns = .ok out) :
    (∃ all cs, balance sb (postsOf txns) = .ok all ∧
      cs.Pairwise (· < ·) ∧ (∀ c, c ∈ cs ↔ ∃ r ∈ C10.selRows acc all, r.comm = c) ∧
      C10.Forall2 (fun c t => ∃ last, txns.getLast? = some last ∧
                 C10.IsEquityTxn eqa last.header md (C10.selRows acc all) c t) cs out) ∧
    (∀ s1, C10.Lax s1 → ∀ t ∈ out, ∃ s2, acceptTxn s1 t.toRaw = .ok (C10.toTxn t, s2) ∧ C10.Lax s2 ∧
      C01.Balanced (C10.toTxn t)) ∧
    (∀ all, balance sb (postsOf txns) = .ok all → (∀ r ∈ C10.selRows acc all, r.acct ≠ eqa) →
      ∀ s1 s2 ts', C10.Lax s1 → loadJournal s1 (out.map EqTxn.toRaw) = .ok (ts', s2) →
        ∀ r ∈ C10.selRows acc all,
          C10.ownSpec (postsOf ts') r.key = C10.ownSpec (postsOf txns) r.key ∧
          r.own.units = C10.ownSpec (postsOf txns) r.key) :=
  loaded_equity st st' ts (loaded_of_text cfg st st' text ts h) txns hsel sb acc eqa md out he

/-- **C10 end to end — `files_equity`.**  The equity export over any selection `txns` of the transactions loaded from
    a list of file texts, whenever the exporter answers:
    * (shape) one transaction per commodity with a selected non-zero row, in strictly increasing commodity order,
      dated at the last selected transaction, whose postings are exactly the selected rows with their own sums,
      then the balancing posting iff the sum is not zero (`C10.IsEquityTxn`);
    * (accepts) every generated transaction is accepted under lax settings and is `C01.Balanced`;
    * (carries) if the equity account is not itself selected, then after re-loading the export every selected
      non-zero (commodity, account) has the same own sum as in the source, and that is the figure its balance row
      shows.
    `TxnsWF`, and the two facts of the balance kernel that `C10.equity_carries` takes as hypotheses, are discharged
    (`files_txnsWF`, `C02.own_sum`, `C02.rows_nodup` with `files_postsWF`). -/
theorem files_equity (cfg : Time.TsCfg) (st st' : Settings) (files : List (List Char)) (ts : List Txn)
    (h : loadFiles cfg st files = .ok (ts, st'))
    (txns : List Txn) (hsel : ∀ t ∈ txns, t ∈ ts)
    (sb : Settings) (acc : Option (Path → Bool)) (eqa : Path) (md : List String) (out : List EqTxn)
    (he : equityExport sb acc eqa md txns = .ok out) :
    (∃ all cs, balance sb (postsOf txns) = .ok all ∧
      cs.Pairwise (· < ·) ∧ (∀ c, c ∈ cs ↔ ∃ r ∈ C10.selRows acc all, r.comm = c) ∧
      C10.Forall2 (fun c t => ∃ last, txns.getLast? = some last ∧
                 C10.IsEquityTxn eqa last.header md (C10.selRows acc all) c t) cs out) ∧
    (∀ s1, C10.Lax s1 → ∀ t ∈ out, ∃ s2, acceptTxn s1 t.toRaw = .ok (C10.toTxn t, s2) ∧ C10.Lax s2 ∧
      C01.Balanced (C10.toTxn t)) ∧
    (∀ all, balance sb (postsOf txns) = .ok all → (∀ r ∈ C10.selRows acc all, r.acct ≠ eqa) →
      ∀ s1 s2 ts', C10.Lax s1 → loadJournal s1 (out.map EqTxn.toRaw) = .ok (ts', s2) →
        ∀ r ∈ C10.selRows acc all,
          C10.ownSpec (postsOf ts') r.key = C10.ownSpec (postsOf txns) r.key ∧
          r.own.units = C10.ownSpec (postsOf txns) r.key) :=
  loaded_equity st st' ts (loaded_of_files cfg st st' files ts h) txns hsel sb acc eqa md out he

/-! ## 5. C13 — balance groups of loaded text -/

/-- **C13 end to end — `loaded_groups`.**  The balance-group report (any key function: every group-by setting, every
    report zone) over any selection `txns` of the transactions loaded from text, whenever it answers:
    the group candidates partition `txns` (`group_partition`); the printed titles are strictly ascending; a printed
    group is the candidate of its title, its figures are `Balance::from_iter` of its members' postings, and in it
    every row's own / tree sum is the exact sum of the *members'* postings to / at or below its pair, the rows are
    the selected ones among the pairs the members post to and their ancestors, each once, with one exact delta per
    listed commodity.  No `PostsWF` hypothesis. -/
theorem loaded_groups (st st' : Settings) (ts : List Txn) (hl : Loaded st ts st')
    (txns : List Txn) (hsel : ∀ t ∈ txns, t ∈ ts)
    (sb : Settings) (sel : BalRow → Bool) (key : Txn → String) (gs : List BalGroup)
    (hg : balanceGroupsBy sb sel key txns = .ok gs) :
    ((((groupCandidates key txns).map (·.2)).flatten).Perm txns ∧
      (∀ t ∈ txns, ∃ kg ∈ groupCandidates key txns, t ∈ kg.2 ∧ kg.1 = key t ∧
        ∀ kg' ∈ groupCandidates key txns, t ∈ kg'.2 → kg' = kg)) ∧
    (gs.map (·.title)).Pairwise (· < ·) ∧
    ∀ g ∈ gs, ∃ members bal, members = txns.filter (fun t => decide (key t = g.title)) ∧
      (g.title, members) ∈ groupCandidates key txns ∧
      fromIter sb sel (postsOf members) = .ok g.bal ∧ g.bal.rows ≠ [] ∧
      balance sb (postsOf members) = .ok bal ∧ g.bal.rows = bal.filter sel ∧
      (∀ k, k ∈ bal.map (·.key) ↔ C02.Posted (postsOf members) k ∨ C02.ProperAncestor (postsOf members) k) ∧
      (bal.map (·.key)).Nodup ∧
      (∀ row ∈ g.bal.rows, row.own.units = C02.ownSum (postsOf members) row.key ∧
                           row.tree.units = C02.treeSum (postsOf members) row.key) ∧
      (g.bal.deltas.map (·.1)).Pairwise (· < ·) ∧
      (∀ c, c ∈ g.bal.deltas.map (·.1) ↔ ∃ r ∈ g.bal.rows, r.comm = c) ∧
      (∀ cd ∈ g.bal.deltas,
        cd.2.units = ((g.bal.rows.filter (fun r => decide (r.comm = cd.1))).map (·.own.units)).sum) := by
  have hwf := loaded_postsWF_sel st st' ts hl txns hsel
  obtain ⟨hperm, _, hone, _⟩ := C13.group_partition key txns
  refine ⟨⟨hperm, hone⟩, C13.group_keys sb sel key txns gs hg, ?_⟩
  intro g hgm
  obtain ⟨members, hcand, hm, hfi, hne⟩ := C13.group_figures sb sel key txns gs hg g hgm
  obtain ⟨bal, hbal, hrows, hkeys, hnd, hd1, hd2, hd3⟩ := C13.group_rows_deltas sb sel key txns hwf gs hg g hgm
  subst hm
  exact ⟨_, bal, rfl, hcand, hfi, hne, hbal, hrows, hkeys, hnd,
    C13.group_own_tree_sums sb sel key txns hwf gs hg g hgm, hd1, hd2, hd3⟩

/-- **C13 end to end — `text_groups`.**  The balance-group report (any key function: every group-by setting, every
    report zone) over any selection `txns` of the transactions loaded from a text, whenever it answers:
    the group candidates partition `txns` (`group_partition`); the printed titles are strictly ascending; a printed
    group is the candidate of its title, its figures are `Balance::from_iter` of its members' postings, and in it
    every row's own / tree sum is the exact sum of the *members'* postings to / at or below its pair, the rows are
    the selected ones among the pairs the members post to and their ancestors, each once, with one exact delta per
    listed commodity.  No `PostsWF` hypothesis. -/
theorem text_groups (cfg : Time.TsCfg) (st st' : Settings) (text : List Char) (ts : List Txn)
    (h : loadText cfg st text = .ok (ts, st'))
    (txns : List Txn) (hsel : ∀ t ∈ txns, t ∈ ts)
    (sb : Settings) (sel : BalRow → Bool) (key : Txn → String) (gs : List BalGroup)
    (hg : balanceGroupsBy sb sel key txns = .ok gs) :
    ((((groupCandidates key txns).map (·.2)).flatten).Perm txns ∧
      (∀ t ∈ txns, ∃ kg ∈ groupCandidates key txns, t ∈ kg.2 ∧ kg.1 = key t ∧
        ∀ kg' ∈ groupCandidates key txns, t ∈ kg'.2 → kg' = kg)) ∧
    (gs.map (·.title)).Pairwise (· < ·) ∧
    ∀ g ∈ gs, ∃ members bal, members = txns.filter (fun t => decide (key t = g.title)) ∧
      (g.title, members) ∈ groupCandidates key txns ∧
      fromIter sb sel (postsOf members) = .ok g.bal ∧ g.bal.rows ≠ [] ∧
      balance sb (postsOf members) = .ok bal ∧ g.bal.rows = bal.filter sel ∧
      (∀ k, k ∈ bal.map (·.key) ↔ C02.Posted (postsOf members) k ∨ C02.ProperAncestor (postsOf members) k) ∧
      (bal.map (·.key)).Nodup ∧
      (∀ row ∈ g.bal.rows, row.own.units = C02.ownSum (postsOf members) row.key ∧
                           row.tree.units = C02.treeSum (postsOf members) row.key) ∧
      (g.bal.deltas.map (·.1)).Pairwise (· < ·) ∧
      (∀ c, c ∈ g.bal.deltas.map (·.1) ↔ ∃ r ∈ g.bal.rows, r.comm = c) ∧
      (∀ cd ∈ g.bal.deltas,
        cd.2.units = ((g.bal.rows.filter (fun r => decide (r.comm = cd.1))).map (·.own.units)).sum) :=
  loaded_groups st st' ts (loaded_of_text cfg st st' text ts h) txns hsel sb sel key gs hg

/-- **C13 end to end — `files_groups`.**  The balance-group report (any key function: every group-by setting, every
    report zone) over any selection `txns` of the transactions loaded from a list of file texts, whenever it answers:
    the group candidates partition `txns` (`group_partition`); the printed titles are strictly ascending; a printed
    group is the candidate of its title, its figures are `Balance::from_iter` of its members' postings, and in it
    every row's own / tree sum is the exact sum of the *members'* postings to / at or below its pair, the rows are
    the selected ones among the pairs the members post to and their ancestors, each once, with one exact delta per
    listed commodity.  No `PostsWF` hypothesis. -/
theorem files_groups (cfg : Time.TsCfg) (st st' : Settings) (files : List (List Char)) (ts : List Txn)
    (h : loadFiles cfg st files = .ok (ts, st'))
    (txns : List Txn) (hsel : ∀ t ∈ txns, t ∈ ts)
    (sb : Settings) (sel : BalRow → Bool) (key : Txn → String) (gs : List BalGroup)
    (hg : balanceGroupsBy sb sel key txns = .ok gs) :
    ((((groupCandidates key txns).map (·.2)).flatten).Perm txns ∧
      (∀ t ∈ txns, ∃ kg ∈ groupCandidates key txns, t ∈ kg.2 ∧ kg.1 = key t ∧
        ∀ kg' ∈ groupCandidates key txns, t ∈ kg'.2 → kg' = kg)) ∧
    (gs.map (·.title)).Pairwise (· < ·) ∧
    ∀ g ∈ gs, ∃ members bal, members = txns.filter (fun t => decide (key t = g.title)) ∧
      (g.title, members) ∈ groupCandidates key txns ∧
      fromIter sb sel (postsOf members) = .ok g.bal ∧ g.bal.rows ≠ [] ∧
      balance sb (postsOf members) = .ok bal ∧ g.bal.rows = bal.filter sel ∧
      (∀ k, k ∈ bal.map (·.key) ↔ C02.Posted (postsOf members) k ∨ C02.ProperAncestor (postsOf members) k) ∧
      (bal.map (·.key)).Nodup ∧
      (∀ row ∈ g.bal.rows, row.own.units = C02.ownSum (postsOf members) row.key ∧
                           row.tree.units = C02.treeSum (postsOf members) row.key) ∧
      (g.bal.deltas.map (·.1)).Pairwise (· < ·) ∧
      (∀ c, c ∈ g.bal.deltas.map (·.1) ↔ ∃ r ∈ g.bal.rows, r.comm = c) ∧
      (∀ cd ∈ g.bal.deltas,
        cd.2.units = ((g.bal.rows.filter (fun r => decide (r.comm = cd.1))).map (·.own.units)).sum) :=
  loaded_groups st st' ts (loaded_of_files cfg st st' files ts h) txns hsel sb sel key gs hg

/-- **loaded_groups_total**: every posting counts in exactly one group — for every (commodity, account) pair the
    members' sums over the group candidates add up to the sum over `txns`, and, for a pair the selector lists, the
    own sums shown by the printed groups add up to the own sum shown by the overall balance report. -/
theorem loaded_groups_total (st st' : Settings) (ts : List Txn) (hl : Loaded st ts st')
    (txns : List Txn) (hsel : ∀ t ∈ txns, t ∈ ts)
    (sb : Settings) (sel : BalRow → Bool) (key : Txn → String) (k : AKey) :
    ((groupCandidates key txns).map (fun kg => C02.ownSum (postsOf kg.2) k)).sum = C02.ownSum (postsOf txns) k ∧
    ∀ gs b, balanceGroupsBy sb sel key txns = .ok gs → fromIter sb sel (postsOf txns) = .ok b →
      (∀ r : BalRow, r.key = k → sel r = true) →
      (gs.map (fun g => C13.rowOwn g.bal.rows k)).sum = C13.rowOwn b.rows k :=
  ⟨C13.group_total key txns k, fun gs b hg hb hs =>
    C13.group_total_rows sb sel key txns (loaded_postsWF_sel st st' ts hl txns hsel) gs hg b hb k hs⟩

/-- **text_groups_total**: every posting counts in exactly one group — for every (commodity, account) pair the
    members' sums over the group candidates add up to the sum over `txns`, and, for a pair the selector lists, the
    own sums shown by the printed groups add up to the own sum shown by the overall balance report. -/
theorem text_groups_total (cfg : Time.TsCfg) (st st' : Settings) (text : List Char) (ts : List Txn)
    (h : loadText cfg st text = .ok (ts, st'))
    (txns : List Txn) (hsel : ∀ t ∈ txns, t ∈ ts)
    (sb : Settings) (sel : BalRow → Bool) (key : Txn → String) (k : AKey) :
    ((groupCandidates key txns).map (fun kg => C02.ownSum (postsOf kg.2) k)).sum = C02.ownSum (postsOf txns) k ∧
    ∀ gs b, balanceGroupsBy sb sel key txns = .ok gs → fromIter sb sel (postsOf txns) = .ok b →
      (∀ r : BalRow, r.key = k → sel r = true) →
      (gs.map (fun g => C13.rowOwn g.bal.rows k)).sum = C13.rowOwn b.rows k :=
  loaded_groups_total st st' ts (loaded_of_text cfg st st' text ts h) txns hsel sb sel key k

/-- **files_groups_total**: every posting counts in exactly one group — for every (commodity, account) pair the
    members' sums over the group candidates add up to the sum over `txns`, and, for a pair the selector lists, the
    own sums shown by the printed groups add up to the own sum shown by the overall balance report. -/
theorem files_groups_total (cfg : Time.TsCfg) (st st' : Settings) (files : List (List Char)) (ts : List Txn)
    (h : loadFiles cfg st files = .ok (ts, st'))
    (txns : List Txn) (hsel : ∀ t ∈ txns, t ∈ ts)
    (sb : Settings) (sel : BalRow → Bool) (key : Txn → String) (k : AKey) :
    ((groupCandidates key txns).map (fun kg => C02.ownSum (postsOf kg.2) k)).sum = C02.ownSum (postsOf txns) k ∧
    ∀ gs b, balanceGroupsBy sb sel key txns = .ok gs → fromIter sb sel (postsOf txns) = .ok b →
      (∀ r : BalRow, r.key = k → sel r = true) →
      (gs.map (fun g => C13.rowOwn g.bal.rows k)).sum = C13.rowOwn b.rows k :=
  loaded_groups_total st st' ts (loaded_of_files cfg st st' files ts h) txns hsel sb sel key k

/-- **loaded_groups_never_err**: `Balance::from_iter(…).expect(…)` inside `balance_groups` is the one panic site of
    the report; after a load from settings built from a configuration it is not reached (the model never answers
    `.err`), for any key function and any selection of the loaded transactions. -/
theorem loaded_groups_never_err (strict audit pe : Bool) (accts : List Path) (comms tags : List String) (st' : Settings) (ts : List Txn)
    (hl : Loaded (Settings.ofConfig strict audit pe accts comms tags) ts st')
    (txns : List Txn) (hsel : ∀ t ∈ txns, t ∈ ts) (sel : BalRow → Bool) (key : Txn → String) :
    balanceGroupsBy st' sel key txns ≠ .err :=
  C13.no_panic st' sel key txns (loaded_postsWF_sel _ st' ts hl txns hsel)
    (loaded_parents_known _ st' ts (C12.ofConfig_closed strict audit pe accts comms tags) hl txns hsel)

/-- **text_groups_never_err**: `Balance::from_iter(…).expect(…)` inside `balance_groups` is the one panic site of
    the report; after a load from settings built from a configuration it is not reached (the model never answers
    `.err`), for any key function and any selection of the loaded transactions. -/
theorem text_groups_never_err (cfg : Time.TsCfg) (strict audit pe : Bool) (accts : List Path) (comms tags : List String)
    (st' : Settings) (text : List Char) (ts : List Txn)
    (h : loadText cfg (Settings.ofConfig strict audit pe accts comms tags) text = .ok (ts, st'))
    (txns : List Txn) (hsel : ∀ t ∈ txns, t ∈ ts) (sel : BalRow → Bool) (key : Txn → String) :
    balanceGroupsBy st' sel key txns ≠ .err :=
  loaded_groups_never_err strict audit pe accts comms tags st' ts (loaded_of_text cfg _ st' text ts h) txns hsel sel key

/-- **files_groups_never_err**: `Balance::from_iter(…).expect(…)` inside `balance_groups` is the one panic site of
    the report; after a load from settings built from a configuration it is not reached (the model never answers
    `.err`), for any key function and any selection of the loaded transactions. -/
theorem files_groups_never_err (cfg : Time.TsCfg) (strict audit pe : Bool) (accts : List Path) (comms tags : List String)
    (st' : Settings) (files : List (List Char)) (ts : List Txn)
    (h : loadFiles cfg (Settings.ofConfig strict audit pe accts comms tags) files = .ok (ts, st'))
    (txns : List Txn) (hsel : ∀ t ∈ txns, t ∈ ts) (sel : BalRow → Bool) (key : Txn → String) :
    balanceGroupsBy st' sel key txns ≠ .err :=
  loaded_groups_never_err strict audit pe accts comms tags st' ts (loaded_of_files cfg _ st' files ts h) txns hsel sel key

/-! ## 6. C09 — uuids loaded from text are canonical; the hashed message determines the set -/

/-- **loaded_uuid_no_newline**: every uuid of a transaction loaded from text is the canonical text the grammar produces —
    36 characters, `8-4-4-4-12` lower-case hex digits (`UuidWF`) — so it contains no newline and `Uuid::to_string`
    is the identity on it. -/
theorem loaded_uuid_no_newline (st st' : Settings) (ts : List Txn) (hl : Loaded st ts st') :
    ∀ t ∈ ts, ∀ u, t.header.uuid = some u →
      UuidWF u.toList ∧ u.toList.length = 36 ∧ '\n' ∉ u.toList ∧ uuidToString u = u := by
  obtain ⟨rs, _, horig⟩ := loaded_txn_origin st st' ts hl
  intro t ht u hu
  obtain ⟨r, _, _, hlex, s1, s2, hf⟩ := horig t ht
  have hh : t.header = r.header := (C06.acceptTxn_posts s1 s2 r t hf).1
  have hw := hlex.uuid u (by rw [← hh]; exact hu)
  exact ⟨hw, uuidWF_length _ hw, uuidWF_no_newline _ hw, uuidToString_canonical u hw⟩

/-- **text_uuid_no_newline**: every uuid of a transaction loaded from a text is the canonical text the grammar produces —
    36 characters, `8-4-4-4-12` lower-case hex digits (`UuidWF`) — so it contains no newline and `Uuid::to_string`
    is the identity on it. -/
theorem text_uuid_no_newline (cfg : Time.TsCfg) (st st' : Settings) (text : List Char) (ts : List Txn)
    (h : loadText cfg st text = .ok (ts, st')) :
    ∀ t ∈ ts, ∀ u, t.header.uuid = some u →
      UuidWF u.toList ∧ u.toList.length = 36 ∧ '\n' ∉ u.toList ∧ uuidToString u = u :=
  loaded_uuid_no_newline st st' ts (loaded_of_text cfg st st' text ts h)

/-- **files_uuid_no_newline**: every uuid of a transaction loaded from a list of file texts is the canonical text the grammar produces —
    36 characters, `8-4-4-4-12` lower-case hex digits (`UuidWF`) — so it contains no newline and `Uuid::to_string`
    is the identity on it. -/
theorem files_uuid_no_newline (cfg : Time.TsCfg) (st st' : Settings) (files : List (List Char)) (ts : List Txn)
    (h : loadFiles cfg st files = .ok (ts, st')) :
    ∀ t ∈ ts, ∀ u, t.header.uuid = some u →
      UuidWF u.toList ∧ u.toList.length = 36 ∧ '\n' ∉ u.toList ∧ uuidToString u = u :=
  loaded_uuid_no_newline st st' ts (loaded_of_files cfg st st' files ts h)

/-- the hashed uuid texts of any selection of what was loaded from text contain no newline -/
theorem loaded_uuidsOf_no_newline (st st' : Settings) (ts : List Txn) (hl : Loaded st ts st')
    (txns : List Txn) (hsel : ∀ t ∈ txns, t ∈ ts) :
    ∀ u ∈ C09.uuidsOf txns, '\n' ∉ u.toList := by
  intro u hu
  simp only [C09.uuidsOf, List.mem_filterMap, Option.map_eq_some_iff] at hu
  obtain ⟨t, ht, u0, hu0, rfl⟩ := hu
  obtain ⟨_, _, hnl, hcan⟩ := loaded_uuid_no_newline st st' ts hl t (hsel t ht) u0 hu0
  rw [hcan]; exact hnl

/-- the hashed uuid texts of any selection of what was loaded from a text contain no newline -/
theorem text_uuidsOf_no_newline (cfg : Time.TsCfg) (st st' : Settings) (text : List Char) (ts : List Txn)
    (h : loadText cfg st text = .ok (ts, st'))
    (txns : List Txn) (hsel : ∀ t ∈ txns, t ∈ ts) :
    ∀ u ∈ C09.uuidsOf txns, '\n' ∉ u.toList :=
  loaded_uuidsOf_no_newline st st' ts (loaded_of_text cfg st st' text ts h) txns hsel

/-- the hashed uuid texts of any selection of what was loaded from a list of file texts contain no newline -/
theorem files_uuidsOf_no_newline (cfg : Time.TsCfg) (st st' : Settings) (files : List (List Char)) (ts : List Txn)
    (h : loadFiles cfg st files = .ok (ts, st'))
    (txns : List Txn) (hsel : ∀ t ∈ txns, t ∈ ts) :
    ∀ u ∈ C09.uuidsOf txns, '\n' ∉ u.toList :=
  loaded_uuidsOf_no_newline st st' ts (loaded_of_files cfg st st' files ts h) txns hsel

/-- **C09 end to end — `loaded_checksum_determines_set`.**  Two selections of transactions of two loads from text
    (the same or different ones, one text or many files, any settings): equal hashed messages ⇒ equal multisets of
    selected uuids.  The side condition of `C09.preimage_injective` (no newline in a uuid text) is a theorem for
    everything that was loaded from text.  Together with collision resistance of the hash — a cryptographic
    assumption — this is "the checksum differs whenever the selected set differs". -/
theorem loaded_checksum_determines_set (sta sta' stb stb' : Settings) (tsa tsb : List Txn)
    (ha : Loaded sta tsa sta') (hb : Loaded stb tsb stb')
    (a b : List Txn) (hsa : ∀ t ∈ a, t ∈ tsa) (hsb : ∀ t ∈ b, t ∈ tsb)
    (heq : C09.preimage a = C09.preimage b) : (C09.uuidsOf a).Perm (C09.uuidsOf b) :=
  C09.preimage_injective a b (loaded_uuidsOf_no_newline sta sta' tsa ha a hsa)
    (loaded_uuidsOf_no_newline stb stb' tsb hb b hsb) heq

/-- **C09 end to end — `text_checksum_determines_set`**: `loaded_checksum_determines_set` for two texts -/
theorem text_checksum_determines_set (cfga cfgb : Time.TsCfg) (sta sta' stb stb' : Settings)
    (texta textb : List Char) (tsa tsb : List Txn)
    (ha : loadText cfga sta texta = .ok (tsa, sta')) (hb : loadText cfgb stb textb = .ok (tsb, stb'))
    (a b : List Txn) (hsa : ∀ t ∈ a, t ∈ tsa) (hsb : ∀ t ∈ b, t ∈ tsb)
    (heq : C09.preimage a = C09.preimage b) : (C09.uuidsOf a).Perm (C09.uuidsOf b) :=
  loaded_checksum_determines_set sta sta' stb stb' tsa tsb (loaded_of_text cfga sta sta' texta tsa ha)
    (loaded_of_text cfgb stb stb' textb tsb hb) a b hsa hsb heq

/-- … and for two multi-file loads -/
theorem files_checksum_determines_set (cfga cfgb : Time.TsCfg) (sta sta' stb stb' : Settings)
    (filesa filesb : List (List Char)) (tsa tsb : List Txn)
    (ha : loadFiles cfga sta filesa = .ok (tsa, sta')) (hb : loadFiles cfgb stb filesb = .ok (tsb, stb'))
    (a b : List Txn) (hsa : ∀ t ∈ a, t ∈ tsa) (hsb : ∀ t ∈ b, t ∈ tsb)
    (heq : C09.preimage a = C09.preimage b) : (C09.uuidsOf a).Perm (C09.uuidsOf b) :=
  loaded_checksum_determines_set sta sta' stb stb' tsa tsb (loaded_of_files cfga sta sta' filesa tsa ha)
    (loaded_of_files cfgb stb stb' filesb tsb hb) a b hsa hsb heq

/-- **loaded_equal_checksum_is_collision**: if two selections of transactions loaded from text with different uuid
    multisets get the same checksum text, their hashed messages are an explicit collision of the configured hash
    function. -/
theorem loaded_equal_checksum_is_collision (sta sta' stb stb' : Settings) (tsa tsb : List Txn)
    (ha : Loaded sta tsa sta') (hb : Loaded stb tsb stb')
    (a b : List Txn) (hsa : ∀ t ∈ a, t ∈ tsa) (hsb : ∀ t ∈ b, t ∈ tsb)
    (alg : Hash.Algo) (ca cb : Hash.Checksum)
    (hca : calcTxnChecksum a alg = .ok ca) (hcb : calcTxnChecksum b alg = .ok cb)
    (hne : ¬ (C09.uuidsOf a).Perm (C09.uuidsOf b)) (heq : ca.value = cb.value) :
    C09.preimage a ≠ C09.preimage b ∧ alg.digest (C09.preimage a) = alg.digest (C09.preimage b) :=
  C09.equal_checksum_is_collision alg a b ca cb hca hcb
    (loaded_uuidsOf_no_newline sta sta' tsa ha a hsa) (loaded_uuidsOf_no_newline stb stb' tsb hb b hsb) hne heq

/-- `loaded_equal_checksum_is_collision` for two texts -/
theorem text_equal_checksum_is_collision (cfga cfgb : Time.TsCfg) (sta sta' stb stb' : Settings)
    (texta textb : List Char) (tsa tsb : List Txn)
    (ha : loadText cfga sta texta = .ok (tsa, sta')) (hb : loadText cfgb stb textb = .ok (tsb, stb'))
    (a b : List Txn) (hsa : ∀ t ∈ a, t ∈ tsa) (hsb : ∀ t ∈ b, t ∈ tsb)
    (alg : Hash.Algo) (ca cb : Hash.Checksum)
    (hca : calcTxnChecksum a alg = .ok ca) (hcb : calcTxnChecksum b alg = .ok cb)
    (hne : ¬ (C09.uuidsOf a).Perm (C09.uuidsOf b)) (heq : ca.value = cb.value) :
    C09.preimage a ≠ C09.preimage b ∧ alg.digest (C09.preimage a) = alg.digest (C09.preimage b) :=
  loaded_equal_checksum_is_collision sta sta' stb stb' tsa tsb (loaded_of_text cfga sta sta' texta tsa ha)
    (loaded_of_text cfgb stb stb' textb tsb hb) a b hsa hsb alg ca cb hca hcb hne heq

/-! ## 7. C04 — the order in which a text supplies its transactions is immaterial -/

/-- **C04 end to end — `text_order_free`.**  Two texts whose parse trees are permutations of each other (the same
    transactions written in another order), loaded from the same settings: both load or both fail; when they load,
    the loaded lists are permutations of each other, *equal* when the transactions are pairwise distinguishable by
    (instant, code, description, uuid) = `hdrKey`, and — from an ancestor-closed chart in lax mode, as
    `Settings.ofConfig` builds it — the settings after the load have the same switches and the same charts as sets.
    (For files: `C04.shards_free_files`, which has no representation hypothesis.) -/
theorem text_order_free (cfga cfgb : Time.TsCfg) (st : Settings) (ta tb : List Char) (ra rb : List RawTxn)
    (hpa : parseJournal cfga ta = some ra) (hpb : parseJournal cfgb tb = some rb) (hp : ra.Perm rb) :
    (loadText cfga st ta).isOk = (loadText cfgb st tb).isOk ∧
    ∀ la sa lb sb, loadText cfga st ta = .ok (la, sa) → loadText cfgb st tb = .ok (lb, sb) →
      la.Perm lb ∧
      ((∀ a b, a ∈ ra → b ∈ ra → hdrKey a.header = hdrKey b.header → a = b) → la = lb) ∧
      ((st.strict = false → C12.AncClosed st.accounts) →
        AcceptOrder.SameCharts sa sb ∧
        (st.strict = false → C12.AncClosed sa.accounts ∧ C12.AncClosed sb.accounts)) := by
  rw [AcceptOrder.loadText_eq cfga ta ra st hpa (parseJournal_lex cfga ta ra hpa).1,
    AcceptOrder.loadText_eq cfgb tb rb st hpb (parseJournal_lex cfgb tb rb hpb).1]
  have := C04.shards_free st [ra] [rb] (by simpa using hp)
  simpa using this

/-- **text_order_free_values**: … and when the transactions are *not* distinguishable (the loaded lists are then
    only permutations of each other) every balance figure still agrees: the same rows in the same order, the same
    own and tree sums as numbers, and through an account selector that looks at the (commodity, account) key only,
    the same delta lines.  `C04.values_perm` / `report_values_perm` with `PostsWF` discharged. -/
theorem text_order_free_values (cfga cfgb : Time.TsCfg) (st : Settings) (ta tb : List Char) (ra rb : List RawTxn)
    (hpa : parseJournal cfga ta = some ra) (hpb : parseJournal cfgb tb = some rb) (hp : ra.Perm rb)
    (la lb : List Txn) (sa sb : Settings)
    (hla : loadText cfga st ta = .ok (la, sa)) (hlb : loadText cfgb st tb = .ok (lb, sb)) (s1 s2 : Settings) :
    (∀ bal bal', balance s1 (postsOf la) = .ok bal → balance s2 (postsOf lb) = .ok bal' →
      bal.map C04.rowVal = bal'.map C04.rowVal) ∧
    (∀ (sel : BalRow → Bool), (∀ r r' : BalRow, r.key = r'.key → sel r = sel r') →
      ∀ b b', fromIter s1 sel (postsOf la) = .ok b → fromIter s2 sel (postsOf lb) = .ok b' →
        b.rows.map C04.rowVal = b'.rows.map C04.rowVal ∧ b.deltas.map C04.deltaVal = b'.deltas.map C04.deltaVal) := by
  have hperm : la.Perm lb := ((text_order_free cfga cfgb st ta tb ra rb hpa hpb hp).2 la sa lb sb hla hlb).1
  have hwf := text_postsWF cfga st sa ta la hla
  exact ⟨fun bal bal' h1 h2 => C04.load_values_perm s1 s2 la lb hperm hwf bal bal' h1 h2,
    fun sel hsel b b' h1 h2 =>
      C04.report_values_perm s1 s2 sel hsel _ _ (C04.postsOf_perm la lb hperm) hwf b b' h1 h2⟩

/-- **files_order_free_values**: the same for two multi-file loads whose loaded lists are permutations of each other
    (which `C04.shards_free_files` proves for arrangements of the same parse trees). -/
theorem files_order_free_values (cfga cfgb : Time.TsCfg) (sta stb : Settings) (fa fb : List (List Char))
    (la lb : List Txn) (sa sb : Settings)
    (hla : loadFiles cfga sta fa = .ok (la, sa)) (hlb : loadFiles cfgb stb fb = .ok (lb, sb)) (hperm : la.Perm lb)
    (s1 s2 : Settings) :
    (∀ bal bal', balance s1 (postsOf la) = .ok bal → balance s2 (postsOf lb) = .ok bal' →
      bal.map C04.rowVal = bal'.map C04.rowVal) ∧
    (∀ (sel : BalRow → Bool), (∀ r r' : BalRow, r.key = r'.key → sel r = sel r') →
      ∀ b b', fromIter s1 sel (postsOf la) = .ok b → fromIter s2 sel (postsOf lb) = .ok b' →
        b.rows.map C04.rowVal = b'.rows.map C04.rowVal ∧ b.deltas.map C04.deltaVal = b'.deltas.map C04.deltaVal) := by
  have hwf := files_postsWF cfga sta sa fa la hla
  exact ⟨fun bal bal' h1 h2 => C04.load_values_perm s1 s2 la lb hperm hwf bal bal' h1 h2,
    fun sel hsel b b' h1 h2 =>
      C04.report_values_perm s1 s2 sel hsel _ _ (C04.postsOf_perm la lb hperm) hwf b b' h1 h2⟩

/-! ## 8. non-vacuity: a concrete text that loads, and the further hypotheses of the theorems on it

```
2024-01-01 'one                                   2024-01-02 (c2) 'two
 # uuid: 11111111-2222-3333-4444-5555555555ab      e 3.5
 a:b 1.50                                          f
 a:bc 2
 e
```
Two sibling accounts of which one name is a string prefix of the other (`a:b`, `a:bc`), a never-posted ancestor
(`a`), two amount-less last postings, a uuid.  `List.mergeSort` does not evaluate under `decide`, so the text is
evaluated through `acceptText` (`load_of_acceptText`) and the sorts of the report kernels through
`List.mergeSort_of_pairwise` (`C13.fromIter_eval`). -/
namespace Ex

def utc : Time.TsCfg := Time.utcCfg
def lax0 : Settings := Settings.ofConfig false false true [] [] []

def sample : List Char :=
  "2024-01-01 'one\n # uuid: 11111111-2222-3333-4444-5555555555ab\n a:b 1.50\n a:bc 2\n e\n\n2024-01-02 (c2) 'two\n e 3.5\n f\n".toList

/-- the same two transactions written in the other order -/
def swapped : List Char :=
  "2024-01-02 (c2) 'two\n e 3.5\n f\n\n2024-01-01 'one\n # uuid: 11111111-2222-3333-4444-5555555555ab\n a:b 1.50\n a:bc 2\n e\n".toList

def h1 : Header := ⟨⟨1704067200000000000, 0⟩, none, some "one", some "11111111-2222-3333-4444-5555555555ab", none, none, none⟩
def h2 : Header := ⟨⟨1704153600000000000, 0⟩, some "c2", some "two", none, none, none, none⟩
def r1 : RawTxn := ⟨h1, [⟨["a", "b"], ⟨false, 150, 2⟩, none, none⟩, ⟨["a", "bc"], ⟨false, 2, 0⟩, none, none⟩], some (["e"], none)⟩
def r2 : RawTxn := ⟨h2, [⟨["e"], ⟨false, 35, 1⟩, none, none⟩], some (["f"], none)⟩
def mkP (a : Path) (v : Dec) : Posting := ⟨a, "", v, v, false, "", none⟩
def t1 : Txn := ⟨h1, [mkP ["a", "b"] ⟨false, 150, 2⟩, mkP ["a", "bc"] ⟨false, 2, 0⟩, mkP ["e"] ⟨true, 350, 2⟩]⟩
def t2 : Txn := ⟨h2, [mkP ["e"] ⟨false, 35, 1⟩, mkP ["f"] ⟨true, 35, 1⟩]⟩
/-- the settings after the load: every account named, and the ancestor `a`, were created -/
def stAfter : Settings := ⟨false, false, true, [["a", "b"], ["a"], ["a", "bc"], ["e"], ["f"]], [], [""], []⟩

set_option maxRecDepth 40000 in
theorem sample_parses : parseJournal utc sample = some [r1, r2] := by decide

set_option maxRecDepth 40000 in
theorem swapped_parses : parseJournal utc swapped = some [r2, r1] := by decide

theorem sample_accepts : acceptText utc lax0 sample = .ok ([t1, t2], stAfter) := by
  unfold acceptText
  rw [sample_parses]
  decide

/-- **the hypothesis of every theorem of this file is satisfiable**: the text loads (to the implicit amounts
    `e -3.50` and `f -3.5`) -/
theorem sample_loads : loadText utc lax0 sample = .ok ([t1, t2], stAfter) := by
  rw [load_of_acceptText utc lax0 stAfter sample [t1, t2] sample_accepts]
  unfold sortTxns
  rw [List.mergeSort_of_pairwise (by decide)]

/-- written the other way round, the text loads to the same list (`text_order_free`: the two transactions are
    distinguishable, so the loads are equal) -/
theorem swapped_loads : ∃ ts st', loadText utc lax0 swapped = .ok (ts, st') := by
  have h : acceptText utc lax0 swapped
      = .ok ([t2, t1], ⟨false, false, true, [["e"], ["f"], ["a", "b"], ["a"], ["a", "bc"]], [], [""], []⟩) := by
    unfold acceptText
    rw [swapped_parses]
    decide
  exact ⟨_, _, load_of_acceptText utc lax0 _ swapped _ h⟩

example : ∀ ts st', loadText utc lax0 swapped = .ok (ts, st') → ts = [t1, t2] := by
  intro ts st' h
  have := (text_order_free utc utc lax0 sample swapped [r1, r2] [r2, r1] sample_parses swapped_parses
    (List.Perm.swap r2 r1 [])).2 [t1, t2] stAfter ts st' sample_loads h
  refine (this.2.1 ?_).symm
  intro a b ha hb hk
  simp only [List.mem_cons, List.not_mem_nil, or_false] at ha hb
  rcases ha with rfl | rfl <;> rcases hb with rfl | rfl <;> first | rfl | (revert hk; decide)

/-- C01: both transactions are balanced -/
example : ∀ t ∈ [t1, t2], C01.Balanced t := text_accept_balanced utc lax0 stAfter sample [t1, t2] sample_loads

/-- C02: `PostsWF` of its posting stream -/
example : C02.PostsWF (postsOf [t1, t2]) := text_postsWF utc lax0 stAfter sample [t1, t2] sample_loads

def rowsAll : List BalRow := [
  ⟨["a"], "", ⟨false, 0, 0⟩, ⟨false, 350, 2⟩⟩, ⟨["a", "b"], "", ⟨false, 150, 2⟩, ⟨false, 150, 2⟩⟩,
  ⟨["a", "bc"], "", ⟨false, 2, 0⟩, ⟨false, 2, 0⟩⟩, ⟨["e"], "", ⟨false, 0, 2⟩, ⟨false, 0, 2⟩⟩,
  ⟨["f"], "", ⟨true, 35, 1⟩, ⟨true, 35, 1⟩⟩]

/-- the balance report of the loaded text is inside the exact domain: the hypothesis `fromIter … = .ok b` of
    `text_balance_deltas` / `text_delta_zero` (and `balance … = .ok bal` of `text_balance_exact`) is satisfiable -/
theorem sample_fromIter : fromIter stAfter (fun _ => true) (postsOf [t1, t2]) = .ok ⟨rowsAll, [("", ⟨false, 0, 2⟩)]⟩ := by
  rw [C13.fromIter_eval stAfter (fun _ => true) (postsOf [t1, t2])
    [(("", ["a", "b"]), ⟨false, 150, 2⟩), (("", ["a", "bc"]), ⟨false, 2, 0⟩), (("", ["e"]), ⟨false, 0, 2⟩),
     (("", ["f"]), ⟨true, 35, 1⟩)]
    [(("", ["a"]), ⟨false, 0, 0⟩), (("", ["a", "b"]), ⟨false, 150, 2⟩), (("", ["a", "bc"]), ⟨false, 2, 0⟩),
     (("", ["e"]), ⟨false, 0, 2⟩), (("", ["f"]), ⟨true, 35, 1⟩)]
    rowsAll [("", ⟨false, 0, 2⟩)] (by decide) (by decide) (by decide) (by decide) (by decide) (by decide)]
  rfl

theorem sample_balance : balance stAfter (postsOf [t1, t2]) = .ok rowsAll := by
  obtain ⟨bal, hb, hrows⟩ := C13.fromIter_rows _ _ _ _ sample_fromIter
  have : bal = rowsAll := by
    have e : rowsAll = List.filter (fun _ => true) bal := hrows
    rw [e]; exact (List.filter_eq_self.mpr (fun _ _ => rfl)).symm
  rw [← this]; exact hb

/-- `text_balance_exact` on it: e.g. the never-posted ancestor `a` shows 3.50 = 1.50 + 2, the exact sum of the
    postings below it (`a:b`, `a:bc` — not `a:bc` under `a:b`) -/
example : C02.treeSum (postsOf [t1, t2]) ("", ["a"]) = (⟨false, 350, 2⟩ : Dec).units :=
  ((text_balance_exact utc lax0 stAfter sample [t1, t2] sample_loads [t1, t2] (sel_all _) stAfter rowsAll
    sample_balance).2.2 ⟨["a"], "", ⟨false, 0, 0⟩, ⟨false, 350, 2⟩⟩ (by decide)).2.symm

/-- `text_delta_zero_unpriced` on it: the text has no `@`/`=` position, so the delta of the report is zero -/
example : ∀ cd ∈ [(("", ⟨false, 0, 2⟩) : String × Dec)], cd.2.units = 0 :=
  text_delta_zero_unpriced utc lax0 stAfter sample [t1, t2] sample_loads [t1, t2] (sel_all _) stAfter
    (by intro rs hp; rw [sample_parses] at hp; cases hp; decide) _ sample_fromIter

/-- `text_balance_never_errs` applies: `lax0` is built by `Settings.ofConfig` -/
example : balance stAfter (postsOf [t1, t2]) ≠ .err :=
  text_balance_never_errs utc false false true [] [] [] stAfter sample [t1, t2] sample_loads [t1, t2] (sel_all _)

def rrow (a : Path) (v tot : Dec) : RegRow := ⟨mkP a v, tot, "", none⟩

/-- C03: the register of the loaded text is inside the exact domain (the running total of `e` goes -3.50, 0.00) -/
theorem sample_register : register selAll [t1, t2] = .ok [
    ⟨t1, [rrow ["a", "b"] ⟨false, 150, 2⟩ ⟨false, 150, 2⟩, rrow ["a", "bc"] ⟨false, 2, 0⟩ ⟨false, 2, 0⟩,
          rrow ["e"] ⟨true, 350, 2⟩ ⟨true, 350, 2⟩]⟩,
    ⟨t2, [rrow ["e"] ⟨false, 35, 1⟩ ⟨false, 0, 2⟩, rrow ["f"] ⟨true, 35, 1⟩ ⟨true, 35, 1⟩]⟩] := by
  simp [register, registerEngine, plainStream, registerLoop, registerTxn, accPostings, accPosting, noConv,
    List.mergeSort, List.MergeSort.Internal.splitInTwo, itemLe, rowLe, Posting.acctnKey, keyLe, acctName,
    t1, t2, mkP, rrow, RegMap.set, RegMap.empty, RItem.key, Outcome.ofOption, Dec.add, Dec.isZero, sgn, max96]

/-- `text_register_exact` on it: the last running total of `e` (0.00) is its account sum in the balance report -/
example : ∀ k r, C03.lastRow k [rrow ["a", "b"] ⟨false, 150, 2⟩ ⟨false, 150, 2⟩, rrow ["a", "bc"] ⟨false, 2, 0⟩ ⟨false, 2, 0⟩,
      rrow ["e"] ⟨true, 350, 2⟩ ⟨true, 350, 2⟩, rrow ["e"] ⟨false, 35, 1⟩ ⟨false, 0, 2⟩,
      rrow ["f"] ⟨true, 35, 1⟩ ⟨true, 35, 1⟩] = some r → r.total.units = C03.ownSpec [t1, t2] k :=
  (text_register_exact utc lax0 stAfter sample [t1, t2] sample_loads [t1, t2] (sel_all _) _ sample_register).2.2.2

/-- C10: an equity export of the loaded text (accounts `a:b` and `f` selected, equity account `Equity`) is inside
    the exact domain: 1.50 − 3.5 is carried forward with the balancing posting `Equity 2.00` -/
def eqSel : Option (Path → Bool) := some (fun p => p == ["a", "b"] || p == ["f"])

theorem sample_equity : equityExport stAfter eqSel ["Equity"] [] [t1, t2] = .ok [
    ⟨⟨1704153600000000000, 0⟩, "Equity", [],
     [⟨["a", "b"], ⟨false, 150, 2⟩, ""⟩, ⟨["f"], ⟨true, 35, 1⟩, ""⟩, ⟨["Equity"], ⟨false, 200, 2⟩, ""⟩]⟩] := by
  unfold equityExport
  rw [C13.fromIter_eval stAfter (nonZeroSel eqSel) (postsOf [t1, t2])
    [(("", ["a", "b"]), ⟨false, 150, 2⟩), (("", ["a", "bc"]), ⟨false, 2, 0⟩), (("", ["e"]), ⟨false, 0, 2⟩),
     (("", ["f"]), ⟨true, 35, 1⟩)]
    [(("", ["a"]), ⟨false, 0, 0⟩), (("", ["a", "b"]), ⟨false, 150, 2⟩), (("", ["a", "bc"]), ⟨false, 2, 0⟩),
     (("", ["e"]), ⟨false, 0, 2⟩), (("", ["f"]), ⟨true, 35, 1⟩)]
    rowsAll [("", ⟨true, 200, 2⟩)] (by decide) (by decide) (by decide) (by decide) (by decide) (by decide)]
  decide

/-- `text_equity` on it: the generated transaction re-loads under lax settings and is balanced -/
example : ∀ t ∈ [(⟨⟨1704153600000000000, 0⟩, "Equity", [],
      [⟨["a", "b"], ⟨false, 150, 2⟩, ""⟩, ⟨["f"], ⟨true, 35, 1⟩, ""⟩, ⟨["Equity"], ⟨false, 200, 2⟩, ""⟩]⟩ : EqTxn)],
    ∃ s2, acceptTxn lax0 t.toRaw = .ok (C10.toTxn t, s2) ∧ C10.Lax s2 ∧ C01.Balanced (C10.toTxn t) :=
  (text_equity utc lax0 stAfter sample [t1, t2] sample_loads [t1, t2] (sel_all _) stAfter eqSel ["Equity"] [] _
    sample_equity).2.1 lax0 ⟨by decide, by decide, by decide⟩

/-- C13: the balance groups by date (report zone UTC) of the loaded text are inside the exact domain -/
def keyD : Txn → String := groupKey .date (.fixed 0)

theorem sample_candidates : groupCandidates keyD [t1, t2] = [("2024-01-01", [t1]), ("2024-01-02", [t2])] := by
  unfold groupCandidates
  rw [List.mergeSort_of_pairwise (by decide)]
  decide

def bal1 : Balance := ⟨[⟨["a"], "", ⟨false, 0, 0⟩, ⟨false, 350, 2⟩⟩, ⟨["a", "b"], "", ⟨false, 150, 2⟩, ⟨false, 150, 2⟩⟩,
  ⟨["a", "bc"], "", ⟨false, 2, 0⟩, ⟨false, 2, 0⟩⟩, ⟨["e"], "", ⟨true, 350, 2⟩, ⟨true, 350, 2⟩⟩], [("", ⟨false, 0, 2⟩)]⟩
def bal2 : Balance := ⟨[⟨["e"], "", ⟨false, 35, 1⟩, ⟨false, 35, 1⟩⟩, ⟨["f"], "", ⟨true, 35, 1⟩, ⟨true, 35, 1⟩⟩],
  [("", ⟨false, 0, 1⟩)]⟩

theorem sample_bal1 : fromIter stAfter (fun _ => true) (postsOf [t1]) = .ok bal1 := by
  rw [C13.fromIter_eval stAfter (fun _ => true) (postsOf [t1])
    [(("", ["a", "b"]), ⟨false, 150, 2⟩), (("", ["a", "bc"]), ⟨false, 2, 0⟩), (("", ["e"]), ⟨true, 350, 2⟩)]
    [(("", ["a"]), ⟨false, 0, 0⟩), (("", ["a", "b"]), ⟨false, 150, 2⟩), (("", ["a", "bc"]), ⟨false, 2, 0⟩),
     (("", ["e"]), ⟨true, 350, 2⟩)]
    bal1.rows bal1.deltas (by decide) (by decide) (by decide) (by decide) (by decide) (by decide)]
  rfl

theorem sample_bal2 : fromIter stAfter (fun _ => true) (postsOf [t2]) = .ok bal2 := by
  rw [C13.fromIter_eval stAfter (fun _ => true) (postsOf [t2])
    [(("", ["e"]), ⟨false, 35, 1⟩), (("", ["f"]), ⟨true, 35, 1⟩)]
    [(("", ["e"]), ⟨false, 35, 1⟩), (("", ["f"]), ⟨true, 35, 1⟩)]
    bal2.rows bal2.deltas (by decide) (by decide) (by decide) (by decide) (by decide) (by decide)]
  rfl

theorem sample_groups : balanceGroupsBy stAfter (fun _ => true) keyD [t1, t2]
    = .ok [⟨"2024-01-01", bal1⟩, ⟨"2024-01-02", bal2⟩] := by
  unfold balanceGroupsBy
  rw [sample_candidates]
  simp only [groupBalances, sample_bal1, sample_bal2, Outcome.map]
  decide

/-- `text_groups_total` on it: `e` shows -3.50 on the 1st and 3.5 on the 2nd, 0.00 in the overall report -/
example : ([(⟨"2024-01-01", bal1⟩ : BalGroup), ⟨"2024-01-02", bal2⟩].map (fun g => C13.rowOwn g.bal.rows ("", ["e"]))).sum
    = C13.rowOwn rowsAll ("", ["e"]) :=
  (text_groups_total utc lax0 stAfter sample [t1, t2] sample_loads [t1, t2] (sel_all _) stAfter (fun _ => true) keyD
    ("", ["e"])).2 _ _ sample_groups sample_fromIter (fun _ _ => rfl)

/-- `text_groups` on it: in the group of the 1st the ancestor `a` shows the members' postings below it -/
example : ∀ g ∈ [(⟨"2024-01-01", bal1⟩ : BalGroup), ⟨"2024-01-02", bal2⟩], g.bal.rows ≠ [] := by
  intro g hg
  obtain ⟨_, _, _, _, _, hne, _⟩ := (text_groups utc lax0 stAfter sample [t1, t2] sample_loads [t1, t2] (sel_all _)
    stAfter (fun _ => true) keyD _ sample_groups).2.2 g hg
  exact hne

/-- C09: the uuid of the first transaction is canonical, so `Uuid::to_string` is the identity on it … -/
example : uuidToString "11111111-2222-3333-4444-5555555555ab" = "11111111-2222-3333-4444-5555555555ab" :=
  (text_uuid_no_newline utc lax0 stAfter sample [t1, t2] sample_loads t1 (by decide) _ rfl).2.2.2

/-- … and `text_checksum_determines_set` applies to any two selections of the loaded transactions -/
example (tfa tfb : Txn → Bool) (heq : C09.preimage ([t1, t2].filter tfa) = C09.preimage ([t1, t2].filter tfb)) :
    (C09.uuidsOf ([t1, t2].filter tfa)).Perm (C09.uuidsOf ([t1, t2].filter tfb)) :=
  text_checksum_determines_set utc utc lax0 stAfter lax0 stAfter sample sample [t1, t2] [t1, t2] sample_loads sample_loads
    _ _ (sel_filter _ tfa) (sel_filter _ tfb) heq

/-- **multi-file loads** (`paths_to_txns`): the same two transactions in two files, the later one first; the list of
    files loads, so the hypothesis of every `files_*` theorem is satisfiable, e.g. … -/
def fileA : List Char := "2024-01-02 (c2) 'two\n e 3.5\n f\n".toList
def fileB : List Char :=
  "2024-01-01 'one\n # uuid: 11111111-2222-3333-4444-5555555555ab\n a:b 1.50\n a:bc 2\n e\n".toList

set_option maxRecDepth 40000 in
theorem files_load : ∃ ts st', loadFiles utc lax0 [fileA, fileB] = .ok (ts, st') := by
  have h : (mapMS (acceptText utc) lax0 [fileA, fileB]).isOk = true := by decide
  unfold loadFiles
  cases hm : mapMS (acceptText utc) lax0 [fileA, fileB] with
  | ok r => exact ⟨_, _, rfl⟩
  | err => rw [hm] at h; cases h
  | undef => rw [hm] at h; cases h

/-- … every transaction of it is balanced, and its balance never fails -/
example : ∀ ts st', loadFiles utc lax0 [fileA, fileB] = .ok (ts, st') →
    (∀ t ∈ ts, C01.Balanced t) ∧ balance st' (postsOf ts) ≠ .err :=
  fun ts st' h => ⟨files_accept_balanced utc lax0 st' [fileA, fileB] ts h,
    files_balance_never_errs utc false false true [] [] [] st' [fileA, fileB] ts h ts (sel_all _)⟩

/-- the uuid clause is not vacuous for other texts either: an upper-case uuid is read to its canonical text -/
example : (match parseJournal utc "2024-01-01\n # uuid: AAAAAAAA-BBBB-CCCC-DDDD-EEEEEEEEEEFF\n a 1\n b\n".toList with
    | some [r] => r.header.uuid
    | _ => none) = some "aaaaaaaa-bbbb-cccc-dddd-eeeeeeeeeeff" := by decide

end Ex

end E2E
end Tackler

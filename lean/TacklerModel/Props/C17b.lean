import TacklerModel.Model.ReportText
import TacklerModel.Props.C17
import TacklerModel.Props.C03
import TacklerModel.Props.C13
/-!
# C17 (continued) — display only, for the register and the balance-group report (journal level)

`Props/C17.lean` proves the single-figure statements (`shown_value`, `half_away`, …) and `display_only` for the
balance report.  This file lifts `display_only` to the two other text reports, over the engines of
`Model/Register.lean` and `Model/Group.lean` and the text step of `Model/ReportText.lean`:

* `register_report_factors`, `balgrp_report_factors(_by)`: the engine (`register`, `balanceGroups`) has no scale
  argument; the report at *any* scale is the text step applied to the same engine result.
* `register_figures`: every amount / running total of the register engine has a stored scale ≤ 28 (so
  `shown_value` covers every printed figure).
* `register_display_only`: every printed amount is `shown sc` of the posting's own amount, every printed running
  total is `shown sc` of the engine's running total, whose value is the *exact* prefix sum of C03 `running_total`;
  so the printed total denotes the exact prefix sum rounded half away from zero – not a sum of rounded amounts
  (`runningUp_*`: the concrete journal on which the two differ).  Each figure has the precision of its own stored
  scale (`decimalsOf … = getPrecision sc figure`).
* `balgrp_display_only(_by)`: every printed group is `balanceTxt sc` of `Balance::from_iter` of the group's members
  (C13 `group_figures`), and C17 `display_only` holds for it: rows / deltas are the rounded exact figures of the
  members' postings.
-/
namespace Tackler
namespace C17
open Dec Reg

/-! ### the register engine keeps stored scales ≤ 28 -/

/-- every running total kept in the map has a stored scale ≤ 28 -/
def MapScale (m : RegMap) : Prop := ∀ k v, m k = some v → v.scale ≤ 28

theorem mapScale_empty : MapScale RegMap.empty := by
  intro k v h; cases h

theorem mapScale_set (m : RegMap) (k : AKey) (v : Dec) (hm : MapScale m) (hv : v.scale ≤ 28) :
    MapScale (m.set k v) := by
  intro k' v' h
  unfold RegMap.set at h
  split at h
  · cases h; exact hv
  · exact hm k' v' h

theorem accPosting_scale (m m' : RegMap) (it : RItem) (r : RegRow) (hm : MapScale m) (hs : it.amount.scale ≤ 28)
    (h : accPosting m it = some (m', r)) : MapScale m' ∧ r.total.scale ≤ 28 ∧ r.post = it.post := by
  unfold accPosting at h
  split at h
  · cases h
    exact ⟨mapScale_set m _ _ hm hs, hs, rfl⟩
  · rename_i v hv
    split at h
    · cases h
    · rename_i s hadd
      cases h
      have hsc := (Dec.add_units v it.amount s (hm _ _ hv) hs hadd).2
      exact ⟨mapScale_set m _ _ hm hsc, hsc, rfl⟩

theorem accPostings_scale : ∀ (l : List RItem) (m m' : RegMap) (rows : List RegRow),
    MapScale m → (∀ it ∈ l, it.amount.scale ≤ 28) → accPostings m l = some (m', rows) →
    MapScale m' ∧ ∀ r ∈ rows, r.total.scale ≤ 28 ∧ ∃ it ∈ l, r.post = it.post := by
  intro l
  induction l with
  | nil =>
    intro m m' rows hm _ h
    simp only [accPostings] at h
    cases h
    exact ⟨hm, fun r hr => by cases hr⟩
  | cons it rest ih =>
    intro m m' rows hm hl h
    simp only [accPostings] at h
    split at h
    · cases h
    · rename_i m1 r1 h1
      split at h
      · cases h
      · rename_i m2 rs h2
        cases h
        obtain ⟨hm1, hr1, hp1⟩ := accPosting_scale m m1 it r1 hm (hl it List.mem_cons_self) h1
        obtain ⟨hm2, hrs⟩ := ih m1 m' rs hm1 (fun x hx => hl x (List.mem_cons_of_mem _ hx)) h2
        refine ⟨hm2, ?_⟩
        intro r hr
        rcases List.mem_cons.mp hr with rfl | hr
        · exact ⟨hr1, it, List.mem_cons_self, hp1⟩
        · obtain ⟨h28, x, hx, hpx⟩ := hrs r hr
          exact ⟨h28, x, List.mem_cons_of_mem _ hx, hpx⟩

theorem registerLoop_scale (sel : RegRow → Bool) : ∀ (stream : List (Txn × List RItem)) (m : RegMap)
    (es : List RegEntry), MapScale m → C03.StreamWF stream → registerLoop sel m stream = some es →
    ∀ e ∈ es, ∀ r ∈ e.rows, r.total.scale ≤ 28 ∧ ∃ x ∈ stream, ∃ it ∈ x.2, r.post = it.post := by
  intro stream
  induction stream with
  | nil =>
    intro m es _ _ h
    simp only [registerLoop] at h
    cases h
    intro e he; cases he
  | cons x rest ih =>
    obtain ⟨t, items⟩ := x
    intro m es hm hwf h
    simp only [registerLoop] at h
    split at h
    · cases h
    · rename_i m1 e1 h1
      split at h
      · cases h
      · rename_i es1 h2
        cases h
        unfold registerTxn at h1
        split at h1
        · cases h1
        · rename_i m1' rows hacc
          cases h1
          have hit : ∀ it ∈ items.mergeSort itemLe, it.amount.scale ≤ 28 := fun it hi =>
            hwf (t, items) List.mem_cons_self it (List.mem_mergeSort.mp hi)
          obtain ⟨hm1, hrows⟩ := accPostings_scale _ m m1 rows hm hit hacc
          have hrest := ih m1 es1 hm1 (fun y hy => hwf y (List.mem_cons_of_mem _ hy)) h2
          intro e he r hr
          rcases List.mem_cons.mp he with rfl | he
          · have hr' : r ∈ rows := (List.mem_filter.mp (List.mem_mergeSort.mp hr)).1
            obtain ⟨h28, it, hi, hp⟩ := hrows r hr'
            exact ⟨h28, (t, items), List.mem_cons_self, it, List.mem_mergeSort.mp hi, hp⟩
          · obtain ⟨h28, y, hy, it, hi, hp⟩ := hrest e he r hr
            exact ⟨h28, y, List.mem_cons_of_mem _ hy, it, hi, hp⟩

/-- **register_figures**: every figure the register engine hands to the writer – the posting's own amount and the
    running total of every listed row – has a stored scale ≤ 28, for every selector -/
theorem register_figures (sel : RegRow → Bool) (txns : List Txn) (es : List RegEntry) (hwf : C03.TxnsWF txns)
    (h : register sel txns = .ok es) :
    ∀ e ∈ es, ∀ r ∈ e.rows, r.post.amount.scale ≤ 28 ∧ r.total.scale ≤ 28 := by
  have hl := C03.registerEngine_ok sel (plainStream txns) es h
  have hs := registerLoop_scale sel (plainStream txns) RegMap.empty es mapScale_empty
    (C03.plainStream_wf txns hwf) hl
  intro e he r hr
  obtain ⟨h28, x, hx, it, hi, hp⟩ := hs e he r hr
  refine ⟨?_, h28⟩
  simp only [plainStream, List.mem_map] at hx
  obtain ⟨t, ht, rfl⟩ := hx
  simp only [noConv, List.mem_map] at hi
  obtain ⟨p, hpp, rfl⟩ := hi
  rw [hp]
  exact hwf t ht p hpp

/-! ### the register report: display only -/

/-- the scale enters after the engine: `register : (RegRow → Bool) → List Txn → Outcome (List RegEntry)` has no
    scale argument, and the report at *any* scale is `registerTxt` of the same entries -/
theorem register_report_factors (sel : RegRow → Bool) (txns : List Txn) (sc : Scale) (t : List ShownRegEntry)
    (h : registerReport sc sel txns = .ok t) :
    ∃ es, register sel txns = .ok es ∧ t = registerTxt sc es ∧
      ∀ sc', registerReport sc' sel txns = .ok (registerTxt sc' es) := by
  unfold registerReport at h
  obtain ⟨es, hes, rfl⟩ := (Outcome.map_ok _ _ _).mp h
  refine ⟨es, hes, rfl, ?_⟩
  intro sc'
  unfold registerReport
  rw [hes]; rfl

/-- the tokens of the two figure columns: `amount_to_string`'s leading blank is layout -/
theorem regRowTxt_cols (sc : Scale) (r : RegRow) :
    (regRowTxt sc r).amount.toList = (regRowCols sc r).1.dropWhile (· == ' ') ∧
    (regRowTxt sc r).total.toList = (regRowCols sc r).2.dropWhile (· == ' ') := by
  unfold regRowTxt regRowCols
  simp only [shown_toList, amountToString_strip, and_self]

/-- **C17 (4) display only, register report.**  For every selector and every scale: the report is `registerTxt sc`
    of the entries `es` of the engine, which is computed without the scale (the same `es` serves every scale
    `sc'`); the written entries are those with a listed row, in order; every line prints `shown sc` of the
    posting's own amount and `shown sc` of the engine's running total, each with the precision of *its own*
    stored scale; the printed amount denotes the posting's exact amount rounded half away from zero to `max`
    decimals, and the printed running total denotes the **exact running total of C03** (all postings to the same
    (commodity, account) in the transactions before, plus those of this transaction at in-entry positions `≤ j`,
    hidden rows included) rounded half away from zero – one rounding of the exact sum, never a sum of rounded
    amounts. -/
theorem register_display_only (sel : RegRow → Bool) (txns : List Txn) (sc : Scale) (t : List ShownRegEntry)
    (hwf : sc.WF) (htx : C03.TxnsWF txns) (h : registerReport sc sel txns = .ok t) :
    ∃ es, register sel txns = .ok es
      ∧ (∀ sc', registerReport sc' sel txns = .ok (registerTxt sc' es))
      ∧ t = (es.filter (fun e => !e.rows.isEmpty)).map (fun e =>
          ⟨e.txn, e.rows.map (fun r => ⟨r.post.acct, r.comm, shown sc r.post.amount, shown sc r.total⟩)⟩)
      ∧ es.length = txns.length
      ∧ ∀ i e, es[i]? = some e → ∃ tx, txns[i]? = some tx ∧ e.txn = tx ∧
          ∀ r ∈ e.rows, sel r = true ∧ ∃ j p, (C03.sortedPosts tx)[j]? = some p ∧ r.post = p ∧ r.comm = p.comm ∧
            valueOfShown (shown sc r.post.amount).toList = roundHalfAway (28 - sc.max) p.amount.units ∧
            decimalsOf (shown sc r.post.amount).toList = sc.getPrecision r.post.amount ∧
            valueOfShown (shown sc r.total).toList = roundHalfAway (28 - sc.max)
              (C03.postSum p.acctnKey ((txns.take i).flatMap (·.posts))
                + C03.postSum p.acctnKey ((C03.sortedPosts tx).take (j + 1))) ∧
            decimalsOf (shown sc r.total).toList = sc.getPrecision r.total := by
  obtain ⟨es, hes, rfl, hall⟩ := register_report_factors sel txns sc t h
  have hfig := register_figures sel txns es htx hes
  have hrun := C03.running_total_selected sel txns es htx hes
  refine ⟨es, hes, hall, rfl, hrun.1, ?_⟩
  intro i e hi
  obtain ⟨tx, htxi, hetx, hrows⟩ := hrun.2 i e hi
  refine ⟨tx, htxi, hetx, ?_⟩
  intro r hr
  obtain ⟨hsel, j, p, hp, hrp, hrc, htot⟩ := hrows r hr
  have he : e ∈ es := List.mem_of_getElem? hi
  obtain ⟨ha28, ht28⟩ := hfig e he r hr
  have hva := shown_value sc r.post.amount ha28 hwf
  have hvt := shown_value sc r.total ht28 hwf
  refine ⟨hsel, j, p, hp, hrp, hrc, ?_, ?_, ?_, ?_⟩
  · rw [shown_toList, hva.1, hrp]
  · rw [shown_toList, hva.2]
  · rw [shown_toList, hvt.1, htot]
  · rw [shown_toList, hvt.2]

/-- every printed register figure obeys the single-figure statements: between `min` and `max` decimals, and at most
    half a unit of the last shown digit away from the exact figure -/
theorem register_decimals_error (sel : RegRow → Bool) (txns : List Txn) (sc : Scale) (es : List RegEntry)
    (hwf : sc.WF) (htx : C03.TxnsWF txns) (h : register sel txns = .ok es) :
    ∀ e ∈ es, ∀ r ∈ e.rows,
      (sc.min ≤ decimalsOf (shown sc r.post.amount).toList ∧ decimalsOf (shown sc r.post.amount).toList ≤ sc.max) ∧
      (sc.min ≤ decimalsOf (shown sc r.total).toList ∧ decimalsOf (shown sc r.total).toList ≤ sc.max) ∧
      2 * (valueOfShown (shown sc r.post.amount).toList - r.post.amount.units).natAbs ≤ 10 ^ (28 - sc.max) ∧
      2 * (valueOfShown (shown sc r.total).toList - r.total.units).natAbs ≤ 10 ^ (28 - sc.max) := by
  intro e he r hr
  obtain ⟨ha28, ht28⟩ := register_figures sel txns es htx h e he r hr
  rw [shown_toList, shown_toList]
  exact ⟨decimals_bounds sc _ hwf, decimals_bounds sc _ hwf, half_away_error sc _ ha28 hwf,
    half_away_error sc _ ht28 hwf⟩

/-! ### the balance-group report: display only -/

/-- the scale enters after the engine (`balanceGroupsBy` has no scale argument): one engine result serves every
    scale -/
theorem balgrp_report_factors_by (st : Settings) (sel : BalRow → Bool) (key : Txn → String) (txns : List Txn)
    (sc : Scale) (t : List GroupText) (h : balgrpReportBy st sel key sc txns = .ok t) :
    ∃ gs, balanceGroupsBy st sel key txns = .ok gs ∧ t = balgrpTxt sc gs ∧
      ∀ sc', balgrpReportBy st sel key sc' txns = .ok (balgrpTxt sc' gs) := by
  unfold balgrpReportBy at h
  obtain ⟨gs, hgs, rfl⟩ := (Outcome.map_ok _ _ _).mp h
  refine ⟨gs, hgs, rfl, ?_⟩
  intro sc'
  unfold balgrpReportBy
  rw [hgs]; rfl

/-- the same for the report with the period key of `get_group_by_op` -/
theorem balgrp_report_factors (st : Settings) (sel : BalRow → Bool) (g : GroupBy) (tz : Time.JournalTz)
    (txns : List Txn) (sc : Scale) (t : List GroupText) (h : balgrpReport st sel g tz sc txns = .ok t) :
    ∃ gs, balanceGroups st sel g tz txns = .ok gs ∧ t = balgrpTxt sc gs ∧
      (∀ sc', balgrpReport st sel g tz sc' txns = .ok (balgrpTxt sc' gs)) ∧
      balgrpReportBy st sel (groupKey g tz) sc txns = .ok t := by
  unfold balgrpReport at h
  obtain ⟨gs, hgs, rfl⟩ := (Outcome.map_ok _ _ _).mp h
  refine ⟨gs, hgs, rfl, ?_, ?_⟩
  · intro sc'
    unfold balgrpReport
    rw [hgs]; rfl
  · unfold balgrpReportBy
    rw [(C13.balanceGroups_ok st sel g tz txns gs hgs).2]; rfl

theorem postsOf_scale (txns : List Txn) (hwf : C03.TxnsWF txns) : ∀ p ∈ postsOf txns, p.amount.scale ≤ 28 := by
  intro p hp
  simp only [postsOf, List.mem_flatMap, List.mem_map] at hp
  obtain ⟨t, ht, q, hq, rfl⟩ := hp
  exact hwf t ht q hq

/-- **C17 (4) display only, balance-group report** (any key function).  The report is `balgrpTxt sc` of the groups
    `gs` of the engine, which is computed without the scale (the same `gs` serves every scale `sc'`); every printed
    group is, by C13 `group_figures`, the balance (`Balance::from_iter`) of the transactions whose key is its title,
    its text is exactly the *balance report* of those members at the scale, and C17 `display_only` holds for it:
    every row figure denotes the exact account / tree sum rounded half away from zero, every delta the rounded
    *exact* sum of the unrounded account sums of its commodity. -/
theorem balgrp_display_only_by (st : Settings) (sel : BalRow → Bool) (key : Txn → String) (txns : List Txn)
    (sc : Scale) (t : List GroupText) (hwf : sc.WF) (htx : C03.TxnsWF txns)
    (h : balgrpReportBy st sel key sc txns = .ok t) :
    ∃ gs, balanceGroupsBy st sel key txns = .ok gs
      ∧ (∀ sc', balgrpReportBy st sel key sc' txns = .ok (balgrpTxt sc' gs))
      ∧ t = gs.map (fun g => ⟨g.title, balanceTxt sc g.bal⟩)
      ∧ ∀ g ∈ gs, ∃ members, members = txns.filter (fun tx => decide (key tx = g.title))
          ∧ fromIter st sel (postsOf members) = .ok g.bal
          ∧ (∀ sc', balanceReport st sel sc' (postsOf members) = .ok (balanceTxt sc' g.bal))
          ∧ (balanceTxt sc g.bal).rows = g.bal.rows.map (fun r => ⟨r.acct, r.comm, shown sc r.own, shown sc r.tree⟩)
          ∧ (balanceTxt sc g.bal).deltas = g.bal.deltas.map (fun cd => (cd.1, shown sc cd.2))
          ∧ (∀ r ∈ g.bal.rows,
              valueOfShown (shown sc r.own).toList = roundHalfAway (28 - sc.max) r.own.units ∧
              valueOfShown (shown sc r.tree).toList = roundHalfAway (28 - sc.max) r.tree.units)
          ∧ (∀ cd ∈ g.bal.deltas, ∃ c, (cd.1, c) ∈ chunkBy (·.comm) g.bal.rows ∧ (∀ r ∈ c, r ∈ g.bal.rows) ∧
              valueOfShown (shown sc cd.2).toList = roundHalfAway (28 - sc.max) (c.map (·.own.units)).sum) := by
  obtain ⟨gs, hgs, rfl, hall⟩ := balgrp_report_factors_by st sel key txns sc t h
  refine ⟨gs, hgs, hall, rfl, ?_⟩
  intro g hg
  obtain ⟨members, _, hmem, hfi, _⟩ := C13.group_figures st sel key txns gs hgs g hg
  have hsub : C03.TxnsWF members := by
    intro tx htxm
    rw [hmem] at htxm
    exact htx tx (List.mem_filter.mp htxm).1
  have hrep : balanceReport st sel sc (postsOf members) = .ok (balanceTxt sc g.bal) := by
    unfold balanceReport; rw [hfi]; rfl
  obtain ⟨b, hb, hall', hr, hd, hrows, hdel⟩ :=
    display_only st sel (postsOf members) sc (balanceTxt sc g.bal) hwf (postsOf_scale members hsub) hrep
  have hbg : b = g.bal := by
    rw [hfi] at hb; cases hb; rfl
  subst hbg
  exact ⟨members, hmem, hfi, hall', hr, hd, hrows, hdel⟩

/-- **C17 (4) display only, balance-group report** with the period key of the report (all five group-by settings,
    report zone as a fixed offset or a zone table inside its window) -/
theorem balgrp_display_only (st : Settings) (sel : BalRow → Bool) (g : GroupBy) (tz : Time.JournalTz)
    (txns : List Txn) (sc : Scale) (t : List GroupText) (hwf : sc.WF) (htx : C03.TxnsWF txns)
    (h : balgrpReport st sel g tz sc txns = .ok t) :
    ∃ gs, balanceGroups st sel g tz txns = .ok gs
      ∧ (∀ sc', balgrpReport st sel g tz sc' txns = .ok (balgrpTxt sc' gs))
      ∧ t = gs.map (fun gr => ⟨gr.title, balanceTxt sc gr.bal⟩)
      ∧ ∀ gr ∈ gs, ∃ members, members = txns.filter (fun tx => decide (groupKey g tz tx = gr.title))
          ∧ fromIter st sel (postsOf members) = .ok gr.bal
          ∧ (∀ sc', balanceReport st sel sc' (postsOf members) = .ok (balanceTxt sc' gr.bal))
          ∧ (∀ r ∈ gr.bal.rows,
              valueOfShown (shown sc r.own).toList = roundHalfAway (28 - sc.max) r.own.units ∧
              valueOfShown (shown sc r.tree).toList = roundHalfAway (28 - sc.max) r.tree.units)
          ∧ (∀ cd ∈ gr.bal.deltas, ∃ c, (cd.1, c) ∈ chunkBy (·.comm) gr.bal.rows ∧ (∀ r ∈ c, r ∈ gr.bal.rows) ∧
              valueOfShown (shown sc cd.2).toList = roundHalfAway (28 - sc.max) (c.map (·.own.units)).sum) := by
  obtain ⟨gs, hgs, rfl, hall, hby⟩ := balgrp_report_factors st sel g tz txns sc t h
  obtain ⟨gs', hgs', _, _, hfig⟩ := balgrp_display_only_by st sel (groupKey g tz) txns sc _ hwf htx hby
  have heq : gs' = gs := by
    rw [(C13.balanceGroups_ok st sel g tz txns gs hgs).2] at hgs'; cases hgs'; rfl
  subst heq
  refine ⟨gs', hgs, hall, rfl, ?_⟩
  intro gr hgr
  obtain ⟨members, hmem, hfi, hall', _, _, hrows, hdel⟩ := hfig gr hgr
  exact ⟨members, hmem, hfi, hall', hrows, hdel⟩

/-! ### non-vacuity and the journal on which "rounded exact total" and "sum of rounded amounts" differ -/

def mkPost (a : String) (x : Dec) : Posting := ⟨[a], "", x, x, false, "", none⟩
def mkTxn (ns : Int) (posts : List Posting) : Txn := ⟨⟨⟨ns, 0⟩, none, none, none, none, none, none⟩, posts⟩

/-- **Amounts round up, the running total rounds down.**  Two transactions, each ` a 0.006 / b -0.006`. -/
def runningUp : List Txn :=
  [mkTxn 0 [mkPost "a" (dec false 6 3), mkPost "b" (dec true 6 3)],
   mkTxn 1 [mkPost "a" (dec false 6 3), mkPost "b" (dec true 6 3)]]

def regRow (a : String) (x tot : Dec) : RegRow := ⟨mkPost a x, tot, "", none⟩

/-- the engine: exact running totals 0.006, 0.012 and -0.006, -0.012 -/
theorem runningUp_register : register selAll runningUp = .ok [
    ⟨mkTxn 0 [mkPost "a" (dec false 6 3), mkPost "b" (dec true 6 3)],
      [regRow "a" (dec false 6 3) (dec false 6 3), regRow "b" (dec true 6 3) (dec true 6 3)]⟩,
    ⟨mkTxn 1 [mkPost "a" (dec false 6 3), mkPost "b" (dec true 6 3)],
      [regRow "a" (dec false 6 3) (dec false 12 3), regRow "b" (dec true 6 3) (dec true 12 3)]⟩] := by
  simp [register, registerEngine, plainStream, registerLoop, registerTxn, accPostings, accPosting, noConv,
    List.mergeSort, List.MergeSort.Internal.splitInTwo, itemLe, rowLe, Posting.acctnKey, keyLe, acctName,
    runningUp, mkTxn, mkPost, regRow, dec, RegMap.set, RegMap.empty, RItem.key, Outcome.ofOption, Dec.add,
    Dec.isZero, sgn, max96]

example : C03.TxnsWF runningUp := by
  intro t ht p hp
  simp [runningUp] at ht
  rcases ht with rfl | rfl <;> simp [mkTxn] at hp <;> rcases hp with rfl | rfl <;> simp [mkPost, dec]

/-- at scale 2..2 every amount is shown as ±0.01 and **every running total as ±0.01**: the second total is the exact
    0.012 rounded (0.01), not the sum 0.02 of the two shown amounts -/
theorem runningUp_report : (registerReport ⟨2, 2⟩ selAll runningUp).map
      (fun es => es.map (fun e => e.rows.map (fun r => (r.amount.toList, r.total.toList))))
    = .ok [[("0.01".toList, "0.01".toList), ("-0.01".toList, "-0.01".toList)],
           [("0.01".toList, "0.01".toList), ("-0.01".toList, "-0.01".toList)]] := by
  unfold registerReport
  rw [runningUp_register]
  simp only [Outcome.map, registerTxt, printedEntries, regRow, mkPost]
  decide

/-- the shown total is not the sum of the shown amounts … -/
example : valueOfShown "0.01".toList + valueOfShown "0.01".toList ≠ valueOfShown "0.01".toList := by decide
/-- … it is the exact prefix sum 0.006 + 0.006 rounded once (`register_display_only`) -/
example : valueOfShown (shownChars ⟨2, 2⟩ (dec false 12 3)) = roundHalfAway 26 (6 * 10 ^ 25 + 6 * 10 ^ 25) := by decide
example : roundHalfAway 26 (6 * 10 ^ 25) + roundHalfAway 26 (6 * 10 ^ 25) ≠ roundHalfAway 26 (6 * 10 ^ 25 + 6 * 10 ^ 25) := by
  decide
/-- the other way round: amounts 0.004 round down, their exact total 0.008 rounds up -/
example : roundHalfAway 26 (4 * 10 ^ 25) + roundHalfAway 26 (4 * 10 ^ 25) = 0 ∧
    roundHalfAway 26 (4 * 10 ^ 25 + 4 * 10 ^ 25) = 10 ^ 26 := by decide

/-- each figure has its *own* precision: at scale 2..4 the amount 0.5 (stored scale 1) is padded to `0.50` while the
    running total 0.125 + 0.5 = 0.625 (stored scale 3) is shown with 3 decimals -/
example : regRowTxt ⟨2, 4⟩ (regRow "a" (dec false 5 1) (dec false 625 3))
    = ⟨["a"], "", "0.50", "0.625"⟩ := by decide
/-- a running total that returns to zero keeps the larger stored scale and no sign: `0.00`; a negative total that
    rounds to zero loses its sign -/
example : Dec.add (dec false 4 3) (dec true 4 3) = some (dec false 0 3) := by decide
example : regRowTxt ⟨2, 2⟩ (regRow "a" (dec true 4 3) (dec false 0 3)) = ⟨["a"], "", "0.00", "0.00"⟩ := by decide
example : regRowTxt ⟨2, 2⟩ (regRow "a" (dec true 3 3) (dec true 4 3)) = ⟨["a"], "", "0.00", "0.00"⟩ := by decide
/-- the column text of a wide non-negative figure starts with a blank, its token is the figure -/
example : (regRowCols ⟨28, 28⟩ (regRow "a" (dec false 1 0) (dec true 1 0))).1 = (' ' :: "1.".toList) ++ List.replicate 28 '0'
    ∧ ((regRowCols ⟨28, 28⟩ (regRow "a" (dec false 1 0) (dec true 1 0))).2).head? = some '-' := by decide
/-- an entry without a listed row is not written -/
example : registerTxt ⟨2, 2⟩ [⟨mkTxn 0 [], []⟩, ⟨mkTxn 1 [], [regRow "a" (dec false 1 0) (dec false 1 0)]⟩]
    = [⟨mkTxn 1 [], [⟨["a"], "", "1.00", "1.00"⟩]⟩] := by decide

/-- a balance group is printed like a balance report: `partsUp` as a group -/
example : balgrpTxt ⟨2, 2⟩ [⟨"2024-01", partsUp⟩]
    = [⟨"2024-01", ⟨[⟨["p", "c1"], "", "0.01", "0.01"⟩, ⟨["p", "c2"], "", "0.01", "0.01"⟩], [("", "0.01")]⟩⟩] := by decide

end C17
end Tackler

import TacklerModel.Model.Filter
/-!
# C05 — transaction filters select exactly the transactions their definition describes

`Sat m f t` is the *documented* predicate of a filter definition (tackler-api/src/filters/** doc
comments, TEP-1005/1010), written independently of `Filter.eval` in terms of plain propositions over
the value layer (`Dec.units`, instants).  `eval_sat` relates the transliterated evaluator to it for
every filter tree; the remaining theorems are the clauses of the property statement.
`m pattern haystack` is the whole-string regex match (parameter; see C11/C18 for its meaning).
-/
namespace Tackler
namespace C05

/-! ### specification -/

/-- inclusive bounding box on the value layer; wraps over the antimeridian only when west > east -/
def InBox2 (south west north east : Dec) (g : Geo) : Prop :=
  south.units ≤ g.lat.units ∧ g.lat.units ≤ north.units ∧
  (if east.units < west.units then (west.units ≤ g.lon.units ∨ g.lon.units ≤ east.units)
   else (west.units ≤ g.lon.units ∧ g.lon.units ≤ east.units))

mutual
def Sat (m : String → String → Bool) : Filter → Txn → Prop
  | .tt, _ => True
  | .ff, _ => False
  | .and fs, t => SatAll m fs t
  | .or fs, t => SatAny m fs t
  | .not f, t => ¬ Sat m f t
  | .tsBegin b, t => b ≤ t.header.ts.ns                       -- begin inclusive
  | .tsEnd e, t => t.header.ts.ns < e                          -- end exclusive
  | .code re, t => ∃ c, t.header.code = some c ∧ m re c = true
  | .desc re, t => ∃ d, t.header.desc = some d ∧ m re d = true
  | .uuid u, t => t.header.uuid = some u
  | .bbox s w n e, t => ∃ g, t.header.location = some g ∧ InBox2 s w n e g
  | .bbox3 s w d n e h, t => ∃ g z, t.header.location = some g ∧ g.alt = some z ∧ InBox2 s w n e g ∧
      d.units ≤ z.units ∧ z.units ≤ h.units
  | .tags re, t => ∃ ts, t.header.tags = some ts ∧ ∃ x ∈ ts, m re x = true
  | .comments re, t => ∃ cs, t.header.comments = some cs ∧ ∃ x ∈ cs, m re x = true
  | .postAccount re, t => ∃ p ∈ t.posts, m re (acctName p.acct) = true
  | .postComment re, t => ∃ p ∈ t.posts, ∃ c, p.comment = some c ∧ m re c = true
  | .postAmountEq re x, t => ∃ p ∈ t.posts, p.amount.units = x.units ∧ m re (acctName p.acct) = true
  | .postAmountLess re x, t => ∃ p ∈ t.posts, p.amount.units < x.units ∧ m re (acctName p.acct) = true
  | .postAmountGreater re x, t => ∃ p ∈ t.posts, x.units < p.amount.units ∧ m re (acctName p.acct) = true
  | .postCommodity re, t => ∃ p ∈ t.posts, m re p.comm = true
def SatAll (m : String → String → Bool) : List Filter → Txn → Prop
  | [], _ => True
  | f :: fs, t => Sat m f t ∧ SatAll m fs t
def SatAny (m : String → String → Bool) : List Filter → Txn → Prop
  | [], _ => False
  | f :: fs, t => Sat m f t ∨ SatAny m fs t
end

theorem satAll_iff (m : String → String → Bool) (t : Txn) : ∀ fs, SatAll m fs t ↔ ∀ f ∈ fs, Sat m f t
  | [] => by simp [SatAll]
  | f :: fs => by simp [SatAll, satAll_iff m t fs]

theorem satAny_iff (m : String → String → Bool) (t : Txn) : ∀ fs, SatAny m fs t ↔ ∃ f ∈ fs, Sat m f t
  | [] => by simp [SatAny]
  | f :: fs => by simp [SatAny, satAny_iff m t fs]

/-! ### evaluator = specification -/

theorem inBox2_iff (s w n e : Dec) (g : Geo) : inBox2 s w n e g = true ↔ InBox2 s w n e g := by
  unfold inBox2 InBox2
  by_cases h : e.units < w.units
  · have hw : Dec.leVal w e = false := by simp [Dec.leVal]; omega
    rw [hw]
    simp only [Bool.false_eq_true, if_false, h, if_true, Dec.leVal, Bool.and_eq_true, Bool.or_eq_true,
      decide_eq_true_eq, and_assoc]
  · have hw : Dec.leVal w e = true := by simp [Dec.leVal]; omega
    rw [hw]
    simp only [if_true, h, if_false, Dec.leVal, Bool.and_eq_true, decide_eq_true_eq, and_assoc]

theorem optAny_iff {α} (o : Option α) (p : α → Bool) : optAny o p = true ↔ ∃ a, o = some a ∧ p a = true := by
  cases o <;> simp [optAny]

mutual
/-- **C05 main theorem**: for every filter tree and transaction, the evaluator says yes exactly when
    the documented predicate holds -/
theorem eval_sat (m : String → String → Bool) : ∀ (f : Filter) (t : Txn), Filter.eval m f t = true ↔ Sat m f t
  | .tt, t => by simp [Filter.eval, Sat]
  | .ff, t => by simp [Filter.eval, Sat]
  | .and fs, t => by simp only [Filter.eval, Sat]; exact evalAll_sat m fs t
  | .or fs, t => by simp only [Filter.eval, Sat]; exact evalAny_sat m fs t
  | .not f, t => by
      simp only [Filter.eval, Sat, Bool.not_eq_true']
      rw [← eval_sat m f t]; simp
  | .tsBegin b, t => by simp [Filter.eval, Sat]
  | .tsEnd e, t => by simp [Filter.eval, Sat]
  | .code re, t => by simp [Filter.eval, Sat, optAny_iff]
  | .desc re, t => by simp [Filter.eval, Sat, optAny_iff]
  | .uuid u, t => by simp [Filter.eval, Sat, optAny_iff]
  | .bbox s w n e, t => by simp [Filter.eval, Sat, optAny_iff, inBox2_iff]
  | .bbox3 s w d n e h, t => by
      simp only [Filter.eval, Sat, optAny_iff, Bool.and_eq_true, inBox2_iff, Dec.leVal, decide_eq_true_eq]
      constructor
      · rintro ⟨g, hg, hb, z, hz, h1, h2⟩; exact ⟨g, z, hg, hz, hb, h1, h2⟩
      · rintro ⟨g, z, hg, hz, hb, h1, h2⟩; exact ⟨g, hg, hb, z, hz, h1, h2⟩
  | .tags re, t => by simp [Filter.eval, Sat, optAny_iff]
  | .comments re, t => by simp [Filter.eval, Sat, optAny_iff]
  | .postAccount re, t => by simp [Filter.eval, Sat]
  | .postComment re, t => by simp [Filter.eval, Sat, optAny_iff]
  | .postAmountEq re x, t => by simp [Filter.eval, Sat, Dec.eqVal]
  | .postAmountLess re x, t => by simp [Filter.eval, Sat, Dec.ltVal]
  | .postAmountGreater re x, t => by simp [Filter.eval, Sat, Dec.ltVal]
  | .postCommodity re, t => by simp [Filter.eval, Sat]
theorem evalAll_sat (m : String → String → Bool) : ∀ (fs : List Filter) (t : Txn), Filter.evalAll m fs t = true ↔ SatAll m fs t
  | [], t => by simp [Filter.evalAll, SatAll]
  | f :: fs, t => by simp [Filter.evalAll, SatAll, eval_sat m f t, evalAll_sat m fs t]
theorem evalAny_sat (m : String → String → Bool) : ∀ (fs : List Filter) (t : Txn), Filter.evalAny m fs t = true ↔ SatAny m fs t
  | [], t => by simp [Filter.evalAny, SatAny]
  | f :: fs, t => by simp [Filter.evalAny, SatAny, eval_sat m f t, evalAny_sat m fs t]
end

/-! ### clauses of the property -/

theorem evalAll_eq (m : String → String → Bool) (t : Txn) : ∀ fs, Filter.evalAll m fs t = fs.all (fun f => Filter.eval m f t)
  | [] => rfl
  | f :: fs => by simp [Filter.evalAll, evalAll_eq m t fs]

theorem evalAny_eq (m : String → String → Bool) (t : Txn) : ∀ fs, Filter.evalAny m fs t = fs.any (fun f => Filter.eval m f t)
  | [] => rfl
  | f :: fs => by simp [Filter.evalAny, evalAny_eq m t fs]

/-- AND / OR / NOT compose as Boolean connectives (empty AND = true, empty OR = false) -/
theorem and_or_not (m : String → String → Bool) (fs : List Filter) (f : Filter) (t : Txn) :
    Filter.eval m (.and fs) t = fs.all (fun f => Filter.eval m f t) ∧
    Filter.eval m (.or fs) t = fs.any (fun f => Filter.eval m f t) ∧
    Filter.eval m (.not f) t = !Filter.eval m f t := by
  refine ⟨?_, ?_, ?_⟩
  · simp [Filter.eval, evalAll_eq]
  · simp [Filter.eval, evalAny_eq]
  · simp [Filter.eval]

/-- time windows are begin-inclusive, end-exclusive on the instant -/
theorem ts_half_open (m : String → String → Bool) (b e : Int) (t : Txn) :
    Filter.eval m (.and [.tsBegin b, .tsEnd e]) t = true ↔ b ≤ t.header.ts.ns ∧ t.header.ts.ns < e := by
  simp [Filter.eval, Filter.evalAll]

/-- the offset a timestamp was written with plays no role -/
theorem ts_offset_irrelevant (m : String → String → Bool) (f : Filter) (t t' : Txn)
    (h : t' = { t with header := { t.header with ts := ⟨t.header.ts.ns, 0⟩ } }) (b : Int) :
    Filter.eval m (.tsBegin b) t = Filter.eval m (.tsBegin b) t' ∧
    Filter.eval m (.tsEnd b) t = Filter.eval m (.tsEnd b) t' := by
  subst h; simp [Filter.eval]

/-- posting filters need the account pattern and the amount condition on the *same* posting -/
theorem posting_same (m : String → String → Bool) (re : String) (x : Dec) (t : Txn) :
    (Filter.eval m (.postAmountEq re x) t = true ↔
        ∃ p ∈ t.posts, m re (acctName p.acct) = true ∧ p.amount.units = x.units) ∧
    (Filter.eval m (.postAmountLess re x) t = true ↔
        ∃ p ∈ t.posts, m re (acctName p.acct) = true ∧ p.amount.units < x.units) ∧
    (Filter.eval m (.postAmountGreater re x) t = true ↔
        ∃ p ∈ t.posts, m re (acctName p.acct) = true ∧ x.units < p.amount.units) := by
  refine ⟨?_, ?_, ?_⟩ <;> simp [Filter.eval, Dec.eqVal, Dec.ltVal, and_comm]

/-- bounding boxes are inclusive, wrap only when west > east, never match without a location -/
theorem bbox_spec (m : String → String → Bool) (s w n e : Dec) (t : Txn) :
    Filter.eval m (.bbox s w n e) t = true ↔
      ∃ g, t.header.location = some g ∧ s.units ≤ g.lat.units ∧ g.lat.units ≤ n.units ∧
        (if e.units < w.units then w.units ≤ g.lon.units ∨ g.lon.units ≤ e.units
         else w.units ≤ g.lon.units ∧ g.lon.units ≤ e.units) := by
  rw [eval_sat]; simp [Sat, InBox2]

theorem bbox_no_location (m : String → String → Bool) (s w n e d h : Dec) (t : Txn) (hl : t.header.location = none) :
    Filter.eval m (.bbox s w n e) t = false ∧ Filter.eval m (.bbox3 s w d n e h) t = false := by
  simp [Filter.eval, hl, optAny]

/-- the 3-D filter never matches a point without altitude -/
theorem bbox3d_no_altitude (m : String → String → Bool) (s w n e d h : Dec) (t : Txn) (g : Geo)
    (hl : t.header.location = some g) (ha : g.alt = none) : Filter.eval m (.bbox3 s w d n e h) t = false := by
  simp [Filter.eval, hl, optAny, ha]

theorem bbox3d_spec (m : String → String → Bool) (s w d n e h : Dec) (t : Txn) :
    Filter.eval m (.bbox3 s w d n e h) t = true ↔
      ∃ g z, t.header.location = some g ∧ g.alt = some z ∧ InBox2 s w n e g ∧ d.units ≤ z.units ∧ z.units ≤ h.units := by
  rw [eval_sat]; simp [Sat]

/-- a degenerate box (west = east) matches only that meridian (regression of F3) -/
theorem bbox_degenerate (m : String → String → Bool) (s w n : Dec) (t : Txn) (g : Geo)
    (hl : t.header.location = some g) (hne : g.lon.units ≠ w.units) : Filter.eval m (.bbox s w n w) t = false := by
  cases hb : Filter.eval m (.bbox s w n w) t with
  | false => rfl
  | true =>
    rw [bbox_spec] at hb
    obtain ⟨g', hg', _, _, hlon⟩ := hb
    rw [hl] at hg'; cases hg'
    simp at hlon
    omega

/-- filtering keeps the order of the transactions -/
theorem filter_order (m : String → String → Bool) (f : Filter) (ts : List Txn) : (filterTxns m f ts).Sublist ts :=
  List.filter_sublist

theorem filter_mem (m : String → String → Bool) (f : Filter) (ts : List Txn) (t : Txn) :
    t ∈ filterTxns m f ts ↔ t ∈ ts ∧ Sat m f t := by
  simp [filterTxns, List.mem_filter, eval_sat]

/-- a filter and its negation partition the set: every transaction is in exactly one of the two
    results, and the sizes add up -/
theorem partition (m : String → String → Bool) (f : Filter) (ts : List Txn) :
    (∀ t ∈ ts, (t ∈ filterTxns m f ts ∧ t ∉ filterTxns m (.not f) ts) ∨
               (t ∉ filterTxns m f ts ∧ t ∈ filterTxns m (.not f) ts)) ∧
    (filterTxns m f ts).length + (filterTxns m (.not f) ts).length = ts.length := by
  constructor
  · intro t ht
    simp only [filterTxns, List.mem_filter, Filter.eval]
    cases Filter.eval m f t <;> simp [ht]
  · simp only [filterTxns]
    induction ts with
    | nil => simp
    | cons a t ih =>
      simp only [List.filter_cons]
      have hn : Filter.eval m (.not f) a = !Filter.eval m f a := by simp [Filter.eval]
      rw [hn]
      cases Filter.eval m f a <;> simp <;> omega

/-- the interleaving of the two parts is the original list -/
theorem partition_interleave (m : String → String → Bool) (f : Filter) (ts : List Txn) :
    filterTxns m (.not f) ts = ts.filter (fun t => !Filter.eval m f t) := by
  simp [filterTxns, Filter.eval]

/-- the size reported with a filtered set is the number of selected transactions -/
theorem filter_size (m : String → String → Bool) (f : Filter) (ts : List Txn) :
    (filterTxns m f ts).length = (ts.filter (Filter.eval m f)).length := rfl

/-! ### non-vacuity -/

def mEq : String → String → Bool := fun p h => p == h
def g0 : Geo := ⟨Dec.ofInt 60, Dec.ofInt 50, none⟩
def tx : Txn := ⟨⟨⟨100, 0⟩, some "c", none, none, some g0, none, none⟩, [⟨["a"], "", Dec.ofInt 5, Dec.ofInt 5, false, "", none⟩]⟩

example : Filter.eval mEq (.and [.tsBegin 100, .tsEnd 101, .code "c", .postAmountEq "a" (Dec.ofInt 5)]) tx = true := by decide
example : Filter.eval mEq (.tsEnd 100) tx = false := by decide
/-- F3 regression witness: west = east = 10 does not select longitude 50 -/
example : Filter.eval mEq (.bbox (Dec.ofInt 0) (Dec.ofInt 10) (Dec.ofInt 90) (Dec.ofInt 10)) tx = false := by decide
/-- wrapping box 170 … −170 does not contain longitude 50, box 40 … −170 (wrapping) does -/
example : Filter.eval mEq (.bbox (Dec.ofInt 0) (Dec.ofInt 170) (Dec.ofInt 90) (Dec.ofInt (-170))) tx = false := by decide
example : Filter.eval mEq (.bbox (Dec.ofInt 0) (Dec.ofInt 40) (Dec.ofInt 90) (Dec.ofInt (-170))) tx = true := by decide

end C05
end Tackler

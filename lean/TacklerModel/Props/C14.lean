import TacklerModel.Model.Output
import TacklerModel.Lemmas.Output
/-!
# C14 — outputs are complete or the run fails; existing files are never overwritten

Property theorems over the output protocol of `Model/Output.lean` (`create_output_file`, the 8 KiB `BufWriter`,
`write_txt_reports`, `write_exports`, `run`/`main`), in the version *after* `fixes/F4-flush.diff`.
All statements hold for every buffer capacity, every way the content is cut into write calls, every per-destination
fault offset (including faults that reach the file only at the final flush), every initial file system and every
plan (also plans naming the same path twice) — by induction, without bounds.

The kernel half is an interface, not a model (see the header of `Model/Output.lean`): a file accepts bytes up to
its limit and then fails, `create_new` fails on an existing path.  That interface is the trusted base of this
property; it is exercised on the real binary by the tie (`gen/c14.py`, `RLIMIT_FSIZE` sweep).

Partial: "journal files, the Git repository and the configuration are only read" needs the loading phase, which is
not modelled; `inputs_only_read_partial` states it with the loader as a parameter that leaves the file system alone
(the tie checks exactly that hypothesis with before/after snapshots on the real binary).

`dest_spec` is the key: one destination, whatever the chunking and the capacity, leaves exactly the first `limit`
bytes of its content and reports success iff everything fitted.  The unpatched variant (`flushChecked = false`)
does not satisfy this: `F4_witness`.
-/
namespace Tackler
namespace C14
open Output

/-! ### one destination: closed form -/

/-- what one destination does, without buffers and chunks -/
def destSpec (fs : FS) (limit : Option Nat) (d : Dest) : DestResult :=
  if d.setupOk = false then ⟨fs, false⟩
  else
    match fs.file d.path with
    | some _ => ⟨fs, false⟩
    | none => ⟨fs.set d.path (lim limit d.content), fits limit d.content && d.bodyOk⟩

/-- **Closed form of the patched writer**: for every capacity and chunking the destination file ends up holding
    exactly the first `limit` bytes of the content, and the arm succeeds (and announces) iff the whole content
    fitted and the reporter did not fail. -/
theorem dest_spec (cap : Nat) (fs : FS) (limit : Option Nat) (d : Dest) :
    writeDest cap fs limit d = destSpec fs limit d := by
  unfold writeDest writeDestV destSpec createNew
  cases hs : d.setupOk with
  | false => simp
  | true =>
    cases hfile : fs.file d.path with
    | some old => simp
    | none =>
      have hinv : (⟨⟨[], limit⟩, [], cap⟩ : BufWriter).Inv :=
        ⟨by intro k _; simp, by simp⟩
      obtain ⟨c1, c2, cok, cfail⟩ := writeChunks_spec d.chunks ⟨⟨[], limit⟩, [], cap⟩ hinv
      simp only [BufWriter.all, List.nil_append] at cok cfail c1
      cases hr : (writeChunks ⟨⟨[], limit⟩, [], cap⟩ d.chunks).2 with
      | false =>
        obtain ⟨f1, f2⟩ := cfail hr
        simp [hr, f1, f2, Dest.content]
      | true =>
        obtain ⟨a1, a2⟩ := cok hr
        have hdrop := drop_spec _ a2.sink
        rw [c1, BufWriter.all, a1] at hdrop
        cases hb : d.bodyOk with
        | false => simp [hr, hdrop, Dest.content]
        | true =>
          obtain ⟨g1, g2, g3, gok, gfail⟩ := flushBuf_spec _ a2.sink
          rw [c1, BufWriter.all, a1] at gok gfail
          rw [c1] at g1
          cases hf : (writeChunks ⟨⟨[], limit⟩, [], cap⟩ d.chunks).1.flushBuf.2 with
          | false =>
            obtain ⟨e1, e2, e3⟩ := gfail hf
            have hd := drop_full _ e3
            rw [e1] at hd
            simp [hr, BufWriter.flush, hf, hd, e2, Dest.content]
          | true =>
            obtain ⟨e1, e2, e3⟩ := gok hf
            have hd := drop_spec _ g3
            rw [g1, BufWriter.all, e1, e2, List.append_nil, lim_of_fits e3] at hd
            simp [hr, BufWriter.flush, hf, hd, e3, lim_of_fits e3, Dest.content]

theorem destSpec_ok {fs : FS} {limit : Option Nat} {d : Dest} (h : (destSpec fs limit d).ok = true) :
    d.setupOk = true ∧ d.bodyOk = true ∧ fits limit d.content = true ∧ fs.file d.path = none ∧
    (destSpec fs limit d).fs = fs.set d.path d.content := by
  unfold destSpec at h ⊢
  cases hs : d.setupOk with
  | false => simp [hs] at h
  | true =>
    cases hfile : fs.file d.path with
    | some old => simp [hs, hfile] at h
    | none =>
      simp [hs, hfile] at h
      simp [lim_of_fits h.1, h.1, h.2]

/-- one destination never changes a file that exists -/
theorem destSpec_existing {fs : FS} {limit : Option Nat} {d : Dest} {p : Path} {old : Bytes}
    (h : fs.file p = some old) : (destSpec fs limit d).fs.file p = some old := by
  unfold destSpec
  cases hs : d.setupOk with
  | false => simpa using h
  | true =>
    cases hfile : fs.file d.path with
    | some o => simpa using h
    | none =>
      have : p ≠ d.path := by intro e; rw [e, hfile] at h; cases h
      simp [FS.set, this, h]

/-- one destination touches no other path -/
theorem destSpec_other {fs : FS} {limit : Option Nat} {d : Dest} {p : Path} (h : p ≠ d.path) :
    (destSpec fs limit d).fs.file p = fs.file p := by
  unfold destSpec
  cases hs : d.setupOk with
  | false => simp
  | true =>
    cases hfile : fs.file d.path with
    | some o => simp
    | none => simp [FS.set, h]

/-- a failing destination leaves its path as found, or — if it did not exist — with the first `limit` bytes -/
theorem destSpec_fail {fs : FS} {limit : Option Nat} {d : Dest} (_h : (destSpec fs limit d).ok = false) :
    (destSpec fs limit d).fs = fs ∨
    (fs.file d.path = none ∧ (destSpec fs limit d).fs = fs.set d.path (lim limit d.content)) := by
  unfold destSpec
  cases hs : d.setupOk with
  | false => simp
  | true =>
    cases hfile : fs.file d.path with
    | some o => simp
    | none => simp

/-! ### the loop -/

theorem writeMany_nil (cap : Nat) (faults : FaultPlan) (fs : FS) :
    writeMany cap faults [] fs = ⟨fs, [], true⟩ := rfl

theorem writeMany_cons (cap : Nat) (faults : FaultPlan) (d : Dest) (ds : List Dest) (fs : FS) :
    writeMany cap faults (d :: ds) fs =
      if (destSpec fs (faults d.path) d).ok = true then
        ⟨(writeMany cap faults ds (destSpec fs (faults d.path) d).fs).fs,
         d.path :: (writeMany cap faults ds (destSpec fs (faults d.path) d).fs).announced,
         (writeMany cap faults ds (destSpec fs (faults d.path) d).fs).ok⟩
      else ⟨(destSpec fs (faults d.path) d).fs, [], false⟩ := by
  rw [← dest_spec cap]
  rfl

theorem writeMany_append (cap : Nat) (faults : FaultPlan) (xs ys : List Dest) : ∀ (fs : FS),
    writeMany cap faults (xs ++ ys) fs =
      if (writeMany cap faults xs fs).ok = true then
        ⟨(writeMany cap faults ys (writeMany cap faults xs fs).fs).fs,
         (writeMany cap faults xs fs).announced ++ (writeMany cap faults ys (writeMany cap faults xs fs).fs).announced,
         (writeMany cap faults ys (writeMany cap faults xs fs).fs).ok⟩
      else writeMany cap faults xs fs := by
  induction xs with
  | nil => intro fs; simp [writeMany_nil]
  | cons d xs ih =>
    intro fs
    simp only [List.cons_append, writeMany_cons]
    by_cases hd : (destSpec fs (faults d.path) d).ok = true
    · simp only [hd, if_true]
      rw [ih]
      by_cases hx : (writeMany cap faults xs (destSpec fs (faults d.path) d).fs).ok = true
      · simp [hx]
      · simp [hx]
    · simp [hd]

/-- `run` is the loop over reports followed by exports -/
theorem run_eq (cap : Nat) (plan : Plan) (fs : FS) (faults : FaultPlan) :
    (run cap plan fs faults).exit = (if (writeMany cap faults plan.dests fs).ok = true then 0 else 1) ∧
    (run cap plan fs faults).fs = (writeMany cap faults plan.dests fs).fs ∧
    (run cap plan fs faults).announced = (writeMany cap faults plan.dests fs).announced := by
  have happ := writeMany_append cap faults plan.reports plan.exports fs
  unfold run runV writeTxtReportsV writeExportsV Plan.dests
  unfold writeMany at happ ⊢
  rw [happ]
  cases hr : (writeManyV true cap faults plan.reports fs).ok <;> simp [hr]

theorem exit_zero_iff (cap : Nat) (plan : Plan) (fs : FS) (faults : FaultPlan) :
    (run cap plan fs faults).exit = 0 ↔ (writeMany cap faults plan.dests fs).ok = true := by
  rw [(run_eq cap plan fs faults).1]
  by_cases h : (writeMany cap faults plan.dests fs).ok = true <;> simp [h]

/-! #### facts about the loop, by induction over the targets -/

theorem many_existing (cap : Nat) (faults : FaultPlan) (ds : List Dest) : ∀ (fs : FS) (p : Path) (old : Bytes),
    fs.file p = some old → (writeMany cap faults ds fs).fs.file p = some old := by
  induction ds with
  | nil => intro fs p old h; simpa [writeMany_nil] using h
  | cons d ds ih =>
    intro fs p old h
    rw [writeMany_cons]
    by_cases hd : (destSpec fs (faults d.path) d).ok = true
    · simp only [hd, if_true]
      exact ih _ p old (destSpec_existing h)
    · simp only [hd]
      exact destSpec_existing h

theorem many_other (cap : Nat) (faults : FaultPlan) (ds : List Dest) : ∀ (fs : FS) (p : Path),
    p ∉ ds.map (·.path) → (writeMany cap faults ds fs).fs.file p = fs.file p := by
  induction ds with
  | nil => intro fs p _; simp [writeMany_nil]
  | cons d ds ih =>
    intro fs p h
    simp only [List.map_cons, List.mem_cons, not_or] at h
    rw [writeMany_cons]
    by_cases hd : (destSpec fs (faults d.path) d).ok = true
    · simp only [hd, if_true]
      rw [ih _ p h.2, destSpec_other h.1]
    · simp only [hd]
      exact destSpec_other h.1

/-- a destination that can be written: reporter fine, content within the limit -/
def Good (faults : FaultPlan) (d : Dest) : Prop :=
  d.setupOk = true ∧ d.bodyOk = true ∧ fits (faults d.path) d.content = true

theorem many_success (cap : Nat) (faults : FaultPlan) (ds : List Dest) : ∀ (fs : FS),
    (writeMany cap faults ds fs).ok = true →
    (writeMany cap faults ds fs).announced = ds.map (·.path) ∧
    (ds.map (·.path)).Nodup ∧
    ∀ d ∈ ds, (writeMany cap faults ds fs).fs.file d.path = some d.content ∧ fs.file d.path = none ∧ Good faults d := by
  induction ds with
  | nil => intro fs _; simp [writeMany_nil]
  | cons d ds ih =>
    intro fs h
    rw [writeMany_cons] at h ⊢
    by_cases hd : (destSpec fs (faults d.path) d).ok = true
    · simp only [hd, if_true] at h ⊢
      obtain ⟨g1, g2, g3, g4, g5⟩ := destSpec_ok hd
      obtain ⟨i1, i2, i3⟩ := ih _ h
      have hnew : (destSpec fs (faults d.path) d).fs.file d.path = some d.content := by
        rw [g5]; simp [FS.set]
      refine ⟨by rw [i1]; rfl, ?_, ?_⟩
      · simp only [List.map_cons, List.nodup_cons]
        refine ⟨?_, i2⟩
        intro hmem
        obtain ⟨d', hd', he⟩ := List.mem_map.mp hmem
        have := (i3 d' hd').2.1
        rw [he, hnew] at this
        cases this
      · intro x hx
        rcases List.mem_cons.mp hx with rfl | hx
        · exact ⟨many_existing cap faults ds _ _ _ hnew, g4, g1, g2, g3⟩
        · obtain ⟨j1, j2, j3⟩ := i3 x hx
          refine ⟨j1, ?_, j3⟩
          cases hfx : fs.file x.path with
          | none => rfl
          | some old => rw [destSpec_existing hfx] at j2; cases j2
    · simp [hd] at h

theorem many_success_conv (cap : Nat) (faults : FaultPlan) (ds : List Dest) : ∀ (fs : FS),
    (ds.map (·.path)).Nodup → (∀ d ∈ ds, fs.file d.path = none ∧ Good faults d) →
    (writeMany cap faults ds fs).ok = true := by
  induction ds with
  | nil => intro fs _ _; simp [writeMany_nil]
  | cons d ds ih =>
    intro fs hn hall
    simp only [List.map_cons, List.nodup_cons] at hn
    obtain ⟨hfile, g1, g2, g3⟩ := hall d (List.mem_cons_self ..)
    have hd : (destSpec fs (faults d.path) d).ok = true := by
      unfold destSpec; simp [g1, g2, g3, hfile]
    rw [writeMany_cons]
    simp only [hd, if_true]
    apply ih _ hn.2
    intro x hx
    refine ⟨?_, (hall x (List.mem_cons_of_mem _ hx)).2⟩
    have hne : x.path ≠ d.path := by
      intro e; exact hn.1 (List.mem_map.mpr ⟨x, hx, e⟩)
    rw [destSpec_other hne]
    exact (hall x (List.mem_cons_of_mem _ hx)).1

/-- anatomy of the loop: a successful prefix, then (on failure) exactly one failing destination; what follows it is
    never looked at -/
theorem many_anatomy (cap : Nat) (faults : FaultPlan) (ds : List Dest) : ∀ (fs : FS),
    (writeMany cap faults ds fs).ok = false →
    ∃ pre d post, ds = pre ++ d :: post ∧
      (writeMany cap faults pre fs).ok = true ∧
      (writeMany cap faults ds fs).announced = pre.map (·.path) ∧
      (destSpec (writeMany cap faults pre fs).fs (faults d.path) d).ok = false ∧
      (writeMany cap faults ds fs).fs = (destSpec (writeMany cap faults pre fs).fs (faults d.path) d).fs := by
  induction ds with
  | nil => intro fs h; simp [writeMany_nil] at h
  | cons d ds ih =>
    intro fs h
    rw [writeMany_cons] at h ⊢
    by_cases hd : (destSpec fs (faults d.path) d).ok = true
    · simp only [hd, if_true] at h ⊢
      obtain ⟨pre, x, post, e, p1, p2, p3, p4⟩ := ih _ h
      refine ⟨d :: pre, x, post, by rw [e]; rfl, ?_, ?_, ?_, ?_⟩
      · rw [writeMany_cons]; simp only [hd, if_true]; exact p1
      · rw [p2]; rfl
      · rw [writeMany_cons]; simp only [hd, if_true]; exact p3
      · rw [writeMany_cons]; simp only [hd, if_true]; exact p4
    · simp only [hd]
      refine ⟨[], d, ds, rfl, rfl, rfl, ?_, rfl⟩
      simp only [writeMany_nil]
      cases h' : (destSpec fs (faults d.path) d).ok <;> simp_all

/-! ### the property theorems -/

/-- **success_complete.** Exit status 0 ⇒ every planned destination holds exactly its content, was announced,
    did not exist before, and the announcements are exactly the plan, in order. -/
theorem success_complete (cap : Nat) (plan : Plan) (fs : FS) (faults : FaultPlan)
    (h : (run cap plan fs faults).exit = 0) :
    (∀ d ∈ plan.dests, (run cap plan fs faults).fs.file d.path = some d.content ∧
        d.path ∈ (run cap plan fs faults).announced ∧ fs.file d.path = none) ∧
    (run cap plan fs faults).announced = plan.dests.map (·.path) := by
  have hok := (exit_zero_iff cap plan fs faults).mp h
  obtain ⟨_, e2, e3⟩ := run_eq cap plan fs faults
  obtain ⟨m1, _, m3⟩ := many_success cap faults plan.dests fs hok
  rw [e2, e3]
  refine ⟨?_, m1⟩
  intro d hd
  refine ⟨(m3 d hd).1, ?_, (m3 d hd).2.1⟩
  rw [m1]; exact List.mem_map.mpr ⟨d, hd, rfl⟩

/-- **success_iff.** The run succeeds exactly when no destination exists, the destination paths are pairwise
    different, every reporter works and every content fits under its limit. -/
theorem success_iff (cap : Nat) (plan : Plan) (fs : FS) (faults : FaultPlan) :
    (run cap plan fs faults).exit = 0 ↔
      ((plan.dests.map (·.path)).Nodup ∧ ∀ d ∈ plan.dests, fs.file d.path = none ∧ Good faults d) := by
  rw [exit_zero_iff]
  constructor
  · intro h
    obtain ⟨_, m2, m3⟩ := many_success cap faults plan.dests fs h
    exact ⟨m2, fun d hd => ⟨(m3 d hd).2.1, (m3 d hd).2.2⟩⟩
  · intro ⟨hn, hall⟩
    exact many_success_conv cap faults plan.dests fs hn hall

/-- **fail_stop.** A write fault at any offset inside the content of any planned destination (a limit smaller than
    the content — whether it is hit in a write call or only by the final flush) makes the run end with a non-zero
    exit status; so does a failing reporter. -/
theorem fail_stop (cap : Nat) (plan : Plan) (fs : FS) (faults : FaultPlan) (d : Dest) (hd : d ∈ plan.dests)
    (hfault : (∃ k, faults d.path = some k ∧ k < d.content.length) ∨ d.setupOk = false ∨ d.bodyOk = false) :
    (run cap plan fs faults).exit ≠ 0 := by
  intro h
  obtain ⟨_, hall⟩ := (success_iff cap plan fs faults).mp h
  obtain ⟨_, g1, g2, g3⟩ := hall d hd
  rcases hfault with ⟨k, hk, hlt⟩ | hs | hb
  · rw [hk] at g3
    simp [fits] at g3
    omega
  · rw [g1] at hs; cases hs
  · rw [g2] at hb; cases hb

/-- **existing_preserved.** Whatever happens, a file that existed before the run (at a destination or anywhere else)
    is byte-identical afterwards. -/
theorem existing_preserved (cap : Nat) (plan : Plan) (fs : FS) (faults : FaultPlan) (p : Path) (old : Bytes)
    (h : fs.file p = some old) : (run cap plan fs faults).fs.file p = some old := by
  rw [(run_eq cap plan fs faults).2.1]
  exact many_existing cap faults plan.dests fs p old h

/-- **existing_untouched.** If a planned destination already exists, the run fails and that file is byte-identical. -/
theorem existing_untouched (cap : Nat) (plan : Plan) (fs : FS) (faults : FaultPlan) (d : Dest) (old : Bytes)
    (hd : d ∈ plan.dests) (h : fs.file d.path = some old) :
    (run cap plan fs faults).exit ≠ 0 ∧ (run cap plan fs faults).fs.file d.path = some old := by
  refine ⟨?_, existing_preserved cap plan fs faults d.path old h⟩
  intro h0
  have := ((success_iff cap plan fs faults).mp h0).2 d hd
  rw [h] at this
  cases this.1

/-- **nothing_else.** No path outside the planned destinations changes. -/
theorem nothing_else (cap : Nat) (plan : Plan) (fs : FS) (faults : FaultPlan) (p : Path)
    (h : p ∉ plan.dests.map (·.path)) : (run cap plan fs faults).fs.file p = fs.file p := by
  rw [(run_eq cap plan fs faults).2.1]
  exact many_other cap faults plan.dests fs p h

/-- **announced_complete.** In every run — failed ones included — each announced path is a planned destination that
    did not exist before and now holds exactly its content. -/
theorem announced_complete (cap : Nat) (plan : Plan) (fs : FS) (faults : FaultPlan) (p : Path)
    (hp : p ∈ (run cap plan fs faults).announced) :
    ∃ d ∈ plan.dests, d.path = p ∧ (run cap plan fs faults).fs.file p = some d.content ∧ fs.file p = none := by
  obtain ⟨_, e2, e3⟩ := run_eq cap plan fs faults
  rw [e3] at hp
  rw [e2]
  by_cases hok : (writeMany cap faults plan.dests fs).ok = true
  · obtain ⟨m1, _, m3⟩ := many_success cap faults plan.dests fs hok
    rw [m1] at hp
    obtain ⟨d, hd, rfl⟩ := List.mem_map.mp hp
    exact ⟨d, hd, rfl, (m3 d hd).1, (m3 d hd).2.1⟩
  · have hf : (writeMany cap faults plan.dests fs).ok = false := by
      cases h : (writeMany cap faults plan.dests fs).ok <;> simp_all
    obtain ⟨pre, x, post, e, p1, p2, p3, p4⟩ := many_anatomy cap faults plan.dests fs hf
    rw [p2] at hp
    obtain ⟨d, hd, rfl⟩ := List.mem_map.mp hp
    obtain ⟨_, _, m3⟩ := many_success cap faults pre fs p1
    refine ⟨d, by rw [e]; exact List.mem_append_left _ hd, rfl, ?_, (m3 d hd).2.1⟩
    rw [p4]
    exact destSpec_existing (m3 d hd).1

/-- **failure_anatomy.** A failed run is: a prefix `pre` of the plan written completely and announced (in order),
    then one destination `d` that fails and is not announced, then nothing — the destinations after `d` are never
    touched.  The failing destination's path is left as it was found (it existed, or its reporter could not be set
    up, or it is one of the paths just written by `pre`), or it did not exist and now holds exactly the first
    `limit` bytes of its content (everything, if the failure was the reporter's). -/
theorem failure_anatomy (cap : Nat) (plan : Plan) (fs : FS) (faults : FaultPlan)
    (h : (run cap plan fs faults).exit ≠ 0) :
    ∃ pre d post, plan.dests = pre ++ d :: post ∧
      (run cap plan fs faults).announced = pre.map (·.path) ∧
      (∀ x ∈ pre, (run cap plan fs faults).fs.file x.path = some x.content ∧ fs.file x.path = none) ∧
      (∀ p, p ∉ (pre ++ [d]).map (·.path) → (run cap plan fs faults).fs.file p = fs.file p) ∧
      ((run cap plan fs faults).fs.file d.path = (writeMany cap faults pre fs).fs.file d.path ∨
       ((writeMany cap faults pre fs).fs.file d.path = none ∧ fs.file d.path = none ∧
        (run cap plan fs faults).fs.file d.path = some (lim (faults d.path) d.content))) := by
  obtain ⟨_, e2, e3⟩ := run_eq cap plan fs faults
  have hf : (writeMany cap faults plan.dests fs).ok = false := by
    cases hh : (writeMany cap faults plan.dests fs).ok with
    | false => rfl
    | true => exact absurd ((exit_zero_iff cap plan fs faults).mpr hh) h
  obtain ⟨pre, d, post, e, p1, p2, p3, p4⟩ := many_anatomy cap faults plan.dests fs hf
  obtain ⟨_, _, m3⟩ := many_success cap faults pre fs p1
  refine ⟨pre, d, post, e, by rw [e3, p2], ?_, ?_, ?_⟩
  · intro x hx
    rw [e2, p4]
    exact ⟨destSpec_existing (m3 x hx).1, (m3 x hx).2.1⟩
  · intro p hp
    simp only [List.map_append, List.map_cons, List.map_nil, List.mem_append, List.mem_singleton, not_or] at hp
    rw [e2, p4, destSpec_other hp.2]
    exact many_other cap faults pre fs p hp.1
  · rw [e2, p4]
    rcases destSpec_fail p3 with hsame | ⟨hnone, hset⟩
    · left; rw [hsame]
    · right
      refine ⟨hnone, ?_, by rw [hset]; simp [FS.set]⟩
      cases hfd : fs.file d.path with
      | none => rfl
      | some old => rw [many_existing cap faults pre fs _ _ hfd] at hnone; cases hnone

/-- **existing_before_after.** The precise picture around a pre-existing destination `d`, when everything planned
    before it is writable: the destinations before `d` are written completely and announced, the run then fails at
    `d` with exit status 1, `d` keeps its bytes, and nothing after `d` is created or touched. -/
theorem existing_before_after (cap : Nat) (plan : Plan) (fs : FS) (faults : FaultPlan)
    (pre post : List Dest) (d : Dest) (old : Bytes)
    (hplan : plan.dests = pre ++ d :: post) (hold : fs.file d.path = some old)
    (hnodup : (pre.map (·.path)).Nodup) (hpre : ∀ x ∈ pre, fs.file x.path = none ∧ Good faults x) :
    (run cap plan fs faults).exit = 1 ∧
    (run cap plan fs faults).announced = pre.map (·.path) ∧
    (∀ x ∈ pre, (run cap plan fs faults).fs.file x.path = some x.content) ∧
    (run cap plan fs faults).fs.file d.path = some old ∧
    (∀ p, p ∉ pre.map (·.path) → (run cap plan fs faults).fs.file p = fs.file p) := by
  obtain ⟨e1, e2, e3⟩ := run_eq cap plan fs faults
  have hok := many_success_conv cap faults pre fs hnodup hpre
  obtain ⟨m1, _, m3⟩ := many_success cap faults pre fs hok
  have hd : (destSpec (writeMany cap faults pre fs).fs (faults d.path) d).ok = false ∧
      (destSpec (writeMany cap faults pre fs).fs (faults d.path) d).fs = (writeMany cap faults pre fs).fs := by
    have := many_existing cap faults pre fs d.path old hold
    unfold destSpec
    cases hs : d.setupOk <;> simp [this]
  have hall : writeMany cap faults plan.dests fs =
      ⟨(writeMany cap faults pre fs).fs, pre.map (·.path), false⟩ := by
    rw [hplan, writeMany_append]
    simp only [hok, if_true]
    rw [writeMany_cons]
    simp [hd.1, hd.2, m1]
  rw [e1, e2, e3, hall]
  refine ⟨by simp, rfl, fun x hx => (m3 x hx).1, many_existing cap faults pre fs d.path old hold, ?_⟩
  intro p hp
  exact many_other cap faults pre fs p hp

/-- **inputs_only_read_partial.**  Full statement (property text): *journal files, the Git repository and the
    configuration are only read* by the whole program.  The loading phase (toml, winnow parser, walkdir, gix) is not
    modelled; it is the parameter `Loader`.  Under the hypothesis that loading leaves the file system as it is —
    which is what the before/after snapshots (size, mtime, sha256) of the tie check on the real binary for file,
    fs and git input — the whole run changes nothing outside the planned destinations, and a failed load changes
    nothing at all.  What is missing for the full statement: a model of the loaders' file-system effects. -/
theorem inputs_only_read_partial (L : Loader) (hread : ∀ fs, (L.load fs).1 = fs)
    (cap : Nat) (plan : Plan) (fs : FS) (faults : FaultPlan) :
    (∀ p, p ∉ plan.dests.map (·.path) → (cliRun L cap plan fs faults).fs.file p = fs.file p) ∧
    (∀ p old, fs.file p = some old → (cliRun L cap plan fs faults).fs.file p = some old) ∧
    ((L.load fs).2 = false → (cliRun L cap plan fs faults).fs = fs ∧ (cliRun L cap plan fs faults).exit = 1 ∧
        (cliRun L cap plan fs faults).announced = []) := by
  unfold cliRun cliRunV
  cases hl : (L.load fs).2 with
  | false =>
    simp only [if_true, hread]
    exact ⟨fun _ _ => (by first | rfl | trivial), fun _ _ h => h, fun _ => ⟨(by first | rfl | trivial), (by first | rfl | trivial), (by first | rfl | trivial)⟩⟩
  | true =>
    simp only [Bool.true_eq_false, if_false, hread]
    refine ⟨fun p hp => nothing_else cap plan fs faults p hp,
            fun p old h => existing_preserved cap plan fs faults p old h, fun h => by cases h⟩

/-- what a run can depend on: where, the whole content, and whether the reporter works -/
def key (d : Dest) : Path × Bytes × Bool × Bool := (d.path, d.content, d.setupOk, d.bodyOk)

theorem many_chunking_irrelevant (cap₁ cap₂ : Nat) (faults : FaultPlan) : ∀ (ds₁ ds₂ : List Dest),
    ds₁.map key = ds₂.map key → ∀ fs, writeMany cap₁ faults ds₁ fs = writeMany cap₂ faults ds₂ fs := by
  intro ds₁
  induction ds₁ with
  | nil =>
    intro ds₂ h fs
    cases ds₂ with
    | nil => rfl
    | cons b l => simp at h
  | cons a l₁ ih =>
    intro ds₂ h fs
    cases ds₂ with
    | nil => simp at h
    | cons b l₂ =>
      simp only [List.map_cons, List.cons.injEq, key, Prod.mk.injEq] at h
      obtain ⟨⟨h1, h2, h3, h4⟩, hl⟩ := h
      have hspec : destSpec fs (faults a.path) a = destSpec fs (faults b.path) b := by
        unfold destSpec; rw [h1, h2, h3, h4]
      rw [writeMany_cons, writeMany_cons, hspec, h1]
      by_cases hd : (destSpec fs (faults b.path) b).ok = true
      · simp only [hd, if_true]; rw [ih l₂ hl]
      · simp [hd]

/-- **chunking_irrelevant.** The result of a run depends on the destinations' contents only — not on the buffer
    capacity and not on how the reporters cut the content into write calls.  (This is what lets the tie feed the
    model with any chunking of the real content; it is false for the unpatched variant, see `F4_chunking`.) -/
theorem chunking_irrelevant (cap₁ cap₂ : Nat) (faults : FaultPlan) (p₁ p₂ : Plan) (fs : FS)
    (h : p₁.dests.map key = p₂.dests.map key) :
    (run cap₁ p₁ fs faults).exit = (run cap₂ p₂ fs faults).exit ∧
    (run cap₁ p₁ fs faults).fs = (run cap₂ p₂ fs faults).fs ∧
    (run cap₁ p₁ fs faults).announced = (run cap₂ p₂ fs faults).announced := by
  obtain ⟨a1, a2, a3⟩ := run_eq cap₁ p₁ fs faults
  obtain ⟨b1, b2, b3⟩ := run_eq cap₂ p₂ fs faults
  rw [a1, a2, a3, b1, b2, b3, many_chunking_irrelevant cap₁ cap₂ faults _ _ h fs]
  exact ⟨rfl, rfl, rfl⟩

/-! ### finding F4: the tree before `fixes/F4-flush.diff` (variant `flushChecked = false`) -/

def b (n : Nat) : Bytes := List.replicate n 0x61

/-- the reproduction of DESIGN.md F4: three pieces of 40 bytes, 8 KiB buffer, file-size limit 10 -/
def f4Plan : Plan := ⟨[⟨"out/p.bal.txt", [b 40, b 40, b 40], true, true⟩], []⟩
def emptyFS : FS := ⟨fun _ => none⟩
def limit10 : FaultPlan := fun _ => some 10

/-- **F4 witness** (unpatched variant): exit status 0, the report is announced, the file holds 10 of 120 bytes. -/
theorem F4_witness :
    (runV false 8192 f4Plan emptyFS limit10).exit = 0 ∧
    (runV false 8192 f4Plan emptyFS limit10).announced = ["out/p.bal.txt"] ∧
    (runV false 8192 f4Plan emptyFS limit10).fs.file "out/p.bal.txt" = some (b 10) := by
  refine ⟨by decide, by decide, by decide⟩

/-- the patched code on the same input: exit status 1, nothing announced, the 10 bytes are left behind -/
theorem F4_fixed :
    (run 8192 f4Plan emptyFS limit10).exit = 1 ∧
    (run 8192 f4Plan emptyFS limit10).announced = [] ∧
    (run 8192 f4Plan emptyFS limit10).fs.file "out/p.bal.txt" = some (b 10) := by
  refine ⟨by decide, by decide, by decide⟩

/-- In the unpatched variant the verdict depends on how the content is cut into write calls (same 12 bytes, limit 11,
    4-byte buffer): written in one piece the failure is seen, written in four pieces it is swallowed by `drop`. -/
theorem F4_chunking :
    (runV false 4 ⟨[⟨"f", [b 12], true, true⟩], []⟩ emptyFS (fun _ => some 11)).exit = 1 ∧
    (runV false 4 ⟨[⟨"f", [b 3, b 3, b 3, b 3], true, true⟩], []⟩ emptyFS (fun _ => some 11)).exit = 0 ∧
    (runV false 4 ⟨[⟨"f", [b 3, b 3, b 3, b 3], true, true⟩], []⟩ emptyFS (fun _ => some 11)).fs.file "f" = some (b 11) := by
  refine ⟨by decide, by decide, by decide⟩

/-! ### non-vacuity: the hypotheses of the theorems are satisfiable by non-trivial runs -/

def demoPlan : Plan :=
  ⟨[⟨"o/p.bal.txt", [b 3, b 5], true, true⟩, ⟨"o/p.reg.txt", [b 2, b 9, b 1], true, true⟩],
   [⟨"o/p.identity.txn", [b 4, b 4], true, true⟩]⟩

/-- a fault-free run with a 4-byte buffer (flushes inside writes, a bypassing chunk, a final flush): exit 0 -/
example : (run 4 demoPlan emptyFS (fun _ => none)).exit = 0 ∧
    (run 4 demoPlan emptyFS (fun _ => none)).announced = ["o/p.bal.txt", "o/p.reg.txt", "o/p.identity.txn"] ∧
    (run 4 demoPlan emptyFS (fun _ => none)).fs.file "o/p.reg.txt" = some (b 12) := by
  refine ⟨by decide, by decide, by decide⟩

/-- a fault in the second destination at offset 11 of 12 (it surfaces only at the final flush): the first report is
    complete and announced, the second is truncated and not announced, the export is never created, exit 1 -/
example : (run 4 demoPlan emptyFS (fun p => if p = "o/p.reg.txt" then some 11 else none)).exit = 1 ∧
    (run 4 demoPlan emptyFS (fun p => if p = "o/p.reg.txt" then some 11 else none)).announced = ["o/p.bal.txt"] ∧
    (run 4 demoPlan emptyFS (fun p => if p = "o/p.reg.txt" then some 11 else none)).fs.file "o/p.reg.txt" = some (b 11) ∧
    (run 4 demoPlan emptyFS (fun p => if p = "o/p.reg.txt" then some 11 else none)).fs.file "o/p.identity.txn" = none := by
  refine ⟨by decide, by decide, by decide, by decide⟩

/-- an existing second destination: exit 1, the file keeps its bytes, the first report was written, the export not -/
example : (run 4 demoPlan (emptyFS.set "o/p.reg.txt" (b 7)) (fun _ => none)).exit = 1 ∧
    (run 4 demoPlan (emptyFS.set "o/p.reg.txt" (b 7)) (fun _ => none)).announced = ["o/p.bal.txt"] ∧
    (run 4 demoPlan (emptyFS.set "o/p.reg.txt" (b 7)) (fun _ => none)).fs.file "o/p.reg.txt" = some (b 7) ∧
    (run 4 demoPlan (emptyFS.set "o/p.reg.txt" (b 7)) (fun _ => none)).fs.file "o/p.identity.txn" = none := by
  refine ⟨by decide, by decide, by decide, by decide⟩

end C14
end Tackler

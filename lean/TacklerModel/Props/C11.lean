import TacklerModel.Model.Selector
import TacklerModel.Lemmas.Regex
/-!
# C11 — account selectors match whole account names (and never alter remaining figures)

This file has two parts.

**Part A (this section of the file): selectors match whole names.**  Theorems over
`Model/Regex.lean` (regex subset: syntax, search semantics, executable matcher, the textual wrapper
`^(?:p)$` of `tackler-rs/src/regex.rs`) and `Model/Selector.lean` (how the reports build and evaluate
their account selectors).  All statements quantify over every regex of the subset, every pattern string
and every haystack; there is no bound on lengths.

* `wrap_is_full`, `nogroup_escapes`        – what the wrapper means and why it needs the group
* `matcher_sound`, `full_sound`            – executable matcher = declarative semantics (both directions)
* `parse_wrap`                             – **ParseWrap** (DESIGN §3.3) is a theorem for the subset
* `peel_wrap`, `peeled_patterns_wrap`, `wrap_peel_wrap`, `peel_spec`, `peel_idempotent_on_unwrapped`
* `selector_matches_whole_name`, `empty_selects_all`, `acc_selector_selects`
* `literal_selector`, `literal_part_not_selected`, `plain_pattern_selects` – never a substring match

**Part B (to be appended below, marked by its own section header): selecting is a pure row filter**
(`balance_rowfilter`, `register_rowfilter`, `equity_rowfilter`) over the balance / register / equity
models.  Part B should use `Tackler.selects` / `AccSelector.eval` and may use
`selector_matches_whole_name` to restate its filters.
-/
namespace Tackler
namespace C11

open Regex

/-! ## Part A — whole-name matching -/

/-! ### the wrapper -/

/-- `^(?:r)$` under unanchored search (what `Regex::is_match` does) is a whole-haystack match of `r` -/
theorem wrap_is_full (r : Regex) (s : List Char) : isMatch (wrapAst r) s ↔ Matches s r 0 s.length :=
  wrapAst_isMatch r s

/-- how `^a|b$` parses: the anchors bind tighter than `|` -/
def wrapNoGroup (a b : Regex) : Regex := .alt (.seq .bol a) (.seq b .eol)

/-- without the group a top-level alternation escapes the anchors: `^x|y$` finds `xz`, which `x|y` does not
    match as a whole -/
theorem nogroup_escapes :
    ∃ a b s, isMatch (wrapNoGroup a b) s ∧ ¬ Matches s (.alt a b) 0 s.length := by
  refine ⟨.chr (.lit 'x'), .chr (.lit 'y'), ['x', 'z'], ?_, ?_⟩
  · exact ⟨0, 1, .altL (.seq .bol (.chr _ 0 'x' rfl rfl))⟩
  · intro h
    cases h with
    | altL h => cases h
    | altR h => cases h

/-- the parser really reads `^x|y$` that way, and reads the wrapped text as the grouped form -/
example : parse "^x|y$" = some (wrapNoGroup (.chr (.lit 'x')) (.chr (.lit 'y'))) := by decide
example : parse (wrapStr "x|y") = some (wrapAst (.alt (.chr (.lit 'x')) (.chr (.lit 'y')))) := by decide

/-! ### executable matcher = semantics -/

/-- `Regex::is_match` as computed by the model is the search semantics -/
theorem matcher_sound (r : Regex) (s : List Char) : search r s = true ↔ isMatch r s := search_iff r s

theorem full_sound (r : Regex) (s : List Char) : full r s = true ↔ Matches s r 0 s.length := full_iff r s

/-- searching for the wrapped pattern is the whole-haystack matcher -/
theorem search_wrap (r : Regex) (s : List Char) : search (wrapAst r) s = full r s := search_wrapAst r s

/-! ### text of the wrapper vs its meaning -/

/-- **ParseWrap**: if `p` parses (in the subset) to `r`, then `^(?:p)$` parses to `^`·group `r`·`$`.
    (Outside the subset this fails for the real crate: F16, `(?x)a # c`.) -/
theorem parse_wrap (p : String) (r : Regex) (h : parse p = some r) :
    parse (wrapStr p) = some (wrapAst r) := parse_wrapStr p r h

/-- the converse does not hold, neither in the model nor in the crate: a selector that is not a regex
    on its own can become one when wrapped, and then the anchors no longer enclose it -/
example : parse "a)|(?:b" = none ∧
    (newFullHaystack "a)|(?:b").map (fun r => search r "ax".toList) = some true := by decide

/-- F16 is outside the modelled subset -/
example : parse "(?x)a # c" = none := by decide

/-! ### peel and wrap (strings) -/

theorem wrapStr_toList (p : String) : (wrapStr p).toList = wrapChars p.toList := by
  unfold wrapStr wrapChars wrapPre wrapSuf
  simp [String.toList_append]

/-- `peel_full_haystack_pattern(into_full_haystack_pattern(p)) == p` for every string, including
    patterns that contain the wrapper text themselves -/
theorem peel_wrap (p : String) : peelStr (wrapStr p) = p := by
  unfold peelStr
  rw [wrapStr_toList, peelChars_wrapChars, String.ofList_toList]

/-- `peeled_patterns(new_full_haystack_regex_set(ps)) == ps`: what the selector checksum and the filter
    serialiser read back is what was configured -/
theorem peeled_patterns_wrap (ps : List String) : peeledPatterns (ps.map wrapStr) = ps := by
  unfold peeledPatterns
  induction ps with
  | nil => rfl
  | cons p ps ih => simp only [List.map_cons, peel_wrap, List.map_map] at ih ⊢; rw [ih]

/-- anchoring is neither lost nor compounded by a peel / wrap cycle -/
theorem wrap_peel_wrap (p : String) : wrapStr (peelStr (wrapStr p)) = wrapStr p := by rw [peel_wrap]

/-- `peel` on an arbitrary string: exactly one of "it is `wrap p` and is peeled to `p`" or
    "it is not of the form `wrap p` and is left alone" -/
theorem peel_spec (re : String) :
    (∃ p, re = wrapStr p ∧ peelStr re = p) ∨ ((¬ ∃ p, re = wrapStr p) ∧ peelStr re = re) := by
  rcases peelChars_spec re.toList with ⟨p, hp, hpeel⟩ | ⟨hno, hpeel⟩
  · left
    refine ⟨String.ofList p, ?_, ?_⟩
    · apply String.ext
      rw [wrapStr_toList, String.toList_ofList]
      exact hp
    · unfold peelStr
      rw [hpeel]
  · right
    constructor
    · rintro ⟨p, rfl⟩
      exact hno ⟨p.toList, wrapStr_toList p⟩
    · unfold peelStr
      rw [hpeel, String.ofList_toList]

theorem peel_idempotent_on_unwrapped (re : String) (h : ¬ ∃ p, re = wrapStr p) : peelStr re = re := by
  rcases peel_spec re with ⟨p, hp, _⟩ | ⟨_, h2⟩
  · exact absurd ⟨p, hp⟩ h
  · exact h2

example : peelStr "^(?:^(?:o.a)$)$" = "^(?:o.a)$" := by decide
example : peelStr "^(?:.*)" = "^(?:.*)" := by decide
example : peelStr "(.*)$" = "(.*)$" := by decide

/-! ### selectors -/

theorem setIsMatch_wrap (rs : List Regex) (name : String) :
    setIsMatch (rs.map wrapAst) name = true ↔ ∃ r ∈ rs, FullMatch r name.toList := by
  unfold setIsMatch FullMatch
  rw [List.any_eq_true]
  constructor
  · rintro ⟨w, hw, hs⟩
    obtain ⟨r, hr, rfl⟩ := List.mem_map.mp hw
    exact ⟨r, hr, (wrap_is_full r _).mp ((matcher_sound _ _).mp hs)⟩
  · rintro ⟨r, hr, hm⟩
    exact ⟨wrapAst r, List.mem_map.mpr ⟨r, hr, rfl⟩, (matcher_sound _ _).mpr ((wrap_is_full r _).mpr hm)⟩

/-- **an account is selected only if some pattern matches its entire name** (and every account is
    selected when no pattern is configured) -/
theorem selector_matches_whole_name (rs : List Regex) (name : String) :
    selects rs name = true ↔ rs = [] ∨ ∃ r ∈ rs, FullMatch r name.toList := by
  unfold selects
  cases rs with
  | nil => simp
  | cons r rs =>
    simp only [List.isEmpty_cons, Bool.false_eq_true, if_false]
    rw [setIsMatch_wrap]
    simp

theorem empty_selects_all (name : String) : selects [] name = true := rfl

/-- the equity export with no pattern lists exactly the non-zero accounts -/
theorem equity_empty_nonzero (name : String) (z : Bool) : equitySelEval .all name z = !z := by
  simp [equitySelEval, AccSelector.eval]

/-- every configured pattern parses (in the subset), and `rs` are their meanings -/
def parseAll : List String → Option (List Regex)
  | [] => some []
  | p :: ps =>
    match parse p with
    | none => none
    | some r =>
      match parseAll ps with
      | none => none
      | some rs => some (r :: rs)

theorem newFullHaystackSet_parsed :
    ∀ (ras : List String) (rs : List Regex), parseAll ras = some rs →
      newFullHaystackSet ras = some (rs.map wrapAst) := by
  intro ras
  induction ras with
  | nil =>
    intro rs h
    simp only [parseAll, Option.some.injEq] at h
    subst h
    rfl
  | cons p ps ih =>
    intro rs h
    simp only [parseAll] at h
    split at h
    · cases h
    · rename_i r hp
      split at h
      · cases h
      · rename_i rs' hps
        cases h
        simp only [newFullHaystackSet, newFullHaystack, parse_wrap _ _ hp, ih rs' hps, List.map_cons]

/-- the selector the reports build from pattern *strings* that parse to `rs` evaluates as `selects rs`:
    `BalanceByAccountSelector`, `RegisterByAccountSelector` and the account part of
    `BalanceNonZeroByAccountSelector` are whole-name matchers -/
theorem acc_selector_selects (ras : List String) (rs : List Regex) (h : parseAll ras = some rs) :
    ∃ sel, accSelector ras = .ok sel ∧ ∀ name, sel.eval name = selects rs name := by
  have hset := newFullHaystackSet_parsed ras rs h
  cases ras with
  | nil =>
    simp only [parseAll, Option.some.injEq] at h
    subst h
    exact ⟨.all, rfl, fun _ => rfl⟩
  | cons p ps =>
    cases rs with
    | nil =>
      simp only [parseAll] at h
      split at h
      · cases h
      · split at h
        · cases h
        · cases h
    | cons r rs' =>
      refine ⟨.byAccount ((r :: rs').map wrapAst), ?_, fun _ => rfl⟩
      unfold accSelector
      simp only [List.isEmpty_cons, Bool.false_eq_true, if_false]
      rw [hset]

/-! ### never a substring match -/

/-- a literal pattern selects exactly the account of that name -/
theorem literal_selector (p : List Char) (name : String) :
    selects [lits p] name = true ↔ name.toList = p := by
  rw [selector_matches_whole_name]
  simp only [List.cons_ne_self, List.mem_singleton, exists_eq_left, false_or, FullMatch]
  exact lits_full p name.toList

/-- a pattern equal to a proper prefix, suffix or infix of an account name does not select it,
    although a plain (unwrapped) search would have found it -/
theorem literal_part_not_selected (p pre post : List Char) (name : String)
    (hname : name.toList = pre ++ p ++ post) (hproper : pre ≠ [] ∨ post ≠ []) :
    selects [lits p] name = false ∧ search (lits p) name.toList = true := by
  constructor
  · rw [Bool.eq_false_iff]
    intro h
    have e := (literal_selector p name).mp h
    rw [hname] at e
    have hl := congrArg List.length e
    simp only [List.length_append] at hl
    rcases hproper with h1 | h1
    · exact h1 (List.eq_nil_of_length_eq_zero (by omega))
    · exact h1 (List.eq_nil_of_length_eq_zero (by omega))
  · rw [matcher_sound, lits_isMatch, hname]
    exact ⟨pre, post, rfl⟩

/-- the same through the textual path the code takes: a configured pattern without metacharacters
    selects the account whose name is the pattern, and no other -/
theorem plain_pattern_selects (p : String) (hp : ∀ c ∈ p.toList, plainChar c = true) :
    ∃ sel, accSelector [p] = .ok sel ∧ ∀ name, (sel.eval name = true ↔ name = p) := by
  have hparse : parse p = some (lits p.toList) := parseChars_lits p.toList hp
  obtain ⟨sel, hsel, heval⟩ := acc_selector_selects [p] [lits p.toList] (by simp [parseAll, hparse])
  refine ⟨sel, hsel, fun name => ?_⟩
  rw [heval, literal_selector]
  exact String.toList_inj

/-! ### non-vacuity -/

example : parse "a:(b|c).*" ≠ none := by decide
example : (parse "a:(b|c).*").map (fun r => selects [r] "a:b:x") = some true := by decide
example : (parse "a:(b|c).*").map (fun r => selects [r] "xa:b") = some false := by decide
example : (parse "a:(b|c).*").map (fun r => search r "xa:b".toList) = some true := by decide
example : (parse "a|b").map (fun r => (selects [r] "ab", selects [r] "a", search r "ab".toList)) =
    some (false, true, true) := by decide
example : (parse "^a$").map (fun r => (selects [r] "a", selects [r] "aa")) = some (true, false) := by decide
example : (parse "").map (fun r => (selects [r] "", selects [r] "a")) = some (true, false) := by decide
example : ∃ sel, accSelector ["b", "a:.*"] = .ok sel ∧ sel.eval "a:x" = true ∧ sel.eval "ab" = false :=
  ⟨_, rfl, by decide, by decide⟩

/-! ## Part B — selecting is a pure row filter (appended by the balance / register models) -/

end C11
end Tackler

import TacklerModel.Model.Selector
import TacklerModel.Model.ReportSel
import TacklerModel.Lemmas.Regex
import TacklerModel.Props.C02
import TacklerModel.Props.C03
import TacklerModel.Props.C10
/-!
# C11 — account selectors match whole account names (and never alter remaining figures)

This file has two parts.

**Part A (this section of the file): selectors match whole names.**  Theorems over
`Model/Regex.lean` (regex subset: syntax, search semantics, executable matcher, the textual wrapper
`^(?:p)$` of `tackler-rs/src/regex.rs`) and `Model/Selector.lean` (how the reports build and evaluate
their account selectors).  All statements quantify over every regex of the subset, every pattern string
and every haystack; there is no bound on lengths.

* `wrap_is_full`, `nogroup_escapes`        – what the wrapper means and why it needs the group
* `matcher_sound`, `full_sound`            – executable matcher = declarative semantics (both directions)
* `parse_wrap`                             – **ParseWrap** (DESIGN §3.3) is a theorem for the subset
* `peel_wrap`, `peeled_patterns_wrap`, `wrap_peel_wrap`, `peel_spec`, `peel_idempotent_on_unwrapped`
* `selector_matches_whole_name`, `empty_selects_all`, `acc_selector_selects`
* `literal_selector`, `literal_part_not_selected`, `plain_pattern_selects` – never a substring match

**Part B (second section of the file): selecting is a pure row filter.**  Theorems over the balance /
register / equity kernels (`Model/Balance.lean`, `Model/Register.lean`, `Model/Equity.lean`) with the
selectors plugged in the way the reports do it (`Model/ReportSel.lean`: `balanceBySel`, `registerBySel`,
`equityBySel`), for every journal, every settings state and every pattern list inside the regex subset
(`parseAll ras = some rs`):

* `balance_rowfilter`, `balance_figures_unchanged` – the listed rows are rows of the kernel's (unselected)
  balance, untouched: own sums and *full-tree* sums are those of the whole posting stream; what the selector
  can change besides the row list is only whether the delta sums are defined (`naive_rowfilter_false`)
* `balance_deltas_recomputed`   – one delta per commodity that still has a listed row, = Σ listed own sums
* `register_rowfilter`          – entries = the unselected entries with the rejected rows removed (amount and
  running total untouched), entries left without a row are not printed
* `equity_rowfilter`            – per commodity: the postings are the non-zero selected rows of the unselected
  balance with their own sums, then the recomputed balancing posting
* `selected_iff_matches`, `register_selected_iff_matches`, `equity_selected_iff_matches` – "selected" is
  `selects rs name`, i.e. (Part A) some pattern matches the entire account name
* `empty_sel_all`               – no pattern: all rows / all postings / all non-zero rows
-/
namespace Tackler
namespace C11

open Regex

/-! ## Part A — whole-name matching -/

/-! ### the wrapper -/

/-- `^(?:r)$` under unanchored search (what `Regex::is_match` does) is a whole-haystack match of `r` -/
theorem wrap_is_full (r : Regex) (s : List Char) : isMatch (wrapAst r) s ↔ Matches s r 0 s.length :=
  wrapAst_isMatch r s

/-- how `^a|b$` parses: the anchors bind tighter than `|` -/
def wrapNoGroup (a b : Regex) : Regex := .alt (.seq .bol a) (.seq b .eol)

/-- without the group a top-level alternation escapes the anchors: `^x|y$` finds `xz`, which `x|y` does not
    match as a whole -/
theorem nogroup_escapes :
    ∃ a b s, isMatch (wrapNoGroup a b) s ∧ ¬ Matches s (.alt a b) 0 s.length := by
  refine ⟨.chr (.lit 'x'), .chr (.lit 'y'), ['x', 'z'], ?_, ?_⟩
  · exact ⟨0, 1, .altL (.seq .bol (.chr _ 0 'x' rfl rfl))⟩
  · intro h
    cases h with
    | altL h => cases h
    | altR h => cases h

/-- the parser really reads `^x|y$` that way, and reads the wrapped text as the grouped form -/
example : parse "^x|y$" = some (wrapNoGroup (.chr (.lit 'x')) (.chr (.lit 'y'))) := by decide
example : parse (wrapStr "x|y") = some (wrapAst (.alt (.chr (.lit 'x')) (.chr (.lit 'y')))) := by decide

/-! ### executable matcher = semantics -/

/-- `Regex::is_match` as computed by the model is the search semantics -/
theorem matcher_sound (r : Regex) (s : List Char) : search r s = true ↔ isMatch r s := search_iff r s

theorem full_sound (r : Regex) (s : List Char) : full r s = true ↔ Matches s r 0 s.length := full_iff r s

/-- searching for the wrapped pattern is the whole-haystack matcher -/
theorem search_wrap (r : Regex) (s : List Char) : search (wrapAst r) s = full r s := search_wrapAst r s

/-! ### text of the wrapper vs its meaning -/

/-- **ParseWrap**: if `p` parses (in the subset) to `r`, then `^(?:p)$` parses to `^`·group `r`·`$`.
    (Outside the subset this fails for the real crate: F16, `(?x)a # c`.) -/
theorem parse_wrap (p : String) (r : Regex) (h : parse p = some r) :
    parse (wrapStr p) = some (wrapAst r) := parse_wrapStr p r h

/-- the converse does not hold, neither in the model nor in the crate: a selector that is not a regex
    on its own can become one when wrapped, and then the anchors no longer enclose it -/
example : parse "a)|(?:b" = none ∧
    (newFullHaystack "a)|(?:b").map (fun r => search r "ax".toList) = some true := by decide

/-- F16 is outside the modelled subset -/
example : parse "(?x)a # c" = none := by decide

/-! ### peel and wrap (strings) -/

theorem wrapStr_toList (p : String) : (wrapStr p).toList = wrapChars p.toList := by
  unfold wrapStr wrapChars wrapPre wrapSuf
  simp [String.toList_append]

/-- `peel_full_haystack_pattern(into_full_haystack_pattern(p)) == p` for every string, including
    patterns that contain the wrapper text themselves -/
theorem peel_wrap (p : String) : peelStr (wrapStr p) = p := by
  unfold peelStr
  rw [wrapStr_toList, peelChars_wrapChars, String.ofList_toList]

/-- `peeled_patterns(new_full_haystack_regex_set(ps)) == ps`: what the selector checksum and the filter
    serialiser read back is what was configured -/
theorem peeled_patterns_wrap (ps : List String) : peeledPatterns (ps.map wrapStr) = ps := by
  unfold peeledPatterns
  induction ps with
  | nil => rfl
  | cons p ps ih => simp only [List.map_cons, peel_wrap, List.map_map] at ih ⊢; rw [ih]

/-- anchoring is neither lost nor compounded by a peel / wrap cycle -/
theorem wrap_peel_wrap (p : String) : wrapStr (peelStr (wrapStr p)) = wrapStr p := by rw [peel_wrap]

/-- `peel` on an arbitrary string: exactly one of "it is `wrap p` and is peeled to `p`" or
    "it is not of the form `wrap p` and is left alone" -/
theorem peel_spec (re : String) :
    (∃ p, re = wrapStr p ∧ peelStr re = p) ∨ ((¬ ∃ p, re = wrapStr p) ∧ peelStr re = re) := by
  rcases peelChars_spec re.toList with ⟨p, hp, hpeel⟩ | ⟨hno, hpeel⟩
  · left
    refine ⟨String.ofList p, ?_, ?_⟩
    · apply String.ext
      rw [wrapStr_toList, String.toList_ofList]
      exact hp
    · unfold peelStr
      rw [hpeel]
  · right
    constructor
    · rintro ⟨p, rfl⟩
      exact hno ⟨p.toList, wrapStr_toList p⟩
    · unfold peelStr
      rw [hpeel, String.ofList_toList]

theorem peel_idempotent_on_unwrapped (re : String) (h : ¬ ∃ p, re = wrapStr p) : peelStr re = re := by
  rcases peel_spec re with ⟨p, hp, _⟩ | ⟨_, h2⟩
  · exact absurd ⟨p, hp⟩ h
  · exact h2

example : peelStr "^(?:^(?:o.a)$)$" = "^(?:o.a)$" := by decide
example : peelStr "^(?:.*)" = "^(?:.*)" := by decide
example : peelStr "(.*)$" = "(.*)$" := by decide

/-! ### selectors -/

theorem setIsMatch_wrap (rs : List Regex) (name : String) :
    setIsMatch (rs.map wrapAst) name = true ↔ ∃ r ∈ rs, FullMatch r name.toList := by
  unfold setIsMatch FullMatch
  rw [List.any_eq_true]
  constructor
  · rintro ⟨w, hw, hs⟩
    obtain ⟨r, hr, rfl⟩ := List.mem_map.mp hw
    exact ⟨r, hr, (wrap_is_full r _).mp ((matcher_sound _ _).mp hs)⟩
  · rintro ⟨r, hr, hm⟩
    exact ⟨wrapAst r, List.mem_map.mpr ⟨r, hr, rfl⟩, (matcher_sound _ _).mpr ((wrap_is_full r _).mpr hm)⟩

/-- **an account is selected only if some pattern matches its entire name** (and every account is
    selected when no pattern is configured) -/
theorem selector_matches_whole_name (rs : List Regex) (name : String) :
    selects rs name = true ↔ rs = [] ∨ ∃ r ∈ rs, FullMatch r name.toList := by
  unfold selects
  cases rs with
  | nil => simp
  | cons r rs =>
    simp only [List.isEmpty_cons, Bool.false_eq_true, if_false]
    rw [setIsMatch_wrap]
    simp

theorem empty_selects_all (name : String) : selects [] name = true := rfl

/-- the equity export with no pattern lists exactly the non-zero accounts -/
theorem equity_empty_nonzero (name : String) (z : Bool) : equitySelEval .all name z = !z := by
  simp [equitySelEval, AccSelector.eval]

/-- every configured pattern parses (in the subset), and `rs` are their meanings -/
def parseAll : List String → Option (List Regex)
  | [] => some []
  | p :: ps =>
    match parse p with
    | none => none
    | some r =>
      match parseAll ps with
      | none => none
      | some rs => some (r :: rs)

theorem newFullHaystackSet_parsed :
    ∀ (ras : List String) (rs : List Regex), parseAll ras = some rs →
      newFullHaystackSet ras = some (rs.map wrapAst) := by
  intro ras
  induction ras with
  | nil =>
    intro rs h
    simp only [parseAll, Option.some.injEq] at h
    subst h
    rfl
  | cons p ps ih =>
    intro rs h
    simp only [parseAll] at h
    split at h
    · cases h
    · rename_i r hp
      split at h
      · cases h
      · rename_i rs' hps
        cases h
        simp only [newFullHaystackSet, newFullHaystack, parse_wrap _ _ hp, ih rs' hps, List.map_cons]

/-- the selector the reports build from pattern *strings* that parse to `rs` evaluates as `selects rs`:
    `BalanceByAccountSelector`, `RegisterByAccountSelector` and the account part of
    `BalanceNonZeroByAccountSelector` are whole-name matchers -/
theorem acc_selector_selects (ras : List String) (rs : List Regex) (h : parseAll ras = some rs) :
    ∃ sel, accSelector ras = .ok sel ∧ ∀ name, sel.eval name = selects rs name := by
  have hset := newFullHaystackSet_parsed ras rs h
  cases ras with
  | nil =>
    simp only [parseAll, Option.some.injEq] at h
    subst h
    exact ⟨.all, rfl, fun _ => rfl⟩
  | cons p ps =>
    cases rs with
    | nil =>
      simp only [parseAll] at h
      split at h
      · cases h
      · split at h
        · cases h
        · cases h
    | cons r rs' =>
      refine ⟨.byAccount ((r :: rs').map wrapAst), ?_, fun _ => rfl⟩
      unfold accSelector
      simp only [List.isEmpty_cons, Bool.false_eq_true, if_false]
      rw [hset]

/-! ### never a substring match -/

/-- a literal pattern selects exactly the account of that name -/
theorem literal_selector (p : List Char) (name : String) :
    selects [lits p] name = true ↔ name.toList = p := by
  rw [selector_matches_whole_name]
  simp only [List.cons_ne_self, List.mem_singleton, exists_eq_left, false_or, FullMatch]
  exact lits_full p name.toList

/-- a pattern equal to a proper prefix, suffix or infix of an account name does not select it,
    although a plain (unwrapped) search would have found it -/
theorem literal_part_not_selected (p pre post : List Char) (name : String)
    (hname : name.toList = pre ++ p ++ post) (hproper : pre ≠ [] ∨ post ≠ []) :
    selects [lits p] name = false ∧ search (lits p) name.toList = true := by
  constructor
  · rw [Bool.eq_false_iff]
    intro h
    have e := (literal_selector p name).mp h
    rw [hname] at e
    have hl := congrArg List.length e
    simp only [List.length_append] at hl
    rcases hproper with h1 | h1
    · exact h1 (List.eq_nil_of_length_eq_zero (by omega))
    · exact h1 (List.eq_nil_of_length_eq_zero (by omega))
  · rw [matcher_sound, lits_isMatch, hname]
    exact ⟨pre, post, rfl⟩

/-- the same through the textual path the code takes: a configured pattern without metacharacters
    selects the account whose name is the pattern, and no other -/
theorem plain_pattern_selects (p : String) (hp : ∀ c ∈ p.toList, plainChar c = true) :
    ∃ sel, accSelector [p] = .ok sel ∧ ∀ name, (sel.eval name = true ↔ name = p) := by
  have hparse : parse p = some (lits p.toList) := parseChars_lits p.toList hp
  obtain ⟨sel, hsel, heval⟩ := acc_selector_selects [p] [lits p.toList] (by simp [parseAll, hparse])
  refine ⟨sel, hsel, fun name => ?_⟩
  rw [heval, literal_selector]
  exact String.toList_inj

/-! ### non-vacuity -/

example : parse "a:(b|c).*" ≠ none := by decide
example : (parse "a:(b|c).*").map (fun r => selects [r] "a:b:x") = some true := by decide
example : (parse "a:(b|c).*").map (fun r => selects [r] "xa:b") = some false := by decide
example : (parse "a:(b|c).*").map (fun r => search r "xa:b".toList) = some true := by decide
example : (parse "a|b").map (fun r => (selects [r] "ab", selects [r] "a", search r "ab".toList)) =
    some (false, true, true) := by decide
example : (parse "^a$").map (fun r => (selects [r] "a", selects [r] "aa")) = some (true, false) := by decide
example : (parse "").map (fun r => (selects [r] "", selects [r] "a")) = some (true, false) := by decide
example : ∃ sel, accSelector ["b", "a:.*"] = .ok sel ∧ sel.eval "a:x" = true ∧ sel.eval "ab" = false :=
  ⟨_, rfl, by decide, by decide⟩

/-! ## Part B — selecting is a pure row filter -/

/-! ### the selector of the three outputs, over pattern meanings -/

/-- balance / equity rows: the account is selected by the pattern meanings `rs` -/
def balSpec (rs : List Regex) (row : BalRow) : Bool := selects rs (acctName row.acct)

/-- register rows: the posting's account is selected -/
def regSpec (rs : List Regex) (row : RegRow) : Bool := selects rs (acctName row.post.acct)

/-- equity rows: non-zero own sum and selected account -/
def eqSpec (rs : List Regex) (row : BalRow) : Bool := !row.own.isZero && balSpec rs row

/-- all three outputs build the same whole-name selector from a pattern list inside the subset -/
theorem report_selector (ras : List String) (rs : List Regex) (h : parseAll ras = some rs) :
    ∃ sel, accSelector ras = .ok sel ∧ balRowSel sel = balSpec rs ∧ regRowSel sel = regSpec rs ∧
      nonZeroSel (equityAcc sel) = eqSpec rs := by
  obtain ⟨sel, hsel, hev⟩ := acc_selector_selects ras rs h
  refine ⟨sel, hsel, ?_, ?_, ?_⟩
  · funext row; simp [balRowSel, balSpec, hev]
  · funext row; simp [regRowSel, regSpec, hev]
  · funext row
    rw [nonZeroSel_equityAcc]
    simp [equityRowSel, equitySelEval, eqSpec, balSpec, hev]

/-- a row is selected iff some pattern matches the entire account name (all rows without patterns) -/
theorem balSpec_iff (rs : List Regex) (row : BalRow) :
    balSpec rs row = true ↔ rs = [] ∨ ∃ r ∈ rs, FullMatch r (acctName row.acct).toList :=
  selector_matches_whole_name rs _

theorem regSpec_iff (rs : List Regex) (row : RegRow) :
    regSpec rs row = true ↔ rs = [] ∨ ∃ r ∈ rs, FullMatch r (acctName row.post.acct).toList :=
  selector_matches_whole_name rs _

/-! ### balance -/

/-- inversion of `Balance::from_iter` -/
theorem fromIter_ok (st : Settings) (sel : BalRow → Bool) (posts : List BPost) (b : Balance) :
    fromIter st sel posts = .ok b ↔
      ∃ bal ds, balance st posts = .ok bal ∧ deltaGroups (chunkBy (·.comm) (bal.filter sel)) = some ds ∧
        b = ⟨bal.filter sel, ds⟩ := by
  unfold fromIter
  cases hb : balance st posts with
  | err => simp
  | undef => simp
  | ok bal =>
    simp only
    cases hd : deltaGroups (chunkBy (·.comm) (bal.filter sel)) with
    | none =>
      simp only [Outcome.ok.injEq, reduceCtorEq, false_iff]
      rintro ⟨bal', ds', h1, h2, -⟩
      cases h1
      rw [hd] at h2
      cases h2
    | some ds =>
      simp only [Outcome.ok.injEq]
      constructor
      · rintro rfl; exact ⟨bal, ds, rfl, hd, rfl⟩
      · rintro ⟨bal', ds', h1, h2, rfl⟩
        cases h1
        rw [hd] at h2
        cases h2
        rfl

/-- **balance_rowfilter**: `Balance::from_iter` filters *after* `Balance::balance`.
    (1) whether the run fails does not depend on the selector;
    (2) a defined selected run lists exactly the selected rows of the kernel's balance – the `BalRow` values
        themselves, so own sums and tree sums are untouched;
    (3) a defined unselected run lists all of them;
    (4) hence `rows (fromIter sel) = (rows (fromIter all)).filter sel` whenever both are defined;
    (5) given the kernel's balance, the only thing that can make the selected run undefined is its own delta
        sum over the listed rows – which is why (4) cannot be an equation between outcomes
        (`naive_rowfilter_false`: the unselected deltas may leave the exact domain while the selected ones do not). -/
theorem balance_rowfilter (st : Settings) (sel : BalRow → Bool) (posts : List BPost) :
    (fromIter st sel posts = .err ↔ balance st posts = .err) ∧
    (∀ b, fromIter st sel posts = .ok b → ∃ bal, balance st posts = .ok bal ∧ b.rows = bal.filter sel) ∧
    (∀ ball, fromIter st (fun _ => true) posts = .ok ball → balance st posts = .ok ball.rows) ∧
    (∀ b ball, fromIter st sel posts = .ok b → fromIter st (fun _ => true) posts = .ok ball →
        b.rows = ball.rows.filter sel) ∧
    (∀ bal, balance st posts = .ok bal →
        (fromIter st sel posts = .undef ↔ deltaGroups (chunkBy (·.comm) (bal.filter sel)) = none)) := by
  have hall : ∀ ball, fromIter st (fun _ => true) posts = .ok ball → balance st posts = .ok ball.rows := by
    intro ball h
    obtain ⟨bal, ds, hb, _, rfl⟩ := (fromIter_ok st _ posts ball).mp h
    have e : bal.filter (fun _ => true) = bal := List.filter_eq_self.mpr (fun _ _ => rfl)
    simp only [e]
    exact hb
  refine ⟨?_, ?_, hall, ?_, ?_⟩
  · unfold fromIter
    cases balance st posts with
    | err => simp
    | undef => simp
    | ok bal =>
      simp only
      cases deltaGroups (chunkBy (·.comm) (bal.filter sel)) <;> simp
  · intro b h
    obtain ⟨bal, ds, hb, _, rfl⟩ := (fromIter_ok st sel posts b).mp h
    exact ⟨bal, hb, rfl⟩
  · intro b ball h hb
    obtain ⟨bal, ds, hbal, _, rfl⟩ := (fromIter_ok st sel posts b).mp h
    have := hall ball hb
    rw [hbal] at this
    cases this
    rfl
  · intro bal hb
    unfold fromIter
    rw [hb]
    simp only
    cases deltaGroups (chunkBy (·.comm) (bal.filter sel)) <;> simp

/-- **balance_figures_unchanged**: every listed row is accepted by the selector and shows the exact sums over
    the *whole* posting stream: its own sum, and as tree sum the sum of all postings to the account or to any
    account below it – whether or not those accounts are listed. -/
theorem balance_figures_unchanged (st : Settings) (sel : BalRow → Bool) (posts : List BPost)
    (hwf : C02.PostsWF posts) (b : Balance) (h : fromIter st sel posts = .ok b) :
    ∀ row ∈ b.rows, sel row = true ∧ row.own.units = C02.ownSum posts row.key ∧
      row.tree.units = C02.treeSum posts row.key := by
  obtain ⟨bal, ds, hb, _, rfl⟩ := (fromIter_ok st sel posts b).mp h
  intro row hrow
  obtain ⟨hmem, hsel⟩ := List.mem_filter.mp hrow
  exact ⟨hsel, C02.own_sum st posts hwf bal hb row hmem, C02.tree_sum_posts st posts hwf bal hb row hmem⟩

/-- **balance_deltas_recomputed**: the delta lines are recomputed over the listed rows: the commodities are
    strictly increasing, a commodity has a delta line iff one of its rows is listed (a commodity all of whose rows
    are hidden loses its line), and each delta is the exact sum of the listed rows' own sums. -/
theorem balance_deltas_recomputed (st : Settings) (sel : BalRow → Bool) (posts : List BPost)
    (hwf : C02.PostsWF posts) (b : Balance) (h : fromIter st sel posts = .ok b) :
    ∃ bal, balance st posts = .ok bal ∧ b.rows = bal.filter sel ∧
      (b.deltas.map (·.1)).Pairwise (· < ·) ∧
      (∀ c, c ∈ b.deltas.map (·.1) ↔ ∃ r ∈ bal, sel r = true ∧ r.comm = c) ∧
      (∀ cd ∈ b.deltas, cd.2.units =
          ((bal.filter (fun r => sel r && decide (r.comm = cd.1))).map (·.own.units)).sum) := by
  obtain ⟨⟨bal, hb, hrows⟩, hpw, hmem, hsum⟩ := C02.delta_eq st sel posts hwf b h
  refine ⟨bal, hb, hrows, hpw, ?_, ?_⟩
  · intro c
    rw [hmem c, hrows]
    constructor
    · rintro ⟨r, hr, hc⟩
      obtain ⟨h1, h2⟩ := List.mem_filter.mp hr
      exact ⟨r, h1, h2, hc⟩
    · rintro ⟨r, h1, h2, hc⟩
      exact ⟨r, List.mem_filter.mpr ⟨h1, h2⟩, hc⟩
  · intro cd hcd
    rw [hsum cd hcd, hrows, List.filter_filter]
    congr 3
    funext r
    exact Bool.and_comm _ _

/-! ### register -/

/-- **register_rowfilter**: with the account selector plugged in, the register is the register without
    selector with the rejected rows removed entry by entry – same `Outcome` (it exists exactly when the
    unselected one does), every shown row is a row of the unselected run (posting, amount, running total,
    commodity untouched) – and the entries that are printed are those that still have a row. -/
theorem register_rowfilter (sel : AccSelector) (txns : List Txn) :
    register (regRowSel sel) txns = (register selAll txns).map (fun es => es.map (C03.hide (regRowSel sel))) ∧
    ∀ es, register selAll txns = .ok es →
      ∃ es', register (regRowSel sel) txns = .ok es' ∧
        printedEntries es' = (es.map (C03.hide (regRowSel sel))).filter (fun e => !e.rows.isEmpty) ∧
        ∀ e' ∈ printedEntries es', ∃ e ∈ es, e'.txn = e.txn ∧ e'.rows = e.rows.filter (regRowSel sel) ∧
          e'.rows ≠ [] ∧ ∀ r ∈ e'.rows, r ∈ e.rows :=
  ⟨C03.selector_only_hides _ txns, fun es h => by
    obtain ⟨es', h1, h2, h3⟩ := C03.selector_printed (regRowSel sel) txns es h
    refine ⟨es', h1, h2, ?_⟩
    intro e' he'
    obtain ⟨e, he, g1, g2, g3⟩ := h3 e' he'
    refine ⟨e, he, g1, g2, g3, ?_⟩
    intro r hr
    rw [g2] at hr
    exact (List.mem_filter.mp hr).1⟩

/-- **register_totals_unchanged**: with the account selector every shown row is accepted by it, is the row of an
    in-entry position `j` of transaction `i`, and shows as running total the exact sum of *all* postings to its
    (commodity, account) up to that position – postings of hidden rows are accumulated all the same
    (`C03.running_total_selected` at the account selector). -/
theorem register_totals_unchanged (sel : AccSelector) (txns : List Txn) (es : List RegEntry) (hwf : C03.TxnsWF txns)
    (h : register (regRowSel sel) txns = .ok es) :
    es.length = txns.length ∧
    ∀ i e, es[i]? = some e → ∃ t, txns[i]? = some t ∧ e.txn = t ∧
      ∀ r ∈ e.rows, sel.eval (acctName r.post.acct) = true ∧
        ∃ j p, (C03.sortedPosts t)[j]? = some p ∧ r.post = p ∧ r.comm = p.comm ∧
          r.total.units = C03.postSum p.acctnKey ((txns.take i).flatMap (·.posts))
                            + C03.postSum p.acctnKey ((C03.sortedPosts t).take (j + 1)) :=
  C03.running_total_selected (regRowSel sel) txns es hwf h

/-- the rows of the unselected register that a pattern list keeps, entries without a kept row dropped -/
def keptEntries (rs : List Regex) (es : List RegEntry) : List RegEntry :=
  (es.map (C03.hide (regSpec rs))).filter (fun e => !e.rows.isEmpty)

/-- **register_selected_iff_matches**: what the register report writes for a pattern list inside the subset is,
    as an equation between outcomes, the unselected register with exactly the rows kept whose account some
    pattern matches entirely (all rows when there is no pattern). -/
theorem register_selected_iff_matches (ras : List String) (rs : List Regex) (txns : List Txn)
    (hp : parseAll ras = some rs) :
    registerBySel ras txns = (register selAll txns).map (keptEntries rs) ∧
    ∀ es e, register selAll txns = .ok es → e ∈ es → ∀ r ∈ e.rows,
      (r ∈ (C03.hide (regSpec rs) e).rows ↔ rs = [] ∨ ∃ x ∈ rs, FullMatch x (acctName r.post.acct).toList) := by
  obtain ⟨sel, hsel, _, hreg, _⟩ := report_selector ras rs hp
  constructor
  · unfold registerBySel
    rw [hsel]
    simp only
    rw [hreg, C03.selector_only_hides]
    cases register selAll txns <;> simp [Outcome.map, keptEntries, printedEntries]
  · intro es e _ _ r hr
    rw [← regSpec_iff]
    simp [C03.hide, List.mem_filter, hr]

/-! ### equity -/

/-- **equity_rowfilter**: the export has one transaction per commodity (strictly increasing) in which the
    unselected balance has a non-zero row the selector accepts; its postings are exactly those rows, in balance
    order, with amount = the row's own sum (the `BalRow` of the unselected balance, untouched), followed by the
    balancing posting, which is recomputed: (equity account, −Σ of the listed own sums) iff Σ ≠ 0. -/
theorem equity_rowfilter (st : Settings) (sel : AccSelector) (eqa : Path) (md : List String)
    (txns : List Txn) (out : List EqTxn) (hwf : C10.TxnsWF txns)
    (h : equityExport st (equityAcc sel) eqa md txns = .ok out) :
    ∃ all cs, balance st (postsOf txns) = .ok all ∧
      cs.Pairwise (· < ·) ∧ (∀ c, c ∈ cs ↔ ∃ r ∈ all, equityRowSel sel r = true ∧ r.comm = c) ∧
      C10.Forall2 (fun c t => ∃ last, txns.getLast? = some last ∧
                 C10.IsEquityTxn eqa last.header md (all.filter (equityRowSel sel)) c t) cs out := by
  obtain ⟨all, cs, hall, hpw, hcs, hf⟩ := C10.equity_shape st (equityAcc sel) eqa md txns out hwf h
  have hsel : C10.selRows (equityAcc sel) all = all.filter (equityRowSel sel) := by
    unfold C10.selRows
    congr 1
    funext row
    exact nonZeroSel_equityAcc sel row
  rw [hsel] at hcs hf
  refine ⟨all, cs, hall, hpw, ?_, hf⟩
  intro c
  rw [hcs c]
  constructor
  · rintro ⟨r, hr, hc⟩
    obtain ⟨h1, h2⟩ := List.mem_filter.mp hr
    exact ⟨r, h1, h2, hc⟩
  · rintro ⟨r, h1, h2, hc⟩
    exact ⟨r, List.mem_filter.mpr ⟨h1, h2⟩, hc⟩

/-- **equity_selected_iff_matches**: for a pattern list inside the subset the carried-forward rows are the
    non-zero rows whose account some pattern matches entirely. -/
theorem equity_selected_iff_matches (st : Settings) (ras : List String) (rs : List Regex) (eqa : Path)
    (md : List String) (txns : List Txn) (out : List EqTxn) (hp : parseAll ras = some rs)
    (hwf : C10.TxnsWF txns) (h : equityBySel st ras eqa md txns = .ok out) :
    ∃ all cs, balance st (postsOf txns) = .ok all ∧
      cs.Pairwise (· < ·) ∧ (∀ c, c ∈ cs ↔ ∃ r ∈ all, eqSpec rs r = true ∧ r.comm = c) ∧
      C10.Forall2 (fun c t => ∃ last, txns.getLast? = some last ∧
                 C10.IsEquityTxn eqa last.header md (all.filter (eqSpec rs)) c t) cs out ∧
      ∀ row ∈ all, (row ∈ all.filter (eqSpec rs) ↔
        row.own.isZero = false ∧ (rs = [] ∨ ∃ x ∈ rs, FullMatch x (acctName row.acct).toList)) := by
  obtain ⟨sel, hsel, _, _, heq⟩ := report_selector ras rs hp
  unfold equityBySel at h
  rw [hsel] at h
  simp only at h
  obtain ⟨all, cs, hall, hpw, hcs, hf⟩ := equity_rowfilter st sel eqa md txns out hwf h
  have hfun : equityRowSel sel = eqSpec rs := by
    rw [← heq]; funext row; exact (nonZeroSel_equityAcc sel row).symm
  rw [hfun] at hcs hf
  refine ⟨all, cs, hall, hpw, hcs, hf, ?_⟩
  intro row hrow
  rw [← balSpec_iff]
  simp [List.mem_filter, hrow, eqSpec]

/-! ### balance: selected = matched -/

/-- **selected_iff_matches**: for a pattern list inside the subset a defined balance report lists exactly the
    rows of the unselected balance whose account is selected by the pattern meanings, i.e. (Part A,
    `selector_matches_whole_name`) whose entire account name is matched by some pattern; everything of
    `balance_rowfilter` / `balance_figures_unchanged` / `balance_deltas_recomputed` applies with that filter. -/
theorem selected_iff_matches (st : Settings) (ras : List String) (rs : List Regex) (posts : List BPost)
    (hp : parseAll ras = some rs) :
    balanceBySel st ras posts = fromIter st (balSpec rs) posts ∧
    ∀ b, balanceBySel st ras posts = .ok b →
      ∃ bal, balance st posts = .ok bal ∧ b.rows = bal.filter (balSpec rs) ∧
        ∀ row ∈ bal, (row ∈ b.rows ↔ selects rs (acctName row.acct) = true) ∧
          (row ∈ b.rows ↔ rs = [] ∨ ∃ r ∈ rs, FullMatch r (acctName row.acct).toList) := by
  obtain ⟨sel, hsel, hbal, _, _⟩ := report_selector ras rs hp
  have heq : balanceBySel st ras posts = fromIter st (balSpec rs) posts := by
    unfold balanceBySel
    rw [hsel]
    simp only
    rw [hbal]
  refine ⟨heq, ?_⟩
  intro b hb
  rw [heq] at hb
  obtain ⟨bal, hbal', hrows⟩ := (balance_rowfilter st (balSpec rs) posts).2.1 b hb
  refine ⟨bal, hbal', hrows, ?_⟩
  intro row hrow
  have h1 : row ∈ b.rows ↔ selects rs (acctName row.acct) = true := by
    rw [hrows]; simp [List.mem_filter, hrow, balSpec]
  exact ⟨h1, h1.trans (selector_matches_whole_name rs _)⟩

/-! ### no pattern configured -/

/-- **empty_sel_all**: with an empty pattern list the balance report is the unselected `from_iter` (all rows of
    the kernel's balance), the register prints every entry that has a posting, with all its rows, and the equity
    export carries forward all non-zero rows. -/
theorem empty_sel_all (st : Settings) (posts : List BPost) (txns : List Txn) (eqa : Path) (md : List String) :
    balanceBySel st [] posts = fromIter st (fun _ => true) posts ∧
    (∀ b, balanceBySel st [] posts = .ok b → balance st posts = .ok b.rows) ∧
    registerBySel [] txns = (register selAll txns).map printedEntries ∧
    equityBySel st [] eqa md txns = equityExport st none eqa md txns ∧
    (∀ out, C10.TxnsWF txns → equityBySel st [] eqa md txns = .ok out →
      ∃ all cs, balance st (postsOf txns) = .ok all ∧ cs.Pairwise (· < ·) ∧
        (∀ c, c ∈ cs ↔ ∃ r ∈ all, r.own.isZero = false ∧ r.comm = c) ∧
        C10.Forall2 (fun c t => ∃ last, txns.getLast? = some last ∧
          C10.IsEquityTxn eqa last.header md (all.filter (fun r => !r.own.isZero)) c t) cs out) := by
  have e1 : balanceBySel st [] posts = fromIter st (fun _ => true) posts := rfl
  refine ⟨e1, ?_, rfl, rfl, ?_⟩
  · intro b hb
    rw [e1] at hb
    exact (balance_rowfilter st (fun _ => true) posts).2.2.1 b hb
  · intro out hwf h
    have h' : equityExport st (equityAcc .all) eqa md txns = .ok out := h
    obtain ⟨all, cs, hall, hpw, hcs, hf⟩ := equity_rowfilter st .all eqa md txns out hwf h'
    have hfun : equityRowSel .all = fun r : BalRow => !r.own.isZero := by
      funext r; simp [equityRowSel, equitySelEval, AccSelector.eval]
    rw [hfun] at hcs hf
    refine ⟨all, cs, hall, hpw, ?_, hf⟩
    intro c
    rw [hcs c]
    simp

/-! ### non-vacuity and witnesses (journal of `Props/C02.lean`: `a 2`, `a:b:c 1.50`, `e -3.50` EUR;
    `a:b:c 7`, `a:bc -7` USD) -/

open C02 in
/-- the pattern `a:b` lists the rows of `a:b` only (not `a`, `a:b:c`, `a:bc`, which it matches in part), with the
    figures of the unselected run: the never-posted `a:b` keeps its full tree sums 1.50 EUR and 7 USD -/
example : (balanceBySel st0 ["a:b"] posts0).map (fun b => b.rows.map (fun r => (r.comm, acctName r.acct, r.own, r.tree)))
    = .ok [("EUR", "a:b", Dec.zero, dd 150 2), ("USD", "a:b", Dec.zero, dd 7 0)] := by
  have hs : accSelector ["a:b"] = .ok (.byAccount [Regex.wrapAst (Regex.lits "a:b".toList)]) := by decide
  unfold balanceBySel
  rw [hs]; simp only
  unfold fromIter
  rw [ex_balance]; simp only
  decide

open C02 in
/-- a parent listed without its children: the tree sum of `a` is still 3.50 EUR (the full tree); the deltas are
    recomputed over the listed rows: 2 EUR and 0 USD -/
example : (balanceBySel st0 ["a"] posts0).map (fun b => (b.rows.map (fun r => (r.comm, acctName r.acct, r.own, r.tree)), b.deltas))
    = .ok ([("EUR", "a", dd 2 0, dd 350 2), ("USD", "a", Dec.zero, dd 0 0)], [("EUR", dd 2 0), ("USD", Dec.zero)]) := by
  have hs : accSelector ["a"] = .ok (.byAccount [Regex.wrapAst (Regex.lits "a".toList)]) := by decide
  unfold balanceBySel
  rw [hs]; simp only
  unfold fromIter
  rw [ex_balance]; simp only
  decide

open C02 in
/-- a selector hiding every USD row: the USD delta line disappears -/
example : (balanceBySel st0 ["e|a"] posts0).map (fun b => b.deltas.map (·.1)) = .ok ["EUR", "USD"] ∧
    (balanceBySel st0 ["e"] posts0).map (fun b => b.deltas.map (·.1)) = .ok ["EUR"] := by
  have h1 : accSelector ["e|a"] = .ok (.byAccount [Regex.wrapAst (.alt (Regex.lits "e".toList) (Regex.lits "a".toList))]) := by
    decide
  have h2 : accSelector ["e"] = .ok (.byAccount [Regex.wrapAst (Regex.lits "e".toList)]) := by decide
  constructor
  · unfold balanceBySel
    rw [h1]; simp only
    unfold fromIter
    rw [ex_balance]; simp only
    decide
  · unfold balanceBySel
    rw [h2]; simp only
    unfold fromIter
    rw [ex_balance]; simp only
    decide

open C03 in
/-- register with the pattern `b|c` on the journal of `Props/C03.lean`: rows of `a` are hidden, the running totals
    of `b` (-10, -5, -6) and `c` are those of the full report -/
example : registerBySel ["b|c"] [tx1, tx2, tx3]
    = .ok [⟨tx1, [row "b" (-10) (-10)]⟩, ⟨tx2, [row "b" 5 (-5)]⟩, ⟨tx3, [row "b" (-1) (-6), row "c" 1 1]⟩] := by
  have hs : accSelector ["b|c"] = .ok (.byAccount [Regex.wrapAst (.alt (Regex.lits "b".toList) (Regex.lits "c".toList))]) := by
    decide
  unfold registerBySel
  rw [hs]; simp only
  rw [selector_only_hides, example_register]
  decide

open C03 in
/-- the pattern `c` alone: the entries of `tx1` and `tx2` are left without a row and are not printed -/
example : registerBySel ["c"] [tx1, tx2, tx3] = .ok [⟨tx3, [row "c" 1 1]⟩] := by
  have hs : accSelector ["c"] = .ok (.byAccount [Regex.wrapAst (Regex.lits "c".toList)]) := by decide
  unfold registerBySel
  rw [hs]; simp only
  rw [selector_only_hides, example_register]
  decide

open C10 in
/-- equity export with the pattern `a|c` on the journal of `Props/C10.lean`: `b` and `e` are not carried forward,
    the balancing postings are recomputed (-3 and -7) -/
example : equityBySel st1 ["a|c"] ["Eq"] [] j1 = .ok [
   ⟨⟨2, 0⟩, "Equity: last txn (uuid): u2", [], [⟨["a"], d 3, ""⟩, ⟨["Eq"], d (-3), ""⟩]⟩,
   ⟨⟨2, 0⟩, "Equity for EUR: last txn (uuid): u2", [],
    [⟨["a"], d 5, "EUR"⟩, ⟨["c"], d 2, "EUR"⟩, ⟨["Eq"], d (-7), "EUR"⟩]⟩] := by
  have hs : accSelector ["a|c"] = .ok (.byAccount [Regex.wrapAst (.alt (Regex.lits "a".toList) (Regex.lits "c".toList))]) := by
    decide
  unfold equityBySel
  rw [hs]; simp only
  unfold equityExport fromIter
  rw [balance_j1]
  decide

/-- a pattern outside the modelled subset: all three outputs are undefined in the model (never a made-up row list) -/
example : balanceBySel C02.st0 ["(?i)a"] C02.posts0 = .undef ∧ registerBySel ["(?i)a"] [] = .undef ∧
    equityBySel C02.st0 ["(?i)a"] ["Eq"] [] [] = .undef := by decide

/-- the hypotheses of the theorems are satisfiable: `a:(b|c).*` and `e` are inside the subset -/
example : parseAll ["a:(b|c).*", "e"] ≠ none := by decide

/-- two roots holding 2⁹⁶−1 each: the unselected deltas leave the exact domain, the delta of `a` alone does not -/
def big : Dec := ⟨false, 79228162514264337593543950335, 0⟩
def postsBig : List BPost := [⟨["a"], "", big⟩, ⟨["b"], "", big⟩]
def rowsBig : List BalRow := [⟨["a"], "", big, big⟩, ⟨["b"], "", big, big⟩]

theorem balance_big : balance C02.st0 postsBig = .ok rowsBig := by
  have h1 : postsBig.mergeSort (fun a b => keyLe a.key b.key) = postsBig := List.mergeSort_of_pairwise (by decide)
  have h2 : accountSums postsBig = some [(("", ["a"]), big), (("", ["b"]), big)] := by
    unfold accountSums; rw [h1]; decide
  have h3 : completeTree C02.st0 [(("", ["a"]), big), (("", ["b"]), big)]
      = .ok [(("", ["a"]), big), (("", ["b"]), big)] := by decide
  have h4 : rowsBig.mergeSort (fun a b => keyLe a.key b.key) = rowsBig := List.mergeSort_of_pairwise (by decide)
  have h5 : flattenOpt (([(("", ["a"]), big), (("", ["b"]), big)].filter (fun s => s.1.2.length == 1)).map
      (treeNodes [(("", ["a"]), big), (("", ["b"]), big)] (maxDepth [(("", ["a"]), big), (("", ["b"]), big)] + 1)))
      = some rowsBig := by decide
  unfold balance
  rw [h2]; simp only
  rw [h3]; simp only
  rw [h5]; simp only
  rw [h4]

/-- **naive_rowfilter_false**: "the selected run is the unselected run with rows filtered" is *not* an equation
    between outcomes: here the unselected run is undefined (its delta 2·(2⁹⁶−1) is not representable) while the
    run selecting `a` is defined.  `balance_rowfilter` is therefore stated against the kernel's balance. -/
theorem naive_rowfilter_false :
    ∃ (st : Settings) (sel : BalRow → Bool) (posts : List BPost),
      fromIter st (fun _ => true) posts = .undef ∧
      (fromIter st sel posts).map (·.rows) = .ok ((rowsBig).filter sel) ∧
      (fromIter st sel posts).map (·.rows) ≠ (fromIter st (fun _ => true) posts).map (fun b => b.rows.filter sel) := by
  refine ⟨C02.st0, fun r => r.acct == ["a"], postsBig, ?_, ?_, ?_⟩
  · unfold fromIter; rw [balance_big]; decide
  · unfold fromIter; rw [balance_big]; decide
  · unfold fromIter; rw [balance_big]; decide

end C11
end Tackler

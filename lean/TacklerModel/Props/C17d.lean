import TacklerModel.Model.BalanceLayout
import TacklerModel.Props.C17
/-!
# C17 (continued) — the column layout is display only

`Model/BalanceLayout` is the balance report's text, character for character (tied line by line to the real report
in C17's runner).  The theorems here say that the layout never touches a figure: whatever the widths derived from the
balance are, every row prints both of its figures in full (`rowLine_shows_figures`), every delta line prints its figure
in full (`deltaLine_shows_figure`), padding only adds blanks (`padL_eq`), the report has exactly one line per row, one
ruler and one line per delta (`bodyLines_length`), and an empty balance prints nothing after the title
(`bodyLines_empty`).  So a figure can be mis-aligned by the layout but never shortened, rounded again or dropped.
-/
namespace Tackler
namespace C17
open BalLayout

theorem padL_length_ge (w : Nat) (s : List Char) : s.length ≤ (padL w s).length := by
  simp [padL, spaces]

/-- `{:>w$}` writes some blanks and then the whole text -/
theorem padL_eq (w : Nat) (s : List Char) : ∃ n, padL w s = List.replicate n ' ' ++ s :=
  ⟨w - s.length, rfl⟩

/-- when the text fits the field is exactly `w` wide: figures of one column end at the same position -/
theorem padL_length (w : Nat) (s : List Char) (h : s.length ≤ w) : (padL w s).length = w := by
  simp [padL, spaces]; omega

/-- a wider text is written as it is -/
theorem padL_wide (w : Nat) (s : List Char) (h : w ≤ s.length) : padL w s = s := by
  simp [padL, spaces, Nat.sub_eq_zero_of_le h]

theorem foldl_max_ge (l : List Nat) : ∀ (a : Nat), a ≤ l.foldl max a := by
  induction l with
  | nil => intro a; exact Nat.le_refl a
  | cons x xs ih => intro a; exact Nat.le_trans (Nat.le_max_left a x) (ih (max a x))

theorem foldl_max_mem (l : List Nat) : ∀ (a x : Nat), x ∈ l → x ≤ l.foldl max a := by
  induction l with
  | nil => intro a x h; cases h
  | cons y ys ih =>
    intro a x h
    simp only [List.foldl_cons]
    rcases List.mem_cons.mp h with rfl | h'
    · exact Nat.le_trans (Nat.le_max_right a x) (foldl_max_ge ys (max a x))
    · exact ih (max a y) x h'

/-- `.fold(0, max)` is an upper bound of every term -/
theorem le_maxOf (l : List Nat) (x : Nat) (h : x ∈ l) : x ≤ maxOf l := foldl_max_mem l 0 x h

/-- the left column is at least 12 wide and wide enough for every unrounded delta as `Display` writes it -/
theorem widths_left (sc : Scale) (b : Balance) :
    12 ≤ (widths sc b).left ∧ ∀ cd ∈ b.deltas, cd.2.toChars.length ≤ (widths sc b).left := by
  refine ⟨Nat.le_max_left _ _, ?_⟩
  intro cd hcd
  have h1 : cd.2.toChars.length ≤ maxDeltaLen b.deltas :=
    le_maxOf _ _ (List.mem_map.mpr ⟨cd, hcd, rfl⟩)
  exact Nat.le_trans h1 (Nat.le_trans (Nat.le_max_right _ _) (Nat.le_max_right _ _))

/-- **Rows print both figures in full.**  Whatever the widths: blanks, the own figure, blanks, the tree figure, the
    commodity field and the account name. -/
theorem rowLine_shows_figures (sc : Scale) (w : Widths) (r : BalRow) :
    ∃ n₁ n₂, rowLine sc w r =
      List.replicate n₁ ' ' ++ shownChars sc r.own ++ List.replicate n₂ ' ' ++ shownChars sc r.tree
        ++ commField w.comm r.comm ++ (acctName r.acct).toList := by
  refine ⟨9 + (w.left - (shownChars sc r.own).length),
    (fillerLen w.comm - 0) + (w.tree - (shownChars sc r.tree).length), ?_⟩
  rw [← List.replicate_append_replicate, ← List.replicate_append_replicate]
  simp only [rowLine, padL, spaces, List.append_assoc, List.append_nil, List.length_nil]

/-- **Delta lines print their figure in full**, followed by the commodity if there is one. -/
theorem deltaLine_shows_figure (sc : Scale) (w : Widths) (cd : String × Dec) :
    ∃ n, deltaLine sc w cd =
      List.replicate n ' ' ++ shownChars sc cd.2 ++ (if cd.1 = "" then [] else ' ' :: cd.1.toList) := by
  refine ⟨9 + (w.left - (shownChars sc cd.2).length), ?_⟩
  rw [← List.replicate_append_replicate]
  simp only [deltaLine, padL, spaces, List.append_assoc]

/-- an empty balance prints nothing after the title -/
theorem bodyLines_empty (sc : Scale) (b : Balance) (h : b.rows = []) : bodyLines sc b = [] := by
  simp [bodyLines, h]

/-- one line per row, one ruler, one line per delta — no row or delta is dropped or repeated by the layout -/
theorem bodyLines_length (sc : Scale) (b : Balance) (h : b.rows ≠ []) :
    (bodyLines sc b).length = b.rows.length + 1 + b.deltas.length := by
  have : b.rows.isEmpty = false := by
    cases hr : b.rows with
    | nil => exact absurd hr h
    | cons _ _ => rfl
  simp [bodyLines, this]; omega

/-- the i-th line is the i-th row's line: rows are printed in the balance's order -/
theorem bodyLines_row (sc : Scale) (b : Balance) (i : Nat) (hi : i < b.rows.length) :
    (bodyLines sc b)[i]? = some (rowLine sc (widths sc b) b.rows[i]) := by
  have hne : b.rows.isEmpty = false := by
    cases hr : b.rows with
    | nil => rw [hr] at hi; cases hi
    | cons _ _ => rfl
  simp only [bodyLines, hne, Bool.false_eq_true, if_false, List.append_assoc]
  rw [List.getElem?_append_left (by simpa using hi)]
  simp [hi]

/-- **Alignment.**  Every row whose own figure fits the left column ends that figure at character `9 + left`
    (the same position for all such rows and for the `=` ruler's start of the commodity part). -/
theorem rowLine_own_column (sc : Scale) (w : Widths) (r : BalRow) (h : (shownChars sc r.own).length ≤ w.left) :
    ∃ rest, rowLine sc w r = (spaces 9 ++ padL w.left (shownChars sc r.own)) ++ rest ∧
      (spaces 9 ++ padL w.left (shownChars sc r.own)).length = 9 + w.left := by
  refine ⟨padL (fillerLen w.comm) [] ++ padL w.tree (shownChars sc r.tree) ++ commField w.comm r.comm
    ++ (acctName r.acct).toList, ?_, ?_⟩
  · simp only [rowLine, List.append_assoc]
  · rw [List.length_append, padL_length _ _ h]; simp [spaces]

/-- the ruler spans the left ruler, the left column and (if any commodity is shown) the commodity column -/
theorem rulerLine_length (w : Widths) :
    (rulerLine w).length = 9 + w.left + (if w.comm = 0 then 0 else w.comm + 1) := by
  simp [rulerLine]

/-- non-vacuity: a figure wider than its column is written whole (`padL_wide`), a narrower one right-aligned -/
example : padL 3 "12345".toList = "12345".toList ∧ padL 7 "-1.50".toList = "  -1.50".toList := by decide

end C17
end Tackler

import TacklerModel.Props.C03
/-!
# C03 (continued) — the register is stable under growth of the journal

"Exact running totals" has a history reading that the per-row theorems of `Props/C03.lean` do not spell out:
the rows printed for the first transactions of the canonical order depend on *those* transactions only.
Appending later transactions (a longer journal, a further batch) never changes an entry that was already
there, never drops one and never reorders them; and a failure (an inexact sum, `Outcome.undef`) in a prefix
is a failure of the whole.  A block-wise or cached register engine that restarted, reused or pre-added totals
across a block border would break one of these statements.

All statements are for every selector, every stream of converted items and every cutting point.
-/
namespace Tackler
namespace C03

/-- the engine on `a ++ b` succeeds only if it succeeds on `a`, and then its entries start with those of `a` -/
theorem registerLoop_append (sel : RegRow → Bool) :
    ∀ (a b : List (Txn × List RItem)) (m : RegMap) (es : List RegEntry),
      registerLoop sel m (a ++ b) = some es →
      ∃ ea eb, registerLoop sel m a = some ea ∧ es = ea ++ eb ∧ ea.length = a.length ∧ eb.length = b.length := by
  intro a
  induction a with
  | nil =>
    intro b m es h
    refine ⟨[], es, rfl, rfl, rfl, ?_⟩
    -- length of the engine's result
    induction b generalizing m es with
    | nil => simp [registerLoop] at h; subst h; rfl
    | cons x rest ih =>
      obtain ⟨t, items⟩ := x
      simp only [List.nil_append, registerLoop] at h
      cases h1 : registerTxn sel m t items with
      | none => simp [h1] at h
      | some me =>
        obtain ⟨m', e⟩ := me
        simp only [h1] at h
        cases h2 : registerLoop sel m' rest with
        | none => simp [h2] at h
        | some es' =>
          simp only [h2, Option.some.injEq] at h
          subst h
          have := ih m' es' (by simpa using h2)
          simp [this]
  | cons x rest ih =>
    intro b m es h
    obtain ⟨t, items⟩ := x
    simp only [List.cons_append, registerLoop] at h
    cases h1 : registerTxn sel m t items with
    | none => simp [h1] at h
    | some me =>
      obtain ⟨m', e⟩ := me
      simp only [h1] at h
      cases h2 : registerLoop sel m' (rest ++ b) with
      | none => simp [h2] at h
      | some es' =>
        simp only [h2, Option.some.injEq] at h
        subst h
        obtain ⟨ea, eb, hea, hes, hla, hlb⟩ := ih b m' es' h2
        refine ⟨e :: ea, eb, ?_, ?_, ?_, hlb⟩
        · simp [registerLoop, h1, hea]
        · simp [hes]
        · simp [hla]

/-- **Prefix stability (stream form).**  The register of a longer stream extends the register of every prefix:
    entries already printed are never changed, dropped or reordered by what follows. -/
theorem register_prefix_stream (sel : RegRow → Bool) (a b : List (Txn × List RItem)) (es : List RegEntry)
    (h : registerEngine sel (a ++ b) = .ok es) :
    ∃ ea eb, registerEngine sel a = .ok ea ∧ es = ea ++ eb ∧ ea.length = a.length ∧ eb.length = b.length := by
  unfold registerEngine at h ⊢
  cases h1 : registerLoop sel RegMap.empty (a ++ b) with
  | none => simp [h1, Outcome.ofOption] at h
  | some es' =>
    simp only [h1, Outcome.ofOption, Outcome.ok.injEq] at h
    subst h
    obtain ⟨ea, eb, hea, hes, hla, hlb⟩ := registerLoop_append sel a b RegMap.empty es' h1
    exact ⟨ea, eb, by simp [hea, Outcome.ofOption], hes, hla, hlb⟩

/-- **Prefix stability.**  For transactions in canonical order: the register of `a ++ b` begins with exactly
    the register of `a`, one entry per transaction. -/
theorem register_prefix (sel : RegRow → Bool) (a b : List Txn) (es : List RegEntry)
    (h : register sel (a ++ b) = .ok es) :
    ∃ ea eb, register sel a = .ok ea ∧ es = ea ++ eb ∧ ea.length = a.length ∧ eb.length = b.length := by
  unfold register plainStream at h ⊢
  rw [List.map_append] at h
  obtain ⟨ea, eb, hea, hes, hla, hlb⟩ := register_prefix_stream sel _ _ es h
  exact ⟨ea, eb, hea, hes, by simpa using hla, by simpa using hlb⟩

/-- the `i`-th entry of the register of a journal is the `i`-th entry of the register of any prefix holding it -/
theorem register_entry_stable (sel : RegRow → Bool) (a b : List Txn) (es ea : List RegEntry) (i : Nat)
    (h : register sel (a ++ b) = .ok es) (ha : register sel a = .ok ea) (hi : i < a.length) :
    es[i]? = ea[i]? := by
  obtain ⟨ea', eb, hea, hes, hla, _⟩ := register_prefix sel a b es h
  rw [ha] at hea
  cases hea
  subst hes
  rw [List.getElem?_append_left (by omega)]

/-- a prefix outside the exact domain puts the whole register outside it: no success "past" a failed sum -/
theorem register_prefix_fails (sel : RegRow → Bool) (a b : List Txn)
    (h : ∀ ea, register sel a ≠ .ok ea) : ∀ es, register sel (a ++ b) ≠ .ok es := by
  intro es hes
  obtain ⟨ea, _, hea, _⟩ := register_prefix sel a b es hes
  exact h ea hea

/-- non-vacuity: the sample register of `Props/C03` extends the register of its first two transactions -/
example : ∃ ea eb, register selAll [tx1, tx2] = .ok ea ∧
    register selAll ([tx1, tx2] ++ [tx3]) = .ok (ea ++ eb) ∧ ea.length = 2 ∧ eb.length = 1 := by
  obtain ⟨es, hes⟩ : ∃ es, register selAll ([tx1, tx2] ++ [tx3]) = .ok es := ⟨_, example_register⟩
  obtain ⟨ea, eb, h1, h2, h3, h4⟩ := register_prefix selAll [tx1, tx2] [tx3] es hes
  exact ⟨ea, eb, h1, by rw [hes, h2], h3, h4⟩

end C03
end Tackler

import TacklerModel.Model.Price
import TacklerModel.Lemmas.Dec
/-!
# C07 — price conversion applies the documented rate, and only that rate

Specification (`RateAt`): the rate for `src → tgt` under a time condition `P` is the price-db entry
`src → tgt` with the greatest instant among those whose instant satisfies `P`;
`P := (· ≤ txn instant)` (txn-time), `(· < given)` (given-time), `True` (last-price).

Theorems (all for an arbitrary price file `es`, with `db = loadDb es`, arbitrary transactions):
* `loadDb_sorted`, `loadDb_subset`, `loadDb_perm_of_distinct`, `db_order_free`
* `fixed_rate`   – the fixed cache of `make_ctx` holds `RateAt` for every used commodity
* `timed_rate`   – the entry picked by the real binary search (`core::slice::binary_search_by` loop) is `RateAt … (· ≤ instant)`
* `convert_value`, `convert_value_units`, `convert_never_err` – what `convert_prices_inner` returns
* `no_invented`  – a changed posting was valued with a rate that is literally in the price file for (its commodity → report commodity)
* `metadata_true`, `metadata_rateAt` – fixed lookups: the metadata records are exactly the rates applied
* `metadata_timed` – txn-time: the metadata names exactly the used commodities that have an entry into the report commodity
* `result_order_free` – converted figures and metadata do not depend on the order of the price file
-/
namespace Tackler
namespace C07
open Tackler.Price

/-! ## 1. the order of price entries -/

theorem entryLe_total (a b : PriceEntry) : (entryLe a b || entryLe b a) = true := by
  unfold entryLe; grind

theorem entryLe_trans (a b c : PriceEntry) : entryLe a b = true → entryLe b c = true → entryLe a c = true := by
  unfold entryLe; grind

theorem entryEq_iff (a b : PriceEntry) :
    entryEq a b = true ↔ a.ns = b.ns ∧ a.base = b.base ∧ a.target = b.target := by
  unfold entryEq; grind

theorem entryEq_symm (a b : PriceEntry) : entryEq a b = entryEq b a := by
  unfold entryEq; grind

theorem entryLe_antisymm (a b : PriceEntry) : entryLe a b = true → entryLe b a = true → entryEq a b = true := by
  unfold entryLe entryEq; grind

/-- strictly smaller key (instant, base, target) -/
def keyLt (a b : PriceEntry) : Prop := entryLe a b = true ∧ entryEq a b = false

theorem keyLt_asymm (a b : PriceEntry) : keyLt a b → keyLt b a → False := by
  unfold keyLt; intro h1 h2
  have := entryLe_antisymm a b h1.1 h2.1
  simp [h1.2] at this

theorem keyLt_ns_le (a b : PriceEntry) : keyLt a b → a.ns ≤ b.ns := by
  unfold keyLt entryLe; grind

/-- two entries of the same pair are ordered by their instants -/
theorem keyLt_same_pair (a b : PriceEntry) (hb : a.base = b.base) (ht : a.target = b.target) :
    keyLt a b → a.ns < b.ns := by
  unfold keyLt entryLe entryEq; grind

theorem keyLt_of_le_of_lt (a b c : PriceEntry) : entryLe a b = true → keyLt b c → keyLt a c := by
  unfold keyLt entryLe entryEq; grind

/-- the (instant, base, target) keys of a price file are distinct -/
def DistinctKeys (es : List PriceEntry) : Prop := es.Pairwise (fun a b => entryEq a b = false)

/-! ## 2. `loadDb`: sorted, one entry per key, nothing invented, independent of the file order -/

theorem dedupFrom_sublist : ∀ (l : List PriceEntry) (a : PriceEntry), (dedupFrom a l).Sublist (a :: l) := by
  intro l
  induction l with
  | nil => intro a; simp [dedupFrom]
  | cons b t ih =>
    intro a
    simp only [dedupFrom]
    split
    · exact (ih a).trans (List.Sublist.cons_cons a (List.sublist_cons_self b t))
    · exact List.Sublist.cons_cons a (ih b)

theorem dedup_sublist (l : List PriceEntry) : (dedup l).Sublist l := by
  cases l with
  | nil => simp [dedup]
  | cons a t => exact dedupFrom_sublist t a

theorem dedupFrom_sorted : ∀ (l : List PriceEntry) (a : PriceEntry),
    (a :: l).Pairwise (fun x y => entryLe x y = true) → (dedupFrom a l).Pairwise keyLt := by
  intro l
  induction l with
  | nil => intro a _; simp [dedupFrom]
  | cons b t ih =>
    intro a h
    simp only [dedupFrom]
    have hab : entryLe a b = true := (List.pairwise_cons.mp h).1 b List.mem_cons_self
    have hbt : (b :: t).Pairwise (fun x y => entryLe x y = true) := (List.pairwise_cons.mp h).2
    split
    · apply ih a
      exact h.sublist (List.Sublist.cons_cons a (List.sublist_cons_self b t))
    · rename_i hne
      have hne' : entryEq a b = false := by simpa using hne
      refine List.pairwise_cons.mpr ⟨?_, ih b hbt⟩
      intro x hx
      have hx' : x ∈ b :: t := (dedupFrom_sublist t b).subset hx
      have hbx : entryLe b x = true ∨ x = b := by
        rcases List.mem_cons.mp hx' with rfl | hxt
        · exact Or.inr rfl
        · exact Or.inl ((List.pairwise_cons.mp hbt).1 x hxt)
      rcases hbx with hbx | rfl
      · have hax := entryLe_trans a b x hab hbx
        refine ⟨hax, ?_⟩
        cases hq : entryEq a x with
        | false => rfl
        | true =>
          -- x has the key of a, and b lies between: b has it too
          have hxa : entryLe x a = true := by
            have := (entryEq_iff a x).mp hq
            unfold entryLe; grind
          have hba := entryLe_trans b x a hbx hxa
          have := entryLe_antisymm a b hab hba
          simp [hne'] at this
      · exact ⟨hab, hne'⟩

theorem dedup_sorted (l : List PriceEntry) (h : l.Pairwise (fun x y => entryLe x y = true)) :
    (dedup l).Pairwise keyLt := by
  cases l with
  | nil => simp [dedup]
  | cons a t => exact dedupFrom_sorted t a h

theorem dedupFrom_id : ∀ (l : List PriceEntry) (a : PriceEntry), (a :: l).Pairwise keyLt → dedupFrom a l = a :: l := by
  intro l
  induction l with
  | nil => intro a _; rfl
  | cons b t ih =>
    intro a h
    have hab : keyLt a b := (List.pairwise_cons.mp h).1 b List.mem_cons_self
    simp only [dedupFrom, hab.2]
    simp [ih b (List.pairwise_cons.mp h).2]

theorem dedup_id (l : List PriceEntry) (h : l.Pairwise keyLt) : dedup l = l := by
  cases l with
  | nil => rfl
  | cons a t => exact dedupFrom_id t a h

theorem mergeSort_sorted (es : List PriceEntry) :
    (es.mergeSort entryLe).Pairwise (fun x y => entryLe x y = true) :=
  List.pairwise_mergeSort entryLe_trans entryLe_total es

/-- the loaded db is strictly increasing in (instant, base, target): sorted, one entry per key -/
theorem loadDb_sorted (es : List PriceEntry) : (loadDb es).Pairwise keyLt :=
  dedup_sorted _ (mergeSort_sorted es)

/-- every entry of the loaded db is an entry of the price file -/
theorem loadDb_subset (es : List PriceEntry) (e : PriceEntry) (h : e ∈ loadDb es) : e ∈ es :=
  List.mem_mergeSort.mp ((dedup_sublist _).subset h)

/-- uniqueness of sorted lists up to permutation (strict order: asymmetry suffices) -/
theorem sorted_perm_eq {α} (lt : α → α → Prop) (asymm : ∀ a b, lt a b → lt b a → False) :
    ∀ (l₁ l₂ : List α), l₁.Perm l₂ → l₁.Pairwise lt → l₂.Pairwise lt → l₁ = l₂ := by
  intro l₁
  induction l₁ with
  | nil => intro l₂ p _ _; exact (List.Perm.nil_eq p)
  | cons a t ih =>
    intro l₂ p s1 s2
    cases l₂ with
    | nil => exact absurd p.symm (by simp)
    | cons b u =>
      have ha : a ∈ b :: u := p.subset (List.mem_cons_self)
      have hb : b ∈ a :: t := p.symm.subset (List.mem_cons_self)
      have hab : a = b := by
        rcases List.mem_cons.mp ha with h | h
        · exact h
        · rcases List.mem_cons.mp hb with h' | h'
          · exact h'.symm
          · exact (asymm a b ((List.pairwise_cons.mp s1).1 b h') ((List.pairwise_cons.mp s2).1 a h)).elim
      subst hab
      congr 1
      exact ih u (List.Perm.cons_inv p) (List.pairwise_cons.mp s1).2 (List.pairwise_cons.mp s2).2

theorem mergeSort_strict (es : List PriceEntry) (hd : DistinctKeys es) : (es.mergeSort entryLe).Pairwise keyLt := by
  have hs := mergeSort_sorted es
  have hd' : DistinctKeys (es.mergeSort entryLe) :=
    (List.Perm.pairwise_iff (fun {a b} (h : entryEq a b = false) => by rw [entryEq_symm]; exact h)
      (List.mergeSort_perm es entryLe)).mpr hd
  exact List.Pairwise.and hs hd' |>.imp (fun h => h)

/-- with distinct keys nothing is dropped: the loaded db is a permutation of the price file -/
theorem loadDb_perm_of_distinct (es : List PriceEntry) (hd : DistinctKeys es) : (loadDb es).Perm es := by
  unfold loadDb
  rw [dedup_id _ (mergeSort_strict es hd)]
  exact List.mergeSort_perm es entryLe

/-- **db_order_free**: the loaded db does not depend on the order of the entries in the price file -/
theorem db_order_free (es es' : List PriceEntry) (hp : es.Perm es') (hd : DistinctKeys es) :
    loadDb es = loadDb es' := by
  have hd' : DistinctKeys es' :=
    (List.Perm.pairwise_iff (fun {a b} (h : entryEq a b = false) => by rw [entryEq_symm]; exact h) hp).mp hd
  have h1 := mergeSort_strict es hd
  have h2 := mergeSort_strict es' hd'
  have hperm : (es.mergeSort entryLe).Perm (es'.mergeSort entryLe) :=
    (List.mergeSort_perm es entryLe).trans (hp.trans (List.mergeSort_perm es' entryLe).symm)
  unfold loadDb
  rw [sorted_perm_eq keyLt keyLt_asymm _ _ hperm h1 h2]

/-! ## 3. the specification -/

/-- `RateAt db src tgt P r`: `r` is the entry `src → tgt` of `db` with the greatest instant among those whose
    instant satisfies `P` (`none`: there is no such entry) -/
def RateAt (db : List PriceEntry) (src tgt : String) (P : Int → Prop) : Option PriceEntry → Prop
  | some e => e ∈ db ∧ e.base = src ∧ e.target = tgt ∧ P e.ns ∧
      ∀ e' ∈ db, e'.base = src → e'.target = tgt → P e'.ns → e'.ns ≤ e.ns
  | none => ∀ e' ∈ db, e'.base = src → e'.target = tgt → ¬ P e'.ns

/-- the time condition of each lookup type (`txnNs`: instant of the transaction being converted) -/
def lookupPred (lk : PriceLookup) (txnNs : Int) : Int → Prop :=
  match lk with
  | .none => fun _ => False
  | .txnTime => fun n => n ≤ txnNs
  | .lastPrice => fun _ => True
  | .givenTime g => fun n => n < g

theorem mem_eq_of_key (db : List PriceEntry) (hs : db.Pairwise keyLt) (a b : PriceEntry)
    (ha : a ∈ db) (hb : b ∈ db) (hk : entryEq a b = true) : a = b := by
  induction db with
  | nil => cases ha
  | cons x t ih =>
    have hx := (List.pairwise_cons.mp hs).1
    rcases List.mem_cons.mp ha with rfl | ha' <;> rcases List.mem_cons.mp hb with rfl | hb'
    · rfl
    · have := (hx b hb').2; simp [hk] at this
    · have := (hx a ha').2; rw [entryEq_symm] at this; simp [hk] at this
    · exact ih (List.pairwise_cons.mp hs).2 ha' hb'

/-- on a loaded db the specification determines the rate -/
theorem RateAt_unique (db : List PriceEntry) (hs : db.Pairwise keyLt) (src tgt : String) (P : Int → Prop)
    (r₁ r₂ : Option PriceEntry) (h₁ : RateAt db src tgt P r₁) (h₂ : RateAt db src tgt P r₂) : r₁ = r₂ := by
  cases r₁ with
  | none =>
    cases r₂ with
    | none => rfl
    | some e => exact absurd h₂.2.2.2.1 (h₁ e h₂.1 h₂.2.1 h₂.2.2.1)
  | some e₁ =>
    cases r₂ with
    | none => exact absurd h₁.2.2.2.1 (h₂ e₁ h₁.1 h₁.2.1 h₁.2.2.1)
    | some e₂ =>
      obtain ⟨m1, b1, t1, p1, x1⟩ := h₁
      obtain ⟨m2, b2, t2, p2, x2⟩ := h₂
      have l1 := x1 e₂ m2 b2 t2 p2
      have l2 := x2 e₁ m1 b1 t1 p1
      have hk : entryEq e₁ e₂ = true := (entryEq_iff e₁ e₂).mpr ⟨by omega, by rw [b1, b2], by rw [t1, t2]⟩
      rw [mem_eq_of_key db hs e₁ e₂ m1 m2 hk]

/-! ## 4. containers -/

theorem mapGet_filter_ne {β} (m : List (String × β)) (k k' : String) :
    mapGet (m.filter (fun kv => kv.1 != k)) k' = if k' = k then none else mapGet m k' := by
  induction m with
  | nil => simp [mapGet]
  | cons kv t ih =>
    obtain ⟨a, v⟩ := kv
    by_cases hak : a = k
    · subst hak
      simp only [List.filter_cons, bne_self_eq_false, Bool.false_eq_true, if_false, ih, mapGet]
      by_cases hk : k' = a
      · simp [hk]
      · have : (a == k') = false := by simpa using (fun h => hk h.symm)
        simp [hk, this]
    · have : (a != k) = true := by simpa using hak
      simp only [List.filter_cons, this, if_true, mapGet, ih]
      by_cases hk : k' = k
      · subst hk
        have : (a == k') = false := by simpa using hak
        simp [this]
      · simp [hk]

theorem mapGet_insert {β} (m : List (String × β)) (k k' : String) (v : β) :
    mapGet (mapInsert m k v) k' = if k' = k then some v else mapGet m k' := by
  unfold mapInsert
  simp only [mapGet, mapGet_filter_ne]
  by_cases hk : k' = k
  · subst hk; simp
  · have : (k == k') = false := by simpa using (fun h => hk h.symm)
    simp [hk, this]

/-- keys of the list model of a map -/
def keys {β} (m : List (String × β)) : List String := m.map (·.1)

theorem keys_insert_nodup {β} (m : List (String × β)) (k : String) (v : β) (h : (keys m).Nodup) :
    (keys (mapInsert m k v)).Nodup := by
  unfold mapInsert keys
  simp only [List.map_cons, List.nodup_cons]
  refine ⟨?_, ?_⟩
  · intro hm
    obtain ⟨kv, hkv, hk⟩ := List.mem_map.mp hm
    have := (List.mem_filter.mp hkv).2
    simp [hk] at this
  · exact (List.filter_sublist.map _).nodup h

theorem mem_iff_mapGet {β} (m : List (String × β)) (h : (keys m).Nodup) (k : String) (v : β) :
    (k, v) ∈ m ↔ mapGet m k = some v := by
  induction m with
  | nil => simp [mapGet]
  | cons kv t ih =>
    obtain ⟨a, w⟩ := kv
    have hn := List.nodup_cons.mp h
    simp only [mapGet, List.mem_cons, Prod.mk.injEq]
    by_cases hak : a = k
    · subst hak
      simp only [beq_self_eq_true, if_true, Option.some.injEq]
      constructor
      · rintro (⟨_, rfl⟩ | hm)
        · rfl
        · exact absurd (List.mem_map.mpr ⟨(a, v), hm, rfl⟩) hn.1
      · rintro rfl; simp
    · have : (a == k) = false := by simpa using hak
      simp only [this, Bool.false_eq_true, if_false]
      rw [← ih hn.2]
      constructor
      · rintro (⟨rfl, _⟩ | hm)
        · exact absurd rfl hak
        · exact hm
      · exact Or.inr

theorem mem_btreeSet (l : List String) (c : String) : c ∈ btreeSet l ↔ c ∈ l := by
  unfold btreeSet
  rw [List.mem_eraseDups, List.mem_mergeSort]

/-- the commodities to convert: those of the postings of the set, except the report commodity -/
theorem mem_usedCommodities (txns : List Txn) (tgt c : String) :
    c ∈ usedCommodities txns tgt ↔ c ≠ tgt ∧ ∃ t ∈ txns, ∃ p ∈ t.posts, p.comm = c := by
  unfold usedCommodities
  rw [mem_btreeSet, List.mem_filter, List.mem_map]
  constructor
  · rintro ⟨⟨p, hp, rfl⟩, hne⟩
    obtain ⟨t, ht, hpt⟩ := List.mem_flatMap.mp hp
    exact ⟨by simpa using hne, t, ht, p, hpt, rfl⟩
  · rintro ⟨hne, t, ht, p, hp, rfl⟩
    exact ⟨⟨p, List.mem_flatMap.mpr ⟨t, ht, hp⟩, rfl⟩, by simpa using hne⟩

/-! ## 5. fixed lookups (`last-price`, `given-time`) -/

theorem getLast?_max {α} (R : α → α → Prop) : ∀ (l : List α) (e : α), l.Pairwise R → l.getLast? = some e →
    e ∈ l ∧ ∀ x ∈ l, x = e ∨ R x e := by
  intro l
  induction l with
  | nil => intro e _ h; simp at h
  | cons a t ih =>
    intro e hp h
    cases t with
    | nil =>
      simp at h; subst h
      exact ⟨List.mem_cons_self, fun x hx => Or.inl (by simpa using hx)⟩
    | cons b u =>
      have h' : (b :: u).getLast? = some e := by simpa [List.getLast?_cons_cons] using h
      obtain ⟨hm, hx⟩ := ih e (List.pairwise_cons.mp hp).2 h'
      refine ⟨List.mem_cons_of_mem _ hm, ?_⟩
      intro x hxm
      rcases List.mem_cons.mp hxm with rfl | hxt
      · exact Or.inr ((List.pairwise_cons.mp hp).1 e hm)
      · exact hx x hxt

/-- `collect()` into the hash map: the binding of `k` is the last entry of base `k` -/
theorem mapGet_foldl_insert : ∀ (l : List PriceEntry) (m : List (String × (Int × Dec))) (k : String),
    mapGet (l.foldl (fun m e => mapInsert m e.base (e.ns, e.rate)) m) k =
      match (l.filter (fun e => e.base == k)).getLast? with
      | some e => some (e.ns, e.rate)
      | none => mapGet m k := by
  intro l
  induction l with
  | nil => intro m k; simp
  | cons a t ih =>
    intro m k
    simp only [List.foldl_cons, ih, List.filter_cons]
    by_cases hak : a.base = k
    · subst hak
      simp only [beq_self_eq_true, if_true, List.getLast?_cons, mapGet_insert]
      cases (List.filter (fun e => e.base == a.base) t).getLast? <;> simp
    · have : (a.base == k) = false := by simpa using hak
      simp only [this, Bool.false_eq_true, if_false, mapGet_insert]
      have hk : ¬ k = a.base := fun h => hak h.symm
      cases (List.filter (fun e => e.base == k) t).getLast? <;> simp [hk]

theorem keys_foldl_nodup : ∀ (l : List PriceEntry) (m : List (String × (Int × Dec))), (keys m).Nodup →
    (keys (l.foldl (fun m e => mapInsert m e.base (e.ns, e.rate)) m)).Nodup := by
  intro l
  induction l with
  | nil => intro m h; simpa using h
  | cons a t ih => intro m h; exact ih _ (keys_insert_nodup m _ _ h)

/-- the rate the fixed cache holds for a commodity, as a price entry -/
def fixedEntry (m : List (String × (Int × Dec))) (src tgt : String) : Option PriceEntry :=
  (mapGet m src).map (fun c => ⟨c.1, src, c.2, tgt⟩)

def boundPred (bound : Option Int) : Int → Prop :=
  match bound with
  | some b => fun n => n < b
  | none => fun _ => True

theorem beforeBound_iff (bound : Option Int) (n : Int) : beforeBound bound n = true ↔ boundPred bound n := by
  cases bound <;> simp [beforeBound, boundPred]

/-- the fixed cache built by `make_ctx` holds, for every used commodity, exactly `RateAt` -/
theorem fixedCache_spec (db : List PriceEntry) (hs : db.Pairwise keyLt) (used : List String) (tgt : String)
    (bound : Option Int) (src : String) (hu : src ∈ used) :
    RateAt db src tgt (boundPred bound) (fixedEntry (fixedCache used tgt bound db) src tgt) := by
  unfold fixedEntry fixedCache
  rw [mapGet_foldl_insert]
  generalize hG : (List.filter (fun e => e.base == src)
    (List.filter (fun e => used.contains e.base && e.target == tgt && beforeBound bound e.ns) db)) = G
  have hmemG : ∀ e, e ∈ G ↔ e ∈ db ∧ e.base = src ∧ e.target = tgt ∧ boundPred bound e.ns := by
    intro e
    rw [← hG, List.mem_filter, List.mem_filter]
    simp only [Bool.and_eq_true, beq_iff_eq, List.contains_iff_mem, beforeBound_iff]
    constructor
    · rintro ⟨⟨hm, ⟨_, ht⟩, hb⟩, hbase⟩; exact ⟨hm, hbase, ht, hb⟩
    · rintro ⟨hm, hbase, ht, hb⟩; exact ⟨⟨hm, ⟨by rw [hbase]; exact hu, ht⟩, hb⟩, hbase⟩
  have hGs : G.Pairwise keyLt := by
    rw [← hG]; exact (hs.sublist List.filter_sublist).sublist List.filter_sublist
  cases hl : G.getLast? with
  | none =>
    have : G = [] := by simpa using hl
    simp only [mapGet, Option.map_none]
    intro e' he' hb ht hp
    have : e' ∈ G := (hmemG e').mpr ⟨he', hb, ht, hp⟩
    simp_all
  | some e =>
    obtain ⟨hm, hx⟩ := getLast?_max keyLt G e hGs hl
    obtain ⟨hdb, hb, ht, hp⟩ := (hmemG e).mp hm
    have he : (⟨e.ns, src, e.rate, tgt⟩ : PriceEntry) = e := by
      cases e; simp_all
    simp only [Option.map_some, he]
    refine ⟨hdb, hb, ht, hp, ?_⟩
    intro e' he' hb' ht' hp'
    rcases hx e' ((hmemG e').mpr ⟨he', hb', ht', hp'⟩) with rfl | hlt
    · exact Int.le_refl _
    · exact keyLt_ns_le _ _ hlt

theorem fixedCache_unused (db : List PriceEntry) (used : List String) (tgt : String) (bound : Option Int)
    (src : String) (hu : src ∉ used) : mapGet (fixedCache used tgt bound db) src = none := by
  unfold fixedCache
  rw [mapGet_foldl_insert]
  have : (List.filter (fun e => e.base == src)
    (List.filter (fun e => used.contains e.base && e.target == tgt && beforeBound bound e.ns) db)) = [] := by
    rw [List.filter_eq_nil_iff]
    intro e he
    have := (List.mem_filter.mp he).2
    simp only [Bool.and_eq_true, List.contains_iff_mem] at this
    intro hb
    have hb' : e.base = src := by simpa using hb
    exact hu (hb' ▸ this.1.1)
  rw [this]
  simp [mapGet]

/-- the entry of the context's fixed cache for a commodity -/
def ctxFixedEntry (ctx : Ctx) (src tgt : String) : Option PriceEntry :=
  match ctx.cache with
  | .fixed m => fixedEntry m src tgt
  | .timed _ => none

/-- **fixed_rate**: under `last-price` and `given-time` the context holds, for every commodity used by the
    transaction set (other than the report commodity), the entry `src → tgt` with the greatest instant
    (last-price) resp. the greatest instant strictly before the given one (given-time) -/
theorem fixed_rate (es : List PriceEntry) (txns : List Txn) (tgt : String) (lk : PriceLookup)
    (hlk : lk = .lastPrice ∨ ∃ g, lk = .givenTime g) (src : String) (hsrc : src ∈ usedCommodities txns tgt)
    (anyNs : Int) :
    RateAt (loadDb es) src tgt (lookupPred lk anyNs)
      (ctxFixedEntry (makeCtx lk txns (some tgt) (loadDb es)) src tgt) := by
  rcases hlk with rfl | ⟨g, rfl⟩
  · exact fixedCache_spec (loadDb es) (loadDb_sorted es) _ tgt none src hsrc
  · exact fixedCache_spec (loadDb es) (loadDb_sorted es) _ tgt (some g) src hsrc

/-! ## 6. txn-time lookup: the real binary search -/

/-- inside the cache of one commodity the comparator of `binary_search_by_key` compares instants -/
theorem cmpKey_same (e : PriceEntry) (k : Int) (comm : String) (h : e.base = comm) :
    (cmpKey e k comm = .gt ↔ k < e.ns) ∧ (cmpKey e k comm = .eq ↔ e.ns = k) ∧
      (cmpKey e k comm = .lt ↔ e.ns < k) := by
  subst h
  unfold cmpKey
  have := String.lt_irrefl e.base
  grind

/-- loop invariant of `binary_search_by`: everything left of `base` is ≤ k, `l[base] ≤ k` unless `base` is
    still 0, everything from `base + size` on is > k -/
theorem bsLoop_spec (l : List PriceEntry) (k : Int) (comm : String)
    (hs : ∀ i j, i < j → j < l.length → l[i]!.ns < l[j]!.ns)
    (hb : ∀ i, i < l.length → l[i]!.base = comm) :
    ∀ fuel base size, size ≤ fuel → 0 < size → base + size ≤ l.length →
      (∀ i, i < base → l[i]!.ns ≤ k) → (0 < base → l[base]!.ns ≤ k) →
      (∀ j, base + size ≤ j → j < l.length → k < l[j]!.ns) →
      bsLoop l k comm fuel base size < l.length ∧
      (∀ i, i < bsLoop l k comm fuel base size → l[i]!.ns ≤ k) ∧
      (0 < bsLoop l k comm fuel base size → l[bsLoop l k comm fuel base size]!.ns ≤ k) ∧
      (∀ j, bsLoop l k comm fuel base size < j → j < l.length → k < l[j]!.ns) := by
  intro fuel
  induction fuel with
  | zero => intro base size h1 h2; omega
  | succ fuel ih =>
    intro base size hf hpos hbd hleft hbase hright
    unfold bsLoop
    by_cases h1 : size ≤ 1
    · simp only [h1, if_true]
      have : size = 1 := by omega
      subst this
      exact ⟨by omega, hleft, hbase, fun j hj hj2 => hright j (by omega) hj2⟩
    · simp only [h1, if_false]
      have hhalf : 0 < size / 2 := Nat.div_pos (by omega) (by decide)
      have hhalf2 : size / 2 < size := Nat.div_lt_self (by omega) (by decide)
      have hmidlt : base + size / 2 < l.length := by omega
      have hc := cmpKey_same l[base + size / 2]! k comm (hb _ hmidlt)
      by_cases hgt : cmpKey l[base + size / 2]! k comm = .gt
      · simp only [hgt, if_true]
        have hgt' : k < l[base + size / 2]!.ns := hc.1.mp hgt
        apply ih base (size - size / 2) (by omega) (by omega) (by omega) hleft hbase
        intro j hj hj2
        by_cases hj3 : base + size ≤ j
        · exact hright j hj3 hj2
        · rcases Nat.lt_or_ge (base + size / 2) j with hlt | hge
          · have := hs (base + size / 2) j hlt hj2; omega
          · have : j = base + size / 2 := by omega
            subst this; exact hgt'
      · simp only [hgt, if_false]
        have hle : l[base + size / 2]!.ns ≤ k := by
          have : ¬ k < l[base + size / 2]!.ns := fun h => hgt (hc.1.mpr h)
          omega
        apply ih (base + size / 2) (size - size / 2) (by omega) (by omega) (by omega)
        · intro i hi
          have := hs i (base + size / 2) hi hmidlt; omega
        · intro _; exact hle
        · intro j hj hj2; exact hright j (by omega) hj2

/-- the index used by `convert_prices_inner` (`Ok(i) => Some(i)`, `Err(i) => i.checked_sub(1)`) is the
    latest entry at or before `k`; `None` iff every entry is later -/
theorem searchIdx_spec (l : List PriceEntry) (k : Int) (comm : String)
    (hs : ∀ i j, i < j → j < l.length → l[i]!.ns < l[j]!.ns)
    (hb : ∀ i, i < l.length → l[i]!.base = comm) :
    match searchIdx l k comm with
    | some i => i < l.length ∧ l[i]!.ns ≤ k ∧ ∀ j, i < j → j < l.length → k < l[j]!.ns
    | none => ∀ j, j < l.length → k < l[j]!.ns := by
  unfold searchIdx binarySearch
  by_cases h0 : l.length = 0
  · simp [h0]
  · simp only [h0, if_false]
    have hspec := bsLoop_spec l k comm hs hb l.length 0 l.length (Nat.le_refl _) (by omega) (by omega)
      (fun i hi => by omega) (fun h => by omega) (fun j hj hj2 => by omega)
    generalize bsLoop l k comm l.length 0 l.length = b at hspec
    obtain ⟨hbl, hleft, hbase, hright⟩ := hspec
    have hc := cmpKey_same l[b]! k comm (hb b hbl)
    by_cases heq : cmpKey l[b]! k comm = .eq
    · simp only [heq, if_true]
      have := hc.2.1.mp heq
      exact ⟨hbl, by omega, hright⟩
    · simp only [heq, if_false]
      by_cases hlt : cmpKey l[b]! k comm = .lt
      · simp only [hlt, if_true]
        have := hc.2.2.mp hlt
        have hne : ¬ (b + 1 = 0) := by omega
        simp only [hne, if_false, Nat.add_sub_cancel]
        exact ⟨hbl, by omega, hright⟩
      · simp only [hlt, if_false]
        have hgt : k < l[b]!.ns := by
          have h1 : ¬ l[b]!.ns = k := fun h => heq (hc.2.1.mpr h)
          have h2 : ¬ l[b]!.ns < k := fun h => hlt (hc.2.2.mpr h)
          omega
        by_cases hb0 : b = 0
        · simp only [hb0, if_true]
          intro j hj
          rcases Nat.eq_zero_or_pos j with h | h
          · subst h; subst hb0; exact hgt
          · subst hb0; exact hright j h hj
        · have hbpos : 0 < b := by omega
          exact absurd (hbase hbpos) (by omega)

/-- on a loaded db the stable re-sort by time of one pair's entries changes nothing -/
theorem commCache_eq (db : List PriceEntry) (hs : db.Pairwise keyLt) (comm tgt : String) :
    commCache comm tgt db = db.filter (fun e => comm == e.base && e.target == tgt) := by
  unfold commCache
  apply List.mergeSort_of_pairwise
  have := hs.sublist (List.filter_sublist (p := fun e => comm == e.base && e.target == tgt))
  exact this.imp (fun {a b} h => by simpa using keyLt_ns_le a b h)

theorem mapGet_foldl_timed (tgt : String) (db : List PriceEntry) :
    ∀ (used : List String) (m : List (String × List PriceEntry)) (k : String),
    mapGet (used.foldl (fun m comm => if (commCache comm tgt db).isEmpty then m
        else mapInsert m comm (commCache comm tgt db)) m) k =
      if k ∈ used ∧ (commCache k tgt db).isEmpty = false then some (commCache k tgt db) else mapGet m k := by
  intro used
  induction used with
  | nil => intro m k; simp
  | cons a t ih =>
    intro m k
    simp only [List.foldl_cons, ih, List.mem_cons]
    by_cases hkt : k ∈ t ∧ (commCache k tgt db).isEmpty = false
    · have : (k = a ∨ k ∈ t) ∧ (commCache k tgt db).isEmpty = false := ⟨Or.inr hkt.1, hkt.2⟩
      rw [if_pos hkt, if_pos this]
    · rw [if_neg hkt]
      by_cases hka : k = a
      · subst hka
        cases he : (commCache k tgt db).isEmpty with
        | true => simp
        | false => simp [mapGet_insert]
      · have hne : ¬ ((k = a ∨ k ∈ t) ∧ (commCache k tgt db).isEmpty = false) := by
          rintro ⟨h | h, h2⟩
          · exact hka h
          · exact hkt ⟨h, h2⟩
        simp only [hne, if_false]
        split
        · rfl
        · simp [mapGet_insert, hka]

/-- the entry the timed cache yields for a commodity at instant `ns` (cache hit, then binary search) -/
def timedEntry (m : List (String × List PriceEntry)) (ns : Int) (src : String) : Option PriceEntry :=
  match mapGet m src with
  | some cc =>
    match searchIdx cc ns src with
    | some i => some cc[i]!
    | none => none
  | none => none

theorem timedCache_spec (db : List PriceEntry) (hs : db.Pairwise keyLt) (used : List String) (tgt : String)
    (src : String) (hu : src ∈ used) (ns : Int) :
    RateAt db src tgt (fun n => n ≤ ns) (timedEntry (timedCache used tgt db) ns src) := by
  unfold timedEntry timedCache
  rw [mapGet_foldl_timed, commCache_eq db hs]
  generalize hC : db.filter (fun e => src == e.base && e.target == tgt) = C
  have hmemC : ∀ e, e ∈ C ↔ e ∈ db ∧ e.base = src ∧ e.target = tgt := by
    intro e
    rw [← hC, List.mem_filter]
    simp only [Bool.and_eq_true, beq_iff_eq]
    constructor
    · rintro ⟨hm, hb, ht⟩; exact ⟨hm, hb.symm, ht⟩
    · rintro ⟨hm, hb, ht⟩; exact ⟨hm, hb.symm, ht⟩
  have hCs : C.Pairwise keyLt := by rw [← hC]; exact hs.sublist List.filter_sublist
  have hget : ∀ i (h : i < C.length), C[i]! = C[i] := fun i h => getElem!_pos C i h
  have hidx : ∀ i j, i < j → j < C.length → C[i]!.ns < C[j]!.ns := by
    intro i j hij hj
    have hi : i < C.length := by omega
    rw [hget i hi, hget j hj]
    have hlt := (List.pairwise_iff_getElem.mp hCs) i j hi hj hij
    have h1 := (hmemC C[i]).mp (List.getElem_mem hi)
    have h2 := (hmemC C[j]).mp (List.getElem_mem hj)
    exact keyLt_same_pair _ _ (by rw [h1.2.1, h2.2.1]) (by rw [h1.2.2, h2.2.2]) hlt
  have hbase : ∀ i, i < C.length → C[i]!.base = src := by
    intro i hi; rw [hget i hi]; exact ((hmemC C[i]).mp (List.getElem_mem hi)).2.1
  cases hemp : C.isEmpty with
  | true =>
    have : C = [] := by simpa using hemp
    simp only [hu, true_and, Bool.true_eq_false, if_false, mapGet]
    intro e' he' hb ht _
    have : e' ∈ C := (hmemC e').mpr ⟨he', hb, ht⟩
    simp_all
  | false =>
    simp only [hu, true_and, if_true]
    have hsp := searchIdx_spec C ns src hidx hbase
    cases hsi : searchIdx C ns src with
    | none =>
      rw [hsi] at hsp
      simp only
      intro e' he' hb ht hp
      obtain ⟨j, hj, rfl⟩ := List.mem_iff_getElem.mp ((hmemC e').mpr ⟨he', hb, ht⟩)
      have := hsp j hj
      rw [hget j hj] at this
      omega
    | some i =>
      rw [hsi] at hsp
      obtain ⟨hi, hle, hright⟩ := hsp
      simp only
      have hm := (hmemC C[i]).mp (List.getElem_mem hi)
      rw [hget i hi] at hle ⊢
      refine ⟨hm.1, hm.2.1, hm.2.2, hle, ?_⟩
      intro e' he' hb ht hp
      obtain ⟨j, hj, rfl⟩ := List.mem_iff_getElem.mp ((hmemC e').mpr ⟨he', hb, ht⟩)
      rcases Nat.lt_trichotomy j i with hji | hji | hji
      · have := hidx j i hji hi
        rw [hget j hj, hget i hi] at this; omega
      · subst hji; exact Int.le_refl _
      · have := hright j hji hj
        rw [hget j hj] at this
        omega

theorem timedCache_unused (db : List PriceEntry) (used : List String) (tgt : String) (src : String)
    (hu : src ∉ used) : mapGet (timedCache used tgt db) src = none := by
  unfold timedCache
  rw [mapGet_foldl_timed]
  simp [hu, mapGet]

def ctxTimedEntry (ctx : Ctx) (ns : Int) (src : String) : Option PriceEntry :=
  match ctx.cache with
  | .timed m => timedEntry m ns src
  | .fixed _ => none

/-- **timed_rate**: under `txn-time` the entry found by the binary search of `convert_prices_inner` for a
    posting in commodity `src` of a transaction at instant `ns` is the entry `src → tgt` with the greatest
    instant at or before `ns` -/
theorem timed_rate (es : List PriceEntry) (txns : List Txn) (tgt : String) (src : String)
    (hsrc : src ∈ usedCommodities txns tgt) (ns : Int) :
    RateAt (loadDb es) src tgt (lookupPred .txnTime ns)
      (ctxTimedEntry (makeCtx .txnTime txns (some tgt) (loadDb es)) ns src) :=
  timedCache_spec (loadDb es) (loadDb_sorted es) _ tgt src hsrc ns

/-! ## 7. what `convert_prices` returns -/

/-- the price entry `convert_prices_inner` applies to posting `p` of transaction `t` (`none`: posting unchanged):
    empty commodity ⇒ none; otherwise cache lookup by the posting's commodity (+ binary search by the
    transaction's instant under txn-time) -/
def appliedEntry (cache : Cache) (tgt : String) (t : Txn) (p : Posting) : Option PriceEntry :=
  if p.comm = "" then none else
  match cache with
  | .fixed m => fixedEntry m p.comm tgt
  | .timed m => timedEntry m t.header.ts.ns p.comm

def isTimed : Cache → Bool
  | .timed _ => true
  | .fixed _ => false

/-- the value computed for a posting to which entry `e` is applied: amount × rate in the report commodity;
    the rate is reported per posting only by the timed cache -/
def valued (timed : Bool) (tgt : String) (p : Posting) (e : PriceEntry) : Outcome Converted :=
  (Outcome.ofOption (Dec.mul p.amount e.rate)).map (fun a => ⟨p.acct, tgt, a, if timed then some e.rate else none⟩)

theorem convertPosting_eq (cache : Cache) (tgt : String) (t : Txn) (p : Posting) :
    convertPosting cache tgt t p =
      match appliedEntry cache tgt t p with
      | some e => valued (isTimed cache) tgt p e
      | none => .ok (unchanged p) := by
  unfold convertPosting appliedEntry valued
  by_cases hc : p.comm = ""
  · simp [hc]
  · have hc' : (p.comm == "") = false := by simpa using hc
    simp only [hc', Bool.false_eq_true, if_false, hc]
    cases cache with
    | fixed m =>
      simp only [fixedEntry, isTimed]
      cases mapGet m p.comm <;> simp
    | timed m =>
      simp only [timedEntry, isTimed]
      cases mapGet m p.comm with
      | none => simp
      | some cc =>
        simp only []
        cases hsi : searchIdx cc t.header.ts.ns p.comm <;> simp

/-- the entry applied under each lookup type satisfies the specification -/
theorem appliedEntry_spec (es : List PriceEntry) (txns : List Txn) (tgt : String) (lk : PriceLookup)
    (hlk : lk ≠ .none) (t : Txn) (p : Posting) (hc : p.comm ≠ "") (hu : p.comm ∈ usedCommodities txns tgt) :
    RateAt (loadDb es) p.comm tgt (lookupPred lk t.header.ts.ns)
      (appliedEntry (makeCtx lk txns (some tgt) (loadDb es)).cache tgt t p) := by
  unfold appliedEntry
  simp only [hc, if_false]
  cases lk with
  | none => exact absurd rfl hlk
  | txnTime => exact timedCache_spec (loadDb es) (loadDb_sorted es) _ tgt p.comm hu _
  | lastPrice => exact fixedCache_spec (loadDb es) (loadDb_sorted es) _ tgt none p.comm hu
  | givenTime g => exact fixedCache_spec (loadDb es) (loadDb_sorted es) _ tgt (some g) p.comm hu

theorem appliedEntry_unused (db : List PriceEntry) (txns : List Txn) (tgt : String) (lk : PriceLookup)
    (t : Txn) (p : Posting) (hu : p.comm ∉ usedCommodities txns tgt) :
    appliedEntry (makeCtx lk txns (some tgt) db).cache tgt t p = none := by
  unfold appliedEntry
  by_cases hc : p.comm = ""
  · simp [hc]
  · simp only [hc, if_false]
    cases lk with
    | none => simp [makeCtx, Ctx.default, fixedEntry, mapGet]
    | txnTime => simp [makeCtx, timedEntry, timedCache_unused _ _ _ _ hu]
    | lastPrice => simp [makeCtx, fixedEntry, fixedCache_unused _ _ _ _ _ hu]
    | givenTime g => simp [makeCtx, fixedEntry, fixedCache_unused _ _ _ _ _ hu]

/-- **convert_value**: for every price file, transaction set, lookup type, and every posting of the set:
    a posting without commodity or already in the report commodity stays unchanged; any other posting is
    valued `amount × rate` in the report commodity with `rate` = the entry given by the specification `RateAt`
    (latest at or before the transaction's instant / strictly before the given instant / latest overall),
    and stays unchanged when there is no such entry -/
theorem convert_value (es : List PriceEntry) (txns : List Txn) (tgt : String) (lk : PriceLookup)
    (hlk : lk ≠ .none) (t : Txn) (ht : t ∈ txns) (p : Posting) (hp : p ∈ t.posts) :
    ((p.comm = "" ∨ p.comm = tgt) →
        convertPosting (makeCtx lk txns (some tgt) (loadDb es)).cache tgt t p = .ok (unchanged p)) ∧
    (p.comm ≠ "" → p.comm ≠ tgt →
      ∃ r, RateAt (loadDb es) p.comm tgt (lookupPred lk t.header.ts.ns) r ∧
        convertPosting (makeCtx lk txns (some tgt) (loadDb es)).cache tgt t p =
          match r with
          | some e => valued (decide (lk = .txnTime)) tgt p e
          | none => .ok (unchanged p)) := by
  constructor
  · intro h
    rw [convertPosting_eq]
    have : appliedEntry (makeCtx lk txns (some tgt) (loadDb es)).cache tgt t p = none := by
      rcases h with h | h
      · simp [appliedEntry, h]
      · apply appliedEntry_unused
        intro hm
        exact ((mem_usedCommodities txns tgt p.comm).mp hm).1 h
    rw [this]
  · intro h1 h2
    have hu : p.comm ∈ usedCommodities txns tgt :=
      (mem_usedCommodities txns tgt p.comm).mpr ⟨h2, t, ht, p, hp, rfl⟩
    refine ⟨_, appliedEntry_spec es txns tgt lk hlk t p h1 hu, ?_⟩
    rw [convertPosting_eq]
    have : isTimed (makeCtx lk txns (some tgt) (loadDb es)).cache = decide (lk = .txnTime) := by
      cases lk <;> simp [makeCtx, isTimed] at hlk ⊢
    rw [this]

/-- value layer of `valued`: the converted amount is exactly amount × rate -/
theorem convert_value_units (timed : Bool) (tgt : String) (p : Posting) (e : PriceEntry) (c : Converted)
    (h : valued timed tgt p e = .ok c) :
    c.amount.units * (10:Int)^28 = p.amount.units * e.rate.units ∧ c.comm = tgt ∧ c.acct = p.acct := by
  unfold valued at h
  obtain ⟨a, ha, hc⟩ := (Outcome.map_ok _ _ _).mp h
  cases hm : Dec.mul p.amount e.rate with
  | none => simp [hm, Outcome.ofOption] at ha
  | some a' =>
    simp [hm, Outcome.ofOption] at ha
    subst ha; subst hc
    exact ⟨(Dec.mul_units _ _ _ hm).1, rfl, rfl⟩

/-- conversion never fails with an error; it leaves the modelled domain only when amount × rate is not
    exactly representable -/
theorem convert_never_err (cache : Cache) (tgt : String) (t : Txn) (p : Posting) :
    convertPosting cache tgt t p ≠ .err := by
  rw [convertPosting_eq]
  cases appliedEntry cache tgt t p with
  | none => simp
  | some e =>
    unfold valued
    cases hm : Dec.mul p.amount e.rate <;> simp [hm, Outcome.ofOption, Outcome.map]

/-- **no_invented**: whenever conversion changes a posting (any posting, any transaction), the result is in
    the report commodity and its amount is `amount × rate` for a rate that is *literally in the price file*
    for the pair (posting's commodity → report commodity): no inverse rate, no chain through a third
    commodity, no rate of another pair -/
theorem no_invented (es : List PriceEntry) (txns : List Txn) (tgt : String) (lk : PriceLookup)
    (t : Txn) (p : Posting) (c : Converted)
    (h : convertPosting (makeCtx lk txns (some tgt) (loadDb es)).cache tgt t p = .ok c) (hch : c ≠ unchanged p) :
    ∃ e ∈ es, e.base = p.comm ∧ e.target = tgt ∧ Dec.mul p.amount e.rate = some c.amount ∧
      c.comm = tgt ∧ c.acct = p.acct ∧ p.comm ≠ "" ∧ p.comm ≠ tgt := by
  rw [convertPosting_eq] at h
  by_cases hu : p.comm ∈ usedCommodities txns tgt
  · by_cases hc : p.comm = ""
    · simp [appliedEntry, hc] at h; exact absurd h.symm hch
    · by_cases hlk : lk = .none
      · subst hlk
        rw [appliedEntry_unused] at h
        · simp at h; exact absurd h.symm hch
        · -- with lookup none the cache is empty: treat through the generic lemma on an empty used set
          exact absurd h (by
            simp [appliedEntry, hc, makeCtx, Ctx.default, fixedEntry, mapGet] at h
            exact absurd h.symm hch)
      · have hspec := appliedEntry_spec es txns tgt lk hlk t p hc hu
        cases ha : appliedEntry (makeCtx lk txns (some tgt) (loadDb es)).cache tgt t p with
        | none => rw [ha] at h; simp at h; exact absurd h.symm hch
        | some e =>
          rw [ha] at h hspec
          obtain ⟨hm, hb, ht', _, _⟩ := hspec
          simp only at h
          unfold valued at h
          obtain ⟨a, hao, hcc⟩ := (Outcome.map_ok _ _ _).mp h
          cases hmul : Dec.mul p.amount e.rate with
          | none => simp [hmul, Outcome.ofOption] at hao
          | some a' =>
            simp [hmul, Outcome.ofOption] at hao
            subst hao; subst hcc
            exact ⟨e, loadDb_subset es e hm, hb, ht', hmul, rfl, rfl, hc,
              ((mem_usedCommodities txns tgt p.comm).mp hu).1⟩
  · rw [appliedEntry_unused _ _ _ _ _ _ hu] at h
    simp at h; exact absurd h.symm hch

/-- without a report commodity or with lookup `none` nothing is converted -/
theorem no_conversion (txns : List Txn) (db : List PriceEntry) (t : Txn) :
    (∀ lk, convertPrices (makeCtx lk txns none db) t = .ok (t.posts.map unchanged)) ∧
    (∀ rc, convertPrices (makeCtx .none txns rc db) t = .ok (t.posts.map unchanged)) := by
  constructor
  · intro lk; simp [makeCtx, Ctx.default, convertPrices]
  · intro rc; cases rc <;> simp [makeCtx, Ctx.default, convertPrices]

theorem mapO_ok {α β} (f : α → Outcome β) : ∀ (l : List α) (bs : List β),
    mapO f l = .ok bs → bs.length = l.length ∧ ∀ ab ∈ l.zip bs, f ab.1 = .ok ab.2 := by
  intro l
  induction l with
  | nil => intro bs h; simp [mapO] at h; subst h; simp
  | cons a t ih =>
    intro bs h
    simp only [mapO] at h
    split at h
    · rename_i b hfa
      split at h
      · rename_i bs' hm
        cases h
        obtain ⟨hl, hz⟩ := ih bs' hm
        refine ⟨by simp [hl], ?_⟩
        intro ab hab
        simp only [List.zip_cons_cons, List.mem_cons] at hab
        rcases hab with rfl | hab
        · exact hfa
        · exact hz ab hab
      · cases h
      · cases h
    · cases h
    · cases h

/-- `convert_prices` converts posting by posting, in order, same number of postings -/
theorem convertPrices_pointwise (lk : PriceLookup) (txns : List Txn) (tgt : String) (db : List PriceEntry)
    (t : Txn) (cs : List Converted) (hlk : lk ≠ .none)
    (h : convertPrices (makeCtx lk txns (some tgt) db) t = .ok cs) :
    cs.length = t.posts.length ∧
      ∀ pc ∈ t.posts.zip cs, convertPosting (makeCtx lk txns (some tgt) db).cache tgt t pc.1 = .ok pc.2 := by
  have hin : (makeCtx lk txns (some tgt) db).inCommodity = some tgt := by
    cases lk <;> simp [makeCtx] at hlk ⊢
  unfold convertPrices at h
  rw [hin] at h
  exact mapO_ok _ _ _ h

/-! ## 8. metadata (fixed lookups) -/

theorem mem_sortByKey {β} (m : List (String × β)) (x : String × β) : x ∈ sortByKey m ↔ x ∈ m := by
  unfold sortByKey; exact List.mem_mergeSort

theorem sortByKey_strict {β} (m : List (String × β)) (h : (keys m).Nodup) :
    (sortByKey m).Pairwise (fun a b => a.1 < b.1) := by
  have hle : (sortByKey m).Pairwise (fun a b => decide (a.1 ≤ b.1) = true) := by
    unfold sortByKey
    apply List.pairwise_mergeSort
    · intro a b c h1 h2
      simp only [decide_eq_true_eq] at h1 h2 ⊢
      exact String.le_trans h1 h2
    · intro a b
      simp only [Bool.or_eq_true, decide_eq_true_eq]
      exact String.le_total a.1 b.1
  have hnd : (keys (sortByKey m)).Nodup := by
    unfold keys sortByKey
    exact ((List.mergeSort_perm m _).map _).nodup_iff.mpr h
  have hne : (sortByKey m).Pairwise (fun a b => a.1 ≠ b.1) := by
    unfold keys at hnd
    exact (List.pairwise_map.mp hnd)
  refine (List.Pairwise.and hle hne).imp ?_
  intro a b ⟨h1, h2⟩
  have h1' : a.1 ≤ b.1 := by simpa using h1
  exact String.not_le.mp (fun hba => h2 (String.le_antisymm h1' hba))

theorem fixedCache_keys_nodup (used : List String) (tgt : String) (bound : Option Int) (db : List PriceEntry) :
    (keys (fixedCache used tgt bound db)).Nodup := by
  unfold fixedCache
  exact keys_foldl_nodup _ [] (by simp [keys])

/-- **metadata_true**: under the fixed lookups (`last-price`, `given-time`) the metadata records are exactly the
    (time, source commodity, rate, report commodity) of the price entries that `convert_prices` applies to some
    posting of the transaction set; every source commodity appears once, in name order.
    Hypothesis: price entries have a non-empty base commodity (guaranteed by the price-file grammar). -/
theorem metadata_true (es : List PriceEntry) (hwf : ∀ e ∈ es, e.base ≠ "") (txns : List Txn) (tgt : String)
    (lk : PriceLookup) (hlk : lk = .lastPrice ∨ ∃ g, lk = .givenTime g) :
    (∀ r : PriceRecord, r ∈ metadata (makeCtx lk txns (some tgt) (loadDb es)) ↔
      ∃ e, ∃ t ∈ txns, ∃ p ∈ t.posts,
        appliedEntry (makeCtx lk txns (some tgt) (loadDb es)).cache tgt t p = some e ∧
        r = ⟨some e.ns, e.base, some e.rate, tgt⟩) ∧
    (metadata (makeCtx lk txns (some tgt) (loadDb es))).Pairwise (fun a b => a.source < b.source) := by
  -- both fixed lookups have the same shape: a fixed cache with some bound
  obtain ⟨bound, hctx⟩ : ∃ bound, makeCtx lk txns (some tgt) (loadDb es) =
      ⟨.fixed (fixedCache (usedCommodities txns tgt) tgt bound (loadDb es)), some tgt⟩ := by
    rcases hlk with rfl | ⟨g, rfl⟩
    · exact ⟨none, rfl⟩
    · exact ⟨some g, rfl⟩
  rw [hctx]
  generalize hm : fixedCache (usedCommodities txns tgt) tgt bound (loadDb es) = m
  have hnd : (keys m).Nodup := by rw [← hm]; exact fixedCache_keys_nodup _ _ _ _
  constructor
  · intro r
    simp only [metadata, List.mem_map, mem_sortByKey, appliedEntry]
    constructor
    · rintro ⟨⟨k, ns, rate⟩, hkv, rfl⟩
      have hget : mapGet m k = some (ns, rate) := (mem_iff_mapGet m hnd k (ns, rate)).mp hkv
      have hused : k ∈ usedCommodities txns tgt := by
        refine Classical.byContradiction (fun hn => ?_)
        rw [← hm, fixedCache_unused _ _ _ _ _ hn] at hget
        cases hget
      obtain ⟨_, t, ht, p, hp, hpc⟩ := (mem_usedCommodities txns tgt k).mp hused
      have hspec := fixedCache_spec (loadDb es) (loadDb_sorted es) (usedCommodities txns tgt) tgt bound k hused
      rw [hm] at hspec
      simp only [fixedEntry, hget, Option.map_some] at hspec
      have hk : k ≠ "" := by
        have := hwf _ (loadDb_subset es _ hspec.1)
        simpa using this
      refine ⟨⟨ns, k, rate, tgt⟩, t, ht, p, hp, ?_, rfl⟩
      simp [hpc, hk, fixedEntry, hget]
    · rintro ⟨e, t, ht, p, hp, happ, rfl⟩
      by_cases hc : p.comm = ""
      · simp [hc] at happ
      · simp only [hc, if_false, fixedEntry] at happ
        cases hget : mapGet m p.comm with
        | none => simp [hget] at happ
        | some c =>
          simp only [hget, Option.map_some, Option.some.injEq] at happ
          subst happ
          exact ⟨(p.comm, c), (mem_iff_mapGet m hnd p.comm c).mpr hget, rfl⟩
  · simp only [metadata]
    exact List.pairwise_map.mpr ((sortByKey_strict m hnd).imp (fun h => h))

/-- corollary: every record of the metadata satisfies the specification `RateAt` for its source commodity -/
theorem metadata_rateAt (es : List PriceEntry) (txns : List Txn) (tgt : String)
    (lk : PriceLookup) (hlk : lk = .lastPrice ∨ ∃ g, lk = .givenTime g) (r : PriceRecord)
    (hr : r ∈ metadata (makeCtx lk txns (some tgt) (loadDb es))) :
    ∃ e, RateAt (loadDb es) r.source tgt (lookupPred lk 0) (some e) ∧
      r = ⟨some e.ns, e.base, some e.rate, tgt⟩ ∧ r.source ∈ usedCommodities txns tgt := by
  obtain ⟨bound, hctx, hpred⟩ : ∃ bound, makeCtx lk txns (some tgt) (loadDb es) =
      ⟨.fixed (fixedCache (usedCommodities txns tgt) tgt bound (loadDb es)), some tgt⟩ ∧
      lookupPred lk 0 = boundPred bound := by
    rcases hlk with rfl | ⟨g, rfl⟩
    · exact ⟨none, rfl, rfl⟩
    · exact ⟨some g, rfl, rfl⟩
  rw [hctx] at hr
  rw [hpred]
  simp only [metadata, List.mem_map, mem_sortByKey] at hr
  obtain ⟨⟨k, ns, rate⟩, hkv, rfl⟩ := hr
  have hnd := fixedCache_keys_nodup (usedCommodities txns tgt) tgt bound (loadDb es)
  have hget := (mem_iff_mapGet _ hnd k (ns, rate)).mp hkv
  have hused : k ∈ usedCommodities txns tgt := by
    refine Classical.byContradiction (fun hn => ?_)
    rw [fixedCache_unused _ _ _ _ _ hn] at hget
    cases hget
  have hspec := fixedCache_spec (loadDb es) (loadDb_sorted es) (usedCommodities txns tgt) tgt bound k hused
  simp only [fixedEntry, hget, Option.map_some] at hspec
  exact ⟨⟨ns, k, rate, tgt⟩, hspec, rfl, hused⟩

theorem keys_foldl_timed_nodup (tgt : String) (db : List PriceEntry) :
    ∀ (used : List String) (m : List (String × List PriceEntry)), (keys m).Nodup →
    (keys (used.foldl (fun m comm => if (commCache comm tgt db).isEmpty then m
        else mapInsert m comm (commCache comm tgt db)) m)).Nodup := by
  intro used
  induction used with
  | nil => intro m h; simpa using h
  | cons a t ih =>
    intro m h
    simp only [List.foldl_cons]
    apply ih
    split
    · exact h
    · exact keys_insert_nodup m _ _ h

/-- txn-time: the metadata names (without time and rate, which vary per transaction) exactly the used
    commodities that have at least one entry into the report commodity; each once, in name order.
    The rate applied to a posting is reported with the posting itself (`valued true …` in `convert_value`). -/
theorem metadata_timed (db : List PriceEntry) (txns : List Txn) (tgt : String) :
    (∀ r : PriceRecord, r ∈ metadata (makeCtx .txnTime txns (some tgt) db) ↔
      ∃ src ∈ usedCommodities txns tgt, (∃ e ∈ db, e.base = src ∧ e.target = tgt) ∧ r = ⟨none, src, none, tgt⟩) ∧
    (metadata (makeCtx .txnTime txns (some tgt) db)).Pairwise (fun a b => a.source < b.source) := by
  have hnd : (keys (timedCache (usedCommodities txns tgt) tgt db)).Nodup := by
    unfold timedCache; exact keys_foldl_timed_nodup tgt db _ [] (by simp [keys])
  have hne : ∀ src, (commCache src tgt db).isEmpty = false ↔ ∃ e ∈ db, e.base = src ∧ e.target = tgt := by
    intro src
    unfold commCache
    constructor
    · intro h
      cases hl : (List.filter (fun e => src == e.base && e.target == tgt) db).mergeSort (fun a b => decide (a.ns ≤ b.ns)) with
      | nil => rw [hl] at h; simp at h
      | cons e l =>
        have : e ∈ (List.filter (fun e => src == e.base && e.target == tgt) db).mergeSort (fun a b => decide (a.ns ≤ b.ns)) := by
          rw [hl]; exact List.mem_cons_self
        have := List.mem_filter.mp (List.mem_mergeSort.mp this)
        simp only [Bool.and_eq_true, beq_iff_eq] at this
        exact ⟨e, this.1, this.2.1.symm, this.2.2⟩
    · rintro ⟨e, he, hb, ht⟩
      have : e ∈ (List.filter (fun e => src == e.base && e.target == tgt) db).mergeSort (fun a b => decide (a.ns ≤ b.ns)) := by
        rw [List.mem_mergeSort, List.mem_filter]
        simp [he, hb, ht]
      cases hl : (List.filter (fun e => src == e.base && e.target == tgt) db).mergeSort (fun a b => decide (a.ns ≤ b.ns)) with
      | nil => rw [hl] at this; cases this
      | cons _ _ => rfl
  constructor
  · intro r
    simp only [makeCtx, metadata, List.mem_map, mem_sortByKey]
    constructor
    · rintro ⟨⟨k, cc⟩, hkv, rfl⟩
      have hget := (mem_iff_mapGet _ hnd k cc).mp hkv
      unfold timedCache at hget
      rw [mapGet_foldl_timed] at hget
      split at hget
      · rename_i h
        exact ⟨k, h.1, (hne k).mp h.2, rfl⟩
      · simp [mapGet] at hget
    · rintro ⟨src, hu, hex, rfl⟩
      refine ⟨(src, commCache src tgt db), ?_, rfl⟩
      apply (mem_iff_mapGet _ hnd src _).mpr
      unfold timedCache
      rw [mapGet_foldl_timed, if_pos ⟨hu, (hne src).mpr hex⟩]
  · simp only [makeCtx, metadata]
    exact List.pairwise_map.mpr ((sortByKey_strict _ hnd).imp (fun h => h))

/-- corollary of `db_order_free`: every converted figure and the metadata are independent of the order of the
    entries in the price file -/
theorem result_order_free (es es' : List PriceEntry) (hp : es.Perm es') (hd : DistinctKeys es)
    (lk : PriceLookup) (txns : List Txn) (rc : Option String) (t : Txn) :
    convertPrices (makeCtx lk txns rc (loadDb es)) t = convertPrices (makeCtx lk txns rc (loadDb es')) t ∧
    metadata (makeCtx lk txns rc (loadDb es)) = metadata (makeCtx lk txns rc (loadDb es')) := by
  rw [db_order_free es es' hp hd]
  exact ⟨rfl, rfl⟩

/-! ## 9. non-vacuity and regression witnesses

A concrete price file in arbitrary order: three `USD → EUR` entries (instants 10, 20, 30), a duplicate key at
instant 10 (the first in file order wins), the inverse pair `EUR → USD`, a chain `ACME → GBP → EUR`, and a self
rate `EUR → EUR` (F10).  Transactions at instants 9, 20 and 25. -/
namespace Ex

def d (n : Int) : Dec := Dec.ofInt n
def hdr (ns : Int) : Header := ⟨⟨ns, 0⟩, none, none, none, none, none, none⟩
def post (a : String) (n : Int) (c : String) : Posting := ⟨[a], c, d n, d n, false, c, none⟩

def file : List PriceEntry := [
  ⟨30, "USD", d 4, "EUR"⟩, ⟨10, "USD", d 2, "EUR"⟩, ⟨20, "EUR", d 7, "USD"⟩, ⟨20, "USD", d 3, "EUR"⟩,
  ⟨5, "EUR", d 2, "EUR"⟩, ⟨15, "ACME", d 9, "GBP"⟩, ⟨15, "GBP", d 8, "EUR"⟩, ⟨10, "USD", d 6, "EUR"⟩]

def db : List PriceEntry := [
  ⟨5, "EUR", d 2, "EUR"⟩, ⟨10, "USD", d 2, "EUR"⟩, ⟨15, "ACME", d 9, "GBP"⟩, ⟨15, "GBP", d 8, "EUR"⟩,
  ⟨20, "EUR", d 7, "USD"⟩, ⟨20, "USD", d 3, "EUR"⟩, ⟨30, "USD", d 4, "EUR"⟩]

def t0 : Txn := ⟨hdr 9, [post "a" 1 "USD", post "b" (-1) "USD"]⟩
def t1 : Txn := ⟨hdr 20, [post "a" 10 "USD", post "b" (-10) "USD"]⟩
def t2 : Txn := ⟨hdr 25, [post "c" 5 "EUR", post "e" 1 "ACME", post "f" 1 ""]⟩
def txns : List Txn := [t0, t1, t2]

/-- sorted by (instant, base, target); of the two entries with key (10, USD, EUR) the first in file order stays -/
theorem load_file : loadDb file = db := by
  simp [loadDb, file, db, List.mergeSort, entryLe, dedup, dedupFrom, entryEq, d, Dec.ofInt]

/-- the hypotheses of `db_order_free` / `loadDb_perm_of_distinct` / `metadata_true` are satisfiable -/
example : DistinctKeys (file.take 7) := by unfold DistinctKeys; decide
example : ∀ e ∈ file, e.base ≠ "" := by decide
example : loadDb (file.take 7) = loadDb (file.take 7).reverse :=
  db_order_free _ _ (List.reverse_perm _).symm (by unfold DistinctKeys; decide)

theorem usd_used : "USD" ∈ usedCommodities txns "EUR" :=
  (mem_usedCommodities txns "EUR" "USD").mpr ⟨by decide, t1, by simp [txns], post "a" 10 "USD", by simp [t1], rfl⟩

theorem acme_used : "ACME" ∈ usedCommodities txns "EUR" :=
  (mem_usedCommodities txns "EUR" "ACME").mpr ⟨by decide, t2, by simp [txns], post "e" 1 "ACME", by simp [t2], rfl⟩

/-- boundary: an entry exactly at the transaction instant is the one applied under txn-time (`≤`) -/
example : ctxTimedEntry (makeCtx .txnTime txns (some "EUR") (loadDb file)) 20 "USD" = some ⟨20, "USD", d 3, "EUR"⟩ := by
  apply RateAt_unique (loadDb file) (loadDb_sorted file) "USD" "EUR" _ _ _ (timed_rate file txns "EUR" "USD" usd_used 20)
  rw [load_file]
  refine ⟨by simp [db], rfl, rfl, by simp [lookupPred], ?_⟩
  intro e' he' hb ht hp
  simp [db] at he'
  rcases he' with rfl | rfl | rfl | rfl | rfl | rfl | rfl <;> simp_all [lookupPred]

/-- one nanosecond earlier the previous entry applies (and of the duplicate key the first one: rate 2, not 6) -/
example : ctxTimedEntry (makeCtx .txnTime txns (some "EUR") (loadDb file)) 19 "USD" = some ⟨10, "USD", d 2, "EUR"⟩ := by
  apply RateAt_unique (loadDb file) (loadDb_sorted file) "USD" "EUR" _ _ _ (timed_rate file txns "EUR" "USD" usd_used 19)
  rw [load_file]
  refine ⟨by simp [db], rfl, rfl, by simp [lookupPred], ?_⟩
  intro e' he' hb ht hp
  simp [db] at he'
  rcases he' with rfl | rfl | rfl | rfl | rfl | rfl | rfl <;> simp_all [lookupPred]

/-- no entry at or before the transaction (instant 9): no rate, the posting stays unchanged -/
example : ctxTimedEntry (makeCtx .txnTime txns (some "EUR") (loadDb file)) 9 "USD" = none := by
  apply RateAt_unique (loadDb file) (loadDb_sorted file) "USD" "EUR" _ _ _ (timed_rate file txns "EUR" "USD" usd_used 9)
  rw [load_file]
  intro e' he' hb ht
  simp [db] at he'
  rcases he' with rfl | rfl | rfl | rfl | rfl | rfl | rfl <;> simp_all [lookupPred]

/-- boundary: given-time is strict (`<`): with the given instant 20 the entry at 20 is not used -/
example : ctxFixedEntry (makeCtx (.givenTime 20) txns (some "EUR") (loadDb file)) "USD" "EUR" = some ⟨10, "USD", d 2, "EUR"⟩ := by
  apply RateAt_unique (loadDb file) (loadDb_sorted file) "USD" "EUR" _ _ _
    (fixed_rate file txns "EUR" (.givenTime 20) (Or.inr ⟨20, rfl⟩) "USD" usd_used 0)
  rw [load_file]
  refine ⟨by simp [db], rfl, rfl, by simp [lookupPred], ?_⟩
  intro e' he' hb ht hp
  simp [db] at he'
  rcases he' with rfl | rfl | rfl | rfl | rfl | rfl | rfl <;> simp_all [lookupPred]

/-- last-price: the latest entry overall -/
example : ctxFixedEntry (makeCtx .lastPrice txns (some "EUR") (loadDb file)) "USD" "EUR" = some ⟨30, "USD", d 4, "EUR"⟩ := by
  apply RateAt_unique (loadDb file) (loadDb_sorted file) "USD" "EUR" _ _ _
    (fixed_rate file txns "EUR" .lastPrice (Or.inl rfl) "USD" usd_used 0)
  rw [load_file]
  refine ⟨by simp [db], rfl, rfl, by simp [lookupPred], ?_⟩
  intro e' he' hb ht hp
  simp [db] at he'
  rcases he' with rfl | rfl | rfl | rfl | rfl | rfl | rfl <;> simp_all [lookupPred]

/-- only a chain `ACME → GBP → EUR` exists: no rate is invented for ACME -/
example : ctxFixedEntry (makeCtx .lastPrice txns (some "EUR") (loadDb file)) "ACME" "EUR" = none := by
  apply RateAt_unique (loadDb file) (loadDb_sorted file) "ACME" "EUR" _ _ _
    (fixed_rate file txns "EUR" .lastPrice (Or.inl rfl) "ACME" acme_used 0)
  rw [load_file]
  intro e' he' hb ht
  simp [db] at he'
  rcases he' with rfl | rfl | rfl | rfl | rfl | rfl | rfl <;> simp_all

/-- regression witness of F10 (fixed by fixes/F10-never-convert-report-commodity.diff): with the self rate
    `EUR → EUR` in the price file, a posting in the report commodity EUR stays unchanged under every lookup -/
example (lk : PriceLookup) (hlk : lk ≠ .none) :
    convertPosting (makeCtx lk txns (some "EUR") (loadDb file)).cache "EUR" t2 (post "c" 5 "EUR")
      = .ok (unchanged (post "c" 5 "EUR")) :=
  (convert_value file txns "EUR" lk hlk t2 (by simp [txns]) (post "c" 5 "EUR") (by simp [t2])).1 (Or.inr rfl)

/-- regression witness of F19 (fixed by fixes/F19-last-price-unbounded.diff): last-price uses an entry at the
    largest representable instant (jiff `Timestamp::MAX`) -/
def tsMax : Int := 253402207200999999999
example : ctxFixedEntry (makeCtx .lastPrice txns (some "EUR") (loadDb [⟨tsMax, "USD", d 5, "EUR"⟩])) "USD" "EUR"
    = some ⟨tsMax, "USD", d 5, "EUR"⟩ := by
  apply RateAt_unique _ (loadDb_sorted _) "USD" "EUR" _ _ _
    (fixed_rate [⟨tsMax, "USD", d 5, "EUR"⟩] txns "EUR" .lastPrice (Or.inl rfl) "USD" usd_used 0)
  have : loadDb [⟨tsMax, "USD", d 5, "EUR"⟩] = [⟨tsMax, "USD", d 5, "EUR"⟩] := by
    simp [loadDb, dedup, dedupFrom]
  rw [this]
  refine ⟨by simp, rfl, rfl, by simp [lookupPred], ?_⟩
  intro e' he' _ _ _
  simp at he'; subst he'; exact Int.le_refl _

end Ex

end C07
end Tackler
